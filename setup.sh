#!/bin/sh
# setup_cmd: clean offline build of the whole framework (Coq .vo, extracted model runner, Go driver)
set -e
cd "$(dirname "$0")"
export GOFLAGS=-mod=mod GOPROXY=off GOSUMDB=off GOTOOLCHAIN=local
mkdir -p build evidence replays
python3 translate/run.py all
cd coq
coq_makefile -f _CoqProject -o Makefile >/dev/null
timeout 3000 make -j16 >../build/coq-setup.log 2>&1 || { tail -30 ../build/coq-setup.log; exit 1; }
cd ..
sh ocaml/build.sh
cp /repo/go.sum harness/go.sum
(cd harness && go build -tags verif -o ../build/driver ./cmd/driver)
echo setup ok
