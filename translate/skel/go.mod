module verif/skel

go 1.21
