// skel: translator T3.  Reads the Go sources of the key-generation and query pipelines of
// DOSNetwork/core and emits, for each handler, the network of goroutine skeletons as a Coq term
// (Models/Pipes.v), together with the certificates (ranks, rankings, must/may event sets) that
// Models/PipesCheck.v verifies.  Data is abstracted away; what is kept is every channel operation,
// close, WaitGroup operation, cancel call and the branching structure.  The translator symbolically
// executes the handler: calls to functions of the parsed packages that contain channel operations
// are inlined, `go` statements start new processes, make(chan) allocates channels.
//
// usage: skel <repo> <out.v>
package main

import (
	"fmt"
	"go/ast"
	"go/parser"
	"go/token"
	"os"
	"path/filepath"
	"sort"
	"strconv"
	"strings"
)

// ---------------------------------------------------------------- abstract values

type Val interface{}
type VChan struct{ id int } // id < 0: nil channel
type VChanList struct{ ids []int }
type VWG struct{ id int }
type VCtx struct{}
type VCancel struct{}
type VInt struct{ n int }
type VReq struct {
	reply int
	pkg   string
}
type VEnvChan struct{ name string }
type VUnknown struct{}
type VNonNil struct{}
type VBool struct{ b bool }
type VTuple []Val
type VFunc struct {
	lit  *ast.FuncLit
	decl *ast.FuncDecl
	env  *Env
	pkg  string
}

type Env struct {
	vars   map[string]*Val
	parent *Env
}

func newEnv(p *Env) *Env { return &Env{vars: map[string]*Val{}, parent: p} }
func (e *Env) lookup(n string) *Val {
	for x := e; x != nil; x = x.parent {
		if v, ok := x.vars[n]; ok {
			return v
		}
	}
	return nil
}
func (e *Env) define(n string, v Val) {
	if n == "_" {
		return
	}
	vv := v
	e.vars[n] = &vv
}
func (e *Env) assign(n string, v Val) {
	if n == "_" {
		return
	}
	if p := e.lookup(n); p != nil {
		*p = v
		return
	}
	e.define(n, v)
}

// ---------------------------------------------------------------- the network under construction

type Arm struct {
	recv   bool
	c      int
	kv, kc int
}
type Node struct {
	kind       string // sel tau close wgdone wgwait cancel loop exit
	arms       []Arm
	done, dflt int
	succs      []int
	c, k, k2   int
	src        string
}
type Proc struct {
	name  string
	nodes []Node
}
type Chan struct {
	name    string
	cap     int
	session bool // made by session code: must be closed at the end unless handed to the environment
	handed  bool
}
type WG struct {
	name string
	add  int
}
type Net struct {
	name   string
	procs  []*Proc
	chans  []Chan
	wgs    []WG
	notes  []string
	failed []string
}

func (n *Net) newChan(name string, cap int, session bool) int {
	n.chans = append(n.chans, Chan{name: name, cap: cap, session: session})
	return len(n.chans) - 1
}

func (p *Proc) add(nd Node) int {
	p.nodes = append(p.nodes, nd)
	return len(p.nodes) - 1
}

// ---------------------------------------------------------------- parsed sources

type Pkg struct {
	name  string
	funcs map[string]*ast.FuncDecl
}

var fset = token.NewFileSet()
var pkgs = map[string]*Pkg{}
var relevantFn = map[*ast.FuncDecl]bool{}

func parseDir(repo, dir, name string) {
	p := &Pkg{name: name, funcs: map[string]*ast.FuncDecl{}}
	files, _ := filepath.Glob(filepath.Join(repo, dir, "*.go"))
	sort.Strings(files)
	for _, f := range files {
		if strings.HasSuffix(f, "_test.go") || strings.HasSuffix(f, "verif_hooks.go") || strings.HasSuffix(f, ".pb.go") {
			continue
		}
		af, err := parser.ParseFile(fset, f, nil, 0)
		if err != nil {
			fmt.Fprintln(os.Stderr, "parse:", err)
			os.Exit(2)
		}
		for _, d := range af.Decls {
			if fd, ok := d.(*ast.FuncDecl); ok && fd.Body != nil {
				p.funcs[fd.Name.Name] = fd
			}
		}
	}
	pkgs[name] = p
}

// The networks treat a few calls as opaque and ASSUME they return.  For the document fetch that
// assumption rests on the HTTP client's overall timeout; it is checked here, on the syntax tree: the
// function must build an http.Client literal with a Timeout field (a transport-level header timeout
// does not bound the body read).
func opaqueAssumptions() []string {
	var out []string
	fd := pkgs["dosnode"].funcs["dataFetch"]
	if fd == nil {
		return []string{"dosnode.dataFetch not found: the assumption that the document fetch returns cannot be checked"}
	}
	bounded := false
	ast.Inspect(fd.Body, func(x ast.Node) bool {
		cl, ok := x.(*ast.CompositeLit)
		if !ok {
			return true
		}
		if se, ok := cl.Type.(*ast.SelectorExpr); ok && se.Sel.Name == "Client" {
			if id, ok := se.X.(*ast.Ident); ok && id.Name == "http" {
				for _, el := range cl.Elts {
					if kv, ok := el.(*ast.KeyValueExpr); ok {
						if k, ok := kv.Key.(*ast.Ident); ok && k.Name == "Timeout" {
							bounded = true
						}
					}
				}
			}
		}
		return true
	})
	if !bounded {
		out = append(out, pos(fd)+": dataFetch builds no http.Client with an overall Timeout: the document fetch is not bounded, the assumption that this opaque call returns does not hold")
	}
	return out
}

func pos(n ast.Node) string {
	p := fset.Position(n.Pos())
	return fmt.Sprintf("%s:%d", filepath.Base(p.Filename), p.Line)
}

// does the syntax tree contain anything the skeleton keeps (directly)?
func directRelevant(n ast.Node) bool {
	found := false
	ast.Inspect(n, func(x ast.Node) bool {
		if found {
			return false
		}
		switch y := x.(type) {
		case *ast.GoStmt, *ast.SendStmt, *ast.SelectStmt:
			found = true
		case *ast.UnaryExpr:
			if y.Op == token.ARROW {
				found = true
			}
		case *ast.CallExpr:
			if id, ok := y.Fun.(*ast.Ident); ok && (id.Name == "close" || id.Name == "cancel") {
				found = true
			}
			if id, ok := y.Fun.(*ast.Ident); ok && id.Name == "make" && len(y.Args) > 0 {
				if _, ok := y.Args[0].(*ast.ChanType); ok {
					found = true
				}
			}
			if se, ok := y.Fun.(*ast.SelectorExpr); ok {
				if id, ok := se.X.(*ast.Ident); ok && id.Name == "wg" {
					found = true
				}
			}
		}
		return true
	})
	return found
}

func computeRelevant() {
	for _, p := range pkgs {
		for _, fd := range p.funcs {
			if directRelevant(fd.Body) {
				relevantFn[fd] = true
			}
		}
	}
	for changed := true; changed; {
		changed = false
		for _, p := range pkgs {
			for _, fd := range p.funcs {
				if relevantFn[fd] {
					continue
				}
				ast.Inspect(fd.Body, func(x ast.Node) bool {
					if ce, ok := x.(*ast.CallExpr); ok {
						if callee := resolveStatic(p.name, ce); callee != nil && relevantFn[callee] {
							relevantFn[fd] = true
							changed = true
						}
					}
					return true
				})
			}
		}
	}
}

// functions never inlined: perpetual loops and things outside the session
var neverInline = map[string]bool{"Loop": true, "queryLoop": true, "onchainLoop": true, "End": true, "Start": true}

func resolveStatic(pkg string, ce *ast.CallExpr) *ast.FuncDecl {
	switch f := ce.Fun.(type) {
	case *ast.Ident:
		if fd, ok := pkgs[pkg].funcs[f.Name]; ok && fd.Recv == nil {
			return fd
		}
	case *ast.SelectorExpr:
		if id, ok := f.X.(*ast.Ident); ok {
			if p, ok := pkgs[id.Name]; ok {
				if fd, ok := p.funcs[f.Sel.Name]; ok && fd.Recv == nil {
					return fd
				}
				return nil
			}
		}
		if neverInline[f.Sel.Name] {
			return nil
		}
		// a method: unique name among the parsed packages
		var hit *ast.FuncDecl
		for _, p := range pkgs {
			if fd, ok := p.funcs[f.Sel.Name]; ok && fd.Recv != nil {
				if hit != nil {
					return nil
				}
				hit = fd
			}
		}
		return hit
	}
	return nil
}

func pkgOf(fd *ast.FuncDecl) string {
	for n, p := range pkgs {
		for _, f := range p.funcs {
			if f == fd {
				return n
			}
		}
	}
	return ""
}

// relevant for control flow or channels: used to skip pure blocks
func blockRelevant(pkg string, n ast.Node) bool {
	if n == nil {
		return false
	}
	found := false
	ast.Inspect(n, func(x ast.Node) bool {
		if found {
			return false
		}
		switch y := x.(type) {
		case *ast.GoStmt, *ast.SendStmt, *ast.SelectStmt, *ast.ReturnStmt, *ast.BranchStmt, *ast.DeferStmt:
			found = true
		case *ast.UnaryExpr:
			if y.Op == token.ARROW {
				found = true
			}
		case *ast.FuncLit:
			return false
		case *ast.CallExpr:
			if id, ok := y.Fun.(*ast.Ident); ok && (id.Name == "close" || id.Name == "cancel" || id.Name == "make") {
				found = true
			}
			if se, ok := y.Fun.(*ast.SelectorExpr); ok {
				if id, ok := se.X.(*ast.Ident); ok && id.Name == "wg" {
					found = true
				}
			}
			if fd := resolveStatic(pkg, y); fd != nil && relevantFn[fd] {
				found = true
			}
		}
		return true
	})
	return found
}

// ---------------------------------------------------------------- translation context

type deferred struct {
	call *ast.CallExpr
	env  *Env
	pkg  string
}

type Ctx struct {
	net     *Net
	proc    *Proc
	pkg     string
	env     *Env
	brk     func() int
	cont    func() int
	ret     func(vals []Val) int
	defers  []deferred
	labels  map[string][2]func() int
	choices *choiceState
}

type choiceState struct {
	script []int
	used   int
	need   int // arity of the first missing choice, 0 if none
}

type needChoice struct{}

func memo(k func() int) func() int {
	done := false
	v := 0
	return func() int {
		if !done {
			v = k()
			done = true
		}
		return v
	}
}

func (t Ctx) fail(n ast.Node, msg string) {
	t.net.failed = append(t.net.failed, pos(n)+": "+msg)
}

// ---------------------------------------------------------------- expressions

func (t Ctx) eval(e ast.Expr) Val {
	switch x := e.(type) {
	case nil:
		return VUnknown{}
	case *ast.ParenExpr:
		return t.eval(x.X)
	case *ast.Ident:
		if x.Name == "nil" {
			return VChan{-1}
		}
		if p := t.env.lookup(x.Name); p != nil {
			return *p
		}
		if fd, ok := pkgs[t.pkg].funcs[x.Name]; ok && fd.Recv == nil {
			return VFunc{decl: fd, env: newEnv(nil), pkg: t.pkg}
		}
		return VUnknown{}
	case *ast.BasicLit:
		if x.Kind == token.INT {
			n, _ := strconv.Atoi(x.Value)
			return VInt{n}
		}
		return VUnknown{}
	case *ast.FuncLit:
		return VFunc{lit: x, env: t.env, pkg: t.pkg}
	case *ast.SelectorExpr:
		if x.Sel.Name == "reqSignc" || x.Sel.Name == "bufToNode" {
			return VEnvChan{x.Sel.Name}
		}
		return VUnknown{}
	case *ast.IndexExpr:
		l := t.eval(x.X)
		i := t.eval(x.Index)
		if cl, ok := l.(VChanList); ok {
			if vi, ok := i.(VInt); ok && vi.n >= 0 && vi.n < len(cl.ids) {
				return VChan{cl.ids[vi.n]}
			}
		}
		return VUnknown{}
	case *ast.BinaryExpr:
		if x.Op == token.NEQ || x.Op == token.EQL {
			if id, ok := x.Y.(*ast.Ident); ok && id.Name == "nil" {
				switch v := t.eval(x.X).(type) {
				case VChan:
					if v.id < 0 {
						return VBool{x.Op == token.EQL}
					}
					return VBool{x.Op == token.NEQ}
				case VNonNil:
					return VBool{x.Op == token.NEQ}
				}
			}
			return VUnknown{}
		}
		a, aok := t.eval(x.X).(VInt)
		b, bok := t.eval(x.Y).(VInt)
		if aok && bok {
			switch x.Op {
			case token.ADD:
				return VInt{a.n + b.n}
			case token.SUB:
				return VInt{a.n - b.n}
			case token.MUL:
				return VInt{a.n * b.n}
			}
		}
		return VUnknown{}
	case *ast.UnaryExpr:
		if x.Op == token.AND {
			return t.eval(x.X)
		}
		return VUnknown{}
	case *ast.CompositeLit:
		if id, ok := x.Type.(*ast.Ident); ok && id.Name == "request" {
			for _, el := range x.Elts {
				if kv, ok := el.(*ast.KeyValueExpr); ok {
					if k, ok := kv.Key.(*ast.Ident); ok && k.Name == "reply" {
						if c, ok := t.eval(kv.Value).(VChan); ok {
							return VReq{reply: c.id, pkg: t.pkg}
						}
					}
				}
			}
		}
		return VUnknown{}
	case *ast.CallExpr:
		return t.evalCall(x)
	}
	return VUnknown{}
}

func (t Ctx) evalCall(ce *ast.CallExpr) Val {
	if id, ok := ce.Fun.(*ast.Ident); ok {
		switch id.Name {
		case "make":
			if len(ce.Args) > 0 {
				if _, ok := ce.Args[0].(*ast.ChanType); ok {
					cap := 0
					if len(ce.Args) > 1 {
						if vi, ok := t.eval(ce.Args[1]).(VInt); ok {
							cap = vi.n
						} else {
							t.fail(ce, "channel capacity not known statically")
						}
					}
					return VChan{t.net.newChan(pos(ce), cap, true)}
				}
				if at, ok := ce.Args[0].(*ast.ArrayType); ok {
					if _, ok := at.Elt.(*ast.ChanType); ok && len(ce.Args) > 1 {
						if vi, ok := t.eval(ce.Args[1]).(VInt); ok {
							ids := make([]int, vi.n)
							for i := range ids {
								ids[i] = -1
							}
							return VChanList{ids}
						}
					}
				}
			}
			return VUnknown{}
		case "len":
			if len(ce.Args) == 1 {
				if cl, ok := t.eval(ce.Args[0]).(VChanList); ok {
					return VInt{len(cl.ids)}
				}
			}
			return VUnknown{}
		case "append":
			base := t.eval(ce.Args[0])
			var ids []int
			if cl, ok := base.(VChanList); ok {
				ids = append(ids, cl.ids...)
			} else if _, ok := base.(VUnknown); !ok {
				return VUnknown{}
			}
			for _, a := range ce.Args[1:] {
				switch v := t.eval(a).(type) {
				case VChan:
					ids = append(ids, v.id)
				case VChanList:
					ids = append(ids, v.ids...)
				default:
					if _, ok := base.(VChanList); ok {
						t.fail(ce, "append of a non-channel to a channel list")
					}
					return VUnknown{}
				}
			}
			return VChanList{ids}
		}
	}
	if se, ok := ce.Fun.(*ast.SelectorExpr); ok {
		if id, ok := se.X.(*ast.Ident); ok && (id.Name == "errors" || id.Name == "fmt") && (se.Sel.Name == "New" || se.Sel.Name == "Errorf") {
			return VNonNil{}
		}
		if id, ok := se.X.(*ast.Ident); ok && id.Name == "context" {
			switch se.Sel.Name {
			case "WithTimeout", "WithCancel", "WithDeadline":
				return VTuple{VCtx{}, VCancel{}}
			case "WithValue", "Background", "TODO":
				return VCtx{}
			}
		}
	}
	// a call in expression position: set-up code only (allocations, go statements)
	if fn, ok := t.callee(ce); ok {
		var out Val = VUnknown{}
		blocked := false
		entry := t.inline(fn, ce, func(vals []Val) int {
			if len(vals) == 1 {
				out = vals[0]
			} else if len(vals) > 1 {
				out = VTuple(vals)
			}
			return -7
		})
		if entry != -7 {
			blocked = true
		}
		if blocked {
			t.fail(ce, "call with channel operations in expression position")
		}
		return out
	}
	return VUnknown{}
}

// the function a call goes to, if it is one the translator follows
func (t Ctx) callee(ce *ast.CallExpr) (VFunc, bool) {
	if id, ok := ce.Fun.(*ast.Ident); ok {
		if p := t.env.lookup(id.Name); p != nil {
			if f, ok := (*p).(VFunc); ok {
				return f, true
			}
			return VFunc{}, false
		}
	}
	if fl, ok := ce.Fun.(*ast.FuncLit); ok {
		return VFunc{lit: fl, env: t.env, pkg: t.pkg}, true
	}
	if fd := resolveStatic(t.pkg, ce); fd != nil && relevantFn[fd] {
		return VFunc{decl: fd, env: newEnv(nil), pkg: pkgOf(fd)}, true
	}
	return VFunc{}, false
}

func funcParts(f VFunc) (*ast.FieldList, *ast.FieldList, *ast.BlockStmt) {
	if f.lit != nil {
		return f.lit.Type.Params, f.lit.Type.Results, f.lit.Body
	}
	return f.decl.Type.Params, f.decl.Type.Results, f.decl.Body
}

func (t Ctx) bindParams(f VFunc, ce *ast.CallExpr) *Env {
	params, results, _ := funcParts(f)
	env := newEnv(f.env)
	var args []Val
	for _, a := range ce.Args {
		args = append(args, t.eval(a))
	}
	i := 0
	if params != nil {
		for _, fld := range params.List {
			_, variadic := fld.Type.(*ast.Ellipsis)
			for _, nm := range fld.Names {
				if variadic {
					var ids []int
					if ce.Ellipsis.IsValid() && i < len(args) {
						if cl, ok := args[i].(VChanList); ok {
							ids = cl.ids
						}
					} else {
						for _, a := range args[i:] {
							if c, ok := a.(VChan); ok {
								ids = append(ids, c.id)
							}
						}
					}
					env.define(nm.Name, VChanList{ids})
					i = len(args)
				} else {
					if i < len(args) {
						env.define(nm.Name, args[i])
					} else {
						env.define(nm.Name, VUnknown{})
					}
					i++
				}
			}
		}
	}
	if results != nil {
		for _, fld := range results.List {
			for _, nm := range fld.Names {
				env.define(nm.Name, VUnknown{})
			}
		}
	}
	return env
}

// inline a call: returns the entry node; ret receives the returned values
func (t Ctx) inline(f VFunc, ce *ast.CallExpr, ret func([]Val) int) int {
	_, results, body := funcParts(f)
	env := t.bindParams(f, ce)
	t2 := t
	t2.env = env
	t2.pkg = f.pkg
	t2.brk, t2.cont = nil, nil
	t2.labels = nil
	t2.defers = nil
	named := []string{}
	if results != nil {
		for _, fld := range results.List {
			for _, nm := range fld.Names {
				named = append(named, nm.Name)
			}
		}
	}
	t2.ret = func(vals []Val) int {
		if len(vals) == 0 && len(named) > 0 {
			for _, n := range named {
				vals = append(vals, *env.lookup(n))
			}
		}
		return ret(vals)
	}
	return t2.stmts(body.List, nil)
}

// run the deferred calls (last first), then the return continuation
func (t Ctx) doReturn(vals []Val) int {
	var chain func(i int) int
	chain = func(i int) int {
		if i < 0 {
			return t.ret(vals)
		}
		d := t.defers[i]
		td := t
		td.env = d.env
		td.pkg = d.pkg
		td.defers = nil
		return td.callStmt(d.call, func() int { return chain(i - 1) })
	}
	return chain(len(t.defers) - 1)
}

// start a goroutine
func (t Ctx) spawn(f VFunc, ce *ast.CallExpr) {
	_, _, body := funcParts(f)
	env := t.bindParams(f, ce)
	name := "go@" + pos(ce)
	p := &Proc{name: name}
	t.net.procs = append(t.net.procs, p)
	t2 := Ctx{net: t.net, proc: p, pkg: f.pkg, env: env, choices: t.choices}
	exit := memo(func() int { return p.add(Node{kind: "exit"}) })
	t2.ret = func([]Val) int { return exit() }
	// node 0 must be the entry: reserve it
	p.add(Node{kind: "tau"})
	entry := t2.stmts(body.List, nil)
	p.nodes[0] = Node{kind: "tau", succs: []int{entry}, src: name}
}

// ---------------------------------------------------------------- statements

func (t Ctx) stmts(list []ast.Stmt, k func() int) int {
	if len(list) == 0 {
		if k == nil {
			// the end of a function body: run what was deferred on this path
			return t.doReturn(nil)
		}
		return k()
	}
	if d, ok := list[0].(*ast.DeferStmt); ok {
		t2 := t
		t2.defers = append(append([]deferred{}, t.defers...), deferred{d.Call, t.env, t.pkg})
		return t2.stmts(list[1:], k)
	}
	return t.stmt(list[0], func() int { return t.stmts(list[1:], k) })
}

func isDoneRecv(e ast.Expr) bool {
	ue, ok := e.(*ast.UnaryExpr)
	if !ok || ue.Op != token.ARROW {
		return false
	}
	ce, ok := ue.X.(*ast.CallExpr)
	if !ok {
		return false
	}
	se, ok := ce.Fun.(*ast.SelectorExpr)
	return ok && se.Sel.Name == "Done"
}

func recvOf(s ast.Stmt) (ast.Expr, []ast.Expr, bool) {
	switch x := s.(type) {
	case *ast.ExprStmt:
		if ue, ok := x.X.(*ast.UnaryExpr); ok && ue.Op == token.ARROW {
			return ue.X, nil, true
		}
	case *ast.AssignStmt:
		if len(x.Rhs) == 1 {
			if ue, ok := x.Rhs[0].(*ast.UnaryExpr); ok && ue.Op == token.ARROW {
				return ue.X, x.Lhs, true
			}
		}
	}
	return nil, nil, false
}

func (t Ctx) sendArm(s *ast.SendStmt, k func() int) (Arm, bool) {
	cv := t.eval(s.Chan)
	switch c := cv.(type) {
	case VChan:
		if c.id < 0 {
			return Arm{}, false
		}
		return Arm{recv: false, c: c.id, kv: k()}, true
	case VEnvChan:
		// registration with a perpetual goroutine outside the session (pdkg.Loop, queryLoop):
		// the environment accepts the request or not; what it does with the reply channel afterwards
		// is appended here as the continuation of the registering goroutine
		req, ok := t.eval(s.Value).(VReq)
		if !ok {
			t.fail(s, "send to an environment channel of something that is not a request")
			return Arm{}, false
		}
		e := t.net.newChan("env:"+c.name+"@"+pos(s), 0, false)
		sink := &Proc{name: "env-accept:" + c.name + "@" + pos(s)}
		t.net.procs = append(t.net.procs, sink)
		sink.add(Node{kind: "sel", arms: []Arm{{recv: true, c: e, kv: 1, kc: 1}}, done: 1, dflt: -1})
		sink.add(Node{kind: "exit"})
		t.net.chans[req.reply].handed = true
		return Arm{recv: false, c: e, kv: t.relay(req, k)}, true
	}
	t.fail(s, "send on a channel the translator cannot identify")
	return Arm{}, false
}

// the environment's use of a registered reply channel
func (t Ctx) relay(req VReq, k func() int) int {
	p := t.proc
	after := memo(k)
	if req.pkg == "dkg" {
		// pdkg.Loop: when the batch is complete: select { <-req.ctx.Done | reply <- batch }; close(reply)
		cl := p.add(Node{kind: "close", c: req.reply, k: after(), src: "env: pdkg.Loop close(reply)"})
		deliver := p.add(Node{kind: "sel", arms: []Arm{{recv: false, c: req.reply, kv: cl}}, done: cl, dflt: -1, src: "env: pdkg.Loop delivers the batch"})
		return p.add(Node{kind: "tau", succs: []int{after(), deliver}, src: "env: batch complete or never"})
	}
	// queryLoop: any number of shares, each select { <-req.ctx.Done | reply <- share }; the watchdog
	// may close(reply) once req.ctx is done
	loop := p.add(Node{kind: "tau"})
	cl := p.add(Node{kind: "close", c: req.reply, k: after(), src: "env: queryLoop watchdog close(reply)"})
	wd := p.add(Node{kind: "tau", succs: []int{after(), cl}, src: "env: watchdog or not"})
	sel := p.add(Node{kind: "sel", arms: []Arm{{recv: false, c: req.reply, kv: loop}}, done: wd, dflt: -1, src: "env: queryLoop forwards a share"})
	p.nodes[loop] = Node{kind: "tau", succs: []int{sel}, src: "env: queryLoop relay"}
	return loop
}

func (t Ctx) bindLhs(lhs []ast.Expr, vals []Val, define bool) {
	for i, l := range lhs {
		var v Val = VUnknown{}
		if i < len(vals) {
			v = vals[i]
		}
		switch x := l.(type) {
		case *ast.Ident:
			if define {
				if t.env.vars[x.Name] == nil {
					t.env.define(x.Name, v)
				} else {
					t.env.assign(x.Name, v)
				}
			} else {
				t.env.assign(x.Name, v)
			}
		case *ast.IndexExpr:
			if id, ok := x.X.(*ast.Ident); ok {
				if p := t.env.lookup(id.Name); p != nil {
					if cl, ok := (*p).(VChanList); ok {
						if vi, ok := t.eval(x.Index).(VInt); ok && vi.n < len(cl.ids) {
							if c, ok := v.(VChan); ok {
								cl.ids[vi.n] = c.id
							}
						}
					}
				}
			}
		}
	}
}

func (t Ctx) callStmt(ce *ast.CallExpr, k func() int) int {
	if id, ok := ce.Fun.(*ast.Ident); ok {
		switch id.Name {
		case "close":
			if c, ok := t.eval(ce.Args[0]).(VChan); ok && c.id >= 0 {
				return t.proc.add(Node{kind: "close", c: c.id, k: k(), src: pos(ce)})
			}
			t.fail(ce, "close of a channel the translator cannot identify")
			return k()
		}
		if p := t.env.lookup(id.Name); p != nil {
			if _, ok := (*p).(VCancel); ok {
				return t.proc.add(Node{kind: "cancel", k: k(), src: pos(ce)})
			}
		}
	}
	if se, ok := ce.Fun.(*ast.SelectorExpr); ok {
		if wg, ok := t.eval(se.X).(VWG); ok {
			switch se.Sel.Name {
			case "Add":
				if vi, ok := t.eval(ce.Args[0]).(VInt); ok {
					t.net.wgs[wg.id].add += vi.n
				} else {
					t.fail(ce, "WaitGroup.Add of a number not known statically")
				}
				return k()
			case "Done":
				return t.proc.add(Node{kind: "wgdone", c: wg.id, k: k(), src: pos(ce)})
			case "Wait":
				return t.proc.add(Node{kind: "wgwait", c: wg.id, k: k(), src: pos(ce)})
			}
		}
	}
	if fn, ok := t.callee(ce); ok {
		return t.inline(fn, ce, func([]Val) int { return k() })
	}
	// arguments may contain calls that set up goroutines
	for _, a := range ce.Args {
		if blockRelevant(t.pkg, a) {
			t.eval(a)
		}
	}
	return k()
}

func (t Ctx) branch(pcs []int, src string) int {
	uniq := []int{}
	seen := map[int]bool{}
	for _, p := range pcs {
		if !seen[p] {
			seen[p] = true
			uniq = append(uniq, p)
		}
	}
	if len(uniq) == 1 {
		return uniq[0]
	}
	return t.proc.add(Node{kind: "tau", succs: uniq, src: src})
}

func (t Ctx) stmt(s ast.Stmt, k func() int) int {
	switch x := s.(type) {
	case *ast.BlockStmt:
		t2 := t
		t2.env = newEnv(t.env)
		return t2.stmts(x.List, k)
	case *ast.LabeledStmt:
		t2 := t
		t2.labels = map[string][2]func() int{}
		for n, v := range t.labels {
			t2.labels[n] = v
		}
		kk := memo(k)
		t2.labels[x.Label.Name] = [2]func() int{kk, nil}
		return t2.stmtLabeled(x.Stmt, kk, x.Label.Name)
	case *ast.EmptyStmt, *ast.IncDecStmt:
		return k()
	case *ast.DeclStmt:
		if gd, ok := x.Decl.(*ast.GenDecl); ok {
			for _, sp := range gd.Specs {
				if vs, ok := sp.(*ast.ValueSpec); ok {
					for i, nm := range vs.Names {
						var v Val = VUnknown{}
						if i < len(vs.Values) {
							v = t.eval(vs.Values[i])
						} else if se, ok := vs.Type.(*ast.SelectorExpr); ok && se.Sel.Name == "WaitGroup" {
							t.net.wgs = append(t.net.wgs, WG{name: pos(vs)})
							v = VWG{len(t.net.wgs) - 1}
						} else if _, ok := vs.Type.(*ast.ChanType); ok {
							v = VChan{-1}
						}
						t.env.define(nm.Name, v)
					}
				}
			}
		}
		return k()
	case *ast.ExprStmt:
		if ce, ok := x.X.(*ast.CallExpr); ok {
			return t.callStmt(ce, k)
		}
		if ch, _, ok := recvOf(x); ok {
			return t.bareRecv(x, ch, nil, false, k)
		}
		return k()
	case *ast.AssignStmt:
		if ch, lhs, ok := recvOf(x); ok {
			return t.bareRecv(x, ch, lhs, x.Tok == token.DEFINE, k)
		}
		if len(x.Rhs) == 1 {
			if ce, ok := x.Rhs[0].(*ast.CallExpr); ok {
				if fn, ok := t.callee(ce); ok {
					return t.inline(fn, ce, func(vals []Val) int {
						t.bindLhs(x.Lhs, vals, x.Tok == token.DEFINE)
						return k()
					})
				}
				v := t.eval(ce)
				if tp, ok := v.(VTuple); ok {
					t.bindLhs(x.Lhs, tp, x.Tok == token.DEFINE)
				} else {
					t.bindLhs(x.Lhs, []Val{v}, x.Tok == token.DEFINE)
				}
				return k()
			}
		}
		var vals []Val
		for _, r := range x.Rhs {
			vals = append(vals, t.eval(r))
		}
		t.bindLhs(x.Lhs, vals, x.Tok == token.DEFINE)
		return k()
	case *ast.GoStmt:
		if fn, ok := t.callee(x.Call); ok {
			t.spawn(fn, x.Call)
		} else if fd := resolveStatic(t.pkg, x.Call); fd != nil {
			t.spawn(VFunc{decl: fd, env: newEnv(nil), pkg: pkgOf(fd)}, x.Call)
		} else {
			t.fail(x, "go statement on a function the translator cannot resolve")
		}
		return k()
	case *ast.SendStmt:
		arm, ok := t.sendArm(x, k)
		if !ok {
			return k()
		}
		return t.proc.add(Node{kind: "sel", arms: []Arm{arm}, done: -1, dflt: -1, src: pos(x) + " (send without ctx.Done)"})
	case *ast.ReturnStmt:
		var vals []Val
		if len(x.Results) == 1 {
			if ce, ok := x.Results[0].(*ast.CallExpr); ok {
				if fn, ok := t.callee(ce); ok {
					return t.inline(fn, ce, func(v []Val) int { return t.doReturn(v) })
				}
			}
		}
		for _, r := range x.Results {
			vals = append(vals, t.eval(r))
		}
		return t.doReturn(vals)
	case *ast.BranchStmt:
		switch x.Tok {
		case token.BREAK:
			if x.Label != nil {
				if l, ok := t.labels[x.Label.Name]; ok {
					return l[0]()
				}
			}
			if t.brk != nil {
				return t.brk()
			}
		case token.CONTINUE:
			if x.Label != nil {
				if l, ok := t.labels[x.Label.Name]; ok && l[1] != nil {
					return l[1]()
				}
			}
			if t.cont != nil {
				return t.cont()
			}
		}
		t.fail(x, "branch statement without target")
		return k()
	case *ast.IfStmt:
		kk := memo(k)
		t2 := t
		t2.env = newEnv(t.env)
		body := func() int {
			if !blockRelevant(t.pkg, x.Body) && (x.Else == nil || !blockRelevant(t.pkg, x.Else)) {
				return kk()
			}
			if vb, ok := t2.eval(x.Cond).(VBool); ok {
				// the condition is decided by what the translator knows (a nil / non-nil error or channel)
				if vb.b {
					return t2.stmt(x.Body, kk)
				}
				if x.Else != nil {
					return t2.stmt(x.Else, kk)
				}
				return kk()
			}
			a := t2.stmt(x.Body, kk)
			b := kk()
			if x.Else != nil {
				b = t2.stmt(x.Else, kk)
			}
			return t2.branch([]int{a, b}, pos(x))
		}
		if x.Init != nil {
			return t2.stmt(x.Init, body)
		}
		return body()
	case *ast.SwitchStmt, *ast.TypeSwitchStmt:
		return t.switchStmt(x, k)
	case *ast.SelectStmt:
		return t.selectStmt(x, k)
	case *ast.ForStmt:
		return t.forStmt(x, k, "")
	case *ast.RangeStmt:
		return t.rangeStmt(x, k, "")
	}
	return k()
}

func (t Ctx) stmtLabeled(s ast.Stmt, k func() int, label string) int {
	switch x := s.(type) {
	case *ast.ForStmt:
		return t.forStmt(x, k, label)
	case *ast.RangeStmt:
		return t.rangeStmt(x, k, label)
	}
	return t.stmt(s, k)
}

func (t Ctx) bareRecv(s ast.Stmt, ch ast.Expr, lhs []ast.Expr, define bool, k func() int) int {
	if isDoneRecv(&ast.UnaryExpr{Op: token.ARROW, X: ch}) {
		// <-ctx.Done(): waits for the cancellation
		n := k()
		return t.proc.add(Node{kind: "sel", done: n, dflt: -1, src: pos(s)})
	}
	c, ok := t.eval(ch).(VChan)
	if !ok {
		// a receive from something outside the session (timer, library channel): opaque
		t.bindLhs(lhs, nil, define)
		return k()
	}
	t.bindLhs(lhs, nil, define)
	if c.id < 0 {
		t.fail(s, "receive from a nil channel")
		return k()
	}
	n := k()
	return t.proc.add(Node{kind: "sel", arms: []Arm{{recv: true, c: c.id, kv: n, kc: n}}, done: -1, dflt: -1, src: pos(s)})
}

func (t Ctx) switchStmt(s ast.Stmt, k func() int) int {
	var body *ast.BlockStmt
	var init ast.Stmt
	switch x := s.(type) {
	case *ast.SwitchStmt:
		body, init = x.Body, x.Init
	case *ast.TypeSwitchStmt:
		body, init = x.Body, x.Init
	}
	kk := memo(k)
	t2 := t
	t2.env = newEnv(t.env)
	t2.brk = kk
	run := func() int {
		if !blockRelevant(t.pkg, body) {
			return kk()
		}
		// a switch whose clauses start goroutines decides which network exists: one variant per clause
		spawns := false
		ast.Inspect(body, func(n ast.Node) bool {
			switch y := n.(type) {
			case *ast.GoStmt:
				spawns = true
			case *ast.CallExpr:
				if fd := resolveStatic(t.pkg, y); fd != nil && relevantFn[fd] {
					spawns = true
				}
			}
			return true
		})
		hasDefault := false
		for _, c := range body.List {
			if len(c.(*ast.CaseClause).List) == 0 {
				hasDefault = true
			}
		}
		if spawns {
			n := len(body.List)
			if !hasDefault {
				n++
			}
			cs := t.choices
			if cs.used >= len(cs.script) {
				cs.need = n
				panic(needChoice{})
			}
			pick := cs.script[cs.used]
			cs.used++
			if pick >= len(body.List) {
				t.net.notes = append(t.net.notes, fmt.Sprintf("%s: no clause taken", pos(s)))
				return kk()
			}
			cc := body.List[pick].(*ast.CaseClause)
			t.net.notes = append(t.net.notes, fmt.Sprintf("%s: clause %d (%s)", pos(s), pick, pos(cc)))
			t3 := t2
			t3.env = newEnv(t2.env)
			return t3.stmts(cc.Body, kk)
		}
		var pcs []int
		for _, c := range body.List {
			cc := c.(*ast.CaseClause)
			t3 := t2
			t3.env = newEnv(t2.env)
			pcs = append(pcs, t3.stmts(cc.Body, kk))
		}
		if !hasDefault {
			pcs = append(pcs, kk())
		}
		return t2.branch(pcs, pos(s))
	}
	if init != nil {
		return t2.stmt(init, run)
	}
	return run()
}

func (t Ctx) selectStmt(x *ast.SelectStmt, k func() int) int {
	kk := memo(k)
	t2 := t
	t2.brk = kk
	nd := Node{kind: "sel", done: -1, dflt: -1, src: pos(x)}
	for _, c := range x.Body.List {
		cc := c.(*ast.CommClause)
		t3 := t2
		t3.env = newEnv(t.env)
		body := func() int { return t3.stmts(cc.Body, kk) }
		switch cm := cc.Comm.(type) {
		case nil:
			nd.dflt = body()
		case *ast.SendStmt:
			arm, ok := t3.sendArm(cm, body)
			if ok {
				nd.arms = append(nd.arms, arm)
			}
		default:
			ch, lhs, ok := recvOf(cm)
			if !ok {
				t.fail(cc, "select case the translator does not understand")
				continue
			}
			if isDoneRecv(&ast.UnaryExpr{Op: token.ARROW, X: ch}) {
				if nd.done >= 0 {
					t.fail(cc, "two ctx.Done arms")
				}
				nd.done = body()
				continue
			}
			cv := t3.eval(ch)
			as, isAssign := cm.(*ast.AssignStmt)
			t3.bindLhs(lhs, nil, isAssign && as.Tok == token.DEFINE)
			c, ok := cv.(VChan)
			if !ok {
				// a channel outside the session (timer, subscription): may fire at any time
				if nd.dflt < 0 {
					nd.dflt = body()
				} else {
					nd.dflt = t.branch([]int{nd.dflt, body()}, pos(cc))
				}
				continue
			}
			if c.id < 0 {
				continue // nil channel: this case never fires
			}
			b := body()
			nd.arms = append(nd.arms, Arm{recv: true, c: c.id, kv: b, kc: b})
		}
	}
	return t.proc.add(nd)
}

// for i := 0; i < N; i++ with N known at translation time
func (t Ctx) countedLoop(x *ast.ForStmt) (string, int, bool) {
	as, ok := x.Init.(*ast.AssignStmt)
	if !ok || len(as.Lhs) != 1 || len(as.Rhs) != 1 {
		return "", 0, false
	}
	id, ok := as.Lhs[0].(*ast.Ident)
	if !ok {
		return "", 0, false
	}
	if lit, ok := as.Rhs[0].(*ast.BasicLit); !ok || lit.Value != "0" {
		return "", 0, false
	}
	be, ok := x.Cond.(*ast.BinaryExpr)
	if !ok || be.Op != token.LSS {
		return "", 0, false
	}
	if l, ok := be.X.(*ast.Ident); !ok || l.Name != id.Name {
		return "", 0, false
	}
	n, ok := t.eval(be.Y).(VInt)
	if !ok {
		return "", 0, false
	}
	if inc, ok := x.Post.(*ast.IncDecStmt); !ok || inc.Tok != token.INC {
		return "", 0, false
	}
	return id.Name, n.n, true
}

func (t Ctx) forStmt(x *ast.ForStmt, k func() int, label string) int {
	if !blockRelevant(t.pkg, x.Body) {
		return k()
	}
	kk := memo(k)
	if name, n, ok := t.countedLoop(x); ok {
		var gen func(i int) int
		gen = func(i int) int {
			if i >= n {
				return kk()
			}
			t2 := t
			t2.env = newEnv(t.env)
			t2.env.define(name, VInt{i})
			next := memo(func() int { return gen(i + 1) })
			t2.brk = kk
			t2.cont = next
			return t2.stmts(x.Body.List, next)
		}
		return gen(0)
	}
	p := t.proc
	head := p.add(Node{kind: "tau"})
	t2 := t
	t2.env = newEnv(t.env)
	t2.brk = kk
	t2.cont = func() int { return head }
	if label != "" {
		t2.labels = map[string][2]func() int{}
		for n, v := range t.labels {
			t2.labels[n] = v
		}
		t2.labels[label] = [2]func() int{kk, t2.cont}
	}
	body := t2.stmts(x.Body.List, func() int { return head })
	if x.Cond == nil && x.Init == nil {
		p.nodes[head] = Node{kind: "tau", succs: []int{body}, src: pos(x)}
	} else {
		p.nodes[head] = Node{kind: "loop", k: body, k2: kk(), src: pos(x)}
	}
	return head
}

func (t Ctx) rangeStmt(x *ast.RangeStmt, k func() int, label string) int {
	kk := memo(k)
	p := t.proc
	switch v := t.eval(x.X).(type) {
	case VChan:
		head := p.add(Node{kind: "tau"})
		t2 := t
		t2.env = newEnv(t.env)
		t2.brk = kk
		t2.cont = func() int { return head }
		body := t2.stmts(x.Body.List, func() int { return head })
		if v.id < 0 {
			t.fail(x, "range over a nil channel")
			return kk()
		}
		p.nodes[head] = Node{kind: "sel", arms: []Arm{{recv: true, c: v.id, kv: body, kc: kk()}}, done: -1, dflt: -1, src: pos(x)}
		return head
	case VChanList:
		// a loop over a list of channels known at translation time: unrolled
		var gen func(i int) int
		gen = func(i int) int {
			if i >= len(v.ids) {
				return kk()
			}
			t2 := t
			t2.env = newEnv(t.env)
			if id, ok := x.Value.(*ast.Ident); ok {
				t2.env.define(id.Name, VChan{v.ids[i]})
			}
			if id, ok := x.Key.(*ast.Ident); ok {
				t2.env.define(id.Name, VInt{i})
			}
			next := memo(func() int { return gen(i + 1) })
			t2.brk = kk
			t2.cont = next
			return t2.stmts(x.Body.List, next)
		}
		return gen(0)
	}
	if !blockRelevant(t.pkg, x.Body) {
		return kk()
	}
	head := p.add(Node{kind: "tau"})
	t2 := t
	t2.env = newEnv(t.env)
	t2.brk = kk
	t2.cont = func() int { return head }
	if label != "" {
		t2.labels = map[string][2]func() int{}
		for n, v := range t.labels {
			t2.labels[n] = v
		}
		t2.labels[label] = [2]func() int{kk, t2.cont}
	}
	body := t2.stmts(x.Body.List, func() int { return head })
	p.nodes[head] = Node{kind: "loop", k: body, k2: kk(), src: pos(x)}
	return head
}

// ---------------------------------------------------------------- building one network

func build(name, pkg, fn string, script []int) (net *Net, need int) {
	net = &Net{name: name}
	cs := &choiceState{script: script}
	defer func() {
		if r := recover(); r != nil {
			if _, ok := r.(needChoice); ok {
				need = cs.need
				return
			}
			panic(r)
		}
	}()
	fd := pkgs[pkg].funcs[fn]
	root := &Proc{name: "root:" + fn}
	net.procs = append(net.procs, root)
	env := newEnv(nil)
	if fd.Type.Params != nil {
		for _, f := range fd.Type.Params.List {
			for _, nm := range f.Names {
				env.define(nm.Name, VUnknown{})
			}
		}
	}
	t := Ctx{net: net, proc: root, pkg: pkg, env: env, choices: cs}
	exit := memo(func() int { return root.add(Node{kind: "exit"}) })
	t.ret = func([]Val) int { return exit() }
	root.add(Node{kind: "tau"})
	entry := t.stmts(fd.Body.List, nil)
	root.nodes[0] = Node{kind: "tau", succs: []int{entry}, src: "root"}
	return net, 0
}

// ---------------------------------------------------------------- certificates

func succsOf(nd Node) []int {
	var s []int
	switch nd.kind {
	case "sel":
		for _, a := range nd.arms {
			if a.recv {
				s = append(s, a.kv, a.kc)
			} else {
				s = append(s, a.kv)
			}
		}
		if nd.done >= 0 {
			s = append(s, nd.done)
		}
		if nd.dflt >= 0 {
			s = append(s, nd.dflt)
		}
	case "tau":
		s = nd.succs
	case "close", "wgdone", "wgwait", "cancel":
		s = []int{nd.k}
	case "loop":
		s = []int{nd.k, nd.k2}
	}
	return s
}

func rkEdges(nd Node) []int {
	switch nd.kind {
	case "sel":
		if nd.done >= 0 {
			return []int{nd.done}
		}
		var s []int
		for _, a := range nd.arms {
			if a.recv {
				s = append(s, a.kc)
			} else {
				s = append(s, a.kv)
			}
		}
		if nd.dflt >= 0 {
			s = append(s, nd.dflt)
		}
		return s
	case "loop":
		return []int{nd.k2}
	}
	return succsOf(nd)
}

type event struct {
	kind string // closed done waited
	id   int
}

func eventsOf(nd Node) []event {
	switch nd.kind {
	case "close":
		return []event{{"closed", nd.c}}
	case "wgdone":
		return []event{{"done", nd.c}}
	case "wgwait":
		return []event{{"waited", nd.c}}
	}
	return nil
}

type cert struct {
	prank     int
	rk        []int
	must, may []map[event]bool
}

func certify(net *Net) (certs []cert, closers []int, members [][]int, wgfor []int, rkbound int) {
	np := len(net.procs)
	certs = make([]cert, np)
	closers = make([]int, len(net.chans))
	for i := range closers {
		closers[i] = -1
	}
	members = make([][]int, len(net.wgs))
	wgfor = make([]int, len(net.chans))
	for i := range wgfor {
		wgfor[i] = -1
	}
	for pi, p := range net.procs {
		seenW := map[int]bool{}
		for _, nd := range p.nodes {
			if nd.kind == "close" && closers[nd.c] < 0 {
				closers[nd.c] = pi
			}
			if nd.kind == "wgdone" && !seenW[nd.c] {
				seenW[nd.c] = true
				members[nd.c] = append(members[nd.c], pi)
			}
		}
	}
	for w := range net.wgs {
		if net.wgs[w].add != len(members[w]) {
			net.failed = append(net.failed, fmt.Sprintf("WaitGroup %s: Add(%d) but %d goroutines call Done", net.wgs[w].name, net.wgs[w].add, len(members[w])))
			// make the mismatch visible to the checker: a member that does not exist
			members[w] = append(members[w], np+7)
		}
	}
	// a channel whose closer waits for a WaitGroup is a fan-in channel of that group
	for c, q := range closers {
		if q < 0 {
			continue
		}
		for _, nd := range net.procs[q].nodes {
			if nd.kind == "wgwait" {
				wgfor[c] = nd.c
			}
		}
	}
	// ranks in the wait-for order
	rank := make([]int, np)
	for iter := 0; iter <= np+1; iter++ {
		changed := false
		for pi, p := range net.procs {
			r := 0
			for _, nd := range p.nodes {
				if nd.kind == "sel" && nd.done < 0 {
					for _, a := range nd.arms {
						if a.recv && closers[a.c] >= 0 && closers[a.c] != pi && rank[closers[a.c]]+1 > r {
							r = rank[closers[a.c]] + 1
						}
					}
				}
				if nd.kind == "wgwait" {
					for _, m := range members[nd.c] {
						if m < np && m != pi && rank[m]+1 > r {
							r = rank[m] + 1
						}
					}
				}
			}
			if r > rank[pi] && r <= np+1 {
				rank[pi] = r
				changed = true
			}
		}
		if !changed {
			break
		}
	}
	rkbound = 1
	for pi, p := range net.procs {
		n := len(p.nodes)
		c := cert{prank: rank[pi], rk: make([]int, n), must: make([]map[event]bool, n), may: make([]map[event]bool, n)}
		// ranking: longest path over the post-cancellation edges (0 on a cycle: the checker rejects)
		state := make([]int, n)
		var dfs func(i int) int
		dfs = func(i int) int {
			if state[i] == 2 {
				return c.rk[i]
			}
			if state[i] == 1 {
				return 0
			}
			state[i] = 1
			best := 0
			for _, k := range rkEdges(p.nodes[i]) {
				if v := dfs(k) + 1; v > best {
					best = v
				}
			}
			c.rk[i] = best
			state[i] = 2
			return best
		}
		for i := range p.nodes {
			if dfs(i)+1 > rkbound {
				rkbound = c.rk[i] + 1
			}
		}
		// may: union over paths; must: intersection over paths (forward dataflow)
		for i := range p.nodes {
			c.may[i] = map[event]bool{}
		}
		reach := make([]bool, n)
		reach[0] = true
		c.must[0] = map[event]bool{}
		for changed := true; changed; {
			changed = false
			for i, nd := range p.nodes {
				if !reach[i] {
					continue
				}
				ev := eventsOf(nd)
				for _, k := range succsOf(nd) {
					for e := range c.may[i] {
						if !c.may[k][e] {
							c.may[k][e] = true
							changed = true
						}
					}
					for _, e := range ev {
						if !c.may[k][e] {
							c.may[k][e] = true
							changed = true
						}
					}
					in := map[event]bool{}
					for e := range c.must[i] {
						in[e] = true
					}
					for _, e := range ev {
						in[e] = true
					}
					if !reach[k] {
						reach[k] = true
						c.must[k] = in
						changed = true
					} else {
						for e := range c.must[k] {
							if !in[e] {
								delete(c.must[k], e)
								changed = true
							}
						}
					}
				}
			}
		}
		for i := range p.nodes {
			if c.must[i] == nil {
				c.must[i] = map[event]bool{}
			}
		}
		certs[pi] = c
	}
	return
}

// ---------------------------------------------------------------- Coq output

func natList(xs []int) string {
	s := make([]string, len(xs))
	for i, x := range xs {
		s[i] = strconv.Itoa(x)
	}
	return "[" + strings.Join(s, "; ") + "]"
}

func optNat(x int) string {
	if x < 0 {
		return "None"
	}
	return fmt.Sprintf("(Some %d)", x)
}

func evList(m map[event]bool) string {
	var es []event
	for e := range m {
		es = append(es, e)
	}
	sort.Slice(es, func(i, j int) bool {
		if es[i].kind != es[j].kind {
			return es[i].kind < es[j].kind
		}
		return es[i].id < es[j].id
	})
	s := []string{}
	for _, e := range es {
		switch e.kind {
		case "closed":
			s = append(s, fmt.Sprintf("EClosed %d", e.id))
		case "done":
			s = append(s, fmt.Sprintf("EDone %d", e.id))
		case "waited":
			s = append(s, fmt.Sprintf("EWaited %d", e.id))
		}
	}
	return "[" + strings.Join(s, "; ") + "]"
}

func nodeCoq(nd Node) string {
	switch nd.kind {
	case "sel":
		as := []string{}
		for _, a := range nd.arms {
			if a.recv {
				as = append(as, fmt.Sprintf("ARecv %d %d %d", a.c, a.kv, a.kc))
			} else {
				as = append(as, fmt.Sprintf("ASend %d %d", a.c, a.kv))
			}
		}
		return fmt.Sprintf("NSel [%s] %s %s", strings.Join(as, "; "), optNat(nd.done), optNat(nd.dflt))
	case "tau":
		return "NTau " + natList(nd.succs)
	case "close":
		return fmt.Sprintf("NClose %d %d", nd.c, nd.k)
	case "wgdone":
		return fmt.Sprintf("NWgDone %d %d", nd.c, nd.k)
	case "wgwait":
		return fmt.Sprintf("NWgWait %d %d", nd.c, nd.k)
	case "cancel":
		return fmt.Sprintf("NCancel %d", nd.k)
	case "loop":
		return fmt.Sprintf("NLoop %d %d", nd.k, nd.k2)
	}
	return "NExit"
}

func emit(w *strings.Builder, net *Net) {
	certs, closers, members, wgfor, rkbound := certify(net)
	fmt.Fprintf(w, "(* ---- network %s ---- *)\n", net.name)
	for _, n := range net.notes {
		fmt.Fprintf(w, "(* variant: %s *)\n", n)
	}
	for _, f := range net.failed {
		fmt.Fprintf(w, "(* TRANSLATOR: %s *)\n", strings.ReplaceAll(f, "*)", "* )"))
	}
	for ci, c := range net.chans {
		fmt.Fprintf(w, "(* chan %d: %s cap=%d closer=%d owed=%v *)\n", ci, c.name, c.cap, closers[ci], c.session && !c.handed)
	}
	procNames := []string{}
	for pi, p := range net.procs {
		c := certs[pi]
		nm := fmt.Sprintf("%s_p%d", net.name, pi)
		procNames = append(procNames, nm)
		fmt.Fprintf(w, "(* process %d: %s  rank %d *)\n", pi, p.name, c.prank)
		fmt.Fprintf(w, "Definition %s : proc := mkproc\n  [", nm)
		for i, nd := range p.nodes {
			if i > 0 {
				w.WriteString(";\n   ")
			}
			fmt.Fprintf(w, "(* %d %s *) %s", i, strings.ReplaceAll(nd.src, "*)", ""), nodeCoq(nd))
		}
		fmt.Fprintf(w, "]\n  %d\n  %s\n  [", c.prank, natList(c.rk))
		for i := range p.nodes {
			if i > 0 {
				w.WriteString("; ")
			}
			w.WriteString(evList(c.must[i]))
		}
		w.WriteString("]\n  [")
		for i := range p.nodes {
			if i > 0 {
				w.WriteString("; ")
			}
			w.WriteString(evList(c.may[i]))
		}
		w.WriteString("].\n")
	}
	caps := []int{}
	cl := []string{}
	ow := []string{}
	wf := []string{}
	for ci, c := range net.chans {
		caps = append(caps, c.cap)
		cl = append(cl, strings.Trim(optNat(closers[ci]), "()"))
		if c.session && !c.handed {
			ow = append(ow, "true")
		} else {
			ow = append(ow, "false")
		}
		wf = append(wf, strings.Trim(optNat(wgfor[ci]), "()"))
	}
	ms := []string{}
	for _, m := range members {
		ms = append(ms, natList(m))
	}
	fmt.Fprintf(w, "Definition %s : net := mknet\n  [%s]\n  %s\n  [%s]\n  [%s]\n  [%s]\n  [%s]\n  %d.\n\n",
		net.name, strings.Join(procNames, "; "), natList(caps), strings.Join(cl, "; "), strings.Join(ow, "; "),
		strings.Join(ms, "; "), strings.Join(wf, "; "), rkbound)
	status := "true"
	if len(net.failed) > 0 {
		status = "false"
	}
	fmt.Fprintf(w, "Definition %s_translated : bool := %s.\n\n", net.name, status)
}

func main() {
	repo, out := os.Args[1], os.Args[2]
	parseDir(repo, "dosnode", "dosnode")
	parseDir(repo, "share/dkg/pedersen", "dkg")
	parseDir(repo, "utils", "utils")
	computeRelevant()
	var w strings.Builder
	w.WriteString("(* GENERATED by translate/skel from /repo -- do not edit. *)\n")
	w.WriteString("From Coq Require Import List.\nFrom DosVerif Require Import Models.Pipes.\nImport ListNotations.\n\n")
	roots := []struct{ name, pkg, fn string }{
		{"net_grouping", "dosnode", "handleGrouping"},
		{"net_query", "dosnode", "handleQuery"},
	}
	var names []string
	for _, r := range roots {
		// enumerate the variants decided by switches that start goroutines
		var rec func(script []int, tag string)
		rec = func(script []int, tag string) {
			net, need := build(r.name+tag, r.pkg, r.fn, script)
			if need > 0 {
				for i := 0; i < need; i++ {
					rec(append(append([]int{}, script...), i), fmt.Sprintf("%s_%d", tag, i))
				}
				return
			}
			if strings.HasPrefix(net.name, "net_query") {
				net.failed = append(net.failed, opaqueAssumptions()...)
			}
			emit(&w, net)
			names = append(names, net.name)
			for _, f := range net.failed {
				fmt.Fprintf(os.Stderr, "skel: %s: %s\n", net.name, f)
			}
		}
		rec(nil, "")
	}
	fmt.Fprintf(&w, "Definition all_nets : list (net * bool) := [%s].\n", strings.Join(func() []string {
		var s []string
		for _, n := range names {
			s = append(s, fmt.Sprintf("(%s, %s_translated)", n, n))
		}
		return s
	}(), "; "))
	if err := os.WriteFile(out, []byte(w.String()), 0644); err != nil {
		fmt.Fprintln(os.Stderr, err)
		os.Exit(2)
	}
}
