"""T2: the ref10 scalar routines of group/edwards25519/scalar.go (scMulAdd, scMul, scAdd, scSub,
scReduce) -> coq/Gen/Ref10Sc.v.

Each routine is straight-line code over 24 limbs s0..s23 of 21 bits:
  loads   aI := MASK & (loadK(a[off:]) >> sh)         recorded as (source, offset bytes, shift, masked)
  init    sN := <sum of constants, +-cK, +-aI, aI*bJ>
  body    carry[i] = (sI + (1 << 20)) >> 21 ; sJ += carry[i] ; sI -= carry[i] << 21     -> Carry i true
          carry[i] = sI >> 21 ; sJ += carry[i] ; sI -= carry[i] << 21                   -> Carry i false
          sJ (+|-)= sK * CONST  (x6)  ; sK = 0                                          -> Fold k [consts]
  store   s[i] = byte(...)                                                               (recorded)
Anything else makes the translation fail (the proof obligation then cannot be built)."""
import os, re


def strip_comments(src):
    src = re.sub(r"/\*.*?\*/", "", src, flags=re.S)
    return re.sub(r"//[^\n]*", "", src)


def func_body(src, name):
    m = re.search(r"^func %s\(.*?\) \{\n(.*?)^\}" % name, src, flags=re.S | re.M)
    assert m, name
    return [l.strip() for l in m.group(1).splitlines() if l.strip()]


LOAD = re.compile(r"^(\w+?)(\d+) := (?:(\d+) & )?\(?load([34])\((\w+)\[(\d*):\]\)(?: >> (\d+))?\)?$")
INIT = re.compile(r"^s(\d+) := (.*)$")
CARRY_R = re.compile(r"^carry\[(\d+)\] = \(s(\d+) \+ \(1 << 20\)\) >> 21$")
CARRY_F = re.compile(r"^carry\[(\d+)\] = s(\d+) >> 21$")
ADDC = re.compile(r"^s(\d+) \+= carry\[(\d+)\]$")
SUBC = re.compile(r"^s(\d+) -= carry\[(\d+)\] << 21$")
MULADD = re.compile(r"^s(\d+) ([+-])= s(\d+) \* (\d+)$")
ZERO = re.compile(r"^s(\d+) = 0$")
LCONST = re.compile(r"^([abc])(\d+) := int64\((\d+)\)$")
STORE = re.compile(r"^(\w+)\[(\d+)\] = byte\((.*)\)$")


def parse_term(t, sign):
    t = t.strip()
    m = re.match(r"^int64\((\d+)\)$", t)
    if m:
        return ("k", sign * int(m.group(1)))
    if re.match(r"^\d+$", t):
        return ("k", sign * int(t))
    m = re.match(r"^([abc])(\d+)$", t)
    if m:
        return ("v", sign, m.group(1), int(m.group(2)))
    m = re.match(r"^a(\d+)\s*\*\s*b(\d+)$", t)
    if m:
        return ("p", sign, int(m.group(1)), int(m.group(2)))
    raise AssertionError("term not understood: " + t)


def parse_sum(e):
    toks = re.split(r"\s([+-])\s", " " + e.strip())
    terms, sign = [], 1
    first = toks[0].strip()
    if first:
        terms.append(parse_term(first, 1))
    for i in range(1, len(toks), 2):
        terms.append(parse_term(toks[i + 1], 1 if toks[i] == "+" else -1))
    return terms


def translate(lines, name):
    loads, init, ops, stores = [], {}, [], []
    consts = {}
    i = 0
    while i < len(lines):
        l = lines[i]
        if l.startswith("var carry"):
            i += 1
            continue
        m = LOAD.match(l)
        if m:
            var, idx, mask, k, src, off, sh = m.groups()
            loads.append((var, int(idx), int(mask) if mask else 0, int(k), src, int(off or 0), int(sh or 0)))
            if var == "s":       # scReduce loads straight into the limbs
                init[int(idx)] = [("v", 1, "s", int(idx))]
            i += 1
            continue
        m = LCONST.match(l)
        if m:
            consts[(m.group(1), int(m.group(2)))] = int(m.group(3))
            i += 1
            continue
        m = INIT.match(l)
        if m:
            terms = []
            for t in parse_sum(m.group(2)):
                if t[0] == "v" and (t[2], t[3]) in consts:
                    t = ("k", t[1] * consts[(t[2], t[3])])
                terms.append(t)
            init[int(m.group(1))] = terms
            i += 1
            continue
        m = CARRY_R.match(l) or CARRY_F.match(l)
        if m:
            rounded = CARRY_R.match(l) is not None
            ci, si = int(m.group(1)), int(m.group(2))
            a, b = ADDC.match(lines[i + 1]), SUBC.match(lines[i + 2])
            assert ci == si and a and b, "%s: carry pattern at %r" % (name, l)
            assert int(a.group(1)) == si + 1 and int(a.group(2)) == ci and int(b.group(1)) == si and int(b.group(2)) == ci, \
                "%s: carry pattern at %r" % (name, l)
            ops.append("Carry %d %s" % (si, "true" if rounded else "false"))
            i += 3
            continue
        m = MULADD.match(l)
        if m:
            k = int(m.group(3))
            consts = []
            j = i
            while j < len(lines) and MULADD.match(lines[j]):
                mm = MULADD.match(lines[j])
                assert int(mm.group(3)) == k and int(mm.group(1)) == k - 12 + len(consts), "%s: fold pattern at %r" % (name, lines[j])
                consts.append((1 if mm.group(2) == "+" else -1) * int(mm.group(4)))
                j += 1
            z = ZERO.match(lines[j]) if j < len(lines) else None
            assert z and int(z.group(1)) == k and len(consts) == 6, "%s: fold of s%d is not followed by s%d = 0" % (name, k, k)
            ops.append("Fold %d [%s]" % (k, "; ".join("(%d)" % c for c in consts)))
            i = j + 1
            continue
        m = STORE.match(l)
        if m:
            stores.append((int(m.group(2)), m.group(3)))
            i += 1
            continue
        raise AssertionError("%s: statement not understood: %r" % (name, l))
    assert sorted(init) == list(range(24)), "%s: limbs initialised: %s" % (name, sorted(init))
    return loads, init, ops, stores


VARN = {"a": 0, "b": 1, "c": 2, "s": 3}


def coq_term(t):
    if t[0] == "k":
        return "TK (%d)" % t[1]
    if t[0] == "v":
        return "TV %s %d %d" % ("false" if t[1] > 0 else "true", VARN[t[2]], t[3])
    return "TP %s %d %d" % ("false" if t[1] > 0 else "true", t[2], t[3])


def run(repo, out_dir, write_if_changed):
    src = strip_comments(open(os.path.join(repo, "group", "edwards25519", "scalar.go")).read())
    out = ["(* GENERATED by translate/sc2coq.py (T2) from group/edwards25519/scalar.go -- do not edit. *)",
           "From Coq Require Import ZArith List.", "From DosVerif Require Import Models.ScLimbs.",
           "Import ListNotations.", "Open Scope Z_scope.", ""]
    for fn, ins in (("scMulAdd", "abc"), ("scMul", "ab"), ("scAdd", "ac"), ("scSub", "ac"), ("scReduce", "s")):
        loads, init, ops, stores = translate(func_body(src, fn), fn)
        out.append("Definition %s_init : list (list term) :=\n  [%s]." % (
            fn, ";\n   ".join("[" + "; ".join(coq_term(t) for t in init[k]) + "]" for k in range(24))))
        out.append("Definition %s_ops : list op :=\n  [%s]." % (fn, "; ".join(ops)))
        out.append("(* loads: (limb, mask, load width, source, byte offset, shift) *)")
        out.append("Definition %s_loads : list (Z * Z * Z * Z * Z) :=\n  [%s]." % (
            fn, "; ".join("(%d, %d, %d, %d, %d)" % (idx, mask, k, off, sh) for var, idx, mask, k, s, off, sh in loads)))
        out.append("Definition %s_stores : nat := %d.\n" % (fn, len(stores)))
    return write_if_changed(os.path.join(out_dir, "Ref10Sc.v"), "\n".join(out) + "\n")
