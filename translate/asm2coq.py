#!/usr/bin/env python3
"""T1: group/bn256/{gfp.s,gfp.h,mul.h,mul_bmi2.h} -> coq/Gen/GfpAsm.v

Expands the assembler macros, follows the one static branch of gfpMul (on hasBMI2) along both
outcomes, resolves the pointer registers (DI / SI hold the addresses of the Go arguments) and emits
every routine as a list of segments of `instr` (Models/Asm.v).  Segment boundaries are the macro
boundaries and the empty continuation lines of the source; they only structure the proofs - the
program is the concatenation.  Anything the translator does not understand aborts the translation.
"""
import os, re

REGS = {"AX", "BX", "CX", "DX", "SI", "DI", "R8", "R9", "R10", "R11", "R12", "R13", "R14", "R15"}
SEGMACROS = {"mul", "mulBMI2", "gfpReduce", "gfpReduceBMI2", "gfpCarry"}


def read_macros(text):
    """#define name(params) body-with-backslash-continuations -> {name: (params, [lines])}"""
    macros = {}
    lines = text.split("\n")
    i = 0
    while i < len(lines):
        m = re.match(r"\s*#define\s+(\w+)\(([^)]*)\)\s*\\\s*$", lines[i])
        if m:
            name, params = m.group(1), [x.strip() for x in m.group(2).split(",") if x.strip()]
            body = []
            i += 1
            while i < len(lines):
                ln = re.sub(r"//.*$", "", lines[i]).rstrip()     # comments go first, as in Go's assembler
                cont = ln.endswith("\\")
                core = ln[:-1].strip() if cont else ln.strip()
                body.append(core)                             # "" = an empty continuation line
                i += 1
                if not cont:
                    break
            macros[name] = (params, body)
            continue
        i += 1
    return macros


def split_args(s):
    out, depth, cur = [], 0, ""
    for ch in s:
        if ch == "(":
            depth += 1
        if ch == ")":
            depth -= 1
        if ch == "," and depth == 0:
            out.append(cur.strip()); cur = ""
        else:
            cur += ch
    if cur.strip():
        out.append(cur.strip())
    return out


def expand(lines, macros, depth=0):
    """-> list of items: ('ins', text) | ('sep',)"""
    assert depth < 8, "macro recursion"
    out = []
    for ln in lines:
        ln = re.sub(r"//.*$", "", ln).strip()
        if ln == "":
            out.append(("sep",))
            continue
        m = re.match(r"(\w+)\s*\((.*)\)\s*$", ln)
        if m and m.group(1) in macros:
            params, body = macros[m.group(1)]
            args = split_args(m.group(2))
            assert len(args) == len(params), "macro arity: " + ln
            sub = []
            for b in body:
                for p_, a_ in zip(params, args):
                    b = re.sub(r"(?<![\w·])%s(?!\w)" % re.escape(p_), a_, b)
                sub.append(b)
            out.append(("sep",))
            out += expand(sub, macros, depth + 1)
            out.append(("sep",))
            continue
        out.append(("ins", ln))
    return out


class Tr:
    def __init__(self):
        self.ptr = {}            # DI / SI -> region name

    def offset(self, s):
        s = s.strip()
        if s == "":
            return 0
        tot = 0
        for part in s.split("+"):
            part = part.strip()
            assert re.fullmatch(r"\d+", part), "offset " + s
            tot += int(part)
        return tot

    def mem(self, text):
        """memory operand -> ('mem', region, off) ; returns None if not a memory operand"""
        m = re.fullmatch(r"·(\w+)\+?([\d+ ]*)\(SB\)", text)
        if m:
            g = {"p2": "P2", "np": "NP"}.get(m.group(1))
            assert g, "global " + text
            return ("mem", g, self.offset(m.group(2)))
        m = re.fullmatch(r"([\d+ ]*)\((\w+)\)", text)
        if m:
            base = m.group(2)
            off = self.offset(m.group(1))
            if base == "SP":
                return ("mem", "STK", off)
            assert base in self.ptr, "memory operand through a register that holds no known address: " + text
            return ("mem", self.ptr[base], off)
        return None

    def opnd(self, text):
        text = text.strip()
        if text in REGS:
            return "(Loc (Lr %s))" % text
        if text.startswith("$"):
            v = int(text[1:], 0)
            return "(Imm %d)" % v
        m = self.mem(text)
        assert m, "operand " + text
        assert m[2] % 8 == 0, "unaligned " + text
        return "(Loc (Lm %s %d))" % (m[1], m[2])

    def loc(self, text):
        o = self.opnd(text)
        assert o.startswith("(Loc "), "destination " + text
        return o[5:-1]

    def instr(self, text):
        """-> Coq instr text, or None for an instruction that only moves a Go argument address"""
        m = re.match(r"(\w+)\s*(.*)$", text)
        op, args = m.group(1), split_args(m.group(2))
        if op == "MOVQ":
            fp = re.fullmatch(r"(\w+)\+(\d+)\(FP\)", args[0])
            if fp:
                region = {0: "RC", 8: "RA", 16: "RB"}.get(int(fp.group(2)))
                assert region and args[1] in ("DI", "SI"), "argument load " + text
                self.ptr[args[1]] = region
                return None
            d = args[1].strip()
            if d in self.ptr:
                del self.ptr[d]
            return "MOVQ %s %s" % (self.opnd(args[0]), self.loc(d))
        if op in ("ADDQ", "ADCQ", "SUBQ", "SBBQ", "CMOVQCC"):
            assert len(args) == 2, text
            assert args[1].strip() not in self.ptr, "arithmetic on an address register " + text
            return "%s %s %s" % (op, self.opnd(args[0]), self.loc(args[1]))
        if op == "MULQ":
            assert len(args) == 1, text
            return "MULQ %s" % self.opnd(args[0])
        if op == "MULXQ":
            assert len(args) == 3, text
            return "MULXQ %s %s %s" % (self.opnd(args[0]), self.loc(args[1]), self.loc(args[2]))
        raise AssertionError("instruction not understood: " + text)


def routine(items, bmi2):
    """follow the control flow (only: CMPB hasBMI2,$0 / JE l / JMP l / labels / RET) -> segments"""
    labels = {}
    for k, it in enumerate(items):
        if it[0] == "ins":
            m = re.fullmatch(r"(\w+):", it[1])
            if m:
                labels[m.group(1)] = k
    tr = Tr()
    segs, cur = [], []
    pc, zf, steps = 0, None, 0
    while True:
        steps += 1
        assert steps < 5000 and pc < len(items), "no RET reached"
        it = items[pc]
        pc += 1
        if it[0] == "sep":
            if cur:
                segs.append(cur); cur = []
            continue
        t = it[1]
        if re.fullmatch(r"\w+:", t):
            continue
        if t == "RET":
            break
        if re.fullmatch(r"CMPB\s+·hasBMI2\(SB\),\s*\$0", t):
            zf = (not bmi2)
            continue
        m = re.fullmatch(r"JE\s+(\w+)", t)
        if m:
            assert zf is not None, "JE without a preceding comparison"
            if zf:
                pc = labels[m.group(1)]
            zf = None
            continue
        m = re.fullmatch(r"JMP\s+(\w+)", t)
        if m:
            pc = labels[m.group(1)]
            continue
        c = tr.instr(t)
        if c:
            cur.append(c)
    if cur:
        segs.append(cur)
    return segs


def run(repo, out, write_if_changed):
    bn = os.path.join(repo, "group", "bn256")
    macros = {}
    for h in ("gfp.h", "mul.h", "mul_bmi2.h"):
        macros.update(read_macros(open(os.path.join(bn, h)).read()))
    src = open(os.path.join(bn, "gfp.s")).read()
    texts = re.split(r"^TEXT\s+·(\w+)\(SB\)[^\n]*\n", src, flags=re.M)
    rout = {}
    for k in range(1, len(texts), 2):
        name, body = texts[k], texts[k + 1]
        items = expand(body.split("\n"), macros)
        if name == "gfpMul":
            rout["gfpMul_bmi2"] = routine(items, True)
            rout["gfpMul_nobmi2"] = routine(items, False)
        else:
            rout[name] = routine(items, False)
    for need in ("gfpNeg", "gfpAdd", "gfpSub", "gfpMul_bmi2", "gfpMul_nobmi2"):
        assert need in rout, "routine missing: " + need
    go = open(os.path.join(bn, "constants.go")).read()

    def words(name):
        m = re.search(r"var\s+%s\s*=\s*\[4\]uint64\{([^}]*)\}" % name, go)
        assert m, name
        ws = [int(x, 16) for x in re.findall(r"0x[0-9a-fA-F]+", m.group(1))]
        assert len(ws) == 4
        return ws
    o = ["(* GENERATED by translate/asm2coq.py (T1) from group/bn256/{gfp.s,gfp.h,mul.h,mul_bmi2.h} -- do not edit. *)",
         "From Coq Require Import ZArith List.", "From DosVerif Require Import Models.Asm.",
         "Import ListNotations.", "Open Scope Z_scope.", ""]
    o.append("Definition asm_p2 : list Z := [%s]." % "; ".join(str(w) for w in words("p2")))
    o.append("Definition asm_np : list Z := [%s]." % "; ".join(str(w) for w in words("np")))
    o.append("")
    for name in sorted(rout):
        segs = rout[name]
        o.append("Definition %s_segs : list (list instr) :=" % name)
        o.append("  [" + ";\n   ".join("[" + ";\n    ".join(s) + "]" for s in segs) + "].")
        o.append("Definition %s : list instr := Eval cbv [concat app %s_segs] in concat %s_segs." % (name, name, name))
        o.append("")
    return write_if_changed(os.path.join(out, "GfpAsm.v"), "\n".join(o))


if __name__ == "__main__":
    import sys
    def w(path, text):
        open(path, "w").write(text); return True
    run("/repo", sys.argv[1] if len(sys.argv) > 1 else "/tmp", w)
