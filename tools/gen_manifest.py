#!/usr/bin/env python3
"""Writes /verif/MANIFEST.json from the table below (kept in one place so the file always validates)."""
import json, os
ROOT = os.path.dirname(os.path.dirname(os.path.abspath(__file__)))

TB = ("Trusted: Coq 8.16.1 kernel (vm_compute, no native_compute); no axioms (Print Assumptions: closed under the "
      "global context); hypotheses named in the theorem statements; extraction via ExtrOcamlBasic + ExtrOcamlZBigInt "
      "(zarith) and ocaml/modelrun.ml; the Go correspondence driver, its generators and the property judge; "
      "the verif-tagged hooks in /repo. ")

CHECKS = {
 "C09": dict(
   text="Coq theorems over the Gallina model of share/poly.go (Models/Share.v), for every field with decidable equality, "
        "every threshold, share count, subset, order and junk entries: Lagrange reconstruction of the secret, of the whole "
        "polynomial and of the commitment is exact, too few usable shares give an error, Commit/Eval/Check/Add/Equal laws. "
        "The model is tied to /repo by a correspondence run (real RecoverSecret/RecoverPriPoly/RecoverCommit/Eval/Commit/"
        "Check/Add/Equal/Mul vs the extracted model on the same generated inputs, bn256 G1/G2 and Ed25519) plus an "
        "independent math/big judge of the property itself.",
   note=TB + "Hypothesis: the scalar modulus is prime (C09_instance proves the field/module laws of the executed Z/qZ "
        "instance from `prime q`). Group elements are modelled by their discrete logarithms (module laws), the real "
        "curve arithmetic is examined under C10/C11.",
   technique="Coq proof (induction, polynomial root counting, Lagrange interpolation over an abstract field) + "
             "differential correspondence of the extracted model against the real code",
   ref="5/C09"),
 "C01": dict(
   text="Coq theorems over the model of the recoverSign stage (Models/Recover.v on Tbls.v and Stages.v), for EVERY sequence "
        "of arrivals (nil messages, other contents, duplicates, re-encodings, foreign requests/groups, any order): a report "
        "(result, sig) always satisfies sig = H(result ++ a) * x for the 20 bytes a that closed the signed content - the "
        "contract's equation (C01_only_valid_reports); nothing after a report changes it (C01_single_report); no panic on "
        "any arrival sequence whatsoever, short contents and short signatures included (C01_stage_never_panics; "
        "C01_stage_no_panic is the older statement under a length premise); once collected + arriving shares contain valid shares of t "
        "distinct members on the arriving content the stage reports, whatever junk is present (C01_stage_live, uses C02). "
        "Tie: (a) the real recoverSign driven with scripted arrivals vs the extracted model; (b) n = 3..7 real DosNodes "
        "(queryLoop + handleQuery) over an in-memory network with up to n-t members playing {silent, duplicate, re-encoded, "
        "invalid, foreign request, foreign group, 1-byte signature, nil content, other content}, submitter late / peers "
        "staggered; judge: exactly one report, by the derived submitter, passing the contract equation on the REAL EVM "
        "precompiles under the group key and the submitter's address, to the right contract call.",
   note=TB + "partial: 'can reach the submitter' and the deadlines are runtime; the composition of collector and stage at the submitter is proved "
        "(C01_node_*), taking from the code that the own share is forwarded to the stage before the request is registered; that "
        "non-submitters never reach the recovery path is exercised by the system runs, not proved; unforgeability (t valid shares on a content imply an honest member signed it) is the hypothesis "
        "that links the stage theorem to 'the honest content'.",
   technique="Coq proof (induction over the arrival list, composition of C02/C03/C07 lemmas) + stage-level differential "
             "correspondence + multi-node system runs judged by the EVM precompiles",
   ref="5/C01"),
 "C02": dict(
   text="Coq theorems over the Gallina model of tbls.Recover / tbls.Verify / bls.Verify (Models/Tbls.v, discrete-log level, "
        "wire decoder as a parameter): for every field, threshold, group size, polynomial, message and candidate list in which "
        "valid shares of >= t distinct members occur - with any duplicates, re-encodings, entries without index, undecodable or "
        "foreign values, in any order - recovery returns f(0)*H(m) (never Err/Panic), hence independent of subset and order, and "
        "the value verifies under the group key. The pre-repair loop is refuted by three vm_compute witnesses (each reproduced on "
        "the real code before the fix: commit). Tie: correspondence of the extracted model with the real tbls.Recover/Verify/Sign "
        "on generated share multisets from a catalogue of 13 entry kinds (decode table emitted per case and cross-checked "
        "against the real UnmarshalBinary), plus an independent judge (x*H(m) from the dealt secret, bls.Verify under the group key).",
   note=TB + "Hypotheses: prime scalar modulus; G1/G2 elements are represented by discrete logarithms, i.e. the groups are cyclic of "
        "prime order and the pairing is bilinear and non-degenerate (examined under C06/C10); Keccak collision freeness is not "
        "needed for C02.",
   technique="Coq proof (loop invariant over the candidate list + Lagrange in the exponent) + differential correspondence",
   ref="5/C02"),
 "C03": dict(
   text="Same model as C02. Coq theorems: a share verifies iff it carries an index i and decodes to hm*f(i+1) (exactly this "
        "message, exactly this member's key); if the valid entries cover fewer than t distinct in-range members recovery returns "
        "Err whatever the padding; whenever recovery returns a signature it equals f(0)*H(m) and passes bls_verify under f(0). "
        "Tie: correspondence + judge on below-threshold collections padded with replays, re-encodings, re-indexed, foreign and "
        "malformed shares, and on single-bit modifications of a share, the message and the public polynomial.",
   note=TB + "Hypotheses as for C02; 'another message' is reflected as another value of H(m) (hash collisions excluded by hypothesis).",
   technique="Coq proof (invariant: collected entries are valid, distinct, in range) + differential correspondence",
   ref="5/C03"),
 "C08": dict(
   text="Coq theorems over the symbolic model of Verifier.ProcessEncryptedDeal / decryptDeal (Models/Vss.v): ANY response "
        "(approval or complaint) presupposes that the encrypted deal is signed by the verifier's dealer over exactly its DHKey "
        "bytes, decodes to the ephemeral key the ciphertext was sealed with for this verifier's own key under this dealer and "
        "member list, carries the same 12-byte nonce and an intact ciphertext (C08_any_modification_rejected, C08_only_addressee, "
        "C08_never_panics); the response is Approval iff share, threshold, index and session id check out, i.e. iff the share is "
        "the committed polynomial at the recipient's index (C08_approve_iff_*). Pinned-code panics refuted by witnesses. Tie: "
        "correspondence on the real Verifier with real AES-GCM/HKDF/Schnorr: every byte of every field under 3 masks (stride 7 "
        "quick, 1 thorough), truncations/extensions, field swaps between deals, other recipient / dealer / member list, "
        "unreduced and trailing-byte key encodings, inconsistent plaintexts sealed with the package's own derivation.",
   note=TB + "partial (symbolic cryptography): Schnorr unforgeability, AES-GCM integrity, HKDF and hash collision freeness "
        "are modelled as ideal primitives; the harness's description of each message (which field it altered) is trusted.",
   technique="Coq proof (inversion of the decision function under ideal-primitive hypotheses) + differential correspondence "
             "with per-byte mutation of real encrypted deals",
   ref="5/C08"),
 "C05": dict(
   text="Coq theorems over Models/Vss.v + Models/Dkg.v (DistKeyGenerator, repaired code), no assumption on dealers, plaintexts, "
        "order or other responses: a deal is approved iff consistent (C05_bad_share_not_approved); if honest i approved its deal "
        "from a dealer and accepted honest k's own response about that dealer then i and k hold the same commitments and "
        "threshold (C05_same_dealer_same_commitments: the binding the pinned code lacked); equal commitments give equal public "
        "polynomial (C05_same_commitments_same_key); a finishing member's share lies on its polynomial (C05_share_on_polynomial); "
        "a session that finishes sent only approvals (C05_no_approval_no_finish). Tie: real DistKeyGenerators driven through "
        "scripted sessions (n=3..5, one Byzantine member, 14 deviation scenarios incl. equivocation with honest and crossed "
        "session ids, other-degree polynomials, forged/re-signed/foreign/duplicated/nil responses) vs the extracted model call "
        "by call, plus a joint-outcome judge (same key, PubPoly.Check).",
   note=TB + "Symbolic cryptography as for C08; unforgeability enters as the hypothesis that the response i accepted as k's is "
        "the one k produced. Double faults and every injection position are sampled (random orders), not enumerated.",
   technique="Coq proof (state invariants of the verifier/aggregator, session-id injectivity) + scripted differential "
             "correspondence with an adversary catalogue",
   ref="5/C04-C05"),
 "C04": dict(
   text="Coq theorems (schedule-free: they hold for whatever state DistKeyShare succeeds in): with honest dealers a finished "
        "member holds the commitment of the SUM of the dealers' polynomials and that sum at its own index (C04_agreement), so "
        "any t shares reconstruct the sum of the secrets behind the group key (C04_shares_reconstruct = C09 on the sum); the "
        "share lies on the polynomial. Tie: (a) library level as C05 with random delivery orders and re-delivered deals vs the "
        "model; (b) n real pdkg instances (Loop + Grouping pipeline) over an in-memory network under 10 schedules (skewed "
        "start, deals or a public key late to one node, every message twice, a Responses message re-delivered, lost "
        "acknowledgement + retry, late duplicates of a completed stage, transient send failure) judged on the joint outcome "
        "(all finish, same key, share on polynomial, t shares recover).",
   note=TB + "partial: liveness ('every member finishes') is proved at the level of the session functions for every order of "
        "the deals and of the approvals, each delivered once (C04_everything_delivered_finishes); that re-deliveries are filtered "
        "before those functions, and the goroutine / retry layer that feeds them, are established by the networked runs; timing "
        "(500 ms retry, deadlines) is not modelled; a send that fails outright is retried by a goroutine that dies with the "
        "sender's session, so for that schedule only safety is judged (premise 'delivered at least once' not met).",
   technique="Coq proof (homomorphism of commitments and shares over the sum) + scripted and networked differential runs",
   ref="5/C04-C05"),
 "C06": dict(
   text="Coq theorems over the value-level library model and an EVM-side model written from EIP-196/197 and the contract's "
        "negate/hashToG1 (Models/Evm.v): every emitted G1 encoding is 64 bytes with both coordinates < p, every non-identity G2 "
        "encoding is 0x01 || x.im || x.re || y.im || y.re with coordinates < p; the EVM decoder accepts every emitted G1 "
        "encoding and reads the same point; what the (laxer) library parser accepts re-encodes canonically; the contract's "
        "negate equals the library's Neg; C06_verify_iff_evm: library acceptance <-> contract equation on the canonical "
        "encodings, with the imported mathematics as named hypotheses (order of G1, closure of the curve, y <> 0, decoding of "
        "pk / generator). The G2 identity encoding is refuted (known finding). Tie: three-way correspondence per case - real "
        "bls.Verify/Sign, the extracted model (it runs the whole pairing), and the REAL go-ethereum precompiles 0x06/0x07/0x08 "
        "- on keys {1, q-1, 2, random}, messages {empty, 1 MiB, hashes >= q}, valid signatures and 13 kinds of mutations.",
   note=TB + "partial: bilinearity / non-degeneracy of the pairing and the group order enter as hypotheses (C10); the "
        "agreement of all three implementations on the generated inputs is a test of them, named as such.",
   technique="Coq proof (codec and convention lemmas; equivalence under named group-theoretic hypotheses) + three-way "
             "differential run against the real EVM precompiles",
   ref="5/C06"),
 "C10": dict(
   text="Coq theorems for ALL operands at the formula level: gfP2 Mul/Square/Invert, MulXi, gfP6 Mul/Square/MulTau, gfP12 "
        "Square and the sparse line multiplication equal the schoolbook products of the tower (ring identities over F_p); the "
        "Jacobian Double/Add of curve.go and twist.go equal the tangent/chord rule on affine coordinates over any field, "
        "P+(-P) gives the identity, P+P takes the doubling branch, identity operands, MakeAffine; the constants the translator "
        "re-reads from the source on every run (np, r2, r3, rN1, p and q from u, NAF of 6u+2, twistB, the six Frobenius "
        "constants) satisfy their defining equations (vm_compute). The amd64 routines of the base field are translated from "
        "gfp.s / gfp.h / mul.h / mul_bmi2.h on every run (T1, Gen/GfpAsm.v) into a machine model (Models/Asm.v): gfpAdd, gfpSub, "
        "gfpNeg are proved for ALL limbs ((a+b) mod p, (a-b) mod p, -a mod p for operands below p), the 4x4-limb product of BOTH "
        "paths of gfpMul is proved for all limbs (C10_asm_gfpMul_product_partial, C10_asm_gfpMulx_product_partial), N' p = -1 mod 2^256 and the alias "
        "discipline of every routine are checked. Tie: translate/run.py regenerates Gen/BnConsts.v and Gen/GfpAsm.v from "
        "/repo; the extracted machine model runs both gfpMul paths and the three other routines on every field case and must "
        "return exactly the limbs the real assembly returned; the value-level model (all group operations and the whole Miller loop + final exponentiation ported to Gallina) "
        "is compared with the real code on directed field operands on BOTH gfpMul code paths, unreduced Montgomery inputs, "
        "scalars {0,1,q-1,q,q+1,2^256-1}, P/-P, P/P, identity, pairings with G2 operands in four internal representations, "
        "PairingCheck with identity members at every position; judges: math/big, go-ethereum's big-integer bn256, EVM precompiles.",
   note=TB + "partial by design: associativity of the group law and bilinearity/non-degeneracy of the optimal ate pairing are "
        "not re-proved (imported mathematics); the Montgomery reduction of gfpMul (both paths) "
        "is translated, executed and compared limb for limb on directed operands, not proved (lia did not close the truncated "
        "product within the time available).",
   technique="translators for constants and for the amd64 field routines + Coq proof (symbolic execution of the translated "
             "assembly, ring/field identities for tower and curve formulas) + differential "
             "correspondence with three independent oracles",
   ref="5/C10"),
 "C07": dict(
   text="Coq theorems over the Gallina model of the content-building stages (Models/Stages.v: padOrTrim, genSysRandom, "
        "genUserRandom, genQueryResult, the strip in recoverSign, choseSubmitter): for every last randomness < 2^256 the signed "
        "system-randomness content is exactly be_enc 32 r ++ submitter whatever the number of leading zero bytes; longer values "
        "keep their low 32 bytes; strip inverts content-building for the three kinds; the submitter index is (r mod 2^64) mod n, "
        "in range, a member of the list. Being Gallina functions of the event fields, the model has no member-, history- or "
        "schedule-dependence; the correspondence run checks that the real stages equal it on histories of calls with lengths "
        "going up and down, on ONE shared event object evaluated by all non-submitting members through the real handleQuery "
        "sequentially and concurrently (event numbers must stay unmodified), and that selector evaluation (ajson / xmlquery) is "
        "repeatable and goroutine-independent on grammar-generated documents.",
   note=TB + "partial: dataParse delegates to third-party ajson / xmlquery; it is opaque in the model and its determinism is "
        "TESTED (repeated + concurrent evaluation), not proved. The submitter's own path (recover, strip on the real node) is "
        "exercised under C01.",
   technique="Coq proof (big-endian codec lemmas, list algebra) + differential correspondence incl. shared-object and "
             "concurrent evaluation",
   ref="5/C07"),
 "C11": dict(
   text="Coq theorems over the value-level bn256 model (Models/Bn.v: F_p, F_p^2, Jacobian add/double/scalar-mul with the "
        "formulas of curve.go/twist.go, the codecs of point.go): every point of the G1 curve in any Jacobian representation "
        "(identity included) decodes back to its affine form after encoding (C11_roundtrip_g1), and so does every element of "
        "G2 - twist point passing the [Order]P = O test, identity included (C11_roundtrip_g2; the generator is shown to satisfy "
        "the premise by an 80 s vm_compute of the subgroup test, compiled once); fixed lengths 64/129/32; G1 and G2 "
        "encodings are injective on affine points (C11_injective_g1/g2); too-short input is an error; whatever decodes satisfies the curve equation "
        "and, for G2, [Order]P = O (C11_decoded_in_subgroup_g2); scalars round-trip and decode only from 32-byte values below "
        "the order. The decoders are total functions into option (no panic by type). Tie: correspondence of the extracted "
        "model (it recomputes curve membership and the 254-bit subgroup multiplication itself) with the real UnmarshalBinary / "
        "MarshalBinary on 1700 byte strings: every length 0..2*size, bit flips, coordinate swaps, unreduced coordinates, zero "
        "coordinates, twist points outside the subgroup (built with an F_p^2 square root), random bytes, receiver reuse; plus "
        "go-ethereum's big-integer bn256 as independent reference for canonical encodings.",
   note=TB + "GT decoding checks length only, as in the code: there is no on-curve / subgroup theorem for GT because the "
        "code makes no such test (C11_short_gt is all it refuses). Curve constants are copied into the model "
        "and checked by the run (Base encodings).",
   technique="Coq proof (byte-codec lemmas + case analysis of the decoders over the concrete curve) + differential "
             "correspondence on mutated encodings",
   ref="5/C11"),
 "C12": dict(
   text="Coq theorems over Models/Guards.v, where every Go operation that can panic (slice index, slice expression, field "
        "access through a nil pointer) returns Panic exactly where the Go runtime would: for EVERY batch of n public-key "
        "messages (any uint32 indices, absent key sub-messages, undecodable keys, nil entries) genDistKeyGenerator + the own-key "
        "search never panic and accept only well-formed, in-range, decodable, distinct-index batches (pigeonhole: n fills "
        "without a duplicate leave no hole); decodeBytes/decodePipe, the handshake (id frame, key class, session-key slices) and "
        "the gossip name translation never panic and accept exactly what they should; the buffer/request pair of pdkg.Loop is "
        "total on every event history (nil / inner-nil responses, duplicates, surplus, sessions nobody asked for) and what one "
        "session receives is a function of that session's events alone (C12_sessions_independent), likewise for the share "
        "collector (C13 frame). The pre-repair handlers are refuted by five vm_compute witnesses, each reproduced on the real "
        "code before its fix: commit. Tie: correspondence of the extracted model with (a) the real genDistKeyGenerator stage on "
        "generated batches, each in its own child process, (b) the real decodeBytes, (c) a raw TCP peer speaking the transport "
        "protocol against a real p2p server for each handshake class (accepted / rejected), (d) the real serfNet.Listen on names "
        "of every length class, (e) the real handlePeerMsg/handleRequest on random multi-session histories. Scenario runs in "
        "child processes (a panic in any goroutine is observed as the child's death): a 3-member key generation in which one "
        "member sends each malformed message kind at each stage (thorough: all pairs), followed by an honest session on the same "
        "node instances that must complete; a raw peer sending each malformed handshake / sealed frame kind to a real server that "
        "must still answer an honest peer afterwards; crafted signature shares thrown at the collector of a running 3-node query; "
        "arbitrary and mutated bytes to the packet decoder; grammar-generated and mutated documents and selectors to the extractor.",
   note=TB + "partial: protobuf decoding, the AEAD, and the third-party JSONPath/XPath libraries behind dataParse have no Coq "
        "model - the extractor and raw-byte decoder are exercised by generation only (no theorem); 'spin forever' is observed as "
        "a 10-25 s scenario timeout, not proved; memory growth from messages for sessions nobody asked for is not judged.",
   technique="Coq proof (partiality monad for Go panics, counting invariant, per-session frame theorem by induction over "
             "histories) + differential correspondence + malformed-input scenarios against real nodes in child processes",
   ref="5/C12"),
 "C13": dict(
   text="Coq theorems over the Gallina model of DosNode.queryLoop (Models/QueryLoop.v): for EVERY event sequence (arrivals, "
        "registrations, cancellations, watchdog sweeps, any interleaving, any number of requests) the shares handed to a "
        "never-cancelled request are exactly the arrivals for its id, each once, in arrival order, wherever its registration falls "
        "(C13_exactly_once, by an invariant over the event list); a delivered share always arrived for an id its receiver "
        "registered (C13_no_crossover); deleting all events of other requests changes nothing for this one (C13_frame); a request id "
        "registered AGAIN with a fresh handle after any history - earlier registration live, cancelled or swept - receives what "
        "was buffered since plus every later arrival exactly once (C13_reregistration, C13_reregistration_over_old_entry). The "
        "pre-repair map lookup is refuted by the witness [Peer \"\" s]. Tie: the REAL loop is driven through the dosnode verif "
        "constructor over an in-memory p2p double with unbuffered channels (events serialised), exhaustively for all sequences of "
        "<= 4 events over 2 ids and <= 3 over 3 ids (thorough: 6 / 5) incl. the empty request id, all sequences with a second "
        "registration of an id (<= 5 events over 1 id, <= 4 over 2; thorough 7 / 5), plus random sequences with "
        "duplicate deliveries; an end-to-end family runs real handleQuery on every member with request ids of 32, 31, 30, 17, 1 "
        "and 0 bytes, shares early or late relative to the submitter's registration (the id on the wire must be the id registered); result classes deliveries / panic / wedged are compared with the extracted model and with an "
        "independent judge.",
   note=TB + "Environment assumption (stated in the model): a live request's reader takes every offered share; a cancelled "
        "request has no reader. The 30-minute watchdog branch is in the model and the theorems but cannot be fired by the harness "
        "(ticker created inside the loop). Wall-clock bounds are not modelled; a wedged loop is detected by a 1.5 s per-event timeout.",
   technique="Coq proof (state invariant by induction over the event list, refinement to `filter arrivals`) + exhaustive "
             "small-scope correspondence against the real event loop",
   ref="5/C13"),
 "C14": dict(
   text="Coq theorems over Models/Pipes.v -- networks of goroutine skeletons (control-flow graphs of every `go func` body: each "
        "channel send/receive/select, close, WaitGroup operation, cancel call, deferred calls compiled onto every exit path) "
        "with unbuffered and buffered channels, WaitGroups and a cancellation flag raised by the root's cancel() or by the "
        "deadline at ANY moment, under every interleaving: for EVERY network that passes the boolean checker "
        "Models/PipesCheck.v (proved sound in Proofs/PipesCheckProofs.v) (1) no reachable state can close a closed channel, "
        "send on a closed channel or misuse a WaitGroup (invariants over process histories, must/may certificates, fan-in "
        "ordering through the WaitGroup); (2) after cancellation a state in which nothing can move has every goroutine "
        "exited and every channel the session owes closed (minimal-rank argument over the wait-for order); (3) after "
        "cancellation there is no infinite execution (weighted measure: buffered values, data-loop counters, node ranking). "
        "Gen/PipeNets.v -- the networks of handleGrouping (Grouping, registerGroup, both error fan-ins: 35 goroutines, 30 "
        "channels) and of handleQuery for each request type -- is REGENERATED from /repo on every run by translate/skel "
        "(go/ast symbolic execution of the handler: inlines calls, starts a process per go statement, allocates channels, "
        "computes the certificates), and C14_nets_checked re-runs the checker on them by vm_compute. The networks translated "
        "before the repairs are rejected (C14_old_rejected) and a 3-goroutine instance of the old fan-in is shown to reach a "
        "cancelled, stuck, non-final state (C14_old_leak). Implementation side: the real handlers (handleGrouping / "
        "handleQuery over real pdkg and queryLoop instances on the in-memory network), each scenario in a child process, the "
        "deadline placed from 'already expired' to 'after completion' (through the chain adaptor's block time), faults: "
        "silent peers, peer silent after its k-th message, invalid deals, invalid / nil / short-content shares, a stream of "
        "invalid shares across the deadline, buffered shares with a fetch that outlasts the deadline, fetch failure, bad "
        "selector, chain call failure, slow network; afterwards the goroutine dump filtered to the packages under test must "
        "be empty and the process must not have died (send on closed channel).",
   note=TB + "The translator translate/skel is trusted to be faithful (its output carries source positions and is checked, "
        "not trusted, for the static conditions). partial: termination is stated under the scheduling assumption that a ready "
        "ctx.Done arm is taken (gstep true); opaque calls (p2p.Request with the session context, chain calls, HTTP fetch with "
        "its own 60 s timeout) are assumed to return; pdkg.Loop and queryLoop appear only through what they do with a "
        "registered reply channel (hand-written in the translator); the per-member retry goroutines started in a data loop are "
        "represented by one instance; the Go runtime itself is outside the model - the child-process scenarios observe it.",
   technique="Coq proof (interleaving semantics, history invariants, wait-for rank induction, well-founded measure; boolean "
             "checker proved sound and run by vm_compute on networks regenerated from the Go sources) + goroutine-leak / "
             "panic scenarios against the real handlers",
   ref="5/C14"),
 "C16": dict(
   text="Coq theorems over Models/P2PRecv.v (the receive side of one connection: decryptPipe, decodeBytes, decodePipe's second "
        "signature check, routing into replies / deliveries, dispatch by type) over symbolic cryptography - a wire frame is either "
        "Sealed(key, plaintext) or junk; a payload signature is (signing key, signed payload): for EVERY stream of frames (honest, "
        "altered, truncated, injected, sealed under another key, not a package, without payload, signed by another key or over "
        "other content, at any positions) and however many frames are still processed after the first reported error, whatever "
        "reaches a subscriber or the request table was sealed under the session key in a package carrying the peer's signature "
        "over exactly that content (C16_delivered_is_authentic, C16_reply_is_authentic); each kind of bad frame yields an error "
        "(C16_bad_frames_rejected); an untampered stream is delivered completely, each message once, in order, to the subscriber "
        "of its type (C16_each_once, C16_subscriber_of_its_type); everything before the first bad frame is delivered "
        "(C16_prefix_before_first_bad). Tie: (a) two REAL p2p servers on loopback with a byte-level TCP proxy between them that "
        "flips a bit at a random position of the post-handshake frame i (body or length header), truncates it (consistently or "
        "raw), appends an altered copy, injects random frames, or replays it; (b) a raw peer that completes the real handshake, "
        "holds the session key and sends packets with absent / garbage / other-key / other-content signatures, a swapped payload, "
        "an unknown type, no payload, a non-package plaintext, an unsealed frame. Every third scenario uses all six message types the protocol packages exchange, "
        "each with its own subscriber (dkg.PublicKey / vss.PublicKey, dkg.Responses / vss.Responses share their bare names). "
        "The subscribers' deliveries (compared "
        "byte-for-byte with what was sent) are compared with the extracted model on the same symbolic stream (guaranteed "
        "prefix) and judged: only sent messages, each at most once, right subscriber, complete when untampered, no crash.",
   note=TB + "Hypotheses built into the frame representation: AES-GCM integrity, BLS unforgeability, secrecy of the session key. "
        "The code seals every frame of a connection with ONE static nonce: the integrity hypothesis is then not justified by "
        "AES-GCM's security statement (nonce reuse allows recovery of the authentication key from two frames), and an exact "
        "replay of a frame is accepted - both are outside the property's quantifier and are recorded in DESIGN.md (F15); the "
        "replay scenario is run and reported in the evidence, not judged. Package fields other than the payload (sender, request "
        "nonce, reply flag) are not covered by the payload signature.",
   technique="Coq proof (symbolic AEAD / signature model, induction over the frame stream with an arbitrary post-error budget) + "
             "differential correspondence and judging against real endpoints behind a tampering TCP proxy and a key-holding raw peer",
   ref="5/C16"),
 "C17": dict(
   text="Coq theorems over Models/Dispatch.v (the correlation table of client.dispatch with p2pRequest's once-only completion and "
        "waitForResult's first-of completion / own cancellation) for EVERY sequence of events - requests entering, reply frames "
        "with any nonce in any order (reordered, duplicated, for nonces never issued, after the request was cancelled, after the "
        "connection ended), cancellations, the connection ending: a request that returns a reply returns the content of a reply "
        "frame that carried ITS nonce and arrived after it was put on the wire (C17_own_reply), no two requests of a connection "
        "share a nonce (C17_nonces_distinct, C17_reply_not_crossed), a request call returns at most once "
        "(C17_returns_at_most_once), a cancelled request returns and every request still pending when the connection ends returns "
        "(C17_cancel_returns, C17_conn_done_fails_pending). Tie: (a) the REAL dispatch goroutine on harness-owned channels, driven "
        "event by event with random scripts, nonce assignment and every return compared with the extracted model; (b) a real "
        "server sending 1..200 concurrent requests to 1..4 real responder servers that answer in random order with random delays "
        "and drop a random subset, callers cancelling at random times, a responder leaving mid-flight, a responder that goes away and comes back "
        "under the same id at a new address (requests made afterwards must be served over a fresh connection), a peer that "
        "refuses the connection and one that accepts it and stays silent: every returned reply must embed the request's own tag and "
        "responder, errors must be prompt, and requests to reachable peers must still be answered.",
   note=TB + "partial: 'promptly' is observed as wall-clock bounds (cancellation + 1.5 s, 6.5 s overall), not proved; scheduler "
        "fairness is runtime. Residual, recorded in DESIGN.md: the call handler still dials and shakes hands synchronously, so "
        "requests to other peers wait behind a slow handshake for at most that request's deadline (after fix 726949f; for ever "
        "before). p2pRequest is copied by value together with its sync.Once; the model's once-flag is the shared reply channel's.",
   technique="Coq proof (invariant over the event list: table/wire/counter consistency, once-only returns) + event-level "
             "differential correspondence on the real dispatcher + concurrent request runs against scripted real responders",
   ref="5/C17"),
 "C19": dict(
   text="Coq theorems over Models/Abi.v: (1) the contract ABI encoding (head / tail, offsets, length words, right padding) of the "
        "argument lists that UpdateRandomness, DataReturn, RegisterGroupPubKey, Commit and Reveal build (signature split by "
        "ToBigInt into big-endian x, y; request id as the value of its bytes; traffic type as uint8 of the index): decoding "
        "the produced calldata yields exactly the intended arguments for all values (C19_abi_roundtrip, C19_sig_coords); "
        "(2) handleReq's loop over the RPC endpoints with its classification of error texts: every endpoint receives a call at "
        "most once (C19_sent_once), nothing is sent and the answer does not change after an accept, revert or "
        "insufficient-funds answer whatever endpoints follow (C19_no_resend), any other answer moves on to the next live "
        "endpoint and the caller gets the last answer (C19_retry_next, C19_dead_endpoint_skipped); (3) Models/Adaptor.v, the "
        "adaptor over a whole history of reads (get), single calls and bursts of queued calls, calls leaving the request queue "
        "one at a time, reads and writes sharing the per-endpoint contexts, all endpoints views of one account: the accepted "
        "transactions of ANY history carry consecutive nonces - no two calls share one, none is lost to 'nonce too low' against "
        "its neighbour (C19_nonces_consecutive, C19_nonces_distinct), k calls queued together become k transactions "
        "(C19_burst_all_accepted), an endpoint is switched off only by its own closed-connection answer to a read or its own "
        "nonce-retrieval failure on a write (C19_switched_off_only_when_blamed), so a call after reads that failed otherwise "
        "fails over as if they had not happened (C19_write_after_reads). Tie: a REAL ethAdaptor "
        "(NewEthAdaptor + Connect) against 1..3 in-process JSON-RPC / WebSocket endpoints (go-ethereum rpc server answering the "
        "bridge look-ups, eth_getTransactionCount, eth_sendRawTransaction): (a) each call with generated arguments (0, 2^256-1, "
        "leading zero bytes, results of 0..1 MiB, indices that do not fit uint8): the calldata of the raw transaction the "
        "endpoint received is compared byte-for-byte with the extracted model, and judged independently by decoding the "
        "transaction with go-ethereum (recipient, recovered sender, chain id, gas limit / price, method, ABI-unpacked arguments); "
        "(b) every assignment of {accept, revert, insufficient funds, nonce failure, other error} to 1..3 endpoints, followed by "
        "a second call on the same adaptor (endpoints switched off stay off): which endpoints received the call, the "
        "caller's result class and the switched-off endpoints are compared with the model and judged (at most one accept, "
        "nothing after a final answer, at most once per endpoint, nil error iff accepted); (c) random histories of reads "
        "(GroupSize with per-endpoint value / 'header not found'-class error / closed connection), single calls and bursts of "
        "2..4 concurrent calls on one adaptor whose endpoints share one account (nonce answered after 60 ms during a burst, "
        "stale nonces rejected as geth does), closed by a probe call: per step which endpoints received the call, the result "
        "class and the accepted nonces are compared with the extracted model and judged by the harness's own book-keeping.",
   note=TB + "The bindings' own ABI packing and transaction signing are go-ethereum code, observed (decoded calldata and "
        "recovered sender are what is compared), not modelled. The code recognises revert / funds / nonce answers by error-text "
        "substrings; the model copies that classification and the endpoints produce several spellings. 'use of closed network "
        "connection' is in the model but cannot be produced faithfully by the in-process endpoint.",
   technique="Coq proof (ABI encode/decode round trip by induction over the argument list with offset invariant; fail-over loop "
             "lemmas) + byte-level differential correspondence of calldata and fail-over outcomes against a real adaptor on "
             "in-process JSON-RPC endpoints",
   ref="5/C19"),
 "C18": dict(
   text="Coq theorems over Models/FirstEvent.v (firstEvent over the merged stream of all websocket endpoints, identity = the hashed "
        "bytes data ++ minimal big-endian block number): for EVERY merged stream - any interleaving of any number of endpoints, "
        "duplicates, removed re-emissions before or after the real log - the delivered identities are exactly those of the logs "
        "not flagged removed (C18_delivered_exactly), each once (C18_delivered_once), never a removed one "
        "(C18_removed_never_delivered); two merged streams with the same non-removed identities deliver the same identities, so an "
        "endpoint that fails does not matter while another carries the history (C18_interleaving_independent); the hashed bytes "
        "determine (data, block) for ABI-encoded data and 64-bit block numbers (C18_identity_injective). Field fidelity "
        "statically: Gen/EventTable.v is REGENERATED on every run from eth_subscribe.go's translation blocks, the bindings' event "
        "structs, eventMsg.go and the node's subscription list, and C18_translation_blocks_faithful checks by vm_compute that each "
        "block of a subscribed event fills every field of the delivered value exactly once from a field of the event, a node field "
        "bearing an event field's name from that very field, and the common part (tx, block, removed flag, raw log) canonically. "
        "Tie: a REAL ethAdaptor (Connect + SubscribeEvent for the node's seven event types) on 1..3 in-process WebSocket / "
        "JSON-RPC endpoints that emit a generated log history (fields 0, 2^256-1, empty and long strings, member lists of 0..60 "
        "addresses) each in its own order with independent delays, duplicates, removed-flag copies, logs only ever flagged "
        "removed, and one endpoint dropping its connection at a random point; every delivered value is matched field by field "
        "against the independent ABI decoding of the emitted logs (go-ethereum UnpackIntoMap) and judged: each live log once, "
        "nothing removed, nothing else; the delivered set is compared with the extracted model run on the emitted streams.",
   note=TB + "Hypotheses: SHA-256 collision freedom; distinct logs of the contracts differ in data or block number (each carries a "
        "unique request / group / round id; none has indexed fields). The 25-minute expiry of the visited set is outside the "
        "model ('within the de-duplication window'); its delete from a timer goroutine races with the loop's map accesses "
        "(a data race the model cannot exhibit; recorded in DESIGN.md). The translation of events the node does not subscribe to "
        "is reported but not judged (LogGroupingInitiated copies no field).",
   technique="Coq proof (induction over the merged stream with the visited set; injectivity of the identity encoding) + "
             "computed check of the regenerated translation table + differential correspondence and ABI-decoding judge on a real "
             "adaptor fed by in-process WebSocket endpoints",
   ref="5/C18"),
 "C20": dict(
   text="Coq theorems. (1) Models/Schnorr.v (schnorr.Sign / Verify next to RFC 8032 verification as crypto/ed25519 performs it, over "
        "an abstract module with a generator; S is the 32-byte little-endian integer on the wire): a signature made by Sign "
        "verifies under both verifiers for every key, nonce and message (C20_sign_verifies); the standard verifier = the bundled "
        "equation + the range check S < l, so on canonical S they agree in both directions (C20_interop); the verifier WITHOUT "
        "the range check accepts S + l, an altered signature that the standard verifier rejects (C20_old_verifier_malleable - "
        "reproduced on the real code and repaired, fix: commit); with the check an altered S is rejected, an altered message only "
        "passes on a challenge collision, an altered key only if R + hA coincides (C20_altered_*). (2) Models/ScLimbs.v + "
        "Gen/Ref10Sc.v - the limb programs scMulAdd, scMul, scAdd, scSub, scReduce REGENERATED from scalar.go on every run "
        "(translate/sc2coq.py): for ALL operand limbs the final limbs stand for an integer congruent modulo l to a*b+c, a*b, "
        "a+c, a-c and to the 512-bit input (C20_scMulAdd .. C20_scReduce: carries preserve the integer exactly, every fold's six "
        "constants express 2^252 modulo l, the initial products are the polynomial product by ring), and no intermediate value "
        "leaves the int64 range, so Go's wrapping arithmetic computes exactly that (C20_no_overflow_*: interval analysis proved "
        "sound against an explicit wrap-after-every-operation semantics). Tie: the real scMulAdd/scMul/scAdd/scSub/scReduce "
        "(verif hooks) on operands 0, 1, l-1, l, l+1, 2^252, 2^255-19, 2^256-1, 15l, random reduced and unreduced, and 64-byte "
        "inputs up to 2^512-1, compared with the extracted limb model (exact integer of the final limbs) and with math/big; the "
        "public Scalar API (Add, Sub, Mul, Neg, Inv, Div, SetBytes, marshal round trip) against math/big; schnorr.Sign / Verify "
        "versus crypto/ed25519 Sign / Verify for keys derived from seeds (both directions, messages of 0..5000 bytes), every "
        "single-bit flip of signature and public key (thorough: all 512 / 256), message flips and extension, and S replaced by "
        "S + j*l (all j that fit) or bit-flipped on signatures made with a known nonce, where the model decides both verifiers.",
   note=TB + "partial: SHA-512 is not modelled (the challenge is a parameter of the signature theorems, which speak about an abstract "
        "module with a generator); the point formulas of ge.go ARE modelled at the level of field values (Models/Ed.v) and proved "
        "to compute the Edwards addition law, and so is point decoding (Models/EdCodec.v), but fe.go's ten-limb field arithmetic, the correctness of the square-root "
        "exponent (that every ordinate of a curve point IS accepted: only tested) and the precomputed table of geScalarMultBase are not (a fieldElement is the residue it stands for; base multiples are "
        "computed by the generic geScalarMult in the model and compared with what the table-driven code returns); that 1 + D and "
        "1 - D do not vanish on the curve (d a non-square) is a hypothesis of the formula theorems; that the limb programs' result is "
        "the CANONICAL representative (< l, exact byte packing by the store statements) and that the load statements split the "
        "operand bytes into the limbs the model assumes are compared on the directed operands, not proved.",
   technique="Coq proof (abstract-module algebra for the signatures; limb programs generated from the Go source, value "
             "preservation modulo l by induction over the program, ring for the initial products, verified interval analysis "
             "against wrapping semantics) + differential correspondence with the real routines, math/big and crypto/ed25519",
   ref="5/C20"),
 "C15": dict(
   text="Coq theorems over the Gallina model of writeTo/readFrom (Models/Framing.v) where a connection is an arbitrary list of "
        "chunks: for every list of payloads of 1..2^20 bytes and EVERY chunking of the concatenated frames the reader returns "
        "exactly the payloads in order and leaves exactly the following bytes; a header of 0 or > 2^20 yields Err after exactly "
        "4 bytes; a stream ending inside header or payload yields Err. Tie: correspondence of the extracted model with the real "
        "readFrom/writeTo over a scripted net.Conn (every split of short streams, boundary lengths 2^k-1,2^k,2^k+1 up to 2^20, "
        "sequences, rejected headers incl. the top of the 32-bit range, every truncation point) plus an independent judge.",
   note=TB + "Assumes Read never returns (n>0, io.EOF) together and never (0, nil) forever (true of net.TCPConn); memory use is "
        "argued from the model's order of operations (size test before the body buffer), not measured.",
   technique="Coq proof (induction over the chunk list) + differential correspondence over a scripted net.Conn",
   ref="5/C15"),}

# additions made after the second round of seeded changes (appended to the descriptions above)
EXTRA_TEXT = {
 "C16": "The proxy can also remember a frame, cut the connection, and inject the remembered frame into the next connection between the same two nodes (it must not be delivered there).  A seventh message type (Ping) is part of the all-types runs; its first message has every field at its default and encodes to no bytes: authentic, so it must be delivered. The proxy can also keep one frame back and forward it together with the next one in a single write (both must be delivered, in order).",
 "C14": "The translator also checks, on the syntax tree, the assumption behind the opaque document fetch (dataFetch builds an http.Client with an overall Timeout); the thorough tier runs a data source that sends its headers and stalls inside the body and requires the pipeline's goroutines to be gone when the fetch's own 60 s have passed. Key-generation fault added: every node receives the grouping event a second time while the session it started is still running (the handler of the repeated event must return and leave no goroutine behind). Key-generation fault member-listed-twice: the participant list names member 0 twice; the handlers must return with the deadline and leave nothing behind.",
 "C20": "Algebraic relatives of each genuine signature - R || (l - s), (-R) || s, (-R) || (l - s), R || (s + 1), the signature under the negated key - must be rejected by both verifiers, and Equal must tell a point from its negation. One scalar object is assigned repeatedly (large value, then values with leading zero bytes, SetInt64 of -1 and 2, Set, Zero, 64-byte input, One) and the operands are checked to be unchanged. The curve arithmetic behind the signatures is exercised through point objects with histories (the register programs of props/pointmachine.go over the Ed25519 group: every register must encode like its logarithm's multiple of the base point computed afresh). The curve arithmetic has a model of its own (Models/Ed.v, constants regenerated from const.go by translator T5: prime, order, d, 2d, sqrt(-1), the base point): the four representations of ge.go with their formulas operation by operation, point.Add / Sub / Neg, geScalarMult with its signed radix-16 digits and table of 1A..8A, and ToBytes. Proved over any field of characteristic other than two: Add computes the twisted Edwards addition law on the affine coordinates and keeps T = XY/Z (C20_point_add), Sub is Add of the negative (C20_point_sub), Neg (C20_point_neg), the doubling inside Mul on a point of the curve is the law applied to (P, P) (C20_point_double), the sum does not depend on the extended coordinates representing the operands (C20_point_add_representation_independent); the constants satisfy their defining equations (C20_ed_constants: p = 2^255-19, d2 = 2d, sqrtM1^2 = -1, d = -121665/121666, base point on the curve with y = 4/5 and T Z = X Y). Tie: [k]B, [a]B + [b]B, [a]B - [b]B, -[a]B, [a]([b]B) for boundary and random scalars, and the small-logarithm registers of the point programs, against the extracted model byte for byte. Point decoding is modelled as well (Models/EdCodec.v: FromBytes with its candidate root, the two checks v x^2 = u / v x^2 = -u, the multiplication by sqrt(-1), the parity adjustment): over any field with sqrtm1^2 = -1 whatever is accepted is a well-formed point on the curve with the ordinate the bytes carry and x of the announced parity (C20_decoded_on_curve; nothing is assumed about the exponentiation, the code's own check is what the proof uses); in the instance Z/(2^255-19), on canonical input (32 bytes, ordinate below p, x = 0 not announced as odd) decode-then-encode gives back the input (C20_decode_then_encode) and different canonical strings never decode to the same point (C20_decode_injective_on_canonical). Tie: valid encodings, the other sign of x, bit flips, non-canonical ordinates y + p under both sign bits, the points with x = 0 under both sign bits, small and top ordinates, random strings and wrong lengths, against the extracted decoder; the judge takes the square root with math/big. The recoding of the scalar into signed radix-16 digits is proved for every scalar below 2^255: 64 digits, each in -8..8 (what the table and selectCached cover), and sum e_i 16^i is the scalar (C20_scalar_digits). Returned point and scalar encodings are the caller's (overwriting them changes no later encoding). Consequences of the addition law on the elements: the identity is neutral (C20_point_add_neutral), addition is commutative (C20_point_add_commutative), and a point of the curve plus its negative is the identity (C20_point_add_inverse); associativity is not proved.",
 "C19": "Histories also contain reconnects (DisconnectAll then Connect, in half of the cases after an attempt that fails because no websocket endpoint answers; C19_reconnect_revives_all), directed ones being followed by a commit-reveal call and a burst. Histories run in child processes (a panic in one of the adaptor's goroutines is attributed to its history); half of the multi-endpoint rigs have a single websocket endpoint. Between the calls of a history the operator changes the gas price and the gas limit (SetGasPrice / SetGasLimit); every transaction an endpoint receives afterwards - on rigs with fewer websocket than RPC endpoints too - must carry the settings in force. The settings are a layer over the adaptor model (Models/AdaptorGas.v: per RPC endpoint a proxy and a commit-reveal session with transact options, the setters' loop over both lists, Connect rebuilding the sessions from the adaptor's fields): over any history every transaction any endpoint receives - first choice or fail-over, proxy or commit-reveal call - carries the configuration or the latest change (C19_gas_settings_in_force, by the invariant that every session carries the adaptor's current setting, C19_gas_initial), and forgetting the settings gives exactly the adaptor history of the other theorems (C19_gas_layer_transparent); the histories are compared with this layer's outputs (settings per received transaction).",
 "C13": "The real dispatch stage (VerifDispatchSign on the submitter) is cancelled while it waits for the node's own share, or after it registered, and 16 late shares arrive: the collector must neither panic nor stop serving another request. The end-to-end systems serve a second, undisturbed request after the first one (same submitter): it must be reported.",
 "C12": "Library-level probes: deals that every verifier approves but that have fewer commitments than the threshold, or one coefficient more / less, run to DistKeyShare on all members - no call may panic. Scenario added: the attacker echoes each member's own broadcast public key back under the attacker's index. Scenario added: both peers' shares reach the submitter before it registers the request (more shares waiting than its recovery takes); the node must serve the following request as well. Every signature-share scenario is followed by a second request.",
 "C10": "Group elements as values: a clone keeps its value when the original is updated in place (Add, Neg, Mul) and vice versa, and the identity stays the identity after points obtained from Null() were used as accumulators - in G1, G2 and GT. Programs over point OBJECTS (props/pointmachine.go): registers holding a point and the logarithm it must have; fresh multiples, multiples of earlier results (scalars 2^j-1, (q+1)/2, q-1.. among them), sums / differences / negations into new and into used objects (either operand as destination), clones, Set into a used object, decode(encode(.)), and calls that only look (MarshalBinary, Equal, String); nothing is looked at until the program ends, then every register must encode like its logarithm's multiple of the generator computed afresh and like the reference implementation's - in G1, G2 and GT; registers with small logarithms are also given to the model's scalar multiplication. Proved for the model's formulas over any field (Proofs/BnRepr.v): Add, Double and Neg map operands that represent the same elements - both the point at infinity, or both finite with the same affine coordinates - to results that represent the same element, whichever branch each pair of triples takes (C10_add_representation_independent, C10_double_representation_independent, C10_neg_representation_independent; addition is commutative on the elements, C10_add_commutative; side condition: no finite operand with y = 0, i.e. of order two), and all representations of a finite element have one normal form (C10_normal_form_canonical).",
 "C05": "Scenarios added: crafted commitments (constant term = sum_{k>=1} c_k x^k at a victim's abscissa, with the true share or the share 0), two colluding dealers dealing from one polynomial, a valid threshold with commitments of a constant polynomial. Also: member 0's share (index 0) handed to the other members. A dealer that announces the threshold 2, sends as many commitments as the honest dealers and lets the coefficients beyond the announced threshold differ between two halves of the members (every share and session id consistent with the content it travels with). A dealer that sends as many commitments as the honest ones, announces a threshold one less and hands out the values of the polynomial without its top coefficient (same content for everybody).",
 "C04": "Liveness (Proofs/DkgLive.v): for any group of n >= 2 honest members, any threshold 2 <= t <= n, any polynomials, member i's session - the deals of all other members in ANY order, then k's approval of j's deal for all dealers j and responders k other than i and j in ANY order - finishes with a key share (C04_everything_delivered_finishes, by an invariant over the verifier table: every recorded deal is the dealer's, every response list has one approval per responder seen so far; C04_liveness_premises_hold instantiates the premises). A schedule in which the first attempt to send a public key is lost the way the real transport loses a request (Request's own 5 s deadline, wrapped) judges liveness: nobody can finish before the retry delivers it.",
 "C01": "Node level (Proofs/NodeCompose.v): the collector model of C13 feeding this stage - own share first, then whatever the collector hands to the request: the node's outcome depends only on the arrivals for the request id in order, not on when the registration fell or on other requests (C01_node_outcome_order_independent); its reports satisfy the contract equation (C01_node_reports_valid); once own share + arrivals hold valid shares of t distinct members it reports (C01_node_live). The stage-level runs also judge liveness: valid shares of a threshold of distinct members among the junk must yield a report. A directed family has exactly a threshold of valid shares, one of them in a packet labelled with another traffic type and arriving last (the report must still go to the call of the request's own type). Every system run is followed by a second, undisturbed request handled by the same honest members (same submitter when it is honest): it must be reported (the nodes keep serving).",
 "C02": "Groups of 65..72 and 257..266 members are included, with a high-index member's share repeated under other encodings (trailing byte, coordinate + p) at random positions. Every Recover / Verify / Sign case is evaluated again at the end of the run - once more in sequence, then in waves of 12 goroutines - and must give what it gave the first time (no hidden state between calls); a valid share is verified, the caller's message buffer is changed in place and changed back, and the verdicts must be accept, reject, accept. Junk kinds include the group signature itself under indices whose 16 bits read as a negative number (0xFFFF, 0x8000, ...) and true shares of far indices. Directed: a short entry that is a prefix of a genuine share whose remaining bytes are all zero stands before that share, and the share is needed for the threshold - the index-only (or empty) entry before the identity share of a member whose key share is 0, and a share ending in a zero byte preceded by its copy cut by one byte. Polynomials crafted so that the public-share evaluation at one member adds a point to itself (large coefficients among them): that member's true share verifies, the identity under its index does not, t-1 genuine shares plus the forged one give an error, with the true one the signature.",
 "C03": "Groups of 65..72 members with t-1 signers and a high-index share repeated under other encodings are included. The cases are evaluated again in sequence and concurrently (same results), and the buffer-reuse sequence accept / reject / accept is judged. The zero-tail prefix cases of C02 are run here as well. The crafted-polynomial cases of C02 run here as well (the forged identity share must not count toward the threshold).",
 "C06": "The same key is also handed to Verify as differently built objects (parsed, negation of a parsed point, negated in place, a sum, a negated Jacobian multiple, the negated generator) with nothing normalising it before the call, and the identity key (zero multiple, Null(), parsed) with the identity and another signature is compared with the EVM on the four-zero-word encoding. Sign and Verify cases are evaluated again in sequence and concurrently from 12 goroutines and must give the same results. One freshly computed (Jacobian) key object is verified against from eight goroutines at once, 120 trials (600 thorough): every valid signature accepted, the key's encoding unchanged. The message is also handed to Sign and Verify as a WINDOW of a larger buffer (lengths 0, 1, 24, 31..33, 135..137, 1000): a valid signature stored right behind its message verifies, and neither call changes a byte behind the message.",
 "C07": "Two further families: the document transfer breaks after 0, 1, half or all-but-one bytes (a member must then sign the same string as the others or nothing), and extracted results are held - sequentially and in 8 goroutines - while further documents are evaluated (they must stay what they were). Further: the commit-reveal handler is started with the event's own last-randomness object as its seed (as onchainLoop does), with last randomness 0 among the cases, and the event's numbers must be unchanged; a query that has fetched its document (empty selector) is held waiting for its submitter while another query runs to the end. The submitter stage is given a chain double whose registry views (IsPendingNode) answer true, or false, for every id: the submitter must still be the member the event's randomness designates.",
 "C08": "Self-consistent deals whose polynomial really has 1 or n+1..n+3 coefficients (session id and share derived from those commitments) must not be approved. Deals of a polynomial crafted so that the recipient's public-share evaluation adds a point to itself: the true share must be approved, the share 0 must not. Indices that agree with the recipient's own modulo 2^32 / 2^31 / 2^16 / 2^8 (share = the polynomial at THAT index) and index 0 for another member must be rejected. A valid threshold with one commitment more than that and the share taken from the first T coefficients only must not be approved.",
 "C09": "Every reconstruction compares the share objects before and after the call and uses them a second time (inputs are values). Polynomials whose constant term makes the Horner evaluation at the chosen index add a point to itself (the same element in two representations), and the negated share value, are among the Eval / Check cases. Qualifying sets of 21, 24, 33 and 64 members (products of abscissae beyond 2^63) and 12 members with indices near 64 are reconstructed in both groups. Commitment polynomials are built from point objects with a history (the register programs of C10, over G2 and Ed25519) without anything looking at them first: Eval, Check (true share accepted, share + 1 refused), Equal and Add against polynomials of freshly computed commitments, and Commit / Check over a base point with a history. The same group reached through two suite instances (bn256.NewSuite() next to suites.MustFind, two Ed25519 suites): equal coefficients compare equal, sums are defined.",
 "C11": "Decoding into a used receiver is run for receivers that came to their value by decoding, scalar multiplication (Jacobian), addition, negation, and for Null() on a used point, with the identity among the decoded elements. An affine receiver (decoded, or the generator) is used as the destination of an in-place sum and then encoded, decoded, cloned and doubled. GT has a model and theorems of its own (Models/GtCodec.v: at least 384 bytes, twelve 32-byte words each brought into the field modulo p, no membership test - as the source says): every element of F_p^12 survives encode-then-decode whatever follows it in the buffer (C11_roundtrip_gt), the encoding has 384 bytes and is injective (C11_length_gt, C11_injective_gt), shorter input is refused (C11_short_gt), what is delivered is canonical (C11_decoded_canonical_gt); the run decodes valid encodings with and without trailing bytes, every length class, words equal to p, p-1, p+1 and 2^256-1, bit flips and random 384-byte strings, against the extracted decoder and an independent word-by-word reduction. An encoding handed out belongs to the caller: after every byte of a returned encoding has been overwritten, the same element and an equal element computed afterwards still encode as before and the encoding still decodes to the element - identity and ordinary elements of G1, G2, GT, and scalars.",
 "C15": "The harness looks at the frames only after the whole stream has been read (a frame handed out must stay what it was while later frames are read). The write loop is modelled over a transport that takes any positive number of bytes per call and proved to emit the whole frame (C15_writer_short_writes); the real writer runs over such a transport (every boundary of short frames, boundaries near both ends of longer ones, one byte at a time); two connections are read at the same time, one interrupted inside its length prefix while the other is read (prefixes that differ in every byte). The writer is run for every payload length within 5 of a power of two (up to 2^16 in the quick tier, 2^20 in the thorough tier): a frame is the payload plus 4 header bytes, so a buffer boundary inside the writer falls into one of these neighbourhoods.",
 "C17": "(c) Models/ConnTable.v - callHandler's table of dialled connections and receiveHandler's table of accepted ones, connections ending and their removal announcements processed at any later time: in every reachable state a table entry names a connection to that very peer in that table's direction, alive or with its removal announced (C17_tables_invariant); a request goes out on a connection dialled to THAT peer, a reply on the connection accepted from the requester (C17_request_uses_own_connection, C17_reply_uses_requesters_connection); once the announcements are processed the tables hold live connections only and a peer that went away leaves no entry, so the next request dials afresh (C17_settled_tables_live, C17_peer_gone_tables_clean); the variant that announces to the wrong channel is refuted (C17_wrong_channel_refuted). Tie: histories of requests in both directions, peers going away and coming back at new addresses, and stray replies against one real server and three real peers, after each event the size of the accepted table, the number of dialled connections as counted by the peers, and the class of what happened (handed to a live connection / dialled / dial failed / accepted / no client) compared with the extracted model. Responders answer three requests of every scenario with a 640 000-byte reply; at the end of every scenario the node and the responders leave (tear-down must not crash). The event-level runs judge on their own that a pending request whose reply has arrived returns that reply even when its caller starts waiting only afterwards; a request and a reply whose every field is at its default (empty payload) are part of the fault-free scenarios. Fault aged-connection: the connection to each peer is opened by a request that carries a deadline; the requests made on it after that deadline has passed must be served.",
}
EXTRA_TEXT["C18"] = "In a further family every event type gets five logs on every endpoint, nobody reads the event channel while they are emitted (every lane of every endpoint holds logs it cannot hand over), the node then disconnects one endpoint (DisconnectWs) and starts reading: the process must survive and every log must be delivered exactly once through the remaining endpoints. Scenarios with an endpoint that is connected but sits on every eth_subscribe request for 2.5 s: SubscribeEvent must return, the other endpoints must be fully subscribed within 1.2 s, and the logs they emit in the meantime must be delivered."
EXTRA_TEXT["C05"] = EXTRA_TEXT.get("C05", "") + " On the real pipeline (pdkg Loop + Grouping, one child process per session, driver sub c05-net): n-1 real nodes and one Byzantine member played through the vss API (bad / random / zero / another member's share, lowered threshold, foreign session id, wrong index, equivocation, towards one victim or all); judged on the recorded broadcasts: a member that finishes has approved every deal it got, a deal whose share does not verify is not approved, finishing members agree and hold shares on the polynomial."
EXTRA_TEXT["C12"] = EXTRA_TEXT.get("C12", "") + " XPath selectors are drawn from an expression grammar (axes, node tests, nested predicates over number / string / boolean / node-set functions and operators, operands of the wrong type with probability 0 / 10 / 30 percent) over numeric and non-numeric documents: the extractor must return a value or an error (400 selectors quick, 20000 thorough); the real genQueryResult stage runs selectors whose evaluation fails against a loopback server and must serve the next request."
EXTRA_TEXT["C16"] = EXTRA_TEXT.get("C16", "") + " Scripted packet sequences on one connection (driver sub c16-sigseq): payloads of either message type carrying the signature of the last accepted or an earlier packet; authenticity is decided by bls.Verify inside the scenario; every delivery must be an authentic packet, byte for byte, at most once, and every authentic packet before the first rejected one must be delivered; the guaranteed prefix is compared with the receive-pipeline model."
EXTRA_TEXT["C19"] = EXTRA_TEXT.get("C19", "") + " Configurations whose chain id, gas limit and gas price are zero-padded decimal numerals (and the chain ids of the shipped configurations) on fresh adaptors with one or two endpoints: every received transaction must be signed by the node key for the number the configuration denotes and carry the gas settings it denotes."
for _k, _v in EXTRA_TEXT.items():
    CHECKS[_k]["text"] += " " + _v

NOT_YET = {
}

PENDING = ["C01","C02","C03","C04","C05","C06","C07","C08","C10","C11","C13","C15","C19","C20"]

def main():
    checks = []
    for pid in sorted(CHECKS):
        c = CHECKS[pid]
        checks.append(dict(
            property_id=pid,
            quick_cmd="./check %s --tier quick" % pid,
            thorough_cmd="./check %s --tier thorough" % pid,
            evidence_file="/verif/evidence/%s.json" % pid,
            replay_cmd_template="./check %s --replay {path}" % pid,
            engine="coq-model+correspondence",
            level_claimed=dict(category="proof", text=c["text"], design_ref=c["ref"]),
            level_note=c["note"],
            technique=c["technique"]))
    na = [dict(property_id=p, reason="check still under construction in this round (not a claim that the technique cannot apply)")
          for p in PENDING if p not in CHECKS]
    m = dict(
        version=1,
        setup_cmd="./setup.sh",
        hooks=dict(guard="verif",
                   enable="go build -tags verif (files named verif_hooks.go with //go:build verif, add-only)",
                   baseline_off_cmd="cd /repo && export GOFLAGS=-mod=mod GOPROXY=off GOSUMDB=off && go build ./... ; go test -vet=off -count=1 ./group/... ./share/ ./share/vss/... ./sign/...",
                   source_commits=[l.strip() for l in open(os.path.join(ROOT, "hooks_commits.txt"))] if os.path.exists(os.path.join(ROOT, "hooks_commits.txt")) else [],
                   add_only=True),
        engines=[dict(name="coq-model+correspondence", path="/verif/check",
                      serves_properties=sorted(CHECKS),
                      kind_free_text="Coq 8.16.1 development (coq/), model extracted to OCaml (ocaml/modelrun), Go driver (harness/) "
                                     "running the real code; check compares and decides")],
        checks=checks,
        notes="See DESIGN.md. Known findings: known_findings.json.",
        not_applicable=na)
    json.dump(m, open(os.path.join(ROOT, "MANIFEST.json"), "w"), indent=1)

if __name__ == "__main__":
    main()
