#!/usr/bin/env python3
"""Writes /verif/MANIFEST.json from the table below (kept in one place so the file always validates)."""
import json, os
ROOT = os.path.dirname(os.path.dirname(os.path.abspath(__file__)))

TB = ("Trusted: Coq 8.16.1 kernel (vm_compute, no native_compute); no axioms (Print Assumptions: closed under the "
      "global context); hypotheses named in the theorem statements; extraction via ExtrOcamlBasic + ExtrOcamlZBigInt "
      "(zarith) and ocaml/modelrun.ml; the Go correspondence driver, its generators and the property judge; "
      "the verif-tagged hooks in /repo. ")

CHECKS = {
 "C09": dict(
   text="Coq theorems over the Gallina model of share/poly.go (Models/Share.v), for every field with decidable equality, "
        "every threshold, share count, subset, order and junk entries: Lagrange reconstruction of the secret, of the whole "
        "polynomial and of the commitment is exact, too few usable shares give an error, Commit/Eval/Check/Add/Equal laws. "
        "The model is tied to /repo by a correspondence run (real RecoverSecret/RecoverPriPoly/RecoverCommit/Eval/Commit/"
        "Check/Add/Equal/Mul vs the extracted model on the same generated inputs, bn256 G1/G2 and Ed25519) plus an "
        "independent math/big judge of the property itself.",
   note=TB + "Hypothesis: the scalar modulus is prime (C09_instance proves the field/module laws of the executed Z/qZ "
        "instance from `prime q`). Group elements are modelled by their discrete logarithms (module laws), the real "
        "curve arithmetic is examined under C10/C11.",
   technique="Coq proof (induction, polynomial root counting, Lagrange interpolation over an abstract field) + "
             "differential correspondence of the extracted model against the real code",
   ref="5/C09"),
}

NOT_YET = {
}

PENDING = ["C01","C02","C03","C04","C05","C06","C07","C08","C10","C11","C12","C13","C14","C15","C16","C17","C18","C19","C20"]

def main():
    checks = []
    for pid in sorted(CHECKS):
        c = CHECKS[pid]
        checks.append(dict(
            property_id=pid,
            quick_cmd="./check %s --tier quick" % pid,
            thorough_cmd="./check %s --tier thorough" % pid,
            evidence_file="/verif/evidence/%s.json" % pid,
            replay_cmd_template="./check %s --replay {path}" % pid,
            engine="coq-model+correspondence",
            level_claimed=dict(category="proof", text=c["text"], design_ref=c["ref"]),
            level_note=c["note"],
            technique=c["technique"]))
    na = [dict(property_id=p, reason="check still under construction in this round (not a claim that the technique cannot apply)")
          for p in PENDING if p not in CHECKS]
    m = dict(
        version=1,
        setup_cmd="./setup.sh",
        hooks=dict(guard="verif",
                   enable="go build -tags verif (files named verif_hooks.go with //go:build verif, add-only)",
                   baseline_off_cmd="cd /repo && export GOFLAGS=-mod=mod GOPROXY=off GOSUMDB=off && go build ./... ; go test -vet=off -count=1 ./group/... ./share/ ./share/vss/... ./sign/...",
                   source_commits=[l.strip() for l in open(os.path.join(ROOT, "hooks_commits.txt"))] if os.path.exists(os.path.join(ROOT, "hooks_commits.txt")) else [],
                   add_only=True),
        engines=[dict(name="coq-model+correspondence", path="/verif/check",
                      serves_properties=sorted(CHECKS),
                      kind_free_text="Coq 8.16.1 development (coq/), model extracted to OCaml (ocaml/modelrun), Go driver (harness/) "
                                     "running the real code; check compares and decides")],
        checks=checks,
        notes="See DESIGN.md. Known findings: known_findings.json.",
        not_applicable=na)
    json.dump(m, open(os.path.join(ROOT, "MANIFEST.json"), "w"), indent=1)

if __name__ == "__main__":
    main()
