#!/usr/bin/env python3
"""tools/keep_seed.py <name> <property> <srcdir> <caught-by csv> <needs...>  -- store a confirmed seeded change"""
import sys, os, shutil, json, glob
name, prop, src, caught = sys.argv[1:5]
needs = " ".join(sys.argv[5:])
dst = os.path.join("/verif/seeded", name)
os.makedirs(dst, exist_ok=True)
for f in glob.glob(os.path.join(src, "*")):
    b = os.path.basename(f)
    if b.endswith(".log"):
        continue
    if os.path.isdir(f):
        shutil.copytree(f, os.path.join(dst, b), dirs_exist_ok=True)
    elif not (b == "patch.diff" and os.path.exists(os.path.join(dst, "patch.diff")) and os.environ.get("KEEP_PATCH")):
        # demo Go files are stored with a .txt suffix so that nothing under /verif/seeded is compiled
        tgt = b + ".txt" if b.endswith(".go") else b
        shutil.copyfile(f, os.path.join(dst, tgt))
meta = dict(property=prop, needs_to_manifest=needs,
            confirmed="tools/confirm_mut.sh: builds, baseline tests pass with the change, demonstration fails with it and passes without it (scratch worktree of /repo HEAD, removed afterwards)",
            checks_run="tools/mutest.sh patch.diff " + " ".join(caught.split(",")),
            caught_by=[c for c in caught.split(",") if c])
json.dump(meta, open(os.path.join(dst, "meta.json"), "w"), indent=1)
print("kept", dst)
