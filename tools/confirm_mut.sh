#!/bin/sh
# tools/confirm_mut.sh <patch.diff> <setup-cmd> <demo-cmd>
#   runs in a fresh scratch worktree of /repo HEAD (removed afterwards):
#   setup-cmd installs the demonstration files (cwd = worktree); demo-cmd runs it.
#   Expected: build ok, baseline tests pass with the patch, demo FAILS with it and PASSES without.
export GOFLAGS=-mod=mod GOPROXY=off GOSUMDB=off GOTOOLCHAIN=local
patch="$1"; setup="$2"; demo="$3"
W=/tmp/mut/confirm.$$
git -C /repo worktree add --detach $W HEAD >/dev/null 2>&1 || exit 2
cd $W
PK="./group/bn256/ ./group/edwards25519/ ./group/mod/ ./share/ ./share/vss/pedersen/ ./sign/bls/ ./sign/schnorr/ ./sign/tbls/"
git apply "$patch" || { echo "APPLY FAILED"; cd /; git -C /repo worktree remove --force $W; exit 2; }
go build ./... && echo "build-with-patch: ok" || echo "build-with-patch: FAIL"
go test -vet=off -count=1 $PK >/tmp/mut/confirm.$$.log 2>&1 && echo "baseline-with-patch: pass" || { echo "baseline-with-patch: FAIL"; tail -5 /tmp/mut/confirm.$$.log; }
sh -c "$setup"
if timeout 300 sh -c "$demo" >/tmp/mut/confirm.$$.demo1 2>&1; then echo "demo-with-patch: PASSES (unexpected)"; else echo "demo-with-patch: fails (expected)"; fi
git checkout -- . 
if timeout 300 sh -c "$demo" >/tmp/mut/confirm.$$.demo2 2>&1; then echo "demo-without-patch: passes (expected)"; else echo "demo-without-patch: FAILS (unexpected)"; tail -5 /tmp/mut/confirm.$$.demo2; fi
cd /; git -C /repo worktree remove --force $W; rm -f /tmp/mut/confirm.$$.*
