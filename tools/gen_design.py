#!/usr/bin/env python3
"""Writes /verif/DESIGN.md: the hand-written frame below + one section per property generated from the
same table MANIFEST.json is generated from (tools/gen_manifest.py), the seeds under seeded/ and
known_findings.json, so that the document, the manifest and the record of findings cannot drift apart."""
import json, os, glob, sys, importlib.util, textwrap


def wrap(t, indent=""):
    return "\n".join(textwrap.wrap(t, 100, subsequent_indent=indent, break_long_words=False, break_on_hyphens=False))

ROOT = os.path.dirname(os.path.dirname(os.path.abspath(__file__)))
spec = importlib.util.spec_from_file_location("gm", os.path.join(ROOT, "tools", "gen_manifest.py"))
gm = importlib.util.module_from_spec(spec)
spec.loader.exec_module(gm)

props = {}
for l in open(os.path.join(ROOT, "properties.jsonl")):
    d = json.loads(l)
    props[d["id"]] = d
kf = json.load(open(os.path.join(ROOT, "known_findings.json")))
seeds = {}
for d in sorted(glob.glob(os.path.join(ROOT, "seeded", "C*"))):
    m = json.load(open(os.path.join(d, "meta.json")))
    seeds.setdefault(m["property"], []).append((os.path.basename(d), m))

FILES = {
 "C01": "Models/Recover.v (on Tbls.v, Stages.v), Proofs/RecoverProofs.v, NodeCompose.v (with Models/QueryLoop.v); harness props/c01.go",
 "C02": "Models/Tbls.v, EntryTbls.v, Proofs/TblsProofs.v (on ShareProofs, Lagrange); harness props/c02.go",
 "C03": "Models/Tbls.v, Proofs/TblsProofs.v; harness props/c02.go",
 "C04": "Models/Vss.v, Dkg.v, EntryVss.v, Proofs/VssProofs.v, DkgProofs.v, DkgLive.v; harness props/c05.go (library level), props/c04net.go (n real pdkg over the network double)",
 "C05": "Models/Vss.v, Dkg.v, Proofs/DkgProofs.v; harness props/c05.go",
 "C06": "Models/Evm.v, Bn.v, BnPairing.v, Proofs/EvmProofs.v; harness props/c06.go (real EVM precompiles of go-ethereum)",
 "C07": "Models/Stages.v, Proofs/StagesProofs.v; harness props/c07.go",
 "C08": "Models/Vss.v, EntryVss.v, Proofs/VssProofs.v; harness props/c08.go",
 "C09": "Models/Share.v, EntryShare.v, Proofs/PolyLemmas.v, Lagrange.v, ShareProofs.v, ZqField.v; harness props/c09.go",
 "C10": "Gen/BnConsts.v (T0), Models/Bn.v, BnPairing.v, EntryBn.v, Proofs/BnFieldProofs.v, BnRepr.v, BnTowerProofs.v; harness props/c10.go",
 "C11": "Models/Bn.v, EntryBn.v, Models/GtCodec.v, Proofs/BnCodecProofs.v, BnCodecG2.v, GtCodecProofs.v; harness props/c11.go",
 "C12": "Models/Guards.v, Proofs/GuardsProofs.v (+ QueryLoopProofs frame); harness props/c12.go (child processes)",
 "C13": "Models/QueryLoop.v, Proofs/QueryLoopProofs.v, QueryLoopRereg.v; harness props/c13.go (end-to-end family on props/c01.go's system runner)",
 "C14": "Models/Pipes.v, PipesCheck.v, PipeNetsOld.v, Gen/PipeNets.v (T3), Proofs/PipesProofs.v, PipesCheckProofs.v; translate/skel; harness props/c14.go (child processes)",
 "C15": "Models/Framing.v, Proofs/FramingProofs.v; harness props/c15.go",
 "C16": "Models/P2PRecv.v, Proofs/P2PRecvProofs.v; harness props/c16.go (TCP proxy, raw peer; child processes)",
 "C17": "Models/Dispatch.v, ConnTable.v, Proofs/DispatchProofs.v, ConnTableProofs.v; harness props/c17.go",
 "C18": "Models/FirstEvent.v, Gen/EventTable.v (T4), Proofs/FirstEventProofs.v; harness props/c18.go, doubles/ethnode.go",
 "C19": "Models/Abi.v, Adaptor.v, AdaptorGas.v, Proofs/AbiProofs.v, AdaptorProofs.v, AdaptorGasProofs.v; harness props/c19.go, doubles/ethnode.go",
 "C20": "Models/Schnorr.v, ScLimbs.v, Ed.v, EdCodec.v, Gen/Ref10Sc.v (T2), Gen/EdConsts.v (T5), Proofs/SchnorrProofs.v, EdProofs.v, EdDigits.v, EdCodecProofs.v, EdCodecInstance.v, ScLimbsProofs.v, ScInstances.v, ScOverflow.v; harness props/c20.go",
}

FRAME_HEAD = open(os.path.join(ROOT, "tools", "design_head.md")).read()
FRAME_TAIL = open(os.path.join(ROOT, "tools", "design_tail.md")).read()

out = [FRAME_HEAD]
out.append("## 5. The twenty properties\n")
out.append("Each section: what is modelled and proved (the manifest's own wording), the hypotheses and what stays\n"
           "outside (\"partial\" names it), where the files are, which defects the check found in the pinned code, and\n"
           "which seeded changes it reports. `./check Cxx` is the quick command, `./check Cxx --tier thorough` the\n"
           "thorough one (10-20x the cases, all pairs / all bit positions where the property text asks for them).\n")
for pid in sorted(gm.CHECKS):
    c = gm.CHECKS[pid]
    out.append("### %s - %s\n" % (pid, props[pid]["title"]))
    out.append(wrap("**Model and theorems.** " + c["text"]) + "\n")
    out.append(wrap("**Technique.** " + c["technique"] + ".") + "\n")
    note = c["note"].replace(gm.TB, "").strip()
    out.append(wrap("**Hypotheses, limits.** " + (note or "none beyond the common trusted base")) + "\n")
    out.append(wrap("**Files.** " + FILES.get(pid, "")) + "\n")
    fx = [f for f in kf["fixed"] if f["property"] == pid]
    fn = [f for f in kf["findings"] if f["property"] == pid]
    if fx or fn:
        out.append("**Defects this check found in the pinned code.**\n")
        for f in fn:
            out.append(wrap("* known finding `%s` (not repaired): %s" % (f["key"], f["what"]), "  "))
        for f in fx:
            out.append(wrap("* fixed by `%s`: %s" % (f["commit"], f["what"]), "  "))
        out.append("")
    if pid in seeds:
        out.append("**Seeded changes (sub-agents; confirmed in a scratch worktree; `seeded/<name>/`).**\n")
        for name, m in seeds[pid]:
            out.append(wrap("* `%s` - needs: %s. Reported by: %s." % (name, m["needs_to_manifest"], ", ".join(m["caught_by"]) or "NOT CAUGHT"), "  "))
        out.append("")
out.append(FRAME_TAIL)
open(os.path.join(ROOT, "DESIGN.md"), "w").write("\n".join(out))
print("DESIGN.md written:", sum(len(x) for x in out), "chars")
