#!/bin/sh
# tools/rebase_patch.sh <old patch> <new patch>: re-create a seeded patch against /repo HEAD (fuzzy apply in a scratch worktree)
W=/tmp/mut/rebase.$$
git -C /repo worktree add --detach $W HEAD >/dev/null 2>&1 || exit 2
cd $W && if patch -p1 -F3 --no-backup-if-mismatch < "$1" >/tmp/mut/rebase.$$.log 2>&1; then git diff > "$2"; echo "rebased: $(grep -c '^[-+][^-+]' "$2") changed lines"; else echo "REBASE FAILED"; cat /tmp/mut/rebase.$$.log; fi
find . -name '*.rej' -o -name '*.orig' | head
cd /; git -C /repo worktree remove --force $W; rm -f /tmp/mut/rebase.$$.log
