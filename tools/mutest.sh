#!/bin/sh
# tools/mutest.sh <patch.diff> <property id>...   -- apply a seeded change to /repo, run the quick
# checks, undo the change straight away.  Prints one line per check.
patch="$1"; shift
cd /repo || exit 2
if ! git diff --quiet; then echo "/repo has uncommitted changes"; exit 2; fi
git apply "$patch" || { echo "patch does not apply"; exit 2; }
for id in "$@"; do
  out=$(cd /verif && ./check "$id" --tier quick 2>&1); rc=$?
  echo "== $id rc=$rc"; echo "$out" | grep -E "^(VIOLATION|KNOWN-FINDING)|judge_failures" | head -5
done
git -C /repo checkout -- . 
git -C /repo status --short | head -3
