(* modelrun.ml -- line-oriented driver around the extracted model.
   input  lines:  <id> TAB <entry> TAB <op> TAB <args as a val list "( v v ... )">
   output lines:  <id> TAB <val>
   val syntax: z<decimal> | b<hex> | ( v ... ) | g<grp>:<decimal> | E | P | N            *)
open Model

let z_of_string s = Big_int_Z.big_int_of_string s
let z_to_string z = Big_int_Z.string_of_big_int z
let z_of_int i = Big_int_Z.big_int_of_int i

let hexval c = match c with
  | '0'..'9' -> Char.code c - 48 | 'a'..'f' -> Char.code c - 87 | 'A'..'F' -> Char.code c - 55
  | _ -> failwith "hex"

let bytes_of_hex s =
  let n = String.length s / 2 in
  List.init n (fun i -> z_of_int (hexval s.[2*i] * 16 + hexval s.[2*i+1]))

let rec parse toks = match toks with
  | [] -> failwith "eof"
  | "(" :: rest -> let (l, rest') = parse_list rest [] in (VL l, rest')
  | "E" :: rest -> (VErr, rest)
  | "P" :: rest -> (VPanic, rest)
  | "N" :: rest -> (VNone, rest)
  | t :: rest ->
    let body = String.sub t 1 (String.length t - 1) in
    (match t.[0] with
     | 'z' -> (VZ (z_of_string body), rest)
     | 'b' -> (VB (bytes_of_hex body), rest)
     | 'g' -> (match String.index_opt body ':' with
               | Some k -> (VG (z_of_string (String.sub body 0 k),
                               z_of_string (String.sub body (k+1) (String.length body - k - 1))), rest)
               | None -> failwith "g")
     | _ -> failwith ("tok " ^ t))
and parse_list toks acc = match toks with
  | ")" :: rest -> (List.rev acc, rest)
  | _ -> let (v, rest) = parse toks in parse_list rest (v :: acc)

let rec print buf v = match v with
  | VZ z -> Buffer.add_char buf 'z'; Buffer.add_string buf (z_to_string z)
  | VB l -> Buffer.add_char buf 'b';
    List.iter (fun b -> Buffer.add_string buf (Printf.sprintf "%02x" (Big_int_Z.int_of_big_int b))) l
  | VL l -> Buffer.add_string buf "(";
    List.iter (fun x -> Buffer.add_char buf ' '; print buf x) l; Buffer.add_string buf " )"
  | VG (g, d) -> Buffer.add_char buf 'g'; Buffer.add_string buf (z_to_string g);
    Buffer.add_char buf ':'; Buffer.add_string buf (z_to_string d)
  | VErr -> Buffer.add_char buf 'E'
  | VPanic -> Buffer.add_char buf 'P'
  | VNone -> Buffer.add_char buf 'N'

let entries : (string * (Big_int_Z.big_int -> val0 list -> val0)) list = Entries.table

let () =
  try
    while true do
      let line = input_line stdin in
      match String.split_on_char '\t' line with
      | id :: entry :: op :: args :: _ ->
        let toks = List.filter (fun s -> s <> "") (String.split_on_char ' ' args) in
        let (v, _) = parse toks in
        let args = (match v with VL l -> l | _ -> failwith "args") in
        let f = (try List.assoc entry entries with Not_found -> failwith ("entry " ^ entry)) in
        let r = f (z_of_string op) args in
        let buf = Buffer.create 256 in
        print buf r;
        print_string id; print_char '\t'; print_endline (Buffer.contents buf)
      | _ -> ()
    done
  with End_of_file -> ()
