(* one line per model entry point *)
let table = [
  ("share", Model.entry_share);
  ("tbls", Model.entry_tbls);
  ("framing", Model.entry_framing);
  ("queryloop", Model.entry_queryloop);
  ("stages", Model.entry_stages);
  ("vss", Model.entry_vss);
  ("bn", Model.entry_bn2);
  ("asm", Model.entry_asm);
  ("evm", Model.entry_evm);
  ("recover", Model.entry_recover);
  ("guards", Model.entry_guards);
  ("p2precv", Model.entry_p2precv);
  ("dispatch", Model.entry_dispatch);
  ("conntable", Model.entry_conntable);
  ("abi", Model.entry_abi);
  ("gt", Model.entry_gt);
  ("ed", Model.entry_ed);
  ("edcodec", Model.entry_edcodec);
  ("adaptor", Model.entry_adaptor);
  ("adaptorgas", Model.entry_adaptor_gas);
  ("firstevent", Model.entry_firstevent);
  ("sc", Model.entry_sc);
]
