#!/bin/sh
# builds modelrun from the extracted model (coq/model.ml) -- zarith-backed Z/N/positive
set -e
cd "$(dirname "$0")"
mkdir -p _build
cp ../coq/model.ml ../coq/model.mli entries.ml modelrun.ml _build/
cd _build
# the extracted model contains long literal lists (generated limb programs, constants): the compiler
# needs more than the default stack
ulimit -s unlimited 2>/dev/null || ulimit -s 1000000 2>/dev/null || true
rm -f modelrun
ocamlfind ocamlopt -O3 -w -a -package zarith -linkpkg model.mli model.ml entries.ml modelrun.ml -o modelrun 2>&1 | grep -v "options -O3 is only" || true
test -x modelrun
