package doubles

import (
	"context"
	"errors"
	"fmt"
	"math/big"
	"net"
	"net/http"
	"strings"
	"sync"
	"time"

	"github.com/ethereum/go-ethereum/accounts/abi"
	"github.com/ethereum/go-ethereum/common"
	"github.com/ethereum/go-ethereum/common/hexutil"
	"github.com/ethereum/go-ethereum/core/types"
	"github.com/ethereum/go-ethereum/crypto"
	"github.com/ethereum/go-ethereum/rpc"
)

// EthNode is an in-process Ethereum JSON-RPC endpoint (HTTP and WebSocket) that plays what the
// harness scripts: answers to the bridge look-ups, outcomes of eth_sendRawTransaction and
// eth_getTransactionCount, and log histories pushed to eth_subscribe("logs") subscribers.
type EthNode struct {
	mu        sync.Mutex
	ChainID   *big.Int
	Bridge    common.Address
	Proxy     common.Address
	CR        common.Address
	Bootstrap string
	// outcome of the next transactions: "" accept, otherwise the JSON-RPC error text;
	// "nonce:<text>" fails eth_getTransactionCount instead
	TxOutcome func(n int) string
	// answer to the proxy contract's getters (eth_call): "" a value, otherwise the error text
	ReadOutcome func() string
	ReadCalls   int
	// Chain, when set, is the account state this endpoint is a view of (shared by the endpoints of a
	// rig): eth_getTransactionCount answers its nonce after NonceDelay, and a transaction whose nonce
	// is not the next one is rejected the way geth rejects it
	Chain      *Chain
	NonceDelay time.Duration
	// SubscribeDelay: how long the endpoint sits on an eth_subscribe request before it answers
	SubscribeDelay time.Duration
	RawTxs     [][]byte
	firstTxAt time.Time
	NonceAsk  int
	subs      map[rpc.ID]*logSub
	httpSrv   *http.Server
	wsSrv     *http.Server
	HTTPURL   string
	WSURL     string
	wsLn      net.Listener
	httpLn    net.Listener
	wsConns   []net.Conn
}

// Chain is the sender account's state on the chain all endpoints of a rig look at.
type Chain struct {
	mu       sync.Mutex
	Next     uint64   // next nonce
	Accepted []uint64 // nonces of the accepted transactions, in order of acceptance
}

func (c *Chain) Snapshot() (uint64, []uint64) {
	c.mu.Lock()
	defer c.mu.Unlock()
	return c.Next, append([]uint64{}, c.Accepted...)
}

type logSub struct {
	notifier *rpc.Notifier
	id       rpc.ID
	addrs    map[common.Address]bool
	topic0   map[common.Hash]bool
}

type ethAPI struct{ n *EthNode }
type netAPI struct{ n *EthNode }

func (a *netAPI) Version() string { return a.n.ChainID.String() }

func (a *ethAPI) ChainId() *hexutil.Big         { return (*hexutil.Big)(a.n.ChainID) }
func (a *ethAPI) Syncing() (interface{}, error) { return false, nil }
func (a *ethAPI) BlockNumber() hexutil.Uint64   { return 100 }
// GetBlockByNumber: bind.transact asks for the latest header (pre-London: no base fee)
func (a *ethAPI) GetBlockByNumber(number interface{}, full bool) (*types.Header, error) {
	return &types.Header{Number: big.NewInt(100), Difficulty: big.NewInt(1), GasLimit: 30000000, Time: 1600000000, Extra: []byte{}}, nil
}
func (a *ethAPI) GasPrice() *hexutil.Big        { return (*hexutil.Big)(big.NewInt(1000000000)) }

type callArgs struct {
	To    *common.Address `json:"to"`
	Data  *hexutil.Bytes  `json:"data"`
	Input *hexutil.Bytes  `json:"input"`
}

var (
	strT, _  = abi.NewType("string", "", nil)
	addrT, _ = abi.NewType("address", "", nil)
)

func selector(sig string) string {
	return string(crypto4(sig))
}

func (a *ethAPI) Call(args callArgs, block interface{}) (hexutil.Bytes, error) {
	data := []byte{}
	if args.Data != nil {
		data = *args.Data
	} else if args.Input != nil {
		data = *args.Input
	}
	if args.To == nil || len(data) < 4 {
		return nil, errors.New("execution reverted")
	}
	if *args.To == a.n.Proxy {
		a.n.mu.Lock()
		ro := a.n.ReadOutcome
		a.n.ReadCalls++
		a.n.mu.Unlock()
		if ro != nil {
			if txt := ro(); txt != "" {
				return nil, errors.New(txt)
			}
			return common.LeftPadBytes([]byte{3}, 32), nil
		}
	}
	if *args.To == a.n.Bridge {
		switch string(data[:4]) {
		case selector("getProxyAddress()"):
			return abi.Arguments{{Type: addrT}}.Pack(a.n.Proxy)
		case selector("getCommitRevealAddress()"):
			return abi.Arguments{{Type: addrT}}.Pack(a.n.CR)
		case selector("getBootStrapUrl()"):
			return abi.Arguments{{Type: strT}}.Pack(a.n.Bootstrap)
		}
	}
	return nil, errors.New("execution reverted")
}

func (a *ethAPI) GetTransactionCount(addr common.Address, block interface{}) (hexutil.Uint64, error) {
	a.n.mu.Lock()
	ch, delay := a.n.Chain, a.n.NonceDelay
	a.n.mu.Unlock()
	if ch != nil {
		ch.mu.Lock()
		v := ch.Next
		ch.mu.Unlock()
		time.Sleep(delay) // the answer is already on its way: what the caller learns is the state at the time of the question
		a.n.mu.Lock()
		a.n.NonceAsk++
		if a.n.TxOutcome != nil {
			if o := a.n.TxOutcome(len(a.n.RawTxs)); strings.HasPrefix(o, "nonce:") {
				a.n.mu.Unlock()
				return 0, errors.New(strings.TrimPrefix(o, "nonce:"))
			}
		}
		a.n.mu.Unlock()
		return hexutil.Uint64(v), nil
	}
	a.n.mu.Lock()
	defer a.n.mu.Unlock()
	a.n.NonceAsk++
	if a.n.TxOutcome != nil {
		if o := a.n.TxOutcome(len(a.n.RawTxs)); strings.HasPrefix(o, "nonce:") {
			return 0, errors.New(strings.TrimPrefix(o, "nonce:"))
		}
	}
	return hexutil.Uint64(7), nil
}

func (a *ethAPI) SendRawTransaction(raw hexutil.Bytes) (common.Hash, error) {
	a.n.mu.Lock()
	defer a.n.mu.Unlock()
	n := len(a.n.RawTxs)
	if n == 0 {
		a.n.firstTxAt = time.Now()
	}
	a.n.RawTxs = append(a.n.RawTxs, append([]byte{}, raw...))
	if a.n.TxOutcome != nil {
		if o := a.n.TxOutcome(n); o != "" && !strings.HasPrefix(o, "nonce:") {
			return common.Hash{}, errors.New(o)
		}
	}
	tx := new(types.Transaction)
	if err := tx.UnmarshalBinary(raw); err != nil {
		return common.Hash{}, err
	}
	if ch := a.n.Chain; ch != nil {
		ch.mu.Lock()
		defer ch.mu.Unlock()
		if tx.Nonce() < ch.Next {
			return common.Hash{}, errors.New("nonce too low")
		}
		if tx.Nonce() > ch.Next {
			return tx.Hash(), nil // queued, never mined: not an accepted transaction
		}
		ch.Accepted = append(ch.Accepted, tx.Nonce())
		ch.Next++
	}
	return tx.Hash(), nil
}

type logCrit struct {
	Address interface{}   `json:"address"`
	Topics  []interface{} `json:"topics"`
}

func (a *ethAPI) Logs(ctx context.Context, crit logCrit) (*rpc.Subscription, error) {
	notifier, ok := rpc.NotifierFromContext(ctx)
	if !ok {
		return nil, rpc.ErrNotificationsUnsupported
	}
	a.n.mu.Lock()
	sd := a.n.SubscribeDelay
	a.n.mu.Unlock()
	if sd > 0 {
		time.Sleep(sd)
	}
	sub := notifier.CreateSubscription()
	ls := &logSub{notifier: notifier, id: sub.ID, addrs: map[common.Address]bool{}, topic0: map[common.Hash]bool{}}
	addAddr := func(v interface{}) {
		if s, ok := v.(string); ok {
			ls.addrs[common.HexToAddress(s)] = true
		}
	}
	switch v := crit.Address.(type) {
	case string:
		addAddr(v)
	case []interface{}:
		for _, x := range v {
			addAddr(x)
		}
	}
	if len(crit.Topics) > 0 {
		switch v := crit.Topics[0].(type) {
		case string:
			ls.topic0[common.HexToHash(v)] = true
		case []interface{}:
			for _, x := range v {
				if s, ok := x.(string); ok {
					ls.topic0[common.HexToHash(s)] = true
				}
			}
		}
	}
	a.n.mu.Lock()
	a.n.subs[sub.ID] = ls
	a.n.mu.Unlock()
	go func() {
		select {
		case <-sub.Err():
		case <-notifier.Closed():
		}
		a.n.mu.Lock()
		delete(a.n.subs, sub.ID)
		a.n.mu.Unlock()
	}()
	return sub, nil
}

// Emit pushes a log to every matching subscriber of this endpoint; returns how many received it.
func (n *EthNode) Emit(l types.Log) int {
	n.mu.Lock()
	var targets []*logSub
	for _, s := range n.subs {
		if len(s.addrs) > 0 && !s.addrs[l.Address] {
			continue
		}
		if len(s.topic0) > 0 && (len(l.Topics) == 0 || !s.topic0[l.Topics[0]]) {
			continue
		}
		targets = append(targets, s)
	}
	n.mu.Unlock()
	for _, s := range targets {
		ll := l
		s.notifier.Notify(s.id, &ll)
	}
	return len(targets)
}

// Subscribers returns the number of live log subscriptions.
func (n *EthNode) Subscribers() int {
	n.mu.Lock()
	defer n.mu.Unlock()
	return len(n.subs)
}

// FirstTxAt is when the first transaction since the last Reset arrived.
func (n *EthNode) FirstTxAt() time.Time {
	n.mu.Lock()
	defer n.mu.Unlock()
	return n.firstTxAt
}

// NonceAsked: how often eth_getTransactionCount was called since the last Reset.
func (n *EthNode) NonceAsked() int {
	n.mu.Lock()
	defer n.mu.Unlock()
	return n.NonceAsk
}

// Reset forgets the transactions seen so far and accepts everything again.
func (n *EthNode) Reset() {
	n.mu.Lock()
	defer n.mu.Unlock()
	n.RawTxs = nil
	n.NonceAsk = 0
	n.TxOutcome = nil
	n.ReadOutcome = nil
	n.ReadCalls = 0
}

// Txs returns the raw transactions received so far.
func (n *EthNode) Txs() [][]byte {
	n.mu.Lock()
	defer n.mu.Unlock()
	return append([][]byte{}, n.RawTxs...)
}

type trackListener struct {
	net.Listener
	n *EthNode
}

func (t trackListener) Accept() (net.Conn, error) {
	c, err := t.Listener.Accept()
	if err == nil {
		t.n.mu.Lock()
		t.n.wsConns = append(t.n.wsConns, c)
		t.n.mu.Unlock()
	}
	return c, err
}

// NewEthNode starts the endpoint on loopback.
func NewEthNode(chainID int64, bridge, proxy, cr common.Address) *EthNode {
	n := &EthNode{ChainID: big.NewInt(chainID), Bridge: bridge, Proxy: proxy, CR: cr, subs: map[rpc.ID]*logSub{}}
	srv := rpc.NewServer()
	if err := srv.RegisterName("eth", &ethAPI{n}); err != nil {
		panic(err)
	}
	if err := srv.RegisterName("net", &netAPI{n}); err != nil {
		panic(err)
	}
	hl, err := net.Listen("tcp", "127.0.0.1:0")
	if err != nil {
		panic(err)
	}
	wl, err := net.Listen("tcp", "127.0.0.1:0")
	if err != nil {
		panic(err)
	}
	n.httpLn, n.wsLn = hl, wl
	n.httpSrv = &http.Server{Handler: srv}
	n.wsSrv = &http.Server{Handler: srv.WebsocketHandler([]string{"*"})}
	go n.httpSrv.Serve(hl)
	go n.wsSrv.Serve(trackListener{wl, n})
	n.HTTPURL = fmt.Sprintf("http://%s", hl.Addr().String())
	n.WSURL = fmt.Sprintf("ws://%s", wl.Addr().String())
	return n
}

// DropWS closes the endpoint's websocket connections (the endpoint "goes away" for subscribers).
func (n *EthNode) DropWS() {
	n.mu.Lock()
	conns := n.wsConns
	n.wsConns = nil
	n.mu.Unlock()
	for _, c := range conns {
		c.Close()
	}
}

// StopHTTP makes the RPC endpoint refuse connections.
func (n *EthNode) StopHTTP() { n.httpSrv.Close() }

func (n *EthNode) Close() {
	n.httpSrv.Close()
	n.wsSrv.Close()
	n.DropWS()
}

func crypto4(sig string) []byte {
	return crypto.Keccak256([]byte(sig))[:4]
}
