// Package doubles: in-memory stand-ins for the node's collaborators (p2p network, chain adapter, logger).
package doubles

import (
	"math/big"
	"context"
	"errors"
	"net"
	"reflect"
	"sync"
	"time"

	"github.com/DOSNetwork/core/log"
	"github.com/DOSNetwork/core/onchain"
	"github.com/DOSNetwork/core/p2p"
	"github.com/DOSNetwork/core/p2p/discover"
	vss "github.com/DOSNetwork/core/share/vss/pedersen"
	"github.com/golang/protobuf/proto"
)

// ---------------------------------------------------------------- logger

type NopLogger struct{}

func (NopLogger) New(key string, value interface{}) log.Logger        { return NopLogger{} }
func (NopLogger) AddField(key string, value interface{})              {}
func (NopLogger) Debug(msg string)                                    {}
func (NopLogger) Info(msg string)                                     {}
func (NopLogger) Warn(msg string)                                     {}
func (NopLogger) Error(err error)                                     {}
func (NopLogger) Fatal(err error)                                     {}
func (NopLogger) TimeTrack(time.Time, string, map[string]interface{}) {}
func (NopLogger) Event(e string, f map[string]interface{})            {}

// Logger is the logging interface of the code under test.
type Logger = log.Logger

// SlowLogger takes Delay for every Error call: a consumer of pipeline errors that is slower than
// their producers.
type SlowLogger struct {
	NopLogger
	Delay time.Duration
}

func (l SlowLogger) Error(err error)                              { time.Sleep(l.Delay) }
func (l SlowLogger) New(key string, value interface{}) log.Logger { return l }

// ---------------------------------------------------------------- p2p

// RequestFn handles an outgoing Request of a node.
type RequestFn func(ctx context.Context, from, to []byte, m proto.Message) (p2p.P2PMessage, error)

// FakeP2P is one endpoint of an in-memory network.
type FakeP2P struct {
	p2p.VerifBase
	ID        []byte
	mu        sync.Mutex
	subs      map[string]chan p2p.P2PMessage
	ChanBuf   int  // -1: use what the subscriber asks for
	OnRequest RequestFn
	OnReply   func(ctx context.Context, to []byte, nonce uint64, m proto.Message) error
	Members   [][]byte
}

func NewFakeP2P(id []byte) *FakeP2P {
	return &FakeP2P{ID: id, subs: map[string]chan p2p.P2PMessage{}, ChanBuf: -1}
}

func typeName(m interface{}) string {
	t := reflect.TypeOf(m)
	for t.Kind() == reflect.Ptr {
		t = t.Elem()
	}
	return t.String()
}

func (f *FakeP2P) GetIP() net.IP          { return net.IPv4(127, 0, 0, 1) }
func (f *FakeP2P) GetID() []byte          { return f.ID }
func (f *FakeP2P) SetPort(port string)    {}
func (f *FakeP2P) GetPort() string        { return "0" }
func (f *FakeP2P) Listen() error          { return nil }
func (f *FakeP2P) Join([]string) (int, error) { return 0, nil }
func (f *FakeP2P) DisConnectTo([]byte) error  { return nil }
func (f *FakeP2P) Leave()                     {}
func (f *FakeP2P) Request(ctx context.Context, id []byte, m proto.Message) (p2p.P2PMessage, error) {
	if f.OnRequest == nil {
		return p2p.P2PMessage{}, errors.New("no route")
	}
	return f.OnRequest(ctx, f.ID, id, m)
}
func (f *FakeP2P) Reply(ctx context.Context, id []byte, nonce uint64, m proto.Message) error {
	if f.OnReply == nil {
		return nil
	}
	return f.OnReply(ctx, id, nonce, m)
}
func (f *FakeP2P) SubscribeEvent() (int, chan discover.P2PEvent, error) {
	return 0, make(chan discover.P2PEvent), nil
}
func (f *FakeP2P) UnSubscribeEvent(int) {}
func (f *FakeP2P) SubscribeMsg(chanBuffer int, messages ...interface{}) (chan p2p.P2PMessage, error) {
	f.mu.Lock()
	defer f.mu.Unlock()
	if f.ChanBuf >= 0 {
		chanBuffer = f.ChanBuf
	}
	ch := make(chan p2p.P2PMessage, chanBuffer)
	for _, m := range messages {
		f.subs[typeName(m)] = ch
	}
	return ch, nil
}
func (f *FakeP2P) UnSubscribeMsg(messages ...interface{}) {
	f.mu.Lock()
	defer f.mu.Unlock()
	for _, m := range messages {
		delete(f.subs, typeName(m))
	}
}
func (f *FakeP2P) NumOfMembers() int      { return len(f.Members) }
func (f *FakeP2P) MembersID() [][]byte    { return f.Members }
func (f *FakeP2P) RandomPeerIP() []string { return nil }

// Sub returns the channel the node subscribed with for messages of m's type (nil if none).
func (f *FakeP2P) Sub(m interface{}) chan p2p.P2PMessage {
	f.mu.Lock()
	defer f.mu.Unlock()
	return f.subs[typeName(m)]
}

// WaitSub waits until the node has subscribed to m's type.
func (f *FakeP2P) WaitSub(m interface{}, d time.Duration) chan p2p.P2PMessage {
	deadline := time.Now().Add(d)
	for time.Now().Before(deadline) {
		if ch := f.Sub(m); ch != nil {
			return ch
		}
		time.Sleep(50 * time.Microsecond)
	}
	return nil
}

var _ p2p.P2PInterface = (*FakeP2P)(nil)

// ---------------------------------------------------------------- chain

// Report is one state-changing call observed on the chain double.
type Report struct {
	Kind string // "UpdateRandomness" | "DataReturn"
	Sig  *vss.Signature
}

type FakeChain struct {
	onchain.ProxyAdapter // nil: any method not overridden below panics if called
	mu                   sync.Mutex
	Reports              []Report
	Fail                 error
	BlockTime            uint64
	Registered           [][5]*big.Int
	PendingAll           bool // the answer of IsPendingNode for every id
}

// IsPendingNode: the registry view; nothing the node signs or reports may depend on it.
func (c *FakeChain) IsPendingNode(id []byte) (bool, error) { return c.PendingAll, nil }

func (c *FakeChain) UpdateRandomness(s *vss.Signature) error {
	c.mu.Lock()
	defer c.mu.Unlock()
	c.Reports = append(c.Reports, Report{"UpdateRandomness", s})
	return c.Fail
}
func (c *FakeChain) DataReturn(s *vss.Signature) error {
	c.mu.Lock()
	defer c.mu.Unlock()
	c.Reports = append(c.Reports, Report{"DataReturn", s})
	return c.Fail
}
func (c *FakeChain) RegisterGroupPubKey(v [5]*big.Int) error {
	c.mu.Lock()
	defer c.mu.Unlock()
	c.Registered = append(c.Registered, v)
	return c.Fail
}
func (c *FakeChain) GetBlockTime() uint64 {
	if c.BlockTime == 0 {
		return 1
	}
	return c.BlockTime
}
func (c *FakeChain) Snapshot() []Report {
	c.mu.Lock()
	defer c.mu.Unlock()
	return append([]Report{}, c.Reports...)
}
