package doubles

import (
	"fmt"
	"os"
	"context"
	"errors"
	"reflect"
	"sync"
	"time"

	"github.com/DOSNetwork/core/p2p"
	"github.com/golang/protobuf/proto"
	"github.com/golang/protobuf/ptypes"
)

// Network connects FakeP2P endpoints. A Request is delivered into the channel the target
// subscribed with for the message's type; the Policy decides delay, duplication and failure.
type Network struct {
	mu     sync.Mutex
	nodes  map[string]*FakeP2P
	Policy func(from, to []byte, m proto.Message, attempt int) Delivery
	tries  map[string]int
	Sent   int
}

type Delivery struct {
	Delay     time.Duration
	Copies    int   // how many times the message is put into the receiver's channel (0 = lost)
	FailAfter bool  // the sender sees an error although the message was delivered (lost acknowledgement)
	Fail      bool  // the sender sees an error and nothing is delivered
	Err       error // the error the sender sees when Fail is set (default: a plain error)
}

func NewNetwork() *Network {
	return &Network{nodes: map[string]*FakeP2P{}, tries: map[string]int{}}
}

func (n *Network) Add(id []byte) *FakeP2P {
	f := NewFakeP2P(id)
	f.OnRequest = n.request
	n.mu.Lock()
	n.nodes[string(id)] = f
	n.mu.Unlock()
	return f
}

// Endpoint returns the endpoint registered for id.
func (n *Network) Endpoint(id []byte) *FakeP2P {
	n.mu.Lock()
	defer n.mu.Unlock()
	return n.nodes[string(id)]
}

func (n *Network) request(ctx context.Context, from, to []byte, m proto.Message) (p2p.P2PMessage, error) {
	// the real transport marshals the message first: a nil pointer is an error there, nothing is sent
	if m == nil || (reflect.ValueOf(m).Kind() == reflect.Ptr && reflect.ValueOf(m).IsNil()) {
		return p2p.P2PMessage{}, errors.New("proto: Marshal called with nil")
	}
	n.mu.Lock()
	target := n.nodes[string(to)]
	key := string(from) + "|" + string(to) + "|" + typeName(m) + "|" + proto.CompactTextString(m)[:min(40, len(proto.CompactTextString(m)))]
	n.tries[key]++
	attempt := n.tries[key]
	n.Sent++
	pol := n.Policy
	n.mu.Unlock()
	if target == nil {
		return p2p.P2PMessage{}, errors.New("unknown peer")
	}
	d := Delivery{Copies: 1}
	if pol != nil {
		d = pol(from, to, m, attempt)
	}
	if d.Fail {
		if d.Err != nil {
			return p2p.P2PMessage{}, d.Err
		}
		return p2p.P2PMessage{}, errors.New("injected send failure")
	}
	if d.Delay > 0 {
		select {
		case <-time.After(d.Delay):
		case <-ctx.Done():
			return p2p.P2PMessage{}, ctx.Err()
		}
	}
	for c := 0; c < d.Copies; c++ {
		// wait for the receiver's subscription (a node that has not started its loop yet)
		var ch chan p2p.P2PMessage
		for ch == nil {
			ch = target.Sub(m)
			if ch == nil {
				select {
				case <-time.After(time.Millisecond):
				case <-ctx.Done():
					return p2p.P2PMessage{}, ctx.Err()
				}
			}
		}
		msg := p2p.P2PMessage{Msg: ptypes.DynamicAny{Message: proto.Clone(m)}, Sender: from}
		select {
		case ch <- msg:
		case <-ctx.Done():
			return p2p.P2PMessage{}, ctx.Err()
		}
	}
	if d.FailAfter {
		return p2p.P2PMessage{}, errors.New("injected lost acknowledgement")
	}
	if os.Getenv("C04_DEBUG") != "" {
		fmt.Fprintf(os.Stderr, "%s delivered %T %s -> %s attempt %d\n", time.Now().Format("05.000"), m, from, to, attempt)
	}
	return p2p.P2PMessage{}, nil
}

func min(a, b int) int {
	if a < b {
		return a
	}
	return b
}
