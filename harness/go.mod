module verif/harness

go 1.13

require (
	github.com/DOSNetwork/core v0.0.0
	github.com/dedis/kyber v0.0.0-20181211160045-59837fd0c24b
	github.com/ethereum/go-ethereum v1.10.9
	github.com/golang/protobuf v1.4.3
	github.com/hashicorp/serf v0.8.3
	golang.org/x/crypto v0.0.0-20210322153248-0c34fe9e7dc2
)

replace github.com/DOSNetwork/core => /repo
