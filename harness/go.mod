module verif/harness

go 1.13

require (
	github.com/DOSNetwork/core v0.0.0
	github.com/dedis/kyber v0.0.0-20181211160045-59837fd0c24b
)

replace github.com/DOSNetwork/core => /repo
