// driver: correspondence harness entry point.
//   driver gen <ID> -seed N -tier quick|thorough -out cases.tsv
//   driver enc  < lines "g<grp>:<decimal>"  > lines "<token>\tb<hex>"
package main

import (
	"bufio"
	"flag"
	"fmt"
	"math/big"
	"os"
	"strings"

	"verif/harness/hx"
	"verif/harness/props"
)

func main() {
	if len(os.Args) < 2 {
		fmt.Fprintln(os.Stderr, "usage: driver gen|enc ...")
		os.Exit(2)
	}
	switch os.Args[1] {
	case "gen":
		fs := flag.NewFlagSet("gen", flag.ExitOnError)
		seed := fs.Uint64("seed", 1, "seed")
		tier := fs.String("tier", "quick", "tier")
		out := fs.String("out", "cases.tsv", "output")
		id := os.Args[2]
		fs.Parse(os.Args[3:])
		g, ok := props.Registry[id]
		if !ok {
			fmt.Fprintln(os.Stderr, "no generator for", id)
			os.Exit(2)
		}
		// the code under test prints progress lines with fmt.Println: keep them out of our output
		realOut := os.Stdout
		if devnull, err := os.OpenFile(os.DevNull, os.O_WRONLY, 0); err == nil {
			os.Stdout = devnull
		}
		defer func() { os.Stdout = realOut }()
		w, err := hx.NewWriter(*out)
		if err != nil {
			panic(err)
		}
		if err := g(hx.NewRng(*seed), *tier, w); err != nil {
			fmt.Fprintln(os.Stderr, "generator error:", err)
			os.Exit(3)
		}
		if err := w.Close(); err != nil {
			panic(err)
		}
		fmt.Fprintf(realOut, "cases=%d\n", w.Count())
	case "sub":
		// one isolated scenario: driver sub <name> <arg>; its stdout is the result, a panic kills it
		fn, ok := props.SubRegistry[os.Args[2]]
		if !ok {
			fmt.Fprintln(os.Stderr, "no sub scenario", os.Args[2])
			os.Exit(2)
		}
		realOut := os.Stdout
		if devnull, err := os.OpenFile(os.DevNull, os.O_WRONLY, 0); err == nil {
			os.Stdout = devnull
		}
		arg := ""
		if len(os.Args) > 3 {
			arg = os.Args[3]
		}
		res := fn(arg)
		fmt.Fprint(realOut, res)
	case "enc":
		sc := bufio.NewScanner(os.Stdin)
		sc.Buffer(make([]byte, 1<<20), 1<<26)
		for sc.Scan() {
			tok := strings.TrimSpace(sc.Text())
			if tok == "" {
				continue
			}
			var grp int
			var ds string
			body := tok[1:]
			k := strings.IndexByte(body, ':')
			fmt.Sscanf(body[:k], "%d", &grp)
			ds = body[k+1:]
			d, _ := new(big.Int).SetString(ds, 10)
			g := props.GroupOf(grp)
			fmt.Printf("%s\t%s\n", tok, hx.B(props.PtBytes(props.Pt(g, d, props.OrderOf(grp)))))
		}
	default:
		fmt.Fprintln(os.Stderr, "unknown command")
		os.Exit(2)
	}
}
