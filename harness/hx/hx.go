// Package hx: shared helpers of the correspondence harness (PRNG, value syntax, case writer).
package hx

import (
	"bufio"
	"bytes"
	"context"
	"encoding/hex"
	"fmt"
	"math/big"
	"os"
	"os/exec"
	"sort"
	"strings"
	"sync"
	"time"
)

// ---------------------------------------------------------------- PRNG (splitmix64)

type Rng struct{ s uint64 }

func NewRng(seed uint64) *Rng { return &Rng{s: seed} }

func (r *Rng) U64() uint64 {
	r.s += 0x9e3779b97f4a7c15
	z := r.s
	z = (z ^ (z >> 30)) * 0xbf58476d1ce4e5b9
	z = (z ^ (z >> 27)) * 0x94d049bb133111eb
	return z ^ (z >> 31)
}
func (r *Rng) State() uint64 { return r.s }
func (r *Rng) Intn(n int) int {
	if n <= 0 {
		return 0
	}
	return int(r.U64() % uint64(n))
}
func (r *Rng) Bool() bool        { return r.U64()&1 == 1 }
func (r *Rng) Chance(p int) bool { return r.Intn(100) < p } // p percent
func (r *Rng) Bytes(n int) []byte {
	b := make([]byte, n)
	for i := range b {
		b[i] = byte(r.U64())
	}
	return b
}
func (r *Rng) BigBelow(q *big.Int) *big.Int {
	b := r.Bytes((q.BitLen() + 7 + 64) / 8)
	return new(big.Int).Mod(new(big.Int).SetBytes(b), q)
}
func (r *Rng) Perm(n int) []int {
	p := make([]int, n)
	for i := range p {
		p[i] = i
	}
	for i := n - 1; i > 0; i-- {
		j := r.Intn(i + 1)
		p[i], p[j] = p[j], p[i]
	}
	return p
}

// XORKeyStream makes Rng a cipher.Stream (deterministic "randomness" for the code under test).
func (r *Rng) XORKeyStream(dst, src []byte) {
	for i := range src {
		dst[i] = src[i] ^ byte(r.U64())
	}
}

// ---------------------------------------------------------------- value syntax

func Z(b *big.Int) string          { return "z" + b.String() }
func Zi(i int) string              { return fmt.Sprintf("z%d", i) }
func Zi64(i int64) string          { return fmt.Sprintf("z%d", i) }
func Zu64(i uint64) string         { return fmt.Sprintf("z%d", i) }
func B(b []byte) string            { return "b" + hex.EncodeToString(b) }
func G(grp int, d *big.Int) string { return fmt.Sprintf("g%d:%s", grp, d.String()) }
func L(xs ...string) string {
	if len(xs) == 0 {
		return "( )"
	}
	return "( " + strings.Join(xs, " ") + " )"
}
func Bool(b bool) string {
	if b {
		return "z1"
	}
	return "z0"
}

const (
	E = "E"
	P = "P"
	N = "N"
)

// Catch runs f; a panic becomes "P".
func Catch(f func() string) (out string) {
	defer func() {
		if r := recover(); r != nil {
			out = P
			LastPanic = fmt.Sprint(r)
		}
	}()
	return f()
}

var LastPanic string

// ---------------------------------------------------------------- cases

type Case struct {
	Entry  string   // model entry point
	Op     int      // operation number within the entry point
	Args   string   // a val list
	Impl   string   // what the real code returned (val)
	Oracle string   // "ok" or "FAIL:<key>:<text>"  (the property's own judge, independent of the model)
	Tags   []string // for the input-distribution report; "nt" marks a non-trivial case
	// Re recomputes Impl from the same inputs (fresh objects, no random draws).  Cases that carry it
	// are evaluated again at the end of the run, several at a time from different goroutines: the
	// functions under test are pure, so what they return must not depend on what else is running or
	// has run before (package-level scratch state, pools, caches, objects shared through a getter)
	Re func() string
}

type replayItem struct {
	c  Case
	id int
}

type Writer struct {
	f    *os.File
	w    *bufio.Writer
	n    int
	Dist map[string]int

	replay []replayItem
	seenRe int
}

func NewWriter(path string) (*Writer, error) {
	f, err := os.Create(path)
	if err != nil {
		return nil, err
	}
	return &Writer{f: f, w: bufio.NewWriterSize(f, 1<<20), Dist: map[string]int{}}, nil
}

func (w *Writer) Put(c Case) {
	w.n++
	if c.Oracle == "" {
		c.Oracle = "ok"
	}
	for _, t := range c.Tags {
		w.Dist[t]++
	}
	fmt.Fprintf(w.w, "%d\t%s\t%d\t%s\t%s\t%s\t%s\n", w.n, c.Entry, c.Op, c.Args, c.Impl,
		strings.ReplaceAll(c.Oracle, "\t", " "), strings.Join(c.Tags, ","))
	if c.Re != nil && c.Impl != P {
		// a spread sample: the first 48, then every 37th, at most 160
		w.seenRe++
		if len(w.replay) < 160 && (w.seenRe <= 48 || w.seenRe%37 == 0) {
			w.replay = append(w.replay, replayItem{c, w.n})
		}
	}
}

// ReplayConcurrently evaluates the sampled cases again: first all of them once more in sequence
// (what ran in between must not matter), then in waves of 8 goroutines.
func (w *Writer) ReplayConcurrently() {
	items := w.replay
	w.replay = nil
	if len(items) == 0 {
		return
	}
	quiet := func(f func() string) (out string) {
		defer func() {
			if r := recover(); r != nil {
				out = P
			}
		}()
		return f()
	}
	report := func(it replayItem, how, got string) {
		args := it.c.Args
		if len(args) > 300 {
			args = args[:300] + "..."
		}
		w.Put(Case{Entry: "-", Op: 0, Args: L(Zi(it.id)), Impl: got,
			Oracle: Fail("evaluation-depends-on-other-evaluations", fmt.Sprintf("case %d (%s op %d) gives another result when it is evaluated again %s: first %.80s, then %.80s; arguments %s", it.id, it.c.Entry, it.c.Op, how, it.c.Impl, got, args)),
			Tags:   []string{"replay", "nt"}})
	}
	bad := map[int]bool{}
	for _, it := range items {
		if got := quiet(it.c.Re); got != it.c.Impl {
			bad[it.id] = true
			report(it, "after the other cases have run", got)
		}
	}
	const wave = 12
	for round := 0; round < 3; round++ {
		for i := 0; i < len(items); i += wave {
			j := i + wave
			if j > len(items) {
				j = len(items)
			}
			res := make([]string, j-i)
			var wg sync.WaitGroup
			start := make(chan struct{})
			for k := i; k < j; k++ {
				wg.Add(1)
				go func(k int) {
					defer wg.Done()
					<-start
					res[k-i] = quiet(items[k].c.Re)
				}(k)
			}
			close(start)
			wg.Wait()
			for k := i; k < j; k++ {
				if res[k-i] != items[k].c.Impl && !bad[items[k].id] {
					bad[items[k].id] = true
					report(items[k], "while other cases are evaluated in other goroutines", res[k-i])
				}
			}
		}
	}
	w.Put(Case{Entry: "-", Op: 0, Args: L(Zi(len(items))), Impl: Zi(len(bad)), Tags: []string{"replay-summary"}})
}

func (w *Writer) Count() int { return w.n }

func (w *Writer) Close() error {
	w.ReplayConcurrently()
	keys := make([]string, 0, len(w.Dist))
	for k := range w.Dist {
		keys = append(keys, k)
	}
	sort.Strings(keys)
	for _, k := range keys {
		fmt.Fprintf(w.w, "#dist\t%s\t%d\n", k, w.Dist[k])
	}
	if err := w.w.Flush(); err != nil {
		return err
	}
	return w.f.Close()
}

func Fail(key, text string) string { return "FAIL:" + key + ":" + text }

// ---------------------------------------------------------------- sub-process isolation
// A panic in a goroutine started by the code under test cannot be recovered by the harness: such
// scenarios run in a child process (`driver sub <name> <arg>`).

// RunSub returns the child's stdout and a class: "ok", "P" (the child died with a Go panic /
// non-zero exit), "H" (timeout).
func RunSub(name, arg string, timeout time.Duration) (string, string) {
	ctx, cancel := context.WithTimeout(context.Background(), timeout)
	defer cancel()
	cmd := exec.CommandContext(ctx, os.Args[0], "sub", name, arg)
	var out, errb bytes.Buffer
	cmd.Stdout = &out
	cmd.Stderr = &errb
	err := cmd.Run()
	if ctx.Err() != nil {
		return out.String(), "H"
	}
	if err != nil {
		LastPanic = firstPanicLine(errb.String())
		return out.String(), "P"
	}
	return out.String(), "ok"
}

// RunSubP is RunSub returning the panic line instead of storing it (safe for concurrent use).
func RunSubP(name, arg string, timeout time.Duration) (string, string, string) {
	ctx, cancel := context.WithTimeout(context.Background(), timeout)
	defer cancel()
	cmd := exec.CommandContext(ctx, os.Args[0], "sub", name, arg)
	var out, errb bytes.Buffer
	cmd.Stdout = &out
	cmd.Stderr = &errb
	err := cmd.Run()
	if ctx.Err() != nil {
		return out.String(), "H", ""
	}
	if err != nil {
		if ee, ok := err.(*exec.ExitError); ok && ee.ExitCode() == 97 {
			return out.String(), "R", firstPanicLine(errb.String())
		}
		return out.String(), "P", firstPanicLine(errb.String())
	}
	return out.String(), "ok", ""
}

func firstPanicLine(s string) string {
	for _, l := range strings.Split(s, "\n") {
		if strings.HasPrefix(l, "panic:") || strings.HasPrefix(l, "fatal error:") {
			return l
		}
	}
	if len(s) > 200 {
		return s[:200]
	}
	return s
}
