package props

import (
	"bytes"
	"math/big"
	"strings"

	"github.com/DOSNetwork/core/group/bn256"
	"github.com/dedis/kyber"
	"github.com/ethereum/go-ethereum/common"
	"github.com/ethereum/go-ethereum/core/vm"
	gbn "github.com/ethereum/go-ethereum/crypto/bn256/google"

	"verif/harness/hx"
)

func init() { Registry["C10"] = genC10 }

var bigR = new(big.Int).Lsh(big.NewInt(1), 256)
var bigRinv = new(big.Int).ModInverse(new(big.Int).Lsh(big.NewInt(1), 256), mustBig("21888242871839275222246405745257275088696311157297823662689037894645226208583"))

func toLimbs(x *big.Int) [4]uint64 {
	var l [4]uint64
	b := new(big.Int).Set(x)
	m := new(big.Int).SetUint64(^uint64(0))
	for i := 0; i < 4; i++ {
		l[i] = new(big.Int).And(b, m).Uint64()
		b.Rsh(b, 64)
	}
	return l
}

func fromLimbs(l [4]uint64) *big.Int {
	x := new(big.Int)
	for i := 3; i >= 0; i-- {
		x.Lsh(x, 64)
		x.Or(x, new(big.Int).SetUint64(l[i]))
	}
	return x
}

// directed field operands
func c10Operands(rng *hx.Rng) []*big.Int {
	one := big.NewInt(1)
	p := BnP
	ops := []*big.Int{big.NewInt(0), one, big.NewInt(2), new(big.Int).Sub(p, one), new(big.Int).Sub(p, big.NewInt(2)),
		new(big.Int).Rsh(p, 1), new(big.Int).Add(new(big.Int).Rsh(p, 1), one)}
	// all-ones limbs and single-limb boundaries (reduced mod p where the operation needs it)
	for i := 0; i < 4; i++ {
		v := new(big.Int).Lsh(new(big.Int).SetUint64(^uint64(0)), uint(64*i))
		ops = append(ops, new(big.Int).Mod(v, p))
		ops = append(ops, new(big.Int).Mod(new(big.Int).Lsh(one, uint(64*i)), p))
		ops = append(ops, new(big.Int).Mod(new(big.Int).Sub(new(big.Int).Lsh(one, uint(64*(i+1))), one), p))
	}
	for i := 0; i < 6; i++ {
		ops = append(ops, rng.BigBelow(p))
	}
	return ops
}

func precompile(addr byte, in []byte) ([]byte, error) {
	c := vm.PrecompiledContractsIstanbul[common.BytesToAddress([]byte{addr})]
	return c.Run(in)
}

func genC10(rng *hx.Rng, tier string, w *hx.Writer) error {
	scale := 1
	if tier == "thorough" {
		scale = 10
	}
	p := BnP
	// ---- (1) base field: the four primitives, Montgomery encode/decode, inversion; both gfpMul code paths
	paths := []bool{false}
	if bn256.VerifHasBMI2() {
		paths = []bool{true, false}
	}
	defer bn256.VerifSetBMI2(bn256.VerifHasBMI2())
	for rep := 0; rep < scale; rep++ {
		ops := c10Operands(rng)
		// unreduced 256-bit first operands for Montgomery multiplication / encoding
		unred := []*big.Int{new(big.Int).Sub(bigR, big.NewInt(1)), p, new(big.Int).Add(p, big.NewInt(1)),
			new(big.Int).Lsh(big.NewInt(1), 255), new(big.Int).Mod(new(big.Int).SetBytes(rng.Bytes(32)), bigR)}
		for _, bmi := range paths {
			bn256.VerifSetBMI2(bmi)
			ptag := "nobmi2"
			if bmi {
				ptag = "bmi2"
			}
			for _, a := range ops {
				for _, b := range ops {
					for op := 0; op <= 3; op++ {
						if op == 2 && b != ops[0] {
							continue
						}
						if op != 3 && bmi != paths[0] {
							continue // add/sub/neg have a single code path
						}
						got := fromLimbs(bn256.VerifGfp(op, toLimbs(a), toLimbs(b)))
						var want *big.Int
						var args string
						switch op {
						case 0:
							want = new(big.Int).Mod(new(big.Int).Add(a, b), p)
							args = hx.L(hx.Z(a), hx.Z(b))
						case 1:
							want = new(big.Int).Mod(new(big.Int).Sub(a, b), p)
							args = hx.L(hx.Z(a), hx.Z(b))
						case 2:
							want = new(big.Int).Mod(new(big.Int).Neg(a), p)
							args = hx.L(hx.Z(a))
						case 3:
							want = new(big.Int).Mod(new(big.Int).Mul(new(big.Int).Mul(a, b), bigRinv), p)
							args = hx.L(hx.Z(a), hx.Z(b))
						}
						oracle := "ok"
						if got.Cmp(want) != 0 {
							oracle = hx.Fail("field-op-wrong", "a base-field primitive disagrees with integer arithmetic modulo p ("+ptag+")")
						}
						w.Put(hx.Case{Entry: "bn", Op: 30 + op, Args: args, Impl: hx.Z(got), Oracle: oracle,
							Tags: []string{"gfp-" + []string{"add", "sub", "neg", "mul"}[op], ptag, "nt"}})
						// the same call against the program translated from gfp.s (T1) under the machine model
						aop := op
						if op == 3 && bmi {
							aop = 4
						}
						w.Put(hx.Case{Entry: "asm", Op: aop, Args: args, Impl: hx.Z(got), Oracle: oracle,
							Tags: []string{"asm-" + []string{"add", "sub", "neg", "mul", "mulx"}[aop], ptag, "nt"}})
					}
				}
			}
			for _, a := range unred {
				for _, b := range ops[:10] {
					got := fromLimbs(bn256.VerifGfp(3, toLimbs(a), toLimbs(b)))
					want := new(big.Int).Mod(new(big.Int).Mul(new(big.Int).Mul(a, b), bigRinv), p)
					oracle := "ok"
					if got.Cmp(want) != 0 {
						oracle = hx.Fail("field-op-wrong", "Montgomery multiplication of an unreduced 256-bit operand is wrong ("+ptag+")")
					}
					w.Put(hx.Case{Entry: "bn", Op: 33, Args: hx.L(hx.Z(a), hx.Z(b)), Impl: hx.Z(got), Oracle: oracle,
						Tags: []string{"gfp-mul-unreduced", ptag, "nt"}})
					aop := 3
					if bmi {
						aop = 4
					}
					w.Put(hx.Case{Entry: "asm", Op: aop, Args: hx.L(hx.Z(a), hx.Z(b)), Impl: hx.Z(got), Oracle: oracle,
						Tags: []string{"asm-mul-unreduced", ptag, "nt"}})
				}
				got := fromLimbs(bn256.VerifGfp(4, toLimbs(a), [4]uint64{}))
				want := new(big.Int).Mod(new(big.Int).Mul(a, bigR), p)
				oracle := "ok"
				if got.Cmp(want) != 0 {
					oracle = hx.Fail("field-op-wrong", "montEncode of an unreduced input is wrong ("+ptag+")")
				}
				w.Put(hx.Case{Entry: "bn", Op: 34, Args: hx.L(hx.Z(a)), Impl: hx.Z(got), Oracle: oracle, Tags: []string{"mont-encode", ptag, "nt"}})
			}
			for _, a := range ops {
				got := fromLimbs(bn256.VerifGfp(5, toLimbs(a), [4]uint64{}))
				want := new(big.Int).Mod(new(big.Int).Mul(a, bigRinv), p)
				oracle := "ok"
				if got.Cmp(want) != 0 {
					oracle = hx.Fail("field-op-wrong", "montDecode is wrong ("+ptag+")")
				}
				w.Put(hx.Case{Entry: "bn", Op: 35, Args: hx.L(hx.Z(a)), Impl: hx.Z(got), Oracle: oracle, Tags: []string{"mont-decode", ptag, "nt"}})
				if a.Sign() != 0 {
					gi := fromLimbs(bn256.VerifGfp(6, toLimbs(a), [4]uint64{}))
					plain := new(big.Int).Mod(new(big.Int).Mul(a, bigRinv), p)
					wi := new(big.Int).Mod(new(big.Int).Mul(new(big.Int).ModInverse(plain, p), bigR), p)
					o2 := "ok"
					if gi.Cmp(wi) != 0 {
						o2 = hx.Fail("field-op-wrong", "Invert is not the modular inverse ("+ptag+")")
					}
					w.Put(hx.Case{Entry: "bn", Op: 36, Args: hx.L(hx.Z(a)), Impl: hx.Z(gi), Oracle: o2, Tags: []string{"gfp-invert", ptag, "nt"}})
				}
			}
		}
	}
	bn256.VerifSetBMI2(bn256.VerifHasBMI2())

	// ---- (2) group law in G1 and G2: scalars 0, 1, q-1, q, q+1, 2^256-1, random; P+(-P), P+P, O
	q := BnQ
	scal := []*big.Int{big.NewInt(0), big.NewInt(1), big.NewInt(2), new(big.Int).Sub(q, big.NewInt(1)), q,
		new(big.Int).Add(q, big.NewInt(1)), new(big.Int).Sub(bigR, big.NewInt(1)), new(big.Int).Lsh(q, 1)}
	for i := 0; i < 4*scale; i++ {
		scal = append(scal, rng.BigBelow(q))
	}
	type grpDef struct {
		id    int
		mul   func(kyber.Point, *big.Int) kyber.Point
		opMul int
		opAdd int
		opNeg int
	}
	for _, gd := range []grpDef{{GrpG1, bn256.VerifG1Mul, 8, 12, 10}, {GrpG2, bn256.VerifG2Mul, 9, 13, 11}} {
		g := GroupOf(gd.id)
		base := g.Point().Base()
		baseEnc := PtBytes(base)
		for _, k := range scal {
			// unreduced scalar multiplication agrees with the reduced one and with the reference
			got := PtBytes(gd.mul(base, k))
			want := PtBytes(Pt(g, new(big.Int).Mod(k, q), q))
			oracle := "ok"
			if !bytes.Equal(got, want) {
				oracle = hx.Fail("scalar-mul-wrong", "[k]P differs from [k mod q]P")
			}
			if gd.id == GrpG1 {
				if ref := new(gbn.G1).ScalarBaseMult(new(big.Int).Mod(k, q)).Marshal(); !bytes.Equal(got, ref) {
					oracle = hx.Fail("differs-from-reference", "[k]G1 differs from the big-integer reference implementation")
				}
			} else if k.Sign() != 0 && new(big.Int).Mod(k, q).Sign() != 0 {
				if ref := new(gbn.G2).ScalarBaseMult(new(big.Int).Mod(k, q)).Marshal(); !bytes.Equal(got[1:], ref) {
					oracle = hx.Fail("differs-from-reference", "[k]G2 differs from the big-integer reference implementation")
				}
			}
			w.Put(hx.Case{Entry: "bn", Op: gd.opMul, Args: hx.L(hx.B(baseEnc), hx.Z(k)), Impl: hx.B(got), Oracle: oracle,
				Tags: []string{"scalar-mul", "nt"}})
		}
		// additions of Jacobian operands: k1*G + k2*G incl. inverse pairs, doubling, identity
		pairs := [][2]*big.Int{}
		for i := 0; i < 6*scale; i++ {
			a := rng.BigBelow(q)
			pairs = append(pairs, [2]*big.Int{a, rng.BigBelow(q)})
			pairs = append(pairs, [2]*big.Int{a, new(big.Int).Sub(q, a)}) // P + (-P)
			pairs = append(pairs, [2]*big.Int{a, a})                      // P + P
			pairs = append(pairs, [2]*big.Int{a, big.NewInt(0)})
			pairs = append(pairs, [2]*big.Int{big.NewInt(0), a})
		}
		pairs = append(pairs, [2]*big.Int{big.NewInt(0), big.NewInt(0)}, [2]*big.Int{big.NewInt(1), big.NewInt(1)},
			[2]*big.Int{big.NewInt(1), new(big.Int).Sub(q, big.NewInt(1))})
		for _, pr := range pairs {
			a, b := Pt(g, pr[0], q), Pt(g, pr[1], q)
			got := PtBytes(g.Point().Add(a, b))
			want := PtBytes(Pt(g, new(big.Int).Mod(new(big.Int).Add(pr[0], pr[1]), q), q))
			oracle := "ok"
			if !bytes.Equal(got, want) {
				oracle = hx.Fail("group-law-wrong", "[a]P + [b]P differs from [a+b]P")
			}
			// Sub and Neg
			if !bytes.Equal(PtBytes(g.Point().Sub(a, b)), PtBytes(Pt(g, new(big.Int).Mod(new(big.Int).Sub(pr[0], pr[1]), q), q))) {
				oracle = hx.Fail("group-law-wrong", "[a]P - [b]P differs from [a-b]P")
			}
			w.Put(hx.Case{Entry: "bn", Op: gd.opAdd, Args: hx.L(hx.Z(pr[0]), hx.Z(pr[1])), Impl: hx.B(got), Oracle: oracle,
				Tags: []string{"group-add", "nt"}})
			// in place: c.Add(c, b) with aliasing
			c := Pt(g, pr[0], q)
			c.Add(c, b)
			if !bytes.Equal(PtBytes(c), want) {
				w.Put(hx.Case{Entry: "-", Op: 0, Args: hx.L(hx.Z(pr[0]), hx.Z(pr[1])), Impl: "z0",
					Oracle: hx.Fail("group-law-wrong", "in-place addition c.Add(c, b) differs from [a+b]P"), Tags: []string{"group-add-alias"}})
			}
		}
		// negation
		for i := 0; i < 3*scale; i++ {
			k := rng.BigBelow(q)
			enc := PtBytes(Pt(g, k, q))
			got := PtBytes(g.Point().Neg(Pt(g, k, q)))
			want := PtBytes(Pt(g, new(big.Int).Mod(new(big.Int).Neg(k), q), q))
			oracle := "ok"
			if !bytes.Equal(got, want) {
				oracle = hx.Fail("group-law-wrong", "-[k]P differs from [-k]P")
			}
			w.Put(hx.Case{Entry: "bn", Op: gd.opNeg, Args: hx.L(hx.B(enc)), Impl: hx.B(got), Oracle: oracle, Tags: []string{"group-neg", "nt"}})
		}
	}
	// the EVM's ecAdd / ecMul on the same G1 points
	for i := 0; i < 4*scale; i++ {
		a, b := rng.BigBelow(q), rng.BigBelow(q)
		in := append(PtBytes(Pt(Bn.G1(), a, q)), PtBytes(Pt(Bn.G1(), b, q))...)
		out, err := precompile(6, in)
		oracle := "ok"
		if err != nil || !bytes.Equal(out, PtBytes(Bn.G1().Point().Add(Pt(Bn.G1(), a, q), Pt(Bn.G1(), b, q)))) {
			oracle = hx.Fail("differs-from-evm", "G1 addition differs from the EVM ecAdd precompile")
		}
		k := new(big.Int).SetBytes(rng.Bytes(32)) // unreduced 256-bit scalar, as the EVM takes it
		out2, err2 := precompile(7, append(PtBytes(Pt(Bn.G1(), a, q)), be32(k)...))
		if err2 != nil || !bytes.Equal(out2, PtBytes(bn256.VerifG1Mul(Pt(Bn.G1(), a, q), k))) {
			oracle = hx.Fail("differs-from-evm", "G1 scalar multiplication differs from the EVM ecMul precompile")
		}
		w.Put(hx.Case{Entry: "-", Op: 0, Args: hx.L(hx.Z(a), hx.Z(b)), Impl: "z0", Oracle: oracle, Tags: []string{"evm-ecadd-ecmul", "nt"}})
	}

	// ---- (3) pairing: value, bilinearity, non-degeneracy, PairingCheck incl. identity and negated operands
	g1k := func(k *big.Int) kyber.Point { return Pt(Bn.G1(), k, q) }
	// how a G2 operand is built (mirrors dec_tw of the model)
	g2how := func(how int, k *big.Int) kyber.Point {
		pt := Pt(Bn.G2(), k, q)
		switch how {
		case 1, 2:
			n := Bn.G2().Point()
			if err := n.UnmarshalBinary(PtBytes(pt)); err != nil {
				panic(err)
			}
			if how == 2 {
				return Bn.G2().Point().Neg(n)
			}
			return n
		case 3:
			return Bn.G2().Point().Neg(pt)
		}
		return pt
	}
	gtBase := Bn.Pair(g1k(big.NewInt(1)), g2how(0, big.NewInt(1)))
	nPair := 3 * scale
	for i := 0; i < nPair; i++ {
		a, b := rng.BigBelow(q), rng.BigBelow(q)
		if i == 0 {
			a, b = big.NewInt(1), big.NewInt(1)
		}
		for how := 0; how <= 3; how++ {
			got := PtBytes(Bn.Pair(g1k(a), g2how(how, b)))
			e := new(big.Int).Mul(a, b)
			if how >= 2 {
				e.Neg(e)
			}
			e.Mod(e, q)
			want := PtBytes(bn256.VerifGTExp(gtBase, e))
			oracle := "ok"
			if !bytes.Equal(got, want) {
				oracle = hx.Fail("pairing-not-bilinear", "e([a]P,[b]Q) differs from e(P,Q)^(ab) (G2 operand built in mode "+string(rune('0'+how))+")")
			}
			if how == 0 {
				ref := gbn.Pair(new(gbn.G1).ScalarBaseMult(a), new(gbn.G2).ScalarBaseMult(b)).Marshal()
				if !bytes.Equal(got, ref) {
					oracle = hx.Fail("differs-from-reference", "the pairing value differs from the big-integer reference implementation")
				}
			}
			w.Put(hx.Case{Entry: "bn", Op: 20, Args: hx.L(hx.Z(a), hx.L(hx.Zi(how), hx.Z(b))), Impl: hx.B(got), Oracle: oracle,
				Tags: []string{"pairing", "nt"}})
		}
	}
	// non-degeneracy and identity operands
	{
		one := PtBytes(Bn.GT().Point().Null())
		oracle := "ok"
		if bytes.Equal(PtBytes(gtBase), one) {
			oracle = hx.Fail("pairing-degenerate", "e(P,Q) of the generators is the identity")
		}
		if !bytes.Equal(PtBytes(Bn.Pair(g1k(big.NewInt(0)), g2how(0, big.NewInt(5)))), one) ||
			!bytes.Equal(PtBytes(Bn.Pair(g1k(big.NewInt(5)), g2how(0, big.NewInt(0)))), one) {
			oracle = hx.Fail("pairing-identity", "pairing with the identity is not the identity")
		}
		w.Put(hx.Case{Entry: "-", Op: 0, Args: hx.L(), Impl: "z0", Oracle: oracle, Tags: []string{"pairing-degenerate", "nt"}})
	}
	// PairingCheck: true exactly when the product of the pairings is one
	for i := 0; i < 6*scale; i++ {
		np := 2 + rng.Intn(2)
		as := make([]*big.Int, np)
		bs := make([]*big.Int, np)
		hows := make([]int, np)
		sum := new(big.Int)
		for j := 0; j < np; j++ {
			as[j], bs[j] = rng.BigBelow(q), rng.BigBelow(q)
			if rng.Chance(20) {
				as[j] = big.NewInt(0)
			}
			if rng.Chance(15) {
				bs[j] = big.NewInt(0)
			}
			hows[j] = rng.Intn(4)
		}
		// make the product one in half of the cases by solving for the last a
		wantTrue := i%2 == 0
		term := func(j int) *big.Int {
			t := new(big.Int).Mul(as[j], bs[j])
			if hows[j] >= 2 {
				t.Neg(t)
			}
			return t.Mod(t, q)
		}
		if wantTrue && bs[np-1].Sign() != 0 {
			for j := 0; j < np-1; j++ {
				sum.Add(sum, term(j))
			}
			inv := new(big.Int).ModInverse(bs[np-1], q)
			as[np-1] = new(big.Int).Mod(new(big.Int).Mul(new(big.Int).Neg(sum), inv), q)
			if hows[np-1] >= 2 {
				as[np-1] = new(big.Int).Mod(new(big.Int).Neg(as[np-1]), q)
			}
		}
		tot := new(big.Int)
		for j := 0; j < np; j++ {
			tot.Add(tot, term(j))
		}
		tot.Mod(tot, q)
		var ps, qs []kyber.Point
		var pv []string
		var evmIn []byte
		for j := 0; j < np; j++ {
			ps = append(ps, g1k(as[j]))
			qs = append(qs, g2how(hows[j], bs[j]))
			pv = append(pv, hx.L(hx.Z(as[j]), hx.L(hx.Zi(hows[j]), hx.Z(bs[j]))))
			evmIn = append(evmIn, PtBytes(ps[j])...)
			qb := PtBytes(qs[j])
			if len(qb) == 1 {
				evmIn = append(evmIn, make([]byte, 128)...)
			} else {
				evmIn = append(evmIn, qb[1:]...)
			}
		}
		got := Bn.PairingCheck(ps, qs)
		oracle := "ok"
		if got != (tot.Sign() == 0) {
			oracle = hx.Fail("pairing-check-wrong", "PairingCheck is not 'the product of the pairings is one'")
		}
		if out, err := precompile(8, evmIn); err == nil {
			if (out[31] == 1) != got {
				oracle = hx.Fail("differs-from-evm", "PairingCheck differs from the EVM ecPairing precompile")
			}
		}
		w.Put(hx.Case{Entry: "bn", Op: 21, Args: hx.L(hx.L(pv...)), Impl: hx.Bool(got), Oracle: oracle, Tags: []string{"pairing-check", "nt"}})
	}
	// identity members at every position of a 2- and 3-pair check whose remaining product is / is not one
	for _, np := range []int{2, 3} {
		for pos := 0; pos < np; pos++ {
			for _, side := range []int{0, 1} {
				for _, restOne := range []bool{true, false} {
					as := make([]*big.Int, np)
					bs := make([]*big.Int, np)
					tot := new(big.Int)
					for j := 0; j < np; j++ {
						as[j], bs[j] = rng.BigBelow(q), new(big.Int).Add(rng.BigBelow(new(big.Int).Sub(q, big.NewInt(1))), big.NewInt(1))
					}
					if side == 0 {
						as[pos] = big.NewInt(0)
					} else {
						bs[pos] = big.NewInt(0)
					}
					last := (pos + 1) % np
					if restOne {
						for j := 0; j < np; j++ {
							if j != last && j != pos {
								tot.Add(tot, new(big.Int).Mul(as[j], bs[j]))
							}
						}
						as[last] = new(big.Int).Mod(new(big.Int).Mul(new(big.Int).Neg(tot), new(big.Int).ModInverse(bs[last], q)), q)
					}
					tot.SetInt64(0)
					var ps, qs []kyber.Point
					var pv []string
					for j := 0; j < np; j++ {
						tot.Add(tot, new(big.Int).Mul(as[j], bs[j]))
						ps = append(ps, g1k(as[j]))
						qs = append(qs, g2how(0, bs[j]))
						pv = append(pv, hx.L(hx.Z(as[j]), hx.L(hx.Zi(0), hx.Z(bs[j]))))
					}
					got := Bn.PairingCheck(ps, qs)
					oracle := "ok"
					if got != (tot.Mod(tot, q).Sign() == 0) {
						oracle = hx.Fail("pairing-check-wrong", "PairingCheck with an identity member is not 'the product of the pairings is one'")
					}
					w.Put(hx.Case{Entry: "bn", Op: 21, Args: hx.L(hx.L(pv...)), Impl: hx.Bool(got), Oracle: oracle, Tags: []string{"pairing-check-identity", "nt"}})
				}
			}
		}
	}
	// GT: exponent reduced modulo the order, incl. 0, q, 2q
	for _, k := range []*big.Int{big.NewInt(0), big.NewInt(1), new(big.Int).Sub(q, big.NewInt(1)), q, new(big.Int).Add(q, big.NewInt(3)), new(big.Int).Lsh(q, 1)} {
		got := PtBytes(bn256.VerifGTExp(gtBase, k))
		want := PtBytes(Bn.GT().Point().Mul(Sc(Bn.G1(), new(big.Int).Mod(k, q), q), nil))
		oracle := "ok"
		if !bytes.Equal(got, want) {
			oracle = hx.Fail("gt-exp-wrong", "g^k in GT differs from g^(k mod q)")
		}
		w.Put(hx.Case{Entry: "bn", Op: 22, Args: hx.L(hx.Z(k)), Impl: hx.B(got), Oracle: oracle, Tags: []string{"gt-exp", "nt"}})
	}
	// programs over point objects with histories (harness/props/pointmachine.go)
	nProg := 60
	if tier == "thorough" {
		nProg = 1500
	}
	genPointMachine(rng, w, Bn.G1(), GrpG1, "G1", q, nProg, "group-law-wrong", "bn", 8)
	genPointMachine(rng, w, Bn.G2(), GrpG2, "G2", q, nProg, "group-law-wrong", "bn", 9)
	genPointMachine(rng, w, Bn.GT(), -1, "GT", q, nProg/6, "group-law-wrong", "-", 0)
	// group elements are values: a copy (Clone) keeps its value when the original is updated in place,
	// and the identity stays the identity after a point obtained from Null() has been used as an
	// accumulator - in G1, G2 and GT
	for it := 0; it < 3; it++ {
		for gi, g := range []kyber.Group{Bn.G1(), Bn.G2(), Bn.GT()} {
			gname := []string{"G1", "G2", "GT"}[gi]
			a := Sc(Bn.G1(), new(big.Int).Add(rng.BigBelow(new(big.Int).Sub(q, big.NewInt(2))), big.NewInt(1)), q)
			b := Sc(Bn.G1(), new(big.Int).Add(rng.BigBelow(new(big.Int).Sub(q, big.NewInt(2))), big.NewInt(1)), q)
			res := hx.Catch(func() string {
				var problems []string
				P := g.Point().Mul(a, nil)
				Q := g.Point().Mul(b, nil)
				before := PtBytes(g.Point().Mul(a, nil))
				cl := P.Clone()
				switch it {
				case 0:
					P.Add(P, Q)
				case 1:
					P.Neg(P)
				default:
					P.Mul(b, P)
				}
				if !bytes.Equal(PtBytes(cl), before) {
					problems = append(problems, "a clone changed when the original was updated in place")
				}
				cl2 := P.Clone()
				after := PtBytes(P)
				cl2.Add(cl2, Q)
				if !bytes.Equal(PtBytes(P), after) {
					problems = append(problems, "the original changed when its clone was updated in place")
				}
				// accumulators started from the identity
				acc1 := g.Point().Null()
				acc1.Add(acc1, Q)
				acc2 := g.Point().Null()
				acc2.Add(acc2, g.Point().Mul(a, nil))
				if !bytes.Equal(PtBytes(acc1), PtBytes(Q)) || !bytes.Equal(PtBytes(acc2), before) {
					problems = append(problems, "identity + x is not x for a second accumulator")
				}
				X := g.Point().Mul(a, nil)
				if !g.Point().Add(X, g.Point().Null()).Equal(X) || !g.Point().Sub(X, X).Equal(g.Point().Null()) {
					problems = append(problems, "after accumulations Null() is no longer the identity")
				}
				return hx.B([]byte(strings.Join(problems, "; ")))
			})
			oracle := "ok"
			if res == hx.P {
				oracle = hx.Fail("group-law-wrong", gname+": panic in clone / identity use: "+hx.LastPanic)
			} else if res != hx.B(nil) {
				oracle = hx.Fail("group-law-wrong", gname+": group elements do not behave as values: "+res)
			}
			w.Put(hx.Case{Entry: "-", Op: 0, Args: hx.L(hx.Zi(gi), hx.Zi(it)), Impl: res, Oracle: oracle, Tags: []string{"values-" + gname, "nt"}})
		}
	}
	return nil
}
