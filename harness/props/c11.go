package props

import (
	"bytes"
	"math/big"
	"strings"

	"github.com/dedis/kyber"
	gbn "github.com/ethereum/go-ethereum/crypto/bn256/google"

	"verif/harness/hx"
)

func init() { Registry["C11"] = genC11 }

// ---- F_p^2 helpers (math/big), to build points of the twist that are NOT in the order-q subgroup

type bigFp2 struct{ im, re *big.Int } // im*i + re

func fpSqrt(a *big.Int) *big.Int { // p = 3 mod 4
	e := new(big.Int).Add(BnP, big.NewInt(1))
	e.Rsh(e, 2)
	r := new(big.Int).Exp(a, e, BnP)
	if new(big.Int).Mod(new(big.Int).Mul(r, r), BnP).Cmp(new(big.Int).Mod(a, BnP)) != 0 {
		return nil
	}
	return r
}

func fp2Mul(a, b bigFp2) bigFp2 {
	re := new(big.Int).Sub(new(big.Int).Mul(a.re, b.re), new(big.Int).Mul(a.im, b.im))
	im := new(big.Int).Add(new(big.Int).Mul(a.re, b.im), new(big.Int).Mul(a.im, b.re))
	return bigFp2{im.Mod(im, BnP), re.Mod(re, BnP)}
}

func fp2Sqrt(a bigFp2) *bigFp2 {
	if a.im.Sign() == 0 {
		if r := fpSqrt(a.re); r != nil {
			return &bigFp2{big.NewInt(0), r}
		}
		if r := fpSqrt(new(big.Int).Mod(new(big.Int).Neg(a.re), BnP)); r != nil {
			return &bigFp2{r, big.NewInt(0)}
		}
		return nil
	}
	norm := new(big.Int).Add(new(big.Int).Mul(a.re, a.re), new(big.Int).Mul(a.im, a.im))
	s := fpSqrt(norm.Mod(norm, BnP))
	if s == nil {
		return nil
	}
	inv2 := new(big.Int).ModInverse(big.NewInt(2), BnP)
	for _, sg := range []*big.Int{s, new(big.Int).Sub(BnP, s)} {
		h := new(big.Int).Mul(new(big.Int).Add(a.re, sg), inv2)
		h.Mod(h, BnP)
		x0 := fpSqrt(h)
		if x0 == nil || x0.Sign() == 0 {
			continue
		}
		x1 := new(big.Int).Mul(a.im, new(big.Int).ModInverse(new(big.Int).Mul(big.NewInt(2), x0), BnP))
		x1.Mod(x1, BnP)
		r := bigFp2{x1, x0}
		if sq := fp2Mul(r, r); sq.im.Cmp(a.im) == 0 && sq.re.Cmp(a.re) == 0 {
			return &r
		}
	}
	return nil
}

var twistBBig = bigFp2{
	mustBig("266929791119991161246907387137283842545076965332900288569378510910307636690"),
	mustBig("19485874751759354771024239261021720505790618469301721065564631296452457478373")}

func be32(x *big.Int) []byte {
	b := x.Bytes()
	out := make([]byte, 32)
	copy(out[32-len(b):], b)
	return out
}

// a random point of the twist curve over F_p^2 (almost surely outside the order-q subgroup)
func twistPointOffSubgroup(rng *hx.Rng) []byte {
	for {
		x := bigFp2{rng.BigBelow(BnP), rng.BigBelow(BnP)}
		x3 := fp2Mul(fp2Mul(x, x), x)
		rhs := bigFp2{new(big.Int).Mod(new(big.Int).Add(x3.im, twistBBig.im), BnP), new(big.Int).Mod(new(big.Int).Add(x3.re, twistBBig.re), BnP)}
		y := fp2Sqrt(rhs)
		if y == nil {
			continue
		}
		out := []byte{1}
		out = append(out, be32(x.im)...)
		out = append(out, be32(x.re)...)
		out = append(out, be32(y.im)...)
		out = append(out, be32(y.re)...)
		return out
	}
}

func unmarshalClass(g kyber.Group, b []byte) string {
	return hx.Catch(func() string {
		p := g.Point()
		if err := p.UnmarshalBinary(append([]byte{}, b...)); err != nil {
			return hx.E
		}
		return hx.B(PtBytes(p))
	})
}

func c11Decode(w *hx.Writer, grp int, b []byte, expect string, tag string) {
	op := 1
	g := Bn.G1()
	if grp == GrpG2 {
		op = 2
		g = Bn.G2()
	}
	impl := unmarshalClass(g, b)
	oracle := "ok"
	switch {
	case impl == hx.P:
		oracle = hx.Fail("decode-panic", "UnmarshalBinary panicked ("+tag+"): "+hx.LastPanic)
	case expect == "roundtrip" && impl != hx.B(b):
		oracle = hx.Fail("roundtrip-broken", "decode(encode(x)) does not re-encode to the same bytes ("+tag+")")
	case expect == "error" && impl != hx.E:
		oracle = hx.Fail("malformed-accepted", "malformed input was decoded without error ("+tag+")")
	}
	w.Put(hx.Case{Entry: "bn", Op: op, Args: hx.L(hx.B(b)), Impl: impl, Oracle: oracle, Tags: []string{tag, "nt"},
		Re: func() string {
			p := g.Point()
			if err := p.UnmarshalBinary(append([]byte{}, b...)); err != nil {
				return hx.E
			}
			return hx.B(PtBytes(p))
		}})
}

func genC11(rng *hx.Rng, tier string, w *hx.Writer) error {
	scale := 1
	if tier == "thorough" {
		scale = 12
	}
	special := []*big.Int{big.NewInt(0), big.NewInt(1), big.NewInt(2), new(big.Int).Sub(BnQ, big.NewInt(1)), new(big.Int).Sub(BnQ, big.NewInt(2))}
	// (1) elements reachable by scalar multiplication and addition: fixed lengths, round trip, injectivity
	seen := map[string]string{}
	for it := 0; it < 40*scale; it++ {
		var k *big.Int
		if it < len(special) {
			k = special[it]
		} else {
			k = rng.BigBelow(BnQ)
		}
		for _, grp := range []int{GrpG1, GrpG2} {
			g := GroupOf(grp)
			pt := Pt(g, k, BnQ)
			if it%3 == 2 { // reach it by addition instead
				a := rng.BigBelow(BnQ)
				b := new(big.Int).Mod(new(big.Int).Sub(k, a), BnQ)
				pt = g.Point().Add(Pt(g, a, BnQ), Pt(g, b, BnQ))
			}
			enc := PtBytes(pt)
			want := 64
			if grp == GrpG2 {
				want = 129
			}
			oracle := "ok"
			if k.Sign() != 0 && len(enc) != want {
				oracle = hx.Fail("encoding-length", "a non-identity element does not have the fixed encoding length")
			}
			key := string(rune(grp)) + string(enc)
			if prev, ok := seen[key]; ok && prev != k.String() {
				oracle = hx.Fail("encoding-not-injective", "two distinct elements have the same encoding")
			}
			seen[key] = k.String()
			op := 4
			if grp == GrpG2 {
				op = 5
			}
			w.Put(hx.Case{Entry: "bn", Op: op, Args: hx.L(hx.Z(k)), Impl: hx.B(enc), Oracle: oracle, Tags: []string{"encode", "nt"}})
			c11Decode(w, grp, enc, "roundtrip", "roundtrip")
			// Equal coincides with equality of encodings
			other := Pt(g, new(big.Int).Mod(new(big.Int).Add(k, big.NewInt(int64(rng.Intn(2)))), BnQ), BnQ)
			if pt.Equal(other) != bytes.Equal(enc, PtBytes(other)) {
				w.Put(hx.Case{Entry: "-", Op: 0, Args: hx.L(hx.Z(k)), Impl: "z0", Oracle: hx.Fail("equal-vs-encoding", "Equal differs from equality of encodings"), Tags: []string{"equal"}})
			}
		}
	}
	// (2) mutation stream around valid encodings
	for it := 0; it < 25*scale; it++ {
		for _, grp := range []int{GrpG1, GrpG2} {
			g := GroupOf(grp)
			k := new(big.Int).Add(rng.BigBelow(new(big.Int).Sub(BnQ, big.NewInt(1))), big.NewInt(1))
			enc := PtBytes(Pt(g, k, BnQ))
			size := len(enc)
			off := 0
			if grp == GrpG2 {
				off = 1
			}
			// every length 0 .. 2*size (prefix of enc, then padded): shorter than size must fail, longer is accepted as its prefix
			if it < 2 {
				for l := 0; l <= 2*size; l++ {
					var b []byte
					if l <= size {
						b = append([]byte{}, enc[:l]...)
					} else {
						b = append(append([]byte{}, enc...), rng.Bytes(l-size)...)
					}
					exp := "error"
					if l >= size {
						exp = ""
					}
					if grp == GrpG2 && l >= 1 && b[0] == 0 {
						exp = ""
					}
					c11Decode(w, grp, b, exp, "length-sweep")
				}
			}
			// single bit flips in the coordinates: off the curve
			for j := 0; j < 6; j++ {
				b := append([]byte{}, enc...)
				pos := off + rng.Intn(size-off)
				b[pos] ^= 1 << uint(rng.Intn(8))
				// (the chance that a flipped coordinate lands on the curve again is negligible; a flip may
				// make the coordinate >= p, which the decoder reduces -- still off the curve)
				c11Decode(w, grp, b, "error", "bitflip")
			}
			// swapped coordinates
			{
				b := append([]byte{}, enc...)
				half := (size - off) / 2
				copy(b[off:], enc[off+half:])
				copy(b[off+half:], enc[off:off+half])
				c11Decode(w, grp, b, "error", "coordinates-swapped")
			}
			// unreduced coordinate: same point, non-canonical bytes (accepted; must re-encode canonically)
			if nb := addP(enc, off); nb != nil {
				c11Decode(w, grp, nb, "", "coordinate-plus-p")
			}
			// negated y: the other point with this x (valid)
			{
				b := append([]byte{}, enc...)
				if grp == GrpG1 {
					y := new(big.Int).SetBytes(enc[32:64])
					copy(b[32:], be32(new(big.Int).Sub(BnP, y)))
					c11Decode(w, grp, b, "roundtrip", "negated-y")
				}
			}
			// G2 prefix byte
			if grp == GrpG2 {
				for _, pb := range []byte{0, 2, 3, 0x80, 0xff} {
					b := append([]byte{}, enc...)
					b[0] = pb
					exp := "error"
					if pb == 0 {
						exp = ""
					}
					c11Decode(w, grp, b, exp, "g2-prefix-byte")
				}
			}
		}
		// points of the twist outside the prime-order subgroup
		c11Decode(w, GrpG2, twistPointOffSubgroup(rng), "error", "g2-off-subgroup")
		// random bytes
		c11Decode(w, GrpG1, rng.Bytes(64), "error", "random-bytes")
		c11Decode(w, GrpG2, append([]byte{1}, rng.Bytes(128)...), "error", "random-bytes")
		c11Decode(w, GrpG1, rng.Bytes(rng.Intn(70)), "", "random-length")
		c11Decode(w, GrpG2, rng.Bytes(rng.Intn(140)), "", "random-length")
	}
	// decoding into a point that already holds another element must overwrite it - whatever way the
	// receiver came to its value (decoded, computed in Jacobian form, a sum, a negation), and also when
	// what is decoded is the identity; Null() on a used point must give the identity
	for it := 0; it < 4*scale; it++ {
		for _, grp := range []int{GrpG1, GrpG2} {
			g := GroupOf(grp)
			for variant := 0; variant < 5; variant++ {
				ka := new(big.Int).Add(rng.BigBelow(new(big.Int).Sub(BnQ, big.NewInt(2))), big.NewInt(2))
				kb := new(big.Int).Add(rng.BigBelow(new(big.Int).Sub(BnQ, big.NewInt(1))), big.NewInt(1))
				ident := (it+variant)%2 == 1
				if ident {
					kb = big.NewInt(0)
				}
				encA := PtBytes(Pt(g, ka, BnQ))
				encB := PtBytes(Pt(g, kb, BnQ))
				tag := []string{"decoded", "computed", "sum", "negated", "null"}[variant]
				// an affine receiver (decoded, or the generator) used as the destination of an in-place sum,
				// then encoded, cloned and decoded again
				if variant == 0 {
					kc := new(big.Int).Add(rng.BigBelow(new(big.Int).Sub(BnQ, big.NewInt(2))), big.NewInt(1))
					wantSum := PtBytes(Pt(g, new(big.Int).Mod(new(big.Int).Add(ka, kc), BnQ), BnQ))
					res := hx.Catch(func() string {
						p := g.Point()
						if (it+grp)%2 == 0 {
							if err := p.UnmarshalBinary(encA); err != nil {
								return hx.E
							}
						} else {
							p = g.Point().Base()
							wantSum = PtBytes(Pt(g, new(big.Int).Mod(new(big.Int).Add(big.NewInt(1), kc), BnQ), BnQ))
						}
						p.Add(p, g.Point().Mul(Sc(g, kc, BnQ), nil))
						enc := PtBytes(p)
						if !bytes.Equal(enc, wantSum) {
							return "z1"
						}
						q2 := g.Point()
						if err := q2.UnmarshalBinary(append([]byte{}, enc...)); err != nil || !q2.Equal(p) {
							return "z2"
						}
						if !p.Clone().Equal(p) {
							return "z3"
						}
						d := g.Point().Set(p)
						d.Add(d, d)
						if !bytes.Equal(PtBytes(d), PtBytes(g.Point().Add(q2, q2))) {
							return "z4"
						}
						return "z0"
					})
					o := "ok"
					if res != "z0" {
						o = hx.Fail("roundtrip-broken", "an affine receiver used as the destination of an in-place sum: its encoding is not that of the sum / does not decode / differs from its clone ("+res+")")
					}
					w.Put(hx.Case{Entry: "-", Op: 0, Args: hx.L(hx.Zi(grp), hx.Z(ka), hx.Z(kc)), Impl: res, Oracle: o, Tags: []string{"in-place-sum-then-encode", "nt"}})
				}
				impl := hx.Catch(func() string {
					var p kyber.Point
					switch variant {
					case 0:
						p = g.Point()
						if err := p.UnmarshalBinary(encA); err != nil {
							return hx.E
						}
					case 1:
						p = g.Point().Mul(Sc(g, ka, BnQ), nil)
					case 2:
						p = g.Point().Add(g.Point().Mul(Sc(g, ka, BnQ), nil), g.Point().Base())
					case 3:
						p = g.Point().Neg(g.Point().Mul(Sc(g, ka, BnQ), nil))
					default:
						p = g.Point().Mul(Sc(g, ka, BnQ), nil)
						if ident {
							p.Null()
							if !p.Equal(g.Point().Null()) {
								return "z1"
							}
							return hx.B(PtBytes(p))
						}
					}
					if err := p.UnmarshalBinary(append([]byte{}, encB...)); err != nil {
						return hx.E
					}
					if !p.Equal(Pt(g, kb, BnQ)) {
						return "z1" // decoded without an error but not equal to the element
					}
					return hx.B(PtBytes(p))
				})
				oracle := "ok"
				if impl != hx.B(encB) {
					oracle = hx.Fail("decode-into-used-receiver", "decoding into (or Null() on) a point that already held another element ("+tag+") does not yield the decoded element")
				}
				op := 1
				if grp == GrpG2 {
					op = 2
				}
				tags := []string{"receiver-reuse", "receiver-" + tag, "nt"}
				if ident {
					tags = append(tags, "identity")
				}
				w.Put(hx.Case{Entry: "bn", Op: op, Args: hx.L(hx.B(encB)), Impl: impl, Oracle: oracle, Tags: tags})
			}
		}
		{
			gA := PtBytes(Bn.GT().Point().Mul(Sc(Bn.G1(), rng.BigBelow(BnQ), BnQ), nil))
			gB := PtBytes(Bn.GT().Point().Mul(Sc(Bn.G1(), rng.BigBelow(BnQ), BnQ), nil))
			impl := hx.Catch(func() string {
				p := Bn.GT().Point()
				if p.UnmarshalBinary(gA) != nil || p.UnmarshalBinary(gB) != nil {
					return hx.E
				}
				return hx.B(PtBytes(p))
			})
			oracle := "ok"
			if impl != hx.B(gB) {
				oracle = hx.Fail("decode-into-used-receiver", "decoding a GT element into a point that already held another element does not yield the decoded element")
			}
			w.Put(hx.Case{Entry: "-", Op: 0, Args: hx.L(hx.Zi(it)), Impl: "z0", Oracle: oracle, Tags: []string{"receiver-reuse-gt", "nt"}})
		}
	}
	// one coordinate zero (or a multiple of p), the other not: never on the curve
	for it := 0; it < 6*scale; it++ {
		k := new(big.Int).Add(rng.BigBelow(new(big.Int).Sub(BnQ, big.NewInt(1))), big.NewInt(1))
		enc := PtBytes(Pt(Bn.G1(), k, BnQ))
		zx := append(make([]byte, 32), enc[32:]...)
		zy := append(append([]byte{}, enc[:32]...), make([]byte, 32)...)
		c11Decode(w, GrpG1, zx, "error", "g1-x-zero")
		c11Decode(w, GrpG1, zy, "error", "g1-y-zero")
		c11Decode(w, GrpG1, append(be32(BnP), enc[32:]...), "error", "g1-x-equals-p")
		idf := make([]byte, 64) // the identity encoding with one bit set
		idf[rng.Intn(64)] ^= 1 << uint(rng.Intn(8))
		c11Decode(w, GrpG1, idf, "error", "g1-identity-bitflip")
		enc2 := PtBytes(Pt(Bn.G2(), k, BnQ))
		g2zx := append([]byte{1}, append(make([]byte, 64), enc2[65:]...)...)
		g2zy := append(append([]byte{}, enc2[:65]...), make([]byte, 64)...)
		c11Decode(w, GrpG2, g2zx, "error", "g2-x-zero")
		c11Decode(w, GrpG2, g2zy, "error", "g2-y-zero")
		half := append(append([]byte{}, enc2[:33]...), make([]byte, 32)...) // x = (im, 0)
		half = append(half, enc2[65:]...)
		c11Decode(w, GrpG2, half, "error", "g2-half-coordinate-zero")
		id2 := append([]byte{1}, make([]byte, 128)...)
		id2[1+rng.Intn(128)] ^= 1 << uint(rng.Intn(8))
		c11Decode(w, GrpG2, id2, "error", "g2-zero-coordinates-bitflip")
	}
	// identities and all-zero inputs
	c11Decode(w, GrpG1, make([]byte, 64), "roundtrip", "g1-identity")
	c11Decode(w, GrpG1, make([]byte, 63), "error", "g1-identity-short")
	c11Decode(w, GrpG2, []byte{0}, "roundtrip", "g2-identity")
	c11Decode(w, GrpG2, []byte{}, "error", "empty")
	c11Decode(w, GrpG1, []byte{}, "error", "empty")
	c11Decode(w, GrpG2, append([]byte{1}, make([]byte, 128)...), "", "g2-all-zero-coordinates")
	// coordinates equal to p (reduce to zero)
	{
		b := append(be32(BnP), be32(BnP)...)
		c11Decode(w, GrpG1, b, "", "g1-coordinates-p")
	}
	// cross-check acceptance of canonical encodings against the big-integer implementation of go-ethereum
	for it := 0; it < 10*scale; it++ {
		k := rng.BigBelow(BnQ)
		enc := PtBytes(Pt(Bn.G1(), k, BnQ))
		ref := new(gbn.G1).ScalarBaseMult(k).Marshal()
		oracle := "ok"
		if !bytes.Equal(enc, ref) {
			oracle = hx.Fail("differs-from-reference", "G1 encoding differs from the independent big-integer implementation")
		}
		w.Put(hx.Case{Entry: "bn", Op: 4, Args: hx.L(hx.Z(k)), Impl: hx.B(enc), Oracle: oracle, Tags: []string{"reference-g1", "nt"}})
		enc2 := PtBytes(Pt(Bn.G2(), k, BnQ))
		ref2 := new(gbn.G2).ScalarBaseMult(k).Marshal()
		oracle2 := "ok"
		if !bytes.Equal(enc2[1:], ref2) {
			oracle2 = hx.Fail("differs-from-reference", "G2 encoding differs from the independent big-integer implementation")
		}
		w.Put(hx.Case{Entry: "bn", Op: 5, Args: hx.L(hx.Z(k)), Impl: hx.B(enc2), Oracle: oracle2, Tags: []string{"reference-g2", "nt"}})
	}
	// scalars
	for it := 0; it < 30*scale; it++ {
		var b []byte
		exp := ""
		switch rng.Intn(7) {
		case 0:
			b = be32(new(big.Int).Sub(BnQ, big.NewInt(1)))
			exp = "roundtrip"
		case 1:
			b = be32(BnQ)
			exp = "error"
		case 2:
			b = be32(new(big.Int).Add(BnQ, big.NewInt(int64(1+rng.Intn(5)))))
			exp = "error"
		case 3:
			b = rng.Bytes(rng.Intn(40))
			if len(b) != 32 {
				exp = "error"
			}
		case 4:
			b = bytes.Repeat([]byte{0xff}, 32)
			exp = "error"
		default:
			b = be32(rng.BigBelow(BnQ))
			exp = "roundtrip"
		}
		impl := hx.Catch(func() string {
			s := Bn.G1().Scalar()
			if err := s.UnmarshalBinary(append([]byte{}, b...)); err != nil {
				return hx.E
			}
			o, _ := s.MarshalBinary()
			return hx.B(o)
		})
		oracle := "ok"
		switch {
		case impl == hx.P:
			oracle = hx.Fail("decode-panic", "scalar UnmarshalBinary panicked")
		case exp == "roundtrip" && impl != hx.B(b):
			oracle = hx.Fail("roundtrip-broken", "scalar does not round-trip")
		case exp == "error" && impl != hx.E:
			oracle = hx.Fail("malformed-accepted", "out-of-range or wrong-size scalar accepted")
		}
		w.Put(hx.Case{Entry: "bn", Op: 3, Args: hx.L(hx.B(b)), Impl: impl, Oracle: oracle, Tags: []string{"scalar", "nt"}})
	}
	// GT: round trip and length
	for it := 0; it < 4*scale; it++ {
		k := rng.BigBelow(BnQ)
		gt := Bn.GT().Point().Mul(Sc(Bn.G1(), k, BnQ), nil)
		enc := PtBytes(gt)
		impl := unmarshalClass(Bn.GT(), enc)
		oracle := "ok"
		if len(enc) != 384 {
			oracle = hx.Fail("encoding-length", "GT encoding is not 384 bytes")
		} else if impl != hx.B(enc) {
			oracle = hx.Fail("roundtrip-broken", "GT element does not round-trip")
		}
		short := unmarshalClass(Bn.GT(), enc[:383])
		if short != hx.E {
			oracle = hx.Fail("malformed-accepted", "short GT input accepted")
		}
		w.Put(hx.Case{Entry: "-", Op: 0, Args: hx.L(hx.Z(k)), Impl: hx.Zi(len(enc)), Oracle: oracle, Tags: []string{"gt", "nt"}})
		// the same through the model's decoder (Models/GtCodec.v), with trailing bytes as well
		c11DecodeGT(w, enc, "gt-valid")
		c11DecodeGT(w, append(append([]byte{}, enc...), rng.Bytes(1+rng.Intn(40))...), "gt-trailing")
	}
	// an encoding handed out belongs to the caller: writing into it (a fuzzer flipping bits in place, a
	// buffer reused for the next message) changes neither the element nor what a later MarshalBinary
	// of the same or of an equal element returns - for the identity and ordinary elements of G1, G2, GT
	// and for scalars
	for gi, g := range []kyber.Group{Bn.G1(), Bn.G2(), Bn.GT()} {
		for _, kv := range []*big.Int{big.NewInt(0), big.NewInt(1), rng.BigBelow(BnQ)} {
			var problems []string
			res := hx.Catch(func() string {
				mk := func() kyber.Point {
					if kv.Sign() == 0 {
						return g.Point().Null()
					}
					return g.Point().Mul(Sc(Bn.G1(), kv, BnQ), nil)
				}
				P := mk()
				e1 := PtBytes(P)
				ref := append([]byte{}, e1...)
				for i := range e1 {
					e1[i] ^= 0xA5
				}
				if !bytes.Equal(PtBytes(P), ref) {
					problems = append(problems, "writing into a returned encoding changed the element's next encoding")
				}
				if !bytes.Equal(PtBytes(mk()), ref) {
					problems = append(problems, "writing into a returned encoding changed the encoding of an equal element computed afterwards")
				}
				Q := g.Point()
				if err := Q.UnmarshalBinary(append([]byte{}, ref...)); err != nil || !Q.Equal(mk()) {
					problems = append(problems, "the element's own encoding no longer decodes to it")
				}
				return hx.B([]byte(strings.Join(problems, "; ")))
			})
			oracle := "ok"
			name := []string{"G1", "G2", "GT"}[gi]
			if res == hx.P {
				oracle = hx.Fail("roundtrip-broken", name+": panic after a returned encoding was written into: "+hx.LastPanic)
			} else if len(problems) > 0 {
				oracle = hx.Fail("roundtrip-broken", name+": "+strings.Join(problems, "; "))
			}
			w.Put(hx.Case{Entry: "-", Op: 0, Args: hx.L(hx.Zi(gi), hx.Z(kv)), Impl: res, Oracle: oracle, Tags: []string{"returned-encoding-owned-by-caller", "nt"}})
		}
	}
	for _, kv := range []*big.Int{big.NewInt(0), big.NewInt(1), rng.BigBelow(BnQ)} {
		s1 := Sc(Bn.G1(), kv, BnQ)
		b1, _ := s1.MarshalBinary()
		ref := append([]byte{}, b1...)
		for i := range b1 {
			b1[i] ^= 0xA5
		}
		b2, _ := s1.MarshalBinary()
		b3, _ := Sc(Bn.G1(), kv, BnQ).MarshalBinary()
		oracle := "ok"
		if !bytes.Equal(b2, ref) || !bytes.Equal(b3, ref) {
			oracle = hx.Fail("roundtrip-broken", "scalar: writing into a returned encoding changed a later encoding")
		}
		w.Put(hx.Case{Entry: "-", Op: 0, Args: hx.L(hx.Z(kv)), Impl: hx.B(b2), Oracle: oracle, Tags: []string{"returned-encoding-owned-by-caller", "nt"}})
	}
	// GT: arbitrary input - every length class, words at and beyond the field prime, bit flips of a
	// valid encoding (the decoder makes no membership test: what it must do is refuse short input and
	// deliver, for anything else, the twelve words reduced modulo p)
	gtBase := PtBytes(Bn.GT().Point().Mul(Sc(Bn.G1(), rng.BigBelow(BnQ), BnQ), nil))
	for _, l := range []int{0, 1, 31, 32, 33, 191, 192, 383, 384, 385, 416, 767, 768} {
		c11DecodeGT(w, rng.Bytes(l), "gt-length")
	}
	pm1 := new(big.Int).Sub(BnP, big.NewInt(1)).Bytes()
	pp1 := new(big.Int).Add(BnP, big.NewInt(1)).Bytes()
	for it := 0; it < 12*scale; it++ {
		b := append([]byte{}, gtBase...)
		wd := rng.Intn(12)
		switch it % 6 {
		case 0:
			copy(b[32*wd:], BnP.Bytes()) // the word p itself: reduces to 0
		case 1:
			copy(b[32*wd:], pm1)
		case 2:
			copy(b[32*wd:], pp1)
		case 3:
			for i := 0; i < 32; i++ {
				b[32*wd+i] = 0xff
			}
		case 4:
			b[rng.Intn(len(b))] ^= 1 << uint(rng.Intn(8))
		default:
			b = rng.Bytes(384)
		}
		c11DecodeGT(w, b, "gt-mutated")
	}
	return nil
}

// GT decoding against Models/GtCodec.v; the judge reduces the twelve words itself
func c11DecodeGT(w *hx.Writer, b []byte, tag string) {
	impl := unmarshalClass(Bn.GT(), b)
	oracle := "ok"
	switch {
	case impl == hx.P:
		oracle = hx.Fail("decode-panic", "GT UnmarshalBinary panicked ("+tag+"): "+hx.LastPanic)
	case len(b) < 384 && impl != hx.E:
		oracle = hx.Fail("malformed-accepted", "GT input shorter than 384 bytes was decoded without error")
	case len(b) >= 384:
		want := make([]byte, 384)
		for i := 0; i < 12; i++ {
			v := new(big.Int).Mod(new(big.Int).SetBytes(b[32*i:32*i+32]), BnP)
			v.FillBytes(want[32*i : 32*i+32])
		}
		if impl != hx.B(want) {
			oracle = hx.Fail("roundtrip-broken", "a 384-byte GT input does not decode to its twelve words modulo p ("+tag+")")
		}
	}
	w.Put(hx.Case{Entry: "gt", Op: 1, Args: hx.L(hx.B(b)), Impl: impl, Oracle: oracle, Tags: []string{tag, "nt"},
		Re: func() string { return unmarshalClass(Bn.GT(), b) }})
}
