package props

import (
	"bytes"
	"context"
	"fmt"
	"math/big"
	"net/http"
	"net/http/httptest"
	"strings"
	"sync"
	"time"

	"github.com/DOSNetwork/core/dosnode"
	"github.com/DOSNetwork/core/onchain"
	"github.com/DOSNetwork/core/p2p"
	"github.com/DOSNetwork/core/share"
	vss "github.com/DOSNetwork/core/share/vss/pedersen"
	"github.com/golang/protobuf/proto"

	"verif/harness/doubles"
	"verif/harness/hx"
)

func init() { Registry["C07"] = genC07 }

var two256 = new(big.Int).Lsh(big.NewInt(1), 256)

// last-randomness values the property singles out
func c07Rand(rng *hx.Rng) *big.Int {
	switch rng.Intn(10) {
	case 0:
		return big.NewInt(0)
	case 1:
		return new(big.Int).SetUint64(rng.U64()) // < 2^64
	case 2:
		return new(big.Int).Sub(two256, big.NewInt(1))
	case 3: // k leading zero bytes, k = 1..31
		k := 1 + rng.Intn(31)
		b := rng.Bytes(32 - k)
		b[0] |= 1
		return new(big.Int).SetBytes(b)
	case 4: // just above / below 2^64
		return new(big.Int).Add(new(big.Int).Lsh(big.NewInt(1), 64), big.NewInt(int64(rng.Intn(3))-1))
	case 5: // low 64 bits zero
		return new(big.Int).Lsh(new(big.Int).SetBytes(rng.Bytes(8)), 64)
	case 6: // wider than 256 bits
		return new(big.Int).SetBytes(append([]byte{1 + byte(rng.Intn(255))}, rng.Bytes(32+rng.Intn(3))...))
	}
	b := rng.Bytes(32)
	b[0] |= 0x80
	return new(big.Int).SetBytes(b)
}

func c07Ids(rng *hx.Rng, n int) [][]byte {
	ids := make([][]byte, n)
	for i := range ids {
		ids[i] = rng.Bytes(20)
		ids[i][0] = byte(i + 1)
	}
	return ids
}

func idsVal(ids [][]byte) string {
	s := make([]string, len(ids))
	for i, a := range ids {
		s[i] = hx.B(a)
	}
	return hx.L(s...)
}

func readAll(c chan []byte, d time.Duration) ([]byte, bool) {
	select {
	case v, ok := <-c:
		return v, ok
	case <-time.After(d):
		return nil, false
	}
}

var c07Log = doubles.NopLogger{}

// ---- documents and selectors from a small grammar

func genJSON(rng *hx.Rng, depth int) string {
	switch {
	case depth <= 0 || rng.Chance(30):
		switch rng.Intn(5) {
		case 0:
			return fmt.Sprintf("%d", rng.Intn(100000))
		case 1:
			return fmt.Sprintf("%d.%d", rng.Intn(100), rng.Intn(1000))
		case 2:
			return "true"
		case 3:
			return "null"
		}
		return fmt.Sprintf("%q", fmt.Sprintf("s%d", rng.Intn(1000)))
	case rng.Chance(50):
		n := 1 + rng.Intn(9)
		parts := make([]string, n)
		keys := []string{"a", "b", "c", "price", "name", "x", "y", "items", "id", "k1", "k2", "k3", "k4", "k5"}
		pm := rng.Perm(len(keys))
		for i := 0; i < n; i++ {
			parts[i] = fmt.Sprintf("%q:%s", keys[pm[i]], genJSON(rng, depth-1))
		}
		return "{" + strings.Join(parts, ",") + "}"
	default:
		n := rng.Intn(5)
		parts := make([]string, n)
		for i := range parts {
			parts[i] = genJSON(rng, depth-1)
		}
		return "[" + strings.Join(parts, ",") + "]"
	}
}

var jsonSelectors = []string{"$", "$.a", "$.b.c", "$..price", "$..name", "$.items[*]", "$.items[0]", "$.*", "$..*", "$.a.*",
	"$.items[*].id", "$..x", "$.k1", "$['a','b']", "$.items[1:3]", "$..id"}

func genXML(rng *hx.Rng, depth int) string {
	tags := []string{"item", "name", "price", "a", "b"}
	if depth <= 0 {
		return fmt.Sprintf("v%d", rng.Intn(100))
	}
	n := 1 + rng.Intn(4)
	var sb strings.Builder
	for i := 0; i < n; i++ {
		t := tags[rng.Intn(len(tags))]
		attr := ""
		if rng.Chance(30) {
			attr = fmt.Sprintf(" id=\"%d\"", rng.Intn(9))
		}
		sb.WriteString("<" + t + attr + ">" + genXML(rng, depth-1) + "</" + t + ">")
	}
	return sb.String()
}

var xmlSelectors = []string{"/root", "//item", "//name", "/root/item", "//item/name", "//price", "//a", "//*[@id]", "/root/*", "//item[1]"}

func parseOnce(doc []byte, sel string) string {
	return hx.Catch(func() string {
		b, err := dosnode.VerifDataParse(append([]byte{}, doc...), sel)
		if err != nil {
			return hx.E
		}
		return hx.B(b)
	})
}

func genC07(rng *hx.Rng, tier string, w *hx.Writer) error {
	scale := 1
	if tier == "thorough" {
		scale = 15
	}
	// (1) padOrTrim: a history of calls with lengths going up and down
	for it := 0; it < 300*scale; it++ {
		l := rng.Intn(40)
		if rng.Chance(30) {
			l = 32
		}
		if rng.Chance(15) {
			l = 33 + rng.Intn(4)
		}
		bb := rng.Bytes(l)
		size := 32
		if rng.Chance(10) {
			size = rng.Intn(40)
		}
		in := append([]byte{}, bb...)
		impl := hx.Catch(func() string { return hx.B(dosnode.VerifPadOrTrim(bb, size)) })
		oracle := "ok"
		want := make([]byte, size)
		if l >= size {
			copy(want, in[l-size:])
		} else {
			copy(want[size-l:], in)
		}
		if impl != hx.B(want) {
			oracle = hx.Fail("pad-wrong", "padOrTrim is not left-padding / keeping the low-order bytes")
		}
		if !bytes.Equal(in, bb) {
			oracle = hx.Fail("pad-mutates-input", "padOrTrim modified its argument")
		}
		w.Put(hx.Case{Entry: "stages", Op: 1, Args: hx.L(hx.B(in), hx.Zi(size)), Impl: impl, Oracle: oracle, Tags: []string{"pad", "nt"}})
	}
	// (2) submitter choice, evaluated twice on the same event object and by 8 goroutines
	for it := 0; it < 120*scale; it++ {
		n := 1 + rng.Intn(21)
		ids := c07Ids(rng, n)
		r := c07Rand(rng)
		r0 := new(big.Int).Set(r)
		// the chain the member is connected to: none, or one whose views answer "pending" /
		// "not in the group" for every id (a member's view of the registry may lag; the
		// submitter is a function of the event alone)
		var chain onchain.ProxyAdapter
		if it%3 != 0 {
			chain = &doubles.FakeChain{PendingAll: it%3 == 1}
		}
		eval := func() string {
			return hx.Catch(func() string {
				ctx, cancel := context.WithTimeout(context.Background(), 2*time.Second)
				defer cancel()
				outs, errc := dosnode.VerifChoseSubmitter(ctx, nil, chain, r, ids, 2, c07Log)
				a, ok1 := readAll(outs[0], 2*time.Second)
				b, ok2 := readAll(outs[1], 2*time.Second)
				for range errc {
				}
				if !ok1 || !ok2 || !bytes.Equal(a, b) {
					return hx.E
				}
				return hx.B(a)
			})
		}
		impl := eval()
		second := eval()
		var wg sync.WaitGroup
		conc := make([]string, 8)
		for g := 0; g < 8; g++ {
			wg.Add(1)
			go func(g int) { defer wg.Done(); conc[g] = eval() }(g)
		}
		wg.Wait()
		idx := new(big.Int).Mod(new(big.Int).And(r0, new(big.Int).SetUint64(^uint64(0))), big.NewInt(int64(n))).Int64()
		oracle := "ok"
		if impl != hx.B(ids[idx]) {
			oracle = hx.Fail("submitter-wrong", "the submitter is not ids[(lastRand mod 2^64) mod n]")
		}
		if second != impl {
			oracle = hx.Fail("submitter-not-repeatable", "a second evaluation of the same event chose another submitter")
		}
		for _, c := range conc {
			if c != impl {
				oracle = hx.Fail("submitter-not-repeatable", "concurrent evaluations of the same event disagree")
			}
		}
		if r.Cmp(r0) != 0 {
			oracle = hx.Fail("event-mutated", "choosing the submitter modified the event's last randomness")
		}
		w.Put(hx.Case{Entry: "stages", Op: 2, Args: hx.L(hx.Z(r0), idsVal(ids)), Impl: impl, Oracle: oracle, Tags: []string{"submitter", "nt"}})
	}
	// (3),(4) content stages
	for it := 0; it < 200*scale; it++ {
		r := c07Rand(rng)
		sub := rng.Bytes(20)
		run := func(mk func(ctx context.Context, sc chan []byte) chan []byte) string {
			return hx.Catch(func() string {
				ctx, cancel := context.WithTimeout(context.Background(), 2*time.Second)
				defer cancel()
				sc := make(chan []byte, 1)
				sc <- sub
				out := mk(ctx, sc)
				v, ok := readAll(out, 2*time.Second)
				if !ok {
					return hx.E
				}
				return hx.B(v)
			})
		}
		impl := run(func(ctx context.Context, sc chan []byte) chan []byte {
			return dosnode.VerifGenSysRandom(ctx, sc, r.Bytes(), c07Log)
		})
		want := make([]byte, 32)
		rb := r.Bytes()
		if len(rb) >= 32 {
			copy(want, rb[len(rb)-32:])
		} else {
			copy(want[32-len(rb):], rb)
		}
		oracle := "ok"
		if impl != hx.B(append(want, sub...)) {
			oracle = hx.Fail("sys-content-wrong", "system-randomness content is not pad32(lastRand) || submitter")
		}
		w.Put(hx.Case{Entry: "stages", Op: 3, Args: hx.L(hx.Z(r), hx.B(sub)), Impl: impl, Oracle: oracle, Tags: []string{"sys-content", "nt"}})

		id := c07Rand(rng)
		seed := c07Rand(rng)
		if rng.Chance(20) {
			id = big.NewInt(0)
		}
		impl2 := run(func(ctx context.Context, sc chan []byte) chan []byte {
			return dosnode.VerifGenUserRandom(ctx, sc, id.Bytes(), r.Bytes(), seed.Bytes(), c07Log)
		})
		want2 := append(append(append(append([]byte{}, id.Bytes()...), r.Bytes()...), seed.Bytes()...), sub...)
		oracle2 := "ok"
		if impl2 != hx.B(want2) {
			oracle2 = hx.Fail("user-content-wrong", "user-randomness content is not requestId || lastRand || seed || submitter")
		}
		w.Put(hx.Case{Entry: "stages", Op: 4, Args: hx.L(hx.Z(id), hx.Z(r), hx.Z(seed), hx.B(sub)), Impl: impl2, Oracle: oracle2, Tags: []string{"user-content", "nt"}})
	}
	// (5) selector evaluation: deterministic under repetition and concurrency; query content = result || submitter
	var docMu sync.Mutex
	docs := map[string][]byte{}
	cuts := map[string]int{}
	srv := httptest.NewServer(http.HandlerFunc(func(rw http.ResponseWriter, rq *http.Request) {
		docMu.Lock()
		d := docs[rq.URL.Path]
		cut, isCut := cuts[rq.URL.Path]
		docMu.Unlock()
		if isCut {
			// the transfer breaks after `cut` bytes of a body announced with its full length
			if hj, ok := rw.(http.Hijacker); ok {
				if conn, buf, err := hj.Hijack(); err == nil {
					fmt.Fprintf(buf, "HTTP/1.1 200 OK\r\nContent-Type: text/plain\r\nContent-Length: %d\r\n\r\n", len(d))
					buf.Write(d[:cut])
					buf.Flush()
					conn.Close()
					return
				}
			}
		}
		rw.Write(d)
	}))
	defer srv.Close()
	for it := 0; it < 60*scale; it++ {
		var doc []byte
		var sel string
		kind := "json"
		if rng.Chance(35) {
			kind = "xml"
			doc = []byte("<root>" + genXML(rng, 1+rng.Intn(3)) + "</root>")
			sel = xmlSelectors[rng.Intn(len(xmlSelectors))]
		} else {
			doc = []byte(`{"a":` + genJSON(rng, 3) + `,"b":` + genJSON(rng, 2) + `,"items":[` + genJSON(rng, 2) + "," + genJSON(rng, 2) + "," + genJSON(rng, 2) + `]}`)
			sel = jsonSelectors[rng.Intn(len(jsonSelectors))]
		}
		if rng.Chance(8) {
			sel = ""
		}
		first := parseOnce(doc, sel)
		oracle := "ok"
		for k := 0; k < 5; k++ {
			if parseOnce(doc, sel) != first {
				oracle = hx.Fail("extract-nondeterministic", "repeated evaluation of a selector on the same document gave different bytes")
			}
		}
		var wg sync.WaitGroup
		conc := make([]string, 8)
		for g := 0; g < 8; g++ {
			wg.Add(1)
			go func(g int) { defer wg.Done(); conc[g] = parseOnce(doc, sel) }(g)
		}
		wg.Wait()
		for _, c := range conc {
			if c != first {
				oracle = hx.Fail("extract-nondeterministic", "concurrent evaluation of a selector on the same document gave different bytes")
			}
		}
		if first == hx.P {
			oracle = hx.Fail("extract-panic", "the extractor panicked: "+hx.LastPanic)
		}
		w.Put(hx.Case{Entry: "-", Op: 0, Args: hx.L(hx.B(doc), hx.B([]byte(sel))), Impl: first, Oracle: oracle, Tags: []string{"extract-" + kind, "nt"}})
		if first == hx.E || first == hx.P {
			continue
		}
		// the stage: fetch through HTTP, parse, append the submitter
		path := fmt.Sprintf("/d%d", it)
		docMu.Lock()
		docs[path] = doc
		docMu.Unlock()
		sub := rng.Bytes(20)
		impl := hx.Catch(func() string {
			ctx, cancel := context.WithTimeout(context.Background(), 5*time.Second)
			defer cancel()
			sc := make(chan []byte, 1)
			sc <- sub
			out, errc := dosnode.VerifGenQueryResult(ctx, sc, srv.URL+path, sel, c07Log)
			v, ok := readAll(out, 5*time.Second)
			go func() {
				for range errc {
				}
			}()
			if !ok {
				return hx.E
			}
			return hx.B(v)
		})
		res := first[1:]
		oracle2 := "ok"
		if impl != first+hx.B(sub)[1:] {
			oracle2 = hx.Fail("query-content-wrong", "query content is not parsed-document || submitter")
		}
		w.Put(hx.Case{Entry: "stages", Op: 5, Args: hx.L("b"+res, hx.B(sub)), Impl: impl, Oracle: oracle2, Tags: []string{"query-content", "nt"}})
		// the same request while the transfer of the document breaks part-way (one member's connection
		// drops): that member must sign the same string as everybody else or nothing - never a prefix
		if len(doc) > 1 && it%2 == 0 {
			cpath := fmt.Sprintf("/cut%d", it)
			cut := []int{0, 1, len(doc) / 2, len(doc) - 1}[rng.Intn(4)]
			docMu.Lock()
			docs[cpath] = doc
			cuts[cpath] = cut
			docMu.Unlock()
			csel := sel
			if it%4 == 0 {
				csel = ""
			}
			whole := parseOnce(doc, csel)
			implC := hx.Catch(func() string {
				ctx, cancel := context.WithTimeout(context.Background(), 5*time.Second)
				defer cancel()
				sc := make(chan []byte, 1)
				sc <- sub
				out, errc := dosnode.VerifGenQueryResult(ctx, sc, srv.URL+cpath, csel, c07Log)
				go func() {
					for range errc {
					}
				}()
				v, ok := readAll(out, 5*time.Second)
				if !ok {
					return hx.E
				}
				return hx.B(v)
			})
			oracleC := "ok"
			if implC != hx.E && (whole == hx.E || whole == hx.P || implC != whole+hx.B(sub)[1:]) {
				oracleC = hx.Fail("query-content-wrong", fmt.Sprintf("the transfer of the document broke after %d of %d bytes and the member still produced a string to sign that is not parsed-document || submitter", cut, len(doc)))
			}
			w.Put(hx.Case{Entry: "-", Op: 0, Args: hx.L(hx.Zi(cut), hx.Zi(len(doc)), hx.B([]byte(csel))), Impl: implC, Oracle: oracleC, Tags: []string{"query-transfer-cut", "nt"}})
		}
	}
	// (5a) a query result held at the stage level: query 1 (empty selector: the fetched bytes are the
	// result) has fetched its document and waits for its submitter while query 2 runs to the end
	for it := 0; it < 4*scale; it++ {
		d1 := []byte(`{"big":` + genJSON(rng, 4) + `,"pad":"` + strings.Repeat("x", 3000+rng.Intn(9000)) + `"}`)
		d2 := []byte(`{"small":` + genJSON(rng, 1) + `}`)
		p1, p2 := fmt.Sprintf("/h1-%d", it), fmt.Sprintf("/h2-%d", it)
		docMu.Lock()
		docs[p1], docs[p2] = d1, d2
		docMu.Unlock()
		sub1, sub2 := rng.Bytes(20), rng.Bytes(20)
		res := hx.Catch(func() string {
			ctx, cancel := context.WithTimeout(context.Background(), 5*time.Second)
			defer cancel()
			sc1 := make(chan []byte, 1)
			out1, errc1 := dosnode.VerifGenQueryResult(ctx, sc1, srv.URL+p1, "", c07Log)
			go func() {
				for range errc1 {
				}
			}()
			time.Sleep(40 * time.Millisecond)
			sc2 := make(chan []byte, 1)
			sc2 <- sub2
			out2, errc2 := dosnode.VerifGenQueryResult(ctx, sc2, srv.URL+p2, "", c07Log)
			go func() {
				for range errc2 {
				}
			}()
			v2, ok2 := readAll(out2, 5*time.Second)
			// a few more short queries (whatever buffer query 1's document sits in, it is theirs to reuse
			// only if the stage gave it away)
			var wgq sync.WaitGroup
			for k := 0; k < 12; k++ {
				run := func() {
					scq := make(chan []byte, 1)
					scq <- sub2
					oq, eq := dosnode.VerifGenQueryResult(ctx, scq, srv.URL+p2, "", c07Log)
					go func() {
						for range eq {
						}
					}()
					readAll(oq, 5*time.Second)
				}
				if k < 6 {
					run()
				} else {
					wgq.Add(1)
					go func() { defer wgq.Done(); run() }()
				}
			}
			wgq.Wait()
			sc1 <- sub1
			v1, ok1 := readAll(out1, 5*time.Second)
			if !ok1 || !ok2 {
				return hx.E
			}
			if !bytes.Equal(v1, append(append([]byte{}, d1...), sub1...)) {
				return "z1"
			}
			if !bytes.Equal(v2, append(append([]byte{}, d2...), sub2...)) {
				return "z2"
			}
			return "z0"
		})
		oracle := "ok"
		if res != "z0" {
			oracle = hx.Fail("query-content-wrong", "a query that had fetched its document and waited for its submitter while another query ran produced a string that is not its own document || submitter ("+res+")")
		}
		w.Put(hx.Case{Entry: "-", Op: 0, Args: hx.L(hx.Zi(len(d1)), hx.Zi(len(d2))), Impl: res, Oracle: oracle, Tags: []string{"query-held", "nt"}})
	}
	// (5b) results HELD while further documents are evaluated (a member keeps the extracted bytes as
	// the content it signs and sends while the next requests are already being parsed), sequentially
	// and from several goroutines: what was extracted stays what it was
	for it := 0; it < 6*scale; it++ {
		type heldRes struct {
			got  []byte
			copy []byte
		}
		mk := func(big bool) ([]byte, string) {
			if rng.Chance(60) {
				d := 1 + rng.Intn(2)
				if big {
					d = 3
				}
				return []byte("<root>" + genXML(rng, d) + "</root>"), xmlSelectors[rng.Intn(len(xmlSelectors))]
			}
			return []byte(`{"a":` + genJSON(rng, 3) + `,"b":` + genJSON(rng, 2) + `,"items":[` + genJSON(rng, 2) + "," + genJSON(rng, 2) + `]}`), jsonSelectors[rng.Intn(len(jsonSelectors))]
		}
		var held []heldRes
		changed := 0
		res := hx.Catch(func() string {
			for k := 0; k < 12; k++ {
				doc, sel := mk(k == 0)
				b, err := dosnode.VerifDataParse(doc, sel)
				if err != nil {
					continue
				}
				held = append(held, heldRes{b, append([]byte{}, b...)})
			}
			var wg sync.WaitGroup
			var mu sync.Mutex
			for g := 0; g < 8; g++ {
				doc, sel := mk(false)
				wg.Add(1)
				go func() {
					defer wg.Done()
					for r := 0; r < 6; r++ {
						b, err := dosnode.VerifDataParse(append([]byte{}, doc...), sel)
						if err != nil {
							return
						}
						c := append([]byte{}, b...)
						time.Sleep(50 * time.Microsecond)
						if !bytes.Equal(b, c) {
							mu.Lock()
							changed++
							mu.Unlock()
						}
					}
				}()
			}
			wg.Wait()
			for _, h := range held {
				if !bytes.Equal(h.got, h.copy) {
					changed++
				}
			}
			return hx.Zi(changed)
		})
		oracle := "ok"
		if res == hx.P {
			oracle = hx.Fail("extract-panic", "the extractor panicked: "+hx.LastPanic)
		} else if res != hx.Zi(0) {
			oracle = hx.Fail("extract-nondeterministic", fmt.Sprintf("%d extracted results changed while they were held and further documents were evaluated", changed))
		}
		w.Put(hx.Case{Entry: "-", Op: 0, Args: hx.L(hx.Zi(it)), Impl: res, Oracle: oracle, Tags: []string{"extract-held", "nt"}})
	}
	// (6) the whole request handler on every non-submitting member, all sharing ONE event object
	nEv := 25 * scale
	for it := 0; it < nEv; it++ {
		n := 3 + rng.Intn(5)
		ids := c07Ids(rng, n)
		lastRand := c07Rand(rng)
		reqID := c07Rand(rng)
		seed := c07Rand(rng)
		if rng.Chance(15) {
			reqID = big.NewInt(0)
		}
		if it%5 == 2 {
			lastRand = big.NewInt(0) // what the node's own query-test endpoint injects
		}
		pType := uint32(onchain.TrafficSystemRandom)
		if rng.Bool() {
			pType = uint32(onchain.TrafficUserRandom)
		}
		r0, id0, s0 := new(big.Int).Set(lastRand), new(big.Int).Set(reqID), new(big.Int).Set(seed)
		idx := int(new(big.Int).Mod(new(big.Int).And(r0, new(big.Int).SetUint64(^uint64(0))), big.NewInt(int64(n))).Int64())
		coeffs := randCoeffs(rng, n/2+1, BnQ)
		pub := share.NewPubPoly(Bn.G2(), nil, points(Bn.G2(), coeffs, BnQ))
		contents := make([]string, n)
		member := func(m int) string {
			return hx.Catch(func() string {
				got := make(chan []byte, 4)
				net := doubles.NewFakeP2P(ids[m])
				net.OnRequest = func(ctx context.Context, from, to []byte, msg proto.Message) (p2p.P2PMessage, error) {
					if s, ok := msg.(*vss.Signature); ok {
						got <- append(append([]byte{}, to...), s.Content...)
					}
					return p2p.P2PMessage{}, nil
				}
				node := dosnode.VerifNewNode(net, &doubles.FakeChain{BlockTime: 1}, nil, ids[m], c07Log, 21)
				sec := &share.PriShare{I: m, V: Sc(Bn.G2(), refEval(coeffs, m, BnQ), BnQ)}
				done := make(chan struct{})
				go func() {
					defer close(done)
					node.VerifHandleQuery(ids, pub, sec, "g", reqID, lastRand, seed, "", "", pType)
				}()
				select {
				case v := <-got:
					go func() { <-done }()
					return hx.B(v) // addressee || content
				case <-time.After(5 * time.Second):
					return hx.E
				}
			})
		}
		// members one after the other (every later one sees the event object the earlier ones used) ...
		order := rng.Perm(n)
		for _, m := range order {
			if m != idx {
				contents[m] = member(m)
			}
		}
		// ... and once more concurrently
		var wg sync.WaitGroup
		conc := make([]string, n)
		for m := 0; m < n; m++ {
			if m != idx {
				wg.Add(1)
				go func(m int) { defer wg.Done(); conc[m] = member(m) }(m)
			}
		}
		wg.Wait()
		var content []byte
		op := 3
		args := hx.L(hx.Z(r0), hx.B(ids[idx]))
		if pType == uint32(onchain.TrafficSystemRandom) {
			want := make([]byte, 32)
			rb := r0.Bytes()
			if len(rb) >= 32 {
				copy(want, rb[len(rb)-32:])
			} else {
				copy(want[32-len(rb):], rb)
			}
			content = append(want, ids[idx]...)
		} else {
			op = 4
			args = hx.L(hx.Z(id0), hx.Z(r0), hx.Z(s0), hx.B(ids[idx]))
			content = append(append(append(append([]byte{}, id0.Bytes()...), r0.Bytes()...), s0.Bytes()...), ids[idx]...)
		}
		wantFull := hx.B(append(append([]byte{}, ids[idx]...), content...))
		oracle := "ok"
		for m := 0; m < n; m++ {
			if m == idx {
				continue
			}
			if contents[m] != wantFull || conc[m] != wantFull {
				oracle = hx.Fail("member-content-differs", fmt.Sprintf("member %d signs / addresses something other than the fixed function of the event (submitter index %d)", m, idx))
			}
		}
		// the chain-event loop hands the SAME last-randomness object to the commit-reveal handler as its
		// seed (onchainLoop: randSeed = content.LastRandomness ... go d.handleCR(content, randSeed))
		crPanic := hx.Catch(func() string {
			node := dosnode.VerifNewNode(doubles.NewFakeP2P(ids[0]), &doubles.FakeChain{BlockTime: 1}, nil, ids[0], c07Log, 21)
			started := make(chan struct{})
			go func() {
				defer func() { recover() }()
				close(started)
				node.VerifHandleCR(&onchain.LogStartCommitReveal{Cid: big.NewInt(int64(it + 1)), StartBlock: big.NewInt(0),
					CommitDuration: big.NewInt(0), RevealDuration: big.NewInt(0), RevealThreshold: big.NewInt(1)}, lastRand)
			}()
			<-started
			time.Sleep(15 * time.Millisecond)
			return "z0"
		})
		_ = crPanic
		if lastRand.Cmp(r0) != 0 || reqID.Cmp(id0) != 0 || seed.Cmp(s0) != 0 {
			oracle = hx.Fail("event-mutated", "handling the request (or the commit-reveal round seeded with its last randomness) modified the event's numbers")
		}
		// what the model is compared with: the content the first evaluated member signed
		first := ""
		for _, m := range order {
			if m != idx {
				first = contents[m]
				break
			}
		}
		implContent := hx.E
		if len(first) > 1+40 && first != hx.E && first != hx.P {
			implContent = "b" + first[1+40:]
		}
		w.Put(hx.Case{Entry: "stages", Op: op, Args: args, Impl: implContent, Oracle: oracle, Tags: []string{"handle-query", "nt"}})
	}
	return nil
}
