// Package props: one generator per property.  Each runs the real code of /repo on generated
// inputs and writes cases (inputs, observed result, the property judge's verdict).
package props

import (
	"math/big"

	"github.com/DOSNetwork/core/group/edwards25519"
	"github.com/DOSNetwork/core/suites"
	"github.com/dedis/kyber"

	"verif/harness/hx"
)

type Gen func(rng *hx.Rng, tier string, w *hx.Writer) error

var Registry = map[string]Gen{}

// SubRegistry: scenarios that run in a child process (see hx.RunSub).
var SubRegistry = map[string]func(arg string) string{}

var (
	Bn    = suites.MustFind("bn256")
	Ed    = edwards25519.NewBlakeSHA256Ed25519()
	BnQ   = mustBig("21888242871839275222246405745257275088548364400416034343698204186575808495617")
	BnP   = mustBig("21888242871839275222246405745257275088696311157297823662689037894645226208583")
	EdL   = mustBig("7237005577332262213973186563042994240857116359379907606001950938285454250989")
)

func mustBig(s string) *big.Int {
	n, ok := new(big.Int).SetString(s, 10)
	if !ok {
		panic("bad constant")
	}
	return n
}

// group ids used in g<id>:<dlog> values
const (
	GrpG1 = 1 // bn256 G1
	GrpG2 = 2 // bn256 G2
	GrpEd = 3 // Ed25519
)

func GroupOf(id int) kyber.Group {
	switch id {
	case GrpG1:
		return Bn.G1()
	case GrpG2:
		return Bn.G2()
	case GrpEd:
		return Ed
	}
	panic("group id")
}

func OrderOf(id int) *big.Int {
	if id == GrpEd {
		return EdL
	}
	return BnQ
}

// Scalar of group g with value v (reduced).
func Sc(g kyber.Group, v *big.Int, q *big.Int) kyber.Scalar {
	m := new(big.Int).Mod(v, q)
	b := m.Bytes()
	s := g.Scalar()
	// SetBytes is big-endian for mod.Int, little-endian for the Ed25519 scalar
	if g == kyber.Group(Ed) {
		le := make([]byte, 32)
		for i := range b {
			le[i] = b[len(b)-1-i]
		}
		return s.SetBytes(le)
	}
	return s.SetBytes(b)
}

// Value of a scalar as a big.Int (via its canonical encoding).
func ScVal(g kyber.Group, s kyber.Scalar) *big.Int {
	b, err := s.MarshalBinary()
	if err != nil {
		panic(err)
	}
	if g == kyber.Group(Ed) {
		be := make([]byte, len(b))
		for i := range b {
			be[i] = b[len(b)-1-i]
		}
		return new(big.Int).SetBytes(be)
	}
	return new(big.Int).SetBytes(b)
}

// Pt returns dlog * Base of group g.
func Pt(g kyber.Group, d *big.Int, q *big.Int) kyber.Point {
	return g.Point().Mul(Sc(g, d, q), nil)
}

func PtBytes(p kyber.Point) []byte {
	b, err := p.MarshalBinary()
	if err != nil {
		panic(err)
	}
	return b
}

// special-or-random scalar value
func PickScalar(rng *hx.Rng, q *big.Int) *big.Int {
	switch rng.Intn(12) {
	case 0:
		return big.NewInt(0)
	case 1:
		return big.NewInt(1)
	case 2:
		return new(big.Int).Sub(q, big.NewInt(1))
	case 3:
		return big.NewInt(int64(rng.Intn(1000)))
	}
	return rng.BigBelow(q)
}
