package props

import (
	"context"
	"fmt"
	"math/big"
	"net"
	"net/http"
	"regexp"
	"runtime"
	"sort"
	"strconv"
	"strings"
	"sync"
	"time"

	"github.com/DOSNetwork/core/dosnode"
	"github.com/DOSNetwork/core/onchain"
	"github.com/DOSNetwork/core/p2p"
	"github.com/DOSNetwork/core/share"
	dkg "github.com/DOSNetwork/core/share/dkg/pedersen"
	vss "github.com/DOSNetwork/core/share/vss/pedersen"
	"github.com/DOSNetwork/core/sign/tbls"
	"github.com/golang/protobuf/proto"
	"github.com/golang/protobuf/ptypes"

	"verif/harness/doubles"
	"verif/harness/hx"
)

func init() {
	Registry["C14"] = genC14
	SubRegistry["c14-query"] = subC14Query
	SubRegistry["c14-dkg"] = subC14Dkg
	SubRegistry["c14-merge"] = subC14Merge
}

// blockTimeFor returns a block time bt for which the handler's deadline expression
// time.Duration(mult*bt)*time.Second evaluates (in Go's wrapping arithmetic) to d rounded down to a
// multiple of 2^11 ns: the handlers take their deadline from the chain adaptor only.
func blockTimeFor(d time.Duration, mult uint64) uint64 {
	M := mult * 1000000000
	k := uint(0)
	for M&1 == 0 {
		M >>= 1
		k++
	}
	m := uint64(d) >> k
	// inverse of the odd part modulo 2^64 (Newton iteration)
	inv := M
	for i := 0; i < 6; i++ {
		inv *= 2 - M*inv
	}
	bt := (m * inv) & (^uint64(0) >> k)
	if bt == 0 {
		bt = 1 << (64 - k) // mult*bt*1e9 wraps to exactly 0
	}
	return bt
}

func deadlineOf(bt, mult uint64) time.Duration { return time.Duration(mult*bt) * time.Second }

var goroutineHeader = regexp.MustCompile(`^goroutine \d+ \[([^\]]*)\]`)

// leftovers returns the session goroutines still alive: frames of the packages under test other than
// the node's perpetual loops.
func leftovers() []string {
	buf := make([]byte, 1<<22)
	buf = buf[:runtime.Stack(buf, true)]
	var out []string
	for _, g := range strings.Split(string(buf), "\n\n") {
		if !strings.Contains(g, "github.com/DOSNetwork/core/dosnode.") && !strings.Contains(g, "github.com/DOSNetwork/core/share/dkg/pedersen.") &&
			!strings.Contains(g, "github.com/DOSNetwork/core/utils.") {
			continue
		}
		if strings.Contains(g, ".queryLoop(") || strings.Contains(g, "(*pdkg).Loop(") {
			continue
		}
		lines := strings.Split(g, "\n")
		state := ""
		if m := goroutineHeader.FindStringSubmatch(lines[0]); m != nil {
			state = strings.Split(m[1], ",")[0]
		}
		fn := ""
		where := ""
		for i := 1; i+1 < len(lines); i += 2 {
			if strings.Contains(lines[i], "github.com/DOSNetwork/core/") && !strings.Contains(lines[i], "verif/harness") {
				fn = lines[i]
				if j := strings.LastIndex(fn, "("); j > 0 {
					fn = fn[:j]
				}
				fn = strings.TrimPrefix(fn, "github.com/DOSNetwork/core/")
				w := strings.TrimSpace(lines[i+1])
				if j := strings.Index(w, " "); j > 0 {
					w = w[:j]
				}
				if j := strings.LastIndex(w, "/"); j > 0 {
					w = w[j+1:]
				}
				where = w
				break
			}
		}
		if fn == "" {
			continue
		}
		out = append(out, fmt.Sprintf("%s@%s[%s]", fn, where, state))
	}
	sort.Strings(out)
	return out
}

func summarise(l []string) string {
	cnt := map[string]int{}
	var keys []string
	for _, x := range l {
		if cnt[x] == 0 {
			keys = append(keys, x)
		}
		cnt[x]++
	}
	var parts []string
	for _, k := range keys {
		parts = append(parts, fmt.Sprintf("%dx %s", cnt[k], k))
	}
	return strings.Join(parts, "; ")
}

// wait until no session goroutine is left, at most d
func settle(d time.Duration) []string {
	deadline := time.Now().Add(d)
	var l []string
	for {
		l = leftovers()
		if len(l) == 0 || time.Now().After(deadline) {
			return l
		}
		time.Sleep(20 * time.Millisecond)
	}
}

func parseArg(arg string) map[string]string {
	m := map[string]string{}
	for _, kv := range strings.Split(arg, ",") {
		if i := strings.Index(kv, "="); i > 0 {
			m[kv[:i]] = kv[i+1:]
		}
	}
	return m
}

func atoi(s string) int { n, _ := strconv.Atoi(s); return n }

// ---------------------------------------------------------------- query pipeline

// arg: n=..,ptype=..,deadline=<ms>,fault=..,seed=..
func subC14Query(arg string) string {
	a := parseArg(arg)
	n, ptype, fault := atoi(a["n"]), uint32(atoi(a["ptype"])), a["fault"]
	dl := time.Duration(atoi(a["deadline"])) * time.Millisecond
	rng := hx.NewRng(uint64(atoi(a["seed"])) + 77)
	bt := blockTimeFor(dl, 60)
	t := n/2 + 1
	coeffs := randCoeffs(rng, t, BnQ)
	if coeffs[0].Sign() == 0 {
		coeffs[0] = big.NewInt(5)
	}
	if coeffs[t-1].Sign() == 0 {
		coeffs[t-1] = big.NewInt(11)
	}
	pub := share.NewPubPoly(Bn.G2(), nil, points(Bn.G2(), coeffs, BnQ))
	ids := c07Ids(rng, n)
	netw := doubles.NewNetwork()
	lastRand := big.NewInt(int64(7 + rng.Intn(1000)))
	reqID := big.NewInt(int64(100 + rng.Intn(1000)))
	subIdx := int(new(big.Int).Mod(lastRand, big.NewInt(int64(n))).Int64())
	url, selector := "", ""
	if ptype == uint32(onchain.TrafficUserQuery) {
		ln, _ := net.Listen("tcp", "127.0.0.1:0")
		srv := &http.Server{Handler: http.HandlerFunc(func(w http.ResponseWriter, r *http.Request) {
			switch fault {
			case "fetch-slow", "fetch-slow-buffered":
				time.Sleep(dl + 200*time.Millisecond)
			case "fetch-failure":
				hj, _ := w.(http.Hijacker)
				c, _, _ := hj.Hijack()
				c.Close()
				return
			case "fetch-stalls-mid-body":
				// headers and the first bytes of a longer body, then nothing: the connection stays open
				hj, _ := w.(http.Hijacker)
				c, buf, _ := hj.Hijack()
				fmt.Fprintf(buf, "HTTP/1.1 200 OK\r\nContent-Type: application/json\r\nContent-Length: 4000\r\n\r\n{\"a\":{\"b\":")
				buf.Flush()
				time.Sleep(3 * time.Minute)
				c.Close()
				return
			}
			w.Write([]byte(`{"a":{"b":[1,2,3]},"s":"x"}`))
		})}
		go srv.Serve(ln)
		defer srv.Close()
		url = "http://" + ln.Addr().String() + "/doc"
		selector = "$.a.b"
		if fault == "bad-selector" {
			selector = "$.a.b["
		}
	}
	silent := map[int]bool{}
	if fault == "peers-silent" || fault == "shares-after-deadline" || fault == "short-content" {
		// fewer than t members take part: the submitter waits until the deadline
		for i := 0; i < n && len(silent) < n-t+1; i++ {
			if i != subIdx {
				silent[i] = true
			}
		}
	}
	if fault == "submitter-silent" {
		silent[subIdx] = true
	}
	chains := make([]*doubles.FakeChain, n)
	nodes := make([]*dosnode.DosNode, n)
	for i := 0; i < n; i++ {
		ep := netw.Add(ids[i])
		chains[i] = &doubles.FakeChain{BlockTime: bt}
		if fault == "chain-failure" {
			chains[i].Fail = fmt.Errorf("injected chain failure")
		}
		if silent[i] {
			continue
		}
		nodes[i] = dosnode.VerifNewNode(ep, chains[i], nil, ids[i], doubles.NopLogger{}, 21)
		go nodes[i].VerifQueryLoop()
	}
	for i := 0; i < n; i++ {
		if nodes[i] != nil {
			netw.Endpoint(ids[i]).WaitSub(vss.Signature{}, time.Second)
		}
	}
	if fault == "slow-network" {
		netw.Policy = func(from, to []byte, m proto.Message, attempt int) doubles.Delivery {
			return doubles.Delivery{Copies: 1, Delay: time.Duration(rng.Intn(int(dl/time.Millisecond)+20)) * time.Millisecond}
		}
	}
	var wg sync.WaitGroup
	for i := 0; i < n; i++ {
		if nodes[i] == nil {
			continue
		}
		wg.Add(1)
		go func(i int) {
			defer wg.Done()
			sec := &share.PriShare{I: i, V: Sc(Bn.G2(), refEval(coeffs, i, BnQ), BnQ)}
			nodes[i].VerifHandleQuery(ids, pub, sec, "g1", new(big.Int).Set(reqID), new(big.Int).Set(lastRand), big.NewInt(3), url, selector, ptype)
		}(i)
	}
	// shares thrown at the submitter's collector by members that do not follow the protocol
	inject := func(m *vss.Signature) {
		ch := netw.Endpoint(ids[subIdx]).Sub(vss.Signature{})
		if ch == nil {
			return
		}
		select {
		case ch <- p2p.P2PMessage{Msg: ptypes.DynamicAny{Message: proto.Clone(m)}, Sender: ids[(subIdx+1)%n]}:
		case <-time.After(200 * time.Millisecond):
		}
	}
	rid := reqID.Bytes()
	switch fault {
	case "invalid-shares":
		for k := 0; k < n+2; k++ {
			inject(&vss.Signature{Index: ptype, RequestId: rid, Content: rng.Bytes(52), Signature: rng.Bytes(66)})
		}
	case "nil-shares":
		for k := 0; k < n+2; k++ {
			inject(&vss.Signature{Index: ptype, RequestId: rid})
		}
	case "fetch-slow-buffered":
		// peers' shares wait in the collector's buffer while the submitter's own fetch outlasts the deadline
		for k := 0; k < 8; k++ {
			inject(&vss.Signature{Index: ptype, RequestId: rid, Content: rng.Bytes(52), Signature: rng.Bytes(66)})
		}
	case "short-content":
		// t valid shares over a content shorter than an address
		content := []byte{1, 2, 3}
		for k := 0; k < t; k++ {
			sec := &share.PriShare{I: k, V: Sc(Bn.G2(), refEval(coeffs, k, BnQ), BnQ)}
			sg, _ := tbls.Sign(Bn, sec, content)
			inject(&vss.Signature{Index: ptype, RequestId: rid, Content: content, Signature: sg})
		}
	case "shares-after-deadline":
		// a steady stream of shares that do not verify, before, at and after the moment the deadline
		// fires: errors are in flight through the error fan-in when the context is cancelled
		stop := time.Now().Add(dl + 150*time.Millisecond)
		go func() {
			for time.Now().Before(stop) {
				inject(&vss.Signature{Index: ptype, RequestId: rid, Content: rng.Bytes(52), Signature: rng.Bytes(66)})
				time.Sleep(50 * time.Microsecond)
			}
		}()
	}
	done := make(chan struct{})
	go func() { wg.Wait(); close(done) }()
	select {
	case <-done:
	case <-time.After(dl + 5*time.Second):
		return "handler-hang:" + summarise(leftovers())
	}
	settleFor := 1500 * time.Millisecond
	if fault == "fetch-stalls-mid-body" {
		// the fetch is an opaque call with its own budget of 60 s: the pipeline's goroutines must be
		// gone when that has passed
		settleFor = 64 * time.Second
	}
	if l := settle(settleFor); len(l) > 0 {
		return "leak:" + summarise(l)
	}
	return "ok"
}

// ---------------------------------------------------------------- key generation

// arg: n=..,deadline=<ms>,fault=..,seed=..
func subC14Dkg(arg string) string {
	a := parseArg(arg)
	n, fault := atoi(a["n"]), a["fault"]
	dl := time.Duration(atoi(a["deadline"])) * time.Millisecond
	rng := hx.NewRng(uint64(atoi(a["seed"])) + 99)
	bt := blockTimeFor(dl, 20)
	netw := doubles.NewNetwork()
	ids := make([][]byte, n)
	for i := range ids {
		ids[i] = []byte(fmt.Sprintf("node-%02d-%-12d", i, atoi(a["seed"])))[:20]
	}
	gid := fmt.Sprintf("%x", 4096+rng.Intn(1<<20))
	byz := -1
	if fault == "invalid-deal" || fault == "invalid-response" || fault == "peer-silent" || fault == "many-invalid-deals" {
		byz = n - 1
	}
	crashAfter := -1
	if fault == "peer-crash" {
		crashAfter = atoi(a["k"])
	}
	var mu sync.Mutex
	sentBy := map[string]int{}
	netw.Policy = func(from, to []byte, m proto.Message, attempt int) doubles.Delivery {
		d := doubles.Delivery{Copies: 1}
		if fault == "slow-network" || a["jitter"] == "1" {
			d.Delay = time.Duration(rng.Intn(60)) * time.Millisecond
		}
		if fault == "buffered-then-retransmitted" && string(to) == string(ids[0]) && attempt == 1 {
			// everything reaches member 0 before it starts its session; every acknowledgement is lost,
			// so every sender transmits again half a second later, when the batches have been handed over
			d.FailAfter = true
			return d
		}
		if fault == "buffered-then-retransmitted" && isKind(m, ".Responses") {
			d.Delay = 800 * time.Millisecond // the sessions are still running when the retransmissions arrive
			return d
		}
		if crashAfter >= 0 && string(from) == string(ids[n-1]) {
			mu.Lock()
			sentBy[string(from)]++
			k := sentBy[string(from)]
			mu.Unlock()
			if k > crashAfter {
				return doubles.Delivery{Fail: true}
			}
		}
		return d
	}
	chains := make([]*doubles.FakeChain, n)
	nodes := make([]*dosnode.DosNode, n)
	for i := 0; i < n; i++ {
		ep := netw.Add(ids[i])
		chains[i] = &doubles.FakeChain{BlockTime: bt}
		if fault == "register-failure" {
			chains[i].Fail = fmt.Errorf("injected chain failure")
		}
		if i == byz {
			continue
		}
		logger := doubles.Logger(doubles.NopLogger{})
		if fault == "many-invalid-deals" {
			logger = doubles.SlowLogger{Delay: 30 * time.Millisecond}
		}
		d := dkg.VerifNewPDKG(ep, Bn, doubles.NopLogger{})
		go d.Loop()
		nodes[i] = dosnode.VerifNewNode(ep, chains[i], d, ids[i], logger, 21)
	}
	var wg sync.WaitGroup
	for i := 0; i < n; i++ {
		if nodes[i] == nil {
			continue
		}
		wg.Add(1)
		go func(i int) {
			defer wg.Done()
			if fault == "buffered-then-retransmitted" && i == 0 {
				time.Sleep(250 * time.Millisecond)
			}
			if fault == "member-listed-twice" {
				// the event's participant list names member 0 twice (nothing in the client removes
				// duplicates): whatever the session makes of it, it ends with the deadline
				nodes[i].VerifHandleGrouping(append(append([][]byte{}, ids...), ids[0]), gid)
				return
			}
			nodes[i].VerifHandleGrouping(ids, gid)
		}(i)
		if fault == "event-repeated" {
			// the chain delivers the grouping event a second time (two endpoints, a re-organisation) while
			// the session it started is still running
			wg.Add(1)
			again := time.Duration(5+10*i) * time.Millisecond
			go func(i int) {
				defer wg.Done()
				time.Sleep(again)
				nodes[i].VerifHandleGrouping(ids, gid)
			}(i)
		}
	}
	if byz >= 0 && fault != "peer-silent" {
		att := netw.Endpoint(ids[byz])
		g2 := PtBytes(Bn.G2().Point().Base())
		sendAll := func(m proto.Message) {
			for i := 0; i < n; i++ {
				if i != byz {
					go func(i int) {
						ctx, cancel := contextTimeout(time.Second)
						defer cancel()
						att.Request(ctx, ids[i], m)
					}(i)
				}
			}
		}
		sendAll(&dkg.PublicKey{SessionId: gid, Index: uint32(byz), Publickey: &vss.PublicKey{Binary: g2}})
		time.Sleep(40 * time.Millisecond)
		badDeal := &dkg.Deal{SessionId: gid, Index: uint32(byz), Deal: &vss.EncryptedDeal{DHKey: g2, Signature: make([]byte, 64), Nonce: make([]byte, 12), Cipher: make([]byte, 40)}}
		sendAll(badDeal)
	}
	done := make(chan struct{})
	go func() { wg.Wait(); close(done) }()
	select {
	case <-done:
	case <-time.After(dl + 6*time.Second):
		return "handler-hang:" + summarise(leftovers())
	}
	// the retry goroutines sleep 500 ms between attempts
	if l := settle(2500 * time.Millisecond); len(l) > 0 {
		return "leak:" + summarise(l)
	}
	return "ok"
}

// ---------------------------------------------------------------- the error fan-in alone

// arg: which=dosnode|dkg|utils,inputs=..,errors=..,reader=stop|drain,seed=..
// errors are sent on the input channels (by senders that give up on cancellation), the context is
// cancelled at a random moment, the inputs are closed; the reader either stops at cancellation (as the
// handlers do) or keeps draining
func subC14Merge(arg string) string {
	a := parseArg(arg)
	rng := hx.NewRng(uint64(atoi(a["seed"])) + 5)
	k, nerr := atoi(a["inputs"]), atoi(a["errors"])
	ctx, cancel := contextCancel()
	ins := make([]chan error, k)
	for i := range ins {
		ins[i] = make(chan error)
	}
	var out chan error
	switch a["which"] {
	case "dosnode":
		out = dosnode.VerifMergeErrors(ctx, ins...)
	case "dkg":
		out = mergeDkg(ctx, ins)
	}
	var wg sync.WaitGroup
	for i := range ins {
		wg.Add(1)
		go func(i int) {
			defer wg.Done()
			defer close(ins[i])
			for e := 0; e < nerr; e++ {
				select {
				case ins[i] <- fmt.Errorf("e%d", e):
				case <-ctx.Done():
					return
				}
			}
		}(i)
	}
	cancelAt := time.Duration(rng.Intn(3000)) * time.Microsecond
	go func() { time.Sleep(cancelAt); cancel() }()
	closed := false
	func() {
		for {
			select {
			case _, ok := <-out:
				if !ok {
					closed = true
					return
				}
				if a["reader"] == "slow" {
					time.Sleep(200 * time.Microsecond)
				}
			case <-ctx.Done():
				return
			}
		}
	}()
	cancel()
	wg.Wait()
	if l := settle(800 * time.Millisecond); len(l) > 0 {
		return "leak:" + summarise(l)
	}
	if !closed {
		// nobody is left: the output must have been closed
		for {
			select {
			case _, ok := <-out:
				if !ok {
					return "ok"
				}
			case <-time.After(300 * time.Millisecond):
				return "not-closed"
			}
		}
	}
	return "ok"
}

// ---------------------------------------------------------------- generator

func genC14(rng *hx.Rng, tier string, w *hx.Writer) error {
	var jobs []*c12job
	add := func(group, sub, arg string, timeout time.Duration, tags ...string) {
		jobs = append(jobs, &c12job{
			c:   hx.Case{Entry: "-", Op: 0, Args: hx.L(hx.B([]byte(sub)), hx.B([]byte(arg))), Tags: append([]string{group, "nt"}, tags...)},
			sub: sub, arg: arg, timeout: timeout, group: group,
			finish: func(out string) (string, bool) { return hx.B([]byte(out)), out == "ok" },
			explain: func(class, out, panicLine string) (string, string) {
				sc := "driver sub " + sub + " " + arg
				switch {
				case class == "P":
					return "runtime-panic:" + group, group + " scenario (" + sc + "): the process died: " + panicLine
				case class == "H" || strings.HasPrefix(out, "handler-hang"):
					return "handler-hang:" + group, group + " scenario (" + sc + "): the handler did not return: " + out
				case strings.HasPrefix(out, "leak:"):
					return "goroutine-leak:" + group, group + " scenario (" + sc + "): goroutines of the session remain after it ended: " + strings.TrimPrefix(out, "leak:")
				}
				return "not-closed:" + group, group + " scenario (" + sc + "): " + out
			},
		})
	}
	reps := 1
	if tier == "thorough" {
		reps = 5
	}
	seed := 0
	// query pipelines: every deadline from "already expired" to "after completion", every fault
	qDeadlines := []int{0, 2, 5, 10, 20, 40, 80, 160, 400, 1200}
	qFaults := []string{"none", "peers-silent", "submitter-silent", "invalid-shares", "nil-shares", "short-content", "chain-failure", "shares-after-deadline", "slow-network"}
	for rep := 0; rep < reps; rep++ {
		for _, f := range qFaults {
			for _, dl := range qDeadlines {
				if tier == "quick" && f != "none" && f != "shares-after-deadline" && dl != 20 && dl != 400 {
					continue
				}
				seed++
				pt := []int{int(onchain.TrafficSystemRandom), int(onchain.TrafficUserRandom)}[seed%2]
				add("query-pipeline", "c14-query", fmt.Sprintf("n=%d,ptype=%d,deadline=%d,fault=%s,seed=%d", 3+seed%3, pt, dl+rng.Intn(3), f, seed), 30*time.Second, "f:"+f, fmt.Sprintf("deadline:%d", dl))
			}
		}
		for _, f := range []string{"none", "fetch-failure", "fetch-slow", "fetch-slow-buffered", "bad-selector", "chain-failure"} {
			for _, dl := range []int{0, 30, 300, 1200} {
				seed++
				add("query-pipeline", "c14-query", fmt.Sprintf("n=3,ptype=%d,deadline=%d,fault=%s,seed=%d", int(onchain.TrafficUserQuery), dl, f, seed), 30*time.Second, "f:"+f, fmt.Sprintf("deadline:%d", dl))
			}
		}
		if tier == "thorough" && rep == 0 {
			// the data source sends its headers and stalls inside the body (takes the fetch's own 60 s)
			seed++
			add("query-pipeline", "c14-query", fmt.Sprintf("n=3,ptype=%d,deadline=300,fault=fetch-stalls-mid-body,seed=%d", int(onchain.TrafficUserQuery), seed), 110*time.Second, "f:fetch-stalls-mid-body", "deadline:300")
		}
	}
	// key generation
	dDeadlines := []int{0, 3, 10, 25, 50, 90, 150, 250, 400, 700, 1500}
	dFaults := []string{"none", "peer-silent", "invalid-deal", "register-failure", "slow-network", "many-invalid-deals", "buffered-then-retransmitted", "event-repeated", "member-listed-twice"}
	for rep := 0; rep < reps; rep++ {
		for _, f := range dFaults {
			for _, dl := range dDeadlines {
				if tier == "quick" && f != "none" && dl != 25 && dl != 250 && dl != 1500 {
					continue
				}
				if f == "buffered-then-retransmitted" && dl < 1500 {
					continue // the retransmissions come 500 ms after the first attempt
				}
				seed++
				n := 3 + seed%2
				if f == "many-invalid-deals" {
					n = 3
				}
				if f == "buffered-then-retransmitted" {
					dl = 2500
				}
				add("key-generation", "c14-dkg", fmt.Sprintf("n=%d,deadline=%d,fault=%s,jitter=%d,seed=%d", n, dl+rng.Intn(4), f, seed%2, seed), 40*time.Second, "f:"+f, fmt.Sprintf("deadline:%d", dl))
			}
		}
		// a peer that goes silent after each of its first k messages
		for k := 0; k <= 6; k++ {
			seed++
			add("key-generation", "c14-dkg", fmt.Sprintf("n=3,deadline=%d,fault=peer-crash,k=%d,seed=%d", 1200, k, seed), 40*time.Second, "f:peer-crash", fmt.Sprintf("k:%d", k))
		}
	}
	// the error fan-in on its own
	nm := 12
	if tier == "thorough" {
		nm = 80
	}
	for it := 0; it < nm; it++ {
		seed++
		which := []string{"dosnode", "dkg"}[it%2]
		rd := []string{"stop", "slow"}[(it/2)%2]
		add("error-fan-in", "c14-merge", fmt.Sprintf("which=%s,inputs=%d,errors=%d,reader=%s,seed=%d", which, 2+rng.Intn(4), 1+rng.Intn(6), rd, seed), 20*time.Second, "w:"+which, "r:"+rd)
	}
	runC12Jobs(jobs, w)
	return nil
}

func contextTimeout(d time.Duration) (context.Context, context.CancelFunc) {
	return context.WithTimeout(context.Background(), d)
}

func contextCancel() (context.Context, context.CancelFunc) {
	return context.WithCancel(context.Background())
}

func mergeDkg(ctx context.Context, ins []chan error) chan error {
	return dkg.VerifMergeErrors(ctx, doubles.NopLogger{}, "s", ins...)
}
