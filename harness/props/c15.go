package props

import (
	"encoding/binary"
	"fmt"
	"io"
	"net"
	"time"

	"github.com/DOSNetwork/core/p2p"

	"verif/harness/hx"
)

func init() { Registry["C15"] = genC15 }

// scriptedConn: Read returns at most the rest of the current chunk; io.EOF when exhausted.
type scriptedConn struct {
	chunks  [][]byte
	written []byte
	wlim    []int // Write accepts at most wlim[k] bytes on its k-th call (short writes); empty: everything
	wcalls  int
	// a reader that has consumed `chunks` waits here before it gets `later` (another connection is
	// served in between)
	gate    chan struct{}
	later   [][]byte
	drained chan struct{}
}

func (c *scriptedConn) Read(p []byte) (int, error) {
	for len(c.chunks) > 0 && len(c.chunks[0]) == 0 {
		c.chunks = c.chunks[1:]
	}
	if len(c.chunks) == 0 && c.gate != nil {
		if c.drained != nil {
			close(c.drained)
			c.drained = nil
		}
		<-c.gate
		c.gate = nil
		c.chunks, c.later = c.later, nil
		for len(c.chunks) > 0 && len(c.chunks[0]) == 0 {
			c.chunks = c.chunks[1:]
		}
	}
	if len(c.chunks) == 0 {
		return 0, io.EOF
	}
	n := copy(p, c.chunks[0])
	c.chunks[0] = c.chunks[0][n:]
	return n, nil
}
func (c *scriptedConn) Write(p []byte) (int, error) {
	n := len(p)
	if c.wcalls < len(c.wlim) && c.wlim[c.wcalls] < n {
		n = c.wlim[c.wcalls]
	}
	c.wcalls++
	c.written = append(c.written, p[:n]...)
	return n, nil
}
func (c *scriptedConn) Close() error                       { return nil }
func (c *scriptedConn) LocalAddr() net.Addr                { return &net.TCPAddr{} }
func (c *scriptedConn) RemoteAddr() net.Addr               { return &net.TCPAddr{} }
func (c *scriptedConn) SetDeadline(t time.Time) error      { return nil }
func (c *scriptedConn) SetReadDeadline(t time.Time) error  { return nil }
func (c *scriptedConn) SetWriteDeadline(t time.Time) error { return nil }
func (c *scriptedConn) remaining() int {
	n := 0
	for _, ch := range c.chunks {
		n += len(ch)
	}
	return n
}

func frameOf(p []byte) []byte {
	b := make([]byte, 4+len(p))
	binary.BigEndian.PutUint32(b, uint32(len(p)))
	copy(b[4:], p)
	return b
}

func chunkBy(stream []byte, cuts []int) [][]byte {
	var out [][]byte
	prev := 0
	for _, c := range cuts {
		if c > prev && c <= len(stream) {
			out = append(out, stream[prev:c])
			prev = c
		}
	}
	if prev < len(stream) {
		out = append(out, stream[prev:])
	}
	return out
}

func randChunks(rng *hx.Rng, stream []byte) [][]byte {
	var out [][]byte
	mode := rng.Intn(4)
	for i := 0; i < len(stream); {
		var n int
		switch mode {
		case 0:
			n = 1
		case 1:
			n = 1 + rng.Intn(4)
		case 2:
			n = 1 + rng.Intn(len(stream))
		default:
			if rng.Chance(50) {
				n = 1 + rng.Intn(3)
			} else {
				n = 1 + rng.Intn(70000)
			}
		}
		if len(stream) > 100000 && mode < 2 && i > 64 {
			n = len(stream) // do not split megabytes into single bytes
		}
		if i+n > len(stream) {
			n = len(stream) - i
		}
		out = append(out, stream[i:i+n])
		i += n
	}
	return out
}

// expect: what the property demands for this stream (independent of the model)
type c15expect struct {
	results []string // per frame: payload value or "E"
	remain  int
}

func c15Read(w *hx.Writer, chunks [][]byte, k int, exp *c15expect, tags ...string) {
	cv := make([]string, len(chunks))
	cc := make([][]byte, len(chunks))
	for i, ch := range chunks {
		cv[i] = hx.B(ch)
		cc[i] = append([]byte{}, ch...)
	}
	conn := &scriptedConn{chunks: cc}
	var res []string
	impl := hx.Catch(func() string {
		// the frames are looked at only after the whole stream has been read: a frame handed to the
		// caller must stay what it was while later frames are read (the pipelines hold frames)
		var held [][]byte
		failed := false
		for i := 0; i < k; i++ {
			b, err := p2p.VerifReadFrom(conn)
			if err != nil {
				failed = true
				break
			}
			held = append(held, b)
		}
		for _, b := range held {
			res = append(res, hx.B(b))
		}
		if failed {
			res = append(res, hx.E)
		}
		return hx.L(hx.L(res...), hx.Zi(conn.remaining()))
	})
	oracle := "ok"
	if exp != nil {
		want := hx.L(hx.L(exp.results...), hx.Zi(exp.remain))
		if exp.remain < 0 { // remaining bytes unspecified (stream ended inside a frame)
			want = hx.L(exp.results...)
			got := hx.L(res...)
			if impl == hx.P || got != want {
				oracle = hx.Fail("frame-read-wrong", "frames read differ from what the property demands")
			}
		} else if impl != want {
			oracle = hx.Fail("frame-read-wrong", "frames read / bytes consumed differ from what the property demands")
		}
	}
	if exp != nil && exp.remain < 0 {
		// model and implementation both report 0 bytes left after a failed read loop; keep comparable
	}
	w.Put(hx.Case{Entry: "framing", Op: 1, Args: hx.L(hx.L(cv...), hx.Zi(k)), Impl: impl, Oracle: oracle,
		Tags: append(tags, "nt")})
}

func genC15(rng *hx.Rng, tier string, w *hx.Writer) error {
	limit := p2p.VerifMsgSizeLimit
	// (a) every split of short streams: 1..3 small frames (+ trailing bytes)
	maxLen := 11
	if tier == "thorough" {
		maxLen = 15
	}
	shortStreams := [][][]byte{
		{{7}}, {{1, 2}}, {{1, 2, 3}}, {{9}, {8}}, {{1, 2, 3, 4, 5}}, {{0}, {0, 0}}, {{5}, {6}, {7}},
	}
	for _, payloads := range shortStreams {
		var stream []byte
		exp := &c15expect{}
		for _, p := range payloads {
			stream = append(stream, frameOf(p)...)
			exp.results = append(exp.results, hx.B(p))
		}
		if len(stream) > maxLen {
			continue
		}
		for mask := 0; mask < 1<<uint(len(stream)-1); mask++ {
			var cuts []int
			for i := 0; i < len(stream)-1; i++ {
				if mask>>uint(i)&1 == 1 {
					cuts = append(cuts, i+1)
				}
			}
			c15Read(w, chunkBy(stream, cuts), len(payloads), exp, "all-splits")
		}
	}
	// (b) boundary payload lengths with random chunkings
	lens := []int{1, 2, 3, 4, 5}
	for k := uint(3); k <= 20; k++ {
		for _, d := range []int{-1, 0, 1} {
			l := 1<<k + d
			if l >= 1 && l <= limit {
				lens = append(lens, l)
			}
		}
	}
	nBig := 0
	for _, l := range lens {
		if l > 70000 {
			nBig++
			if tier == "quick" && nBig > 3 && l != limit && l != limit-1 {
				continue
			}
		}
		p := rng.Bytes(l)
		stream := frameOf(p)
		tail := rng.Bytes(rng.Intn(3))
		reps := 3
		if l > 5000 {
			reps = 1
		}
		for r := 0; r < reps; r++ {
			c15Read(w, randChunks(rng, append(append([]byte{}, stream...), tail...)), 1,
				&c15expect{results: []string{hx.B(p)}, remain: len(tail)}, "boundary-length")
		}
	}
	// (c) sequences of frames, random chunkings
	nSeq := 40
	maxFrames := 12
	if tier == "thorough" {
		nSeq = 600
		maxFrames = 50
	}
	for it := 0; it < nSeq; it++ {
		nf := 1 + rng.Intn(maxFrames)
		var stream []byte
		exp := &c15expect{}
		for j := 0; j < nf; j++ {
			l := 1 + rng.Intn(40)
			if rng.Chance(10) {
				l = 1 + rng.Intn(3000)
			}
			p := rng.Bytes(l)
			if rng.Chance(20) { // payloads that look like headers
				p = frameOf(rng.Bytes(rng.Intn(5)))
			}
			stream = append(stream, frameOf(p)...)
			exp.results = append(exp.results, hx.B(p))
		}
		c15Read(w, randChunks(rng, stream), nf, exp, "sequence")
	}
	// (d) rejected headers: 0, limit+1 .., top of the 32-bit range; followed by bytes that must stay unread
	bad := []uint32{0, uint32(limit) + 1, uint32(limit) + 2, 1 << 21, 1 << 24, 1 << 31, 0x7fffffff, 0x80000000,
		0xfffffffb, 0xfffffffc, 0xfffffffd, 0xfffffffe, 0xffffffff, 0x00100001, 0x01000000}
	for _, h := range bad {
		hb := make([]byte, 4)
		binary.BigEndian.PutUint32(hb, h)
		rest := rng.Bytes(1 + rng.Intn(40))
		stream := append(append([]byte{}, hb...), rest...)
		for r := 0; r < 2; r++ {
			c15Read(w, randChunks(rng, stream), 1, &c15expect{results: []string{hx.E}, remain: len(rest)}, "bad-header")
		}
		// after a good frame
		p := rng.Bytes(1 + rng.Intn(9))
		s2 := append(frameOf(p), stream...)
		c15Read(w, randChunks(rng, s2), 2, &c15expect{results: []string{hx.B(p), hx.E}, remain: len(rest)}, "bad-header-after-frame")
	}
	// (e) truncated streams: every cut of a small frame, sampled cuts of larger ones
	for _, l := range []int{1, 2, 5, 9, 300} {
		p := rng.Bytes(l)
		stream := frameOf(p)
		for m := 0; m < len(stream); m++ {
			if l > 20 && m%37 != 0 && m != len(stream)-1 {
				continue
			}
			c15Read(w, randChunks(rng, stream[:m]), 1, &c15expect{results: []string{hx.E}, remain: -1}, "truncated")
			// truncated second frame
			q := rng.Bytes(3)
			s2 := append(frameOf(q), stream[:m]...)
			c15Read(w, randChunks(rng, s2), 2, &c15expect{results: []string{hx.B(q), hx.E}, remain: -1}, "truncated-second")
		}
	}
	// (f) the writer
	wlens := []int{0, 1, 2, 255, 256, 65535, 65536, limit - 1, limit, limit + 1}
	seenW := map[int]bool{}
	for _, l := range wlens {
		seenW[l] = true
	}
	// every payload length within 5 of a power of two (a frame is the payload plus 4 header bytes:
	// whatever buffer the writer uses, its boundary falls into one of these neighbourhoods)
	kmax := uint(16)
	if tier == "thorough" {
		kmax = 20
	}
	for k := uint(2); k <= kmax; k++ {
		for d := -5; d <= 5; d++ {
			if l := 1<<k + d; l >= 0 && l <= limit && !seenW[l] {
				seenW[l] = true
				wlens = append(wlens, l)
			}
		}
	}
	for _, l := range wlens {
		if tier == "quick" && l > 70000 && l < limit-1 {
			continue
		}
		p := rng.Bytes(l)
		conn := &scriptedConn{}
		impl := hx.Catch(func() string {
			if err := p2p.VerifWriteTo(p, conn); err != nil {
				return hx.E
			}
			return hx.B(conn.written)
		})
		oracle := "ok"
		if l >= 1 && l <= limit {
			if impl != hx.B(frameOf(p)) {
				oracle = hx.Fail("frame-write-wrong", "writeTo did not emit length prefix + payload")
			}
		} else if l > limit && impl != hx.E {
			oracle = hx.Fail("frame-write-oversize", "writeTo accepted a payload over the limit")
		}
		w.Put(hx.Case{Entry: "framing", Op: 2, Args: hx.L(hx.B(p)), Impl: impl, Oracle: oracle, Tags: []string{"write", "nt"}})
	}
	// (g) the writer over a transport that takes the frame in pieces (short writes): every piece
	// boundary of short frames, boundaries near both ends of longer ones, one byte at a time
	for _, l := range []int{1, 2, 5, 100, 4096} {
		p := rng.Bytes(l)
		total := l + 4
		var splits [][]int
		if total <= 12 {
			for a := 1; a < total; a++ {
				splits = append(splits, []int{a})
			}
		} else {
			for _, a := range []int{1, 3, 4, 5, total / 2, total - 5, total - 4, total - 3, total - 2, total - 1} {
				splits = append(splits, []int{a})
			}
			splits = append(splits, []int{3, 1, total - 6, 1}, []int{total - 2, 1})
		}
		ones := make([]int, total+2)
		for i := range ones {
			ones[i] = 1
		}
		if total <= 200 {
			splits = append(splits, ones)
		}
		for _, sp := range splits {
			conn := &scriptedConn{wlim: sp}
			impl := hx.Catch(func() string {
				if err := p2p.VerifWriteTo(append([]byte{}, p...), conn); err != nil {
					return hx.E
				}
				return hx.B(conn.written)
			})
			oracle := "ok"
			if impl != hx.B(frameOf(p)) {
				oracle = hx.Fail("frame-write-wrong", fmt.Sprintf("writeTo over a transport that accepts %v bytes per call did not emit length prefix + the whole payload (%d bytes)", sp, l))
			}
			lv := make([]string, len(sp))
			for i, x := range sp {
				lv[i] = hx.Zi(x)
			}
			w.Put(hx.Case{Entry: "framing", Op: 3, Args: hx.L(hx.B(p), hx.L(lv...)), Impl: impl, Oracle: oracle, Tags: []string{"write-short-writes", "nt"}})
		}
	}
	// (h) several connections are read at the same time (one reader goroutine per peer): a reader that
	// has part of its length prefix waits while another connection is read, then goes on
	for it := 0; it < 12; it++ {
		// lengths whose prefixes differ in every byte position
		pa, pb := rng.Bytes(1+rng.Intn(200)), rng.Bytes(0x010101+rng.Intn(5)*0x010203)
		if it%4 == 3 {
			pa, pb = pb, pa
		}
		fa := frameOf(pa)
		cut := 1 + it%3
		a := &scriptedConn{chunks: [][]byte{fa[:cut]}, gate: make(chan struct{}), later: [][]byte{fa[cut:]}, drained: make(chan struct{})}
		drained := a.drained
		b := &scriptedConn{chunks: randChunks(rng, frameOf(pb))}
		res := hx.Catch(func() string {
			done := make(chan string, 1)
			go func() {
				done <- hx.Catch(func() string {
					v, err := p2p.VerifReadFrom(a)
					if err != nil {
						return hx.E
					}
					return hx.B(v)
				})
			}()
			select {
			case <-drained:
			case <-time.After(2 * time.Second):
				return "z9"
			}
			vb, err := p2p.VerifReadFrom(b)
			close(a.gate)
			va := <-done
			if err != nil {
				return hx.L(va, hx.E)
			}
			return hx.L(va, hx.B(vb))
		})
		oracle := "ok"
		if res != hx.L(hx.B(pa), hx.B(pb)) {
			oracle = hx.Fail("frame-read-wrong", fmt.Sprintf("two connections read at the same time (connection A interrupted after %d bytes of its length prefix): the frames read are not the frames sent", cut))
		}
		w.Put(hx.Case{Entry: "-", Op: 0, Args: hx.L(hx.B(pa), hx.B(pb), hx.Zi(cut)), Impl: res, Oracle: oracle, Tags: []string{"two-connections", "nt"}})
	}
	return nil
}
