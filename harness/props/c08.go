package props

import (
	"math/big"

	"github.com/DOSNetwork/core/share"
	vss "github.com/DOSNetwork/core/share/vss/pedersen"
	"github.com/dedis/kyber"

	"verif/harness/hx"
)

func init() { Registry["C08"] = genC08 }

// ---- a small key universe: key id k has secret scalar keySec(k)

type keyring struct {
	sec map[int]kyber.Scalar
	pub map[int]kyber.Point
}

func newKeyring() *keyring { return &keyring{sec: map[int]kyber.Scalar{}, pub: map[int]kyber.Point{}} }

func (k *keyring) get(rng *hx.Rng, id int) (kyber.Scalar, kyber.Point) {
	if s, ok := k.sec[id]; ok {
		return s, k.pub[id]
	}
	s := Sc(Bn.G2(), new(big.Int).Add(rng.BigBelow(BnQ), big.NewInt(1)), BnQ)
	k.sec[id] = s
	k.pub[id] = Bn.Point().Mul(s, nil)
	return s, k.pub[id]
}

func (k *keyring) pubs(rng *hx.Rng, ids []int) []kyber.Point {
	out := make([]kyber.Point, len(ids))
	for i, id := range ids {
		_, out[i] = k.get(rng, id)
	}
	return out
}

// ---- symbolic descriptions (see coq/Models/Vss.v)

type sidDesc struct {
	junk    int // != 0: junk id
	dealer  int
	members []int
	commits []*big.Int
	t       int
}

func (s sidDesc) val() string {
	if s.junk != 0 {
		return hx.L(hx.Zi(1), hx.Zi(s.junk))
	}
	return hx.L(hx.Zi(0), hx.Zi(s.dealer), intsVal(s.members), bigsVal(s.commits), hx.Zi(s.t))
}

func intsVal(xs []int) string {
	s := make([]string, len(xs))
	for i, x := range xs {
		s[i] = hx.Zi(x)
	}
	return hx.L(s...)
}

type plainDesc struct {
	sid     sidDesc
	secNil  bool
	idx     int
	share   *big.Int
	t       int
	commits []*big.Int
}

func (p plainDesc) val() string {
	sec := hx.N
	if !p.secNil {
		sec = hx.L(hx.Zi(p.idx), hx.Z(p.share))
	}
	return hx.L(p.sid.val(), sec, hx.Zi(p.t), bigsVal(p.commits))
}

type edealDesc struct {
	sigKey, sigBytes, dhBytes     int
	dhPoint                       int // -1: does not decode
	nonceLen, nonce               int
	sealEph, sealRcpt, sealDealer int
	sealMembers                   []int
	sealNonce                     int
	intact                        bool
	plain                         *plainDesc
}

func (e edealDesc) val() string {
	dp := hx.N
	if e.dhPoint >= 0 {
		dp = hx.Zi(e.dhPoint)
	}
	pl := hx.N
	if e.plain != nil {
		pl = e.plain.val()
	}
	return hx.L(hx.Zi(e.sigKey), hx.Zi(e.sigBytes), hx.Zi(e.dhBytes), dp, hx.Zi(e.nonceLen), hx.Zi(e.nonce),
		hx.Zi(e.sealEph), hx.Zi(e.sealRcpt), hx.Zi(e.sealDealer), intsVal(e.sealMembers), hx.Zi(e.sealNonce),
		hx.Bool(e.intact), pl)
}

// a dealt polynomial of dealer `dealer` for members `members`
type dealing struct {
	dealer  int
	members []int
	t       int
	coeffs  []*big.Int
}

func (d *dealing) honestPlain(i int) plainDesc {
	return plainDesc{sid: sidDesc{dealer: d.dealer, members: d.members, commits: d.coeffs, t: d.t},
		idx: i, share: refEval(d.coeffs, i, BnQ), t: d.t, commits: d.coeffs}
}

// the real plaintext deal for a description
func realDeal(kr *keyring, rng *hx.Rng, p plainDesc, sidBytes []byte) *vss.Deal {
	d := &vss.Deal{SessionID: sidBytes, T: uint32(p.t), Commitments: points(Bn.G2(), p.commits, BnQ)}
	if !p.secNil {
		d.SecShare = &share.PriShare{I: p.idx, V: Sc(Bn.G2(), p.share, BnQ)}
	}
	return d
}

func sidBytesOf(kr *keyring, rng *hx.Rng, s sidDesc) []byte {
	if s.junk != 0 {
		b := make([]byte, 32)
		b[0] = byte(s.junk)
		b[31] = 0xee
		return b
	}
	_, dp := kr.get(rng, s.dealer)
	return vss.VerifSessionID(Bn, dp, kr.pubs(rng, s.members), points(Bn.G2(), s.commits, BnQ), s.t)
}

var ephCounter = 1000

// seals plaintext p of `dl`'s dealer for recipient index r (of dl.members) with a fresh ephemeral key
func sealed(kr *keyring, rng *hx.Rng, dl *dealing, r int, p plainDesc) (*vss.EncryptedDeal, edealDesc, error) {
	ephCounter++
	eph := ephCounter
	dsec, _ := kr.get(rng, dl.dealer)
	esec, _ := kr.get(rng, eph)
	ed, err := vss.VerifSealDeal(Bn, dsec, kr.pubs(rng, dl.members), r, realDeal(kr, rng, p, sidBytesOf(kr, rng, p.sid)), esec)
	pc := p
	return ed, edealDesc{sigKey: dl.dealer, sigBytes: eph, dhBytes: eph, dhPoint: eph, nonceLen: 12, nonce: 0,
		sealEph: eph, sealRcpt: dl.members[r], sealDealer: dl.dealer, sealMembers: dl.members, sealNonce: 0,
		intact: true, plain: &pc}, err
}

func cloneED(e *vss.EncryptedDeal) *vss.EncryptedDeal {
	return &vss.EncryptedDeal{DHKey: append([]byte{}, e.DHKey...), Signature: append([]byte{}, e.Signature...),
		Nonce: append([]byte{}, e.Nonce...), Cipher: append([]byte{}, e.Cipher...)}
}

func g2Decodes(b []byte) bool {
	ok := false
	func() {
		defer func() { recover() }()
		ok = Bn.G2().Point().UnmarshalBinary(b) == nil
	}()
	return ok
}

// runs Verifier.ProcessEncryptedDeal for the member with key vkey, expecting dealer vdealer and members vmembers
func c08Run(kr *keyring, rng *hx.Rng, vkey, vdealer int, vmembers []int, ed *vss.EncryptedDeal) string {
	vs, _ := kr.get(rng, vkey)
	_, dp := kr.get(rng, vdealer)
	return hx.Catch(func() string {
		v, err := vss.NewVerifier(Bn, vs, dp, kr.pubs(rng, vmembers))
		if err != nil {
			return "z-1"
		}
		r, err := v.ProcessEncryptedDeal(ed)
		if err != nil {
			return hx.E
		}
		if r.Status == vss.StatusApproval {
			return hx.L(hx.Zi(1))
		}
		return hx.L(hx.Zi(0))
	})
}

func indexOf(xs []int, x int) int {
	for i, v := range xs {
		if v == x {
			return i
		}
	}
	return -1
}

func c08Put(w *hx.Writer, kr *keyring, rng *hx.Rng, vkey, vdealer int, vmembers []int, ed *vss.EncryptedDeal, desc *edealDesc, want string, tag string) {
	impl := c08Run(kr, rng, vkey, vdealer, vmembers, ed)
	edv := hx.N
	if desc != nil {
		edv = desc.val()
	}
	oracle := "ok"
	switch want {
	case "approve":
		if impl != hx.L(hx.Zi(1)) {
			oracle = hx.Fail("honest-deal-not-approved", "an untouched consistent deal was not approved by its addressee ("+tag+")")
		}
	case "reject": // modified / not the addressee / other dealer or member list: no share may be accepted
		if impl == hx.P {
			oracle = hx.Fail("deal-panic", "processing the deal panicked ("+tag+"): "+hx.LastPanic)
		} else if impl != hx.E {
			oracle = hx.Fail("modified-deal-accepted", "a deal that is modified / not addressed to this member / under another dealer or member list produced a response ("+tag+")")
		}
	case "no-approve": // opened but inconsistent: complaint or error, never approval
		if impl == hx.P {
			oracle = hx.Fail("deal-panic", "processing the deal panicked ("+tag+"): "+hx.LastPanic)
		} else if impl == hx.L(hx.Zi(1)) {
			oracle = hx.Fail("inconsistent-deal-approved", "an opened deal that is inconsistent was approved ("+tag+")")
		}
	}
	w.Put(hx.Case{Entry: "vss", Op: 1,
		Args: hx.L(hx.Z(BnQ), hx.Zi(1), hx.Zi(vkey), hx.Zi(vdealer), hx.Zi(indexOf(vmembers, vkey)), intsVal(vmembers), edv),
		Impl: impl, Oracle: oracle, Tags: []string{tag, "nt"},
		Re: func() string {
			if ed == nil {
				return c08Run(kr, rng, vkey, vdealer, vmembers, nil)
			}
			return c08Run(kr, rng, vkey, vdealer, vmembers, cloneED(ed))
		}})
}

func genC08(rng *hx.Rng, tier string, w *hx.Writer) error {
	kr := newKeyring()
	nSetups := 3
	step := 7
	if tier == "thorough" {
		nSetups = 12
		step = 1
	}
	masks := []byte{0x01, 0x80, 0xff}
	for su := 0; su < nSetups; su++ {
		n := 3 + rng.Intn(3)
		if tier == "thorough" {
			n = 3 + rng.Intn(5)
		}
		t := n/2 + 1
		members := make([]int, n)
		for i := range members {
			members[i] = 100*(su+1) + i
		}
		dealerIdx := rng.Intn(n)
		dl := &dealing{dealer: members[dealerIdx], members: members, t: t, coeffs: randCoeffs(rng, t, BnQ)}
		if dl.coeffs[t-1].Sign() == 0 {
			dl.coeffs[t-1] = big.NewInt(3)
		}
		r := rng.Intn(n) // the addressee
		ed, desc, err := sealed(kr, rng, dl, r, dl.honestPlain(r))
		if err != nil {
			return err
		}
		// untouched: approved by the addressee, rejected by everyone else
		c08Put(w, kr, rng, members[r], dl.dealer, members, cloneED(ed), &desc, "approve", "untouched-addressee")
		for j := range members {
			if j != r {
				c08Put(w, kr, rng, members[j], dl.dealer, members, cloneED(ed), &desc, "reject", "other-member")
			}
		}
		// presented as coming from another dealer / for another member list
		for j := range members {
			if members[j] != dl.dealer {
				c08Put(w, kr, rng, members[r], members[j], members, cloneED(ed), &desc, "reject", "other-dealer")
			}
		}
		{
			m2 := append([]int{}, members...)
			k := (r + 1) % n
			m2[k] = 9000 + su // one member replaced
			c08Put(w, kr, rng, members[r], dl.dealer, m2, cloneED(ed), &desc, "reject", "other-member-list")
			m3 := append([]int{}, members...)
			m3[0], m3[n-1] = m3[n-1], m3[0] // same set, other order
			c08Put(w, kr, rng, members[r], dl.dealer, m3, cloneED(ed), &desc, "reject", "member-list-reordered")
			m4 := append(append([]int{}, members...), 9100+su) // one more member
			c08Put(w, kr, rng, members[r], dl.dealer, m4, cloneED(ed), &desc, "reject", "member-list-extended")
		}
		// every byte of every field under three masks
		newID := 20000 + su*1000
		for pos := 0; pos < len(ed.DHKey); pos += step {
			for _, m := range masks {
				e2 := cloneED(ed)
				e2.DHKey[pos] ^= m
				d2 := desc
				newID++
				d2.dhBytes = newID
				d2.dhPoint = -1
				if g2Decodes(e2.DHKey) {
					d2.dhPoint = newID
				}
				c08Put(w, kr, rng, members[r], dl.dealer, members, e2, &d2, "reject", "dhkey-byte")
			}
		}
		for pos := 0; pos < len(ed.Signature); pos += step {
			for _, m := range masks {
				e2 := cloneED(ed)
				e2.Signature[pos] ^= m
				d2 := desc
				d2.sigKey = -1
				c08Put(w, kr, rng, members[r], dl.dealer, members, e2, &d2, "reject", "signature-byte")
			}
		}
		for pos := 0; pos < len(ed.Nonce); pos++ {
			for _, m := range masks {
				e2 := cloneED(ed)
				e2.Nonce[pos] ^= m
				d2 := desc
				d2.nonce = 1 + pos*3 + int(m)
				c08Put(w, kr, rng, members[r], dl.dealer, members, e2, &d2, "reject", "nonce-byte")
			}
		}
		for pos := 0; pos < len(ed.Cipher); pos += step {
			for _, m := range masks {
				e2 := cloneED(ed)
				e2.Cipher[pos] ^= m
				d2 := desc
				d2.intact = false
				c08Put(w, kr, rng, members[r], dl.dealer, members, e2, &d2, "reject", "cipher-byte")
			}
		}
		// truncations and extensions of every field
		type fld struct {
			name string
			get  func(*vss.EncryptedDeal) *[]byte
		}
		flds := []fld{{"dhkey", func(e *vss.EncryptedDeal) *[]byte { return &e.DHKey }},
			{"signature", func(e *vss.EncryptedDeal) *[]byte { return &e.Signature }},
			{"nonce", func(e *vss.EncryptedDeal) *[]byte { return &e.Nonce }},
			{"cipher", func(e *vss.EncryptedDeal) *[]byte { return &e.Cipher }}}
		for _, f := range flds {
			for _, how := range []string{"empty", "drop-last", "drop-first", "append-zero", "append-random", "nil"} {
				e2 := cloneED(ed)
				p := f.get(e2)
				switch how {
				case "empty":
					*p = []byte{}
				case "nil":
					*p = nil
				case "drop-last":
					*p = (*p)[:len(*p)-1]
				case "drop-first":
					*p = (*p)[1:]
				case "append-zero":
					*p = append(*p, 0)
				case "append-random":
					*p = append(*p, rng.Bytes(1+rng.Intn(4))...)
				}
				d2 := desc
				newID++
				switch f.name {
				case "dhkey":
					d2.dhBytes = newID
					d2.dhPoint = -1
					if g2Decodes(e2.DHKey) {
						// trailing bytes: the same point in another encoding
						if how == "append-zero" || how == "append-random" {
							d2.dhPoint = desc.dhPoint
						} else {
							d2.dhPoint = newID
						}
					}
				case "signature":
					d2.sigKey = -1
				case "nonce":
					d2.nonceLen = len(*p)
					d2.nonce = newID
				case "cipher":
					d2.intact = false
				}
				c08Put(w, kr, rng, members[r], dl.dealer, members, e2, &d2, "reject", f.name+"-"+how)
			}
		}
		// an unreduced coordinate in the ephemeral key (x + p): same point, other bytes
		{
			e2 := cloneED(ed)
			if nb := addP(e2.DHKey, 1); nb != nil && g2Decodes(nb) {
				e2.DHKey = nb
				d2 := desc
				newID++
				d2.dhBytes = newID
				c08Put(w, kr, rng, members[r], dl.dealer, members, e2, &d2, "reject", "dhkey-unreduced")
			}
		}
		// field swaps between two deals of the same dealer (each field validly produced, for someone else or with another key)
		r2 := (r + 1) % n
		edB, descB, _ := sealed(kr, rng, dl, r2, dl.honestPlain(r2))
		edC, descC, _ := sealed(kr, rng, dl, r, dl.honestPlain(r)) // same recipient, other ephemeral key
		for _, other := range []struct {
			e *vss.EncryptedDeal
			d edealDesc
			n string
		}{{edB, descB, "other-recipient"}, {edC, descC, "other-ephemeral"}} {
			e2 := cloneED(ed)
			e2.DHKey, e2.Signature = other.e.DHKey, other.e.Signature
			d2 := desc
			d2.sigBytes, d2.dhBytes, d2.dhPoint = other.d.sigBytes, other.d.dhBytes, other.d.dhPoint
			c08Put(w, kr, rng, members[r], dl.dealer, members, e2, &d2, "reject", "swap-key+sig-"+other.n)
			e3 := cloneED(ed)
			e3.DHKey = other.e.DHKey
			d3 := desc
			d3.dhBytes, d3.dhPoint = other.d.dhBytes, other.d.dhPoint
			c08Put(w, kr, rng, members[r], dl.dealer, members, e3, &d3, "reject", "swap-key-"+other.n)
			e4 := cloneED(ed)
			e4.Signature = other.e.Signature
			d4 := desc
			d4.sigBytes = other.d.sigBytes
			c08Put(w, kr, rng, members[r], dl.dealer, members, e4, &d4, "reject", "swap-sig-"+other.n)
			e5 := cloneED(ed)
			e5.Cipher = other.e.Cipher
			d5 := desc
			d5.sealEph, d5.sealRcpt, d5.plain = other.d.sealEph, other.d.sealRcpt, other.d.plain
			c08Put(w, kr, rng, members[r], dl.dealer, members, e5, &d5, "reject", "swap-cipher-"+other.n)
		}
		// a deal of ANOTHER dealer (valid for this recipient) presented under this dealer
		{
			od := (dealerIdx + 1) % n
			dl2 := &dealing{dealer: members[od], members: members, t: t, coeffs: randCoeffs(rng, t, BnQ)}
			edO, descO, _ := sealed(kr, rng, dl2, r, dl2.honestPlain(r))
			c08Put(w, kr, rng, members[r], dl.dealer, members, edO, &descO, "reject", "deal-of-other-dealer")
		}
		// inconsistent plaintexts sealed correctly
		mk := func(mod func(p *plainDesc), want, tag string) {
			p := dl.honestPlain(r)
			mod(&p)
			e2, d2, err := sealed(kr, rng, dl, r, p)
			if err != nil {
				return
			}
			c08Put(w, kr, rng, members[r], dl.dealer, members, e2, &d2, want, tag)
		}
		mk(func(p *plainDesc) { p.share = new(big.Int).Mod(new(big.Int).Add(p.share, big.NewInt(1)), BnQ) }, "no-approve", "share-off-by-one")
		mk(func(p *plainDesc) { p.share = refEval(dl.coeffs, (r+1)%n, BnQ) }, "no-approve", "share-of-other-index")
		for _, bt := range []int{0, 1, n + 1, n + 2, 1 << 20} {
			bt := bt
			mk(func(p *plainDesc) { p.t = bt; p.sid.t = bt }, "no-approve", "threshold-out-of-range")
		}
		// a deal that is consistent in itself (share on the committed polynomial, session id derived from
		// these very commitments) but whose polynomial has more coefficients than there are members, or
		// a single one: the threshold is out of range whatever the deal says about itself
		for _, bt := range []int{1, n + 1, n + 2, n + 3} {
			bt := bt
			mk(func(p *plainDesc) {
				c2 := randCoeffs(rng, bt, BnQ)
				p.t, p.commits, p.share = bt, c2, refEval(c2, p.idx, BnQ)
				p.sid = sidDesc{dealer: dl.dealer, members: members, commits: c2, t: bt}
			}, "no-approve", "threshold-out-of-range-consistent-deal")
		}
		// a valid threshold (2..n) announced, MORE commitments than that, the share taken from the
		// polynomial of the first T coefficients only: the share does not lie on the committed polynomial
		if t+1 <= n {
			mk(func(p *plainDesc) {
				c2 := randCoeffs(rng, t+1, BnQ)
				if c2[t].Sign() == 0 {
					c2[t] = big.NewInt(3)
				}
				p.commits, p.share = c2, refEval(c2[:t], p.idx, BnQ)
				p.sid = sidDesc{dealer: dl.dealer, members: members, commits: c2, t: t}
			}, "no-approve", "share-of-the-first-T-coefficients")
		}
		// a polynomial whose commitments make the recipient's public-share evaluation add a point to itself
		// (constant term = sum_{k>=1} c_k x^k at the recipient's abscissa): the true share is approved,
		// the share 0 - what a lost doubling would verify - is not
		mk(func(p *plainDesc) {
			c2 := craftFor(randCoeffs(rng, t, BnQ), p.idx, BnQ)
			p.commits, p.share = c2, refEval(c2, p.idx, BnQ)
			p.sid = sidDesc{dealer: dl.dealer, members: members, commits: c2, t: t}
		}, "approve", "crafted-polynomial-true-share")
		{
			// (the generator's coefficients include 0: a crafted polynomial may really take the value 0)
			c2 := craftFor(randCoeffs(rng, t, BnQ), r, BnQ)
			want0 := "no-approve"
			if refEval(c2, r, BnQ).Sign() == 0 {
				want0 = "approve"
			}
			mk(func(p *plainDesc) {
				p.commits, p.share = c2, big.NewInt(0)
				p.sid = sidDesc{dealer: dl.dealer, members: members, commits: c2, t: t}
			}, want0, "crafted-polynomial-zero-share")
		}
		mk(func(p *plainDesc) { p.idx = (r + 1) % n; p.share = refEval(dl.coeffs, p.idx, BnQ) }, "reject", "index-of-other-member")
		mk(func(p *plainDesc) { p.idx = n + 3 }, "reject", "index-out-of-range")
		if r != 0 {
			mk(func(p *plainDesc) { p.idx = 0; p.share = refEval(dl.coeffs, 0, BnQ) }, "reject", "index-zero-for-other-member")
		}
		// indices that agree with the recipient's own in the low 32 (16, 8) bits, the share being the
		// committed polynomial at THAT index
		for _, off := range []int64{1 << 32, -(1 << 32), 5 << 32, 1 << 16, 1 << 8, 1 << 31} {
			off := off
			mk(func(p *plainDesc) {
				p.idx = int(int64(r) + off)
				p.share = refEval(dl.coeffs, int(int64(r)+off), BnQ)
			}, "reject", "index-equal-modulo-word")
		}
		mk(func(p *plainDesc) {
			c := append([]*big.Int{}, p.commits...)
			c[rng.Intn(len(c))] = rng.BigBelow(BnQ)
			p.commits = c
			p.sid.commits = c
		}, "no-approve", "commitment-changed")
		mk(func(p *plainDesc) {
			c := append(append([]*big.Int{}, p.commits...), big.NewInt(0)) // same polynomial, one more (zero) commitment
			p.commits = c
			p.sid.commits = c
		}, "", "commitments-extended-zero")
		mk(func(p *plainDesc) { p.sid = sidDesc{junk: 7} }, "", "sessionid-junk")
		mk(func(p *plainDesc) {
			c2 := randCoeffs(rng, t, BnQ)
			p.sid = sidDesc{dealer: dl.dealer, members: members, commits: c2, t: t}
		}, "", "sessionid-of-other-polynomial")
		mk(func(p *plainDesc) { p.secNil = true }, "reject", "nil-share")
		// nil deal
		c08Put(w, kr, rng, members[r], dl.dealer, members, nil, nil, "reject", "nil-deal")
	}
	return nil
}
