package props

import (
	"context"
	"crypto/aes"
	"crypto/cipher"
	"encoding/binary"
	"fmt"
	"io"
	"net"
	"sort"
	"strings"
	"sync"
	"time"

	"github.com/DOSNetwork/core/p2p"
	dkg "github.com/DOSNetwork/core/share/dkg/pedersen"
	vss "github.com/DOSNetwork/core/share/vss/pedersen"
	"github.com/DOSNetwork/core/sign/bls"
	"github.com/dedis/kyber"
	"github.com/golang/protobuf/proto"
	"github.com/golang/protobuf/ptypes"

	"verif/harness/hx"
)

func init() {
	Registry["C16"] = genC16
	SubRegistry["c16-mitm"] = subC16Mitm
	SubRegistry["c16-insider"] = subC16Insider
	SubRegistry["c16-sigseq"] = subC16SigSeq
}

// ---------------------------------------------------------------- a byte-level proxy

type tamper struct {
	kind string // flip trunc trunc-raw dup-altered inject replay header-flip
	pos  int
}

// mitm forwards TCP bytes between a dialling endpoint and the real listener; frames from the
// dialler to the listener (after the handshake frame of each connection) are counted globally and
// the script says what happens to frame number i.
type mitm struct {
	ln     net.Listener
	target string
	mu     sync.Mutex
	count  int
	script map[int]tamper
	rng    *hx.Rng
	log    []string
	// a frame recorded on one connection, to be injected into the next connection between the same
	// two nodes
	recorded []byte
	replayed bool
	held     []byte // a frame kept back to leave together with the next one
}

func newMitm(target string, script map[int]tamper, rng *hx.Rng) *mitm {
	ln, err := net.Listen("tcp", "127.0.0.1:0")
	if err != nil {
		panic(err)
	}
	m := &mitm{ln: ln, target: target, script: script, rng: rng}
	go func() {
		for {
			c, err := ln.Accept()
			if err != nil {
				return
			}
			go m.serve(c)
		}
	}()
	return m
}

func (m *mitm) addr() string { return m.ln.Addr().String() }

func (m *mitm) serve(c net.Conn) {
	defer c.Close()
	s, err := net.Dial("tcp", m.target)
	if err != nil {
		return
	}
	defer s.Close()
	go func() { io.Copy(c, s); c.Close() }() // listener -> dialler: untouched
	first := true
	for {
		h := make([]byte, 4)
		if _, err := io.ReadFull(c, h); err != nil {
			return
		}
		body := make([]byte, binary.BigEndian.Uint32(h))
		if _, err := io.ReadFull(c, body); err != nil {
			return
		}
		if first {
			first = false
			s.Write(append(h, body...))
			m.mu.Lock()
			rec := m.recorded
			inject := rec != nil && !m.replayed
			if inject {
				m.replayed = true
			}
			m.mu.Unlock()
			if inject {
				time.Sleep(60 * time.Millisecond) // the handshake of this connection completes
				s.Write(rec)
			}
			continue
		}
		m.mu.Lock()
		i := m.count
		m.count++
		t, ok := m.script[i]
		m.mu.Unlock()
		frame := func(b []byte) []byte {
			hh := make([]byte, 4)
			binary.BigEndian.PutUint32(hh, uint32(len(b)))
			return append(hh, b...)
		}
		m.mu.Lock()
		held := m.held
		m.held = nil
		m.mu.Unlock()
		if held != nil {
			// the frame held back earlier and this one leave in ONE write: the receiver finds the
			// second frame's bytes right behind the first one's in whatever it reads
			s.Write(append(held, frame(body)...))
			continue
		}
		if !ok {
			s.Write(frame(body))
			continue
		}
		switch t.kind {
		case "coalesce":
			m.mu.Lock()
			m.held = frame(body)
			m.mu.Unlock()
		case "flip":
			b := append([]byte{}, body...)
			p := t.pos % (len(b) * 8)
			b[p/8] ^= 1 << uint(p%8)
			s.Write(frame(b))
		case "header-flip":
			hh := append([]byte{}, h...)
			hh[3] ^= 1 << uint(t.pos%3) // the announced length changes by 1, 2 or 4
			s.Write(append(hh, body...))
		case "trunc":
			s.Write(frame(body[:t.pos%len(body)]))
		case "trunc-raw":
			s.Write(append(h, body[:len(body)-1-t.pos%8]...))
		case "dup-altered":
			s.Write(frame(body))
			b := append([]byte{}, body...)
			b[t.pos%len(b)] ^= 0x5a
			s.Write(frame(b))
		case "inject":
			s.Write(frame(m.rng.Bytes(20 + t.pos%200)))
			s.Write(frame(body))
		case "replay":
			s.Write(frame(body))
			s.Write(frame(body))
		case "cut-replay":
			// forward, remember, cut the connection; the next connection gets the remembered frame
			s.Write(frame(body))
			m.mu.Lock()
			m.recorded = frame(body)
			m.mu.Unlock()
			time.Sleep(40 * time.Millisecond)
			return
		case "chunk":
			// the unmodified frame, arriving in several TCP segments
			fb := frame(body)
			step := 1 + t.pos%(len(fb)/3+1)
			for off := 0; off < len(fb); off += step {
				end := off + step
				if end > len(fb) {
					end = len(fb)
				}
				s.Write(fb[off:end])
				time.Sleep(2 * time.Millisecond)
			}
		}
	}
}

// ---------------------------------------------------------------- scenario: man in the middle

var c16Types = []func(i int) proto.Message{
	func(i int) proto.Message {
		return &vss.Signature{Index: uint32(i), RequestId: []byte(fmt.Sprintf("msg-%d", i)), Content: []byte(strings.Repeat("c", i%50))}
	},
	func(i int) proto.Message {
		return &dkg.PublicKey{SessionId: fmt.Sprintf("msg-%d", i), Index: uint32(i)}
	},
	// the message types of the two protocol packages share their bare names (PublicKey, Response,
	// Responses): each has its own subscriber
	func(i int) proto.Message {
		return &vss.PublicKey{Binary: []byte(fmt.Sprintf("msg-%d", i)), SenderId: []byte{byte(i), byte(i >> 8)}}
	},
	func(i int) proto.Message {
		return &dkg.Responses{SessionId: fmt.Sprintf("msg-%d", i), Response: []*dkg.Response{{Index: uint32(i)}}}
	},
	func(i int) proto.Message {
		return &vss.Responses{Responses: []*vss.Response{{Index: uint32(i), SessionID: []byte("s")}}}
	},
	func(i int) proto.Message {
		return &dkg.Deal{SessionId: fmt.Sprintf("msg-%d", i), Index: uint32(i)}
	},
	// a message whose every field can be at its default: the first one of a run (i = 6) encodes to
	// NO bytes at all - an authentic message with an empty payload is still a message
	func(i int) proto.Message {
		return &p2p.Ping{Count: uint64(i / 7)}
	},
}

func msgIndex(m proto.Message) (int, int) {
	switch x := m.(type) {
	case *vss.Signature:
		return 0, int(x.Index)
	case *dkg.PublicKey:
		return 1, int(x.Index)
	case *vss.PublicKey:
		if len(x.SenderId) == 2 {
			return 2, int(x.SenderId[0]) | int(x.SenderId[1])<<8
		}
	case *dkg.Responses:
		if len(x.Response) == 1 {
			return 3, int(x.Response[0].Index)
		}
	case *vss.Responses:
		if len(x.Responses) == 1 {
			return 4, int(x.Responses[0].Index)
		}
	case *dkg.Deal:
		return 5, int(x.Index)
	case *p2p.Ping:
		return 6, int(x.Count)*7 + 6
	}
	return -1, -1
}

// arg: seed=..,n=..,ops=i:kind:pos;i:kind:pos...   prints "t.i t.i ... | notes"
func subC16Mitm(arg string) string {
	a := parseArg(strings.ReplaceAll(arg, ";", "+"))
	nmsg := atoi(a["n"])
	ntypes := atoi(a["types"])
	if ntypes <= 0 || ntypes > len(c16Types) {
		ntypes = 2
	}
	rng := hx.NewRng(uint64(atoi(a["seed"])))
	script := map[int]tamper{}
	if a["ops"] != "" {
		for _, op := range strings.Split(a["ops"], "+") {
			f := strings.Split(op, ":")
			if len(f) == 3 {
				script[atoi(f[0])] = tamper{f[1], atoi(f[2])}
			}
		}
	}
	pa, pb := freePort(), freePort()
	px := newMitm("127.0.0.1:"+pb, script, rng)
	memA := &staticMembers{addrs: map[string]string{"b": px.addr()}}
	memB := &staticMembers{addrs: map[string]string{"a": "127.0.0.1:" + pa}}
	sa := startServer("a", pa, memA)
	sb := startServer("b", pb, memB)
	var mu sync.Mutex
	var got []string
	var bad []string
	sent := map[string][]byte{}
	for ti := range c16Types {
		ch, _ := sb.SubscribeMsg(50, reflectZero(c16Types[ti](0)))
		go func(ti int, ch chan p2p.P2PMessage) {
			for m := range ch {
				t, i := msgIndex(m.Msg.Message)
				key := fmt.Sprintf("%d.%d", t, i)
				raw, _ := proto.Marshal(m.Msg.Message)
				mu.Lock()
				if t != ti {
					bad = append(bad, "type "+key+" delivered to the subscriber of type "+fmt.Sprint(ti))
				}
				if want, ok := sent[key]; !ok || string(want) != string(raw) {
					bad = append(bad, "delivered message "+key+" is not byte-for-byte a message that was sent")
				}
				got = append(got, key)
				mu.Unlock()
				go sb.Reply(context.Background(), m.Sender, m.RequestNonce, m.Msg.Message)
			}
		}(ti, ch)
	}
	time.Sleep(30 * time.Millisecond)
	for i := 0; i < nmsg; i++ {
		t := i % ntypes
		msg := c16Types[t](i)
		raw, _ := proto.Marshal(msg)
		mu.Lock()
		sent[fmt.Sprintf("%d.%d", t, i)] = raw
		mu.Unlock()
		ctx, cancel := context.WithTimeout(context.Background(), 700*time.Millisecond)
		sa.Request(ctx, []byte("b"), msg)
		cancel()
	}
	time.Sleep(150 * time.Millisecond)
	mu.Lock()
	defer mu.Unlock()
	return strings.Join(got, " ") + "|" + strings.Join(bad, "; ")
}

func reflectZero(m proto.Message) interface{} {
	switch m.(type) {
	case *vss.Signature:
		return vss.Signature{}
	case *dkg.PublicKey:
		return dkg.PublicKey{}
	case *vss.PublicKey:
		return vss.PublicKey{}
	case *dkg.Responses:
		return dkg.Responses{}
	case *vss.Responses:
		return vss.Responses{}
	case *dkg.Deal:
		return dkg.Deal{}
	case *p2p.Ping:
		return p2p.Ping{}
	}
	return nil
}

// ---------------------------------------------------------------- scenario: a peer that holds the session key

type rawPeer struct {
	conn net.Conn
	gcm  cipher.AEAD
	nonc []byte
	sec  kyber.Scalar
	id   []byte
}

func dialRaw(addr string, id []byte) (*rawPeer, error) {
	conn, err := net.Dial("tcp", addr)
	if err != nil {
		return nil, err
	}
	sec := Bn.G2().Scalar().Pick(Bn.RandomStream())
	pub := Bn.G2().Point().Mul(sec, nil)
	srvFrame, err := readFrame(conn)
	if err != nil {
		return nil, err
	}
	bts, _ := p2p.VerifEncodeProto(&p2p.ID{PublicKey: PtBytes(pub), Id: id}, id, nil, 0, false)
	writeFrame(conn, bts)
	_, _, _, m, err := p2p.VerifDecodeBytes(srvFrame, nil)
	if err != nil {
		return nil, err
	}
	sid, ok := m.(*p2p.ID)
	if !ok {
		return nil, fmt.Errorf("no id frame")
	}
	sp := Bn.G2().Point()
	if err := sp.UnmarshalBinary(sid.GetPublicKey()); err != nil {
		return nil, err
	}
	dh := PtBytes(Bn.G2().Point().Mul(sec, sp))
	block, _ := aes.NewCipher(dh[0:32])
	gcm, _ := cipher.NewGCM(block)
	return &rawPeer{conn: conn, gcm: gcm, nonc: dh[32:44], sec: sec, id: id}, nil
}

func (r *rawPeer) sendPlain(plain []byte) { writeFrame(r.conn, r.gcm.Seal(nil, r.nonc, plain, nil)) }

// arg: valid=<k>,bad=<kind>,seed=..  : k well-formed signed messages, then one bad packet, then one more valid
func subC16Insider(arg string) string {
	a := parseArg(arg)
	k, kind := atoi(a["valid"]), a["bad"]
	pa := freePort()
	mem := &staticMembers{addrs: map[string]string{}}
	sa := startServer("a", pa, mem)
	var mu sync.Mutex
	var got []string
	ch, _ := sa.SubscribeMsg(50, vss.Signature{})
	go func() {
		for m := range ch {
			if s, ok := m.Msg.Message.(*vss.Signature); ok {
				mu.Lock()
				got = append(got, fmt.Sprintf("0.%d", s.Index))
				mu.Unlock()
			}
		}
	}()
	time.Sleep(20 * time.Millisecond)
	peer, err := dialRaw("127.0.0.1:"+pa, []byte("evil"))
	if err != nil {
		return "dial-failed:" + err.Error()
	}
	other := Bn.G2().Scalar().Pick(Bn.RandomStream())
	pkt := func(i int, mode string) []byte {
		an, _ := ptypes.MarshalAny(&vss.Signature{Index: uint32(i), RequestId: []byte("x")})
		sg, _ := bls.Sign(Bn, peer.sec, an.Value)
		p := &p2p.Package{Anything: an, Sender: peer.id, Signature: sg, RequestNonce: uint64(i)}
		switch mode {
		case "sig-absent":
			p.Signature = nil
		case "sig-other-key":
			p.Signature, _ = bls.Sign(Bn, other, an.Value)
		case "sig-other-content":
			an2, _ := ptypes.MarshalAny(&vss.Signature{Index: uint32(i + 1000), RequestId: []byte("x")})
			p.Signature, _ = bls.Sign(Bn, peer.sec, an2.Value)
		case "sig-garbage":
			p.Signature = make([]byte, 64)
		case "payload-swapped":
			// a valid signature, the payload replaced afterwards
			an2, _ := ptypes.MarshalAny(&vss.Signature{Index: uint32(i + 2000), RequestId: []byte("x")})
			p.Anything = an2
		case "unknown-type":
			p.Anything.TypeUrl = "type.googleapis.com/nosuch.Type"
		case "no-payload":
			p.Anything = nil
		}
		b, _ := proto.Marshal(p)
		return b
	}
	for i := 0; i < k; i++ {
		peer.sendPlain(pkt(i, "valid"))
	}
	switch kind {
	case "not-a-package":
		peer.sendPlain([]byte{0x0a, 0xff, 0xff, 0x03, 1, 2})
	case "unsealed":
		writeFrame(peer.conn, pkt(k, "valid"))
	case "none":
	default:
		peer.sendPlain(pkt(k, kind))
	}
	time.Sleep(60 * time.Millisecond)
	peer.sendPlain(pkt(k+1, "valid"))
	time.Sleep(120 * time.Millisecond)
	mu.Lock()
	defer mu.Unlock()
	return strings.Join(got, " ") + "|"
}

// ---------------------------------------------------------------- scenario: a key-holding peer, a scripted packet sequence
//
// One connection, a sequence of packets; each step is either a correctly signed packet or a packet
// with a NEW payload that carries the signature bytes of an earlier packet of the same connection
// (the last accepted one, the first one, any one): a signature that was accepted for one payload
// says nothing about another payload.  Whether a packet is authentic is not taken from the script
// but decided with bls.Verify under the key presented in the handshake.
//
// arg: steps=<tok>+<tok>+...,pace=<ms>,seed=..   tokens (step number n = position in the list):
//   v        vss.Signature{Index: n}, correctly signed
//   vp       p2p.Ping{Count: n}, correctly signed
//   r<j>     vss.Signature{Index: n} carrying the signature bytes of step j's packet
//   r<j>p    p2p.Ping{Count: n} carrying the signature bytes of step j's packet
//   x<j>     step j's own message with one more field set (same type, same index, other bytes),
//            carrying the signature bytes of step j's packet
// prints "delivered keys | authentic keys | notes"   (key = <type>.<n>, type 0 = vss.Signature, 6 = Ping;
// a delivery whose bytes are not those of packet n is printed as <type>.<n>!)
func subC16SigSeq(arg string) string {
	a := parseArg(arg)
	steps := strings.Split(a["steps"], "+")
	pace := time.Duration(atoi(a["pace"])) * time.Millisecond
	pa := freePort()
	mem := &staticMembers{addrs: map[string]string{}}
	sa := startServer("a", pa, mem)
	var mu sync.Mutex
	var got []string
	sentRaw := map[string][]byte{}
	collect := func(ch chan p2p.P2PMessage) {
		for m := range ch {
			t, n := -1, -1
			switch x := m.Msg.Message.(type) {
			case *vss.Signature:
				t, n = 0, int(x.Index)
			case *p2p.Ping:
				t, n = 6, int(x.Count)
			}
			key := fmt.Sprintf("%d.%d", t, n)
			raw, _ := proto.Marshal(m.Msg.Message)
			mu.Lock()
			if want, ok := sentRaw[key]; !ok || string(want) != string(raw) {
				key += "!"
			}
			got = append(got, key)
			mu.Unlock()
		}
	}
	chS, _ := sa.SubscribeMsg(50, vss.Signature{})
	chP, _ := sa.SubscribeMsg(50, p2p.Ping{})
	go collect(chS)
	go collect(chP)
	time.Sleep(20 * time.Millisecond)
	peer, err := dialRaw("127.0.0.1:"+pa, []byte("evil"))
	if err != nil {
		return "dial-failed:" + err.Error()
	}
	pub := Bn.G2().Point().Mul(peer.sec, nil)
	sigs := make([][]byte, len(steps))
	msgs := make([]proto.Message, len(steps))
	var authentic, notes []string
	// the receiver closes the connection (asynchronously) once it has rejected a packet: what is sent
	// after the first packet that does not verify may or may not still be handled
	nAuth, sawBad := 0, false
	for n, tok := range steps {
		var msg proto.Message
		from := -1
		ping := strings.HasSuffix(tok, "p")
		body := strings.TrimSuffix(tok, "p")
		switch {
		case body == "v":
		case strings.HasPrefix(body, "r") || strings.HasPrefix(body, "x"):
			from = atoi(body[1:])
			if from < 0 || from >= n || sigs[from] == nil {
				return "bad-script:" + tok
			}
		default:
			return "bad-script:" + tok
		}
		t := 0
		if strings.HasPrefix(body, "x") {
			switch o := msgs[from].(type) {
			case *vss.Signature:
				msg = &vss.Signature{Index: o.Index, RequestId: o.RequestId, Content: []byte{byte(n), 1}}
			case *p2p.Ping:
				// the same count cannot be encoded in other bytes: another count
				msg = &p2p.Ping{Count: uint64(n)}
				t = 6
			}
		} else if ping {
			msg = &p2p.Ping{Count: uint64(n)}
			t = 6
		} else {
			msg = &vss.Signature{Index: uint32(n), RequestId: []byte("x")}
		}
		msgs[n] = msg
		an, _ := ptypes.MarshalAny(msg)
		var sg []byte
		if from >= 0 {
			sg = append([]byte{}, sigs[from]...)
		} else {
			sg, _ = bls.Sign(Bn, peer.sec, an.Value)
		}
		sigs[n] = sg
		key := fmt.Sprintf("%d.%d", t, n)
		if x, ok := msg.(*vss.Signature); ok && int(x.Index) != n {
			key = fmt.Sprintf("%d.%d", t, x.Index) // x<j>: the index of step j, other bytes
		}
		raw, _ := proto.Marshal(msg)
		isAuth := bls.Verify(Bn, pub, an.Value, sg) == nil
		mu.Lock()
		if isAuth {
			sentRaw[key] = raw
		} else if _, ok := sentRaw[key]; !ok {
			sentRaw[key] = nil // never authentic: whatever is delivered under this key is marked
		}
		mu.Unlock()
		if isAuth {
			authentic = append(authentic, key)
			if !sawBad {
				nAuth++
			}
		} else {
			sawBad = true
		}
		if (from < 0) != isAuth {
			notes = append(notes, fmt.Sprintf("step %d (%s): bls.Verify says authentic=%v", n, tok, isAuth))
		}
		b, _ := proto.Marshal(&p2p.Package{Anything: an, Sender: peer.id, Signature: sg, RequestNonce: uint64(n)})
		peer.sendPlain(b)
		if pace > 0 {
			time.Sleep(pace)
		}
	}
	// until every authentic packet before the first bad one has arrived (bounded), then a settling
	// time for anything else
	for dl := time.Now().Add(4 * time.Second); time.Now().Before(dl); {
		mu.Lock()
		n := len(got)
		mu.Unlock()
		if n >= nAuth {
			break
		}
		time.Sleep(10 * time.Millisecond)
	}
	time.Sleep(300 * time.Millisecond)
	mu.Lock()
	defer mu.Unlock()
	return strings.Join(got, " ") + "|" + strings.Join(authentic, " ") + "|" + strings.Join(notes, "; ")
}

// ---------------------------------------------------------------- generator

func genC16(rng *hx.Rng, tier string, w *hx.Writer) error {
	var jobs []*c12job
	honestFrame := func(t, i int) string {
		pl := hx.L(hx.Zi(t), hx.Zi(i))
		return hx.L(hx.Zi(2), hx.Zi(1), pl, hx.Zi(1), hx.L(hx.Zi(1), pl), hx.Zi(i), hx.Zi(0))
	}
	deliver := func(t, i int) string { return hx.L(hx.Zi(1), hx.Zi(t), hx.Zi(i)) }
	nScen := 24
	if tier == "thorough" {
		nScen = 200
	}
	kinds := []string{"flip", "flip", "flip", "header-flip", "trunc", "trunc-raw", "dup-altered", "inject", "cut-replay"}
	for it := 0; it < nScen; it++ {
		nmsg := 3 + rng.Intn(5)
		kind := "none"
		at := -1
		if it%6 != 0 {
			kind = kinds[rng.Intn(len(kinds))]
			at = rng.Intn(nmsg)
		}
		posn := rng.Intn(4000)
		if it%11 == 3 {
			kind = "replay"
			at = rng.Intn(nmsg)
		}
		if it%6 == 1 || it%6 == 4 {
			kind = "chunk"
			at = rng.Intn(nmsg)
		}
		if it%8 == 5 {
			kind = "cut-replay"
			at = rng.Intn(nmsg - 1)
		}
		if it%12 == 7 || it%12 == 2 {
			// the proxy keeps one frame back (its sender gives up waiting for the answer and sends the
			// next message) and forwards the two frames in a single write
			kind = "coalesce"
			at = rng.Intn(nmsg - 1)
		}
		ops := ""
		if at >= 0 {
			ops = fmt.Sprintf("%d:%s:%d", at, kind, posn)
		}
		ntypes := 2
		if it%3 == 0 { // every message type the node exchanges, each with its own subscriber
			ntypes = len(c16Types)
			if kind == "none" {
				nmsg = ntypes + rng.Intn(ntypes+1)
			}
		}
		arg := fmt.Sprintf("seed=%d,n=%d,types=%d,ops=%s", it+1, nmsg, ntypes, ops)
		// the model's stream: honest frames, with the script's effect on frame `at`
		var frames, expect []string
		firstBad := -1
		for i := 0; i < nmsg; i++ {
			t := i % ntypes
			switch {
			case i != at || kind == "none" || kind == "chunk" || kind == "coalesce":
				frames = append(frames, honestFrame(t, i))
			case kind == "inject":
				frames = append(frames, hx.L(hx.Zi(0)), honestFrame(t, i))
			case kind == "dup-altered" || kind == "cut-replay":
				frames = append(frames, honestFrame(t, i), hx.L(hx.Zi(0)))
			case kind == "replay":
				frames = append(frames, honestFrame(t, i), honestFrame(t, i))
			default:
				frames = append(frames, hx.L(hx.Zi(0)))
			}
		}
		for i := 0; i < nmsg; i++ {
			t := i % ntypes
			if i == at && kind != "none" && kind != "replay" && kind != "chunk" && kind != "coalesce" {
				if kind == "dup-altered" || kind == "cut-replay" {
					expect = append(expect, deliver(t, i))
				}
				expect = append(expect, hx.E)
				firstBad = i
				break
			}
			expect = append(expect, deliver(t, i))
			if i == at && kind == "replay" {
				expect = append(expect, deliver(t, i))
			}
		}
		nExpect := 0
		for _, e := range expect {
			if e != hx.E {
				nExpect++
			}
		}
		kindC, nm, fb := kind, nmsg, firstBad
		jobs = append(jobs, &c12job{
			c:   hx.Case{Entry: "p2precv", Op: 1, Args: hx.L(hx.Zi(1), hx.Zi(1), hx.L(frames...)), Tags: []string{"mitm", "k:" + kind, "nt"}},
			sub: "c16-mitm", arg: arg, timeout: 60 * time.Second, group: "p2p-connection", solo: true,
			finish: func(out string) (string, bool) {
				parts := strings.SplitN(out, "|", 2)
				if len(parts) < 2 {
					return hx.B([]byte(out)), false
				}
				var ds []string
				if parts[0] != "" {
					ds = strings.Fields(parts[0])
				}
				if kindC == "coalesce" {
					// two messages arrive in one read and go to different subscribers (one goroutine per
					// message type appends to the list): their order in the list is the scheduler's
					sort.SliceStable(ds, func(a, b int) bool {
						var ta, ia, tb, ib int
						fmt.Sscanf(ds[a], "%d.%d", &ta, &ia)
						fmt.Sscanf(ds[b], "%d.%d", &tb, &ib)
						return ia < ib
					})
				}
				// the guaranteed prefix: everything before the first bad frame, then the error
				var impl []string
				for i := 0; i < len(ds) && i < nExpect; i++ {
					var t, idx int
					fmt.Sscanf(ds[i], "%d.%d", &t, &idx)
					impl = append(impl, deliver(t, idx))
				}
				if fb >= 0 {
					impl = append(impl, hx.E)
				}
				ok := parts[1] == ""
				// each message at most once (an exact replay of a frame is outside the property)
				seen := map[string]int{}
				for _, d := range ds {
					seen[d]++
					if seen[d] > 1 && kindC != "replay" {
						ok = false
					}
				}
				if (kindC == "none" || kindC == "chunk" || kindC == "coalesce") && len(ds) != nm {
					ok = false
				}
				return hx.L(impl...), ok
			},
			explain: func(class, out, panicLine string) (string, string) {
				sc := "driver sub c16-mitm " + arg
				switch class {
				case "P":
					return "receiver-crash", "the receiver crashed (" + sc + "): " + panicLine
				case "H":
					return "receiver-hang", "the scenario did not finish (" + sc + ")"
				}
				return "unauthentic-delivery", "a subscriber received something the remote endpoint did not send, or the same message twice, or an untampered stream was not delivered completely (" + sc + "): " + out
			},
		})
	}
	// a peer that holds the session key
	ins := []string{"none", "sig-absent", "sig-other-key", "sig-other-content", "sig-garbage", "payload-swapped", "unknown-type", "no-payload", "not-a-package", "unsealed"}
	for rep := 0; rep < 1+len(jobs)/100; rep++ {
		for _, kind := range ins {
			k := rng.Intn(4)
			var frames, expect []string
			for i := 0; i < k; i++ {
				frames = append(frames, honestFrame(0, i))
				expect = append(expect, deliver(0, i))
			}
			pl := hx.L(hx.Zi(0), hx.Zi(k))
			mk := func(anyv, known, sig string) string {
				return hx.L(hx.Zi(2), hx.Zi(1), anyv, known, sig, hx.Zi(k), hx.Zi(0))
			}
			switch kind {
			case "none":
			case "sig-absent", "sig-garbage":
				frames = append(frames, mk(pl, hx.Zi(1), "N"))
			case "sig-other-key":
				frames = append(frames, mk(pl, hx.Zi(1), hx.L(hx.Zi(7), pl)))
			case "sig-other-content":
				frames = append(frames, mk(pl, hx.Zi(1), hx.L(hx.Zi(1), hx.L(hx.Zi(0), hx.Zi(k+1000)))))
			case "payload-swapped":
				frames = append(frames, mk(hx.L(hx.Zi(0), hx.Zi(k+2000)), hx.Zi(1), hx.L(hx.Zi(1), pl)))
			case "unknown-type":
				frames = append(frames, mk(pl, hx.Zi(0), hx.L(hx.Zi(1), pl)))
			case "no-payload":
				frames = append(frames, mk("N", hx.Zi(1), hx.L(hx.Zi(1), pl)))
			case "not-a-package":
				frames = append(frames, hx.L(hx.Zi(1), hx.Zi(1)))
			case "unsealed":
				frames = append(frames, hx.L(hx.Zi(0)))
			}
			if kind == "none" {
				frames = append(frames, honestFrame(0, k+1))
				expect = append(expect, deliver(0, k+1))
			} else {
				expect = append(expect, hx.E)
			}
			kk, kd := k, kind
			arg := fmt.Sprintf("valid=%d,bad=%s,seed=%d", k, kind, rep)
			jobs = append(jobs, &c12job{
				c:   hx.Case{Entry: "p2precv", Op: 1, Args: hx.L(hx.Zi(1), hx.Zi(1), hx.L(frames...)), Tags: []string{"insider", "k:" + kind, "nt"}},
				sub: "c16-insider", arg: arg, timeout: 30 * time.Second, group: "p2p-connection",
				finish: func(out string) (string, bool) {
					parts := strings.SplitN(out, "|", 2)
					var ds []string
					if parts[0] != "" {
						ds = strings.Fields(parts[0])
					}
					var impl []string
					ok := len(parts) == 2
					for i, d := range ds {
						var t, idx int
						fmt.Sscanf(d, "%d.%d", &t, &idx)
						// only the indices that were sent with a valid signature may ever appear
						if !(idx < kk || idx == kk+1) {
							ok = false
						}
						if i < kk || kd == "none" {
							impl = append(impl, deliver(t, idx))
						}
					}
					if kd != "none" {
						impl = append(impl, hx.E)
					}
					return hx.L(impl...), ok
				},
				explain: func(class, out, panicLine string) (string, string) {
					sc := "driver sub c16-insider " + arg
					switch class {
					case "P":
						return "receiver-crash", "the receiver crashed (" + sc + "): " + panicLine
					case "H":
						return "receiver-hang", "the scenario did not finish (" + sc + ")"
					}
					return "unauthentic-delivery", "a packet whose payload signature does not verify under the handshake key was delivered (" + sc + "): " + out
				},
			})
		}
	}
	// a peer that holds the session key sends a SEQUENCE of packets on one connection: correctly
	// signed ones and packets with a new payload that carry the signature bytes of an earlier packet
	// of the connection (the last accepted one, the first one, any earlier one; the same or another
	// message type).  Judged: what is delivered is exactly the set of packets whose signature verifies
	// (bls.Verify in the scenario) for their payload under the handshake key, each once, byte-for-byte.
	{
		nSeq := 10
		if tier == "thorough" {
			nSeq = 60
		}
		fixed := [][]string{
			{"v", "r0", "v"},
			{"v", "v", "v", "r2", "v"},
			{"v", "v", "v", "r0", "v"},
			{"vp", "vp", "r1p", "r1p", "vp"},
		}
		for it := 0; it < nSeq; it++ {
			var steps []string
			if it < len(fixed) {
				steps = fixed[it]
			} else {
				n := 3 + rng.Intn(6)
				var valid []int
				for i := 0; i < n; i++ {
					p := ""
					if rng.Intn(3) == 0 {
						p = "p"
					}
					switch {
					case i == 0 || i == n-1 || rng.Intn(2) == 0:
						steps = append(steps, "v"+p)
						valid = append(valid, i)
					default:
						j := valid[len(valid)-1] // mostly the packet accepted last
						if rng.Intn(3) == 0 {
							j = valid[rng.Intn(len(valid))]
						}
						if rng.Intn(4) == 0 {
							steps = append(steps, fmt.Sprintf("x%d", j))
						} else {
							steps = append(steps, fmt.Sprintf("r%d%s", j, p))
						}
					}
				}
			}
			pace := []int{0, 0, 3, 25}[it%4]
			arg := fmt.Sprintf("steps=%s,pace=%d,seed=%d", strings.Join(steps, "+"), pace, it+1)
			// the model's stream
			var frames []string
			typeOf := make([]int, len(steps))
			firstBad := -1
			for n, tok := range steps {
				t := 0
				if strings.HasSuffix(tok, "p") {
					t = 6
				}
				body := strings.TrimSuffix(tok, "p")
				if body == "v" {
					typeOf[n] = t
					frames = append(frames, honestFrame(t, n))
					continue
				}
				j := atoi(body[1:])
				if body[0] == 'x' {
					t = typeOf[j]
				}
				typeOf[n] = t
				// content id n+5000: not the content of any honest packet; signed content: that of step j
				frames = append(frames, hx.L(hx.Zi(2), hx.Zi(1), hx.L(hx.Zi(t), hx.Zi(n+5000)), hx.Zi(1),
					hx.L(hx.Zi(1), hx.L(hx.Zi(typeOf[j]), hx.Zi(j))), hx.Zi(n), hx.Zi(0)))
				if firstBad < 0 {
					firstBad = n
				}
			}
			fb, st := firstBad, steps
			jobs = append(jobs, &c12job{
				c:   hx.Case{Entry: "p2precv", Op: 1, Args: hx.L(hx.Zi(1), hx.Zi(1), hx.L(frames...)), Tags: []string{"insider-seq", "k:sig-reused", "nt"}},
				sub: "c16-sigseq", arg: arg, timeout: 30 * time.Second, group: "p2p-connection",
				finish: func(out string) (string, bool) {
					parts := strings.SplitN(out, "|", 3)
					if len(parts) < 3 {
						return hx.B([]byte(out)), false
					}
					ds, auth := strings.Fields(parts[0]), strings.Fields(parts[1])
					ok := parts[2] == ""
					isAuth := map[string]bool{}
					for _, k := range auth {
						isAuth[k] = true
					}
					seen := map[string]int{}
					for _, d := range ds {
						seen[d]++
						// only packets whose signature verifies, byte-for-byte, each once
						if !isAuth[d] || seen[d] > 1 {
							ok = false
						}
					}
					// the guaranteed prefix: each packet sent before the first bad one is delivered (the
					// connection is closed, asynchronously, after a rejected packet), then the error
					var impl []string
					for n := range st {
						if n == fb {
							break
						}
						if k := fmt.Sprintf("%d.%d", typeOf[n], n); seen[k] > 0 {
							impl = append(impl, deliver(typeOf[n], n))
						} else {
							ok = false
						}
					}
					if fb >= 0 {
						impl = append(impl, hx.E)
					}
					return hx.L(impl...), ok
				},
				explain: func(class, out, panicLine string) (string, string) {
					sc := "driver sub c16-sigseq " + arg
					switch class {
					case "P":
						return "receiver-crash", "the receiver crashed (" + sc + "): " + panicLine
					case "H":
						return "receiver-hang", "the scenario did not finish (" + sc + ")"
					}
					return "signature-not-bound-to-payload", "on one connection, a packet whose payload signature does not verify under the handshake key was delivered, or a correctly signed packet sent before any bad one was not (delivered | authentic | notes; " + sc + "): " + out
				},
			})
		}
	}
	runC12Jobs(jobs, w)
	return nil
}
