package props

import (
	"bytes"
	"crypto/ed25519"
	"crypto/sha512"
	"fmt"
	"math/big"

	"github.com/DOSNetwork/core/group/edwards25519"
	"github.com/DOSNetwork/core/sign/schnorr"
	"github.com/dedis/kyber"

	"verif/harness/hx"
)

func init() { Registry["C20"] = genC20 }

var edSuite = edwards25519.NewBlakeSHA256Ed25519()

func leBytes(z *big.Int, n int) []byte {
	b := z.Bytes()
	out := make([]byte, n)
	for i := 0; i < len(b) && i < n; i++ {
		out[i] = b[len(b)-1-i]
	}
	return out
}

func leInt(b []byte) *big.Int {
	r := make([]byte, len(b))
	for i := range b {
		r[len(b)-1-i] = b[i]
	}
	return new(big.Int).SetBytes(r)
}

func arr32(b []byte) (a [32]byte) { copy(a[:], b); return }

func scOperand(rng *hx.Rng) *big.Int {
	two := big.NewInt(2)
	cat := []*big.Int{
		big.NewInt(0), big.NewInt(1), new(big.Int).Sub(EdL, big.NewInt(1)), new(big.Int).Set(EdL), new(big.Int).Add(EdL, big.NewInt(1)),
		new(big.Int).Exp(two, big.NewInt(252), nil), new(big.Int).Sub(new(big.Int).Exp(two, big.NewInt(255), nil), big.NewInt(19)),
		new(big.Int).Sub(new(big.Int).Exp(two, big.NewInt(256), nil), big.NewInt(1)),
		new(big.Int).Sub(new(big.Int).Exp(two, big.NewInt(231), nil), big.NewInt(1)), new(big.Int).Exp(two, big.NewInt(231), nil),
		new(big.Int).Mul(EdL, big.NewInt(15)),
	}
	switch k := rng.Intn(3); k {
	case 0:
		return cat[rng.Intn(len(cat))]
	case 1:
		return new(big.Int).Mod(new(big.Int).SetBytes(rng.Bytes(40)), EdL) // reduced
	}
	return new(big.Int).SetBytes(rng.Bytes(32)) // any 32 bytes
}

func edHash(R, A []byte, msg []byte) *big.Int {
	h := sha512.New()
	h.Write(R)
	h.Write(A)
	h.Write(msg)
	return new(big.Int).Mod(leInt(h.Sum(nil)), EdL)
}

func genC20(rng *hx.Rng, tier string, w *hx.Writer) error {
	n := 300
	if tier == "thorough" {
		n = 6000
	}
	// ---- the scalar routines against the limb model and against math/big
	for it := 0; it < n; it++ {
		a, b, c := scOperand(rng), scOperand(rng), scOperand(rng)
		A, B, C := arr32(leBytes(a, 32)), arr32(leBytes(b, 32)), arr32(leBytes(c, 32))
		var op int
		var args string
		var got [32]byte
		var want *big.Int
		name := ""
		switch it % 5 {
		case 0:
			op, args, name = 1, hx.L(hx.Z(a), hx.Z(b), hx.Z(c)), "scMulAdd"
			got = edwards25519.VerifScMulAdd(A, B, C)
			want = new(big.Int).Mod(new(big.Int).Add(new(big.Int).Mul(a, b), c), EdL)
		case 1:
			op, args, name = 2, hx.L(hx.Z(a), hx.Z(b)), "scMul"
			got = edwards25519.VerifScMul(A, B)
			want = new(big.Int).Mod(new(big.Int).Mul(a, b), EdL)
		case 2:
			op, args, name = 3, hx.L(hx.Z(a), hx.Z(c)), "scAdd"
			got = edwards25519.VerifScAdd(A, C)
			want = new(big.Int).Mod(new(big.Int).Add(a, c), EdL)
		case 3:
			op, args, name = 4, hx.L(hx.Z(a), hx.Z(c)), "scSub"
			got = edwards25519.VerifScSub(A, C)
			want = new(big.Int).Mod(new(big.Int).Sub(a, c), EdL)
		case 4:
			var in [64]byte
			s := new(big.Int).SetBytes(rng.Bytes(64))
			if rng.Intn(4) == 0 {
				s = new(big.Int).Sub(new(big.Int).Lsh(big.NewInt(1), 512), big.NewInt(int64(1+rng.Intn(3))))
			}
			copy(in[:], leBytes(s, 64))
			op, args, name = 5, hx.L(hx.Z(s)), "scReduce"
			got = edwards25519.VerifScReduce(in)
			want = new(big.Int).Mod(s, EdL)
		}
		impl := hx.Z(leInt(got[:]))
		oracle := "ok"
		if leInt(got[:]).Cmp(want) != 0 {
			oracle = hx.Fail("scalar-arithmetic", fmt.Sprintf("%s differs from integer arithmetic modulo the group order: got %s want %s", name, leInt(got[:]), want))
		}
		w.Put(hx.Case{Entry: "sc", Op: op, Args: args, Impl: impl, Oracle: oracle, Tags: []string{"scalar", "r:" + name, "nt"}})
	}
	// ---- the public scalar API (Add, Sub, Mul, Neg, Inv, Div, SetBytes, marshal round trip) against math/big
	for it := 0; it < n; it++ {
		a, b := new(big.Int).Mod(scOperand(rng), EdL), new(big.Int).Mod(scOperand(rng), EdL)
		sa := edSuite.Scalar().SetBytes(leBytes(a, 32))
		sb := edSuite.Scalar().SetBytes(leBytes(b, 32))
		problems := ""
		chk := func(what string, s kyber.Scalar, want *big.Int) {
			bts, _ := s.MarshalBinary()
			if leInt(bts).Cmp(want) != 0 {
				problems += fmt.Sprintf("%s = %s, integer arithmetic gives %s; ", what, leInt(bts), want)
			}
			back := edSuite.Scalar()
			if err := back.UnmarshalBinary(bts); err != nil || !back.Equal(s) {
				problems += what + ": encoding does not round-trip; "
			}
		}
		chk("a+b", edSuite.Scalar().Add(sa, sb), new(big.Int).Mod(new(big.Int).Add(a, b), EdL))
		chk("a-b", edSuite.Scalar().Sub(sa, sb), new(big.Int).Mod(new(big.Int).Sub(a, b), EdL))
		chk("a*b", edSuite.Scalar().Mul(sa, sb), new(big.Int).Mod(new(big.Int).Mul(a, b), EdL))
		chk("-a", edSuite.Scalar().Neg(sa), new(big.Int).Mod(new(big.Int).Neg(a), EdL))
		if b.Sign() != 0 && it%10 == 0 {
			inv := new(big.Int).ModInverse(b, EdL)
			chk("1/b", edSuite.Scalar().Inv(sb), inv)
			chk("a/b", edSuite.Scalar().Div(sa, sb), new(big.Int).Mod(new(big.Int).Mul(a, inv), EdL))
		}
		un := rng.Bytes(64)
		chk("SetBytes(64 bytes)", edSuite.Scalar().SetBytes(un), new(big.Int).Mod(leInt(un), EdL))
		// one scalar OBJECT assigned several times (a large value, then small ones with leading zero
		// bytes, SetInt64 of negative and small numbers, Zero / One): every assignment overwrites
		reuse := edSuite.Scalar().SetBytes(leBytes(new(big.Int).Sub(EdL, big.NewInt(1)), 32))
		small := new(big.Int).Rsh(a, uint(8*(1+rng.Intn(20))))
		chk("reused.SetBytes(small)", reuse.SetBytes(leBytes(small, 32)), small)
		chk("reused.SetBytes(a)", reuse.SetBytes(leBytes(a, 32)), a)
		chk("reused.SetInt64(-1)", reuse.SetInt64(-1), new(big.Int).Sub(EdL, big.NewInt(1)))
		chk("reused.SetInt64(2)", reuse.SetInt64(2), big.NewInt(2))
		chk("reused.Set(b)", reuse.Set(sb), b)
		chk("reused.Zero", reuse.Zero(), big.NewInt(0))
		chk("reused.SetBytes(64 bytes)", reuse.SetBytes(un), new(big.Int).Mod(leInt(un), EdL))
		chk("reused.One", reuse.One(), big.NewInt(1))
		// the operands are still what they were
		chk("a after use", sa, a)
		chk("b after use", sb, b)
		oracle := "ok"
		if problems != "" {
			oracle = hx.Fail("scalar-api", problems)
		}
		w.Put(hx.Case{Entry: "-", Op: 0, Args: hx.L(hx.Z(a), hx.Z(b)), Impl: "-", Oracle: oracle, Tags: []string{"scalar-api", "nt"}})
	}
	// ---- signatures
	nk := 12
	if tier == "thorough" {
		nk = 120
	}
	msgLens := []int{0, 1, 32, 100, 5000}
	for it := 0; it < nk; it++ {
		msg := rng.Bytes(msgLens[it%len(msgLens)])
		// a key known to both libraries: the standard key pair from a seed; its clamped scalar is the
		// private scalar of the bundled suite
		seed := rng.Bytes(32)
		priv := ed25519.NewKeyFromSeed(seed)
		pub := priv.Public().(ed25519.PublicKey)
		hsd := sha512.Sum512(seed)
		hsd[0] &= 248
		hsd[31] &= 127
		hsd[31] |= 64
		xInt := new(big.Int).Mod(leInt(hsd[:32]), EdL)
		x := edSuite.Scalar().SetBytes(leBytes(xInt, 32))
		A := edSuite.Point().Mul(x, nil)
		Ab, _ := A.MarshalBinary()
		problems := []string{}
		if !bytes.Equal(Ab, pub) {
			problems = append(problems, "the suite's encoding of x*B differs from the standard public key")
		}
		// (1) bundled signature under both verifiers
		sig, err := schnorr.Sign(edSuite, x, msg)
		if err != nil {
			problems = append(problems, "Sign: "+err.Error())
		} else {
			if !ed25519.Verify(pub, msg, sig) {
				problems = append(problems, "a Schnorr signature of the bundled suite is rejected by crypto/ed25519")
			}
			if schnorr.Verify(edSuite, A, msg, sig) != nil {
				problems = append(problems, "a Schnorr signature of the bundled suite is rejected by the bundled verifier")
			}
		}
		// the key is the caller's: signing must leave it as it was, and a second signature with the
		// same key object must verify as well
		if xb, _ := x.MarshalBinary(); leInt(xb).Cmp(xInt) != 0 {
			problems = append(problems, "Sign changed the private scalar it was given")
		}
		msg2 := append(append([]byte{}, msg...), 0x2a)
		if sig2, err := schnorr.Sign(edSuite, x, msg2); err != nil || !ed25519.Verify(pub, msg2, sig2) || schnorr.Verify(edSuite, A, msg2, sig2) != nil {
			problems = append(problems, "the second signature made with the same key object does not verify under the key's public key")
		}
		// (2) standard signature under the bundled verifier
		ssig := ed25519.Sign(priv, msg)
		if schnorr.Verify(edSuite, A, msg, ssig) != nil {
			problems = append(problems, "a standard Ed25519 signature is rejected by the bundled verifier")
		}
		// (3) every single-bit change of signature, message and key is rejected by both
		both := func(what string, p []byte, m []byte, s []byte) {
			okStd := len(p) == ed25519.PublicKeySize && ed25519.Verify(p, m, s)
			okB := false
			P := edSuite.Point()
			if P.UnmarshalBinary(p) == nil {
				okB = hx.Catch(func() string {
					if schnorr.Verify(edSuite, P, m, s) == nil {
						return "1"
					}
					return "0"
				}) == "1"
			}
			if okStd || okB {
				problems = append(problems, fmt.Sprintf("%s is accepted (bundled verifier: %v, crypto/ed25519: %v)", what, okB, okStd))
			}
		}
		bits := func(n int) []int {
			if tier == "thorough" || n <= 64 {
				all := make([]int, n)
				for i := range all {
					all[i] = i
				}
				return all
			}
			var some []int
			for i := 0; i < 48; i++ {
				some = append(some, rng.Intn(n))
			}
			return append(some, 0, 255, 256, 503, 504, 505, 506, 507, 508, 509, 510, 511)
		}
		for _, i := range bits(512) {
			if i >= len(sig)*8 {
				continue
			}
			s2 := append([]byte{}, sig...)
			s2[i/8] ^= 1 << uint(i%8)
			both(fmt.Sprintf("the signature with bit %d flipped", i), pub, msg, s2)
		}
		for _, i := range bits(256) {
			if i >= 256 {
				continue
			}
			p2 := append([]byte{}, pub...)
			p2[i/8] ^= 1 << uint(i%8)
			both(fmt.Sprintf("the public key with bit %d flipped", i), p2, msg, sig)
		}
		if len(msg) > 0 {
			for k := 0; k < 40; k++ {
				i := rng.Intn(len(msg) * 8)
				m2 := append([]byte{}, msg...)
				m2[i/8] ^= 1 << uint(i%8)
				both(fmt.Sprintf("the message with bit %d flipped", i), pub, m2, sig)
			}
		}
		both("the message extended by one byte", pub, append(append([]byte{}, msg...), 0), sig)
		// algebraic relatives of the genuine signature: the negated response l - s, the negated nonce
		// point -R, both, the response of the negated key, s +/- 1
		if len(sig) == 64 {
			sInt := leInt(sig[32:])
			negS := leBytes(new(big.Int).Mod(new(big.Int).Neg(sInt), EdL), 32)
			negR := append([]byte{}, sig[:32]...)
			negR[31] ^= 0x80
			both("R || (l - s)", pub, msg, append(append([]byte{}, sig[:32]...), negS...))
			both("(-R) || s", pub, msg, append(append([]byte{}, negR...), sig[32:]...))
			both("(-R) || (l - s)", pub, msg, append(append([]byte{}, negR...), negS...))
			both("R || (s + 1)", pub, msg, append(append([]byte{}, sig[:32]...), leBytes(new(big.Int).Mod(new(big.Int).Add(sInt, big.NewInt(1)), EdL), 32)...))
			negA := append([]byte{}, pub...)
			negA[31] ^= 0x80
			both("the genuine signature under the negated key", negA, msg, sig)
			// equality of points is equality of elements: P and -P differ
			if A.Equal(edSuite.Point().Neg(A)) || !A.Equal(edSuite.Point().Neg(edSuite.Point().Neg(A))) {
				problems = append(problems, "Equal does not tell a point from its negation")
			}
		}
		oracle := "ok"
		if len(problems) > 0 {
			if len(problems) > 3 {
				problems = append(problems[:3], fmt.Sprintf("... and %d more", len(problems)-3))
			}
			oracle = hx.Fail("eddsa-interop", fmt.Sprint(problems))
		}
		w.Put(hx.Case{Entry: "-", Op: 0, Args: hx.L(hx.B(seed), hx.B(msg[:minInt(len(msg), 40)])), Impl: "-", Oracle: oracle, Tags: []string{"signatures", fmt.Sprintf("msglen:%d", len(msg)), "nt"}})

		// (4) the response S replaced: S + j*l (non-canonical), S with a bit flipped -- at the equation
		//     level the model decides both verifiers: a signature made here with a known nonce
		kInt := new(big.Int).Mod(new(big.Int).SetBytes(rng.Bytes(40)), EdL)
		k := edSuite.Scalar().SetBytes(leBytes(kInt, 32))
		Rb, _ := edSuite.Point().Mul(k, nil).MarshalBinary()
		h := edHash(Rb, Ab, msg)
		S := new(big.Int).Mod(new(big.Int).Add(kInt, new(big.Int).Mul(h, xInt)), EdL)
		var cands []*big.Int
		cands = append(cands, S)
		for j := 1; j <= 15; j++ {
			c := new(big.Int).Add(S, new(big.Int).Mul(big.NewInt(int64(j)), EdL))
			if c.BitLen() <= 256 {
				cands = append(cands, c)
			}
		}
		for j := 0; j < 6; j++ {
			cands = append(cands, new(big.Int).Xor(S, new(big.Int).Lsh(big.NewInt(1), uint(rng.Intn(256)))))
		}
		for _, c := range cands {
			s2 := append(append([]byte{}, Rb...), leBytes(c, 32)...)
			okB := schnorr.Verify(edSuite, A, msg, s2) == nil
			okStd := ed25519.Verify(pub, msg, s2)
			bi := func(b bool) string {
				if b {
					return hx.Zi(1)
				}
				return hx.Zi(0)
			}
			oracle := "ok"
			isS := c.Cmp(S) == 0
			if isS && !(okB && okStd) {
				oracle = hx.Fail("eddsa-interop", "a signature made with a chosen nonce is rejected")
			}
			if !isS && (okB || okStd) {
				kind := "with one bit flipped"
				if new(big.Int).Mod(c, EdL).Cmp(S) == 0 {
					kind = "replaced by S + j*l (a different signature, not canonical)"
				}
				oracle = hx.Fail("altered-signature-accepted", fmt.Sprintf("the signature whose response S is %s is accepted (bundled verifier: %v, crypto/ed25519: %v)", kind, okB, okStd))
			}
			tag := "s:flipped"
			if isS {
				tag = "s:original"
			} else if new(big.Int).Mod(c, EdL).Cmp(S) == 0 {
				tag = "s:plus-multiple-of-l"
			}
			w.Put(hx.Case{Entry: "sc", Op: 6, Args: hx.L(hx.Z(xInt), hx.Z(kInt), hx.Z(c), hx.Z(h)), Impl: hx.L(bi(okB), bi(okStd)), Oracle: oracle,
				Tags: []string{"response", tag, "nt"}})
		}
	}
	// the curve arithmetic behind the signatures (ge.go / fe.go), through point objects with histories
	// (props/pointmachine.go): sums into used objects, multiples of earlier results, clones, decoded
	// points, and calls that only look - every register must encode like its logarithm's multiple of
	// the base point computed afresh
	nProg := 60
	if tier == "thorough" {
		nProg = 1500
	}
	genPointMachine(rng, w, Ed, GrpEd, "Ed25519", EdL, nProg, "point-arithmetic", "ed", 1)
	encodingOwned(rng, w, Ed, "Ed25519", EdL, "point-codec")
	// the point operations against Models/Ed.v (ge.go's formulas over Z/(2^255-19), geScalarMult's
	// signed radix-16 digits): [k]B, [a]B + [b]B, [a]B - [b]B, -[a]B, [a]([b]B), [a]B + (-[b]B);
	// the judge computes the logarithm of the result and asks crypto/ed25519's own base multiplication
	edScal := []*big.Int{big.NewInt(0), big.NewInt(1), big.NewInt(2), big.NewInt(8), big.NewInt(15), big.NewInt(16), big.NewInt(255),
		new(big.Int).Sub(EdL, big.NewInt(1)), new(big.Int).Sub(EdL, big.NewInt(2)), new(big.Int).Rsh(EdL, 1),
		new(big.Int).Lsh(big.NewInt(1), 252), new(big.Int).Sub(new(big.Int).Lsh(big.NewInt(1), 252), big.NewInt(1))}
	ne := 10
	if tier == "thorough" {
		ne = 300
	}
	for i := 0; i < ne; i++ {
		edScal = append(edScal, rng.BigBelow(EdL))
	}
	edRef := func(d *big.Int) []byte { // [d]B by the implementation's base multiplication, fresh
		return PtBytes(Pt(Ed, new(big.Int).Mod(d, EdL), EdL))
	}
	edCase := func(op int, a, b *big.Int, got []byte, d *big.Int, what string) {
		oracle := "ok"
		if !bytes.Equal(got, edRef(d)) {
			oracle = hx.Fail("point-arithmetic", what+" differs from the multiple of the base point it must be")
		}
		args := hx.L(hx.Z(a))
		if b != nil {
			args = hx.L(hx.Z(a), hx.Z(b))
		}
		w.Put(hx.Case{Entry: "ed", Op: op, Args: args, Impl: hx.B(got), Oracle: oracle, Tags: []string{"ed-point-op", fmt.Sprintf("op:%d", op), "nt"}})
	}
	for i, a := range edScal {
		b := edScal[(i*7+3)%len(edScal)]
		A, B := Pt(Ed, a, EdL), Pt(Ed, b, EdL)
		edCase(1, a, nil, PtBytes(A), a, "[a]B")
		edCase(2, a, b, PtBytes(Ed.Point().Add(A, B)), new(big.Int).Add(a, b), "[a]B + [b]B")
		edCase(3, a, b, PtBytes(Ed.Point().Sub(A, B)), new(big.Int).Sub(a, b), "[a]B - [b]B")
		edCase(4, a, nil, PtBytes(Ed.Point().Neg(A)), new(big.Int).Neg(a), "-[a]B")
		edCase(5, a, b, PtBytes(Ed.Point().Mul(Sc(Ed, a, EdL), B)), new(big.Int).Mul(a, b), "[a]([b]B)")
		edCase(6, a, b, PtBytes(Ed.Point().Add(A, Ed.Point().Neg(B))), new(big.Int).Sub(a, b), "[a]B + (-[b]B)")
	}
	// point decoding against Models/EdCodec.v: valid encodings, the other sign of x, non-canonical
	// ordinates (y + p), the points with x = 0 under both sign bits, ordinates that are on no point,
	// random strings and wrong lengths; the judge takes the square root with math/big
	edP := new(big.Int).Sub(new(big.Int).Lsh(big.NewInt(1), 255), big.NewInt(19))
	edD := new(big.Int).Mul(big.NewInt(-121665), new(big.Int).ModInverse(big.NewInt(121666), edP))
	edD.Mod(edD, edP)
	le32 := func(v *big.Int) []byte {
		be := make([]byte, 32)
		v.FillBytes(be)
		for i, j := 0, 31; i < j; i, j = i+1, j-1 {
			be[i], be[j] = be[j], be[i]
		}
		return be
	}
	decCase := func(sb []byte, tag string) {
		impl := unmarshalClass(Ed, sb)
		oracle := "ok"
		want := hx.E
		if len(sb) == 32 {
			be := make([]byte, 32)
			for i := range sb {
				be[31-i] = sb[i]
			}
			bit := be[0] >> 7
			be[0] &= 0x7f
			y := new(big.Int).Mod(new(big.Int).SetBytes(be), edP)
			yy := new(big.Int).Mul(y, y)
			u := new(big.Int).Mod(new(big.Int).Sub(yy, big.NewInt(1)), edP)
			v := new(big.Int).Mod(new(big.Int).Add(new(big.Int).Mul(edD, yy), big.NewInt(1)), edP)
			xx := new(big.Int).Mod(new(big.Int).Mul(u, new(big.Int).ModInverse(v, edP)), edP)
			if x := new(big.Int).ModSqrt(xx, edP); x != nil {
				if x.Bit(0) != uint(bit) {
					x.Sub(edP, x).Mod(x, edP)
				}
				enc := le32(y)
				enc[31] |= byte(x.Bit(0)) << 7
				want = hx.B(enc)
			}
		}
		switch {
		case impl == hx.P:
			oracle = hx.Fail("point-codec", "point decoding panicked ("+tag+"): "+hx.LastPanic)
		case impl != want && want == hx.E:
			oracle = hx.Fail("point-codec", "a byte string that is no point's encoding was decoded ("+tag+")")
		case impl != want:
			oracle = hx.Fail("point-codec", "a point's encoding was refused, or decoded to another point ("+tag+")")
		}
		w.Put(hx.Case{Entry: "edcodec", Op: 1, Args: hx.L(hx.B(sb)), Impl: impl, Oracle: oracle, Tags: []string{"ed-decode", tag, "nt"},
			Re: func() string { return unmarshalClass(Ed, sb) }})
	}
	for i, a := range edScal {
		enc := PtBytes(Pt(Ed, a, EdL))
		decCase(enc, "valid")
		o := append([]byte{}, enc...)
		o[31] ^= 0x80
		decCase(o, "other-sign")
		if i < 12 {
			f := append([]byte{}, enc...)
			f[rng.Intn(31)] ^= 1 << uint(rng.Intn(8))
			decCase(f, "bit-flip")
		}
	}
	for _, yv := range []int64{0, 1, 2, 3, 4, 5, 18} {
		y := big.NewInt(yv)
		decCase(le32(y), "small-ordinate")
		nc := le32(new(big.Int).Add(y, edP)) // the same ordinate, not reduced
		decCase(nc, "non-canonical-ordinate")
		nc2 := append([]byte{}, nc...)
		nc2[31] |= 0x80
		decCase(nc2, "non-canonical-ordinate")
		neg := le32(new(big.Int).Sub(edP, y))
		decCase(neg, "top-ordinate")
		neg[31] |= 0x80
		decCase(neg, "top-ordinate")
		sb := le32(y)
		sb[31] |= 0x80
		decCase(sb, "small-ordinate")
	}
	for i := 0; i < ne; i++ {
		decCase(rng.Bytes(32), "random")
	}
	for _, l := range []int{0, 1, 31, 33, 64} {
		decCase(rng.Bytes(l), "length")
	}
	return nil
}
