package props

import (
	"context"
	"fmt"
	"math/big"
	"strings"
	"sync"
	"time"

	"github.com/DOSNetwork/core/share"
	dkg "github.com/DOSNetwork/core/share/dkg/pedersen"
	"github.com/golang/protobuf/proto"

	"verif/harness/doubles"
	"verif/harness/hx"
)

// one networked key-generation session: n real pdkg instances over the in-memory network
type netOutcome struct {
	finished []bool
	keys     []string
	shares   []*dkg.DistKeyShare
	panicked bool
	wall     time.Duration
}

func runNetSession(rng *hx.Rng, n int, sid string, timeout time.Duration, startDelay []time.Duration,
	policy func(ids [][]byte) func(from, to []byte, m proto.Message, attempt int) doubles.Delivery) netOutcome {
	net := doubles.NewNetwork()
	ids := make([][]byte, n)
	for i := range ids {
		ids[i] = []byte(fmt.Sprintf("node-%02d-%s", i, sid))
	}
	if policy != nil {
		net.Policy = policy(ids)
	}
	out := netOutcome{finished: make([]bool, n), keys: make([]string, n), shares: make([]*dkg.DistKeyShare, n)}
	var wg sync.WaitGroup
	var mu sync.Mutex
	t0 := time.Now()
	for i := 0; i < n; i++ {
		ep := net.Add(ids[i])
		d := dkg.VerifNewPDKG(ep, Bn, doubles.NopLogger{})
		go func() {
			defer func() {
				if r := recover(); r != nil {
					mu.Lock()
					out.panicked = true
					hx.LastPanic = fmt.Sprint(r)
					mu.Unlock()
				}
			}()
			d.Loop()
		}()
		wg.Add(1)
		go func(i int) {
			defer wg.Done()
			if startDelay != nil && startDelay[i] > 0 {
				time.Sleep(startDelay[i])
			}
			ctx, cancel := context.WithTimeout(context.Background(), timeout)
			defer cancel()
			outc, errc, err := d.Grouping(ctx, sid, ids)
			if err != nil {
				return
			}
			go func() {
				for range errc {
				}
			}()
			select {
			case v, ok := <-outc:
				if ok {
					mu.Lock()
					out.finished[i] = true
					out.keys[i] = fmt.Sprintf("%x-%x-%x-%x", v[1], v[2], v[3], v[4])
					out.shares[i] = dkg.VerifDistKeyShare(d, sid)
					mu.Unlock()
				}
			case <-ctx.Done():
			}
		}(i)
	}
	wg.Wait()
	out.wall = time.Since(t0)
	return out
}

func judgeNet(rng *hx.Rng, n int, o netOutcome, mustFinish bool) string {
	if o.panicked {
		return hx.Fail("dkg-panic", "a key-generation goroutine panicked: "+hx.LastPanic)
	}
	var fin []int
	for i, f := range o.finished {
		if f {
			fin = append(fin, i)
		}
	}
	for k, i := range fin {
		if k > 0 && o.keys[i] != o.keys[fin[0]] {
			return hx.Fail("honest-members-disagree", fmt.Sprintf("members %d and %d finished with different group keys", fin[0], i))
		}
	}
	t := n/2 + 1
	for _, i := range fin {
		ks := o.shares[i]
		if ks == nil {
			return hx.Fail("share-missing", "a finished member has no key share")
		}
		pp := share.NewPubPoly(Bn.G2(), Bn.G2().Point().Base(), ks.Commits)
		if !pp.Check(ks.Share) {
			return hx.Fail("share-not-on-polynomial", fmt.Sprintf("member %d's share does not lie on the public polynomial", i))
		}
	}
	if len(fin) >= t {
		pm := rng.Perm(len(fin))
		var shs []*share.PriShare
		for _, k := range pm[:t] {
			shs = append(shs, o.shares[fin[k]].Share)
		}
		sec, err := share.RecoverSecret(Bn.G2(), shs, t, n)
		if err != nil || !Bn.G2().Point().Mul(sec, nil).Equal(o.shares[fin[0]].Commits[0]) {
			return hx.Fail("shares-do-not-reconstruct-key", "t shares do not reconstruct the secret behind the group key")
		}
	}
	if mustFinish && len(fin) != n {
		return hx.Fail("honest-session-did-not-finish", fmt.Sprintf("all members honest and every message delivered, but only %d of %d finished", len(fin), n))
	}
	return "ok"
}

func isKind(m proto.Message, k string) bool { return strings.HasSuffix(fmt.Sprintf("%T", m), k) }

func genC04Net(rng *hx.Rng, tier string, w *hx.Writer) {
	reps := 1
	if tier == "thorough" {
		reps = 6
	}
	sidN := 0
	nextSid := func() string { sidN++; return fmt.Sprintf("%x", new(big.Int).Add(big.NewInt(int64(sidN)), new(big.Int).SetBytes(rng.Bytes(8)))) }
	type sched struct {
		name   string
		delay  func(n int) []time.Duration
		policy func(ids [][]byte) func(from, to []byte, m proto.Message, attempt int) doubles.Delivery
	}
	scheds := []sched{
		{"plain", nil, nil},
		{"start-skew", func(n int) []time.Duration {
			d := make([]time.Duration, n)
			d[rng.Intn(n)] = 300 * time.Millisecond // everything reaches this node before its session starts
			return d
		}, nil},
		{"deals-late-to-one-node", nil, func(ids [][]byte) func(from, to []byte, m proto.Message, attempt int) doubles.Delivery {
			victim := string(ids[0])
			return func(from, to []byte, m proto.Message, attempt int) doubles.Delivery {
				if string(to) == victim && isKind(m, ".Deal") {
					return doubles.Delivery{Copies: 1, Delay: 400 * time.Millisecond}
				}
				return doubles.Delivery{Copies: 1}
			}
		}},
		{"pubkey-late-to-one-node", nil, func(ids [][]byte) func(from, to []byte, m proto.Message, attempt int) doubles.Delivery {
			victim, slow := string(ids[1]), string(ids[0])
			return func(from, to []byte, m proto.Message, attempt int) doubles.Delivery {
				if string(to) == victim && string(from) == slow && isKind(m, ".PublicKey") {
					return doubles.Delivery{Copies: 1, Delay: 400 * time.Millisecond}
				}
				return doubles.Delivery{Copies: 1}
			}
		}},
		{"every-message-twice", nil, func(ids [][]byte) func(from, to []byte, m proto.Message, attempt int) doubles.Delivery {
			return func(from, to []byte, m proto.Message, attempt int) doubles.Delivery { return doubles.Delivery{Copies: 2} }
		}},
		{"responses-redelivered", nil, func(ids [][]byte) func(from, to []byte, m proto.Message, attempt int) doubles.Delivery {
			return func(from, to []byte, m proto.Message, attempt int) doubles.Delivery {
				if isKind(m, ".Responses") && string(from) == string(ids[1]) {
					return doubles.Delivery{Copies: 2}
				}
				return doubles.Delivery{Copies: 1}
			}
		}},
		{"lost-acknowledgement-then-retry", nil, func(ids [][]byte) func(from, to []byte, m proto.Message, attempt int) doubles.Delivery {
			return func(from, to []byte, m proto.Message, attempt int) doubles.Delivery {
				if attempt == 1 && string(from) == string(ids[0]) {
					return doubles.Delivery{Copies: 1, FailAfter: true} // delivered, but the sender retries after 500 ms
				}
				return doubles.Delivery{Copies: 1}
			}
		}},
		{"late-duplicates-of-completed-stage", nil, func(ids [][]byte) func(from, to []byte, m proto.Message, attempt int) doubles.Delivery {
			// every public key and deal is delivered, its acknowledgement lost, and sent again 500 ms later,
			// when that stage has long completed; the responses are slow, so the session is still running
			return func(from, to []byte, m proto.Message, attempt int) doubles.Delivery {
				if isKind(m, ".Responses") {
					return doubles.Delivery{Copies: 1, Delay: 700 * time.Millisecond}
				}
				if attempt == 1 {
					return doubles.Delivery{Copies: 1, FailAfter: true}
				}
				return doubles.Delivery{Copies: 1}
			}
		}},
		{"transient-send-failure", nil, func(ids [][]byte) func(from, to []byte, m proto.Message, attempt int) doubles.Delivery {
			return func(from, to []byte, m proto.Message, attempt int) doubles.Delivery {
				if attempt == 1 && string(to) == string(ids[2%len(ids)]) {
					return doubles.Delivery{Fail: true}
				}
				return doubles.Delivery{Copies: 1}
			}
		}},
	}
	for rep := 0; rep < reps; rep++ {
		for _, sc := range scheds {
			for _, n := range []int{3, 4} {
				if tier == "quick" && n == 4 && sc.name != "plain" && sc.name != "every-message-twice" {
					continue
				}
				var delays []time.Duration
				if sc.delay != nil {
					delays = sc.delay(n)
				}
				o := runNetSession(rng, n, nextSid(), 6*time.Second, delays, sc.policy)
				// a send that fails outright is retried 500 ms later by a goroutine that dies with the sender's
				// session context; a sender that has finished by then never delivers it: the premise "every
				// message delivered at least once" does not hold for that schedule, only safety is judged
				oracle := judgeNet(rng, n, o, sc.name != "transient-send-failure")
				fin := 0
				for _, f := range o.finished {
					if f {
						fin++
					}
				}
				w.Put(hx.Case{Entry: "-", Op: 0, Args: hx.L(hx.Zi(n), hx.B([]byte(sc.name))),
					Impl: hx.L(hx.Zi(fin), hx.Zi(int(o.wall/time.Millisecond)/1000)), Oracle: oracle,
					Tags: []string{"networked", "net-" + sc.name, fmt.Sprintf("n%d", n), "nt"}})
			}
		}
	}
}
