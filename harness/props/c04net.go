package props

import (
	"context"
	"fmt"
	"math/big"
	"os"
	"strings"
	"sync"
	"time"

	"github.com/DOSNetwork/core/share"
	dkg "github.com/DOSNetwork/core/share/dkg/pedersen"
	"github.com/golang/protobuf/proto"

	"verif/harness/doubles"
	"verif/harness/hx"
)

// one networked key-generation session: n real pdkg instances over the in-memory network
type netOutcome struct {
	finished []bool
	keys     []string
	shares   []*dkg.DistKeyShare
	panicked bool
	wall     time.Duration
}

func runNetSession(rng *hx.Rng, n int, sid string, timeout time.Duration, startDelay []time.Duration,
	policy func(ids [][]byte) func(from, to []byte, m proto.Message, attempt int) doubles.Delivery) netOutcome {
	net := doubles.NewNetwork()
	ids := make([][]byte, n)
	for i := range ids {
		ids[i] = []byte(fmt.Sprintf("node-%02d-%s", i, sid))
	}
	if policy != nil {
		net.Policy = policy(ids)
	}
	out := netOutcome{finished: make([]bool, n), keys: make([]string, n), shares: make([]*dkg.DistKeyShare, n)}
	var wg sync.WaitGroup
	var mu sync.Mutex
	cancels := make([]context.CancelFunc, n)
	t0 := time.Now()
	for i := 0; i < n; i++ {
		ep := net.Add(ids[i])
		d := dkg.VerifNewPDKG(ep, Bn, doubles.NopLogger{})
		go func() {
			defer func() {
				if r := recover(); r != nil {
					mu.Lock()
					out.panicked = true
					hx.LastPanic = fmt.Sprint(r)
					mu.Unlock()
				}
			}()
			d.Loop()
		}()
		wg.Add(1)
		go func(i int) {
			defer wg.Done()
			if startDelay != nil && startDelay[i] > 0 {
				time.Sleep(startDelay[i])
			}
			// the member's session context stays alive until every member is done (or the deadline): the
			// real handler goes on to register the group key on chain before it returns and cancels, and a
			// member's in-flight sends die with its context (the senders' WaitGroup is commented out in
			// sendToMembers) - cancelling at the very moment the key is computed would abort deliveries
			// to slower peers and falsify "every message delivered"
			ctx, cancel := context.WithTimeout(context.Background(), timeout)
			cancels[i] = cancel
			outc, errc, err := d.Grouping(ctx, sid, ids)
			if err != nil {
				return
			}
			go func() {
				for e := range errc {
					if os.Getenv("C04_DEBUG") != "" {
						fmt.Fprintf(os.Stderr, "node %d error: %v\n", i, e)
					}
				}
			}()
			select {
			case v, ok := <-outc:
				if ok {
					mu.Lock()
					out.finished[i] = true
					out.keys[i] = fmt.Sprintf("%x-%x-%x-%x", v[1], v[2], v[3], v[4])
					out.shares[i] = dkg.VerifDistKeyShare(d, sid)
					mu.Unlock()
				}
			case <-ctx.Done():
			}
		}(i)
	}
	wg.Wait()
	out.wall = time.Since(t0)
	for _, c := range cancels {
		if c != nil {
			c()
		}
	}
	return out
}

func judgeNet(rng *hx.Rng, n int, o netOutcome, mustFinish bool) string {
	if o.panicked {
		return hx.Fail("dkg-panic", "a key-generation goroutine panicked: "+hx.LastPanic)
	}
	var fin []int
	for i, f := range o.finished {
		if f {
			fin = append(fin, i)
		}
	}
	for k, i := range fin {
		if k > 0 && o.keys[i] != o.keys[fin[0]] {
			return hx.Fail("honest-members-disagree", fmt.Sprintf("members %d and %d finished with different group keys", fin[0], i))
		}
	}
	t := n/2 + 1
	for _, i := range fin {
		ks := o.shares[i]
		if ks == nil {
			return hx.Fail("share-missing", "a finished member has no key share")
		}
		pp := share.NewPubPoly(Bn.G2(), Bn.G2().Point().Base(), ks.Commits)
		if !pp.Check(ks.Share) {
			return hx.Fail("share-not-on-polynomial", fmt.Sprintf("member %d's share does not lie on the public polynomial", i))
		}
	}
	if len(fin) >= t {
		pm := rng.Perm(len(fin))
		var shs []*share.PriShare
		for _, k := range pm[:t] {
			shs = append(shs, o.shares[fin[k]].Share)
		}
		sec, err := share.RecoverSecret(Bn.G2(), shs, t, n)
		if err != nil || !Bn.G2().Point().Mul(sec, nil).Equal(o.shares[fin[0]].Commits[0]) {
			return hx.Fail("shares-do-not-reconstruct-key", "t shares do not reconstruct the secret behind the group key")
		}
	}
	if mustFinish && len(fin) != n {
		return hx.Fail("honest-session-did-not-finish", fmt.Sprintf("all members honest and every message delivered, but only %d of %d finished", len(fin), n))
	}
	return "ok"
}

func isKind(m proto.Message, k string) bool { return strings.HasSuffix(fmt.Sprintf("%T", m), k) }

type c04Sched struct {
	name   string
	delay  func(n int) []time.Duration
	policy func(ids [][]byte) func(from, to []byte, m proto.Message, attempt int) doubles.Delivery
}

func c04Scheds(rng *hx.Rng) []c04Sched {
	scheds := []c04Sched{
		{"plain", nil, nil},
		{"start-skew", func(n int) []time.Duration {
			d := make([]time.Duration, n)
			d[rng.Intn(n)] = 300 * time.Millisecond // everything reaches this node before its session starts
			return d
		}, nil},
		{"deals-late-to-one-node", nil, func(ids [][]byte) func(from, to []byte, m proto.Message, attempt int) doubles.Delivery {
			victim := string(ids[0])
			return func(from, to []byte, m proto.Message, attempt int) doubles.Delivery {
				if string(to) == victim && isKind(m, ".Deal") {
					return doubles.Delivery{Copies: 1, Delay: 400 * time.Millisecond}
				}
				return doubles.Delivery{Copies: 1}
			}
		}},
		{"pubkey-late-to-one-node", nil, func(ids [][]byte) func(from, to []byte, m proto.Message, attempt int) doubles.Delivery {
			victim, slow := string(ids[1]), string(ids[0])
			return func(from, to []byte, m proto.Message, attempt int) doubles.Delivery {
				if string(to) == victim && string(from) == slow && isKind(m, ".PublicKey") {
					return doubles.Delivery{Copies: 1, Delay: 400 * time.Millisecond}
				}
				return doubles.Delivery{Copies: 1}
			}
		}},
		{"every-message-twice", nil, func(ids [][]byte) func(from, to []byte, m proto.Message, attempt int) doubles.Delivery {
			return func(from, to []byte, m proto.Message, attempt int) doubles.Delivery {
				return doubles.Delivery{Copies: 2}
			}
		}},
		{"responses-redelivered", nil, func(ids [][]byte) func(from, to []byte, m proto.Message, attempt int) doubles.Delivery {
			return func(from, to []byte, m proto.Message, attempt int) doubles.Delivery {
				if isKind(m, ".Responses") && string(from) == string(ids[1]) {
					return doubles.Delivery{Copies: 2}
				}
				return doubles.Delivery{Copies: 1}
			}
		}},
		{"lost-acknowledgement-then-retry", nil, func(ids [][]byte) func(from, to []byte, m proto.Message, attempt int) doubles.Delivery {
			return func(from, to []byte, m proto.Message, attempt int) doubles.Delivery {
				if attempt == 1 && string(from) == string(ids[0]) {
					return doubles.Delivery{Copies: 1, FailAfter: true} // delivered, but the sender retries after 500 ms
				}
				return doubles.Delivery{Copies: 1}
			}
		}},
		{"late-duplicates-of-completed-stage", nil, func(ids [][]byte) func(from, to []byte, m proto.Message, attempt int) doubles.Delivery {
			// every public key and deal is delivered, its acknowledgement lost, and sent again 500 ms later,
			// when that stage has long completed; the responses are slow, so the session is still running
			return func(from, to []byte, m proto.Message, attempt int) doubles.Delivery {
				if isKind(m, ".Responses") {
					return doubles.Delivery{Copies: 1, Delay: 700 * time.Millisecond}
				}
				if attempt == 1 {
					return doubles.Delivery{Copies: 1, FailAfter: true}
				}
				return doubles.Delivery{Copies: 1}
			}
		}},
		// the first attempt to send a PUBLIC KEY to one member is lost the way the real transport loses a
		// request: Request returns its own 5 s deadline wrapped in a P2PError while the session is alive.
		// Nobody can finish before that key arrives, so the retry must happen: liveness is judged
		{"public-key-request-times-out", nil, func(ids [][]byte) func(from, to []byte, m proto.Message, attempt int) doubles.Delivery {
			return func(from, to []byte, m proto.Message, attempt int) doubles.Delivery {
				if _, isKey := m.(*dkg.PublicKey); isKey && attempt == 1 && string(to) == string(ids[2%len(ids)]) {
					return doubles.Delivery{Fail: true, Err: fmt.Errorf("IP : 127.0.0.1:1: Request waitForResult: %w", context.DeadlineExceeded)}
				}
				return doubles.Delivery{Copies: 1}
			}
		}},
		{"transient-send-failure", nil, func(ids [][]byte) func(from, to []byte, m proto.Message, attempt int) doubles.Delivery {
			return func(from, to []byte, m proto.Message, attempt int) doubles.Delivery {
				if attempt == 1 && string(to) == string(ids[2%len(ids)]) {
					return doubles.Delivery{Fail: true}
				}
				return doubles.Delivery{Copies: 1}
			}
		}},
	}
	return scheds
}

// one networked session in a child process (a panic of a key-generation goroutine kills the child
// and is attributed to this schedule): arg name=<schedule>,n=<members>,seed=<n>
// prints "<verdict>|<finished>|<seconds>"
func subC04Net(arg string) string {
	a := parseArg(arg)
	rng := hx.NewRng(uint64(atoi(a["seed"])) + 404)
	n := atoi(a["n"])
	for _, sc := range c04Scheds(rng) {
		if sc.name != a["name"] {
			continue
		}
		var delays []time.Duration
		if sc.delay != nil {
			delays = sc.delay(n)
		}
		sid := fmt.Sprintf("%x", new(big.Int).Add(big.NewInt(int64(atoi(a["seed"]))), new(big.Int).SetBytes(rng.Bytes(8))))
		o := runNetSession(rng, n, sid, 6*time.Second, delays, sc.policy)
		// a send that fails outright is retried 500 ms later by a goroutine that dies with the sender's
		// session context; a sender that has finished by then never delivers it: the premise "every
		// message delivered at least once" does not hold for that schedule, only safety is judged
		oracle := judgeNet(rng, n, o, sc.name != "transient-send-failure")
		fin := 0
		for _, f := range o.finished {
			if f {
				fin++
			}
		}
		return fmt.Sprintf("%s|%d|%d", oracle, fin, int(o.wall/time.Millisecond)/1000)
	}
	return "FAIL:harness:no such schedule|0|0"
}

func init() { SubRegistry["c04-net"] = subC04Net }

func genC04Net(rng *hx.Rng, tier string, w *hx.Writer) {
	reps := 1
	if tier == "thorough" {
		reps = 6
	}
	var jobs []*c12job
	seed := 0
	for rep := 0; rep < reps; rep++ {
		for _, sc := range c04Scheds(rng) {
			for _, n := range []int{3, 4} {
				if tier == "quick" && n == 4 && sc.name != "plain" && sc.name != "every-message-twice" {
					continue
				}
				seed++
				name := sc.name
				arg := fmt.Sprintf("name=%s,n=%d,seed=%d", name, n, seed)
				job := &c12job{sub: "c04-net", arg: arg, timeout: 60 * time.Second, group: "key-generation",
					c: hx.Case{Entry: "-", Op: 0, Args: hx.L(hx.Zi(n), hx.B([]byte(name))), Tags: []string{"networked", "net-" + name, fmt.Sprintf("n%d", n), "nt"}}}
				verdict := "ok"
				job.finish = func(out string) (string, bool) {
					parts := strings.Split(out, "|")
					if len(parts) != 3 {
						verdict = hx.Fail("harness", "unexpected scenario output: "+out)
						return hx.B([]byte(out)), false
					}
					verdict = parts[0]
					return hx.L(hx.Zi(atoi(parts[1])), hx.Zi(atoi(parts[2]))), parts[0] == "ok"
				}
				job.explain = func(class, out, panicLine string) (string, string) {
					sc := "driver sub c04-net " + arg
					switch class {
					case "P":
						return "dkg-panic", "a key-generation goroutine panicked (" + sc + "): " + panicLine
					case "H":
						return "dkg-hang", "the networked sessions did not end (" + sc + ")"
					}
					v := strings.SplitN(strings.TrimPrefix(verdict, "FAIL:"), ":", 2)
					if len(v) == 2 {
						return v[0], v[1] + " (" + sc + ")"
					}
					return "dkg-net", verdict + " (" + sc + ")"
				}
				jobs = append(jobs, job)
			}
		}
	}
	runC12Jobs(jobs, w)
}
