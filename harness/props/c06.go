package props

import (
	"bytes"
	"fmt"
	"strings"
	"math/big"
	"sync"

	"github.com/DOSNetwork/core/sign/bls"
	"github.com/dedis/kyber"
	"golang.org/x/crypto/sha3"

	"verif/harness/hx"
)

func init() { Registry["C06"] = genC06 }

func keccakInt(msg []byte) *big.Int {
	h := sha3.NewLegacyKeccak256()
	h.Write(msg)
	return new(big.Int).SetBytes(h.Sum(nil))
}

var g2GenEVM = func() []byte { return PtBytes(Bn.G2().Point().Base())[1:] }()

// the contract's negate on a 64-byte G1 encoding
func contractNegate(p []byte) []byte {
	x := new(big.Int).SetBytes(p[:32])
	y := new(big.Int).SetBytes(p[32:64])
	if x.Sign() == 0 && y.Sign() == 0 {
		return append([]byte{}, p[:64]...)
	}
	ny := new(big.Int).Sub(BnP, new(big.Int).Mod(y, BnP))
	return append(be32(x), be32(ny)...)
}

// the contract equation evaluated with the real precompiles; ok=false: a precompile reverted
func evmVerify(pk128 []byte, msg []byte, sig64 []byte) (accepted bool, ok bool) {
	hm, err := precompile(7, append(append(be32(big.NewInt(1)), be32(big.NewInt(2))...), be32(keccakInt(msg))...))
	if err != nil {
		return false, false
	}
	in := append(contractNegate(sig64), g2GenEVM...)
	in = append(in, hm...)
	in = append(in, pk128...)
	out, err := precompile(8, in)
	if err != nil {
		return false, false
	}
	return out[31] == 1, true
}

func canonicalG1(b []byte) bool {
	if len(b) != 64 {
		return false
	}
	return new(big.Int).SetBytes(b[:32]).Cmp(BnP) < 0 && new(big.Int).SetBytes(b[32:]).Cmp(BnP) < 0
}

func genC06(rng *hx.Rng, tier string, w *hx.Writer) error {
	scale := 1
	if tier == "thorough" {
		scale = 8
	}
	q := BnQ
	keys := []*big.Int{big.NewInt(1), new(big.Int).Sub(q, big.NewInt(1)), big.NewInt(2)}
	for i := 0; i < 2*scale; i++ {
		keys = append(keys, rng.BigBelow(q))
	}
	msgs := [][]byte{{}, []byte("a"), rng.Bytes(31), rng.Bytes(1 << 20)}
	for i := 0; i < 2*scale; i++ {
		msgs = append(msgs, rng.Bytes(1+rng.Intn(100)))
	}
	for _, x := range keys {
		X := Pt(Bn.G2(), x, q)
		pkEnc := PtBytes(X)
		// emitted public key: canonical EVM encoding
		{
			oracle := "ok"
			if len(pkEnc) != 129 || pkEnc[0] != 1 {
				oracle = hx.Fail("pk-not-canonical", "public key is not 0x01 || four 32-byte coordinates")
			} else {
				for i := 0; i < 4; i++ {
					if new(big.Int).SetBytes(pkEnc[1+32*i:33+32*i]).Cmp(BnP) >= 0 {
						oracle = hx.Fail("pk-not-canonical", "public key coordinate not below the field prime")
					}
				}
				// accepted by the pairing precompile (on curve, in the subgroup, imaginary part first)
				in := append(append(be32(big.NewInt(1)), be32(big.NewInt(2))...), pkEnc[1:]...)
				if _, err := precompile(8, in); err != nil {
					oracle = hx.Fail("pk-not-canonical", "the EVM pairing precompile rejects the emitted public key")
				}
			}
			w.Put(hx.Case{Entry: "evm", Op: 4, Args: hx.L(hx.Z(x)), Impl: hx.B(pkEnc), Oracle: oracle, Tags: []string{"emit-pk", "nt"}})
		}
		for mi, msg := range msgs {
			if len(msg) > 100000 && x.Cmp(keys[0]) != 0 {
				continue
			}
			h := keccakInt(msg)
			sig, err := bls.Sign(Bn, Sc(Bn.G2(), x, q), msg)
			if err != nil {
				continue
			}
			// emitted signature: canonical
			{
				oracle := "ok"
				if !canonicalG1(sig) {
					oracle = hx.Fail("sig-not-canonical", "signature is not two 32-byte coordinates below the field prime")
				} else if _, err := precompile(6, append(append([]byte{}, sig...), make([]byte, 64)...)); err != nil {
					oracle = hx.Fail("sig-not-canonical", "the EVM rejects the emitted signature as a G1 point")
				}
				xx, mmsg := x, msg
				w.Put(hx.Case{Entry: "evm", Op: 3, Args: hx.L(hx.Z(x), hx.Z(h)), Impl: hx.B(sig), Oracle: oracle, Tags: []string{"emit-sig", "nt"},
					Re: func() string {
						sg, err := bls.Sign(Bn, Sc(Bn.G2(), xx, q), append([]byte{}, mmsg...))
						if err != nil {
							return hx.E
						}
						return hx.B(sg)
					}})
			}
			// the valid signature and its mutations
			type mut struct {
				name string
				sig  []byte
				key  *big.Int
				msg  []byte
			}
			muts := []mut{{"valid", sig, x, msg}}
			neg := contractNegate(sig)
			muts = append(muts, mut{"negated", neg, x, msg})
			muts = append(muts, mut{"identity", make([]byte, 64), x, msg})
			sw := append(append([]byte{}, sig[32:]...), sig[:32]...)
			muts = append(muts, mut{"swapped-coordinates", sw, x, msg})
			oc := append([]byte{}, sig...)
			oc[63] ^= 1
			muts = append(muts, mut{"off-curve", oc, x, msg})
			for j := 0; j < 3; j++ {
				bf := append([]byte{}, sig...)
				bf[rng.Intn(64)] ^= 1 << uint(rng.Intn(8))
				muts = append(muts, mut{"bitflip", bf, x, msg})
			}
			if nb := addP(sig, 0); nb != nil {
				muts = append(muts, mut{"x-plus-p", nb, x, msg})
			}
			muts = append(muts, mut{"trailing-bytes", append(append([]byte{}, sig...), 7, 7), x, msg})
			muts = append(muts, mut{"truncated", sig[:63], x, msg})
			ok2 := keys[(mi+1)%len(keys)]
			if ok2.Cmp(x) != 0 {
				muts = append(muts, mut{"other-key", sig, ok2, msg})
			}
			muts = append(muts, mut{"other-message", sig, x, append([]byte("x"), msg...)})
			// a valid signature of another key on this message, and of this key on another message
			s2, _ := bls.Sign(Bn, Sc(Bn.G2(), ok2, q), msg)
			if ok2.Cmp(x) != 0 {
				muts = append(muts, mut{"signed-by-other-key", s2, x, msg})
			}
			for _, m := range muts {
				Xm := Pt(Bn.G2(), m.key, q)
				hm := keccakInt(m.msg)
				mm := m
				verifyOnce := func() string {
					if err := bls.Verify(Bn, Pt(Bn.G2(), mm.key, q), append([]byte{}, mm.msg...), append([]byte{}, mm.sig...)); err != nil {
						// distinguish "does not parse" from "parses, equation false"
						p := Bn.G1().Point()
						if p.UnmarshalBinary(append([]byte{}, mm.sig...)) != nil {
							return hx.E
						}
						return "z0"
					}
					return "z1"
				}
				lib := hx.Catch(verifyOnce)
				oracle := "ok"
				if lib == hx.P {
					oracle = hx.Fail("verify-panic", "bls.Verify panicked: "+hx.LastPanic)
				} else if lib != hx.E {
					// evaluate the contract equation on the library's canonical encodings of the same points
					p := Bn.G1().Point()
					_ = p.UnmarshalBinary(append([]byte{}, m.sig...))
					canon := PtBytes(p)
					acc, ok := evmVerify(PtBytes(Xm)[1:], m.msg, canon)
					if !ok {
						oracle = hx.Fail("evm-rejects-encoding", "a precompile reverted on the library's canonical encodings ("+m.name+")")
					} else if acc != (lib == "z1") {
						oracle = hx.Fail("verify-differs-from-evm", "bls.Verify and the contract equation on the EVM precompiles disagree ("+m.name+")")
					}
					// the model's contract equation on the same byte strings
					evmImpl := hx.E
					if ok {
						evmImpl = hx.Bool(acc)
					}
					w.Put(hx.Case{Entry: "evm", Op: 2, Args: hx.L(hx.B(PtBytes(Xm)[1:]), hx.Z(hm), hx.B(canon)), Impl: evmImpl,
						Tags: []string{"evm-" + m.name, "nt"}})
				}
				if m.name == "valid" && lib != "z1" {
					oracle = hx.Fail("valid-signature-rejected", "a signature made by bls.Sign does not verify")
				}
				w.Put(hx.Case{Entry: "evm", Op: 1, Args: hx.L(hx.Z(m.key), hx.Z(hm), hx.B(m.sig)), Impl: lib, Oracle: oracle,
					Tags: []string{"verify-" + m.name, "nt"}, Re: verifyOnce})
			}
		}
	}
	// secret key 0: the public key is the identity; G1 identity = 64 zero bytes is an EVM encoding, G2 identity is not emitted as one
	{
		X := Pt(Bn.G2(), big.NewInt(0), q)
		enc := PtBytes(X)
		oracle := "ok"
		if len(enc) != 129 {
			oracle = hx.Fail("g2-identity-encoding", "the G2 identity (public key of secret key 0) is emitted as a single byte, not as an EVM encoding of four 32-byte coordinates")
		}
		w.Put(hx.Case{Entry: "evm", Op: 4, Args: hx.L(hx.Zi(0)), Impl: hx.B(enc), Oracle: oracle, Tags: []string{"emit-pk-identity", "nt"}})
		sig, _ := bls.Sign(Bn, Sc(Bn.G2(), big.NewInt(0), q), []byte("m"))
		o2 := "ok"
		if !bytes.Equal(sig, make([]byte, 64)) {
			o2 = hx.Fail("sig-not-canonical", "the signature under secret key 0 is not the EVM encoding of the identity")
		}
		w.Put(hx.Case{Entry: "evm", Op: 3, Args: hx.L(hx.Zi(0), hx.Z(keccakInt([]byte("m")))), Impl: hx.B(sig), Oracle: o2, Tags: []string{"emit-sig-identity", "nt"}})
	}
	// the same group element handed to Verify as differently built key OBJECTS (fresh scalar multiple in
	// Jacobian form, parsed from bytes, the negation of a parsed point, a sum, the negated generator):
	// nothing normalises the object between its construction and the call
	{
		base := []*big.Int{new(big.Int).Sub(q, big.NewInt(1)), big.NewInt(2), rng.BigBelow(q), rng.BigBelow(q)}
		for ki, x := range base {
			if x.Sign() == 0 {
				continue
			}
			msg := rng.Bytes(1 + rng.Intn(40))
			sig, err := bls.Sign(Bn, Sc(Bn.G2(), x, q), msg)
			if err != nil {
				continue
			}
			canonPk := PtBytes(Pt(Bn.G2(), x, q))[1:]
			reps := []struct {
				name string
				mk   func() kyber.Point
			}{
				{"parsed", func() kyber.Point {
					p := Bn.G2().Point()
					_ = p.UnmarshalBinary(PtBytes(Pt(Bn.G2(), x, q)))
					return p
				}},
				{"negation-of-parsed", func() kyber.Point {
					p := Bn.G2().Point()
					_ = p.UnmarshalBinary(PtBytes(Pt(Bn.G2(), new(big.Int).Sub(q, x), q)))
					return Bn.G2().Point().Neg(p)
				}},
				{"negation-in-place", func() kyber.Point {
					p := Bn.G2().Point()
					_ = p.UnmarshalBinary(PtBytes(Pt(Bn.G2(), new(big.Int).Sub(q, x), q)))
					return p.Neg(p)
				}},
				{"sum", func() kyber.Point {
					a := Bn.G2().Point().Mul(Sc(Bn.G2(), new(big.Int).Sub(x, big.NewInt(1)), q), nil)
					return Bn.G2().Point().Add(a, Bn.G2().Point().Base())
				}},
				{"negated-jacobian", func() kyber.Point {
					return Bn.G2().Point().Neg(Bn.G2().Point().Mul(Sc(Bn.G2(), new(big.Int).Sub(q, x), q), nil))
				}},
			}
			if ki == 0 {
				reps = append(reps, struct {
					name string
					mk   func() kyber.Point
				}{"negated-generator", func() kyber.Point { return Bn.G2().Point().Neg(Bn.G2().Point().Base()) }})
			}
			for _, rp := range reps {
				for _, good := range []bool{true, false} {
					sg := append([]byte{}, sig...)
					if !good {
						sg = contractNegate(sig)
					}
					lib := hx.Catch(func() string {
						if err := bls.Verify(Bn, rp.mk(), msg, append([]byte{}, sg...)); err != nil {
							return "z0"
						}
						return "z1"
					})
					acc, ok := evmVerify(canonPk, msg, sg)
					oracle := "ok"
					switch {
					case lib == hx.P:
						oracle = hx.Fail("verify-panic", "bls.Verify panicked: "+hx.LastPanic)
					case !ok:
						oracle = hx.Fail("evm-rejects-encoding", "a precompile reverted on the library's canonical encodings (key object "+rp.name+")")
					case acc != (lib == "z1"):
						oracle = hx.Fail("verify-differs-from-evm", "bls.Verify and the contract equation on the EVM precompiles disagree when the key is handed over as "+rp.name)
					}
					w.Put(hx.Case{Entry: "evm", Op: 1, Args: hx.L(hx.Z(x), hx.Z(keccakInt(msg)), hx.B(sg)), Impl: lib, Oracle: oracle,
						Tags: []string{"key-object", "key-" + rp.name, "nt"}})
				}
			}
		}
	}
	// one key OBJECT used for several verifications and marshalled afterwards: the verdicts are those of
	// the unchanged key and the key's encoding is what it was
	for _, x := range []*big.Int{big.NewInt(1), new(big.Int).Sub(q, big.NewInt(1)), rng.BigBelow(q), rng.BigBelow(q)} {
		if x.Sign() == 0 {
			continue
		}
		msg := rng.Bytes(1 + rng.Intn(60))
		sig, err := bls.Sign(Bn, Sc(Bn.G2(), x, q), msg)
		if err != nil {
			continue
		}
		neg := contractNegate(sig)
		before := PtBytes(Pt(Bn.G2(), x, q))
		seq := hx.Catch(func() string {
			X := Bn.G2().Point().Mul(Sc(Bn.G2(), x, q), nil)
			r := make([]string, 0, 5)
			for _, sg := range [][]byte{sig, sig, neg, sig} {
				if bls.Verify(Bn, X, append([]byte{}, msg...), append([]byte{}, sg...)) == nil {
					r = append(r, "z1")
				} else {
					r = append(r, "z0")
				}
			}
			if bytes.Equal(PtBytes(X), before) {
				r = append(r, "z1")
			} else {
				r = append(r, "z0")
			}
			return hx.L(r...)
		})
		oracle := "ok"
		if seq != hx.L("z1", "z1", "z0", "z1", "z1") {
			oracle = hx.Fail("verify-differs-from-evm", "one key object, verifications of (valid, valid, negated, valid) and then the key's encoding compared with what it was: got "+seq+", want accept, accept, reject, accept, unchanged")
		}
		w.Put(hx.Case{Entry: "-", Op: 0, Args: hx.L(hx.Z(x), hx.B(msg)), Impl: seq, Oracle: oracle, Tags: []string{"key-object-reused", "nt"}})
	}
	// the message is a WINDOW of a larger buffer (a packet "message || signature", a message followed
	// by other data): Sign and Verify read the message and write nothing - the bytes behind it stay
	// what they were, and a signature that lies right behind its message verifies
	for _, ml := range []int{0, 1, 24, 31, 32, 33, 135, 136, 137, 1000} {
		x := new(big.Int).Add(rng.BigBelow(new(big.Int).Sub(q, big.NewInt(1))), big.NewInt(1))
		msg := rng.Bytes(ml)
		sig, err := bls.Sign(Bn, Sc(Bn.G2(), x, q), append([]byte{}, msg...))
		if err != nil {
			continue
		}
		var problems []string
		res := hx.Catch(func() string {
			X := Pt(Bn.G2(), x, q)
			packet := append(append([]byte{}, msg...), sig...)
			packet = append(packet, 0xAA, 0xBB)
			ref := append([]byte{}, packet...)
			if err := bls.Verify(Bn, X, packet[:ml], packet[ml:ml+len(sig)]); err != nil {
				problems = append(problems, "a valid signature stored right behind its message is refused: "+err.Error())
			}
			if !bytes.Equal(packet, ref) {
				problems = append(problems, "Verify changed bytes behind the message it was given")
			}
			buf := append(append([]byte{}, msg...), rng.Bytes(80)...)
			ref2 := append([]byte{}, buf...)
			s2, err := bls.Sign(Bn, Sc(Bn.G2(), x, q), buf[:ml])
			if err != nil || !bytes.Equal(s2, sig) {
				problems = append(problems, "Sign on a window of a larger buffer gives another signature")
			}
			if !bytes.Equal(buf, ref2) {
				problems = append(problems, "Sign changed bytes behind the message it was given")
			}
			return hx.B([]byte(strings.Join(problems, "; ")))
		})
		oracle := "ok"
		if res == hx.P {
			oracle = hx.Fail("verify-differs-from-evm", "panic with the message as a window of a larger buffer: "+hx.LastPanic)
		} else if len(problems) > 0 {
			oracle = hx.Fail("verify-differs-from-evm", fmt.Sprintf("message of %d bytes as a window of a larger buffer: %s", ml, strings.Join(problems, "; ")))
		}
		w.Put(hx.Case{Entry: "-", Op: 0, Args: hx.L(hx.Z(x), hx.B(msg)), Impl: res, Oracle: oracle, Tags: []string{"message-window", "nt"}})
	}
	// ONE key object, fresh from a scalar multiplication (Jacobian form, never marshalled), verified
	// against from eight goroutines at once: the first use of a key is often concurrent (a group key
	// checked by several request pipelines)
	{
		trials := 120
		if tier == "thorough" {
			trials = 600
		}
		x := new(big.Int).Add(rng.BigBelow(new(big.Int).Sub(q, big.NewInt(2))), big.NewInt(1))
		const G = 8
		msgs := make([][]byte, G)
		sigs := make([][]byte, G)
		for g := 0; g < G; g++ {
			msgs[g] = rng.Bytes(1 + rng.Intn(50))
			sigs[g], _ = bls.Sign(Bn, Sc(Bn.G2(), x, q), msgs[g])
		}
		want := PtBytes(Pt(Bn.G2(), x, q))
		bad := 0
		first := ""
		res := hx.Catch(func() string {
			for tr := 0; tr < trials; tr++ {
				X := Bn.G2().Point().Mul(Sc(Bn.G2(), x, q), nil)
				start := make(chan struct{})
				var wg sync.WaitGroup
				rej := make([]bool, G)
				for g := 0; g < G; g++ {
					wg.Add(1)
					go func(g int) {
						defer wg.Done()
						defer func() {
							if r := recover(); r != nil {
								rej[g] = true
							}
						}()
						<-start
						rej[g] = bls.Verify(Bn, X, append([]byte{}, msgs[g]...), append([]byte{}, sigs[g]...)) != nil
					}(g)
				}
				close(start)
				wg.Wait()
				for g := 0; g < G; g++ {
					if rej[g] {
						bad++
						if first == "" {
							first = fmt.Sprintf("trial %d: a valid signature was rejected", tr)
						}
					}
				}
				if !bytes.Equal(PtBytes(X), want) {
					bad++
					if first == "" {
						first = fmt.Sprintf("trial %d: the key object no longer encodes the key", tr)
					}
				}
			}
			return hx.Zi(bad)
		})
		oracle := "ok"
		if res != hx.Zi(0) {
			oracle = hx.Fail("verify-differs-from-evm", "eight concurrent verifications against one freshly computed key object: "+first+" ("+res+" problems)")
		}
		w.Put(hx.Case{Entry: "-", Op: 0, Args: hx.L(hx.Z(x), hx.Zi(trials)), Impl: res, Oracle: oracle, Tags: []string{"key-object-shared-concurrently", "nt"}})
	}
	// secret key 0 on both sides: the contract equation holds for the identity key and the identity
	// signature (the EVM encoding of the G2 identity is four zero words), and for nothing else
	{
		idKeys := []struct {
			name string
			mk   func() kyber.Point
		}{
			{"zero-multiple", func() kyber.Point { return Bn.G2().Point().Mul(Sc(Bn.G2(), big.NewInt(0), q), nil) }},
			{"null", func() kyber.Point { return Bn.G2().Point().Null() }},
			{"parsed", func() kyber.Point {
				p := Bn.G2().Point()
				_ = p.UnmarshalBinary([]byte{0})
				return p
			}},
		}
		other, _ := bls.Sign(Bn, Sc(Bn.G2(), big.NewInt(5), q), []byte("m"))
		for _, ik := range idKeys {
			for _, sc := range []struct {
				name string
				sig  []byte
			}{{"identity-signature", make([]byte, 64)}, {"other-signature", other}} {
				for _, msg := range [][]byte{[]byte("m"), {}, rng.Bytes(1 << 16)} {
					lib := hx.Catch(func() string {
						if err := bls.Verify(Bn, ik.mk(), msg, append([]byte{}, sc.sig...)); err != nil {
							return "z0"
						}
						return "z1"
					})
					acc, ok := evmVerify(make([]byte, 128), msg, sc.sig)
					oracle := "ok"
					switch {
					case lib == hx.P:
						oracle = hx.Fail("verify-panic", "bls.Verify panicked: "+hx.LastPanic)
					case !ok:
						oracle = hx.Fail("evm-rejects-encoding", "a precompile reverted on the identity key")
					case acc != (lib == "z1"):
						oracle = hx.Fail("verify-differs-from-evm", "bls.Verify and the contract equation on the EVM precompiles disagree for the identity key ("+ik.name+", "+sc.name+")")
					}
					w.Put(hx.Case{Entry: "evm", Op: 1, Args: hx.L(hx.Zi(0), hx.Z(keccakInt(msg)), hx.B(sc.sig)), Impl: lib, Oracle: oracle,
						Tags: []string{"identity-key", "key-" + ik.name, sc.name, "nt"}})
				}
			}
		}
	}
	return nil
}
