package props

import (
	"bytes"
	"fmt"
	"math/big"
	"sort"
	"strings"
	"sync"
	"time"

	"github.com/DOSNetwork/core/configuration"
	"github.com/DOSNetwork/core/onchain"
	"github.com/DOSNetwork/core/onchain/commitreveal"
	"github.com/DOSNetwork/core/onchain/dosproxy"
	vss "github.com/DOSNetwork/core/share/vss/pedersen"
	"github.com/ethereum/go-ethereum/accounts/abi"
	"github.com/ethereum/go-ethereum/accounts/keystore"
	"github.com/ethereum/go-ethereum/common"
	"github.com/ethereum/go-ethereum/core/types"
	"github.com/ethereum/go-ethereum/crypto"

	"verif/harness/doubles"
	"verif/harness/hx"
)

func init() {
	Registry["C19"] = genC19
	SubRegistry["c19-history"] = subC19History
}

var (
	ethBridge = common.HexToAddress("0x00000000000000000000000000000000000b41d6")
	ethProxy  = common.HexToAddress("0x0000000000000000000000000000000000e4a001")
	ethCR     = common.HexToAddress("0x0000000000000000000000000000000000c0ffee")
)

const ethChainID = 4242
const ethGasLimit = 5000000
const ethGasPrice = 7000000000

type ethRig struct {
	urls    []string
	nodes   []*doubles.EthNode
	adaptor onchain.ProxyAdapter
	key     *keystore.Key
	order   []int // adaptor endpoint index -> node index
}

func newEthRig(n int) (*ethRig, error) { return newEthRigWS(n, n) }

// n RPC endpoints of which only the first nws also offer a websocket endpoint
func newEthRigWS(n, nws int) (*ethRig, error) {
	return newEthRigCfg(n, nws, ethChainID, fmt.Sprint(ethChainID), fmt.Sprint(ethGasLimit), fmt.Sprint(ethGasPrice))
}

// the same rig with the configuration strings (chain id, gas limit, gas price) spelled by the caller;
// the endpoints are nodes of chain nodeChain
func newEthRigCfg(n, nws int, nodeChain int64, cfgChain, cfgLimit, cfgPrice string) (*ethRig, error) {
	r := &ethRig{}
	var urls []string
	for i := 0; i < n; i++ {
		nd := doubles.NewEthNode(nodeChain, ethBridge, ethProxy, ethCR)
		r.nodes = append(r.nodes, nd)
		urls = append(urls, nd.HTTPURL)
		if i < nws {
			urls = append(urls, nd.WSURL)
		}
	}
	pk, err := crypto.GenerateKey()
	if err != nil {
		return nil, err
	}
	r.key = &keystore.Key{Address: crypto.PubkeyToAddress(pk.PublicKey), PrivateKey: pk}
	cfg := &configuration.Config{ChainID: cfgChain, BlockTime: "1", DOSAddressBridgeAddress: ethBridge.Hex(),
		EthGasLimit: cfgLimit, EthGasPrice: cfgPrice}
	ad, err := onchain.NewEthAdaptor(r.key, cfg, doubles.NopLogger{})
	if err != nil {
		for _, nd := range r.nodes {
			nd.Close()
		}
		return nil, err
	}
	if err := ad.Connect(urls, time.Now().Add(5*time.Second)); err != nil {
		for _, nd := range r.nodes {
			nd.Close()
		}
		return nil, err
	}
	r.adaptor = ad
	r.urls = urls
	if err := r.probeOrder(); err != nil {
		return nil, err
	}
	return r, nil
}

// reconnect: the node drops all its connections and connects again (optionally after an attempt that
// fails because no websocket endpoint answers), as its reconnect loop does
func (r *ethRig) reconnect(failFirst bool) error {
	r.adaptor.DisconnectAll()
	if failFirst {
		var bad []string
		for _, u := range r.urls {
			if strings.HasPrefix(u, "ws") {
				bad = append(bad, "ws://127.0.0.1:1")
			} else {
				bad = append(bad, u)
			}
		}
		if err := r.adaptor.Connect(bad, time.Now().Add(700*time.Millisecond)); err == nil {
			r.adaptor.DisconnectAll()
		}
	}
	if err := r.adaptor.Connect(r.urls, time.Now().Add(5*time.Second)); err != nil {
		return err
	}
	return r.probeOrder()
}

// which node is the adaptor's endpoint 0, 1, ...: a probe call that every endpoint answers with
// an error of the "try the next one" class reaches them in the adaptor's order
func (r *ethRig) probeOrder() error {
	saved := make([]*doubles.Chain, len(r.nodes))
	for i, nd := range r.nodes {
		saved[i] = nd.Chain
		nd.Reset()
	}
	r.order = nil
	for _, nd := range r.nodes {
		nd.TxOutcome = func(int) string { return "probe: not now" }
	}
	if perr := r.adaptor.SetGroupSize(3); perr != nil && len(r.nodes[0].Txs()) == 0 {
		return fmt.Errorf("probe call: %v", perr)
	}
	type arr struct {
		node int
		at   time.Time
	}
	var as []arr
	for i, nd := range r.nodes {
		if len(nd.Txs()) != 1 {
			return fmt.Errorf("probe: node %d received %d transactions", i, len(nd.Txs()))
		}
		as = append(as, arr{i, nd.FirstTxAt()})
	}
	sort.Slice(as, func(i, j int) bool { return as[i].at.Before(as[j].at) })
	for _, a := range as {
		r.order = append(r.order, a.node)
	}
	for _, nd := range r.nodes {
		nd.Reset()
	}
	_ = saved
	return nil
}

func (r *ethRig) close() {
	r.adaptor.DisconnectAll()
	for _, nd := range r.nodes {
		nd.Close()
	}
}

var proxyABI, crABI abi.ABI

func init() {
	proxyABI, _ = abi.JSON(strings.NewReader(dosproxy.DosproxyABI))
	crABI, _ = abi.JSON(strings.NewReader(commitreveal.CommitrevealABI))
}

func zList(xs []*big.Int) string {
	var s []string
	for _, x := range xs {
		s = append(s, hx.Z(x))
	}
	return hx.L(s...)
}

// judge one received raw transaction against what was intended
func judgeTx(raw []byte, r *ethRig, to common.Address, a abi.ABI, method string, want []interface{}) string {
	return judgeTxCfg(raw, r, big.NewInt(ethChainID), ethGasLimit, big.NewInt(ethGasPrice), to, a, method, want)
}

// ... where the configuration in force is chain id chain, gas limit limit, gas price price
func judgeTxCfg(raw []byte, r *ethRig, chain *big.Int, limit uint64, price *big.Int, to common.Address, a abi.ABI, method string, want []interface{}) string {
	tx := new(types.Transaction)
	if err := tx.UnmarshalBinary(raw); err != nil {
		return "the endpoint received bytes that are not a transaction: " + err.Error()
	}
	if tx.To() == nil || *tx.To() != to {
		return "the transaction does not go to the configured contract"
	}
	from, err := types.Sender(types.NewEIP155Signer(chain), tx)
	if err != nil || from != r.key.Address {
		return fmt.Sprintf("the transaction is not signed by the node key for the configured chain id %s (it is signed for chain id %s)", chain, tx.ChainId())
	}
	if tx.Gas() != limit || tx.GasPrice().Cmp(price) != 0 {
		return fmt.Sprintf("gas settings differ from the configuration (limit %d price %s): limit %d price %s", limit, price, tx.Gas(), tx.GasPrice())
	}
	if tx.Value().Sign() != 0 {
		return "the transaction carries value"
	}
	m, ok := a.Methods[method]
	if !ok || len(tx.Data()) < 4 || !bytes.Equal(tx.Data()[:4], m.ID) {
		return "the transaction does not call " + method
	}
	got, err := m.Inputs.Unpack(tx.Data()[4:])
	if err != nil {
		return "the arguments do not decode with the contract ABI: " + err.Error()
	}
	if len(got) != len(want) {
		return "wrong number of arguments"
	}
	for i := range want {
		if fmt.Sprint(got[i]) != fmt.Sprint(want[i]) {
			return fmt.Sprintf("argument %d (%s) is %v, intended %v", i, m.Inputs[i].Name, trunc(fmt.Sprint(got[i])), trunc(fmt.Sprint(want[i])))
		}
	}
	return ""
}

func trunc(s string) string {
	if len(s) > 120 {
		return s[:120] + "..."
	}
	return s
}

func randWord(rng *hx.Rng) *big.Int {
	switch rng.Intn(6) {
	case 0:
		return big.NewInt(0)
	case 1:
		return new(big.Int).Sub(new(big.Int).Lsh(big.NewInt(1), 256), big.NewInt(1))
	case 2:
		return new(big.Int).SetBytes(rng.Bytes(1 + rng.Intn(8))) // many leading zero bytes
	}
	return new(big.Int).SetBytes(rng.Bytes(32))
}

func word32(z *big.Int) []byte {
	b := z.Bytes()
	out := make([]byte, 32)
	copy(out[32-len(b):], b)
	return out
}

func genC19(rng *hx.Rng, tier string, w *hx.Writer) error {
	rig, err := newEthRig(1)
	if err != nil {
		w.Put(hx.Case{Entry: "-", Op: 0, Args: hx.L(), Impl: hx.E, Oracle: hx.Fail("rig", "the adaptor could not be connected to the in-process endpoints: "+err.Error()), Tags: []string{"rig"}})
		return nil
	}
	nd := rig.nodes[0]
	nCalls := 60
	if tier == "thorough" {
		nCalls = 1200
	}
	sizes := []int{0, 1, 31, 32, 33, 64, 100, 1000}
	if tier == "thorough" {
		sizes = append(sizes, 65536, 1<<20)
	}
	for it := 0; it < nCalls; it++ {
		nd.Reset()
		var entryOp int
		var args string
		var method string
		var a abi.ABI
		var to common.Address
		var want []interface{}
		var callErr error
		kind := it % 6
		switch kind {
		case 0: // UpdateRandomness
			x, y := randWord(rng), randWord(rng)
			sig := append(word32(x), word32(y)...)
			method, a, to = "updateRandomness", proxyABI, ethProxy
			want = []interface{}{[2]*big.Int{x, y}}
			entryOp, args = 2, hx.L(hx.B(a.Methods[method].ID), hx.B(sig))
			callErr = rig.adaptor.UpdateRandomness(&vss.Signature{Signature: sig})
		case 1, 2: // DataReturn
			x, y := randWord(rng), randWord(rng)
			sig := append(word32(x), word32(y)...)
			rid := rng.Bytes(1 + rng.Intn(32))
			if rng.Intn(3) == 0 {
				rid[0] = 0
			}
			idx := uint32(rng.Intn(3))
			if rng.Intn(8) == 0 {
				idx = uint32(256 + rng.Intn(3)) // does not fit the contract's uint8
			}
			content := rng.Bytes(sizes[rng.Intn(len(sizes))])
			method, a, to = "triggerCallback", proxyABI, ethProxy
			want = []interface{}{new(big.Int).SetBytes(rid), uint8(idx), content, [2]*big.Int{x, y}}
			entryOp, args = 3, hx.L(hx.B(a.Methods[method].ID), hx.B(rid), hx.Zi(int(idx)), hx.B(content), hx.B(sig))
			callErr = rig.adaptor.DataReturn(&vss.Signature{Index: idx, RequestId: rid, Content: content, Signature: sig})
		case 3: // RegisterGroupPubKey
			var v [5]*big.Int
			for i := range v {
				v[i] = randWord(rng)
			}
			method, a, to = "registerGroupPubKey", proxyABI, ethProxy
			want = []interface{}{v[0], [4]*big.Int{v[1], v[2], v[3], v[4]}}
			entryOp, args = 4, hx.L(hx.B(a.Methods[method].ID), zList(v[:]))
			callErr = rig.adaptor.RegisterGroupPubKey(v)
		case 4: // Commit
			cid := randWord(rng)
			var c [32]byte
			copy(c[:], rng.Bytes(32))
			if rng.Intn(3) == 0 {
				c[0], c[1] = 0, 0
			}
			method, a, to = "commit", crABI, ethCR
			want = []interface{}{cid, c}
			entryOp, args = 5, hx.L(hx.B(a.Methods[method].ID), hx.Z(cid), hx.B(c[:]))
			callErr = rig.adaptor.Commit(cid, c)
		case 5: // Reveal
			cid, sec := randWord(rng), randWord(rng)
			method, a, to = "reveal", crABI, ethCR
			want = []interface{}{cid, sec}
			entryOp, args = 6, hx.L(hx.B(a.Methods[method].ID), hx.Z(cid), hx.Z(sec))
			callErr = rig.adaptor.Reveal(cid, sec)
		}
		txs := nd.Txs()
		impl, oracle := hx.E, "ok"
		switch {
		case callErr != nil:
			oracle = hx.Fail("call-failed", method+" returned an error although the endpoint accepts everything: "+callErr.Error())
		case len(txs) != 1:
			oracle = hx.Fail("not-one-transaction", fmt.Sprintf("%s produced %d transactions", method, len(txs)))
		default:
			tx := new(types.Transaction)
			if tx.UnmarshalBinary(txs[0]) == nil {
				impl = hx.B(tx.Data())
			}
			if msg := judgeTx(txs[0], rig, to, a, method, want); msg != "" {
				oracle = hx.Fail("wrong-transaction", method+": "+msg)
			}
		}
		w.Put(hx.Case{Entry: "abi", Op: entryOp, Args: args, Impl: impl, Oracle: oracle, Tags: []string{"call", "m:" + method, "nt"}})
	}
	rig.close()
	genC19Config(rng, tier, w)
	genC19Failover(rng, tier, w)
	genC19History(rng, tier, w)
	return nil
}

// The configuration is a file of strings: the chain id, the gas limit and the gas price are decimal
// numerals, and a numeral may be written with leading zeros (a zero-padded column, a templated
// value).  Whatever the spelling, every state-changing call - through a proxy session or a
// commit-reveal session, first choice or fail-over - is signed by the node key for THE NUMBER the
// configuration denotes and carries the gas settings it denotes.  The chains of the shipped
// configurations, small ids and random ones; numerals with and without the digits 8 and 9.
func genC19Config(rng *hx.Rng, tier string, w *hx.Writer) {
	spell := func(v int64, pad int) string { return strings.Repeat("0", pad) + fmt.Sprint(v) }
	chains := []int64{1, 56, 66, 128, 256, 100, 137, 42161, 7, 10, 4, 89, 5777, 1337, 43114, 11155111}
	nCfg := 10
	if tier == "thorough" {
		nCfg = 80
	}
	for it := 0; it < nCfg; it++ {
		var chain int64
		switch it % 4 {
		case 0, 1:
			chain = chains[rng.Intn(len(chains))]
			if it == 1 {
				chain = 100
			}
		case 2:
			chain = 1 + int64(rng.Intn(1<<30))
		default:
			chain = 1 + int64(rng.Intn(8))*8 + int64(rng.Intn(8)) // one or two digits
		}
		padC, padL, padP := 0, 0, 0
		if it%2 == 1 || it%8 == 2 {
			padC = 1 + rng.Intn(3)
		}
		if it%3 == 2 {
			padL = 1 + rng.Intn(2)
		}
		if it%5 == 3 {
			padP = 1 + rng.Intn(2)
		}
		limit := int64(200000 + rng.Intn(6000000))
		price := int64(1000000000 + rng.Intn(9000000)*1000)
		if it%4 == 0 {
			limit, price = ethGasLimit, ethGasPrice
		}
		cfgChain, cfgLimit, cfgPrice := spell(chain, padC), spell(limit, padL), spell(price, padP)
		n := 1 + it%2
		tags := []string{"config", fmt.Sprintf("endpoints:%d", n), "nt"}
		if padC > 0 {
			tags = append(tags, "chain-id-zero-padded")
		} else {
			tags = append(tags, "chain-id-canonical")
		}
		if padL+padP > 0 {
			tags = append(tags, "gas-zero-padded")
		}
		args := func(kind int) string {
			return hx.L(hx.B([]byte(cfgChain)), hx.B([]byte(cfgLimit)), hx.B([]byte(cfgPrice)), hx.Zi(n), hx.Zi(kind))
		}
		rig, err := newEthRigCfg(n, n, chain, cfgChain, cfgLimit, cfgPrice)
		if err != nil {
			w.Put(hx.Case{Entry: "-", Op: 0, Args: args(9), Impl: hx.E, Oracle: hx.Fail("rig", fmt.Sprintf("the adaptor could not be created and connected with chain id %q, gas limit %q, gas price %q: %v", cfgChain, cfgLimit, cfgPrice, err)), Tags: append(tags, "rig")})
			continue
		}
		// one call through a proxy session, one through a commit-reveal session, and (two endpoints)
		// one that the first endpoint refuses so that the second endpoint's sessions sign it
		kinds := []int{rng.Intn(3), 3 + rng.Intn(2)}
		if n == 2 {
			kinds = append(kinds, rng.Intn(5))
		}
		for ci, kind := range kinds {
			for _, nd := range rig.nodes {
				nd.Reset()
			}
			failover := n == 2 && ci == 2
			if failover {
				rig.nodes[rig.order[0]].TxOutcome = func(int) string { return "internal error" }
			}
			x, y := randWord(rng), randWord(rng)
			var method string
			var a abi.ABI
			var to common.Address
			var want []interface{}
			var callErr error
			switch kind {
			case 0:
				sig := append(word32(x), word32(y)...)
				method, a, to = "updateRandomness", proxyABI, ethProxy
				want = []interface{}{[2]*big.Int{x, y}}
				callErr = rig.adaptor.UpdateRandomness(&vss.Signature{Signature: sig})
			case 1:
				sig := append(word32(x), word32(y)...)
				rid, content := rng.Bytes(1+rng.Intn(32)), rng.Bytes(rng.Intn(70))
				method, a, to = "triggerCallback", proxyABI, ethProxy
				want = []interface{}{new(big.Int).SetBytes(rid), uint8(2), content, [2]*big.Int{x, y}}
				callErr = rig.adaptor.DataReturn(&vss.Signature{Index: 2, RequestId: rid, Content: content, Signature: sig})
			case 2:
				v := [5]*big.Int{x, y, randWord(rng), randWord(rng), randWord(rng)}
				method, a, to = "registerGroupPubKey", proxyABI, ethProxy
				want = []interface{}{v[0], [4]*big.Int{v[1], v[2], v[3], v[4]}}
				callErr = rig.adaptor.RegisterGroupPubKey(v)
			case 3:
				var c [32]byte
				copy(c[:], rng.Bytes(32))
				method, a, to = "commit", crABI, ethCR
				want = []interface{}{x, c}
				callErr = rig.adaptor.Commit(x, c)
			default:
				method, a, to = "reveal", crABI, ethCR
				want = []interface{}{x, y}
				callErr = rig.adaptor.Reveal(x, y)
			}
			var got [][]byte
			var from []int
			for e := 0; e < n; e++ {
				for _, raw := range rig.nodes[rig.order[e]].Txs() {
					got = append(got, raw)
					from = append(from, e)
				}
			}
			wantTx := 1
			if failover {
				wantTx = 2
			}
			impl, oracle := hx.E, "ok"
			switch {
			case callErr != nil:
				oracle = hx.Fail("call-failed", fmt.Sprintf("%s returned an error although an endpoint accepts everything (chain id %q): %v", method, cfgChain, callErr))
			case len(got) != wantTx:
				oracle = hx.Fail("not-one-transaction", fmt.Sprintf("%s reached the endpoints %d time(s), want %d", method, len(got), wantTx))
			default:
				var seen []string
				for i, raw := range got {
					tx := new(types.Transaction)
					if tx.UnmarshalBinary(raw) == nil {
						seen = append(seen, hx.L(hx.Z(tx.ChainId()), hx.Z(new(big.Int).SetUint64(tx.Gas())), hx.Z(tx.GasPrice())))
					}
					if msg := judgeTxCfg(raw, rig, big.NewInt(chain), uint64(limit), big.NewInt(price), to, a, method, want); msg != "" && oracle == "ok" {
						oracle = hx.Fail("config-not-in-force", fmt.Sprintf("configuration chain id %q, gas limit %q, gas price %q; %s as received by endpoint %d: %s", cfgChain, cfgLimit, cfgPrice, method, from[i], msg))
					}
				}
				impl = hx.L(seen...)
			}
			ctags := append([]string{}, tags...)
			ctags = append(ctags, "m:"+method)
			if failover {
				ctags = append(ctags, "failover")
			}
			w.Put(hx.Case{Entry: "-", Op: 0, Args: args(kind), Impl: impl, Oracle: oracle, Tags: ctags})
		}
		rig.close()
	}
}

var c19ReadTexts = map[int][]string{
	1: {"header not found", "execution reverted", "missing trie node 00ab (path )", "request timed out"},
	2: {"write tcp 127.0.0.1:1->127.0.0.1:2: use of closed network connection"},
}

// One adaptor over a whole history: reads (a getter, each endpoint answering a value / some other
// error / a closed connection), single state-changing calls with per-endpoint outcomes, and bursts
// of k state-changing calls queued at the same moment - all endpoints views of ONE account whose
// nonce question takes a while to answer during a burst.  Model: Models/Adaptor.v.
func genC19History(rng *hx.Rng, tier string, w *hx.Writer) {
	nh := 10
	if tier == "thorough" {
		nh = 120
	}
	var jobs []*c12job
	for it := 0; it < nh; it++ {
		arg := fmt.Sprintf("it=%d,seed=%d", it, rng.Intn(1<<30))
		job := &c12job{c: hx.Case{Entry: "-", Op: 0, Args: hx.L(hx.B([]byte(arg))), Tags: []string{"history", "nt"}},
			sub: "c19-history", arg: arg, timeout: 120 * time.Second, group: "adaptor"}
		job.finish = func(out string) (string, bool) {
			f := strings.Split(strings.TrimRight(out, "\n"), "\t")
			if len(f) != 6 {
				return hx.B([]byte(out)), false
			}
			job.c.Entry, job.c.Args = f[0], f[2]
			job.c.Op = atoi(f[1])
			job.c.Tags = strings.Split(f[5], ",")
			return f[3], f[4] == "ok"
		}
		job.explain = func(class, out, panicLine string) (string, string) {
			sc := "driver sub c19-history " + arg
			switch class {
			case "P":
				return "adaptor-crash", "a goroutine of the adaptor panicked during the history (" + sc + "): " + panicLine
			case "H":
				return "adaptor-hang", "the history did not finish (" + sc + ")"
			}
			f := strings.Split(strings.TrimRight(out, "\n"), "\t")
			if len(f) == 6 && strings.HasPrefix(f[4], "FAIL:") {
				parts := strings.SplitN(f[4], ":", 3)
				if len(parts) == 3 {
					return parts[1], parts[2] + " (" + sc + ")"
				}
			}
			return "adaptor-history", "unexpected scenario output (" + sc + "): " + out
		}
		jobs = append(jobs, job)
	}
	runC12Jobs(jobs, w)
}

// one history on one adaptor; returns the case (run in a child process: a panic in one of the adaptor's
// own goroutines cannot be recovered in-process)
func c19OneHistory(rng *hx.Rng, it int) hx.Case {
	wouts := []int{0, 0, 0, 1, 2, 3, 6, 6, 6}
	var result hx.Case
	w := caseSink{&result}
	n := 1 + it%3
	nws := n
	if n > 1 && it%2 == 0 {
		nws = 1 // more RPC endpoints than websocket endpoints
	}
	rig, err := newEthRigWS(n, nws)
	if err != nil {
		w.Put(hx.Case{Entry: "-", Op: 0, Args: hx.L(), Impl: hx.E, Oracle: hx.Fail("rig", "the adaptor could not be connected: "+err.Error()), Tags: []string{"rig"}})
		return result
	}
	chain := &doubles.Chain{Next: 7}
	for _, nd := range rig.nodes {
		nd.Chain = chain
	}
	node := func(e int) *doubles.EthNode { return rig.nodes[rig.order[e]] }
	alive := make([]bool, n) // the judge's own book-keeping of who may have been switched off, and why
	for i := range alive {
		alive[i] = true
	}
	var evs, outs, problems []string
	var tags []string
	L := 3 + rng.Intn(4)
	directed := it%4 == 1 // reconnect (after a failed attempt), a commit-reveal call, a burst
	call := func(kind int, x, y *big.Int) error {
		switch kind % 6 {
		case 0:
			return rig.adaptor.UpdateRandomness(&vss.Signature{Signature: append(word32(x), word32(y)...)})
		case 1:
			return rig.adaptor.DataReturn(&vss.Signature{Index: 2, RequestId: []byte{1}, Content: []byte("r"), Signature: append(word32(x), word32(y)...)})
		case 2:
			return rig.adaptor.RegisterGroupPubKey([5]*big.Int{x, y, x, y, x})
		case 3:
			return rig.adaptor.Commit(x, [32]byte{1})
		case 4:
			return rig.adaptor.Reveal(x, y)
		}
		return rig.adaptor.RegisterNewNode()
	}
	// the gas settings in force (the operator changes them while the node runs); every transaction
	// an endpoint receives carries the settings in force when the call was made
	curPrice, curLimit := int64(ethGasPrice), uint64(ethGasLimit)
	gasOf := func(step int) {
		for e := 0; e < n; e++ {
			for _, raw := range node(e).Txs() {
				tx := new(types.Transaction)
				if err := tx.UnmarshalBinary(raw); err != nil {
					continue
				}
				if tx.Gas() != curLimit || tx.GasPrice().Cmp(big.NewInt(curPrice)) != 0 {
					problems = append(problems, fmt.Sprintf("step %d: endpoint %d received a transaction with gas limit %d price %s; the settings in force are limit %d price %d", step, e, tx.Gas(), tx.GasPrice(), curLimit, curPrice))
					return
				}
			}
		}
	}
	gasVal := func(tx *types.Transaction) string {
		return hx.L(hx.Z(tx.GasPrice()), hx.Z(new(big.Int).SetUint64(tx.Gas())))
	}
	// the settings carried by what the endpoints received in this step: per endpoint in order (a
	// single call), or of all transactions in nonce order (a burst)
	gasesOf := func(byNonce bool) string {
		var txs []*types.Transaction
		for e := 0; e < n; e++ {
			for _, raw := range node(e).Txs() {
				tx := new(types.Transaction)
				if err := tx.UnmarshalBinary(raw); err == nil {
					txs = append(txs, tx)
				}
			}
		}
		if byNonce {
			sort.SliceStable(txs, func(i, j int) bool { return txs[i].Nonce() < txs[j].Nonce() })
		}
		var gs []string
		for _, tx := range txs {
			gs = append(gs, gasVal(tx))
		}
		return hx.L(gs...)
	}
	crKind := func(kind int) int {
		if k := kind % 6; k == 3 || k == 4 {
			return 1
		}
		return 0
	}
	broken := false
	for step := 0; step < L && !broken; step++ {
		for e := 0; e < n; e++ {
			node(e).Reset()
		}
		_, before := chain.Snapshot()
		k := rng.Intn(11)
		if directed && step < 3 {
			k = []int{10, 5, 9}[step]
		}
		if k != 10 && k >= 3 && (rng.Intn(3) == 0 || (step <= 1 && n > nws)) {
			curPrice = 1000000000 + int64(rng.Intn(9000000))*1000
			curLimit = uint64(200000 + rng.Intn(4000000))
			rig.adaptor.SetGasPrice(big.NewInt(curPrice))
			rig.adaptor.SetGasLimit(new(big.Int).SetUint64(curLimit))
			tags = append(tags, "gas-settings-changed")
			evs = append(evs, hx.L(hx.Zi(4), hx.Zi(int(curPrice)), hx.Zi(int(curLimit))))
			outs = append(outs, hx.L(hx.Zi(4)))
		}
		switch {
		case k == 10: // ---- the node drops its connections and connects again
			failFirst := rng.Bool()
			if err := rig.reconnect(failFirst); err != nil {
				problems = append(problems, fmt.Sprintf("step %d: after DisconnectAll and Connect a state-changing call that every endpoint would answer did not reach the endpoints as it should (%v)", step, err))
				broken = true
			}
			for i := range alive {
				alive[i] = true
			}
			evs = append(evs, hx.L(hx.Zi(3)))
			outs = append(outs, hx.L(hx.L(hx.Zi(3)), hx.L()))
			if failFirst {
				tags = append(tags, "reconnect-after-failed-attempt")
			} else {
				tags = append(tags, "reconnect")
			}
		case k < 3: // ---- a read
			rs := make([]int, n)
			var zs []string
			for e := 0; e < n; e++ {
				rs[e] = []int{0, 0, 0, 1, 1, 1, 2}[rng.Intn(7)]
				txt := ""
				if rs[e] != 0 {
					ts := c19ReadTexts[rs[e]]
					txt = ts[rng.Intn(len(ts))]
				}
				node(e).ReadOutcome = func() string { return txt }
				zs = append(zs, hx.Zi(rs[e]))
			}
			_, rerr := rig.adaptor.GroupSize()
			served, wantServed := 0, false
			if rerr == nil {
				served = 1
			}
			for e := 0; e < n; e++ {
				if alive[e] && rs[e] == 0 {
					wantServed = true
				}
			}
			if wantServed != (rerr == nil) {
				problems = append(problems, fmt.Sprintf("step %d: the read returned error=%v although a healthy endpoint answered=%v", step, rerr, wantServed))
			}
			for e := 0; e < n; e++ {
				if alive[e] && rs[e] == 2 {
					alive[e] = false
				}
			}
			evs = append(evs, hx.L(hx.Zi(0), hx.L(zs...)))
			outs = append(outs, hx.L(hx.L(hx.Zi(0), hx.Zi(served)), hx.L()))
			tags = append(tags, "read")
		case k < 8: // ---- one state-changing call
			assign := make([]int, n)
			var zs []string
			for e := 0; e < n; e++ {
				assign[e] = wouts[rng.Intn(len(wouts))]
				txt := ""
				if assign[e] != 0 {
					ts := c19Texts[assign[e]]
					txt = ts[rng.Intn(len(ts))]
				}
				node(e).TxOutcome = func(int) string { return txt }
				zs = append(zs, hx.Zi(assign[e]))
			}
			ck := rng.Intn(6)
			if directed && step == 1 {
				ck = 3 + rng.Intn(2) // Commit / Reveal: the commit-reveal sessions of the NEW connection
				for e := 0; e < n; e++ {
					node(e).TxOutcome = func(int) string { return "" }
					assign[e] = 0
				}
				zs = zs[:0]
				for e := 0; e < n; e++ {
					zs = append(zs, hx.Zi(0))
				}
			}
			callErr := call(ck, randWord(rng), randWord(rng))
			gasOf(step)
			var sent []string
			stopped := false
			accepted := 0
			for e := 0; e < n; e++ {
				got := len(node(e).Txs())
				want := 0
				if alive[e] && !stopped {
					switch assign[e] {
					case 0, 1, 2:
						want, stopped = 1, true
						if assign[e] == 0 {
							accepted++
						}
					case 6:
						want = 1
					case 3:
						alive[e] = false
					}
				}
				if got != want {
					problems = append(problems, fmt.Sprintf("step %d: endpoint %d received the call %d time(s), want %d (outcomes %v)", step, e, got, want, assign))
				}
				if got > 0 {
					sent = append(sent, hx.Zi(e))
				}
			}
			if (callErr == nil) != (accepted == 1) {
				problems = append(problems, fmt.Sprintf("step %d: the caller got error=%v although %d endpoint(s) accepted", step, callErr, accepted))
			}
			res := "N"
			if callErr == nil {
				res = hx.Zi(0)
			} else {
				msg := callErr.Error()
				switch {
				case strings.Contains(msg, "transaction failed"):
					res = hx.Zi(1)
				case strings.Contains(msg, "insufficient funds"):
					res = hx.Zi(2)
				case strings.Contains(msg, "failed to retrieve account nonce"):
					res = hx.Zi(3)
				case strings.Contains(msg, "not connecting to geth"):
					res = "N"
				default:
					res = hx.Zi(6)
				}
			}
			_, after := chain.Snapshot()
			nonce := "N"
			if len(after) == len(before)+1 {
				nonce = hx.Zi(int(after[len(after)-1]))
			} else if len(after) != len(before) {
				problems = append(problems, fmt.Sprintf("step %d: one call produced %d accepted transactions", step, len(after)-len(before)))
			}
			evs = append(evs, hx.L(hx.Zi(1), hx.Zi(crKind(ck)), hx.L(zs...)))
			outs = append(outs, hx.L(hx.L(hx.Zi(1), hx.L(sent...), res, nonce), gasesOf(false)))
			tags = append(tags, "write")
		default: // ---- a burst of k calls queued together; the nonce question takes 60 ms to answer
			k := 2 + rng.Intn(3)
			for e := 0; e < n; e++ {
				node(e).NonceDelay = 60 * time.Millisecond
			}
			errs := make([]error, k)
			var wg sync.WaitGroup
			base := rng.Intn(6)
			xs := make([]*big.Int, 2*k)
			for i := range xs {
				xs[i] = randWord(rng)
			}
			for i := 0; i < k; i++ {
				wg.Add(1)
				go func(i int) {
					defer wg.Done()
					errs[i] = call(base+i, xs[2*i], xs[2*i+1])
				}(i)
			}
			wg.Wait()
			gasOf(step)
			burstGases := gasesOf(true)
			var kinds []string
			for i := 0; i < k; i++ {
				kinds = append(kinds, hx.Zi(crKind(base+i)))
			}
			for e := 0; e < n; e++ {
				node(e).NonceDelay = 0
			}
			_, after := chain.Snapshot()
			anyAlive := false
			for _, a := range alive {
				anyAlive = anyAlive || a
			}
			var ns []string
			seen := map[uint64]bool{}
			for _, x := range after[len(before):] {
				ns = append(ns, hx.Zi(int(x)))
				if seen[x] {
					problems = append(problems, fmt.Sprintf("step %d: two transactions of the burst carry nonce %d", step, x))
				}
				seen[x] = true
			}
			if anyAlive {
				if len(ns) != k {
					problems = append(problems, fmt.Sprintf("step %d: %d calls were queued together, %d became accepted transactions", step, k, len(ns)))
				}
				for i, e := range errs {
					if e != nil {
						problems = append(problems, fmt.Sprintf("step %d: call %d of the burst returned %v", step, i, e))
						break
					}
				}
			}
			evs = append(evs, hx.L(hx.Zi(2), hx.L(kinds...)))
			outs = append(outs, hx.L(hx.L(hx.Zi(2), hx.L(ns...)), burstGases))
			tags = append(tags, "burst")
		}
	}
	if broken {
		rig.close()
		w.Put(hx.Case{Entry: "-", Op: 0, Args: hx.L(hx.Zi(n)), Impl: hx.E, Oracle: hx.Fail("adaptor-history", strings.Join(problems, "; ")),
			Tags: append([]string{"history", fmt.Sprintf("endpoints:%d", n), "nt"}, dedup(tags)...)})
		return result
	}
	// the endpoints' final state is observed through one more call that every endpoint would accept
	for e := 0; e < n; e++ {
		node(e).Reset()
	}
	_, before := chain.Snapshot()
	closeErr := call(5, big.NewInt(1), big.NewInt(2))
	_, after := chain.Snapshot()
	firstAlive := -1
	for e := 0; e < n; e++ {
		if alive[e] && firstAlive < 0 {
			firstAlive = e
		}
	}
	var sent, zs []string
	for e := 0; e < n; e++ {
		got := len(node(e).Txs())
		want := 0
		if e == firstAlive {
			want = 1
		}
		if got != want {
			problems = append(problems, fmt.Sprintf("after the history: endpoint %d received the closing call %d time(s), want %d (the first endpoint that never failed a nonce retrieval / closed its connection is %d)", e, got, want, firstAlive))
		}
		if got > 0 {
			sent = append(sent, hx.Zi(e))
		}
		zs = append(zs, hx.Zi(0))
	}
	res, nonce := "N", "N"
	if closeErr == nil {
		res = hx.Zi(0)
	}
	if len(after) == len(before)+1 {
		nonce = hx.Zi(int(after[len(after)-1]))
	}
	evs = append(evs, hx.L(hx.Zi(1), hx.Zi(0), hx.L(zs...)))
	outs = append(outs, hx.L(hx.L(hx.Zi(1), hx.L(sent...), res, nonce), gasesOf(false)))
	rig.close()
	oracle := "ok"
	if len(problems) > 0 {
		if len(problems) > 3 {
			problems = problems[:3]
		}
		oracle = hx.Fail("adaptor-history", strings.Join(problems, "; "))
	}
	impl := hx.L(outs...)
	w.Put(hx.Case{Entry: "adaptorgas", Op: 1, Args: hx.L(hx.Zi(n), hx.Zi(7), hx.Zi(ethGasPrice), hx.Zi(ethGasLimit), hx.L(evs...)), Impl: impl, Oracle: oracle,
		Tags: append([]string{"history", fmt.Sprintf("endpoints:%d", n), "nt"}, dedup(tags)...)})
	return result
}

type caseSink struct{ c *hx.Case }

func (s caseSink) Put(c hx.Case) { *s.c = c }

func subC19History(arg string) string {
	a := parseArg(arg)
	rng := hx.NewRng(uint64(atoi(a["seed"]))*7919 + uint64(atoi(a["it"])))
	c := c19OneHistory(rng, atoi(a["it"]))
	if c.Oracle == "" {
		c.Oracle = "ok"
	}
	return strings.Join([]string{c.Entry, fmt.Sprint(c.Op), c.Args, c.Impl, strings.ReplaceAll(c.Oracle, "\t", " "), strings.Join(c.Tags, ",")}, "\t")
}

func dedup(xs []string) []string {
	seen := map[string]bool{}
	var out []string
	for _, x := range xs {
		if !seen[x] {
			seen[x] = true
			out = append(out, x)
		}
	}
	return out
}

var c19Texts = map[int][]string{
	1: {"transaction failed", "err: transaction failed (status 0)"},
	2: {"insufficient funds for gas * price + value"},
	3: {"nonce:connection reset by peer", "nonce:EOF"},
	6: {"nonce too low", "replacement transaction underpriced", "already known", "exceeds block gas limit", "internal error"},
}

func genC19Failover(rng *hx.Rng, tier string, w *hx.Writer) {
	outs := []int{0, 1, 2, 3, 6}
	rounds := 2
	if tier == "thorough" {
		rounds = 10
	}
	for n := 1; n <= 3; n++ {
		// every assignment of outcomes to the endpoints, as the first call on a fresh adaptor; then one
		// more call on the same adaptor (endpoints switched off by the first call stay off)
		total := 1
		for i := 0; i < n; i++ {
			total *= len(outs)
		}
		for round := 0; round < rounds; round++ {
			for code := 0; code < total; code++ {
				if n == 3 && tier == "quick" && (code+round)%5 != 0 {
					continue
				}
				assign := make([]int, n)
				c := code
				for i := range assign {
					assign[i] = outs[c%len(outs)]
					c /= len(outs)
				}
				rig, err := newEthRig(n)
				if err != nil {
					w.Put(hx.Case{Entry: "-", Op: 0, Args: hx.L(), Impl: hx.E, Oracle: hx.Fail("rig", "the adaptor could not be connected: "+err.Error()), Tags: []string{"rig"}})
					continue
				}
				alive := make([]bool, n)
				for i := range alive {
					alive[i] = true
				}
				for call := 0; call < 2; call++ {
					if call == 1 {
						for i := range assign {
							assign[i] = outs[rng.Intn(len(outs))]
						}
					}
					var eps []string
					for e := 0; e < n; e++ {
						nd := rig.nodes[rig.order[e]]
						nd.Reset()
						o := assign[e]
						txt := ""
						if o != 0 {
							ts := c19Texts[o]
							txt = ts[rng.Intn(len(ts))]
						}
						nd.TxOutcome = func(int) string { return txt }
						al := 0
						if alive[e] {
							al = 1
						}
						eps = append(eps, hx.L(hx.Zi(al), hx.Zi(o)))
					}
					x, y := randWord(rng), randWord(rng)
					var callErr error
					// every call takes the same path through the endpoint loop; each is exercised
					callKind := (code + round + call) % 6
					switch callKind {
					case 0:
						callErr = rig.adaptor.UpdateRandomness(&vss.Signature{Signature: append(word32(x), word32(y)...)})
					case 1:
						callErr = rig.adaptor.DataReturn(&vss.Signature{Index: 2, RequestId: []byte{1}, Content: []byte("r"), Signature: append(word32(x), word32(y)...)})
					case 2:
						callErr = rig.adaptor.RegisterGroupPubKey([5]*big.Int{x, y, x, y, x})
					case 3:
						callErr = rig.adaptor.Commit(x, [32]byte{1})
					case 4:
						callErr = rig.adaptor.Reveal(x, y)
					case 5:
						callErr = rig.adaptor.RegisterNewNode()
					}
					var sent, cancelled []string
					accepted := 0
					stopAt := -1
					problems := []string{}
					for e := 0; e < n; e++ {
						nd := rig.nodes[rig.order[e]]
						k := len(nd.Txs())
						if k > 1 {
							problems = append(problems, fmt.Sprintf("endpoint %d received the call %d times", e, k))
						}
						if k >= 1 {
							sent = append(sent, hx.Zi(e))
							if stopAt >= 0 {
								problems = append(problems, fmt.Sprintf("endpoint %d received the call although endpoint %d had answered accept / revert / insufficient funds", e, stopAt))
							}
							if assign[e] == 0 {
								accepted++
							}
							if assign[e] <= 2 && stopAt < 0 {
								stopAt = e
							}
						}
						if alive[e] && assign[e] == 3 && nd.NonceAsked() > 0 {
							cancelled = append(cancelled, hx.Zi(e))
						}
					}
					if accepted > 1 {
						problems = append(problems, "more than one endpoint accepted the call")
					}
					if (callErr == nil) != (accepted == 1) {
						problems = append(problems, fmt.Sprintf("the caller got error=%v although %d endpoint(s) accepted", callErr, accepted))
					}
					// what the caller got: the class of the last attempt
					res := "N"
					if callErr == nil {
						res = hx.Zi(0)
					} else {
						msg := callErr.Error()
						switch {
						case strings.Contains(msg, "transaction failed"):
							res = hx.Zi(1)
						case strings.Contains(msg, "insufficient funds"):
							res = hx.Zi(2)
						case strings.Contains(msg, "failed to retrieve account nonce"):
							res = hx.Zi(3)
						case strings.Contains(msg, "not connecting to geth"):
							res = "N"
						default:
							res = hx.Zi(6)
						}
					}
					impl := hx.L(hx.L(sent...), res, hx.L(cancelled...))
					oracle := "ok"
					if len(problems) > 0 {
						oracle = hx.Fail("unsafe-failover", strings.Join(problems, "; ")+fmt.Sprintf(" (endpoints %v, alive %v)", assign, alive))
					}
					// all endpoints off: the adaptor refuses the call before the loop ("not connecting")
					anyAlive := false
					for _, a := range alive {
						anyAlive = anyAlive || a
					}
					entry := "abi"
					if !anyAlive {
						entry = "-"
					}
					w.Put(hx.Case{Entry: entry, Op: 7, Args: hx.L(hx.L(eps...)), Impl: impl, Oracle: oracle,
						Tags: []string{"failover", fmt.Sprintf("endpoints:%d", n), fmt.Sprintf("call:%d", call), fmt.Sprintf("m:%d", callKind), "nt"}})
					for e := 0; e < n; e++ {
						if alive[e] && assign[e] == 3 && rig.nodes[rig.order[e]].NonceAsked() > 0 {
							alive[e] = false
						}
					}
				}
				rig.close()
			}
		}
	}
}
