package props

import (
	"bytes"
	"context"
	"fmt"
	"github.com/DOSNetwork/core/p2p/discover"
	"net"
	"sort"
	"strings"
	"sync"
	"time"

	"github.com/DOSNetwork/core/p2p"
	vss "github.com/DOSNetwork/core/share/vss/pedersen"
	"github.com/golang/protobuf/ptypes"

	"verif/harness/hx"
)

func init() {
	Registry["C17"] = genC17
	SubRegistry["c17-system"] = subC17System
	SubRegistry["c17-conntable"] = subC17ConnTable
}

// ---------------------------------------------------------------- the correlation table, event by event

func genC17Dispatch(rng *hx.Rng, w *hx.Writer, maxEv int) {
	h := p2p.VerifNewDispatch()
	defer h.Cancel()
	type pend struct {
		v     *p2p.VerifRequest
		nonce uint64
		done  bool
	}
	reqs := map[int]*pend{}
	var order []int
	var evs []string
	var wire []string
	returned := map[int]string{}
	var retOrder []int
	var judged []string
	alive := true
	nextR := 10
	nEv := 3 + rng.Intn(maxEv)
	wait := func(r int, d time.Duration) {
		p := reqs[r]
		if p == nil || p.done {
			return
		}
		type res struct {
			m   p2p.P2PMessage
			err error
		}
		ch := make(chan res, 1)
		go func() { m, err := p.v.Wait(); ch <- res{m, err} }()
		select {
		case x := <-ch:
			p.done = true
			retOrder = append(retOrder, r)
			if x.err == nil {
				idx := -1
				if s, ok := x.m.Msg.Message.(*vss.Signature); ok {
					idx = int(s.Index)
				}
				returned[r] = hx.L(hx.Zi(0), hx.Zi(idx))
			} else if strings.Contains(x.err.Error(), "client dispatch") {
				returned[r] = hx.L(hx.Zi(2))
			} else {
				returned[r] = hx.L(hx.Zi(1))
			}
		case <-time.After(d):
			// still waiting: Wait has consumed nothing yet, but its goroutine now owns the request
			p.done = true
			go func() { <-ch }()
			returned[r] = "W"
			retOrder = append(retOrder, r)
		}
	}
	panicked := hx.Catch(func() string {
		for e := 0; e < nEv; e++ {
			switch k := rng.Intn(10); {
			case k < 4 || len(order) == 0: // send
				r := nextR
				nextR++
				if !alive {
					evs = append(evs, hx.L(hx.Zi(0), hx.Zi(r)))
					ctx, cancel := context.WithTimeout(context.Background(), 30*time.Millisecond)
					h.Send(ctx, &vss.Signature{Index: uint32(r)})
					cancel()
					continue
				}
				// the request's own context stays open; only the hand-over to the dispatcher is bounded
				type sres struct {
					v   *p2p.VerifRequest
					err error
				}
				sch := make(chan sres, 1)
				go func() { v, err := h.Send(context.Background(), &vss.Signature{Index: uint32(r)}); sch <- sres{v, err} }()
				var v *p2p.VerifRequest
				select {
				case x := <-sch:
					if x.err != nil {
						continue
					}
					v = x.v
				case <-time.After(time.Second):
					return "H"
				}
				evs = append(evs, hx.L(hx.Zi(0), hx.Zi(r)))
				var n uint64
				select {
				case n = <-h.Out:
				case <-time.After(time.Second):
					return "H"
				}
				reqs[r] = &pend{v: v, nonce: n}
				order = append(order, r)
				wire = append(wire, hx.L(hx.Zi(r), hx.Zu64(n)))
			case k < 8: // a reply: for a pending nonce, an old nonce, or one never issued
				var n uint64
				switch rng.Intn(5) {
				case 0:
					n = uint64(50 + rng.Intn(5))
				default:
					n = reqs[order[rng.Intn(len(order))]].nonce
				}
				m := 1000 + e
				evs = append(evs, hx.L(hx.Zi(1), hx.Zu64(n), hx.Zi(m)))
				if alive {
					select {
					case h.ReplyMsg <- p2p.P2PMessage{Msg: ptypes.DynamicAny{Message: &vss.Signature{Index: uint32(m)}}, RequestNonce: n}:
					case <-time.After(time.Second):
						return "H"
					}
					time.Sleep(300 * time.Microsecond)
					for _, r := range order {
						if reqs[r].nonce == n && !reqs[r].done {
							wait(r, 100*time.Millisecond)
							// the judge's own expectation: a pending request whose reply has arrived returns that reply
							// (its caller starts waiting only now - after the reply)
							if got, want := returned[r], hx.L(hx.Zi(0), hx.Zi(m)); got != want {
								judged = append(judged, fmt.Sprintf("request %d was pending on a live connection when the reply with its nonce (content %d) arrived, and its call returned %s instead of that reply", r, m, got))
							}
						}
					}
				}
			case k < 9: // the caller gives up
				r := order[rng.Intn(len(order))]
				evs = append(evs, hx.L(hx.Zi(2), hx.Zi(r)))
				if !reqs[r].done {
					reqs[r].v.Cancel()
					wait(r, 200*time.Millisecond)
				}
			default: // the connection ends
				evs = append(evs, hx.L(hx.Zi(3)))
				if alive {
					alive = false
					h.Cancel()
					time.Sleep(time.Millisecond)
					// every pending caller is waiting (each has its own goroutine in the real node)
					var wg sync.WaitGroup
					var wmu sync.Mutex
					for _, r := range order {
						if reqs[r].done {
							continue
						}
						wg.Add(1)
						go func(r int) {
							defer wg.Done()
							p := reqs[r]
							type res struct {
								m   p2p.P2PMessage
								err error
							}
							ch := make(chan res, 1)
							go func() { m, err := p.v.Wait(); ch <- res{m, err} }()
							out := "W"
							select {
							case x := <-ch:
								if x.err == nil {
									out = hx.L(hx.Zi(0), hx.Zi(-1))
								} else if strings.Contains(x.err.Error(), "client dispatch") {
									out = hx.L(hx.Zi(2))
								} else {
									out = hx.L(hx.Zi(1))
								}
							case <-time.After(500 * time.Millisecond):
							}
							wmu.Lock()
							p.done = true
							returned[r] = out
							retOrder = append(retOrder, r)
							wmu.Unlock()
						}(r)
					}
					wg.Wait()
				}
			}
		}
		return "ok"
	})
	var rets []string
	sort.Ints(retOrder) // the order in which the connection's end fails the pending requests is not specified
	for _, r := range retOrder {
		if returned[r] == "W" {
			continue
		}
		rets = append(rets, hx.L(hx.Zi(r), returned[r]))
	}
	impl := hx.L(hx.L(wire...), hx.L(rets...))
	oracle := "ok"
	if panicked == hx.P {
		impl = hx.P
		oracle = hx.Fail("dispatch-panic", "the request dispatcher panicked: "+hx.LastPanic)
	} else if panicked == "H" {
		impl = "H"
		oracle = hx.Fail("dispatch-wedged", "the request dispatcher stopped taking events")
	}
	for _, r := range retOrder {
		if returned[r] == "W" {
			oracle = hx.Fail("no-return", fmt.Sprintf("request %d did not return although it was answered, cancelled or its connection ended", r))
		}
	}
	if oracle == "ok" && len(judged) > 0 {
		oracle = hx.Fail("wrong-or-late-return", judged[0])
	}
	tags := []string{"dispatcher", fmt.Sprintf("events:%d", len(evs)), fmt.Sprintf("returned:%d", len(rets))}
	if len(rets) > 1 {
		tags = append(tags, "nt")
	}
	w.Put(hx.Case{Entry: "dispatch", Op: 1, Args: hx.L(hx.L(evs...)), Impl: impl, Oracle: oracle, Tags: tags})
}

// ---------------------------------------------------------------- real endpoints, scripted responders

var bigReply = bytes.Repeat([]byte("0123456789abcdef"), 40000) // 640 000 bytes

// arg: n=<requests>,peers=<k>,drop=<percent>,cancel=<percent>,fault=none|peer-closes|refused|silent,seed=..
// prints one line per judged fact; "ok" if nothing is wrong
func subC17System(arg string) string {
	a := parseArg(arg)
	nreq, npeers, fault := atoi(a["n"]), atoi(a["peers"]), a["fault"]
	rng := hx.NewRng(uint64(atoi(a["seed"])) + 31)
	dropPct, cancelPct := atoi(a["drop"]), atoi(a["cancel"])
	pa := freePort()
	addrs := map[string]string{}
	mem := &staticMembers{addrs: addrs}
	var responders []p2p.P2PInterface
	var rmu sync.Mutex
	dropped := map[string]bool{}
	startResponder := func(i int) p2p.P2PInterface {
		id := fmt.Sprintf("peer%d", i)
		port := freePort()
		addrs[id] = "127.0.0.1:" + port
		s := startServer(id, port, &staticMembers{addrs: map[string]string{"a": "127.0.0.1:" + pa}})
		ch, _ := s.SubscribeMsg(400, vss.Signature{})
		go func(s p2p.P2PInterface, id string, ch chan p2p.P2PMessage) {
			for m := range ch {
				sig, ok := m.Msg.Message.(*vss.Signature)
				if !ok {
					continue
				}
				tag := string(sig.RequestId)
				rmu.Lock()
				drop := rng.Intn(100) < dropPct
				delay := time.Duration(rng.Intn(40)) * time.Millisecond
				if drop {
					dropped[tag] = true
				}
				rmu.Unlock()
				if drop {
					continue
				}
				go func(m p2p.P2PMessage) {
					time.Sleep(delay)
					rep := &vss.Signature{RequestId: []byte("re:" + tag + "@" + id)}
					if tag == "" {
						rep = &vss.Signature{} // every field at its default: an empty payload
					}
					if tag == "q7" || tag == "q17" || tag == "q27" {
						rep.Content = bigReply // a reply that reaches the requester in many reads
					}
					s.Reply(context.Background(), m.Sender, m.RequestNonce, rep)
				}(m)
			}
		}(s, id, ch)
		return s
	}
	for i := 0; i < npeers; i++ {
		responders = append(responders, startResponder(i))
	}
	// the special peers
	var silentLn net.Listener
	switch fault {
	case "refused":
		addrs["bad"] = "127.0.0.1:" + freePort() // nobody listens
	case "silent":
		silentLn, _ = net.Listen("tcp", "127.0.0.1:0")
		addrs["bad"] = silentLn.Addr().String()
		go func() {
			for {
				c, err := silentLn.Accept()
				if err != nil {
					return
				}
				_ = c // accepted, never answered
			}
		}()
		defer silentLn.Close()
	}
	sa := startServer("a", pa, mem)
	time.Sleep(30 * time.Millisecond)
	var problems []string
	var pmu sync.Mutex
	note := func(s string) { pmu.Lock(); problems = append(problems, s); pmu.Unlock() }
	var wg sync.WaitGroup
	if fault == "refused" || fault == "silent" {
		// one request to the bad peer, then requests to the good ones must still be served promptly
		wg.Add(1)
		go func() {
			defer wg.Done()
			t0 := time.Now()
			ctx, cancel := context.WithTimeout(context.Background(), 2*time.Second)
			_, err := sa.Request(ctx, []byte("bad"), &vss.Signature{RequestId: []byte("to-bad")})
			cancel()
			if err == nil {
				note("a request to an unreachable peer returned a reply")
			}
			if d := time.Since(t0); d > 6500*time.Millisecond {
				note(fmt.Sprintf("the request to the unreachable peer took %v to fail", d.Round(time.Millisecond)))
			}
		}()
		time.Sleep(100 * time.Millisecond)
	}
	if fault == "aged-connection" {
		// the connection to each peer is opened by a request that carries a deadline; the deadline
		// bounds that request (and the id exchange it caused), not the connection: the requests made
		// on the same connection after the deadline has passed must be served
		for i := 0; i < npeers; i++ {
			ctx, cancel := context.WithTimeout(context.Background(), 700*time.Millisecond)
			_, err := sa.Request(ctx, []byte(fmt.Sprintf("peer%d", i)), &vss.Signature{RequestId: []byte(fmt.Sprintf("open%d", i))})
			cancel()
			if err != nil {
				note(fmt.Sprintf("the request that opened the connection to peer%d returned the error %v", i, err))
			}
		}
		time.Sleep(1100 * time.Millisecond)
	}
	closeAt := -1
	if fault == "peer-closes" {
		closeAt = nreq / 2
	}
	restartAt := -1
	if fault == "peer-restarts" {
		restartAt = nreq / 2
	}
	for i := 0; i < nreq; i++ {
		if i == closeAt {
			responders[0].Leave()
		}
		if i == restartAt {
			// every request so far has returned; the peer goes away (it closes the connections it holds)
			// and comes back under the same id at a new address; requests made afterwards - to it and
			// to the others - must be served
			wg.Wait()
			responders[0].Leave()
			time.Sleep(400 * time.Millisecond)
			responders[0] = startResponder(0)
			time.Sleep(50 * time.Millisecond)
		}
		wg.Add(1)
		go func(i int) {
			defer wg.Done()
			peer := fmt.Sprintf("peer%d", i%npeers)
			tag := fmt.Sprintf("q%d", i)
			ctx, cancel := context.WithCancel(context.Background())
			cancelled := false
			var cancelAfter time.Duration
			rmu.Lock()
			if rng.Intn(100) < cancelPct {
				cancelled = true
				cancelAfter = time.Duration(rng.Intn(30)) * time.Millisecond
			}
			rmu.Unlock()
			if cancelled {
				go func() { time.Sleep(cancelAfter); cancel() }()
			}
			t0 := time.Now()
			r, err := sa.Request(ctx, []byte(peer), &vss.Signature{RequestId: []byte(tag)})
			d := time.Since(t0)
			cancel()
			if err == nil {
				s, ok := r.Msg.Message.(*vss.Signature)
				want := "re:" + tag + "@" + peer
				if !ok || string(s.RequestId) != want {
					got := "?"
					if ok {
						got = string(s.RequestId)
					}
					note(fmt.Sprintf("request %s to %s returned %q, a reply addressed to another request", tag, peer, got))
				}
			} else {
				if cancelled && d > cancelAfter+1500*time.Millisecond {
					note(fmt.Sprintf("cancelled request %s returned only after %v", tag, d.Round(time.Millisecond)))
				}
				if d > 6500*time.Millisecond {
					note(fmt.Sprintf("request %s failed only after %v", tag, d.Round(time.Millisecond)))
				}
				rmu.Lock()
				wasDropped := dropped[tag]
				rmu.Unlock()
				if !cancelled && !wasDropped && (fault == "none" || fault == "peer-restarts" || fault == "aged-connection") {
					note(fmt.Sprintf("request %s to %s was answered but returned the error %v", tag, peer, err))
				}
				if !cancelled && !wasDropped && (fault == "refused" || fault == "silent") {
					note(fmt.Sprintf("request %s to the reachable peer %s failed while another peer was unreachable: %v", tag, peer, err))
				}
			}
		}(i)
		if rng.Intn(4) == 0 {
			time.Sleep(time.Duration(rng.Intn(3)) * time.Millisecond)
		}
	}
	if fault == "none" && dropPct == 0 && cancelPct == 0 {
		// a request and a reply whose every field is at its default (they encode to no bytes at all)
		wg.Add(1)
		go func() {
			defer wg.Done()
			ctx, cancel := context.WithTimeout(context.Background(), 5*time.Second)
			defer cancel()
			r, err := sa.Request(ctx, []byte("peer0"), &vss.Signature{})
			if err != nil {
				note(fmt.Sprintf("a request whose message has every field at its default, answered likewise, returned the error %v", err))
			} else if s, ok := r.Msg.Message.(*vss.Signature); !ok || len(s.RequestId) != 0 {
				note("the empty request's call returned another request's reply")
			}
		}()
	}
	done := make(chan struct{})
	go func() { wg.Wait(); close(done) }()
	select {
	case <-done:
	case <-time.After(20 * time.Second):
		return "wedged: requests still pending after 20 s"
	}
	// the connections are torn down (the node leaves): whatever state cancelled and dropped requests
	// left behind must not crash the process
	sa.Leave()
	for _, r := range responders {
		r.Leave()
	}
	time.Sleep(250 * time.Millisecond)
	if len(problems) == 0 {
		return "ok"
	}
	sort.Strings(problems)
	if len(problems) > 4 {
		problems = append(problems[:4], fmt.Sprintf("... and %d more", len(problems)-4))
	}
	return strings.Join(problems, "; ")
}

// ---------------------------------------------------------------- the connection tables

// arg: ev=<k.id>+<k.id>+...   k: 0 this node requests peer id | 1 peer id requests this node |
// 2 peer id goes away | 4 peer id comes back (new address) | 3 this node replies to peer id.
// After every event the handlers get time to settle; prints per event "class:iNum:cNum" with the
// classes of Models/ConnTable.v's wire (0 handed to an existing live connection, 1 dialled, 2 dial
// failed, 3 accepted, 5 no client, 6 nothing, 9 a request that should have been served failed)
func subC17ConnTable(arg string) string {
	a := parseArg(arg)
	pa := freePort()
	addrs := map[string]string{}
	var amu sync.Mutex
	mem := &lockedMembers{addrs: addrs, mu: &amu}
	const npeers = 3
	peers := make([]p2p.P2PInterface, npeers)
	startPeer := func(i int) {
		id := fmt.Sprintf("peer%d", i)
		port := freePort()
		amu.Lock()
		addrs[id] = "127.0.0.1:" + port
		amu.Unlock()
		s := startServer(id, port, &staticMembers{addrs: map[string]string{"a": "127.0.0.1:" + pa}})
		peers[i] = s
		ch, _ := s.SubscribeMsg(50, vss.Signature{})
		go func() {
			for m := range ch {
				if sig, ok := m.Msg.Message.(*vss.Signature); ok {
					go s.Reply(context.Background(), m.Sender, m.RequestNonce, &vss.Signature{RequestId: append([]byte("re:"), sig.RequestId...)})
				}
			}
		}()
	}
	for i := 0; i < npeers; i++ {
		startPeer(i)
	}
	sa := startServer("a", pa, mem)
	cha, _ := sa.SubscribeMsg(50, vss.Signature{})
	go func() {
		for m := range cha {
			if sig, ok := m.Msg.Message.(*vss.Signature); ok {
				go sa.Reply(context.Background(), m.Sender, m.RequestNonce, &vss.Signature{RequestId: append([]byte("re:"), sig.RequestId...)})
			}
		}
	}()
	time.Sleep(30 * time.Millisecond)
	up := make([]bool, npeers)
	for i := range up {
		up[i] = true
	}
	// the size of this node's table of accepted connections, and the number of its dialled connections
	// as the peers that are up count them (callHandler's own counter is refreshed on removals only)
	sizes := func() (int, int) {
		i, _ := p2p.VerifNumOfClient(sa)
		c := 0
		for k := 0; k < npeers; k++ {
			if up[k] {
				pi, _ := p2p.VerifNumOfClient(peers[k])
				c += pi
			}
		}
		return i, c
	}
	settle := func() (int, int) {
		// the table sizes are stable for 60 ms
		li, lc := -1, -1
		stable := 0
		for k := 0; k < 100 && stable < 6; k++ {
			time.Sleep(10 * time.Millisecond)
			i, c := sizes()
			if i == li && c == lc {
				stable++
			} else {
				stable = 0
			}
			li, lc = i, c
		}
		return li, lc
	}
	var out []string
	for n, ev := range strings.Split(a["ev"], "+") {
		f := strings.Split(ev, ".")
		if len(f) != 2 {
			continue
		}
		k, id := atoi(f[0]), atoi(f[1])
		peer := fmt.Sprintf("peer%d", id)
		i0, c0 := sizes()
		class := 6
		switch k {
		case 0:
			ctx, cancel := context.WithTimeout(context.Background(), 2*time.Second)
			tag := fmt.Sprintf("q%d", n)
			r, err := sa.Request(ctx, []byte(peer), &vss.Signature{RequestId: []byte(tag)})
			cancel()
			_, c1 := settle()
			switch {
			case err == nil:
				if sg, ok := r.Msg.Message.(*vss.Signature); !ok || string(sg.RequestId) != "re:"+tag {
					class = 9
				} else if c1 > c0 {
					class = 1
				} else {
					class = 0
				}
			case !up[id]:
				class = 2
			default:
				class = 9
			}
		case 1:
			ctx, cancel := context.WithTimeout(context.Background(), 2*time.Second)
			_, err := peers[id].Request(ctx, []byte("a"), &vss.Signature{RequestId: []byte("p")})
			cancel()
			i1, _ := settle()
			switch {
			case err != nil:
				class = 9
			case i1 > i0:
				class = 3
			}
		case 2:
			peers[id].Leave()
			up[id] = false
		case 4:
			startPeer(id)
			up[id] = true
		case 3:
			ctx, cancel := context.WithTimeout(context.Background(), 2*time.Second)
			err := sa.Reply(ctx, []byte(peer), 12345, &vss.Signature{RequestId: []byte("stray")})
			cancel()
			if err == nil {
				class = 0
			} else if strings.Contains(err.Error(), p2p.ErrCanNotFindClient.Error()) {
				class = 5
			} else {
				class = 9
			}
		}
		i2, c2 := settle()
		out = append(out, fmt.Sprintf("%d:%d:%d", class, i2, c2))
	}
	return strings.Join(out, " ")
}

type lockedMembers struct {
	addrs map[string]string
	mu    *sync.Mutex
}

func (s *lockedMembers) Join([]string) (int, error)                           { return 0, nil }
func (s *lockedMembers) Leave()                                               {}
func (s *lockedMembers) Listen(ctx context.Context, o chan discover.P2PEvent) { <-ctx.Done() }
func (s *lockedMembers) Lookup(id []byte) string {
	s.mu.Lock()
	defer s.mu.Unlock()
	return s.addrs[string(id)]
}
func (s *lockedMembers) NumOfPeers() int     { return 3 }
func (s *lockedMembers) IsAlive() bool       { return true }
func (s *lockedMembers) MembersIP() []net.IP { return nil }
func (s *lockedMembers) MembersID() [][]byte { return nil }

// ---------------------------------------------------------------- generator

func genC17(rng *hx.Rng, tier string, w *hx.Writer) error {
	nd := 150
	if tier == "thorough" {
		nd = 2500
	}
	for it := 0; it < nd; it++ {
		genC17Dispatch(rng, w, 6+it%14)
	}
	var jobs []*c12job
	add := func(arg string, tags ...string) {
		jobs = append(jobs, &c12job{
			c:   hx.Case{Entry: "-", Op: 0, Args: hx.L(hx.B([]byte(arg))), Tags: append([]string{"system", "nt"}, tags...)},
			sub: "c17-system", arg: arg, timeout: 60 * time.Second, group: "p2p-requests", solo: true,
			finish: func(out string) (string, bool) { return hx.B([]byte(out)), out == "ok" },
			explain: func(class, out, panicLine string) (string, string) {
				sc := "driver sub c17-system " + arg
				switch class {
				case "P":
					return "p2p-panic", "the p2p layer panicked (" + sc + "): " + panicLine
				case "H":
					return "p2p-wedged", "the scenario did not finish (" + sc + ")"
				}
				key := "wrong-or-late-return"
				if strings.Contains(out, "unreachable") {
					key = "unreachable-peer-wedges"
				}
				return key, out + " (" + sc + ")"
			},
		})
	}
	seed := 0
	sizes := []int{1, 5, 40, 200}
	if tier == "thorough" {
		sizes = []int{1, 2, 5, 20, 40, 100, 200, 200}
	}
	for _, n := range sizes {
		for _, peers := range []int{1, 4} {
			seed++
			add(fmt.Sprintf("n=%d,peers=%d,drop=0,cancel=0,fault=none,seed=%d", n, peers, seed), "f:none", fmt.Sprintf("n:%d", n))
			seed++
			add(fmt.Sprintf("n=%d,peers=%d,drop=15,cancel=15,fault=none,seed=%d", n, peers, seed), "f:drop+cancel", fmt.Sprintf("n:%d", n))
		}
	}
	for _, f := range []string{"peer-closes", "refused", "silent", "peer-restarts"} {
		seed++
		add(fmt.Sprintf("n=30,peers=3,drop=0,cancel=0,fault=%s,seed=%d", f, seed), "f:"+f)
	}
	seed++
	add(fmt.Sprintf("n=8,peers=1,drop=0,cancel=0,fault=peer-restarts,seed=%d", seed), "f:peer-restarts")
	seed++
	add(fmt.Sprintf("n=12,peers=2,drop=0,cancel=0,fault=aged-connection,seed=%d", seed), "f:aged-connection")
	// histories over the connection tables, against Models/ConnTable.v
	nh := 6
	if tier == "thorough" {
		nh = 60
	}
	for it := 0; it < nh; it++ {
		L := 5 + rng.Intn(6)
		up := []bool{true, true, true}
		var evs, wire []string
		if it%3 == 0 {
			// directed start: a request, the peer goes away and comes back, a request again
			id := rng.Intn(3)
			evs = append(evs, fmt.Sprintf("0.%d", id), fmt.Sprintf("2.%d", id), fmt.Sprintf("4.%d", id), fmt.Sprintf("0.%d", id))
			wire = append(wire, hx.L(hx.Zi(0), hx.Zi(id), hx.Zi(1)), hx.L(hx.Zi(2), hx.Zi(id)), hx.L(hx.Zi(4), hx.Zi(id)), hx.L(hx.Zi(0), hx.Zi(id), hx.Zi(1)))
			L += 4
		}
		for len(evs) < L {
			id := rng.Intn(3)
			switch k := rng.Intn(10); {
			case k < 4:
				ok := 0
				if up[id] {
					ok = 1
				}
				evs = append(evs, fmt.Sprintf("0.%d", id))
				wire = append(wire, hx.L(hx.Zi(0), hx.Zi(id), hx.Zi(ok)))
			case k < 6:
				if up[id] {
					evs = append(evs, fmt.Sprintf("1.%d", id))
					wire = append(wire, hx.L(hx.Zi(1), hx.Zi(id)))
				}
			case k < 8:
				if up[id] {
					up[id] = false
					evs = append(evs, fmt.Sprintf("2.%d", id))
					wire = append(wire, hx.L(hx.Zi(2), hx.Zi(id)))
				} else {
					up[id] = true
					evs = append(evs, fmt.Sprintf("4.%d", id))
					wire = append(wire, hx.L(hx.Zi(4), hx.Zi(id)))
				}
			default:
				evs = append(evs, fmt.Sprintf("3.%d", id))
				wire = append(wire, hx.L(hx.Zi(3), hx.Zi(id)))
			}
		}
		arg := "ev=" + strings.Join(evs, "+")
		jobs = append(jobs, &c12job{
			c:   hx.Case{Entry: "conntable", Op: 1, Args: hx.L(hx.L(wire...)), Tags: []string{"connection-tables", "nt"}},
			sub: "c17-conntable", arg: arg, timeout: 90 * time.Second, group: "p2p-requests", solo: true,
			finish: func(out string) (string, bool) {
				var vs []string
				ok := true
				for _, f := range strings.Fields(out) {
					var cl, i, c int
					fmt.Sscanf(f, "%d:%d:%d", &cl, &i, &c)
					o := hx.L(hx.Zi(cl))
					if cl == 0 {
						o = hx.L(hx.Zi(0), hx.Zi(1))
					}
					if cl == 9 {
						ok = false
					}
					vs = append(vs, hx.L(o, hx.Zi(i), hx.Zi(c)))
				}
				return hx.L(vs...), ok
			},
			explain: func(class, out, panicLine string) (string, string) {
				sc := "driver sub c17-conntable " + arg
				switch class {
				case "P":
					return "p2p-panic", "the p2p layer panicked (" + sc + "): " + panicLine
				case "H":
					return "p2p-wedged", "the scenario did not finish (" + sc + ")"
				}
				return "request-not-served", "a request to a reachable peer (or from one) failed, or returned another request's reply, in a history of peers going away and coming back (class 9 in: " + out + "; " + sc + ")"
			},
		})
	}
	runC12Jobs(jobs, w)
	return nil
}
