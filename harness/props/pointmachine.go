package props

import (
	"bytes"
	"fmt"
	"math/big"
	"strings"

	"github.com/dedis/kyber"
	gbn "github.com/ethereum/go-ethereum/crypto/bn256/google"

	"verif/harness/hx"
)

// A small register machine over one group: every register holds a point OBJECT together with the
// discrete logarithm (to the generator) its value must have.  Programs mix fresh multiples, multiples
// of earlier results, sums / differences / negations into new and into used objects, clones, copies,
// decode(encode(.)) and calls that merely look at an object (MarshalBinary, Equal, String).  Nothing is
// looked at by the judge until the program has ended (looking at a point may normalise it); then every
// register must encode like its logarithm's multiple of the generator computed afresh - whatever
// representation or history the operands had.
type pmReg struct {
	p kyber.Point
	d *big.Int
}

var pmSmall = []int64{0, 1, 2, 3, 3, 4, 5, 6, 7, 7, 8, 10, 15, 16, 31}

func pmScalar(rng *hx.Rng, q *big.Int) *big.Int {
	switch rng.Intn(12) {
	case 0:
		return new(big.Int).Sub(q, big.NewInt(int64(1+rng.Intn(3))))
	case 1:
		j := []uint{16, 31, 32, 63, 64, 65, 127, 128, 200, 253}[rng.Intn(10)]
		return new(big.Int).Sub(new(big.Int).Lsh(big.NewInt(1), j), big.NewInt(1)) // 2^j - 1
	case 2:
		return rng.BigBelow(q)
	case 3:
		return new(big.Int).Rsh(new(big.Int).Add(q, big.NewInt(1)), 1) // (q+1)/2
	}
	return big.NewInt(pmSmall[rng.Intn(len(pmSmall))])
}

// runs one program; returns its text and the registers
func pmRun(rng *hx.Rng, g kyber.Group, q *big.Int, nOps int, progOut *[]string) []*pmReg {
	var regs []*pmReg
	var prog []string
	defer func() { *progOut = prog }()
	mod := func(x *big.Int) *big.Int { return new(big.Int).Mod(x, q) }
	newReg := func(p kyber.Point, d *big.Int) int {
		regs = append(regs, &pmReg{p, mod(d)})
		return len(regs) - 1
	}
	pick := func() int { return rng.Intn(len(regs)) }
	// two starting values
	for i := 0; i < 2; i++ {
		k := pmScalar(rng, q)
		newReg(g.Point().Mul(Sc(g, k, q), nil), k)
		prog = append(prog, fmt.Sprintf("r%d = [%s]G", i, k))
	}
	for step := 0; step < nOps; step++ {
		switch op := rng.Intn(14); op {
		case 0: // fresh multiple of the generator
			k := pmScalar(rng, q)
			i := newReg(g.Point().Mul(Sc(g, k, q), nil), k)
			prog = append(prog, fmt.Sprintf("r%d = [%s]G", i, k))
		case 1, 2: // multiple of an earlier result, into a new object or in place
			j := pick()
			k := pmScalar(rng, q)
			d := new(big.Int).Mul(k, regs[j].d)
			if op == 1 {
				i := newReg(g.Point().Mul(Sc(g, k, q), regs[j].p), d)
				prog = append(prog, fmt.Sprintf("r%d = [%s]r%d", i, k, j))
			} else {
				regs[j].p.Mul(Sc(g, k, q), regs[j].p)
				regs[j].d = mod(d)
				prog = append(prog, fmt.Sprintf("r%d.Mul(%s, r%d)", j, k, j))
			}
		case 3, 4, 5, 6: // sum / difference into a new object, into the left operand, into the right operand
			j, k := pick(), pick()
			sub := rng.Intn(3) == 0
			d := new(big.Int).Add(regs[j].d, regs[k].d)
			name := "Add"
			if sub {
				d = new(big.Int).Sub(regs[j].d, regs[k].d)
				name = "Sub"
			}
			apply := func(dst kyber.Point) {
				if sub {
					dst.Sub(regs[j].p, regs[k].p)
				} else {
					dst.Add(regs[j].p, regs[k].p)
				}
			}
			switch op {
			case 3, 4:
				dst := g.Point()
				apply(dst)
				i := newReg(dst, d)
				prog = append(prog, fmt.Sprintf("r%d = new.%s(r%d, r%d)", i, name, j, k))
			case 5:
				apply(regs[j].p)
				regs[j].d = mod(d)
				prog = append(prog, fmt.Sprintf("r%d.%s(r%d, r%d)", j, name, j, k))
			default:
				apply(regs[k].p)
				regs[k].d = mod(d)
				prog = append(prog, fmt.Sprintf("r%d.%s(r%d, r%d)", k, name, j, k))
			}
		case 7: // negation, new or in place
			j := pick()
			d := new(big.Int).Neg(regs[j].d)
			if rng.Bool() {
				i := newReg(g.Point().Neg(regs[j].p), d)
				prog = append(prog, fmt.Sprintf("r%d = new.Neg(r%d)", i, j))
			} else {
				regs[j].p.Neg(regs[j].p)
				regs[j].d = mod(d)
				prog = append(prog, fmt.Sprintf("r%d.Neg(r%d)", j, j))
			}
		case 8: // through the wire
			j := pick()
			b, err := regs[j].p.MarshalBinary()
			p := g.Point()
			if err == nil && p.UnmarshalBinary(b) == nil {
				i := newReg(p, regs[j].d)
				prog = append(prog, fmt.Sprintf("r%d = decode(encode(r%d))", i, j))
			}
		case 9:
			j := pick()
			i := newReg(regs[j].p.Clone(), regs[j].d)
			prog = append(prog, fmt.Sprintf("r%d = r%d.Clone()", i, j))
		case 10: // copy into a used object
			j, k := pick(), pick()
			if j != k {
				regs[k].p.Set(regs[j].p)
				regs[k].d = regs[j].d
				prog = append(prog, fmt.Sprintf("r%d.Set(r%d)", k, j))
			}
		case 11: // calls that only look
			j, k := pick(), pick()
			switch rng.Intn(3) {
			case 0:
				regs[j].p.MarshalBinary()
				prog = append(prog, fmt.Sprintf("r%d.MarshalBinary()", j))
			case 1:
				regs[j].p.Equal(regs[k].p)
				prog = append(prog, fmt.Sprintf("r%d.Equal(r%d)", j, k))
			default:
				_ = regs[j].p.String()
				prog = append(prog, fmt.Sprintf("r%d.String()", j))
			}
		case 12:
			i := newReg(g.Point().Null(), big.NewInt(0))
			prog = append(prog, fmt.Sprintf("r%d = Null()", i))
		default:
			i := newReg(g.Point().Base(), big.NewInt(1))
			prog = append(prog, fmt.Sprintf("r%d = Base()", i))
		}
	}
	return regs
}

// the encoding an independent implementation gives [d]G (G1, G2 of bn256; nil when there is none)
func pmReference(gid int, d *big.Int) []byte {
	if d.Sign() == 0 {
		return nil
	}
	switch gid {
	case GrpG1:
		return new(gbn.G1).ScalarBaseMult(d).Marshal()
	case GrpG2:
		return append([]byte{1}, new(gbn.G2).ScalarBaseMult(d).Marshal()...)
	}
	return nil
}

// genPointMachine writes one judged case per program, and for registers with a small logarithm in
// G1 / G2 a case for the model's scalar multiplication (the model decides what [d]G is).
func genPointMachine(rng *hx.Rng, w *hx.Writer, g kyber.Group, gid int, gname string, q *big.Int, nProg int, failKey string, mEntry string, opMul int) {
	baseEnc := PtBytes(g.Point().Base())
	emitted := map[string]bool{}
	for it := 0; it < nProg; it++ {
		nOps := 1 + rng.Intn(9)
		var prog []string
		var problems []string
		var finals []string
		res := hx.Catch(func() string {
			regs := pmRun(rng, g, q, nOps, &prog)
			for i, r := range regs {
				enc := PtBytes(r.p)
				want := PtBytes(Pt(g, r.d, q))
				if !bytes.Equal(enc, want) {
					problems = append(problems, fmt.Sprintf("r%d does not encode like [%s]G computed afresh", i, r.d))
				} else if ref := pmReference(gid, r.d); ref != nil && !bytes.Equal(enc, ref) {
					problems = append(problems, fmt.Sprintf("r%d = [%s]G differs from the big-integer reference implementation", i, r.d))
				}
				// the object is still usable and unchanged by having been looked at
				if again := PtBytes(r.p); !bytes.Equal(again, enc) {
					problems = append(problems, fmt.Sprintf("r%d encodes differently the second time", i))
				}
				finals = append(finals, hx.B(enc))
				if opMul > 0 && r.d.Sign() > 0 && r.d.BitLen() <= 16 && !emitted[r.d.String()] {
					emitted[r.d.String()] = true
					args := hx.L(hx.B(baseEnc), hx.Z(r.d))
					if mEntry == "ed" {
						args = hx.L(hx.Z(r.d))
					}
					w.Put(hx.Case{Entry: mEntry, Op: opMul, Args: args, Impl: hx.B(enc), Oracle: "ok",
						Tags: []string{"history-" + gname, "scalar-mul", "nt"}})
				}
			}
			return hx.L(finals...)
		})
		oracle := "ok"
		text := strings.Join(prog, "; ")
		if res == hx.P {
			oracle = hx.Fail(failKey, gname+": panic in the program "+text+": "+hx.LastPanic)
		} else if len(problems) > 0 {
			if len(problems) > 2 {
				problems = problems[:2]
			}
			oracle = hx.Fail(failKey, gname+": after the program "+text+": "+strings.Join(problems, "; "))
		}
		w.Put(hx.Case{Entry: "-", Op: 0, Args: hx.L(hx.B([]byte(gname)), hx.B([]byte(text))), Impl: res, Oracle: oracle,
			Tags: []string{"history-" + gname, fmt.Sprintf("ops:%d", nOps), "nt"}})
	}
}

// encodingOwned: an encoding handed out belongs to the caller - writing into it changes neither the
// element nor what a later MarshalBinary of the same or of an equal element returns.
func encodingOwned(rng *hx.Rng, w *hx.Writer, g kyber.Group, gname string, q *big.Int, failKey string) {
	for _, kv := range []*big.Int{big.NewInt(0), big.NewInt(1), rng.BigBelow(q)} {
		var problems []string
		res := hx.Catch(func() string {
			mk := func() kyber.Point {
				if kv.Sign() == 0 {
					return g.Point().Null()
				}
				return g.Point().Mul(Sc(g, kv, q), nil)
			}
			P := mk()
			e1 := PtBytes(P)
			ref := append([]byte{}, e1...)
			for i := range e1 {
				e1[i] ^= 0xA5
			}
			if !bytes.Equal(PtBytes(P), ref) {
				problems = append(problems, "writing into a returned point encoding changed the element's next encoding")
			}
			if !bytes.Equal(PtBytes(mk()), ref) {
				problems = append(problems, "writing into a returned point encoding changed the encoding of an equal element computed afterwards")
			}
			s1 := Sc(g, kv, q)
			b1, _ := s1.MarshalBinary()
			sref := append([]byte{}, b1...)
			for i := range b1 {
				b1[i] ^= 0xA5
			}
			b2, _ := s1.MarshalBinary()
			b3, _ := Sc(g, kv, q).MarshalBinary()
			if !bytes.Equal(b2, sref) || !bytes.Equal(b3, sref) {
				problems = append(problems, "writing into a returned scalar encoding changed a later encoding")
			}
			return hx.B([]byte(strings.Join(problems, "; ")))
		})
		oracle := "ok"
		if res == hx.P {
			oracle = hx.Fail(failKey, gname+": panic after a returned encoding was written into: "+hx.LastPanic)
		} else if len(problems) > 0 {
			oracle = hx.Fail(failKey, gname+": "+strings.Join(problems, "; "))
		}
		w.Put(hx.Case{Entry: "-", Op: 0, Args: hx.L(hx.B([]byte(gname)), hx.Z(kv)), Impl: res, Oracle: oracle, Tags: []string{"returned-encoding-owned-by-caller", "nt"}})
	}
}
