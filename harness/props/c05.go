package props

import (
	"context"
	"fmt"
	"math/big"
	"sort"
	"strings"
	"sync"
	"time"

	"github.com/DOSNetwork/core/share"
	dkg "github.com/DOSNetwork/core/share/dkg/pedersen"
	vss "github.com/DOSNetwork/core/share/vss/pedersen"
	"github.com/dedis/kyber"
	"github.com/dedis/kyber/sign/schnorr"

	"verif/harness/doubles"
	"verif/harness/hx"
)

func init() {
	Registry["C05"] = func(r *hx.Rng, tier string, w *hx.Writer) error { return genDkgLib(r, tier, w, "C05") }
	Registry["C04"] = func(r *hx.Rng, tier string, w *hx.Writer) error { return genDkgLib(r, tier, w, "C04") }
	SubRegistry["c05-net"] = subC05Net
}

// one key-generation session at the level of DistKeyGenerator (share/dkg/pedersen/dkg.go)
type dkgSess struct {
	kr      *keyring
	rng     *hx.Rng
	n, t    int
	members []int // key ids
	byz     map[int]bool
	gens    []*dkg.DistKeyGenerator // nil for Byzantine members
	coeffs  [][]*big.Int            // polynomial of each honest member
	deals   []map[int]*dkg.Deal     // honest deals: deals[j][i]
	ddesc   []map[int]edealDesc
	aborted []bool
	nodesV  []string
	ops     []string
	impl    []string
	tags    map[string]bool
	// responses produced so far: resp[k][j] = k's response about dealer j
	resp  map[[2]int]*dkg.Response
	rdesc map[[2]int]string
}

func newDkgSess(kr *keyring, rng *hx.Rng, n int, byz []int, base int) (*dkgSess, error) {
	s := &dkgSess{kr: kr, rng: rng, n: n, t: n/2 + 1, byz: map[int]bool{}, tags: map[string]bool{},
		resp: map[[2]int]*dkg.Response{}, rdesc: map[[2]int]string{}}
	for _, b := range byz {
		s.byz[b] = true
	}
	s.members = make([]int, n)
	for i := range s.members {
		s.members[i] = base + i
	}
	pubs := kr.pubs(rng, s.members)
	s.gens = make([]*dkg.DistKeyGenerator, n)
	s.coeffs = make([][]*big.Int, n)
	s.deals = make([]map[int]*dkg.Deal, n)
	s.ddesc = make([]map[int]edealDesc, n)
	s.aborted = make([]bool, n)
	for i := 0; i < n; i++ {
		if s.byz[i] {
			s.coeffs[i] = randCoeffs(rng, s.t, BnQ)
			continue
		}
		sec, _ := kr.get(rng, s.members[i])
		g, err := dkg.NewDistKeyGenerator(Bn, sec, pubs, s.t)
		if err != nil {
			return nil, err
		}
		s.gens[i] = g
		cs := dkg.VerifDealerCoeffs(g)
		s.coeffs[i] = make([]*big.Int, len(cs))
		for k, c := range cs {
			s.coeffs[i][k] = ScVal(Bn.G2(), c)
		}
		ds, err := g.Deals()
		if err != nil {
			return nil, err
		}
		s.deals[i] = ds
		s.ddesc[i] = map[int]edealDesc{}
		dl := &dealing{dealer: s.members[i], members: s.members, t: s.t, coeffs: s.coeffs[i]}
		for r := range ds {
			ephCounter++
			p := dl.honestPlain(r)
			s.ddesc[i][r] = edealDesc{sigKey: s.members[i], sigBytes: ephCounter, dhBytes: ephCounter, dhPoint: ephCounter,
				nonceLen: 12, sealEph: ephCounter, sealRcpt: s.members[r], sealDealer: s.members[i], sealMembers: s.members,
				intact: true, plain: &p}
		}
		s.nodesV = append(s.nodesV, "")
	}
	// model nodes: every member position gets a node (Byzantine ones are never targeted)
	s.nodesV = make([]string, n)
	for i := 0; i < n; i++ {
		s.nodesV[i] = hx.L(hx.Zi(i), hx.Zi(s.members[i]), intsVal(s.members), hx.Zi(s.t), bigsVal(s.coeffs[i]))
	}
	return s, nil
}

func (s *dkgSess) dealing(j int) *dealing {
	return &dealing{dealer: s.members[j], members: s.members, t: s.t, coeffs: s.coeffs[j]}
}

// deliver a deal (real message + description) of dealer j to honest member i
func (s *dkgSess) deliverDeal(i, j int, d *dkg.Deal, desc *edealDesc) {
	edv := hx.N
	if desc != nil {
		edv = desc.val()
	}
	s.ops = append(s.ops, hx.L(hx.Zi(0), hx.Zi(i), hx.Zi(j), edv))
	if s.aborted[i] {
		// an aborted session processes nothing any more; keep model and implementation in step
	}
	impl := hx.Catch(func() string {
		r, err := s.gens[i].ProcessDeal(d)
		if err != nil {
			return hx.E
		}
		s.resp[[2]int{i, j}] = r
		st := 0
		if r.Response.Status == vss.StatusApproval {
			st = 1
		} else {
			s.aborted[i] = true // pdkg: a non-approval aborts the session
		}
		// the response i produced: computed sid over what i saw
		sd := sidDesc{junk: 3}
		if desc != nil && desc.plain != nil {
			sd = sidDesc{dealer: s.members[j], members: s.members, commits: desc.plain.commits, t: desc.plain.t}
		}
		s.rdesc[[2]int{i, j}] = hx.L(sd.val(), hx.Zi(i), hx.Zi(st), hx.Zi(s.members[i]))
		return hx.L(hx.Zi(st))
	})
	s.impl = append(s.impl, impl)
}

func (s *dkgSess) deliverResp(i, j int, r *dkg.Response, rdesc string) {
	s.ops = append(s.ops, hx.L(hx.Zi(1), hx.Zi(i), hx.Zi(j), rdesc))
	impl := hx.Catch(func() string {
		if _, err := s.gens[i].ProcessResponse(r); err != nil {
			s.aborted[i] = true // pdkg: any response error aborts the session
			return hx.E
		}
		return "z1"
	})
	s.impl = append(s.impl, impl)
}

type finishOut struct {
	ok      bool
	commits [][]byte
	share   *big.Int
	dks     *dkg.DistKeyShare
}

func (s *dkgSess) finish(i int) finishOut {
	s.ops = append(s.ops, hx.L(hx.Zi(2), hx.Zi(i)))
	var fo finishOut
	impl := hx.Catch(func() string {
		g := s.gens[i]
		q := g.QUAL()
		sort.Ints(q)
		dks, err := g.DistKeyShare()
		res := hx.E
		if err == nil {
			cs := make([]string, len(dks.Commits))
			for k, c := range dks.Commits {
				b := PtBytes(c)
				cs[k] = hx.B(b)
				fo.commits = append(fo.commits, b)
			}
			fo.ok = true
			fo.share = ScVal(Bn.G2(), dks.Share.V)
			fo.dks = dks
			res = hx.L(hx.L(cs...), hx.Z(fo.share))
		}
		return hx.L(hx.Bool(g.Certified()), intsVal(q), res)
	})
	s.impl = append(s.impl, impl)
	return fo
}

// signed response of (possibly Byzantine) member k about dealer j
func (s *dkgSess) forgeResp(k, j int, sid []byte, sd sidDesc, approve bool, signer int) (*dkg.Response, string) {
	r := &vss.Response{SessionID: sid, Index: uint32(k), Status: approve}
	sigKey := -1
	if signer >= 0 {
		sec, _ := s.kr.get(s.rng, signer)
		r.Signature, _ = schnorr.Sign(Bn, sec, r.Hash(Bn))
		sigKey = signer
	} else {
		r.Signature = s.rng.Bytes(64)
	}
	st := 0
	if approve {
		st = 1
	}
	return &dkg.Response{Index: uint32(j), Response: r}, hx.L(sd.val(), hx.Zi(k), hx.Zi(st), hx.Zi(sigKey))
}

func (s *dkgSess) honestSid(j int, coeffs []*big.Int, t int) ([]byte, sidDesc) {
	sd := sidDesc{dealer: s.members[j], members: s.members, commits: coeffs, t: t}
	return sidBytesOf(s.kr, s.rng, sd), sd
}

// a deal of Byzantine dealer j for member i with an arbitrary plaintext
func (s *dkgSess) byzDeal(j, i int, p plainDesc) (*dkg.Deal, *edealDesc) {
	dl := s.dealing(j)
	ed, desc, err := sealed(s.kr, s.rng, dl, i, p)
	if err != nil {
		return nil, nil
	}
	return &dkg.Deal{Index: uint32(j), Deal: ed}, &desc
}

func (s *dkgSess) honest() []int {
	var h []int
	for i := 0; i < s.n; i++ {
		if !s.byz[i] {
			h = append(h, i)
		}
	}
	return h
}

// writes the case, judging the joint outcome of the honest members
func (s *dkgSess) put(w *hx.Writer, prop string, outs map[int]finishOut, extra string) {
	oracle := "ok"
	var fin []int
	for _, i := range s.honest() {
		if o, ok := outs[i]; ok && o.ok && !s.aborted[i] {
			fin = append(fin, i)
		}
	}
	for _, im := range s.impl {
		if im == hx.P {
			oracle = hx.Fail("dkg-panic", "a key-generation call panicked: "+hx.LastPanic)
		}
	}
	if oracle == "ok" && len(fin) > 0 {
		ref := outs[fin[0]]
		for _, i := range fin[1:] {
			o := outs[i]
			same := len(o.commits) == len(ref.commits)
			for k := 0; same && k < len(o.commits); k++ {
				same = string(o.commits[k]) == string(ref.commits[k])
			}
			if !same {
				oracle = hx.Fail("honest-members-disagree", fmt.Sprintf("honest members %d and %d finished with different public polynomials (%s)", fin[0], i, extra))
			}
		}
		for _, i := range fin {
			o := outs[i]
			pp := share.NewPubPoly(Bn.G2(), Bn.G2().Point().Base(), o.dks.Commits)
			if !pp.Check(o.dks.Share) {
				oracle = hx.Fail("share-not-on-polynomial", fmt.Sprintf("member %d's share does not lie on its public polynomial (%s)", i, extra))
			}
		}
		if oracle == "ok" && len(fin) >= s.t && len(s.byz) == 0 {
			// any t shares reconstruct a secret whose commitment is the group key
			var shs []*share.PriShare
			pm := s.rng.Perm(len(fin))
			for _, k := range pm[:s.t] {
				shs = append(shs, outs[fin[k]].dks.Share)
			}
			sec, err := share.RecoverSecret(Bn.G2(), shs, s.t, s.n)
			if err != nil || string(PtBytes(Bn.G2().Point().Mul(sec, nil))) != string(ref.commits[0]) {
				oracle = hx.Fail("shares-do-not-reconstruct-key", "t shares of finished members do not reconstruct the secret behind the group key")
			}
		}
	}
	if prop == "C04" && len(s.byz) == 0 && extra == "all-delivered-once" && len(fin) != s.n && oracle == "ok" {
		oracle = hx.Fail("honest-session-did-not-finish", "all members honest, every message delivered, but not every member finished")
	}
	tags := []string{"nt", fmt.Sprintf("n%d", s.n)}
	for t := range s.tags {
		tags = append(tags, t)
	}
	sort.Strings(tags)
	w.Put(hx.Case{Entry: "vss", Op: 2, Args: hx.L(hx.Z(BnQ), hx.Zi(1), hx.L(s.nodesV...), hx.L(s.ops...)),
		Impl: hx.L(s.impl...), Oracle: oracle, Tags: tags})
}

// the honest message flow with a delivery order chosen by rng; hooks let a scenario replace messages
type dkgHooks struct {
	deal func(i, j int) (*dkg.Deal, *edealDesc, bool)          // deal of dealer j for i (ok=false: not sent)
	resp func(i, k, j int) (*dkg.Response, string, bool, bool) // response of k about j as delivered to i (ok=false: not sent; dup: deliver twice)
}

func (s *dkgSess) runFlow(h dkgHooks) map[int]finishOut {
	hon := s.honest()
	// deals, per recipient in random order
	for _, i := range hon {
		order := s.rng.Perm(s.n)
		for _, j := range order {
			if j == i {
				continue
			}
			var d *dkg.Deal
			var desc *edealDesc
			ok := true
			if s.byz[j] {
				if h.deal == nil {
					continue
				}
				d, desc, ok = h.deal(i, j)
			} else {
				d = s.deals[j][i]
				dd := s.ddesc[j][i]
				desc = &dd
				if h.deal != nil {
					if d2, desc2, ok2 := h.deal(i, j); d2 != nil || !ok2 {
						d, desc, ok = d2, desc2, ok2
					}
				}
			}
			if ok {
				s.deliverDeal(i, j, d, desc)
			}
		}
	}
	// responses: k's response about dealer j goes to every other member except j... (pdkg sends k's
	// whole Responses message to everybody, the dealer included)
	for _, i := range hon {
		type rk struct{ k, j int }
		var lst []rk
		for k := 0; k < s.n; k++ {
			for j := 0; j < s.n; j++ {
				if k != i && j != k {
					lst = append(lst, rk{k, j})
				}
			}
		}
		pm := s.rng.Perm(len(lst))
		for _, x := range pm {
			k, j := lst[x].k, lst[x].j
			if s.aborted[i] {
				break
			}
			var r *dkg.Response
			var rd string
			ok, dup := true, false
			if h.resp != nil {
				r, rd, ok, dup = h.resp(i, k, j)
			}
			if r == nil && ok {
				if s.byz[k] {
					// by default a Byzantine member answers like an honest one: a signed approval under
					// the session id of the honest view of dealer j's polynomial
					sid, sd := s.honestSid(j, s.coeffs[j], s.t)
					r, rd = s.forgeResp(k, j, sid, sd, true, s.members[k])
				}
			}
			if r == nil && ok {
				if s.byz[k] {
					continue
				}
				r = s.resp[[2]int{k, j}]
				rd = s.rdesc[[2]int{k, j}]
				if r == nil {
					continue // k produced no response about j (its ProcessDeal failed)
				}
			}
			if !ok {
				continue
			}
			s.deliverResp(i, j, r, rd)
			if dup && !s.aborted[i] {
				s.deliverResp(i, j, r, rd)
			}
		}
	}
	outs := map[int]finishOut{}
	for _, i := range hon {
		outs[i] = s.finish(i)
	}
	return outs
}

func genDkgLib(rng *hx.Rng, tier string, w *hx.Writer, prop string) error {
	kr := newKeyring()
	base := 1000
	next := func() int { base += 100; return base }
	reps := 1
	if tier == "thorough" {
		reps = 8
	}
	// ---- honest sessions, random delivery orders (C04; also the baseline of C05)
	nHonest := 6 * reps
	if prop == "C05" {
		nHonest = 2 * reps
	}
	for it := 0; it < nHonest; it++ {
		n := 3 + it%3
		s, err := newDkgSess(kr, rng, n, nil, next())
		if err != nil {
			return err
		}
		s.tags["honest"] = true
		outs := s.runFlow(dkgHooks{})
		s.put(w, prop, outs, "all-delivered-once")
	}
	if prop == "C04" {
		// re-delivery of deals (the Loop de-duplicates deals by index; at this level a repeated deal is refused)
		for it := 0; it < 2*reps; it++ {
			n := 3 + it%2
			s, err := newDkgSess(kr, rng, n, nil, next())
			if err != nil {
				return err
			}
			s.tags["deal-redelivered"] = true
			for _, i := range s.honest() {
				for j := 0; j < n; j++ {
					if j != i {
						dd := s.ddesc[j][i]
						s.deliverDeal(i, j, s.deals[j][i], &dd)
						if rng.Chance(50) {
							s.deliverDeal(i, j, s.deals[j][i], &dd)
						}
					}
				}
			}
			outs := s.runFlow(dkgHooks{deal: func(i, j int) (*dkg.Deal, *edealDesc, bool) { return nil, nil, false }})
			s.put(w, prop, outs, "deals-redelivered")
		}
		genC04Net(rng, tier, w)
		return nil
	}
	// ---- C05: one Byzantine member, deviations from a catalogue
	type scen struct {
		name string
		mk   func(s *dkgSess, b int) dkgHooks
	}
	scens := []scen{
		{"bad-share", func(s *dkgSess, b int) dkgHooks {
			victim := s.honest()[s.rng.Intn(len(s.honest()))]
			return dkgHooks{deal: func(i, j int) (*dkg.Deal, *edealDesc, bool) {
				if j != b {
					return nil, nil, true
				}
				p := s.dealing(b).honestPlain(i)
				if i == victim {
					p.share = new(big.Int).Mod(new(big.Int).Add(p.share, big.NewInt(1)), BnQ)
				}
				d, desc := s.byzDeal(b, i, p)
				return d, desc, true
			}}
		}},
		{"crafted-commitments-true-share", func(s *dkgSess, b int) dkgHooks { return craftedCommitments(s, b, false) }},
		{"crafted-commitments-zero-share", func(s *dkgSess, b int) dkgHooks { return craftedCommitments(s, b, true) }},
		{"equivocation-honest-sids", func(s *dkgSess, b int) dkgHooks { return equivocate(s, b, false) }},
		{"equivocation-crossed-sids", func(s *dkgSess, b int) dkgHooks { return equivocate(s, b, true) }},
		{"surplus-equivocation", func(s *dkgSess, b int) dkgHooks { return surplusEquivocation(s, b) }},
		{"share-of-shorter-poly", func(s *dkgSess, b int) dkgHooks {
			// as many commitments as the honest dealers, the announced threshold one less, and every share
			// the value of the polynomial WITHOUT its top coefficient (the same content for everybody, the
			// session id derived from it): no share lies on the committed polynomial
			c := s.coeffs[b]
			return dkgHooks{deal: func(i, j int) (*dkg.Deal, *edealDesc, bool) {
				if j != b {
					return nil, nil, true
				}
				tt := len(c) - 1
				p := plainDesc{sid: sidDesc{dealer: s.members[b], members: s.members, commits: c, t: tt}, idx: i,
					share: refEval(c[:tt], i, BnQ), t: tt, commits: c}
				d, desc := s.byzDeal(b, i, p)
				return d, desc, true
			}}
		}},
		{"wrong-threshold", func(s *dkgSess, b int) dkgHooks {
			badT := []int{0, 1, s.n + 1}[s.rng.Intn(3)]
			return dkgHooks{deal: func(i, j int) (*dkg.Deal, *edealDesc, bool) {
				if j != b {
					return nil, nil, true
				}
				p := s.dealing(b).honestPlain(i)
				p.t, p.sid.t = badT, badT
				d, desc := s.byzDeal(b, i, p)
				return d, desc, true
			}}
		}},
		{"other-degree", func(s *dkgSess, b int) dkgHooks {
			// fully consistent deals, but of a polynomial with t+1 (or t-1) coefficients
			dt := 1
			if s.t > 2 && s.rng.Bool() {
				dt = -1
			}
			c2 := randCoeffs(s.rng, s.t+dt, BnQ)
			if c2[len(c2)-1].Sign() == 0 {
				c2[len(c2)-1] = big.NewInt(5)
			}
			return dkgHooks{deal: func(i, j int) (*dkg.Deal, *edealDesc, bool) {
				if j != b {
					return nil, nil, true
				}
				dl := &dealing{dealer: s.members[b], members: s.members, t: s.t + dt, coeffs: c2}
				p := dl.honestPlain(i)
				d, desc := s.byzDeal(b, i, p)
				return d, desc, true
			}}
		}},
		{"fewer-commitments-than-threshold", func(s *dkgSess, b int) dkgHooks { return shortCommitments(s, b) }},
		{"wrong-index", func(s *dkgSess, b int) dkgHooks {
			return dkgHooks{deal: func(i, j int) (*dkg.Deal, *edealDesc, bool) {
				if j != b {
					return nil, nil, true
				}
				p := s.dealing(b).honestPlain(i)
				p.idx = (i + 1) % s.n
				p.share = refEval(s.coeffs[b], p.idx, BnQ)
				d, desc := s.byzDeal(b, i, p)
				return d, desc, true
			}}
		}},
		{"wrong-index-zero", func(s *dkgSess, b int) dkgHooks {
			// member 0's share (index 0, which a decoder may take for "not set") handed to the others
			return dkgHooks{deal: func(i, j int) (*dkg.Deal, *edealDesc, bool) {
				if j != b {
					return nil, nil, true
				}
				p := s.dealing(b).honestPlain(i)
				if i != 0 {
					p.idx = 0
					p.share = refEval(s.coeffs[b], 0, BnQ)
				}
				d, desc := s.byzDeal(b, i, p)
				return d, desc, true
			}}
		}},
		{"silent-dealer", func(s *dkgSess, b int) dkgHooks {
			return dkgHooks{deal: func(i, j int) (*dkg.Deal, *edealDesc, bool) { return nil, nil, j != b }}
		}},
		{"response-corrupted-signature", func(s *dkgSess, b int) dkgHooks { return byzResp(s, b, "corrupt") }},
		{"response-resigned-by-other-key", func(s *dkgSess, b int) dkgHooks { return byzResp(s, b, "resign") }},
		{"response-foreign-session", func(s *dkgSess, b int) dkgHooks { return byzResp(s, b, "foreign") }},
		{"response-complaint", func(s *dkgSess, b int) dkgHooks { return byzResp(s, b, "complaint") }},
		{"response-duplicated", func(s *dkgSess, b int) dkgHooks { return byzResp(s, b, "dup") }},
		{"response-for-honest-index-forged", func(s *dkgSess, b int) dkgHooks { return byzResp(s, b, "impersonate") }},
		{"response-nil", func(s *dkgSess, b int) dkgHooks { return byzResp(s, b, "nil") }},
	}
	for rep := 0; rep < reps; rep++ {
		for _, sc := range scens {
			for n := 3; n <= 5; n++ {
				if tier == "quick" && n == 5 && rep == 0 && len(sc.name) > 18 {
					continue
				}
				b := rng.Intn(n)
				s, err := newDkgSess(kr, rng, n, []int{b}, next())
				if err != nil {
					return err
				}
				s.tags[sc.name] = true
				outs := s.runFlow(sc.mk(s, b))
				s.put(w, prop, outs, sc.name)
			}
		}
		// two colluding dealers deal (correctly) from one and the same polynomial
		for n := 5; n <= 6; n++ {
			b1 := rng.Intn(n)
			b2 := (b1 + 1 + rng.Intn(n-1)) % n
			s, err := newDkgSess(kr, rng, n, []int{b1, b2}, next())
			if err != nil {
				return err
			}
			s.coeffs[b2] = append([]*big.Int{}, s.coeffs[b1]...)
			s.tags["two-dealers-same-polynomial"] = true
			outs := s.runFlow(dkgHooks{deal: func(i, j int) (*dkg.Deal, *edealDesc, bool) {
				if j != b1 && j != b2 {
					return nil, nil, true
				}
				d, desc := s.byzDeal(j, i, s.dealing(j).honestPlain(i))
				return d, desc, true
			}})
			s.put(w, prop, outs, "two-dealers-same-polynomial")
		}
	}
	// ---- the same adversary against the real pipeline (pdkg.Grouping), one child process per session
	genC05Net(rng, tier, w)
	return nil
}

// consistent deals of a polynomial whose constant term is sum_{k>=1} c_k x^k at the victim's abscissa
// (the victim's public-share evaluation ends by adding a point to itself); with zero set the victim is
// handed the share 0 instead of the true one
func craftedCommitments(s *dkgSess, b int, zero bool) dkgHooks {
	hs := s.honest()
	victim := hs[s.rng.Intn(len(hs))]
	s.coeffs[b] = craftFor(randCoeffs(s.rng, s.t, BnQ), victim, BnQ)
	return dkgHooks{deal: func(i, j int) (*dkg.Deal, *edealDesc, bool) {
		if j != b {
			return nil, nil, true
		}
		p := s.dealing(b).honestPlain(i)
		if i == victim && zero {
			p.share = big.NewInt(0)
		}
		d, desc := s.byzDeal(b, i, p)
		return d, desc, true
	}}
}

// Byzantine dealer b: a valid threshold T = t, but commitments of a CONSTANT polynomial (one
// coefficient), every share equal to that constant, the session id derived from exactly this content:
// every check a verifier makes passes (the commitment count is not compared with T)
func shortCommitments(s *dkgSess, b int) dkgHooks {
	a0 := new(big.Int).Add(s.rng.BigBelow(new(big.Int).Sub(BnQ, big.NewInt(1))), big.NewInt(1))
	c1 := []*big.Int{a0}
	return dkgHooks{deal: func(i, j int) (*dkg.Deal, *edealDesc, bool) {
		if j != b {
			return nil, nil, true
		}
		p := plainDesc{sid: sidDesc{dealer: s.members[b], members: s.members, commits: c1, t: s.t}, idx: i, share: new(big.Int).Set(a0), t: s.t, commits: c1}
		d, desc := s.byzDeal(b, i, p)
		return d, desc, true
	}}
}

// dkgCrashProbe runs one library-level session with a Byzantine dealer of the given kind and says
// whether any call panicked (C12 judges only that)
func dkgCrashProbe(kr *keyring, rng *hx.Rng, n int, base int, kind string) (bool, error) {
	b := rng.Intn(n)
	s, err := newDkgSess(kr, rng, n, []int{b}, base)
	if err != nil {
		return false, err
	}
	var h dkgHooks
	switch kind {
	case "fewer-commitments-than-threshold":
		h = shortCommitments(s, b)
	default: // more / fewer coefficients, announced consistently
		dt := 1
		if kind == "one-coefficient-less" {
			dt = -1
		}
		if s.t+dt < 1 {
			dt = 1
		}
		c2 := randCoeffs(rng, s.t+dt, BnQ)
		if c2[len(c2)-1].Sign() == 0 {
			c2[len(c2)-1] = big.NewInt(5)
		}
		h = dkgHooks{deal: func(i, j int) (*dkg.Deal, *edealDesc, bool) {
			if j != b {
				return nil, nil, true
			}
			dl := &dealing{dealer: s.members[b], members: s.members, t: s.t + dt, coeffs: c2}
			d, desc := s.byzDeal(b, i, dl.honestPlain(i))
			return d, desc, true
		}}
	}
	s.runFlow(h)
	for _, im := range s.impl {
		if im == hx.P {
			return true, nil
		}
	}
	return false, nil
}

// Byzantine dealer b gives one half of the honest members polynomial A and the other half B
func equivocate(s *dkgSess, b int, crossed bool) dkgHooks {
	A := s.coeffs[b]
	B := randCoeffs(s.rng, s.t, BnQ)
	if B[s.t-1].Sign() == 0 {
		B[s.t-1] = big.NewInt(9)
	}
	hon := s.honest()
	groupB := map[int]bool{}
	for k, i := range hon {
		if k%2 == 1 {
			groupB[i] = true
		}
	}
	return dkgHooks{deal: func(i, j int) (*dkg.Deal, *edealDesc, bool) {
		if j != b {
			return nil, nil, true
		}
		mine, other := A, B
		if groupB[i] {
			mine, other = B, A
		}
		dl := &dealing{dealer: s.members[b], members: s.members, t: s.t, coeffs: mine}
		p := dl.honestPlain(i)
		if crossed {
			p.sid = sidDesc{dealer: s.members[b], members: s.members, commits: other, t: s.t}
		}
		d, desc := s.byzDeal(b, i, p)
		return d, desc, true
	}}
}

// Byzantine dealer b announces the threshold 2 but sends as many commitments as the honest dealers do;
// the coefficients beyond the announced threshold differ between two halves of the honest members,
// every share lies on the polynomial it was sent with, every session id is derived from the content
// it travels with
func surplusEquivocation(s *dkgSess, b int) dkgHooks {
	L := s.t
	if L < 3 {
		L = 3
	}
	A := randCoeffs(s.rng, L, BnQ)
	B := append([]*big.Int{}, A...)
	for k := 2; k < L; k++ {
		B[k] = new(big.Int).Mod(new(big.Int).Add(A[k], big.NewInt(int64(1+s.rng.Intn(1000)))), BnQ)
	}
	hon := s.honest()
	groupB := map[int]bool{}
	for k, i := range hon {
		if k%2 == 1 {
			groupB[i] = true
		}
	}
	return dkgHooks{deal: func(i, j int) (*dkg.Deal, *edealDesc, bool) {
		if j != b {
			return nil, nil, true
		}
		mine := A
		if groupB[i] {
			mine = B
		}
		p := plainDesc{sid: sidDesc{dealer: s.members[b], members: s.members, commits: mine, t: 2}, idx: i, share: refEval(mine, i, BnQ), t: 2, commits: mine}
		d, desc := s.byzDeal(b, i, p)
		return d, desc, true
	}}
}

// Byzantine member b deals honestly but misbehaves in the response phase
func byzResp(s *dkgSess, b int, how string) dkgHooks {
	honestDeal := func(i, j int) (*dkg.Deal, *edealDesc, bool) {
		if j != b {
			return nil, nil, true
		}
		d, desc := s.byzDeal(b, i, s.dealing(b).honestPlain(i))
		return d, desc, true
	}
	return dkgHooks{deal: honestDeal, resp: func(i, k, j int) (*dkg.Response, string, bool, bool) {
		if k != b {
			if how == "impersonate" && !s.byz[k] && j == b && s.rng.Chance(40) {
				// a response in honest k's name about the Byzantine dealer, signed by the Byzantine key
				sid, sd := s.honestSid(j, s.coeffs[j], s.t)
				r, rd := s.forgeResp(k, j, sid, sd, true, s.members[b])
				return r, rd, true, false
			}
			return nil, "", true, how == "dup" && s.rng.Chance(30)
		}
		// b's response about dealer j (what an honest b would send: approval under the honest session id)
		sid, sd := s.honestSid(j, s.coeffs[j], s.t)
		switch how {
		case "corrupt":
			r, rd := s.forgeResp(b, j, sid, sd, true, -1)
			return r, rd, true, false
		case "resign":
			other := s.honest()[0]
			r, rd := s.forgeResp(b, j, sid, sd, true, s.members[other])
			return r, rd, true, false
		case "foreign":
			fs := sidDesc{junk: 5}
			r, rd := s.forgeResp(b, j, sidBytesOf(s.kr, s.rng, fs), fs, true, s.members[b])
			return r, rd, true, false
		case "complaint":
			r, rd := s.forgeResp(b, j, sid, sd, false, s.members[b])
			return r, rd, true, false
		case "nil":
			if s.rng.Chance(50) {
				return &dkg.Response{Index: uint32(j), Response: nil}, hx.N, true, false
			}
			r, rd := s.forgeResp(b, j, sid, sd, true, s.members[b])
			return r, rd, true, false
		default: // "dup", "impersonate": an honest-looking response (possibly delivered twice)
			r, rd := s.forgeResp(b, j, sid, sd, true, s.members[b])
			return r, rd, true, how == "dup"
		}
	}}
}

// ---------------------------------------------------------------- C05 on the real pipeline
//
// n-1 real pdkg instances (Loop + Grouping, share/dkg/pedersen/pdkg*.go) over the in-memory network;
// the remaining group member is Byzantine and is played by the harness with the public vss API: it
// announces a key, deals (with a deviation towards its victims), answers the honest deals with
// correct signed approvals, and records what every honest member broadcasts.  Judged (all of it is
// safety, nothing depends on how long anything takes):
//   * an honest member that finishes has broadcast an approval of the deal of EVERY other member
//     ("a recipient that did not approve a deal does not finish");
//   * a deal whose share does not lie on the commitments it travels with is not approved by its
//     recipient;
//   * the finishing honest members agree on one group key and each share lies on the public polynomial;
//   * (kind "honest" only) with a well-behaved member every honest member finishes.

var c05NetKinds = []string{
	"honest",                // the member played by the harness follows the protocol
	"share-plus-one",        // victim's share + 1
	"share-random",          // victim's share replaced by a random scalar
	"share-zero",            // victim's share replaced by 0
	"share-of-other-member", // victim gets the value of the polynomial at another member's abscissa under its own index
	"threshold-lowered",     // victim's deal announces another (valid) threshold; everything else unchanged
	"foreign-session-id",    // victim's deal carries a session id that is not derived from its content
	"wrong-index",           // victim gets another member's share, labelled with that member's index
	"other-polynomial",      // victim gets a consistent deal of ANOTHER polynomial (equivocation)
	"share-plus-one-to-all", // every honest member gets share + 1
}

type c05NetOut struct {
	netOutcome
	b            int
	victims      []int
	approvals    map[[2]int]int // [i, j] -> 1 approval / 0 complaint: what honest member i broadcast about dealer j's deal
	inconsistent map[int]bool   // honest members whose deal from the Byzantine member does not verify against its commitments
	script       string         // "" = the Byzantine member got through its whole script
}

func runC05NetSession(rng *hx.Rng, n int, kind string, sid string, timeout time.Duration) c05NetOut {
	g2 := Bn.G2()
	net := doubles.NewNetwork()
	ids := make([][]byte, n)
	pos := map[string]int{}
	for i := range ids {
		ids[i] = []byte(fmt.Sprintf("node-%02d-%s", i, sid))
		pos[string(ids[i])] = i
	}
	b := rng.Intn(n)
	var hon []int
	for i := 0; i < n; i++ {
		if i != b {
			hon = append(hon, i)
		}
	}
	t := n/2 + 1
	out := c05NetOut{b: b, approvals: map[[2]int]int{}, inconsistent: map[int]bool{}}
	out.finished, out.keys, out.shares = make([]bool, n), make([]string, n), make([]*dkg.DistKeyShare, n)
	switch kind {
	case "honest":
	case "share-plus-one-to-all":
		out.victims = append(out.victims, hon...)
	default:
		out.victims = []int{hon[rng.Intn(len(hon))]}
	}
	var mu sync.Mutex

	// ---- the Byzantine member's endpoint: everything addressed to it is recorded
	att := net.Add(ids[b])
	inbox, _ := att.SubscribeMsg(4000, dkg.PublicKey{}, dkg.Deal{}, dkg.Responses{})
	pubs := make([]kyber.Point, n)
	gotDeals := map[int]*dkg.Deal{}
	stop := make(chan struct{})
	go func() {
		for {
			select {
			case <-stop:
				return
			case m := <-inbox:
				from, known := pos[string(m.Sender)]
				if !known || from == b {
					continue
				}
				mu.Lock()
				switch c := m.Msg.Message.(type) {
				case *dkg.PublicKey:
					if c.Publickey != nil && int(c.Index) == from && pubs[from] == nil {
						p := g2.Point()
						if p.UnmarshalBinary(c.Publickey.Binary) == nil {
							pubs[from] = p
						}
					}
				case *dkg.Deal:
					if int(c.Index) == from && gotDeals[from] == nil {
						gotDeals[from] = c
					}
				case *dkg.Responses:
					for _, r := range c.Response {
						if r == nil || r.Response == nil || int(r.Response.Index) != from || int(r.Index) >= n {
							continue
						}
						st := 0
						if r.Response.Status == vss.StatusApproval {
							st = 1
						}
						if old, seen := out.approvals[[2]int{from, int(r.Index)}]; !seen || st < old {
							out.approvals[[2]int{from, int(r.Index)}] = st
						}
					}
				}
				mu.Unlock()
			}
		}
	}()

	// ---- the honest members: real pdkg instances
	var wg sync.WaitGroup
	cancels := make([]context.CancelFunc, n)
	sessCtx, sessCancel := context.WithTimeout(context.Background(), timeout)
	defer sessCancel()
	t0 := time.Now()
	for _, i := range hon {
		ep := net.Add(ids[i])
		d := dkg.VerifNewPDKG(ep, Bn, doubles.NopLogger{})
		go func() {
			defer func() {
				if r := recover(); r != nil {
					mu.Lock()
					out.panicked = true
					hx.LastPanic = fmt.Sprint(r)
					mu.Unlock()
				}
			}()
			d.Loop()
		}()
		wg.Add(1)
		go func(i int) {
			defer wg.Done()
			// as in runNetSession: a member's context outlives its own result (its in-flight sends die with it)
			ctx, cancel := context.WithTimeout(context.Background(), timeout)
			mu.Lock()
			cancels[i] = cancel
			mu.Unlock()
			outc, errc, err := d.Grouping(ctx, sid, ids)
			if err != nil {
				return
			}
			go func() {
				for range errc {
				}
			}()
			select {
			case v, ok := <-outc:
				if ok {
					mu.Lock()
					out.finished[i] = true
					out.keys[i] = fmt.Sprintf("%x-%x-%x-%x", v[1], v[2], v[3], v[4])
					out.shares[i] = dkg.VerifDistKeyShare(d, sid)
					mu.Unlock()
				}
			case <-ctx.Done():
			}
		}(i)
	}

	// ---- the Byzantine member's script
	waitFor := func(cond func() bool) bool {
		for {
			mu.Lock()
			ok := cond()
			mu.Unlock()
			if ok {
				return true
			}
			select {
			case <-sessCtx.Done():
				return false
			case <-time.After(time.Millisecond):
			}
		}
	}
	sendTo := func(to int, m interface{}) {
		switch c := m.(type) {
		case *dkg.PublicKey:
			att.Request(sessCtx, ids[to], c)
		case *dkg.Deal:
			att.Request(sessCtx, ids[to], c)
		case *dkg.Responses:
			att.Request(sessCtx, ids[to], c)
		}
	}
	out.script = func() string {
		bSec := g2.Scalar().Pick(Bn.RandomStream())
		bPub := g2.Point().Mul(bSec, nil)
		for _, i := range hon {
			sendTo(i, &dkg.PublicKey{SessionId: sid, Index: uint32(b), Publickey: &vss.PublicKey{Binary: PtBytes(bPub)}})
		}
		if !waitFor(func() bool {
			for _, i := range hon {
				if pubs[i] == nil {
					return false
				}
			}
			return true
		}) {
			return "the honest members did not announce their keys"
		}
		mu.Lock()
		all := append([]kyber.Point{}, pubs...)
		mu.Unlock()
		all[b] = bPub
		dealer, err := vss.NewDealer(Bn, bSec, g2.Scalar().Pick(Bn.RandomStream()), all, t)
		if err != nil {
			return "NewDealer: " + err.Error()
		}
		other, err := vss.NewDealer(Bn, bSec, g2.Scalar().Pick(Bn.RandomStream()), all, t)
		if err != nil {
			return "NewDealer: " + err.Error()
		}
		isVictim := map[int]bool{}
		for _, v := range out.victims {
			isVictim[v] = true
		}
		for _, i := range hon {
			from := dealer
			pd, _ := dealer.PlaintextDeal(i)
			if isVictim[i] {
				// another honest member's abscissa (the Byzantine member's own if there is no other)
				w := b
				if len(hon) > 1 {
					for w = hon[rng.Intn(len(hon))]; w == i; w = hon[rng.Intn(len(hon))] {
					}
				}
				wd, _ := dealer.PlaintextDeal(w)
				switch kind {
				case "share-plus-one", "share-plus-one-to-all":
					pd.SecShare.V = g2.Scalar().Add(pd.SecShare.V, g2.Scalar().One())
				case "share-random":
					pd.SecShare.V = Sc(g2, rng.BigBelow(BnQ), BnQ)
				case "share-zero":
					pd.SecShare.V = g2.Scalar().Zero()
				case "share-of-other-member":
					pd.SecShare.V = wd.SecShare.V.Clone()
				case "threshold-lowered":
					if t-1 >= 2 {
						pd.T = uint32(t - 1)
					} else {
						pd.T = uint32(t + 1)
					}
				case "foreign-session-id":
					pd.SessionID = rng.Bytes(len(pd.SessionID))
				case "wrong-index":
					pd.SecShare = &share.PriShare{I: wd.SecShare.I, V: wd.SecShare.V.Clone()}
				case "other-polynomial":
					from = other
					pd, _ = other.PlaintextDeal(i)
				}
			}
			// is the share the value, at the recipient's abscissa, of the polynomial committed to in this very deal?
			pp := share.NewPubPoly(g2, g2.Point().Base(), pd.Commitments)
			if pd.SecShare.I != i || !pp.Check(pd.SecShare) {
				out.inconsistent[i] = true
			}
			enc, err := from.EncryptedDeal(i)
			if err != nil {
				return "EncryptedDeal: " + err.Error()
			}
			sendTo(i, &dkg.Deal{SessionId: sid, Index: uint32(b), Deal: enc})
		}
		if !waitFor(func() bool { return len(gotDeals) == len(hon) }) {
			return "the honest members did not deal"
		}
		resps := &dkg.Responses{SessionId: sid}
		for _, j := range hon {
			ver, err := vss.NewVerifier(Bn, bSec, all[j], all)
			if err != nil {
				return "NewVerifier: " + err.Error()
			}
			mu.Lock()
			d := gotDeals[j]
			mu.Unlock()
			r, err := ver.ProcessEncryptedDeal(d.Deal)
			if err != nil {
				return fmt.Sprintf("honest member %d's deal is not acceptable: %v", j, err)
			}
			if r.Status != vss.StatusApproval {
				return fmt.Sprintf("honest member %d dealt a share that does not verify", j)
			}
			resps.Response = append(resps.Response, &dkg.Response{SessionId: sid, Index: uint32(j), Response: r})
		}
		for _, i := range hon {
			sendTo(i, resps)
		}
		return ""
	}()
	wg.Wait()
	out.wall = time.Since(t0)
	// what a finished member broadcast travels in goroutines of its own: give it a moment to arrive
	// before the contexts are cancelled (only ever waits when something is missing)
	grace := time.Now().Add(1500 * time.Millisecond)
	for time.Now().Before(grace) {
		missing := false
		mu.Lock()
		for _, i := range hon {
			for j := 0; j < n && out.finished[i]; j++ {
				if _, seen := out.approvals[[2]int{i, j}]; j != i && !seen {
					missing = true
				}
			}
		}
		mu.Unlock()
		if !missing {
			break
		}
		time.Sleep(10 * time.Millisecond)
	}
	mu.Lock()
	for _, c := range cancels {
		if c != nil {
			c()
		}
	}
	mu.Unlock()
	close(stop)
	return out
}

func judgeC05Net(rng *hx.Rng, n int, kind string, o c05NetOut) string {
	if o.panicked {
		return hx.Fail("dkg-panic", "a key-generation goroutine panicked: "+hx.LastPanic)
	}
	for i := 0; i < n; i++ {
		if i == o.b {
			continue
		}
		for j := 0; j < n; j++ {
			if j == i {
				continue
			}
			st, seen := o.approvals[[2]int{i, j}]
			if o.finished[i] && !(seen && st == 1) {
				what := "it broadcast no response to that deal"
				if seen {
					what = "it broadcast a complaint about that deal"
				}
				on := "on"
				if ks := o.shares[i]; ks == nil || !share.NewPubPoly(Bn.G2(), Bn.G2().Point().Base(), ks.Commits).Check(ks.Share) {
					on = "OFF"
				}
				return hx.Fail("finished-without-approving-a-deal", fmt.Sprintf("member %d of %d finished the key generation although it did not approve the deal it got from member %d (%s; Byzantine member %d, deviation %s towards %v; the share it finished with is %s its public polynomial)", i, n, j, what, o.b, kind, o.victims, on))
			}
			if j == o.b && o.inconsistent[i] && seen && st == 1 {
				return hx.Fail("inconsistent-deal-approved", fmt.Sprintf("member %d approved a deal of member %d whose share does not verify against its commitments (deviation %s)", i, j, kind))
			}
		}
	}
	if v := judgeNet(rng, n, o.netOutcome, false); v != "ok" {
		return v
	}
	if kind == "honest" {
		for i := 0; i < n; i++ {
			if i != o.b && !o.finished[i] {
				return hx.Fail("honest-session-did-not-finish", fmt.Sprintf("every member followed the protocol and every message was delivered, but member %d of %d did not finish", i, n))
			}
		}
	}
	return "ok"
}

// arg kind=<deviation>,n=<members>,seed=<n>; prints "<verdict>|<finished honest members>|<victims that finished>"
func subC05Net(arg string) string {
	a := parseArg(arg)
	rng := hx.NewRng(uint64(atoi(a["seed"])) + 505)
	n, kind := atoi(a["n"]), a["kind"]
	known := false
	for _, k := range c05NetKinds {
		known = known || k == kind
	}
	if !known || n < 3 {
		return "FAIL:harness:no such scenario|0|0"
	}
	sid := fmt.Sprintf("%x", new(big.Int).Add(big.NewInt(int64(atoi(a["seed"]))), new(big.Int).SetBytes(rng.Bytes(8))))
	// nothing judged depends on the deadline: a session in which somebody waits for a message that
	// never comes simply lasts that long.  The honest run ends as soon as everybody has finished
	timeout := 2500 * time.Millisecond
	if kind == "honest" {
		timeout = 12 * time.Second
	}
	if ms := atoi(a["ms"]); ms > 0 {
		timeout = time.Duration(ms) * time.Millisecond
	}
	o := runC05NetSession(rng, n, kind, sid, timeout)
	if o.script != "" && !o.panicked {
		// the scenario did not take place (a starved machine): nothing was learnt, the parent runs it again
		rigFail("the Byzantine member could not play its part: " + o.script)
	}
	fin, vfin := 0, 0
	for _, f := range o.finished {
		if f {
			fin++
		}
	}
	for _, v := range o.victims {
		if o.finished[v] {
			vfin++
		}
	}
	return fmt.Sprintf("%s|%d|%d", judgeC05Net(rng, n, kind, o), fin, vfin)
}

func genC05Net(rng *hx.Rng, tier string, w *hx.Writer) {
	type pick struct {
		kind string
		n    int
	}
	var picks []pick
	if tier == "quick" {
		// one batch of child processes (they run side by side)
		picks = []pick{{"honest", 3}, {"share-plus-one", 3}, {"other-polynomial", 3},
			{"share-random", 4}, {"threshold-lowered", 4}, {"share-of-other-member", 4},
			{"share-zero", 5}, {"foreign-session-id", 5}}
	} else {
		for rep := 0; rep < 3; rep++ {
			for _, k := range c05NetKinds {
				for n := 3; n <= 5; n++ {
					picks = append(picks, pick{k, n})
				}
			}
		}
	}
	var jobs []*c12job
	for _, p := range picks {
		seed := 1 + rng.Intn(1<<20)
		arg := fmt.Sprintf("kind=%s,n=%d,seed=%d", p.kind, p.n, seed)
		job := &c12job{sub: "c05-net", arg: arg, timeout: 60 * time.Second, group: "key-generation",
			c: hx.Case{Entry: "-", Op: 0, Args: hx.L(hx.Zi(p.n), hx.B([]byte(p.kind)), hx.Zi(seed)), Tags: []string{"pipeline", "byz-" + p.kind, fmt.Sprintf("n%d", p.n), "nt"}}}
		verdict := "ok"
		job.finish = func(out string) (string, bool) {
			parts := strings.Split(out, "|")
			if len(parts) != 3 {
				verdict = hx.Fail("harness", "unexpected scenario output: "+out)
				return hx.B([]byte(out)), false
			}
			verdict = parts[0]
			return hx.L(hx.Zi(atoi(parts[1])), hx.Zi(atoi(parts[2]))), parts[0] == "ok"
		}
		job.explain = func(class, out, panicLine string) (string, string) {
			sc := "driver sub c05-net " + arg
			switch class {
			case "P":
				return "dkg-panic", "a key-generation goroutine panicked (" + sc + "): " + panicLine
			case "H":
				return "dkg-hang", "the networked session did not end (" + sc + ")"
			}
			v := strings.SplitN(strings.TrimPrefix(verdict, "FAIL:"), ":", 2)
			if len(v) == 2 {
				return v[0], v[1] + " (" + sc + ")"
			}
			return "dkg-net", verdict + " (" + sc + ")"
		}
		// only the honest run has a verdict with a wall-clock component (its liveness clause)
		job.solo = p.kind == "honest"
		jobs = append(jobs, job)
	}
	runC12Jobs(jobs, w)
}
