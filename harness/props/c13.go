package props

import (
	"context"
	"fmt"
	"math/big"
	"sort"
	"sync"
	"time"

	"github.com/DOSNetwork/core/dosnode"
	"github.com/DOSNetwork/core/onchain"
	"github.com/DOSNetwork/core/p2p"
	vss "github.com/DOSNetwork/core/share/vss/pedersen"
	"github.com/golang/protobuf/ptypes"

	"verif/harness/doubles"
	"verif/harness/hx"
)

func init() { Registry["C13"] = genC13 }

// events of the collector loop
type qev struct {
	kind int // 0 peer, 1 register, 2 cancel
	id   int // request id index
	x    int // share payload (peer)
	gen  int // register / cancel: which registration of the id (0 = the first, 1 = a re-registration)
}

// a request handle (one registration: its own context and reply channel) is numbered id + nids*gen
const c13Gens = 2

// request ids: index 0 is the EMPTY id (request id 0 encodes to no bytes)
var c13ids = [][]byte{{}, {0x01}, {0x02, 0x03}}

type c13req struct {
	ctx    context.Context
	cancel context.CancelFunc
	reply  chan *vss.Signature
	mu     sync.Mutex
	got    []int
	done   chan struct{}
}

const c13Timeout = 1500 * time.Millisecond

// runs one event sequence against the real queryLoop; returns the val of per-handle deliveries,
// "P" (the loop panicked) or "H" (an event was not accepted in time: the loop is wedged)
func c13Run(evs []qev, nids int) string {
	net := doubles.NewFakeP2P([]byte("node"))
	net.ChanBuf = 0 // unbuffered: an event is accepted only when the loop is back at its select
	node := dosnode.VerifNewNode(net, nil, nil, []byte("node"), doubles.NopLogger{}, 0)
	panicked := make(chan struct{})
	exited := make(chan struct{})
	go func() {
		defer close(exited)
		defer func() {
			if r := recover(); r != nil {
				hx.LastPanic = "queryLoop panicked"
				close(panicked)
			}
		}()
		node.VerifQueryLoop()
	}()
	defer func() {
		node.VerifCancel()
		select {
		case <-exited:
		case <-time.After(c13Timeout):
		}
	}()
	ch := net.WaitSub(vss.Signature{}, time.Second)
	if ch == nil {
		return "H"
	}
	reqs := make([]*c13req, nids*c13Gens)
	for i := range reqs {
		ctx, cancel := context.WithCancel(context.Background())
		r := &c13req{ctx: ctx, cancel: cancel, reply: make(chan *vss.Signature), done: make(chan struct{})}
		reqs[i] = r
		go func() { // the request's reader: takes every share offered until its context ends
			defer close(r.done)
			for {
				select {
				case <-r.ctx.Done():
					return
				case s, ok := <-r.reply:
					if !ok {
						return
					}
					r.mu.Lock()
					r.got = append(r.got, int(s.Content[0]))
					r.mu.Unlock()
				}
			}
		}()
	}
	defer func() {
		for _, r := range reqs {
			r.cancel()
		}
	}()
	send := func(id []byte, x int) string {
		m := p2p.P2PMessage{Msg: ptypes.DynamicAny{Message: &vss.Signature{RequestId: id, Content: []byte{byte(x)}}}}
		select {
		case ch <- m:
			return ""
		case <-panicked:
			return "P"
		case <-time.After(c13Timeout):
			return "H"
		}
	}
	barrier := func() string { return send([]byte("barrier-id-never-registered"), 0) }
	for _, e := range evs {
		switch e.kind {
		case 0:
			if r := send(c13ids[e.id], e.x); r != "" {
				return r
			}
		case 1:
			okc := make(chan bool, 1)
			go func(e qev) {
				h := e.id + nids*e.gen
				okc <- node.VerifRegister(context.Background(), reqs[h].ctx, string(c13ids[e.id]), 2, reqs[h].reply)
			}(e)
			select {
			case <-okc:
			case <-panicked:
				return "P"
			case <-time.After(c13Timeout):
				return "H"
			}
		case 2:
			// let the loop finish what it is doing, then cancel and wait for the reader to leave
			if r := barrier(); r != "" {
				return r
			}
			reqs[e.id+nids*e.gen].cancel()
			<-reqs[e.id+nids*e.gen].done
		}
	}
	if r := barrier(); r != "" {
		return r
	}
	if r := barrier(); r != "" {
		return r
	}
	// no offer is in flight any more: stop the readers, then look at what they took
	for _, r := range reqs {
		r.cancel()
		<-r.done
	}
	out := make([]string, len(reqs))
	for i, r := range reqs {
		r.mu.Lock()
		xs := make([]string, len(r.got))
		for j, x := range r.got {
			xs[j] = hx.Zi(x)
		}
		r.mu.Unlock()
		out[i] = hx.L(hx.Zi(i+1), hx.L(xs...))
	}
	return hx.L(out...)
}

// the property's own judge: deliveries to a never-cancelled request = its arrivals in order if it
// is registered at some point, nothing otherwise; a cancelled request gets a prefix-consistent
// subsequence (only what arrived/was flushed before the cancellation)
func c13Expect(evs []qev, nids int) []string {
	nh := nids * c13Gens
	got := make([][]int, nh)
	cancelled := make([]bool, nh)
	current := make([]int, nids) // the handle registered for the id now (-1: none)
	pre := make([][]int, nids)   // arrivals not yet handed to any registration
	for i := range current {
		current[i] = -1
	}
	for _, e := range evs {
		switch e.kind {
		case 0:
			if h := current[e.id]; h >= 0 {
				if !cancelled[h] {
					got[h] = append(got[h], e.x)
				}
			} else {
				pre[e.id] = append(pre[e.id], e.x)
			}
		case 1:
			h := e.id + nids*e.gen
			current[e.id] = h
			if !cancelled[h] {
				got[h] = append(got[h], pre[e.id]...)
			}
			pre[e.id] = nil
		case 2:
			cancelled[e.id+nids*e.gen] = true
		}
	}
	out := make([]string, nh)
	for i := range out {
		xs := make([]string, len(got[i]))
		for j, x := range got[i] {
			xs[j] = hx.Zi(x)
		}
		out[i] = hx.L(hx.Zi(i+1), hx.L(xs...))
	}
	return out
}

func c13Case(w *hx.Writer, evs []qev, nids int, tag string) {
	impl := c13Run(evs, nids)
	ev := make([]string, len(evs))
	for i, e := range evs {
		switch e.kind {
		case 0:
			ev[i] = hx.L(hx.Zi(0), hx.Zi(e.id), hx.Zi(e.x))
		case 1:
			ev[i] = hx.L(hx.Zi(1), hx.Zi(e.id), hx.Zi(e.id+nids*e.gen+1))
		case 2:
			ev[i] = hx.L(hx.Zi(2), hx.Zi(e.id+nids*e.gen+1))
		}
	}
	hs := make([]string, nids*c13Gens)
	for i := range hs {
		hs[i] = hx.Zi(i + 1)
	}
	want := hx.L(c13Expect(evs, nids)...)
	oracle := "ok"
	switch {
	case impl == "P":
		oracle = hx.Fail("collector-panic", "the collector loop panicked on this event sequence")
	case impl == "H":
		oracle = hx.Fail("collector-wedged", "the collector loop stopped accepting events (wedged) on this event sequence")
	case impl != want:
		oracle = hx.Fail("delivery-wrong", "shares handed to the requests differ from: each arrival exactly once, in order, to its own request")
	}
	kinds := map[int]bool{}
	rereg := false
	for _, e := range evs {
		kinds[e.kind] = true
		rereg = rereg || (e.kind == 1 && e.gen > 0)
	}
	tags := []string{tag}
	if kinds[0] && kinds[1] {
		tags = append(tags, "nt")
	}
	if kinds[2] {
		tags = append(tags, "with-cancel")
	}
	if rereg {
		tags = append(tags, "re-registration")
	}
	w.Put(hx.Case{Entry: "queryloop", Op: 1, Args: hx.L(hx.L(ev...), hx.L(hs...)), Impl: impl, Oracle: oracle, Tags: tags})
}

// all sequences of length L over the alphabet {peer(id), register(id), cancel(id)} for nids ids,
// registration and cancellation of an id at most once each
func c13Enum(nids, L int, emit func([]qev)) {
	var rec func(seq []qev, reg, can []bool, nx int)
	rec = func(seq []qev, reg, can []bool, nx int) {
		if len(seq) == L {
			emit(append([]qev{}, seq...))
			return
		}
		for id := 0; id < nids; id++ {
			rec(append(seq, qev{kind: 0, id: id, x: nx}), reg, can, nx+1)
			if !reg[id] {
				reg[id] = true
				rec(append(seq, qev{kind: 1, id: id}), reg, can, nx)
				reg[id] = false
			}
			if !can[id] {
				can[id] = true
				rec(append(seq, qev{kind: 2, id: id}), reg, can, nx)
				can[id] = false
			}
		}
	}
	rec(nil, make([]bool, nids), make([]bool, nids), 10)
}

// A request handled by the real dispatch stage on the submitter (it forwards the node's own share,
// then registers with the collector) is cancelled - before or after the own share went through - and
// peers' shares for it keep arriving: the collector must go on serving.  Returns "ok", "P", "H".
func c13DispatchCancel(variant int, nLate int) string {
	net := doubles.NewFakeP2P([]byte("node"))
	net.ChanBuf = 0
	node := dosnode.VerifNewNode(net, nil, nil, []byte("node"), doubles.NopLogger{}, 0)
	panicked := make(chan struct{})
	exited := make(chan struct{})
	go func() {
		defer close(exited)
		defer func() {
			if r := recover(); r != nil {
				hx.LastPanic = fmt.Sprint("queryLoop panicked: ", r)
				close(panicked)
			}
		}()
		node.VerifQueryLoop()
	}()
	defer func() {
		node.VerifCancel()
		select {
		case <-exited:
		case <-time.After(c13Timeout):
		}
	}()
	ch := net.WaitSub(vss.Signature{}, time.Second)
	if ch == nil {
		return "H"
	}
	send := func(id []byte, x int) string {
		m := p2p.P2PMessage{Msg: ptypes.DynamicAny{Message: &vss.Signature{RequestId: id, Content: []byte{byte(x)}}}}
		select {
		case ch <- m:
			return ""
		case <-panicked:
			return "P"
		case <-time.After(c13Timeout):
			return "H"
		}
	}
	rid := []byte{0x0c, 0x0d}
	ctx, cancel := context.WithCancel(context.Background())
	defer cancel()
	subc := make(chan []byte, 1)
	subc <- []byte("node") // this node is the submitter
	signc := make(chan *vss.Signature)
	out := node.VerifDispatchSign(ctx, subc, signc, rid, 2)
	drain := make(chan struct{})
	go func() { // the next stage: takes what the dispatch stage and the collector hand over
		defer close(drain)
		for {
			select {
			case _, ok := <-out:
				if !ok {
					return
				}
			case <-ctx.Done():
				return
			}
		}
	}()
	switch variant {
	case 0: // cancelled while the stage still waits for the node's own share
		time.Sleep(20 * time.Millisecond)
		cancel()
	case 1: // the own share went through and the request is registered, then cancelled
		select {
		case signc <- &vss.Signature{RequestId: rid, Content: []byte{1}}:
		case <-time.After(c13Timeout):
			return "H"
		}
		time.Sleep(20 * time.Millisecond)
		cancel()
	}
	<-drain
	time.Sleep(10 * time.Millisecond)
	for i := 0; i < nLate; i++ {
		if r := send(rid, 50+i); r != "" {
			return r
		}
	}
	// another request is still served
	other := []byte{0x0e}
	ctx2, cancel2 := context.WithCancel(context.Background())
	defer cancel2()
	reply := make(chan *vss.Signature)
	got := make(chan int, 4)
	go func() {
		for {
			select {
			case s, ok := <-reply:
				if !ok {
					return
				}
				got <- int(s.Content[0])
			case <-ctx2.Done():
				return
			}
		}
	}()
	okc := make(chan bool, 1)
	go func() { okc <- node.VerifRegister(context.Background(), ctx2, string(other), 2, reply) }()
	select {
	case <-okc:
	case <-panicked:
		return "P"
	case <-time.After(c13Timeout):
		return "H"
	}
	if r := send(other, 77); r != "" {
		return r
	}
	select {
	case v := <-got:
		if v != 77 {
			return "H"
		}
	case <-panicked:
		return "P"
	case <-time.After(c13Timeout):
		return "H"
	}
	return "ok"
}

// the same alphabet plus a second registration of an id (a new handle: new context, new reply
// channel) after the first, and its cancellation
func c13EnumRereg(nids, L int, emit func([]qev)) {
	var rec func(seq []qev, reg, can []int, nx int, any bool)
	rec = func(seq []qev, reg, can []int, nx int, any bool) {
		if len(seq) == L {
			if any {
				emit(append([]qev{}, seq...))
			}
			return
		}
		for id := 0; id < nids; id++ {
			rec(append(seq, qev{kind: 0, id: id, x: nx}), reg, can, nx+1, any)
			if reg[id] < c13Gens {
				g := reg[id]
				reg[id]++
				rec(append(seq, qev{kind: 1, id: id, gen: g}), reg, can, nx, any || g > 0)
				reg[id]--
			}
			for g := 0; g < c13Gens; g++ {
				if can[id]&(1<<uint(g)) == 0 {
					can[id] |= 1 << uint(g)
					rec(append(seq, qev{kind: 2, id: id, gen: g}), reg, can, nx, any)
					can[id] &^= 1 << uint(g)
				}
			}
		}
	}
	rec(nil, make([]int, nids), make([]int, nids), 10, false)
}

func genC13(rng *hx.Rng, tier string, w *hx.Writer) error {
	var all [][]qev
	maxL2, maxL3 := 4, 3
	if tier == "thorough" {
		maxL2, maxL3 = 6, 5
	}
	for L := 1; L <= maxL2; L++ {
		c13Enum(2, L, func(s []qev) { all = append(all, s) })
	}
	n2 := len(all)
	for L := 2; L <= maxL3; L++ {
		c13Enum(3, L, func(s []qev) { all = append(all, s) })
	}
	n3 := len(all)
	rL1, rL2 := 5, 4
	if tier == "thorough" {
		rL1, rL2 = 7, 5
	}
	for L := 2; L <= rL1; L++ {
		c13EnumRereg(1, L, func(s []qev) { all = append(all, s) })
	}
	n4 := len(all)
	for L := 3; L <= rL2; L++ {
		c13EnumRereg(2, L, func(s []qev) { all = append(all, s) })
	}
	// run in parallel (each case owns its node), keep the order
	type res struct {
		evs  []qev
		nids int
		tag  string
	}
	items := make([]res, 0, len(all)+600)
	for i, s := range all {
		switch {
		case i < n2:
			items = append(items, res{s, 2, "exhaustive-2ids"})
		case i < n3:
			items = append(items, res{s, 3, "exhaustive-3ids"})
		case i < n4:
			items = append(items, res{s, 1, "exhaustive-1id-reregistration"})
		default:
			items = append(items, res{s, 2, "exhaustive-2ids-reregistration"})
		}
	}
	nRand := 400
	if tier == "thorough" {
		nRand = 6000
	}
	for it := 0; it < nRand; it++ {
		L := 4 + rng.Intn(7)
		var s []qev
		reg := make([]int, 3)
		can := make([]int, 3)
		nx := 10
		for len(s) < L {
			id := rng.Intn(3)
			switch rng.Intn(6) {
			case 0:
				if reg[id] < c13Gens && (reg[id] == 0 || rng.Chance(60)) {
					s = append(s, qev{kind: 1, id: id, gen: reg[id]})
					reg[id]++
				}
			case 1:
				if g := rng.Intn(c13Gens); can[id]&(1<<uint(g)) == 0 && rng.Chance(50) {
					can[id] |= 1 << uint(g)
					s = append(s, qev{kind: 2, id: id, gen: g})
				}
			case 2:
				if len(s) > 0 && s[len(s)-1].kind == 0 { // duplicate delivery of the same share
					s = append(s, s[len(s)-1])
				}
			default:
				s = append(s, qev{kind: 0, id: id, x: nx})
				nx++
			}
		}
		items = append(items, res{s, 3, "random"})
	}
	sort.SliceStable(items, func(i, j int) bool { return false })
	for _, it := range items {
		c13Case(w, it.evs, it.nids, it.tag)
	}
	c13EndToEnd(rng, tier, w)
	// the real dispatch stage, cancelled before / after its registration, late shares afterwards
	nd := 4
	if tier == "thorough" {
		nd = 24
	}
	for it := 0; it < nd; it++ {
		variant := it % 2
		res := c13DispatchCancel(variant, 16)
		oracle := "ok"
		switch res {
		case "P":
			oracle = hx.Fail("collector-panic", fmt.Sprintf("a request of the real dispatch stage was cancelled (variant %d) and 16 late shares for it arrived: %s", variant, hx.LastPanic))
		case "H":
			oracle = hx.Fail("collector-wedged", fmt.Sprintf("after a request of the real dispatch stage was cancelled (variant %d) the collector stopped serving", variant))
		}
		w.Put(hx.Case{Entry: "-", Op: 0, Args: hx.L(hx.Zi(variant)), Impl: hx.B([]byte(res)), Oracle: oracle, Tags: []string{"dispatch-cancelled", "nt"}})
	}
	return nil
}

// The same property seen from the members that PRODUCE the shares: real handleQuery on every
// member (the id a member puts on the wire is the id the submitter registers under), request ids of
// every width - a leading zero byte, one byte, zero - the peers' shares early or late relative to
// the submitter's registration.  Judge: the peers' shares reached the submitter's recovery stage,
// i.e. the submitter (and nobody else) made its one report.
func c13EndToEnd(rng *hx.Rng, tier string, w *hx.Writer) {
	widths := []int{32, 31, 30, 17, 1, 0}
	reps := 1
	if tier == "thorough" {
		reps = 4
	}
	for rep := 0; rep < reps; rep++ {
		for _, width := range widths {
			for sched := 0; sched < 2; sched++ {
				n := 3 + rng.Intn(2)
				reqID := new(big.Int)
				if width > 0 {
					b := rng.Bytes(width)
					b[0] |= 1
					reqID.SetBytes(b)
				}
				lastRand, seed := c07Rand(rng), c07Rand(rng)
				subIdx := int(new(big.Int).Mod(new(big.Int).And(lastRand, new(big.Int).SetUint64(^uint64(0))), big.NewInt(int64(n))).Int64())
				late := map[int]time.Duration{}
				name := "submitter-late"
				if sched == 0 {
					late[subIdx] = 150 * time.Millisecond
				} else {
					name = "peers-late"
					for i := 0; i < n; i++ {
						if i != subIdx {
							late[i] = time.Duration(60+rng.Intn(60)) * time.Millisecond
						}
					}
				}
				// one silent member when the group can afford it: exactly a threshold of shares exists
				byz := map[int]byzKind{}
				if n-(n/2+1) >= 1 && rng.Bool() {
					b := (subIdx + 1) % n
					byz[b] = byzSilent
				}
				o, _, _ := runQuerySystem(rng, n, lastRand, reqID, seed, uint32(onchain.TrafficUserRandom), byz, late, 6*time.Second)
				oracle := "ok"
				total := 0
				for i := range o.reports {
					total += len(o.reports[i])
				}
				switch {
				case o.panicked:
					oracle = hx.Fail("collector-panic", "a node goroutine panicked: "+hx.LastPanic)
				case len(o.reports[subIdx]) != 1 || total != 1:
					oracle = hx.Fail("share-not-delivered-end-to-end", fmt.Sprintf("request id of %d bytes, %s: the members' shares did not reach the submitter's recovery stage (%d reports, want 1)", width, name, total))
				case o.second == 0:
					oracle = hx.Fail("collector-wedged", fmt.Sprintf("request id of %d bytes, %s: the request was served, the next request of the same members was never reported", width, name))
				}
				w.Put(hx.Case{Entry: "-", Op: 0, Args: hx.L(hx.Zi(n), hx.Zi(width), hx.Zi(sched), hx.Z(reqID)),
					Impl: hx.L(hx.Zi(total)), Oracle: oracle, Tags: []string{"end-to-end", fmt.Sprintf("idwidth-%d", width), name, "nt"}})
			}
		}
	}
}
