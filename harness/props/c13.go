package props

import (
	"context"
	"sort"
	"sync"
	"time"

	"github.com/DOSNetwork/core/dosnode"
	"github.com/DOSNetwork/core/p2p"
	vss "github.com/DOSNetwork/core/share/vss/pedersen"
	"github.com/golang/protobuf/ptypes"

	"verif/harness/doubles"
	"verif/harness/hx"
)

func init() { Registry["C13"] = genC13 }

// events of the collector loop
type qev struct {
	kind int // 0 peer, 1 register, 2 cancel
	id   int // request id index
	x    int // share payload (peer)
}

// request ids: index 0 is the EMPTY id (request id 0 encodes to no bytes)
var c13ids = [][]byte{{}, {0x01}, {0x02, 0x03}}

type c13req struct {
	ctx    context.Context
	cancel context.CancelFunc
	reply  chan *vss.Signature
	mu     sync.Mutex
	got    []int
	done   chan struct{}
}

const c13Timeout = 1500 * time.Millisecond

// runs one event sequence against the real queryLoop; returns the val of per-handle deliveries,
// "P" (the loop panicked) or "H" (an event was not accepted in time: the loop is wedged)
func c13Run(evs []qev, nids int) string {
	net := doubles.NewFakeP2P([]byte("node"))
	net.ChanBuf = 0 // unbuffered: an event is accepted only when the loop is back at its select
	node := dosnode.VerifNewNode(net, nil, nil, []byte("node"), doubles.NopLogger{}, 0)
	panicked := make(chan struct{})
	exited := make(chan struct{})
	go func() {
		defer close(exited)
		defer func() {
			if r := recover(); r != nil {
				hx.LastPanic = "queryLoop panicked"
				close(panicked)
			}
		}()
		node.VerifQueryLoop()
	}()
	defer func() {
		node.VerifCancel()
		select {
		case <-exited:
		case <-time.After(c13Timeout):
		}
	}()
	ch := net.WaitSub(vss.Signature{}, time.Second)
	if ch == nil {
		return "H"
	}
	reqs := make([]*c13req, nids)
	for i := range reqs {
		ctx, cancel := context.WithCancel(context.Background())
		r := &c13req{ctx: ctx, cancel: cancel, reply: make(chan *vss.Signature), done: make(chan struct{})}
		reqs[i] = r
		go func() { // the request's reader: takes every share offered until its context ends
			defer close(r.done)
			for {
				select {
				case <-r.ctx.Done():
					return
				case s, ok := <-r.reply:
					if !ok {
						return
					}
					r.mu.Lock()
					r.got = append(r.got, int(s.Content[0]))
					r.mu.Unlock()
				}
			}
		}()
	}
	defer func() {
		for _, r := range reqs {
			r.cancel()
		}
	}()
	send := func(id []byte, x int) string {
		m := p2p.P2PMessage{Msg: ptypes.DynamicAny{Message: &vss.Signature{RequestId: id, Content: []byte{byte(x)}}}}
		select {
		case ch <- m:
			return ""
		case <-panicked:
			return "P"
		case <-time.After(c13Timeout):
			return "H"
		}
	}
	barrier := func() string { return send([]byte("barrier-id-never-registered"), 0) }
	for _, e := range evs {
		switch e.kind {
		case 0:
			if r := send(c13ids[e.id], e.x); r != "" {
				return r
			}
		case 1:
			okc := make(chan bool, 1)
			go func(e qev) {
				okc <- node.VerifRegister(context.Background(), reqs[e.id].ctx, string(c13ids[e.id]), 2, reqs[e.id].reply)
			}(e)
			select {
			case <-okc:
			case <-panicked:
				return "P"
			case <-time.After(c13Timeout):
				return "H"
			}
		case 2:
			// let the loop finish what it is doing, then cancel and wait for the reader to leave
			if r := barrier(); r != "" {
				return r
			}
			reqs[e.id].cancel()
			<-reqs[e.id].done
		}
	}
	if r := barrier(); r != "" {
		return r
	}
	if r := barrier(); r != "" {
		return r
	}
	// no offer is in flight any more: stop the readers, then look at what they took
	for _, r := range reqs {
		r.cancel()
		<-r.done
	}
	out := make([]string, nids)
	for i, r := range reqs {
		r.mu.Lock()
		xs := make([]string, len(r.got))
		for j, x := range r.got {
			xs[j] = hx.Zi(x)
		}
		r.mu.Unlock()
		out[i] = hx.L(hx.Zi(i+1), hx.L(xs...))
	}
	return hx.L(out...)
}

// the property's own judge: deliveries to a never-cancelled request = its arrivals in order if it
// is registered at some point, nothing otherwise; a cancelled request gets a prefix-consistent
// subsequence (only what arrived/was flushed before the cancellation)
func c13Expect(evs []qev, nids int) []string {
	out := make([]string, nids)
	for i := 0; i < nids; i++ {
		registered, cancelledBeforeReg, cancelled := false, false, false
		var pre, got []int
		for _, e := range evs {
			if e.id != i {
				continue
			}
			switch e.kind {
			case 0:
				if registered {
					if !cancelled {
						got = append(got, e.x)
					}
				} else {
					pre = append(pre, e.x)
				}
			case 1:
				if !registered {
					registered = true
					if !cancelled {
						got = append(got, pre...)
					} else {
						cancelledBeforeReg = true
					}
					pre = nil
				}
			case 2:
				cancelled = true
			}
		}
		_ = cancelledBeforeReg
		xs := make([]string, len(got))
		for j, x := range got {
			xs[j] = hx.Zi(x)
		}
		out[i] = hx.L(hx.Zi(i+1), hx.L(xs...))
	}
	return out
}

func c13Case(w *hx.Writer, evs []qev, nids int, tag string) {
	impl := c13Run(evs, nids)
	ev := make([]string, len(evs))
	for i, e := range evs {
		switch e.kind {
		case 0:
			ev[i] = hx.L(hx.Zi(0), hx.Zi(e.id), hx.Zi(e.x))
		case 1:
			ev[i] = hx.L(hx.Zi(1), hx.Zi(e.id), hx.Zi(e.id+1))
		case 2:
			ev[i] = hx.L(hx.Zi(2), hx.Zi(e.id+1))
		}
	}
	hs := make([]string, nids)
	for i := range hs {
		hs[i] = hx.Zi(i + 1)
	}
	want := hx.L(c13Expect(evs, nids)...)
	oracle := "ok"
	switch {
	case impl == "P":
		oracle = hx.Fail("collector-panic", "the collector loop panicked on this event sequence")
	case impl == "H":
		oracle = hx.Fail("collector-wedged", "the collector loop stopped accepting events (wedged) on this event sequence")
	case impl != want:
		oracle = hx.Fail("delivery-wrong", "shares handed to the requests differ from: each arrival exactly once, in order, to its own request")
	}
	kinds := map[int]bool{}
	for _, e := range evs {
		kinds[e.kind] = true
	}
	tags := []string{tag}
	if kinds[0] && kinds[1] {
		tags = append(tags, "nt")
	}
	if kinds[2] {
		tags = append(tags, "with-cancel")
	}
	w.Put(hx.Case{Entry: "queryloop", Op: 1, Args: hx.L(hx.L(ev...), hx.L(hs...)), Impl: impl, Oracle: oracle, Tags: tags})
}

// all sequences of length L over the alphabet {peer(id), register(id), cancel(id)} for nids ids,
// registration and cancellation of an id at most once each
func c13Enum(nids, L int, emit func([]qev)) {
	var rec func(seq []qev, reg, can []bool, nx int)
	rec = func(seq []qev, reg, can []bool, nx int) {
		if len(seq) == L {
			emit(append([]qev{}, seq...))
			return
		}
		for id := 0; id < nids; id++ {
			rec(append(seq, qev{0, id, nx}), reg, can, nx+1)
			if !reg[id] {
				reg[id] = true
				rec(append(seq, qev{1, id, 0}), reg, can, nx)
				reg[id] = false
			}
			if !can[id] {
				can[id] = true
				rec(append(seq, qev{2, id, 0}), reg, can, nx)
				can[id] = false
			}
		}
	}
	rec(nil, make([]bool, nids), make([]bool, nids), 10)
}

func genC13(rng *hx.Rng, tier string, w *hx.Writer) error {
	var all [][]qev
	maxL2, maxL3 := 4, 3
	if tier == "thorough" {
		maxL2, maxL3 = 6, 5
	}
	for L := 1; L <= maxL2; L++ {
		c13Enum(2, L, func(s []qev) { all = append(all, s) })
	}
	n2 := len(all)
	for L := 2; L <= maxL3; L++ {
		c13Enum(3, L, func(s []qev) { all = append(all, s) })
	}
	// run in parallel (each case owns its node), keep the order
	type res struct {
		evs  []qev
		nids int
		tag  string
	}
	items := make([]res, 0, len(all)+600)
	for i, s := range all {
		if i < n2 {
			items = append(items, res{s, 2, "exhaustive-2ids"})
		} else {
			items = append(items, res{s, 3, "exhaustive-3ids"})
		}
	}
	nRand := 400
	if tier == "thorough" {
		nRand = 6000
	}
	for it := 0; it < nRand; it++ {
		L := 4 + rng.Intn(7)
		var s []qev
		reg := make([]bool, 3)
		can := make([]bool, 3)
		nx := 10
		for len(s) < L {
			id := rng.Intn(3)
			switch rng.Intn(6) {
			case 0:
				if !reg[id] {
					reg[id] = true
					s = append(s, qev{1, id, 0})
				}
			case 1:
				if !can[id] && rng.Chance(50) {
					can[id] = true
					s = append(s, qev{2, id, 0})
				}
			case 2:
				if len(s) > 0 && s[len(s)-1].kind == 0 { // duplicate delivery of the same share
					s = append(s, s[len(s)-1])
				}
			default:
				s = append(s, qev{0, id, nx})
				nx++
			}
		}
		items = append(items, res{s, 3, "random"})
	}
	sort.SliceStable(items, func(i, j int) bool { return false })
	for _, it := range items {
		c13Case(w, it.evs, it.nids, it.tag)
	}
	return nil
}
