package props

import (
	"bytes"
	"context"
	"fmt"
	"math/big"
	"sync"
	"time"

	"github.com/DOSNetwork/core/dosnode"
	"github.com/DOSNetwork/core/onchain"
	"github.com/DOSNetwork/core/p2p"
	"github.com/DOSNetwork/core/share"
	vss "github.com/DOSNetwork/core/share/vss/pedersen"
	"github.com/DOSNetwork/core/sign/tbls"
	"github.com/golang/protobuf/proto"
	"github.com/golang/protobuf/ptypes"

	"verif/harness/doubles"
	"verif/harness/hx"
)

func init() { Registry["C01"] = genC01 }

// ---------------------------------------------------------------- (a) the recoverSign stage vs the model

type stageMsg struct {
	nilMsg  bool
	content []byte // nil = nil Content
	sig     []byte // nil = nil Signature
}

func c01Stage(rng *hx.Rng, w *hx.Writer, s *tblsSetup, contents [][]byte, msgs []stageMsg, tag string, mustReport bool) {
	// decode table and hash table
	tbl := []string{}
	seen := map[string]bool{}
	for _, m := range msgs {
		if m.nilMsg || m.sig == nil || len(m.sig) < 2 {
			continue
		}
		val := m.sig[2:]
		if seen[string(val)] {
			continue
		}
		seen[string(val)] = true
		p := Bn.G1().Point()
		if p.UnmarshalBinary(append([]byte{}, val...)) != nil {
			tbl = append(tbl, hx.L(hx.B(val), hx.N))
			continue
		}
		// the logarithm of a decodable value: it is one of the values the generator built
		d := lookupLog(PtBytes(p))
		if d == nil {
			return // cannot describe this case
		}
		tbl = append(tbl, hx.L(hx.B(val), hx.Z(d)))
	}
	hs := make([]string, len(contents))
	for i, c := range contents {
		hs[i] = hx.L(hx.B(c), hx.Z(keccakModQ(c)))
	}
	mv := make([]string, len(msgs))
	for i, m := range msgs {
		if m.nilMsg {
			mv[i] = hx.N
			continue
		}
		c, sg := hx.N, hx.N
		if m.content != nil {
			c = hx.B(m.content)
		}
		if m.sig != nil {
			sg = hx.B(m.sig)
		}
		mv[i] = hx.L(c, sg)
	}
	impl := hx.Catch(func() string {
		ctx, cancel := context.WithTimeout(context.Background(), 3*time.Second)
		defer cancel()
		signc := make(chan *vss.Signature)
		out, errc := dosnode.VerifRecoverSign(ctx, signc, Bn, s.pub, s.t, s.n, doubles.NopLogger{})
		go func() {
			for range errc {
			}
		}()
		res := hx.N
		done := make(chan struct{})
		go func() {
			defer close(done)
			if v, ok := <-out; ok {
				res = hx.L(hx.B(v.Content), hx.B(v.Signature))
			}
		}()
		for _, m := range msgs {
			var sm *vss.Signature
			if !m.nilMsg {
				sm = &vss.Signature{Index: 1, RequestId: []byte{1}, Content: m.content, Signature: m.sig}
			}
			select {
			case signc <- sm:
			case <-done:
			case <-ctx.Done():
			}
		}
		close(signc)
		select {
		case <-done:
		case <-ctx.Done():
			return "H"
		}
		return res
	})
	oracle := "ok"
	if impl == hx.P || impl == "H" {
		oracle = hx.Fail("stage-panic-or-hang", "recoverSign panicked or did not finish")
	} else if impl == hx.N && mustReport {
		oracle = hx.Fail("no-report-despite-threshold", "valid shares of a threshold of distinct members on one content were delivered (among junk) and recoverSign reported nothing")
	} else if impl != hx.N {
		// whatever is reported must verify under the group key on result ++ (some 20 bytes of a content)
		okAny := false
		for _, c := range contents {
			want := g1Bytes(new(big.Int).Mod(new(big.Int).Mul(s.coeffs[0], keccakModQ(c)), BnQ))
			if len(c) >= 20 && impl == hx.L(hx.B(c[:len(c)-20]), hx.B(want)) {
				okAny = true
			}
		}
		if !okAny {
			oracle = hx.Fail("invalid-report", "recoverSign reported a (result, signature) that is not the group signature on result || address")
		}
	}
	w.Put(hx.Case{Entry: "recover", Op: 1,
		Args: hx.L(hx.Z(BnQ), hx.Zi(1), bigsVal(s.coeffs), hx.L(hs...), hx.L(tbl...), hx.Zi(s.t), hx.Zi(s.n), hx.L(mv...)),
		Impl: impl, Oracle: oracle, Tags: []string{"stage", tag, "nt"}})
}

// logs of the G1 points the generators built (canonical encoding -> logarithm)
var logTable = map[string]*big.Int{}
var logMu sync.Mutex

func rememberLog(d *big.Int) []byte {
	b := g1Bytes(d)
	logMu.Lock()
	logTable[string(b)] = d
	logMu.Unlock()
	return b
}

func lookupLog(canon []byte) *big.Int {
	logMu.Lock()
	defer logMu.Unlock()
	if bytes.Equal(canon, make([]byte, 64)) {
		return big.NewInt(0)
	}
	return logTable[string(canon)]
}

func genC01Stage(rng *hx.Rng, tier string, w *hx.Writer) {
	nCases := 60
	if tier == "thorough" {
		nCases = 1200
	}
	for it := 0; it < nCases; it++ {
		n := 3 + rng.Intn(5)
		t := n/2 + 1
		s := newSetup(rng, t, n)
		sub := rng.Bytes(20)
		c0 := append(rng.Bytes(1+rng.Intn(40)), sub...)
		c1 := append(rng.Bytes(1+rng.Intn(40)), sub...)
		if it%9 == 4 {
			c0 = rng.Bytes(rng.Intn(20)) // a content shorter than an address: reported and skipped, never a report
		}
		contents := [][]byte{c0, c1}
		share := func(i int, c []byte, coeffs []*big.Int) []byte {
			d := new(big.Int).Mod(new(big.Int).Mul(refEval(coeffs, i, BnQ), keccakModQ(c)), BnQ)
			return withIndex(i, rememberLog(d))
		}
		var msgs []stageMsg
		k := t + rng.Intn(n-t+1)
		if rng.Chance(25) {
			k = rng.Intn(t)
		}
		perm := rng.Perm(n)
		for j := 0; j < k; j++ {
			msgs = append(msgs, stageMsg{content: c0, sig: share(perm[j], c0, s.coeffs)})
		}
		nj := rng.Intn(6)
		for j := 0; j < nj; j++ {
			var m stageMsg
			i := rng.Intn(n)
			switch rng.Intn(12) {
			case 10:
				m = stageMsg{content: c1, sig: share(i, c0, s.coeffs)} // a valid share of THIS content labelled with another
			case 11:
				m = stageMsg{content: c0, sig: []byte{byte(i)}} // too short to hold coordinates
			case 0:
				m = stageMsg{nilMsg: true}
			case 1:
				m = stageMsg{content: nil, sig: share(i, c0, s.coeffs)}
			case 2:
				m = stageMsg{content: c0, sig: nil}
			case 3:
				m = stageMsg{content: c1, sig: share(i, c1, s.coeffs)} // a valid share on ANOTHER content
			case 4:
				m = stageMsg{content: c0, sig: share(i, c1, s.coeffs)} // share of another content under this content
			case 5:
				m = stageMsg{content: c0, sig: rng.Bytes(rng.Intn(3))} // no index
			case 6:
				m = stageMsg{content: c0, sig: append(share(i, c0, s.coeffs), 9)} // re-encoded
			case 7:
				m = stageMsg{content: c0, sig: share(i, c0, randCoeffs(rng, t, BnQ))} // foreign group
			case 8:
				if len(msgs) > 0 {
					m = msgs[rng.Intn(len(msgs))] // duplicate delivery
				} else {
					m = stageMsg{nilMsg: true}
				}
			default:
				b := share(i, c0, s.coeffs)
				b[2+rng.Intn(64)] ^= 1
				m = stageMsg{content: c0, sig: b}
			}
			pos := rng.Intn(len(msgs) + 1)
			msgs = append(msgs, stageMsg{})
			copy(msgs[pos+1:], msgs[pos:])
			msgs[pos] = m
		}
		tag := "enough"
		if k < t {
			tag = "below"
		}
		c01Stage(rng, w, s, contents, msgs, tag, k >= t && len(c0) >= 20)
	}
}

// ---------------------------------------------------------------- (b) n real nodes, one request

type byzKind int

const (
	byzSilent byzKind = iota
	byzDuplicate
	byzReencoded
	byzInvalid
	byzForeignRequest
	byzForeignGroup
	byzShortSig
	byzNilContent
	byzOtherContent
	byzWrongContentThenShort
	byzValidOtherType
	byzKinds
)

var byzNames = []string{"silent", "duplicate", "re-encoded", "invalid", "foreign-request", "foreign-group", "short-signature", "nil-content", "other-content", "valid-share-under-other-content-then-short-signature", "valid-share-labelled-with-another-traffic-type-arriving-late"}

type sysOutcome struct {
	reports  [][]doubles.Report
	returned []bool
	panicked bool
	// a second, undisturbed request served by the same nodes afterwards: -1 not run (fewer honest
	// members than the threshold), 0 its submitter made no report, 1 served
	second int
}

func runQuerySystem(rng *hx.Rng, n int, lastRand, reqID, seed *big.Int, pType uint32, byz map[int]byzKind,
	lateStart map[int]time.Duration, deadline time.Duration) (sysOutcome, [][]byte, []*big.Int) {
	return runQuerySystemWith(rng, n, lastRand, reqID, seed, pType, byz, lateStart, deadline, nil)
}

// extra: additional raw messages thrown at the submitter's collector by an outsider
func runQuerySystemWith(rng *hx.Rng, n int, lastRand, reqID, seed *big.Int, pType uint32, byz map[int]byzKind,
	lateStart map[int]time.Duration, deadline time.Duration, extra func(send func(*vss.Signature))) (sysOutcome, [][]byte, []*big.Int) {
	t := n/2 + 1
	coeffs := randCoeffs(rng, t, BnQ)
	if coeffs[t-1].Sign() == 0 {
		coeffs[t-1] = big.NewInt(11)
	}
	if coeffs[0].Sign() == 0 {
		coeffs[0] = big.NewInt(5) // a group secret of 0 has the identity as public key (see C06's known finding)
	}
	pub := share.NewPubPoly(Bn.G2(), nil, points(Bn.G2(), coeffs, BnQ))
	ids := c07Ids(rng, n)
	net := doubles.NewNetwork()
	out := sysOutcome{reports: make([][]doubles.Report, n), returned: make([]bool, n)}
	chains := make([]*doubles.FakeChain, n)
	nodes := make([]*dosnode.DosNode, n)
	var mu sync.Mutex
	for i := 0; i < n; i++ {
		ep := net.Add(ids[i])
		chains[i] = &doubles.FakeChain{BlockTime: 1}
		if _, isByz := byz[i]; isByz {
			continue
		}
		nodes[i] = dosnode.VerifNewNode(ep, chains[i], nil, ids[i], doubles.NopLogger{}, 21)
		go func(i int) {
			defer func() {
				if r := recover(); r != nil {
					mu.Lock()
					out.panicked = true
					hx.LastPanic = fmt.Sprint(r)
					mu.Unlock()
				}
			}()
			nodes[i].VerifQueryLoop()
		}(i)
	}
	// wait for the collector loops to subscribe
	for i := 0; i < n; i++ {
		if nodes[i] != nil {
			net.Endpoint(ids[i]).WaitSub(vss.Signature{}, time.Second)
		}
	}
	subIdx := int(new(big.Int).Mod(new(big.Int).And(lastRand, new(big.Int).SetUint64(^uint64(0))), big.NewInt(int64(n))).Int64())
	// what the honest members sign
	var content []byte
	if pType == uint32(onchain.TrafficSystemRandom) {
		pad := make([]byte, 32)
		rb := lastRand.Bytes()
		if len(rb) >= 32 {
			copy(pad, rb[len(rb)-32:])
		} else {
			copy(pad[32-len(rb):], rb)
		}
		content = append(pad, ids[subIdx]...)
	} else {
		content = append(append(append(append([]byte{}, reqID.Bytes()...), lastRand.Bytes()...), seed.Bytes()...), ids[subIdx]...)
	}
	var wg sync.WaitGroup
	for i := 0; i < n; i++ {
		if nodes[i] == nil {
			continue
		}
		wg.Add(1)
		go func(i int) {
			defer wg.Done()
			defer func() {
				if r := recover(); r != nil {
					mu.Lock()
					out.panicked = true
					hx.LastPanic = fmt.Sprint(r)
					mu.Unlock()
				}
			}()
			if d, ok := lateStart[i]; ok {
				time.Sleep(d)
			}
			sec := &share.PriShare{I: i, V: Sc(Bn.G2(), refEval(coeffs, i, BnQ), BnQ)}
			done := make(chan struct{})
			go func() {
				defer close(done)
				nodes[i].VerifHandleQuery(ids, pub, sec, "g1", new(big.Int).Set(reqID), new(big.Int).Set(lastRand), new(big.Int).Set(seed), "", "", pType)
			}()
			select {
			case <-done:
				mu.Lock()
				out.returned[i] = true
				mu.Unlock()
			case <-time.After(deadline):
			}
		}(i)
	}
	// the Byzantine members talk to the submitter directly
	send := func(from int, m *vss.Signature) {
		ch := net.Endpoint(ids[subIdx]).Sub(vss.Signature{})
		if ch == nil {
			return
		}
		select {
		case ch <- p2p.P2PMessage{Msg: ptypes.DynamicAny{Message: proto.Clone(m)}, Sender: ids[from]}:
		case <-time.After(time.Second):
		}
	}
	if extra != nil {
		extra(func(m *vss.Signature) { send(0, m) })
	}
	for b, kind := range byz {
		if b == subIdx {
			continue
		}
		sec := &share.PriShare{I: b, V: Sc(Bn.G2(), refEval(coeffs, b, BnQ), BnQ)}
		good, _ := tbls.Sign(Bn, sec, content)
		rid := reqID.Bytes()
		base := &vss.Signature{Index: pType, RequestId: rid, Content: content, Signature: good}
		switch kind {
		case byzSilent:
		case byzDuplicate:
			send(b, base)
			send(b, base)
			send(b, base)
		case byzReencoded:
			send(b, base)
			m2 := proto.Clone(base).(*vss.Signature)
			m2.Signature = append(append([]byte{}, good...), 1)
			send(b, m2)
			if nb := addP(good, 2); nb != nil {
				m3 := proto.Clone(base).(*vss.Signature)
				m3.Signature = nb
				send(b, m3)
			}
		case byzInvalid:
			m2 := proto.Clone(base).(*vss.Signature)
			m2.Signature = withIndex(b, rng.Bytes(64))
			send(b, m2)
		case byzForeignRequest:
			m2 := proto.Clone(base).(*vss.Signature)
			m2.RequestId = append([]byte{0x7f}, rid...)
			send(b, m2)
		case byzForeignGroup:
			c2 := randCoeffs(rng, t, BnQ)
			s2, _ := tbls.Sign(Bn, &share.PriShare{I: b, V: Sc(Bn.G2(), refEval(c2, b, BnQ), BnQ)}, content)
			m2 := proto.Clone(base).(*vss.Signature)
			m2.Signature = s2
			send(b, m2)
		case byzShortSig:
			m2 := proto.Clone(base).(*vss.Signature)
			m2.Signature = []byte{byte(b)}
			send(b, m2)
		case byzNilContent:
			m2 := proto.Clone(base).(*vss.Signature)
			m2.Content = nil
			send(b, m2)
		case byzOtherContent:
			oc := append([]byte("zz"), content...)
			s2, _ := tbls.Sign(Bn, sec, oc)
			m2 := proto.Clone(base).(*vss.Signature)
			m2.Content, m2.Signature = oc, s2
			send(b, m2)
		case byzValidOtherType:
			// a VALID share on the right content and request, its packet labelled with another traffic
			// type, arriving after everybody else's (it may be the one that completes the threshold)
			time.Sleep(250 * time.Millisecond)
			m2 := proto.Clone(base).(*vss.Signature)
			if pType == uint32(onchain.TrafficSystemRandom) {
				m2.Index = uint32(onchain.TrafficUserRandom)
			} else {
				m2.Index = uint32(onchain.TrafficSystemRandom)
			}
			send(b, m2)
		case byzWrongContentThenShort:
			// the member's valid share, labelled with another content; then the right content with a
			// signature too short to hold coordinates
			m2 := proto.Clone(base).(*vss.Signature)
			m2.Content = append([]byte("zz"), content...)
			send(b, m2)
			m3 := proto.Clone(base).(*vss.Signature)
			m3.Signature = []byte{byte(b)}
			send(b, m3)
		}
	}
	wg.Wait()
	for i := 0; i < n; i++ {
		out.reports[i] = chains[i].Snapshot()
	}
	// the nodes go on to serve the next request (system randomness, the same submitter when it is honest,
	// only the honest members take part, nobody interferes)
	out.second = -1
	var hon []int
	for i := 0; i < n; i++ {
		if nodes[i] != nil {
			hon = append(hon, i)
		}
	}
	if len(hon) >= t && !out.panicked {
		sub2 := hon[0]
		if nodes[subIdx] != nil {
			sub2 = subIdx // the member whose collector served the first request
		}
		lastRand2 := big.NewInt(int64(n*1000003 + sub2))
		reqID2 := new(big.Int).Add(reqID, big.NewInt(1))
		before := len(chains[sub2].Snapshot())
		var wg2 sync.WaitGroup
		for _, i := range hon {
			wg2.Add(1)
			go func(i int) {
				defer wg2.Done()
				defer func() {
					if r := recover(); r != nil {
						mu.Lock()
						out.panicked = true
						hx.LastPanic = fmt.Sprint(r)
						mu.Unlock()
					}
				}()
				sec := &share.PriShare{I: i, V: Sc(Bn.G2(), refEval(coeffs, i, BnQ), BnQ)}
				done := make(chan struct{})
				go func() {
					defer close(done)
					nodes[i].VerifHandleQuery(ids, pub, sec, "g1", new(big.Int).Set(reqID2), new(big.Int).Set(lastRand2), big.NewInt(1), "", "", uint32(onchain.TrafficSystemRandom))
				}()
				select {
				case <-done:
				case <-time.After(deadline):
				}
			}(i)
		}
		wg2.Wait()
		out.second = 0
		if len(chains[sub2].Snapshot()) == before+1 {
			out.second = 1
		}
	}
	for i := 0; i < n; i++ {
		if nodes[i] != nil {
			nodes[i].VerifCancel()
		}
	}
	return out, ids, coeffs
}

func genC01System(rng *hx.Rng, tier string, w *hx.Writer) {
	reps := 2
	if tier == "thorough" {
		reps = 12
	}
	for rep := 0; rep < reps; rep++ {
		for n := 3; n <= 7; n++ {
			if tier == "quick" && n == 6 {
				continue
			}
			t := n/2 + 1
			for variant := 0; variant < 4; variant++ {
				lastRand := c07Rand(rng)
				reqID, seed := c07Rand(rng), c07Rand(rng)
				if rng.Chance(20) {
					reqID = big.NewInt(0)
				}
				pType := uint32(onchain.TrafficSystemRandom)
				if variant%2 == 1 {
					pType = uint32(onchain.TrafficUserRandom)
				}
				subIdx := int(new(big.Int).Mod(new(big.Int).And(lastRand, new(big.Int).SetUint64(^uint64(0))), big.NewInt(int64(n))).Int64())
				byz := map[int]byzKind{}
				nb := rng.Intn(n - t + 1)
				var names []string
				for len(byz) < nb {
					b := rng.Intn(n)
					if b == subIdx {
						continue
					}
					if _, ok := byz[b]; ok {
						continue
					}
					k := byzKind(rng.Intn(int(byzKinds)))
					byz[b] = k
					names = append(names, byzNames[k])
				}
				late := map[int]time.Duration{}
				sched := "together"
				switch rng.Intn(3) {
				case 1:
					late[subIdx] = 150 * time.Millisecond // every share arrives before the submitter registers
					sched = "submitter-late"
				case 2:
					for i := 0; i < n; i++ {
						if i != subIdx && rng.Bool() {
							late[i] = time.Duration(50+rng.Intn(150)) * time.Millisecond
						}
					}
					sched = "peers-staggered"
				}
				o, ids, coeffs := runQuerySystem(rng, n, lastRand, reqID, seed, pType, byz, late, 6*time.Second)
				// ---- the judge
				oracle := "ok"
				total := 0
				for i := 0; i < n; i++ {
					total += len(o.reports[i])
					if i != subIdx && len(o.reports[i]) > 0 {
						oracle = hx.Fail("report-by-non-submitter", fmt.Sprintf("member %d reported although member %d is the submitter", i, subIdx))
					}
				}
				if o.panicked {
					oracle = hx.Fail("node-panic", "a node goroutine panicked: "+hx.LastPanic)
				} else if oracle == "ok" && len(o.reports[subIdx]) != 1 {
					oracle = hx.Fail("not-exactly-one-report", fmt.Sprintf("the submitter made %d reports (want exactly 1; %d honest members, threshold %d)", len(o.reports[subIdx]), n-len(byz), t))
				} else if oracle == "ok" {
					r := o.reports[subIdx][0]
					wantKind := "DataReturn"
					if pType == uint32(onchain.TrafficSystemRandom) {
						wantKind = "UpdateRandomness"
					}
					pk := PtBytes(Pt(Bn.G2(), coeffs[0], BnQ))[1:]
					signed := append(append([]byte{}, r.Sig.Content...), ids[subIdx]...)
					if r.Kind != wantKind {
						oracle = hx.Fail("wrong-report-call", "the report went to the wrong contract call")
					} else if len(r.Sig.Signature) != 64 {
						oracle = hx.Fail("invalid-report", "reported signature is not 64 bytes")
					} else if acc, ok := evmVerify(pk, signed, r.Sig.Signature); !ok || !acc {
						if debugOut != nil {
							fmt.Fprintf(debugOut, "FAIL n=%d sub=%d ptype=%d acc=%v ok=%v content=%x sig=%x\n lastRand=%x reqID=%x seed=%x id=%x\n", n, subIdx, pType, acc, ok, r.Sig.Content, r.Sig.Signature, lastRand, reqID, seed, ids[subIdx])
						}
						oracle = hx.Fail("invalid-report", "the reported (result, signature) fails the contract equation under the group key and the submitter's address")
					} else if pType == uint32(onchain.TrafficSystemRandom) {
						pad := make([]byte, 32)
						rb := lastRand.Bytes()
						if len(rb) >= 32 {
							copy(pad, rb[len(rb)-32:])
						} else {
							copy(pad[32-len(rb):], rb)
						}
						if !bytes.Equal(r.Sig.Content, pad) {
							oracle = hx.Fail("invalid-report", "the reported randomness input is not the 32-byte last randomness")
						}
					}
				}
				if oracle == "ok" && o.second == 0 {
					oracle = hx.Fail("next-request-not-served", fmt.Sprintf("the request was served, but the next one - handled by the same %d honest members with nobody interfering - was never reported by its submitter", n-len(byz)))
				}
				tags := []string{"system", fmt.Sprintf("n%d", n), "sched-" + sched, "nt"}
				for _, nm := range names {
					tags = append(tags, "byz-"+nm)
				}
				w.Put(hx.Case{Entry: "-", Op: 0, Args: hx.L(hx.Zi(n), hx.Zi(subIdx), hx.Z(lastRand), hx.Zi(int(pType)), hx.Zi(len(byz))),
					Impl: hx.L(hx.Zi(total)), Oracle: oracle, Tags: tags})
			}
		}
	}
}

// exactly a threshold of valid shares, one of them in a packet labelled with another traffic type and
// arriving last; everybody else silent
func genC01OtherType(rng *hx.Rng, tier string, w *hx.Writer) {
	reps := 1
	if tier == "thorough" {
		reps = 4
	}
	for rep := 0; rep < reps; rep++ {
		for n := 3; n <= 5; n++ {
			for _, pType := range []uint32{uint32(onchain.TrafficSystemRandom), uint32(onchain.TrafficUserRandom)} {
				t := n/2 + 1
				lastRand, reqID, seed := c07Rand(rng), c07Rand(rng), c07Rand(rng)
				subIdx := int(new(big.Int).Mod(new(big.Int).And(lastRand, new(big.Int).SetUint64(^uint64(0))), big.NewInt(int64(n))).Int64())
				byz := map[int]byzKind{}
				// honest: the submitter and t-2 others; one valid-but-relabelled; the rest silent
				others := []int{}
				for i := 0; i < n; i++ {
					if i != subIdx {
						others = append(others, i)
					}
				}
				byz[others[0]] = byzValidOtherType
				for k := 1 + (t - 2); k < len(others); k++ {
					byz[others[k]] = byzSilent
				}
				o, ids, coeffs := runQuerySystem(rng, n, lastRand, reqID, seed, pType, byz, nil, 6*time.Second)
				oracle := "ok"
				total := 0
				for i := range o.reports {
					total += len(o.reports[i])
				}
				wantKind := "DataReturn"
				if pType == uint32(onchain.TrafficSystemRandom) {
					wantKind = "UpdateRandomness"
				}
				switch {
				case o.panicked:
					oracle = hx.Fail("node-panic", "a node goroutine panicked: "+hx.LastPanic)
				case len(o.reports[subIdx]) != 1 || total != 1:
					oracle = hx.Fail("not-exactly-one-report", fmt.Sprintf("a threshold of valid shares reached the submitter (one of them in a packet labelled with another traffic type) and %d reports were made", total))
				default:
					r := o.reports[subIdx][0]
					pk := PtBytes(Pt(Bn.G2(), coeffs[0], BnQ))[1:]
					signed := append(append([]byte{}, r.Sig.Content...), ids[subIdx]...)
					if r.Kind != wantKind {
						oracle = hx.Fail("wrong-report-call", "the report went to "+r.Kind+" instead of "+wantKind+" (the last share's packet was labelled with another traffic type)")
					} else if acc, ok := evmVerify(pk, signed, r.Sig.Signature); !ok || !acc {
						oracle = hx.Fail("invalid-report", "the reported (result, signature) fails the contract equation")
					}
				}
				w.Put(hx.Case{Entry: "-", Op: 0, Args: hx.L(hx.Zi(n), hx.Zi(int(pType))), Impl: hx.L(hx.Zi(total)), Oracle: oracle,
					Tags: []string{"system", "relabelled-traffic-type", fmt.Sprintf("n%d", n), "nt"}})
			}
		}
	}
}

func genC01(rng *hx.Rng, tier string, w *hx.Writer) error {
	genC01Stage(rng, tier, w)
	genC01System(rng, tier, w)
	genC01OtherType(rng, tier, w)
	return nil
}

// DebugC01 replays the quick run and prints details of failing system cases.
func DebugC01(rng *hx.Rng, out interface{ Write([]byte) (int, error) }) {
	w, _ := hx.NewWriter("/tmp/vw/dbg.tsv")
	genC01Stage(rng, "quick", w)
	debugOut = out
	genC01System(rng, "quick", w)
	w.Close()
}

var debugOut interface{ Write([]byte) (int, error) }
