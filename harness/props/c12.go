package props

import (
	"context"
	"crypto/aes"
	"crypto/cipher"
	"encoding/binary"
	"fmt"
	"math/big"
	"net"
	"net/http"
	"os"
	"sort"
	"strings"
	"sync"
	"sync/atomic"
	"time"

	"github.com/DOSNetwork/core/dosnode"
	"github.com/DOSNetwork/core/p2p"
	"github.com/DOSNetwork/core/p2p/discover"
	dkg "github.com/DOSNetwork/core/share/dkg/pedersen"
	vss "github.com/DOSNetwork/core/share/vss/pedersen"
	"github.com/DOSNetwork/core/sign/bls"
	"github.com/golang/protobuf/proto"
	"github.com/golang/protobuf/ptypes"
	anypkg "github.com/golang/protobuf/ptypes/any"
	"github.com/hashicorp/serf/serf"

	"verif/harness/doubles"
	"verif/harness/hx"
)

func init() {
	Registry["C12"] = genC12
	SubRegistry["c12-dkg"] = subC12Dkg
	SubRegistry["c12-p2p"] = subC12P2P
	SubRegistry["c12-query"] = subC12Query
	SubRegistry["c12-pubs"] = subC12Pubs
	SubRegistry["c12-name"] = subC12Name
	SubRegistry["c12-selector"] = subC12Selector
	SubRegistry["c12-stage"] = subC12Stage
}

// ---------------------------------------------------------------- key generation: one member sends malformed messages

var c12DkgKinds = []string{
	"pk-index-huge", "pk-index-equal-n", "pk-nil-key", "pk-empty-binary", "pk-short-binary", "pk-binary-one-short", "pk-binary-two-short", "pk-binary-one-long", "pk-identity-key", "pk-index-of-other", "pk-echo-of-recipients-key",
	"deal-nil", "deal-index-huge", "deal-empty-fields", "deal-nonce-short", "deal-nonce-long",
	"responses-nil-entry", "response-nil-inner", "response-index-huge", "response-inner-index-huge", "responses-empty",
}

// group A = {node0, node1, attacker}; then an honest session B = {node0, node1, node3} on the same
// node0 / node1 instances must still finish.  Prints "served" or "not-served".
func subC12Dkg(kind string) string {
	net := doubles.NewNetwork()
	mk := func(name string) []byte { return []byte(fmt.Sprintf("%-20s", name)) }
	ids := [][]byte{mk("node0"), mk("node1"), mk("attacker"), mk("node3")}
	inst := map[int]dkg.PDKGInterface{}
	for _, i := range []int{0, 1, 3} {
		ep := net.Add(ids[i])
		inst[i] = dkg.VerifNewPDKG(ep, Bn, doubles.NopLogger{})
		go inst[i].Loop()
	}
	att := net.Add(ids[2])
	// what the attacker learns: the public keys the members broadcast
	var pkMu sync.Mutex
	seenKeys := map[int][]byte{}
	if ch, err := att.SubscribeMsg(50, dkg.PublicKey{}); err == nil && ch != nil {
		go func() {
			for m := range ch {
				if pk, ok := m.Msg.Message.(*dkg.PublicKey); ok && pk.Publickey != nil {
					pkMu.Lock()
					seenKeys[int(pk.Index)] = append([]byte{}, pk.Publickey.Binary...)
					pkMu.Unlock()
				}
			}
		}()
	}
	groupA := [][]byte{ids[0], ids[1], ids[2]}
	sidA := "a1"
	// honest members start session A
	var wg sync.WaitGroup
	for _, i := range []int{0, 1} {
		wg.Add(1)
		go func(i int) {
			defer wg.Done()
			ctx, cancel := context.WithTimeout(context.Background(), 2500*time.Millisecond)
			defer cancel()
			outc, errc, err := inst[i].Grouping(ctx, sidA, groupA)
			if err != nil {
				return
			}
			go func() {
				for range errc {
				}
			}()
			select {
			case <-outc:
			case <-ctx.Done():
			}
		}(i)
	}
	// the attacker's messages (it is member index 2 of group A)
	sendAll := func(m proto.Message) {
		for _, to := range []int{0, 1} {
			ctx, cancel := context.WithTimeout(context.Background(), time.Second)
			att.Request(ctx, ids[to], m)
			cancel()
		}
	}
	g2 := PtBytes(Bn.G2().Point().Base())
	goodPk := &dkg.PublicKey{SessionId: sidA, Index: 2, Publickey: &vss.PublicKey{Binary: g2}}
	var pkKinds, dealKinds, respKinds []string
	for _, k := range strings.Split(kind, "+") {
		switch {
		case strings.HasPrefix(k, "pk-"):
			pkKinds = append(pkKinds, k)
		case strings.HasPrefix(k, "deal-"):
			dealKinds = append(dealKinds, k)
		default:
			respKinds = append(respKinds, k)
		}
	}
	if len(pkKinds) == 0 {
		sendAll(goodPk)
	}
	for _, k := range pkKinds {
		switch k {
		case "pk-index-huge":
			sendAll(&dkg.PublicKey{SessionId: sidA, Index: 1 << 30, Publickey: &vss.PublicKey{Binary: g2}})
		case "pk-index-equal-n":
			sendAll(&dkg.PublicKey{SessionId: sidA, Index: 3, Publickey: &vss.PublicKey{Binary: g2}})
		case "pk-nil-key":
			sendAll(&dkg.PublicKey{SessionId: sidA, Index: 2})
		case "pk-empty-binary":
			sendAll(&dkg.PublicKey{SessionId: sidA, Index: 2, Publickey: &vss.PublicKey{}})
		case "pk-short-binary":
			sendAll(&dkg.PublicKey{SessionId: sidA, Index: 2, Publickey: &vss.PublicKey{Binary: g2[:40]}})
		case "pk-binary-one-short":
			sendAll(&dkg.PublicKey{SessionId: sidA, Index: 2, Publickey: &vss.PublicKey{Binary: g2[:len(g2)-1]}})
		case "pk-binary-two-short":
			sendAll(&dkg.PublicKey{SessionId: sidA, Index: 2, Publickey: &vss.PublicKey{Binary: g2[:len(g2)-2]}})
		case "pk-binary-one-long":
			sendAll(&dkg.PublicKey{SessionId: sidA, Index: 2, Publickey: &vss.PublicKey{Binary: append(append([]byte{}, g2...), 7)}})
		case "pk-identity-key":
			sendAll(&dkg.PublicKey{SessionId: sidA, Index: 2, Publickey: &vss.PublicKey{Binary: []byte{0}}})
		case "pk-index-of-other":
			sendAll(&dkg.PublicKey{SessionId: sidA, Index: 0, Publickey: &vss.PublicKey{Binary: g2}})
		case "pk-echo-of-recipients-key":
			// the attacker (a group member) receives every member's broadcast key and sends each member
			// ITS OWN key back under the attacker's index
			for _, to := range []int{0, 1} {
				var own []byte
				for tries := 0; tries < 200 && own == nil; tries++ {
					pkMu.Lock()
					own = seenKeys[to]
					pkMu.Unlock()
					if own == nil {
						time.Sleep(5 * time.Millisecond)
					}
				}
				if own == nil {
					own = g2
				}
				ctx, cancel := context.WithTimeout(context.Background(), time.Second)
				att.Request(ctx, ids[to], &dkg.PublicKey{SessionId: sidA, Index: 2, Publickey: &vss.PublicKey{Binary: own}})
				cancel()
			}
		}
	}
	if len(dealKinds)+len(respKinds) > 0 {
		time.Sleep(150 * time.Millisecond)
		if len(dealKinds) == 0 {
			sendAll(&dkg.Deal{SessionId: sidA, Index: 2, Deal: &vss.EncryptedDeal{DHKey: g2, Signature: make([]byte, 64), Nonce: make([]byte, 12), Cipher: make([]byte, 40)}})
		}
		for _, k := range dealKinds {
			switch k {
			case "deal-nil":
				sendAll(&dkg.Deal{SessionId: sidA, Index: 2})
			case "deal-index-huge":
				sendAll(&dkg.Deal{SessionId: sidA, Index: 1 << 30, Deal: &vss.EncryptedDeal{}})
			case "deal-empty-fields":
				sendAll(&dkg.Deal{SessionId: sidA, Index: 2, Deal: &vss.EncryptedDeal{}})
			case "deal-nonce-short":
				sendAll(&dkg.Deal{SessionId: sidA, Index: 2, Deal: &vss.EncryptedDeal{DHKey: g2, Signature: make([]byte, 64), Nonce: []byte{1}, Cipher: make([]byte, 40)}})
			case "deal-nonce-long":
				sendAll(&dkg.Deal{SessionId: sidA, Index: 2, Deal: &vss.EncryptedDeal{DHKey: g2, Signature: make([]byte, 64), Nonce: make([]byte, 40), Cipher: make([]byte, 40)}})
			}
		}
	}
	if len(respKinds) > 0 {
		time.Sleep(150 * time.Millisecond)
		r := func(idx uint32, inner *vss.Response) *dkg.Response {
			return &dkg.Response{SessionId: sidA, Index: idx, Response: inner}
		}
		ok := &vss.Response{SessionID: make([]byte, 32), Index: 2, Status: true, Signature: make([]byte, 64)}
		for _, k := range respKinds {
			switch k {
			case "responses-nil-entry":
				sendAll(&dkg.Responses{SessionId: sidA, Response: []*dkg.Response{nil, r(0, ok)}})
			case "response-nil-inner":
				sendAll(&dkg.Responses{SessionId: sidA, Response: []*dkg.Response{r(0, nil), r(1, nil)}})
			case "response-index-huge":
				sendAll(&dkg.Responses{SessionId: sidA, Response: []*dkg.Response{r(1<<30, ok), r(1, ok)}})
			case "response-inner-index-huge":
				big := &vss.Response{SessionID: make([]byte, 32), Index: 1 << 30, Status: true, Signature: make([]byte, 64)}
				sendAll(&dkg.Responses{SessionId: sidA, Response: []*dkg.Response{r(0, big), r(1, big)}})
			case "responses-empty":
				sendAll(&dkg.Responses{SessionId: sidA})
			}
		}
	}
	wg.Wait()
	// session B, all honest, on the same instances of node0 and node1
	groupB := [][]byte{ids[0], ids[1], ids[3]}
	finished := 0
	var mu sync.Mutex
	var wg2 sync.WaitGroup
	for _, i := range []int{0, 1, 3} {
		wg2.Add(1)
		go func(i int) {
			defer wg2.Done()
			ctx, cancel := context.WithTimeout(context.Background(), 4*time.Second)
			defer cancel()
			outc, errc, err := inst[i].Grouping(ctx, "b2", groupB)
			if err != nil {
				return
			}
			go func() {
				for range errc {
				}
			}()
			select {
			case _, ok := <-outc:
				if ok {
					mu.Lock()
					finished++
					mu.Unlock()
				}
			case <-ctx.Done():
			}
		}(i)
	}
	wg2.Wait()
	if finished == 3 {
		return "served"
	}
	return fmt.Sprintf("not-served:%d", finished)
}

// ---------------------------------------------------------------- p2p: a raw peer that speaks the transport protocol

type staticMembers struct {
	addrs map[string]string
}

func (s *staticMembers) Join([]string) (int, error)                           { return 0, nil }
func (s *staticMembers) Leave()                                               {}
func (s *staticMembers) Listen(ctx context.Context, o chan discover.P2PEvent) { <-ctx.Done() }
func (s *staticMembers) Lookup(id []byte) string                              { return s.addrs[string(id)] }
func (s *staticMembers) NumOfPeers() int                                      { return len(s.addrs) }
func (s *staticMembers) IsAlive() bool                                        { return true }
func (s *staticMembers) MembersIP() []net.IP                                  { return nil }
func (s *staticMembers) MembersID() [][]byte {
	var l [][]byte
	for k := range s.addrs {
		l = append(l, []byte(k))
	}
	return l
}

// Ports for servers that bind by number (the p2p server takes a port string): taken from a range
// below the kernel's ephemeral ports, a block per process, so that neither another process's
// outgoing connection / ":0" listener nor another scenario process of this harness can take the
// port between the probe and the server's own bind.
var portNext int32

func freePort() string {
	base := 10000 + (os.Getpid()%500)*40
	for k := 0; k < 4000; k++ {
		p := base + int(atomic.AddInt32(&portNext, 1)-1)%40
		if k >= 40 { // the block is used up or taken: walk on through the range
			p = 10000 + (base-10000+k)%20000
		}
		l, err := net.Listen("tcp", fmt.Sprintf("127.0.0.1:%d", p))
		if err != nil {
			continue
		}
		l.Close()
		// the p2p server binds the wildcard address
		l, err = net.Listen("tcp", fmt.Sprintf(":%d", p))
		if err != nil {
			continue
		}
		l.Close()
		return fmt.Sprintf("%d", p)
	}
	rigFail("no free port")
	return ""
}

// rigFail: the scenario could not be set up (nothing was learnt about the code); the parent runs it again
func rigFail(msg string) {
	fmt.Fprintln(os.Stderr, "RIG-FAILURE: "+msg)
	os.Exit(97)
}

func startServer(id string, port string, mem discover.Membership) p2p.P2PInterface {
	for attempt := 0; attempt < 20; attempt++ {
		s := p2p.VerifNewServer([]byte(id), net.IPv4(127, 0, 0, 1), port, mem, doubles.NopLogger{})
		errc := make(chan error, 1)
		go func() { errc <- s.Listen() }()
		for i := 0; i < 200; i++ {
			select {
			case <-errc:
				// Listen came back at once: the port could not be bound (somebody holds it for a moment)
				i = 1000
				continue
			default:
			}
			c, err := net.DialTimeout("tcp", "127.0.0.1:"+port, 50*time.Millisecond)
			if err == nil {
				c.Close()
				// it is OUR server that answers only if Listen is still running
				select {
				case <-errc:
					i = 1000
					continue
				case <-time.After(2 * time.Millisecond):
				}
				return s
			}
			time.Sleep(5 * time.Millisecond)
		}
		time.Sleep(50 * time.Millisecond)
	}
	rigFail("the p2p server could not bind port " + port)
	return nil
}

func writeFrame(c net.Conn, b []byte) error {
	h := make([]byte, 4)
	binary.BigEndian.PutUint32(h, uint32(len(b)))
	_, err := c.Write(append(h, b...))
	return err
}

func readFrame(c net.Conn) ([]byte, error) {
	h := make([]byte, 4)
	if _, err := ioReadFull(c, h); err != nil {
		return nil, err
	}
	b := make([]byte, binary.BigEndian.Uint32(h))
	_, err := ioReadFull(c, b)
	return b, err
}

func ioReadFull(c net.Conn, b []byte) (int, error) {
	n := 0
	for n < len(b) {
		k, err := c.Read(b[n:])
		n += k
		if err != nil {
			return n, err
		}
	}
	return n, nil
}

var c12P2PKinds = []string{"hs-valid", "hs-no-key", "hs-identity-key", "hs-short-key", "hs-garbage", "hs-empty-frame-size", "hs-not-an-id",
	"frame-anything-absent", "frame-empty-package", "frame-random-plaintext", "frame-unknown-type", "frame-bad-signature", "frame-random-ciphertext"}

// an attacker connects to server "a", misbehaves; afterwards honest server "b" must still get a reply from "a"
func subC12P2P(kind string) string {
	pa, pb := freePort(), freePort()
	mem := &staticMembers{addrs: map[string]string{"a": "127.0.0.1:" + pa, "b": "127.0.0.1:" + pb}}
	a := startServer("a", pa, mem)
	b := startServer("b", pb, mem)
	// "a" answers every Signature request by echoing it
	go func() {
		ch, _ := a.SubscribeMsg(10, vss.Signature{})
		for m := range ch {
			if s, ok := m.Msg.Message.(*vss.Signature); ok {
				go a.Reply(context.Background(), m.Sender, m.RequestNonce, s)
			}
		}
	}()
	time.Sleep(20 * time.Millisecond)
	conn, err := net.Dial("tcp", "127.0.0.1:"+pa)
	if err != nil {
		return "dial-failed"
	}
	sec := Bn.G2().Scalar().Pick(Bn.RandomStream())
	pub := Bn.G2().Point().Mul(sec, nil)
	idFrame := func(key []byte, id []byte) []byte {
		bts, _ := p2p.VerifEncodeProto(&p2p.ID{PublicKey: key, Id: id}, id, nil, 0, false)
		return bts
	}
	srvFrame, _ := readFrame(conn) // the server's ID (it sends first, concurrently)
	hsOK := false
	switch kind {
	case "hs-no-key":
		writeFrame(conn, idFrame(nil, []byte("evil")))
	case "hs-identity-key":
		writeFrame(conn, idFrame([]byte{0}, []byte("evil")))
	case "hs-short-key":
		writeFrame(conn, idFrame(PtBytes(pub)[:50], []byte("evil")))
	case "hs-key-one-short":
		writeFrame(conn, idFrame(PtBytes(pub)[:len(PtBytes(pub))-1], []byte("evil")))
	case "hs-key-two-short":
		writeFrame(conn, idFrame(PtBytes(pub)[:len(PtBytes(pub))-2], []byte("evil")))
	case "hs-garbage":
		writeFrame(conn, []byte{0xff, 0xff, 0xff, 0x01, 0x02})
	case "hs-empty-frame-size":
		conn.Write([]byte{0, 0, 0, 0})
	case "hs-not-an-id":
		bts, _ := p2p.VerifEncodeProto(&vss.Signature{Index: 1}, []byte("evil"), nil, 0, false)
		writeFrame(conn, bts)
	default:
		writeFrame(conn, idFrame(PtBytes(pub), []byte("evil")))
		hsOK = true
	}
	accepted := "rejected"
	if hsOK || strings.HasPrefix(kind, "hs-") {
		// derive the session key like the code does and send one crafted frame
		_, _, _, m, err := p2p.VerifDecodeBytes(srvFrame, nil)
		if err == nil {
			if sid, ok := m.(*p2p.ID); ok {
				sp := Bn.G2().Point()
				if sp.UnmarshalBinary(sid.GetPublicKey()) == nil {
					dh := PtBytes(Bn.G2().Point().Mul(sec, sp))
					block, _ := aes.NewCipher(dh[0:32])
					gcm, _ := cipher.NewGCM(block)
					seal := func(pt []byte) []byte { return gcm.Seal(nil, dh[32:44], pt, nil) }
					var plain []byte
					if strings.HasPrefix(kind, "hs-") {
						// a well-formed signed request: is the connection usable after this handshake?
						an, _ := ptypes.MarshalAny(&vss.Signature{Index: 9, RequestId: []byte("probe")})
						sg, _ := bls.Sign(Bn, sec, an.Value)
						plain, _ = proto.Marshal(&p2p.Package{Anything: an, Sender: []byte("evil"), Signature: sg, RequestNonce: 77})
						writeFrame(conn, seal(plain))
						conn.SetReadDeadline(time.Now().Add(1500 * time.Millisecond))
						if fr, err := readFrame(conn); err == nil {
							if pt, err := gcm.Open(nil, dh[32:44], fr, nil); err == nil {
								pk := &p2p.Package{}
								if proto.Unmarshal(pt, pk) == nil && pk.GetRequestNonce() == 77 {
									accepted = "accepted"
								}
							}
						}
					}
					switch kind {
					case "frame-anything-absent":
						plain, _ = proto.Marshal(&p2p.Package{Sender: []byte("evil"), Signature: make([]byte, 64), RequestNonce: 7})
					case "frame-empty-package":
						plain = []byte{}
					case "frame-random-plaintext":
						plain = hx.NewRng(5).Bytes(200)
					case "frame-unknown-type":
						plain, _ = proto.Marshal(&p2p.Package{Anything: &anyT{TypeUrl: "type.googleapis.com/nosuch.Type", Value: []byte{1, 2}}, Sender: []byte("evil"), Signature: make([]byte, 64)})
					case "frame-bad-signature":
						an, _ := ptypes.MarshalAny(&vss.Signature{Index: 3})
						plain, _ = proto.Marshal(&p2p.Package{Anything: an, Sender: []byte("evil"), Signature: make([]byte, 64)})
					}
					time.Sleep(30 * time.Millisecond)
					if kind == "frame-random-ciphertext" {
						writeFrame(conn, hx.NewRng(9).Bytes(120))
					} else if !strings.HasPrefix(kind, "hs-") {
						writeFrame(conn, seal(plain))
					}
				}
			}
		}
	}
	time.Sleep(150 * time.Millisecond)
	conn.Close()
	// does "a" still serve "b"?
	ctx, cancel := context.WithTimeout(context.Background(), 3*time.Second)
	defer cancel()
	r, err := b.Request(ctx, []byte("a"), &vss.Signature{Index: 42, RequestId: []byte("tag")})
	if err != nil {
		return "not-served:" + strings.ReplaceAll(err.Error(), "\n", " ")
	}
	if s, ok := r.Msg.Message.(*vss.Signature); !ok || s.Index != 42 {
		return "not-served:wrong-reply"
	}
	if strings.HasPrefix(kind, "hs-") {
		return "served/" + accepted
	}
	return "served"
}

// ---------------------------------------------------------------- the share collector and the recovery stage

var c12QueryKinds = []string{"sig-all-nil", "sig-empty-request-id", "sig-nil-content", "sig-nil-signature", "sig-one-byte", "sig-long-request-id", "sig-huge-content", "valid-share-mislabelled-then-short-signature", "shares-before-registration"}

func subC12Query(kind string) string {
	rng := hx.NewRng(11)
	n := 3
	lastRand := big.NewInt(5) // submitter = index 2
	byz := map[int]byzKind{}
	var late map[int]time.Duration
	if kind == "shares-before-registration" {
		// the submitter handles the event after both peers' shares have arrived: more shares are
		// waiting for the request than its recovery will take
		late = map[int]time.Duration{2: 300 * time.Millisecond}
	}
	if kind == "valid-share-mislabelled-then-short-signature" {
		// member 0 misbehaves; member 1's own share arrives later
		byz[0] = byzWrongContentThenShort
		late = map[int]time.Duration{1: 400 * time.Millisecond}
	}
	// run an honest request first with crafted messages thrown at the submitter's collector, then a second one
	o, _, _ := runQuerySystemWith(rng, n, lastRand, big.NewInt(9), big.NewInt(1), 0, byz, late, 4*time.Second, func(send func(*vss.Signature)) {
		switch kind {
		case "sig-all-nil":
			send(&vss.Signature{})
		case "sig-empty-request-id":
			send(&vss.Signature{Content: []byte{1}, Signature: []byte{0, 1, 2}})
		case "sig-nil-content":
			send(&vss.Signature{RequestId: big.NewInt(9).Bytes(), Signature: make([]byte, 66)})
		case "sig-nil-signature":
			send(&vss.Signature{RequestId: big.NewInt(9).Bytes(), Content: make([]byte, 52)})
		case "sig-one-byte":
			send(&vss.Signature{RequestId: big.NewInt(9).Bytes(), Content: make([]byte, 52), Signature: []byte{1}})
		case "sig-long-request-id":
			send(&vss.Signature{RequestId: make([]byte, 5000), Content: make([]byte, 52), Signature: make([]byte, 66)})
		case "sig-huge-content":
			send(&vss.Signature{RequestId: big.NewInt(9).Bytes(), Content: make([]byte, 1<<20), Signature: make([]byte, 66)})
		}
	})
	if o.panicked {
		return "panicked"
	}
	if len(o.reports[2]) == 1 && o.second != 0 {
		return "served"
	}
	if len(o.reports[2]) == 1 {
		return "next-request-not-served"
	}
	return fmt.Sprintf("not-served:%d", len(o.reports[2]))
}

// ---------------------------------------------------------------- selectors that could take the process down

var c12Selectors = map[string]string{
	"function-deep-recursion": "$.a[(factorial(1e10))]",
	"filter-function":         "$.a[?(factorial(200000) > 1)]",
	"deep-brackets":           "$" + strings.Repeat("[0]", 20000),
	"recursive-descent":       "$" + strings.Repeat("..a", 3000),
	"xpath-deep":              "/" + strings.Repeat("a/", 20000) + "b",
	"xpath-predicates":        "//item" + strings.Repeat("[1]", 5000),
	// an ancestor step behind a descendant step: the library's ancestor query moves the navigator of
	// the query that feeds it, which then starts over (found while calibrating the XPath generator)
	"xpath-descendant-ancestor": "//a//ancestor::item",
}

func subC12Selector(kind string) string {
	doc := []byte(`{"a":[1,2,3],"b":{"a":{"a":1}}}`)
	if strings.HasPrefix(kind, "xpath") {
		doc = []byte("<root><item><a><b>1</b></a></item></root>")
	}
	res := make(chan string, 1)
	go func() {
		_, err := dosnode.VerifDataParse(doc, c12Selectors[kind])
		if err != nil {
			res <- "served"
			return
		}
		res <- "served"
	}()
	select {
	case r := <-res:
		return r
	case <-time.After(15 * time.Second):
		return "not-served: the extractor did not return within 15 s"
	}
}

// ---------------------------------------------------------------- XPath selectors from an expression grammar
//
// The selector of a request is an arbitrary XPath 1.0 expression chosen by whoever makes the request,
// and the document is whatever the URL returns.  Whether a selector is accepted by the library's
// compiler says nothing about what its evaluation does: operands of the wrong type (a predicate that
// is a negative number, arithmetic on a string, a boolean compared with a number, a number where a
// function takes a string) and comparisons of a node set with a number whose outcome depends on the
// text of the fetched document are only met while the query runs over the document.  xpGen draws
// selectors from the expression grammar (location paths with axes, node tests and predicates;
// predicates built from the number / string / boolean / node-set functions and operators) where an
// operand is, with probability ill percent, of a type other than the one the operator asks for.

type xpGen struct {
	rng *hx.Rng
	ill int
}

func (g *xpGen) pick(xs ...string) string { return xs[g.rng.Intn(len(xs))] }

// operand of type want: 'n' number, 's' string, 'b' boolean, 'N' node set, '?' any
func (g *xpGen) operand(want byte, d int) string {
	if want == '?' || g.rng.Chance(g.ill) {
		want = "nsbN"[g.rng.Intn(4)]
	}
	switch want {
	case 'n':
		return g.num(d)
	case 's':
		return g.str(d)
	case 'b':
		return g.boolean(d)
	}
	return g.relPath(d)
}

func (g *xpGen) num(d int) string {
	k := g.rng.Intn(9)
	if d <= 0 {
		k = g.rng.Intn(2)
	}
	switch k {
	case 0:
		return g.pick("0", "1", "2", "3", "-1", "-2", "1.5", "1.2", "100", "0.5")
	case 1:
		return g.pick("position()", "last()")
	case 2:
		return "count(" + g.operand('N', d-1) + ")"
	case 3:
		return "sum(" + g.operand('N', d-1) + ")"
	case 4:
		return "string-length(" + g.operand('s', d-1) + ")"
	case 5:
		return "number(" + g.operand('?', d-1) + ")"
	case 6:
		return g.pick("floor", "ceiling", "round") + "(" + g.operand('n', d-1) + ")"
	}
	e := g.operand('n', d-1) + " " + g.pick("+", "-", "*", "div", "mod") + " " + g.operand('n', d-1)
	if g.rng.Bool() {
		return "(" + e + ")"
	}
	return e
}

func (g *xpGen) str(d int) string {
	k := g.rng.Intn(9)
	if d <= 0 {
		k = g.rng.Intn(2)
	}
	switch k {
	case 0:
		return g.pick("'USD'", "'EUR'", "'n/a'", "''", "'12'", "'v1'", "'x'", "\"a b\"")
	case 1:
		return g.pick("name()", "local-name()", "string()", "string(.)")
	case 2:
		return "string(" + g.operand('?', d-1) + ")"
	case 3:
		return "concat(" + g.operand('s', d-1) + ", " + g.operand('s', d-1) + ")"
	case 4:
		if g.rng.Bool() {
			return "substring(" + g.operand('s', d-1) + ", " + g.operand('n', d-1) + ")"
		}
		return "substring(" + g.operand('s', d-1) + ", " + g.operand('n', d-1) + ", " + g.operand('n', d-1) + ")"
	case 5:
		return "normalize-space(" + g.operand('s', d-1) + ")"
	case 6:
		return "translate(" + g.operand('s', d-1) + ", " + g.operand('s', d-1) + ", " + g.operand('s', d-1) + ")"
	case 7:
		return g.pick("substring-before", "substring-after") + "(" + g.operand('s', d-1) + ", " + g.operand('s', d-1) + ")"
	}
	return "name(" + g.operand('N', d-1) + ")"
}

func (g *xpGen) boolean(d int) string {
	k := g.rng.Intn(9)
	if d <= 0 {
		k = g.rng.Intn(2)
	}
	switch k {
	case 0:
		return g.pick("true()", "false()")
	case 1:
		return g.pick("@id", "@cur", "name", "price", "text()") // existence tests
	case 2:
		return "not(" + g.operand('b', d-1) + ")"
	case 3:
		return "boolean(" + g.operand('?', d-1) + ")"
	case 4:
		return g.pick("contains", "starts-with", "ends-with") + "(" + g.operand('s', d-1) + ", " + g.operand('s', d-1) + ")"
	case 5:
		e := g.operand('b', d-1) + " " + g.pick("and", "or") + " " + g.operand('b', d-1)
		if g.rng.Bool() {
			return "(" + e + ")"
		}
		return e
	}
	// a comparison takes operands of every type (XPath 1.0, 3.4): node set against number, string,
	// boolean or node set included
	return g.operand('?', d-1) + " " + g.pick("=", "!=", "<", "<=", ">", ">=") + " " + g.operand('?', d-1)
}

func (g *xpGen) step(d int) string {
	var s string
	switch g.rng.Intn(12) {
	case 0:
		s = "*"
	case 1:
		return g.pick(".", "..")
	case 2:
		s = g.pick("@id", "@cur", "@*")
	case 3:
		s = g.pick("text()", "node()")
	case 4:
		// (the ancestor and ancestor-or-self axes are left out: behind a descendant step - //x//ancestor::y -
		// the library's ancestor query moves the cursor of the query that feeds it and never ends, in the
		// pinned code as well; that is a different defect from the one this generator is after and it
		// would turn every run into a series of 10 s time-outs)
		s = g.pick("child", "descendant", "descendant-or-self", "parent", "following-sibling", "preceding-sibling", "following", "preceding", "self", "attribute") +
			"::" + g.pick("*", "item", "rate", "name", "price", "node()")
	default:
		s = g.pick("item", "rate", "name", "price", "a", "b")
	}
	for d > 0 && g.rng.Chance(35) {
		s += "[" + g.operand('?', d-1) + "]"
		d--
	}
	return s
}

func (g *xpGen) relPath(d int) string {
	s := g.step(d)
	for n := 0; n < 2 && g.rng.Chance(30); n++ {
		s += g.pick("/", "//") + g.step(d-1)
	}
	if g.rng.Chance(10) {
		s = g.pick("/", "//") + s
	}
	return s
}

// selector is an absolute location path (what dataParse hands to the XML branch) whose last steps
// carry at least one predicate
func (g *xpGen) selector(d int) string {
	s := g.pick("/", "//") + g.pick("root", "rates", "*") + g.pick("/", "//") + g.pick("item", "rate", "*", "price", "name")
	s += "[" + g.operand('?', d) + "]"
	for g.rng.Chance(25) {
		s += "[" + g.operand('?', d-1) + "]"
	}
	if g.rng.Chance(30) {
		s += g.pick("/", "//") + g.step(d-1)
	}
	return s
}

// xpDoc is a document of records whose text is numeric throughout (numeric) or has the values feeds
// put where a number is missing; returns the document and its class
func xpDoc(rng *hx.Rng) ([]byte, string) {
	numeric := rng.Bool()
	leaf := func() string {
		if !numeric && rng.Chance(40) {
			return []string{"n/a", "", "-", "v12", "1,5", "NaN", "null", "1e", " ", "0x10", "USD"}[rng.Intn(11)]
		}
		switch rng.Intn(4) {
		case 0:
			return fmt.Sprintf("%d", rng.Intn(1000))
		case 1:
			return fmt.Sprintf("%d.%d", rng.Intn(100), rng.Intn(100))
		case 2:
			return fmt.Sprintf("-%d", rng.Intn(10))
		}
		return fmt.Sprintf(" %d ", rng.Intn(10))
	}
	root := []string{"root", "rates"}[rng.Intn(2)]
	var sb strings.Builder
	sb.WriteString("<" + root + ">")
	for i, n := 0, rng.Intn(5); i < n; i++ {
		t := []string{"item", "rate"}[rng.Intn(2)]
		attr := ""
		if rng.Chance(60) {
			attr += fmt.Sprintf(" cur=\"%s\"", []string{"USD", "EUR", "", "12"}[rng.Intn(4)])
		}
		if rng.Chance(40) {
			attr += fmt.Sprintf(" id=\"%s\"", leaf())
		}
		sb.WriteString("<" + t + attr + ">")
		if rng.Chance(40) {
			sb.WriteString(leaf())
		} else {
			for j, m := 0, rng.Intn(4); j < m; j++ {
				c := []string{"name", "price", "a", "b"}[rng.Intn(4)]
				sb.WriteString("<" + c + ">" + leaf() + "</" + c + ">")
			}
		}
		sb.WriteString("</" + t + ">")
	}
	sb.WriteString("</" + root + ">")
	if numeric {
		return []byte(sb.String()), "numeric"
	}
	return []byte(sb.String()), "mixed"
}

// ---------------------------------------------------------------- the real result stage on a fetched document
//
// One node, requests one after the other: the real genQueryResult stage (fetch over loopback HTTP,
// extract, append the submitter) runs in its own goroutine as in handleQuery - nothing of the harness
// is on its stack.  The request under test may end with a result or with an error; the plain request
// that follows must be served.  Prints "served".

var c12StageKinds = map[string]struct{ doc, sel string }{
	"predicate-negative-number":       {"<rates><rate cur=\"USD\">1.2</rate><rate cur=\"EUR\">1.0</rate></rates>", "/rates/rate[-1]"},
	"predicate-number-plus-string":    {"<rates><rate cur=\"USD\">1.2</rate></rates>", "/rates/rate[1 + 'x']"},
	"predicate-boolean-less-number":   {"<rates><rate cur=\"USD\">1.2</rate></rates>", "/rates/rate[true() < 2]"},
	"predicate-function-of-numbers":   {"<rates><rate cur=\"USD\">1.2</rate></rates>", "/rates/rate[starts-with(1, 2)]"},
	"predicate-count-of-string":       {"<rates><rate cur=\"USD\">1.2</rate></rates>", "/rates/rate[count('x') = 1]"},
	"node-set-equals-number":          {"<rates><rate cur=\"USD\">1.2</rate><rate cur=\"EUR\">n/a</rate></rates>", "/rates/rate[@cur='USD' or . = 1.2]"},
	"node-set-less-number":            {"<root><item><price>12</price></item><item><price></price></item></root>", "//item[price < 20]"},
	"does-not-compile":                {"<rates><rate>1</rate></rates>", "/rates/rate["},
	"not-a-node-set":                  {"<rates><rate>1</rate></rates>", "/rates/rate/count(.)"},
	"document-becomes-non-numeric":    {"<rates><rate cur=\"USD\">1.2</rate><rate cur=\"EUR\">1.0</rate></rates>", "/rates/rate[. = 1.2]"},
	"well-typed-selector-for-control": {"<rates><rate cur=\"USD\">1.2</rate></rates>", "/rates/rate[@cur='USD']"},
}

func subC12Stage(kind string) string {
	k, ok := c12StageKinds[kind]
	if !ok {
		return "no such kind"
	}
	var mu sync.Mutex
	docs := map[string][]byte{"/feed": []byte(k.doc), "/plain": []byte("<root><item>7</item></root>")}
	ln, err := net.Listen("tcp", "127.0.0.1:0")
	if err != nil {
		fmt.Fprintln(os.Stderr, "listen:", err)
		os.Exit(97)
	}
	srv := &http.Server{Handler: http.HandlerFunc(func(rw http.ResponseWriter, rq *http.Request) {
		mu.Lock()
		d := docs[rq.URL.Path]
		mu.Unlock()
		rw.Write(d)
	})}
	go srv.Serve(ln)
	defer srv.Close()
	base := "http://" + ln.Addr().String()
	// one request through the stage: "result", "error" or "silent" (neither within 10 s)
	request := func(path, sel string) string {
		ctx, cancel := context.WithTimeout(context.Background(), 10*time.Second)
		defer cancel()
		sc := make(chan []byte, 1)
		sc <- []byte("submitter-0123456789")
		out, errc := dosnode.VerifGenQueryResult(ctx, sc, base+path, sel, doubles.NopLogger{})
		for out != nil || errc != nil {
			select {
			case v, ok := <-out:
				if ok && v != nil {
					return "result"
				}
				if !ok {
					out = nil
				}
			case e, ok := <-errc:
				if ok && e != nil {
					return "error"
				}
				if !ok {
					errc = nil
				}
			case <-ctx.Done():
				return "silent"
			}
		}
		return "closed"
	}
	var trace []string
	if kind == "document-becomes-non-numeric" {
		// the URL used to serve numbers: the request is answered; then the feed changes
		if r := request("/feed", k.sel); r != "result" {
			return "not-served: the request on the numeric document ended with " + r
		}
		mu.Lock()
		docs["/feed"] = []byte("<rates><rate cur=\"USD\">n/a</rate><rate cur=\"EUR\">1.0</rate></rates>")
		mu.Unlock()
	}
	r := request("/feed", k.sel)
	trace = append(trace, r)
	if r == "silent" {
		return "not-served: the request under test ended with neither a result nor an error"
	}
	if kind == "well-typed-selector-for-control" && r != "result" {
		return "not-served: the well-typed request ended with " + r
	}
	if r2 := request("/plain", "/root/item"); r2 != "result" {
		return "not-served: the request after it ended with " + r2 + " (" + strings.Join(trace, ",") + ")"
	}
	return "served"
}

// ---------------------------------------------------------------- correspondence scenarios

// arg: "n,own|present,idx,kind,k|..." -- kind 0 = no key sub-message, 1 = key k*G2, 2 = undecodable bytes
func subC12Pubs(arg string) string {
	parts := strings.Split(arg, "|")
	var n, own int
	fmt.Sscanf(parts[0], "%d,%d", &n, &own)
	base := Bn.G2().Point().Base()
	var pubs []*dkg.PublicKey
	for _, p := range parts[1:] {
		var present, idx, kind, k int
		fmt.Sscanf(p, "%d,%d,%d,%d", &present, &idx, &kind, &k)
		if present == 0 {
			pubs = append(pubs, nil)
			continue
		}
		m := &dkg.PublicKey{SessionId: "s", Index: uint32(idx)}
		switch kind {
		case 1:
			m.Publickey = &vss.PublicKey{Binary: PtBytes(Bn.G2().Point().Mul(Sc(Bn.G2(), big.NewInt(int64(k)), BnQ), base))}
		case 2: // a truncated encoding of a valid key: the first k bytes
			full := PtBytes(Bn.G2().Point().Mul(Sc(Bn.G2(), big.NewInt(5), BnQ), base))
			m.Publickey = &vss.PublicKey{Binary: full[:k%len(full)]}
		}
		pubs = append(pubs, m)
	}
	ctx, cancel := context.WithTimeout(context.Background(), 5*time.Second)
	defer cancel()
	ok, _ := dkg.VerifGenDistKeyGenerator(ctx, doubles.NopLogger{}, Bn, Sc(Bn.G2(), big.NewInt(int64(own)), BnQ), pubs, n, "s")
	if ok {
		return "z1"
	}
	return "E"
}

func subC12Name(arg string) string {
	ch := make(chan serf.Event, 8)
	m := discover.VerifNewSerfNetFromChan(ch)
	out := make(chan discover.P2PEvent, 8)
	ctx, cancel := context.WithCancel(context.Background())
	defer cancel()
	go m.Listen(ctx, out)
	var name []byte
	fmt.Sscanf(arg, "%x", &name)
	marker := strings.Repeat("\x01", 20)
	ch <- serf.MemberEvent{Type: serf.EventMemberJoin, Members: []serf.Member{{Name: string(name), Addr: net.IPv4(10, 0, 0, 1)}}}
	ch <- serf.MemberEvent{Type: serf.EventMemberJoin, Members: []serf.Member{{Name: marker + "9999", Addr: net.IPv4(10, 0, 0, 2)}}}
	deadline := time.After(2 * time.Second)
	res := "N"
	for {
		select {
		case e := <-out:
			if e.NodeID == marker {
				return res
			}
			res = hx.B([]byte(e.NodeID))
		case <-deadline:
			return "H"
		}
	}
}

type c12job struct {
	c       hx.Case
	sub     string
	arg     string
	timeout time.Duration
	group   string
	// finish turns the child's stdout into (impl, served)
	finish func(out string) (impl string, served bool)
	// retry: how often a scenario that finished without being served is run again before it is
	// reported (only for scenarios whose verdict depends on wall-clock bounds on a loaded machine)
	retry int
	// explain words a failure: class is "P" (child died), "H" (timeout) or "ok" (finished, not served)
	explain func(class, out, panicLine string) (key, text string)
	// solo: the scenario's verdict has a wall-clock component (deadlines of the code under test); a
	// failure other than a crash is confirmed by running the scenario once more on its own, after the
	// parallel batch, before it is reported (a defect reproduces alone, a starved machine does not)
	solo bool
}

func runC12Jobs(jobs []*c12job, w *hx.Writer) {
	var wg sync.WaitGroup
	sem := make(chan struct{}, 8)
	// evaluate runs one job (with its retries) and fills in j.c; it reports whether the job failed in a
	// way other than a crash
	evaluate := func(j *c12job) (softFail bool) {
		var out, class, lastPanic string
		// a scenario that merely did not finish in time is run again (wall-clock bound, loaded
		// machine); a crash is reported at once
		for attempt, rig := 0, 0; attempt <= j.retry; attempt++ {
			out, class, lastPanic = runSubQuiet(j.sub, j.arg, j.timeout)
			if class == "R" && rig < 3 { // the scenario could not be set up: not an attempt
				rig++
				attempt--
				continue
			}
			if class == "P" {
				break
			}
			if class == "ok" {
				if _, served := j.finish(out); served {
					break
				}
			}
		}
		impl, served := "", false
		if class == "ok" {
			impl, served = j.finish(out)
		}
		oracle := "ok"
		explain := j.explain
		if explain == nil {
			explain = func(class, out, panicLine string) (string, string) {
				switch class {
				case "P":
					return "node-crash:" + j.group, "the node crashed on a malformed " + j.group + " input (" + j.arg + "): " + panicLine
				case "H":
					return "node-hang:" + j.group, "the node did not come back after a malformed " + j.group + " input (" + j.arg + ")"
				}
				return "stopped-serving:" + j.group, "after a malformed " + j.group + " input (" + j.arg + ") the node no longer serves honest sessions / requests: " + out
			}
		}
		switch {
		case class == "R":
			impl = "R"
			oracle = hx.Fail("rig", "the scenario could not be set up in four attempts (ports): "+lastPanic)
		case class == "P":
			impl = hx.P
			oracle = hx.Fail(explain("P", out, lastPanic))
		case class == "H":
			impl = "H"
			oracle = hx.Fail(explain("H", out, lastPanic))
			softFail = true
		case !served:
			oracle = hx.Fail(explain("ok", out, lastPanic))
			softFail = true
		}
		j.c.Impl = impl
		j.c.Oracle = oracle
		return softFail
	}
	soft := make([]bool, len(jobs))
	for i, j := range jobs {
		wg.Add(1)
		sem <- struct{}{}
		go func(i int, j *c12job) {
			defer wg.Done()
			defer func() { <-sem }()
			soft[i] = evaluate(j)
		}(i, j)
	}
	wg.Wait()
	for i, j := range jobs {
		if soft[i] && j.solo {
			first := j.c.Oracle
			if !evaluate(j) && j.c.Oracle == "ok" {
				j.c.Tags = append(j.c.Tags, "passed-when-run-alone")
				_ = first
			}
		}
	}
	for _, j := range jobs {
		w.Put(j.c)
	}
}

func runSubQuiet(name, arg string, timeout time.Duration) (string, string, string) {
	return hx.RunSubP(name, arg, timeout)
}

// ---------------------------------------------------------------- the generator

func genC12(rng *hx.Rng, tier string, w *hx.Writer) error {
	var jobs []*c12job
	scen := func(group, kind, sub string, timeout time.Duration) {
		jobs = append(jobs, &c12job{
			c:   hx.Case{Entry: "-", Op: 0, Args: hx.L(hx.B([]byte(group)), hx.B([]byte(kind))), Tags: []string{group, "k:" + kind, "nt"}},
			sub: sub, arg: kind, timeout: timeout, group: group, retry: 2,
			finish: func(out string) (string, bool) { return hx.B([]byte(out)), out == "served" },
		})
	}
	for _, k := range c12DkgKinds {
		scen("key-generation-message", k, "c12-dkg", 25*time.Second)
	}
	if tier == "thorough" {
		// pairs: one malformed message at each of two stages / two malformed messages of one stage
		for i := 0; i < len(c12DkgKinds); i++ {
			for j := i + 1; j < len(c12DkgKinds); j++ {
				scen("key-generation-message", c12DkgKinds[i]+"+"+c12DkgKinds[j], "c12-dkg", 25*time.Second)
			}
		}
	}
	// deals that pass every check a verifier makes but are not what a dealer of a degree t-1 polynomial
	// produces (library level: the real DistKeyGenerators of all members, run to DistKeyShare)
	{
		kr := newKeyring()
		base := 700000
		for _, kind := range []string{"fewer-commitments-than-threshold", "one-coefficient-more", "one-coefficient-less"} {
			for n := 3; n <= 4; n++ {
				base += 100
				crashed, err := dkgCrashProbe(kr, rng, n, base, kind)
				oracle := "ok"
				if err != nil {
					oracle = hx.Fail("rig", "the key-generation session could not be set up: "+err.Error())
				} else if crashed {
					oracle = hx.Fail("node-crash:key-generation-message", "a key-generation call panicked on a deal with "+kind+" that every verifier approves: "+hx.LastPanic)
				}
				w.Put(hx.Case{Entry: "-", Op: 0, Args: hx.L(hx.B([]byte("key-generation-message")), hx.B([]byte(kind)), hx.Zi(n)), Impl: hx.Bool(crashed), Oracle: oracle,
					Tags: []string{"key-generation-message", "k:" + kind, "library-level", "nt"}})
			}
		}
	}
	for _, k := range c12P2PKinds {
		if strings.HasPrefix(k, "hs-") {
			continue
		}
		scen("transport-packet", k, "c12-p2p", 25*time.Second)
	}
	for _, k := range c12QueryKinds {
		scen("signature-share", k, "c12-query", 25*time.Second)
	}
	for _, k := range []string{"function-deep-recursion", "filter-function", "deep-brackets", "recursive-descent", "xpath-deep", "xpath-predicates", "xpath-descendant-ancestor"} {
		k := k
		jobs = append(jobs, &c12job{
			c:   hx.Case{Entry: "-", Op: 0, Args: hx.L(hx.B([]byte("selector")), hx.B([]byte(k))), Tags: []string{"selector", "k:" + k, "nt"}},
			sub: "c12-selector", arg: k, timeout: 40 * time.Second, group: "selector",
			finish: func(out string) (string, bool) { return hx.B([]byte(out)), out == "served" },
			explain: func(class, out, panicLine string) (string, string) {
				sel := c12Selectors[k]
				if len(sel) > 60 {
					sel = sel[:60] + "..."
				}
				switch class {
				case "P":
					if k == "function-deep-recursion" || k == "filter-function" {
						return "jsonpath-function-stack-overflow", "the selector " + sel + " (driver sub c12-selector " + k + ") kills the process: " + panicLine
					}
					return "selector-crash", "the selector " + sel + " (driver sub c12-selector " + k + ") kills the process: " + panicLine
				case "H":
					return "selector-hang", "the selector " + sel + " (driver sub c12-selector " + k + ") did not finish"
				}
				if k == "xpath-descendant-ancestor" {
					return "xpath-ancestor-axis-spin", "the selector " + sel + " (driver sub c12-selector " + k + "): " + out
				}
				return "selector-hang", out
			},
		})
	}
	// the real result stage on selectors whose evaluation (not their compilation) fails, by themselves
	// or on the document that the URL serves; a plain request follows
	{
		var ks []string
		for k := range c12StageKinds {
			ks = append(ks, k)
		}
		sort.Strings(ks)
		for _, k := range ks {
			scen("result-extractor", k, "c12-stage", 30*time.Second)
		}
	}
	// handshake: the model says which handshakes are accepted (entry guards, op 3)
	hs := []struct {
		kind    string
		isid, k int64
	}{{"hs-valid", 1, 2}, {"hs-no-key", 1, 0}, {"hs-identity-key", 1, 1}, {"hs-short-key", 1, 0}, {"hs-key-one-short", 1, 0}, {"hs-key-two-short", 1, 0}, {"hs-garbage", 0, 2}, {"hs-empty-frame-size", 0, 2}, {"hs-not-an-id", 0, 2}}
	for _, h := range hs {
		h := h
		jobs = append(jobs, &c12job{
			c:   hx.Case{Entry: "guards", Op: 3, Args: hx.L(hx.Zi64(h.isid), hx.Zi64(h.k)), Tags: []string{"handshake", "k:" + h.kind, "nt"}},
			sub: "c12-p2p", arg: h.kind, timeout: 25 * time.Second, group: "transport-handshake",
			finish: func(out string) (string, bool) {
				switch out {
				case "served/accepted":
					return "z1", true
				case "served/rejected":
					return hx.E, true
				}
				return hx.B([]byte(out)), false
			},
		})
	}
	// genDistKeyGenerator batches (entry guards, op 1)
	nPub := 40
	if tier == "thorough" {
		nPub = 400
	}
	for it := 0; it < nPub; it++ {
		n := 2 + rng.Intn(5)
		ownIdx := rng.Intn(n)
		keys := make([]int, n)
		for i := range keys {
			keys[i] = 2 + i*3 + rng.Intn(3)
		}
		own := keys[ownIdx]
		type pm struct{ present, idx, kind, k int }
		pubs := make([]pm, n)
		perm := rng.Perm(n)
		for i := 0; i < n; i++ {
			pubs[i] = pm{1, perm[i], 1, keys[perm[i]]}
		}
		shape := "honest"
		if it%4 != 0 {
			// one or two defects
			for d := 0; d < 1+rng.Intn(2); d++ {
				v := rng.Intn(n)
				switch rng.Intn(8) {
				case 0:
					pubs[v].idx = n
					shape = "index-n"
				case 1:
					pubs[v].idx = n + 1 + rng.Intn(1000)
					shape = "index-big"
				case 2:
					pubs[v].idx = 1<<32 - 1
					shape = "index-max"
				case 3:
					pubs[v].kind = 0
					shape = "no-key"
				case 4:
					pubs[v].kind = 2
					pubs[v].k = []int{0, 1, 2, 3, 31, 32, 33, 63, 64, 65, 96, 126, 127}[rng.Intn(13)]
					if rng.Bool() {
						pubs[v].k = rng.Intn(128)
					}
					shape = "truncated-key"
				case 5:
					pubs[v].present = 0
					shape = "nil-message"
				case 6:
					pubs[v].idx = pubs[(v+1)%n].idx
					shape = "duplicate-index"
				case 7:
					if pubs[v].idx == ownIdx {
						pubs[v].k = 1000 + rng.Intn(10)
						shape = "own-key-replaced"
					} else {
						pubs[v].k = 1000 + rng.Intn(10)
						shape = "other-key-replaced"
					}
				}
			}
		}
		arg := fmt.Sprintf("%d,%d", n, own)
		var vl []string
		for _, p := range pubs {
			arg += fmt.Sprintf("|%d,%d,%d,%d", p.present, p.idx, p.kind, p.k)
			vl = append(vl, hx.L(hx.Zi64(int64(p.present)), hx.Zi64(int64(p.idx)), hx.Zi64(int64(p.kind)), hx.Zi64(int64(p.k))))
		}
		jobs = append(jobs, &c12job{
			c:   hx.Case{Entry: "guards", Op: 1, Args: hx.L(hx.Zi64(int64(n)), hx.Zi64(int64(own)), hx.L(vl...)), Tags: []string{"pubkey-batch", "s:" + shape, "nt"}},
			sub: "c12-pubs", arg: arg, timeout: 20 * time.Second, group: "key-generation-message",
			finish: func(out string) (string, bool) { return out, out == "z1" || out == "E" },
		})
	}
	// gossip names (entry guards, op 4)
	lens := []int{0, 1, 5, 19, 20, 21, 24, 44}
	for i := 0; i < 6; i++ {
		lens = append(lens, rng.Intn(40))
	}
	for _, ln := range lens {
		name := make([]byte, ln)
		for i := range name {
			name[i] = byte('a' + rng.Intn(26))
		}
		jobs = append(jobs, &c12job{
			c:   hx.Case{Entry: "guards", Op: 4, Args: hx.L(hx.B(name)), Tags: []string{"gossip-event", fmt.Sprintf("len:%d", ln), "nt"}},
			sub: "c12-name", arg: fmt.Sprintf("%x", name), timeout: 10 * time.Second, group: "gossip-event",
			finish: func(out string) (string, bool) { return out, out != "H" },
		})
	}
	runC12Jobs(jobs, w)

	// packet decoder, in process (entry guards, op 2)
	nPkt := 200
	if tier == "thorough" {
		nPkt = 4000
	}
	for it := 0; it < nPkt; it++ {
		un, anyk, sig, vf := 1, rng.Intn(3), rng.Intn(2), rng.Intn(2)
		var bts []byte
		var an *anyT
		switch anyk {
		case 1:
			an, _ = ptypes.MarshalAny(&vss.Signature{Index: uint32(rng.Intn(9)), Content: rng.Bytes(rng.Intn(40))})
		case 2:
			if rng.Bool() {
				an = &anyT{TypeUrl: "type.googleapis.com/nosuch.Type", Value: rng.Bytes(rng.Intn(20))}
			} else { // known type, body that does not parse
				an = &anyT{TypeUrl: "type.googleapis.com/vss.Signature", Value: []byte{0x0a, 0xff, 0x01}}
			}
		}
		bts, _ = proto.Marshal(&p2p.Package{Anything: an, Sender: rng.Bytes(rng.Intn(30)), Signature: rng.Bytes(rng.Intn(70)), RequestNonce: rng.U64(), ReplyFlag: rng.Bool()})
		shape := []string{"absent", "known", "unknown"}[anyk]
		if rng.Intn(5) == 0 {
			un = 0
			shape = "garbage"
			// not a protobuf message: a field header announcing more bytes than there are
			bts = append([]byte{0x0a, 0xff, 0xff, 0x03}, rng.Bytes(rng.Intn(30))...)
		}
		impl := hx.Catch(func() string {
			var verify func(msg, sig []byte) error
			if vf == 1 {
				verify = func(msg, s []byte) error {
					if sig == 1 {
						return nil
					}
					return fmt.Errorf("bad signature")
				}
			}
			_, _, _, _, err := p2p.VerifDecodeBytes(bts, verify)
			if err != nil {
				return hx.E
			}
			return "z1"
		})
		oracle := "ok"
		if impl == hx.P {
			oracle = hx.Fail("decoder-panic", "the packet decoder panicked on a "+shape+" packet: "+hx.LastPanic)
		}
		w.Put(hx.Case{Entry: "guards", Op: 2, Args: hx.L(hx.Zi64(int64(un)), hx.Zi64(int64(anyk)), hx.Zi64(int64(sig)), hx.Zi64(int64(vf))), Impl: impl, Oracle: oracle,
			Tags: []string{"packet", "s:" + shape, "nt"}})
	}
	// arbitrary bytes to the decoder (no model: protobuf parsing is not modelled)
	for it := 0; it < nPkt; it++ {
		var bts []byte
		if rng.Bool() {
			bts = rng.Bytes(rng.Intn(120))
		} else {
			an, _ := ptypes.MarshalAny(&vss.Signature{Index: 4, Content: rng.Bytes(10)})
			bts, _ = proto.Marshal(&p2p.Package{Anything: an, Sender: rng.Bytes(20), Signature: rng.Bytes(64), RequestNonce: 9})
			for k := 0; k < 1+rng.Intn(3); k++ {
				switch rng.Intn(3) {
				case 0:
					bts[rng.Intn(len(bts))] ^= byte(1 << uint(rng.Intn(8)))
				case 1:
					bts = bts[:rng.Intn(len(bts))+1]
				case 2:
					bts = append(bts, rng.Bytes(1+rng.Intn(5))...)
				}
			}
		}
		impl := hx.Catch(func() string {
			_, _, _, _, err := p2p.VerifDecodeBytes(bts, func(m, s []byte) error { return nil })
			if err != nil {
				return hx.E
			}
			return "z1"
		})
		oracle := "ok"
		if impl == hx.P {
			oracle = hx.Fail("decoder-panic", "the packet decoder panicked on arbitrary bytes: "+hx.LastPanic)
		}
		cls := "decoded"
		if impl == hx.E {
			cls = "error"
		}
		w.Put(hx.Case{Entry: "-", Op: 0, Args: hx.L(hx.B(bts)), Impl: impl, Oracle: oracle, Tags: []string{"packet-bytes", "r:" + cls, "nt"}})
	}
	// the dispatcher of pdkg.Loop, in process (entry guards, op 5)
	nDisp := 150
	if tier == "thorough" {
		nDisp = 3000
	}
	for it := 0; it < nDisp; it++ {
		genC12Dispatch(rng, w)
	}
	// the extractor: grammar-generated and mutated documents / selectors, in process
	nDoc := 150
	if tier == "thorough" {
		nDoc = 3000
	}
	for it := 0; it < nDoc; it++ {
		var doc []byte
		var sel string
		if rng.Bool() {
			doc = []byte(`{"a":` + genJSON(rng, 3) + `,"items":[` + genJSON(rng, 2) + `]}`)
			sel = jsonSelectors[rng.Intn(len(jsonSelectors))]
		} else {
			doc = []byte("<root>" + genXML(rng, 2) + "</root>")
			sel = xmlSelectors[rng.Intn(len(xmlSelectors))]
		}
		switch rng.Intn(6) {
		case 0: // truncate the document
			doc = doc[:rng.Intn(len(doc)+1)]
		case 1: // flip bytes
			for k := 0; k < 3 && len(doc) > 0; k++ {
				doc[rng.Intn(len(doc))] ^= byte(1 << uint(rng.Intn(8)))
			}
		case 2: // mangle the selector
			b := []byte(sel)
			if len(b) > 1 {
				b[1+rng.Intn(len(b)-1)] = "[]()*.$@/'\"\\"[rng.Intn(12)]
			}
			sel = string(b)
		case 3:
			sel = sel + strings.Repeat("[0]", rng.Intn(50))
		case 4:
			doc = []byte(strings.Repeat("[", 2000+rng.Intn(3000)))
		}
		res := make(chan string, 1)
		go func() { res <- parseOnce(doc, sel) }()
		var impl string
		select {
		case impl = <-res:
		case <-time.After(10 * time.Second):
			impl = "H"
		}
		oracle := "ok"
		if impl == hx.P {
			oracle = hx.Fail("extractor-panic", "the JSON/XML extractor panicked: "+hx.LastPanic)
		} else if impl == "H" {
			oracle = hx.Fail("extractor-hang", "the JSON/XML extractor did not return within 10 s")
		}
		cls := "value"
		if impl == hx.E {
			cls = "error"
		}
		w.Put(hx.Case{Entry: "-", Op: 0, Args: hx.L(hx.B(doc[:minInt(len(doc), 300)]), hx.B([]byte(sel))), Impl: hx.B([]byte(cls)), Oracle: oracle,
			Tags: []string{"extractor", "r:" + cls, "nt"}})
	}
	// the extractor on XPath selectors drawn from the expression grammar (operands of every type in
	// every position) over documents with numeric and non-numeric text: whatever the evaluation of the
	// selector does on the document, the extractor returns a value or an error
	nXp := 400
	if tier == "thorough" {
		nXp = 20000
	}
	for it := 0; it < nXp; it++ {
		g := &xpGen{rng: rng, ill: []int{0, 10, 30}[it%3]}
		doc, dcls := xpDoc(rng)
		sel := g.selector(1 + rng.Intn(3))
		res := make(chan string, 1)
		var panicText string
		go func() {
			r := parseOnce(doc, sel)
			if r == hx.P {
				panicText = hx.LastPanic
			}
			res <- r
		}()
		var impl string
		select {
		case impl = <-res:
		case <-time.After(10 * time.Second):
			impl = "H"
		}
		oracle := "ok"
		if impl == hx.P {
			oracle = hx.Fail("extractor-panic", "the XML extractor panicked on the selector "+sel+" over "+string(doc)+": "+panicText)
		} else if impl == "H" {
			oracle = hx.Fail("extractor-hang", "the XML extractor did not return within 10 s on the selector "+sel+" over "+string(doc))
		}
		cls := "value"
		switch impl {
		case hx.E:
			cls = "error"
		case hx.B(nil):
			cls = "empty"
		case hx.P:
			cls = "panic"
		case "H":
			cls = "hang"
		}
		tags := []string{"extractor-xpath", "r:" + cls, "doc:" + dcls, fmt.Sprintf("ill:%d", g.ill)}
		if cls != "error" {
			tags = append(tags, "nt")
		}
		w.Put(hx.Case{Entry: "-", Op: 0, Args: hx.L(hx.B(doc), hx.B([]byte(sel))), Impl: hx.B([]byte(cls)), Oracle: oracle, Tags: tags})
	}
	_ = dosnode.VerifPadOrTrim
	return nil
}

func genC12Dispatch(rng *hx.Rng, w *hx.Writer) {
	nEv := 4 + rng.Intn(14)
	nSid := 1 + rng.Intn(3)
	mixed := rng.Intn(6) == 0
	baseType := rng.Intn(3)
	buf := dkg.VerifNewBuf()
	chans := map[int64]chan []interface{}{}
	var order []int64
	var evs, outs []string
	nextH := int64(10)
	shapeDup, shapeNil, shapeSurplus := false, false, false
	sent := map[string]bool{}
	impl := hx.Catch(func() string {
		for e := 0; e < nEv; e++ {
			sid := int64(1 + rng.Intn(nSid))
			sidStr := fmt.Sprintf("s%d", sid)
			if rng.Intn(4) == 0 {
				n := int64(rng.Intn(4))
				h := nextH
				nextH++
				evs = append(evs, hx.L(hx.Zi(1), hx.Zi64(sid), hx.Zi64(n), hx.Zi64(h)))
				chans[h] = buf.Request(context.Background(), sidStr, int(n))
				order = append(order, h)
			} else {
				t := baseType
				if mixed {
					t = rng.Intn(3)
				}
				i := int64(rng.Intn(4))
				var content interface{}
				var iv string
				switch t {
				case 0:
					content = &dkg.PublicKey{SessionId: sidStr, Index: uint32(i)}
					iv = hx.L(hx.Zi(0), hx.Zi64(i))
				case 1:
					content = &dkg.Deal{SessionId: sidStr, Index: uint32(i)}
					iv = hx.L(hx.Zi(1), hx.Zi64(i))
				case 2:
					k := int64(rng.Intn(3))
					switch rng.Intn(8) {
					case 0:
						content = (*dkg.Response)(nil)
						iv = hx.L(hx.Zi(3))
						shapeNil = true
					case 1:
						content = &dkg.Response{SessionId: sidStr, Index: uint32(i)}
						iv = hx.L(hx.Zi(3))
						shapeNil = true
					default:
						content = &dkg.Response{SessionId: sidStr, Index: uint32(i), Response: &vss.Response{Index: uint32(k)}}
						iv = hx.L(hx.Zi(2), hx.Zi64(i), hx.Zi64(k))
					}
				}
				key := fmt.Sprint(sid, iv)
				if sent[key] {
					shapeDup = true
				}
				sent[key] = true
				evs = append(evs, hx.L(hx.Zi(0), hx.Zi64(sid), iv))
				buf.Peer(sidStr, content)
			}
			// collect what was delivered by this step
			for _, h := range order {
				ch := chans[h]
				if ch == nil {
					continue
				}
				select {
				case batch, ok := <-ch:
					if ok {
						var items []string
						for _, m := range batch {
							switch c := m.(type) {
							case *dkg.PublicKey:
								items = append(items, hx.L(hx.Zi(0), hx.Zi64(int64(c.Index))))
							case *dkg.Deal:
								items = append(items, hx.L(hx.Zi(1), hx.Zi64(int64(c.Index))))
							case *dkg.Response:
								items = append(items, hx.L(hx.Zi(2), hx.Zi64(int64(c.Index)), hx.Zi64(int64(c.Response.Index))))
							}
						}
						outs = append(outs, hx.L(hx.Zi64(h), hx.L(items...)))
					}
					chans[h] = nil
				default:
				}
			}
		}
		return hx.L(outs...)
	})
	_ = shapeSurplus
	oracle := "ok"
	if impl == hx.P {
		oracle = hx.Fail("dispatcher-panic", "pdkg.Loop's message buffer panicked: "+hx.LastPanic)
	}
	tags := []string{"dispatcher", fmt.Sprintf("sessions:%d", nSid), fmt.Sprintf("delivered:%d", len(outs))}
	if shapeDup {
		tags = append(tags, "s:duplicate")
	}
	if shapeNil {
		tags = append(tags, "s:nil-response")
	}
	if len(outs) > 0 {
		tags = append(tags, "nt")
	}
	w.Put(hx.Case{Entry: "guards", Op: 5, Args: hx.L(hx.L(evs...)), Impl: impl, Oracle: oracle, Tags: tags})
}

func minInt(a, b int) int {
	if a < b {
		return a
	}
	return b
}

// anyT is google.protobuf.Any
type anyT = anypkg.Any
