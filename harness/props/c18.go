package props

import (
	"encoding/hex"
	"errors"
	"fmt"
	"math/big"
	"reflect"
	"sort"
	"strings"
	"sync"
	"time"

	"github.com/DOSNetwork/core/onchain"
	"github.com/ethereum/go-ethereum/accounts/abi"
	"github.com/ethereum/go-ethereum/common"
	"github.com/ethereum/go-ethereum/core/types"

	"verif/harness/hx"
)

func init() {
	Registry["C18"] = genC18
	SubRegistry["c18-events"] = subC18Events
}

type c18Type struct {
	sub   int
	event string
	cr    bool
}

// the events the node subscribes to (dosnode/dos_chain_handler.go)
var c18Types = []c18Type{
	{onchain.SubscribeLogGrouping, "LogGrouping", false},
	{onchain.SubscribeLogGroupDissolve, "LogGroupDissolve", false},
	{onchain.SubscribeLogUrl, "LogUrl", false},
	{onchain.SubscribeLogUpdateRandom, "LogUpdateRandom", false},
	{onchain.SubscribeLogRequestUserRandom, "LogRequestUserRandom", false},
	{onchain.SubscribeLogPublicKeyAccepted, "LogPublicKeyAccepted", false},
	{onchain.SubscribeCommitrevealLogStartCommitreveal, "LogStartCommitReveal", true},
}

// node field name -> ABI input name where they differ
var c18Alias = map[string]string{"WorkingGroupSize": "numWorkingGroups"}

func genValue(rng *hx.Rng, t abi.Type) interface{} {
	switch t.T {
	case abi.UintTy:
		if t.Size <= 64 {
			return uint8(rng.Intn(256))
		}
		return randWord(rng)
	case abi.StringTy:
		switch rng.Intn(4) {
		case 0:
			return ""
		case 1:
			return strings.Repeat("long-", 400+rng.Intn(2000))
		}
		return fmt.Sprintf("https://example.org/%x?q=\"é\"", rng.Bytes(rng.Intn(20)))
	case abi.BytesTy:
		return rng.Bytes(rng.Intn(100))
	case abi.BoolTy:
		return rng.Bool()
	case abi.AddressTy:
		return common.BytesToAddress(rng.Bytes(20))
	case abi.SliceTy:
		n := []int{0, 1, 3, 21, 60}[rng.Intn(5)]
		out := reflect.MakeSlice(t.GetType(), n, n)
		for i := 0; i < n; i++ {
			out.Index(i).Set(reflect.ValueOf(genValue(rng, *t.Elem)))
		}
		return out.Interface()
	case abi.ArrayTy:
		out := reflect.New(t.GetType()).Elem()
		for i := 0; i < t.Size; i++ {
			out.Index(i).Set(reflect.ValueOf(genValue(rng, *t.Elem)))
		}
		return out.Interface()
	case abi.FixedBytesTy:
		out := reflect.New(t.GetType()).Elem()
		b := rng.Bytes(t.Size)
		for i := 0; i < t.Size; i++ {
			out.Index(i).Set(reflect.ValueOf(b[i]))
		}
		return out.Interface()
	}
	return nil
}

func normVal(v interface{}) string {
	switch x := v.(type) {
	case *big.Int:
		if x == nil {
			return "<nil>"
		}
		return x.String()
	case string:
		return "s:" + x
	case []byte:
		return "b:" + hex.EncodeToString(x)
	case [][]byte:
		var p []string
		for _, b := range x {
			p = append(p, hex.EncodeToString(b))
		}
		return "[" + strings.Join(p, ",") + "]"
	case []common.Address:
		var p []string
		for _, a := range x {
			p = append(p, hex.EncodeToString(a.Bytes()))
		}
		return "[" + strings.Join(p, ",") + "]"
	}
	rv := reflect.ValueOf(v)
	if rv.Kind() == reflect.Array || rv.Kind() == reflect.Slice {
		var p []string
		for i := 0; i < rv.Len(); i++ {
			p = append(p, normVal(rv.Index(i).Interface()))
		}
		return "[" + strings.Join(p, ",") + "]"
	}
	return fmt.Sprint(v)
}

// the delivered value as (type name, field -> normalised value)
func describe(v interface{}) (string, map[string]string) {
	rv := reflect.ValueOf(v)
	if rv.Kind() == reflect.Ptr {
		rv = rv.Elem()
	}
	out := map[string]string{}
	if rv.Kind() != reflect.Struct {
		return fmt.Sprintf("%T", v), out
	}
	for i := 0; i < rv.NumField(); i++ {
		out[rv.Type().Field(i).Name] = normVal(rv.Field(i).Interface())
	}
	return rv.Type().Name(), out
}

type c18Log struct {
	typ    c18Type
	log    types.Log
	fields map[string]string // ABI input name (lower case) -> normalised value, decoded independently
}

// arg: endpoints=..,logs=..,seed=..,drop=<endpoint or -1>
// prints: "<sorted delivered history indices>|<stream: endpoint emissions idx:removed ...>|<problems>"
func subC18Events(arg string) string {
	a := parseArg(arg)
	nEp, nLogs, dropEp := atoi(a["endpoints"]), atoi(a["logs"]), atoi(a["drop"])
	rng := hx.NewRng(uint64(atoi(a["seed"])) + 1800)
	rig, err := newEthRig(nEp)
	if err != nil {
		return "||rig: " + err.Error()
	}
	defer rig.close()
	var subs []int
	for _, t := range c18Types {
		subs = append(subs, t.sub)
	}
	// slow=<e>: endpoint e is connected but sits on every eth_subscribe request for a while
	slowEp := -1
	if v, ok := a["slow"]; ok {
		slowEp = atoi(v)
	}
	if slowEp >= 0 && slowEp < nEp {
		rig.nodes[slowEp].SubscribeDelay = 2500 * time.Millisecond
	} else {
		slowEp = -1
	}
	var early []string
	type subRes struct {
		ev chan interface{}
		ec chan error
	}
	subDone := make(chan subRes, 1)
	tSub := time.Now()
	go func() {
		ev, ec := rig.adaptor.SubscribeEvent(subs)
		subDone <- subRes{ev, ec}
	}()
	var events chan interface{}
	var errc chan error
	select {
	case r := <-subDone:
		events, errc = r.ev, r.ec
		if d := time.Since(tSub); slowEp >= 0 && d > 1200*time.Millisecond {
			early = append(early, fmt.Sprintf("SubscribeEvent returned only after %v: it waited for the endpoint that is slow to answer eth_subscribe", d.Round(10*time.Millisecond)))
		}
	case <-time.After(20 * time.Second):
		return "||SubscribeEvent did not return within 20 s"
	}
	// the node's reaction to a subscription error (dosnode.onchainLoop): disconnect the endpoint
	// the error names
	go func() {
		for err := range errc {
			var oe *onchain.OnchainError
			if errors.As(err, &oe) {
				rig.adaptor.DisconnectWs(oe.Idx)
			}
		}
	}()
	deadline := time.Now().Add(3 * time.Second)
	if slowEp >= 0 {
		// the healthy endpoints are subscribed while the slow one is still thinking, and what they
		// emit in the meantime is delivered
		deadline = tSub.Add(1200 * time.Millisecond)
	}
	for e, nd := range rig.nodes {
		if e == slowEp {
			continue
		}
		for nd.Subscribers() < len(c18Types) && time.Now().Before(deadline) {
			time.Sleep(2 * time.Millisecond)
		}
		if slowEp >= 0 && nd.Subscribers() < len(c18Types) {
			early = append(early, fmt.Sprintf("endpoint %d answered every eth_subscribe at once, yet after 1.2 s only %d of the %d subscriptions were made on it (endpoint %d is slow to answer)", e, nd.Subscribers(), len(c18Types), slowEp))
		}
	}
	// the history
	var hist []c18Log
	seenData := map[string]bool{}
	perType := atoi(a["pertype"]) // > 0: that many logs of EVERY event type (each type has its own lane per endpoint)
	if perType > 0 {
		nLogs = perType * len(c18Types)
	}
	for i := 0; i < nLogs; i++ {
		t := c18Types[rng.Intn(len(c18Types))]
		if perType > 0 {
			t = c18Types[i%len(c18Types)]
		}
		ab, addr := proxyABI, ethProxy
		if t.cr {
			ab, addr = crABI, ethCR
		}
		ev := ab.Events[t.event]
		// every event of the contracts carries a unique request / group / round id: distinct logs
		// have distinct data
		var data []byte
		for try := 0; ; try++ {
			var vals []interface{}
			for _, in := range ev.Inputs.NonIndexed() {
				vals = append(vals, genValue(rng, in.Type))
			}
			var err error
			data, err = ev.Inputs.NonIndexed().Pack(vals...)
			if err != nil {
				return "||pack " + t.event + ": " + err.Error()
			}
			if !seenData[string(data)] || try > 50 {
				break
			}
		}
		seenData[string(data)] = true
		l := types.Log{Address: addr, Topics: []common.Hash{ev.ID}, Data: data, BlockNumber: uint64(1000 + i/2 + rng.Intn(2)),
			TxHash: common.BytesToHash(rng.Bytes(32)), TxIndex: uint(i), Index: uint(i)}
		// the independent decoding of the log
		m := map[string]interface{}{}
		if err := ab.UnpackIntoMap(m, t.event, data); err != nil {
			return "||unpack " + t.event + ": " + err.Error()
		}
		f := map[string]string{}
		for k, v := range m {
			f[strings.ToLower(k)] = normVal(v)
		}
		hist = append(hist, c18Log{t, l, f})
	}
	// what each endpoint emits: every log once (in its own order), some twice, some first flagged
	// removed; a few logs only ever flagged removed
	onlyRemoved := map[int]bool{}
	for i := range hist {
		if rng.Intn(7) == 0 {
			onlyRemoved[i] = true
		}
	}
	type em struct {
		idx     int
		removed bool
	}
	plans := make([][]em, nEp)
	for e := 0; e < nEp; e++ {
		for _, i := range rng.Perm(nLogs) {
			if onlyRemoved[i] {
				plans[e] = append(plans[e], em{i, true})
				continue
			}
			if rng.Intn(6) == 0 {
				plans[e] = append(plans[e], em{i, true}) // a re-organised copy first
			}
			plans[e] = append(plans[e], em{i, false})
			if rng.Intn(5) == 0 {
				plans[e] = append(plans[e], em{i, false})
			}
		}
	}
	if slowEp >= 0 {
		plans[slowEp] = nil // the slow endpoint emits nothing itself
	}
	dropAt := -1
	if dropEp >= 0 && dropEp < nEp {
		dropAt = rng.Intn(len(plans[dropEp]) + 1)
		if a["early"] == "1" {
			dropAt = rng.Intn(2)
		}
	}
	var mu sync.Mutex
	emitted := make([][]em, nEp)
	var wg sync.WaitGroup
	for e := 0; e < nEp; e++ {
		wg.Add(1)
		go func(e int) {
			defer wg.Done()
			nd := rig.nodes[e]
			for k, x := range plans[e] {
				if e == dropEp && k == dropAt {
					nd.DropWS()
					return
				}
				l := hist[x.idx].log
				l.Removed = x.removed
				// an endpoint the harness does not drop stays subscribed: what it emits counts
				if nd.Emit(l) > 0 || e != dropEp {
					mu.Lock()
					emitted[e] = append(emitted[e], x)
					mu.Unlock()
				}
				if rng.Intn(3) == 0 {
					time.Sleep(time.Duration(rng.Intn(1500)) * time.Microsecond)
				}
			}
		}(e)
	}
	wg.Wait()
	if v, ok := a["disc"]; ok && atoi(v) >= 0 && atoi(v) < nEp {
		// nobody has read the event channel yet: the subscription goroutines of every endpoint sit on
		// logs they cannot hand over.  The node disconnects one endpoint in that state (what onchainLoop
		// does on an error, what the operator's "disconnect" does); the others carry every log
		time.Sleep(30 * time.Millisecond)
		rig.adaptor.DisconnectWs(atoi(v))
		time.Sleep(30 * time.Millisecond)
	}
	// collect until quiet
	var got []interface{}
	quiet := time.NewTimer(400 * time.Millisecond)
collect:
	for {
		select {
		case v, ok := <-events:
			if !ok {
				break collect
			}
			got = append(got, v)
			if !quiet.Stop() {
				<-quiet.C
			}
			quiet.Reset(400 * time.Millisecond)
		case <-quiet.C:
			break collect
		}
	}
	// judge
	problems := early
	count := make([]int, nLogs)
	emittedLive := map[int]bool{}
	for e := 0; e < nEp; e++ {
		for _, x := range emitted[e] {
			if !x.removed {
				emittedLive[x.idx] = true
			}
		}
	}
	for _, v := range got {
		name, fields := describe(v)
		// the emitted logs whose decoded fields equal the delivered ones (several, when two logs differ
		// only in a field the node's event does not carry): the delivery is attributed to one that is
		// still owed a delivery, else to the one with the fewest so far
		match := -1
		for i, h := range hist {
			if h.typ.event != name && !(name == "LogStartCommitReveal" && h.typ.event == "LogStartCommitReveal") {
				continue
			}
			ok := true
			for fn, fv := range fields {
				key := strings.ToLower(fn)
				if al, has := c18Alias[fn]; has {
					key = strings.ToLower(al)
				}
				want, has := h.fields[key]
				if !has || want != fv {
					ok = false
					break
				}
			}
			if !ok {
				continue
			}
			owed := emittedLive[i] && count[i] == 0
			switch {
			case match < 0:
				match = i
			case owed && !(emittedLive[match] && count[match] == 0):
				match = i
			case !owed && !(emittedLive[match] && count[match] == 0) && count[i] < count[match]:
				match = i
			}
		}
		if match < 0 {
			problems = append(problems, fmt.Sprintf("a delivered %s has fields that equal no emitted log's ABI-decoded fields: %v", name, trunc(fmt.Sprint(fields))))
			continue
		}
		count[match]++
	}
	var delivered []int
	for i, c := range count {
		switch {
		case c > 1:
			problems = append(problems, fmt.Sprintf("log %d (%s) was delivered %d times", i, hist[i].typ.event, c))
		case c == 1 && !emittedLive[i]:
			problems = append(problems, fmt.Sprintf("log %d (%s) was only ever emitted with the removed flag and was delivered", i, hist[i].typ.event))
		case c == 0 && emittedLive[i]:
			problems = append(problems, fmt.Sprintf("log %d (%s) was emitted by a live endpoint and never delivered", i, hist[i].typ.event))
		}
		for k := 0; k < c; k++ {
			delivered = append(delivered, i)
		}
	}
	sort.Ints(delivered)
	var ds, stream []string
	for _, d := range delivered {
		ds = append(ds, fmt.Sprint(d))
	}
	for e := 0; e < nEp; e++ {
		for _, x := range emitted[e] {
			r := 0
			if x.removed {
				r = 1
			}
			stream = append(stream, fmt.Sprintf("%d:%d:%d:%s", x.idx, r, hist[x.idx].log.BlockNumber, hex.EncodeToString(hist[x.idx].log.Data[:minInt(len(hist[x.idx].log.Data), 64)])))
		}
	}
	if len(problems) > 3 {
		problems = append(problems[:3], fmt.Sprintf("... and %d more", len(problems)-3))
	}
	return strings.Join(ds, " ") + "|" + strings.Join(stream, " ") + "|" + strings.Join(problems, "; ")
}

func genC18(rng *hx.Rng, tier string, w *hx.Writer) error {
	var jobs []*c12job
	n := 14
	if tier == "thorough" {
		n = 150
	}
	for it := 0; it < n; it++ {
		nEp := 1 + it%3
		drop := -1
		if nEp > 1 && it%4 == 1 {
			drop = rng.Intn(nEp)
		}
		nLogs := 4 + rng.Intn(20)
		early := 0
		if it < 6 {
			// one of two endpoints goes away almost at once; the other one carries the whole history
			nEp, drop, early = 2, it%2, 1
		}
		arg := fmt.Sprintf("endpoints=%d,logs=%d,seed=%d,drop=%d,early=%d", nEp, nLogs, it+1, drop, early)
		if it >= 6 && it%4 == 3 && nEp > 1 {
			arg += fmt.Sprintf(",slow=%d", rng.Intn(nEp))
		}
		if it >= 6 && it%4 == 2 && nEp > 1 && drop < 0 {
			arg = fmt.Sprintf("endpoints=%d,logs=%d,seed=%d,drop=-1,early=0,disc=%d,pertype=5", nEp, 14+rng.Intn(10), it+1, rng.Intn(nEp))
		}
		c := hx.Case{Entry: "firstevent", Op: 1, Args: hx.L(hx.L()), Tags: []string{"events", fmt.Sprintf("endpoints:%d", nEp), fmt.Sprintf("drop:%v", drop >= 0), "nt"}}
		// the slow-endpoint scenarios judge wall-clock bounds: a failure is confirmed by a run on its own
		job := &c12job{sub: "c18-events", arg: arg, timeout: 60 * time.Second, group: "event-subscription", solo: strings.Contains(arg, "slow=")}
		job.c = c
		job.finish = func(out string) (string, bool) {
			parts := strings.SplitN(out, "|", 3)
			if len(parts) < 3 {
				return hx.B([]byte(out)), false
			}
			var ds []string
			for _, d := range strings.Fields(parts[0]) {
				ds = append(ds, hx.Zi(atoi(d)))
			}
			// the merged stream for the model: the emissions of all endpoints (any interleaving of
			// them delivers the same set)
			var ls []string
			for _, s := range strings.Fields(parts[1]) {
				f := strings.Split(s, ":")
				data, _ := hex.DecodeString(f[3])
				// the model's data: the log index makes distinct logs distinct even when a prefix is shared
				data = append(data, byte(atoi(f[0])), byte(atoi(f[0])>>8))
				pad := make([]byte, (32-len(data)%32)%32)
				data = append(data, pad...)
				ls = append(ls, hx.L(hx.B(data), hx.Zi(atoi(f[2])), hx.Zi(atoi(f[1])), hx.Zi(atoi(f[0]))))
			}
			job.c.Args = hx.L(hx.L(ls...))
			return hx.L(ds...), parts[2] == ""
		}
		job.explain = func(class, out, panicLine string) (string, string) {
			sc := "driver sub c18-events " + arg
			switch class {
			case "P":
				return "subscriber-crash", "the adaptor crashed (" + sc + "): " + panicLine
			case "H":
				return "subscriber-hang", "the scenario did not finish (" + sc + ")"
			}
			parts := strings.SplitN(out, "|", 3)
			msg := out
			if len(parts) == 3 {
				msg = parts[2]
			}
			return "event-delivery", msg + " (" + sc + ")"
		}
		jobs = append(jobs, job)
	}
	runC12Jobs(jobs, w)
	return nil
}
