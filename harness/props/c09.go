package props

import (
	"bytes"
	"fmt"
	"math/big"
	"strings"

	"github.com/DOSNetwork/core/group/bn256"
	"github.com/DOSNetwork/core/group/edwards25519"
	"github.com/DOSNetwork/core/share"
	"github.com/dedis/kyber"

	"verif/harness/hx"
)

func init() { Registry["C09"] = genC09 }

// ---- math/big reference (the property judge; independent of the Coq model)

func refEval(coeffs []*big.Int, i int, q *big.Int) *big.Int {
	x := big.NewInt(int64(1 + i))
	acc := big.NewInt(0)
	pw := big.NewInt(1)
	for _, c := range coeffs {
		t := new(big.Int).Mul(c, pw)
		acc.Add(acc, t)
		acc.Mod(acc, q)
		pw.Mul(pw, x)
		pw.Mod(pw, q)
	}
	return acc
}

type shareEnt struct {
	kind string // "ok", "nil", "nilv", "neg", "big", "dup", "wrong"
	idx  int
	val  *big.Int
}

// build a share list: `k` distinct usable indices out of n in random order, with junk mixed in
func buildShares(rng *hx.Rng, coeffs []*big.Int, q *big.Int, n, k int, junk int, allowDup bool) []shareEnt {
	perm := rng.Perm(n)
	var ents []shareEnt
	for j := 0; j < k && j < n; j++ {
		ents = append(ents, shareEnt{"ok", perm[j], refEval(coeffs, perm[j], q)})
	}
	for j := 0; j < junk; j++ {
		var e shareEnt
		switch rng.Intn(5) {
		case 0:
			e = shareEnt{kind: "nil"}
		case 1:
			e = shareEnt{kind: "nilv", idx: rng.Intn(n)}
		case 2:
			e = shareEnt{"neg", -1 - rng.Intn(3), rng.BigBelow(q)}
		case 3:
			e = shareEnt{"big", n + rng.Intn(3), rng.BigBelow(q)}
		default:
			if allowDup && len(ents) > 0 {
				src := ents[rng.Intn(len(ents))]
				if src.kind == "ok" {
					e = shareEnt{"dup", src.idx, src.val}
				} else {
					e = shareEnt{kind: "nil"}
				}
			} else {
				e = shareEnt{kind: "nil"}
			}
		}
		pos := rng.Intn(len(ents) + 1)
		ents = append(ents, shareEnt{})
		copy(ents[pos+1:], ents[pos:])
		ents[pos] = e
	}
	return ents
}

func entsVal(ents []shareEnt, grp int) string {
	xs := make([]string, len(ents))
	for i, e := range ents {
		switch e.kind {
		case "nil":
			xs[i] = hx.N
		case "nilv":
			xs[i] = hx.L(hx.Zi(e.idx), hx.N)
		default:
			if grp == 0 {
				xs[i] = hx.L(hx.Zi(e.idx), hx.Z(e.val))
			} else {
				xs[i] = hx.L(hx.Zi(e.idx), hx.G(grp, e.val))
			}
		}
	}
	return hx.L(xs...)
}

// what the first `limit` usable entries look like (limit<=0: all)
func usableStats(ents []shareEnt, n, limit int) (cnt int, dup bool) {
	seen := map[int]bool{}
	for _, e := range ents {
		if e.kind == "nil" || e.kind == "nilv" || e.idx < 0 || e.idx >= n {
			continue
		}
		if seen[e.idx] {
			dup = true
		}
		seen[e.idx] = true
		cnt++
		if limit > 0 && cnt == limit {
			break
		}
	}
	return
}

func priShares(g kyber.Group, ents []shareEnt, q *big.Int) []*share.PriShare {
	out := make([]*share.PriShare, len(ents))
	for i, e := range ents {
		switch e.kind {
		case "nil":
			out[i] = nil
		case "nilv":
			out[i] = &share.PriShare{I: e.idx, V: nil}
		default:
			out[i] = &share.PriShare{I: e.idx, V: Sc(g, e.val, q)}
		}
	}
	return out
}

func pubShares(g kyber.Group, ents []shareEnt, q *big.Int) []*share.PubShare {
	out := make([]*share.PubShare, len(ents))
	for i, e := range ents {
		switch e.kind {
		case "nil":
			out[i] = nil
		case "nilv":
			out[i] = &share.PubShare{I: e.idx, V: nil}
		default:
			out[i] = &share.PubShare{I: e.idx, V: Pt(g, e.val, q)}
		}
	}
	return out
}

func bigsVal(xs []*big.Int) string {
	s := make([]string, len(xs))
	for i, x := range xs {
		s[i] = hx.Z(x)
	}
	return hx.L(s...)
}

func scalars(g kyber.Group, xs []*big.Int, q *big.Int) []kyber.Scalar {
	out := make([]kyber.Scalar, len(xs))
	for i, x := range xs {
		out[i] = Sc(g, x, q)
	}
	return out
}

func points(g kyber.Group, xs []*big.Int, q *big.Int) []kyber.Point {
	out := make([]kyber.Point, len(xs))
	for i, x := range xs {
		out[i] = Pt(g, x, q)
	}
	return out
}

// smallCoeffs: coefficients from a tiny range, so that intermediate values of Horner's rule
// coincide with coefficients, sums hit the identity, and equal coefficients meet in Add.
func smallCoeffs(rng *hx.Rng, t int, q *big.Int) []*big.Int {
	c := make([]*big.Int, t)
	for i := range c {
		switch rng.Intn(6) {
		case 0:
			c[i] = new(big.Int).Sub(q, big.NewInt(int64(1+rng.Intn(3))))
		default:
			c[i] = big.NewInt(int64(rng.Intn(7)))
		}
	}
	return c
}

func randCoeffs(rng *hx.Rng, t int, q *big.Int) []*big.Int {
	if rng.Chance(25) {
		return smallCoeffs(rng, t, q)
	}
	c := make([]*big.Int, t)
	for i := range c {
		if i == 0 {
			c[i] = PickScalar(rng, q)
		} else if rng.Chance(8) {
			c[i] = big.NewInt(0) // degenerate top/middle coefficients
		} else {
			c[i] = rng.BigBelow(q)
		}
	}
	return c
}

func eqBig(a, b *big.Int) bool { return a.Cmp(b) == 0 }

// craftFor returns the coefficients with the constant term replaced by sum_{k>=1} c_k x^k for the
// abscissa x = i+1: the last Horner step of an evaluation at index i then adds a point to itself
// (the same element reached along two different routes, hence in two different representations)
func craftFor(coeffs []*big.Int, i int, q *big.Int) []*big.Int {
	out := make([]*big.Int, len(coeffs))
	copy(out, coeffs)
	x := big.NewInt(int64(i + 1))
	acc := big.NewInt(0)
	for k := len(coeffs) - 1; k >= 1; k-- {
		acc.Add(acc, coeffs[k])
		acc.Mul(acc, x)
		acc.Mod(acc, q)
	}
	out[0] = acc
	return out
}

// the values of the share objects (nil entries included), to see whether a call changed its inputs
func priSnapshot(g kyber.Group, shs []*share.PriShare) string {
	var sb strings.Builder
	for _, s := range shs {
		if s == nil || s.V == nil {
			sb.WriteString("nil;")
			continue
		}
		fmt.Fprintf(&sb, "%d:%s;", s.I, ScVal(g, s.V).String())
	}
	return sb.String()
}

func pubSnapshot(shs []*share.PubShare) string {
	var sb strings.Builder
	for _, s := range shs {
		if s == nil || s.V == nil {
			sb.WriteString("nil;")
			continue
		}
		fmt.Fprintf(&sb, "%d:%x;", s.I, PtBytes(s.V))
	}
	return sb.String()
}

func c09Recover(rng *hx.Rng, w *hx.Writer, grp int, t, n int, coeffs []*big.Int, ents []shareEnt, which int) {
	g := GroupOf(grp)
	q := OrderOf(grp)
	d0 := 1
	if grp == GrpEd {
		d0 = 0
	}
	secret := coeffs[0]
	tags := []string{"grp" + string(rune('0'+grp))}
	switch which {
	case 2: // RecoverSecret
		cnt, dup := usableStats(ents, n, t)
		mutated := ""
		impl := hx.Catch(func() string {
			shs := priShares(g, ents, q)
			before := priSnapshot(g, shs)
			s, err := share.RecoverSecret(g, shs, t, n)
			if priSnapshot(g, shs) != before {
				mutated = "RecoverSecret changed the shares it was given"
			}
			if err != nil {
				return hx.E
			}
			// the same share objects are used again (a second reconstruction, the polynomial)
			if s2, err2 := share.RecoverSecret(g, shs, t, n); err2 != nil || !s2.Equal(s) {
				mutated = "a second RecoverSecret over the same share objects gives another result"
			}
			return hx.Z(ScVal(g, s))
		})
		oracle := "ok"
		if mutated != "" {
			oracle = hx.Fail("recover-mutates-shares", mutated)
			tags = append(tags, "secret-mutated")
		} else if cnt < t {
			tags = append(tags, "secret-toofew")
			if impl != hx.E {
				oracle = hx.Fail("recover-secret-below-threshold", "fewer than t usable shares but no error")
			}
		} else if !dup {
			tags = append(tags, "secret-enough", "nt")
			if impl != hx.Z(secret) {
				oracle = hx.Fail("recover-secret-wrong", "t distinct valid shares did not give the secret")
			}
		} else {
			tags = append(tags, "secret-dupindex")
		}
		w.Put(hx.Case{Entry: "share", Op: 2, Args: hx.L(hx.Z(q), hx.Zi(d0), entsVal(ents, 0), hx.Zi(t), hx.Zi(n)),
			Impl: impl, Oracle: oracle, Tags: tags})
	case 3: // RecoverPriPoly
		cnt, dup := usableStats(ents, n, t)
		mutated := ""
		impl := hx.Catch(func() string {
			shs := priShares(g, ents, q)
			before := priSnapshot(g, shs)
			p, err := share.RecoverPriPoly(g, shs, t, n)
			if priSnapshot(g, shs) != before {
				mutated = "RecoverPriPoly changed the shares it was given"
			}
			if err != nil {
				return hx.E
			}
			cs := p.Coefficients()
			out := make([]*big.Int, len(cs))
			for i, c := range cs {
				out[i] = ScVal(g, c)
			}
			return bigsVal(out)
		})
		oracle := "ok"
		if mutated != "" {
			oracle = hx.Fail("recover-mutates-shares", mutated)
			tags = append(tags, "poly-mutated")
		} else if cnt < t {
			tags = append(tags, "poly-toofew")
			if impl != hx.E {
				oracle = hx.Fail("recover-poly-below-threshold", "fewer than t usable shares but no error")
			}
		} else if !dup {
			tags = append(tags, "poly-enough", "nt")
			if impl != bigsVal(coeffs) {
				oracle = hx.Fail("recover-poly-wrong", "t distinct valid shares did not give the polynomial")
			}
		} else {
			tags = append(tags, "poly-dupindex")
		}
		w.Put(hx.Case{Entry: "share", Op: 3, Args: hx.L(hx.Z(q), entsVal(ents, 0), hx.Zi(t), hx.Zi(n)),
			Impl: impl, Oracle: oracle, Tags: tags})
	case 4: // RecoverCommit
		cnt, dup := usableStats(ents, n, 0)
		mutated := ""
		impl := hx.Catch(func() string {
			shs := pubShares(g, ents, q)
			before := pubSnapshot(shs)
			p, err := share.RecoverCommit(g, shs, t, n)
			if pubSnapshot(shs) != before {
				mutated = "RecoverCommit changed the shares it was given"
			}
			if err != nil {
				return hx.E
			}
			return hx.B(PtBytes(p))
		})
		oracle := "ok"
		if mutated != "" {
			oracle = hx.Fail("recover-mutates-shares", mutated)
			tags = append(tags, "commit-mutated")
		} else if cnt < t {
			tags = append(tags, "commit-toofew")
			if impl != hx.E {
				oracle = hx.Fail("recover-commit-below-threshold", "fewer than t usable shares but no error")
			}
		} else if !dup {
			tags = append(tags, "commit-enough", "nt")
			if impl != hx.B(PtBytes(Pt(g, secret, q))) {
				oracle = hx.Fail("recover-commit-wrong", "valid public shares did not give the secret commitment")
			}
		} else {
			tags = append(tags, "commit-dupindex")
		}
		w.Put(hx.Case{Entry: "share", Op: 4, Args: hx.L(hx.Z(q), hx.Zi(d0), hx.Zi(grp), entsVal(ents, grp), hx.Zi(t), hx.Zi(n)),
			Impl: impl, Oracle: oracle, Tags: tags})
	}
}

func genC09(rng *hx.Rng, tier string, w *hx.Writer) error {
	groups := []int{GrpG2, GrpEd, GrpG1}
	nRandom := 700
	maxN := 12
	if tier == "thorough" {
		nRandom = 6000
		maxN = 64
	}
	// (a) exhaustive subsets for small (t,n): RecoverSecret over every subset (as a mask), one
	// sampled permutation each; group alternates.
	limN := 5
	if tier == "thorough" {
		limN = 8
	}
	ci := 0
	for n := 1; n <= limN; n++ {
		for t := 1; t <= n; t++ {
			grp := groups[ci%2]
			ci++
			q := OrderOf(grp)
			coeffs := randCoeffs(rng, t, q)
			for mask := 0; mask < 1<<uint(n); mask++ {
				var ents []shareEnt
				for i := 0; i < n; i++ {
					if mask>>uint(i)&1 == 1 {
						ents = append(ents, shareEnt{"ok", i, refEval(coeffs, i, q)})
					} else if rng.Chance(30) {
						ents = append(ents, shareEnt{kind: "nil"})
					}
				}
				pm := rng.Perm(len(ents))
				pe := make([]shareEnt, len(ents))
				for i, j := range pm {
					pe[i] = ents[j]
				}
				c09Recover(rng, w, grp, t, n, coeffs, pe, 2)
				if mask%4 == 1 {
					c09Recover(rng, w, grp, t, n, coeffs, pe, 3)
				}
				if mask%8 == 3 && n <= 6 {
					c09Recover(rng, w, grp, t, n, coeffs, pe, 4)
				}
			}
		}
	}
	// (b) random structured cases
	for it := 0; it < nRandom; it++ {
		grp := groups[rng.Intn(3)]
		g := GroupOf(grp)
		q := OrderOf(grp)
		n := 1 + rng.Intn(maxN)
		if rng.Chance(70) && n > 9 {
			n = 1 + rng.Intn(9)
		}
		t := 1 + rng.Intn(n)
		coeffs := randCoeffs(rng, t, q)
		gtag := "grp" + string(rune('0'+grp))
		switch rng.Intn(12) {
		case 0: // Eval
			i := rng.Intn(n + 2)
			if rng.Chance(10) {
				i = 1<<31 - 2 - rng.Intn(3)
			}
			poly := share.CoefficientsToPriPoly(g, scalars(g, coeffs, q))
			reEval := func() string { return hx.Z(ScVal(g, poly.Eval(i).V)) }
			impl := hx.Catch(reEval)
			oracle := "ok"
			if impl != hx.Z(refEval(coeffs, i, q)) {
				oracle = hx.Fail("eval-wrong", "PriPoly.Eval differs from the reference polynomial value")
			}
			// no share index evaluates at zero
			if refEval(coeffs, i, q).Cmp(coeffs[0]) == 0 && t > 1 {
				// possible only by coincidence of values, not by abscissa; nothing to flag
			}
			w.Put(hx.Case{Entry: "share", Op: 1, Args: hx.L(hx.Z(q), bigsVal(coeffs), hx.Zi(i)), Impl: impl, Oracle: oracle,
				Tags: []string{gtag, "eval", "nt"}, Re: reEval})
		case 1, 2, 3: // RecoverSecret / PriPoly / Commit with junk
			k := t + rng.Intn(n-t+1)
			if rng.Chance(25) {
				k = rng.Intn(t) // below threshold
			}
			ents := buildShares(rng, coeffs, q, n, k, rng.Intn(4), rng.Chance(15))
			which := 2 + rng.Intn(3)
			if which == 4 && grp == GrpEd && len(ents) > 8 {
				which = 2
			}
			c09Recover(rng, w, grp, t, n, coeffs, ents, which)
		case 4: // Commit then Eval == Eval then commit
			i := rng.Intn(n + 1)
			if rng.Chance(30) && t > 1 {
				coeffs = craftFor(coeffs, i, q)
			}
			poly := share.CoefficientsToPriPoly(g, scalars(g, coeffs, q))
			reEval := func() string { return hx.B(PtBytes(poly.Commit(nil).Eval(i).V)) }
			impl := hx.Catch(reEval)
			oracle := "ok"
			if impl != hx.B(PtBytes(Pt(g, refEval(coeffs, i, q), q))) {
				oracle = hx.Fail("commit-eval-wrong", "Commit().Eval(i) is not the commitment of Eval(i)")
			}
			w.Put(hx.Case{Entry: "share", Op: 5, Args: hx.L(hx.Z(q), hx.Zi(grp), bigsVal(coeffs), hx.Zi(i)), Impl: impl, Oracle: oracle,
				Tags: []string{gtag, "commit-eval", "nt"}, Re: reEval})
		case 5: // PubPoly.Eval over arbitrary commitments (incl. identity)
			i := rng.Intn(n + 1)
			if rng.Chance(30) && t > 1 {
				coeffs = craftFor(coeffs, i, q)
			}
			pp := share.NewPubPoly(g, nil, points(g, coeffs, q))
			reEval := func() string { return hx.B(PtBytes(pp.Eval(i).V)) }
			impl := hx.Catch(reEval)
			w.Put(hx.Case{Entry: "share", Op: 6, Args: hx.L(hx.Z(q), hx.Zi(grp), bigsVal(coeffs), hx.Zi(i)), Impl: impl,
				Tags: []string{gtag, "pub-eval", "nt"}, Re: reEval})
		case 6: // Check
			i := rng.Intn(n)
			if rng.Chance(30) && t > 1 {
				coeffs = craftFor(coeffs, i, q)
			}
			v := refEval(coeffs, i, q)
			kind := "check-true"
			switch rng.Intn(5) {
			case 4:
				v = new(big.Int).Mod(new(big.Int).Neg(v), q)
				kind = "check-negated"
			case 0:
				v = new(big.Int).Mod(new(big.Int).Add(v, big.NewInt(1)), q)
				kind = "check-off-by-one"
			case 1:
				j := (i + 1 + rng.Intn(n)) % n
				if j != i {
					v = refEval(coeffs, j, q)
					kind = "check-other-index"
				}
			case 2:
				v = new(big.Int).Xor(v, new(big.Int).Lsh(big.NewInt(1), uint(rng.Intn(250))))
				v.Mod(v, q)
				kind = "check-bitflip"
			}
			want := eqBig(v, refEval(coeffs, i, q))
			poly := share.CoefficientsToPriPoly(g, scalars(g, coeffs, q))
			pp := poly.Commit(nil)
			// Check needs an explicit base in this version (p.b may be nil -> Mul(s, nil) = base)
			reEval := func() string { return hx.Bool(pp.Check(&share.PriShare{I: i, V: Sc(g, v, q)})) }
			impl := hx.Catch(reEval)
			oracle := "ok"
			if impl != hx.Bool(want) {
				oracle = hx.Fail("check-wrong", "PubPoly.Check does not accept exactly the true share value")
			}
			w.Put(hx.Case{Entry: "share", Op: 7, Args: hx.L(hx.Z(q), bigsVal(coeffs), hx.Zi(i), hx.Z(v)), Impl: impl, Oracle: oracle,
				Tags: []string{gtag, kind, "nt"}, Re: reEval})
		case 7: // PriPoly.Add
			t2 := t
			if rng.Chance(25) {
				t2 = 1 + rng.Intn(n)
			}
			c2 := randCoeffs(rng, t2, q)
			p1 := share.CoefficientsToPriPoly(g, scalars(g, coeffs, q))
			p2 := share.CoefficientsToPriPoly(g, scalars(g, c2, q))
			impl := hx.Catch(func() string {
				r, err := p1.Add(p2)
				if err != nil {
					return hx.E
				}
				cs := r.Coefficients()
				out := make([]*big.Int, len(cs))
				for i, c := range cs {
					out[i] = ScVal(g, c)
				}
				return bigsVal(out)
			})
			oracle := "ok"
			if t == t2 {
				sum := make([]*big.Int, t)
				for i := range sum {
					sum[i] = new(big.Int).Mod(new(big.Int).Add(coeffs[i], c2[i]), q)
				}
				if impl != bigsVal(sum) {
					oracle = hx.Fail("add-wrong", "PriPoly.Add is not the coefficient-wise sum")
				}
			} else if impl != hx.E {
				oracle = hx.Fail("add-length", "PriPoly.Add of different lengths did not fail")
			}
			w.Put(hx.Case{Entry: "share", Op: 8, Args: hx.L(hx.Z(q), bigsVal(coeffs), bigsVal(c2)), Impl: impl, Oracle: oracle,
				Tags: []string{gtag, "pri-add", "nt"}})
		case 8: // PubPoly.Add, and homomorphism commit(p+q) = commit p + commit q
			t2 := t
			if rng.Chance(25) {
				t2 = 1 + rng.Intn(n)
			}
			c2 := randCoeffs(rng, t2, q)
			// equal, opposite and identity commitments at the same position (P+P, P+(-P), P+O)
			for j := range c2 {
				if j < len(coeffs) {
					switch rng.Intn(6) {
					case 0:
						c2[j] = new(big.Int).Set(coeffs[j])
					case 1:
						c2[j] = new(big.Int).Mod(new(big.Int).Neg(coeffs[j]), q)
					case 2:
						c2[j] = big.NewInt(0)
					}
				}
			}
			p1 := share.NewPubPoly(g, nil, points(g, coeffs, q))
			p2 := share.NewPubPoly(g, nil, points(g, c2, q))
			enc := func(ps []kyber.Point) string {
				s := make([]string, len(ps))
				for i, p := range ps {
					s[i] = hx.B(PtBytes(p))
				}
				return hx.L(s...)
			}
			impl := hx.Catch(func() string {
				r, err := p1.Add(p2)
				if err != nil {
					return hx.E
				}
				_, cs := r.Info()
				return enc(cs)
			})
			oracle := "ok"
			if t == t2 {
				sum := make([]*big.Int, t)
				for i := range sum {
					sum[i] = new(big.Int).Mod(new(big.Int).Add(coeffs[i], c2[i]), q)
				}
				if impl != enc(points(g, sum, q)) {
					oracle = hx.Fail("pub-add-wrong", "PubPoly.Add is not the commitment of the sum")
				}
			} else if impl != hx.E {
				oracle = hx.Fail("pub-add-length", "PubPoly.Add of different lengths did not fail")
			}
			w.Put(hx.Case{Entry: "share", Op: 9, Args: hx.L(hx.Z(q), hx.Zi(grp), bigsVal(coeffs), bigsVal(c2)), Impl: impl, Oracle: oracle,
				Tags: []string{gtag, "pub-add", "nt"}})
		case 9, 10: // Equal (private / public): same, one coefficient changed, prefix, extension
			c2 := make([]*big.Int, len(coeffs))
			copy(c2, coeffs)
			kind := "same"
			switch rng.Intn(5) {
			case 0:
				j := rng.Intn(len(c2))
				c2[j] = new(big.Int).Mod(new(big.Int).Add(c2[j], big.NewInt(1)), q)
				kind = "changed"
			case 1:
				if len(c2) > 1 {
					c2 = c2[:1+rng.Intn(len(c2)-1)]
					kind = "prefix"
				}
			case 2:
				c2 = append(c2, rng.BigBelow(q))
				kind = "extended"
			case 3:
				c2 = append(c2, big.NewInt(0))
				kind = "extended-zero"
			}
			want := len(c2) == len(coeffs)
			if want {
				for i := range c2 {
					if !eqBig(c2[i], coeffs[i]) {
						want = false
					}
				}
			}
			pub := rng.Bool()
			var impl string
			op := 10
			name := "pri-equal-"
			if pub {
				op = 11
				name = "pub-equal-"
				p1 := share.NewPubPoly(g, nil, points(g, coeffs, q))
				p2 := share.NewPubPoly(g, nil, points(g, c2, q))
				impl = hx.Catch(func() string { return hx.Bool(p1.Equal(p2)) })
			} else {
				p1 := share.CoefficientsToPriPoly(g, scalars(g, coeffs, q))
				p2 := share.CoefficientsToPriPoly(g, scalars(g, c2, q))
				impl = hx.Catch(func() string { return hx.Bool(p1.Equal(p2)) })
			}
			oracle := "ok"
			if impl != hx.Bool(want) {
				oracle = hx.Fail(name+"wrong", "Equal does not coincide with equality of coefficient lists ("+kind+")")
			}
			w.Put(hx.Case{Entry: "share", Op: op, Args: hx.L(hx.Z(q), bigsVal(coeffs), bigsVal(c2)), Impl: impl, Oracle: oracle,
				Tags: []string{gtag, name + kind, "nt"}})
		case 11: // PriPoly.Mul
			c2 := randCoeffs(rng, 1+rng.Intn(4), q)
			p1 := share.CoefficientsToPriPoly(g, scalars(g, coeffs, q))
			p2 := share.CoefficientsToPriPoly(g, scalars(g, c2, q))
			impl := hx.Catch(func() string {
				cs := p1.Mul(p2).Coefficients()
				out := make([]*big.Int, len(cs))
				for i, c := range cs {
					out[i] = ScVal(g, c)
				}
				return bigsVal(out)
			})
			w.Put(hx.Case{Entry: "share", Op: 13, Args: hx.L(hx.Z(q), bigsVal(coeffs), bigsVal(c2)), Impl: impl,
				Tags: []string{gtag, "pri-mul", "nt"}})
		}
	}
	// large qualifying sets: products of 20 and more abscissae, low indices and indices near the top
	for _, grp := range []int{GrpG2, GrpEd} {
		q := OrderOf(grp)
		for _, cfg := range [][3]int{{21, 24, 0}, {24, 30, 0}, {12, 64, 52}, {33, 40, 3}, {64, 64, 0}} {
			t, n, first := cfg[0], cfg[1], cfg[2]
			coeffs := randCoeffs(rng, t, q)
			var ents []shareEnt
			for j := 0; j < t; j++ {
				ents = append(ents, shareEnt{"ok", first + j, refEval(coeffs, first+j, q)})
			}
			pm := rng.Perm(len(ents))
			sh := make([]shareEnt, len(ents))
			for a, b := range pm {
				sh[a] = ents[b]
			}
			ents = sh
			c09Recover(rng, w, grp, t, n, coeffs, ents, 2)
			if t <= 33 {
				c09Recover(rng, w, grp, t, n, coeffs, ents, 3)
			}
		}
	}
	c09Histories(rng, tier, w)
	c09TwoInstances(rng, w)
	return nil
}

// Commitment polynomials whose commitments (and base point) are point OBJECTS with a history - sums
// accumulated in place, clones, decoded points, multiples of earlier results (props/pointmachine.go) -
// handed to NewPubPoly without anything looking at them first: Eval must give the commitment of the
// polynomial's value, Check must accept exactly the true share, Equal / Add must agree with
// polynomials built from freshly computed points.
func c09Histories(rng *hx.Rng, tier string, w *hx.Writer) {
	nProg := 40
	if tier == "thorough" {
		nProg = 800
	}
	for _, grp := range []int{GrpG2, GrpEd} {
		g, q := GroupOf(grp), OrderOf(grp)
		gtag := fmt.Sprintf("g%d", grp)
		for it := 0; it < nProg; it++ {
			var prog []string
			var problems []string
			res := hx.Catch(func() string {
				regs := pmRun(rng, g, q, 2+rng.Intn(8), &prog)
				t := 2 + rng.Intn(3)
				if t > len(regs) {
					t = len(regs)
				}
				pm := rng.Perm(len(regs))[:t]
				commits := make([]kyber.Point, t)
				coeffs := make([]*big.Int, t)
				for k, r := range pm {
					commits[k], coeffs[k] = regs[r].p, regs[r].d
				}
				pp := share.NewPubPoly(g, nil, commits)
				for _, i := range []int{0, 1, 2 + rng.Intn(6)} {
					v := refEval(coeffs, i, q)
					if !bytes.Equal(PtBytes(pp.Eval(i).V), PtBytes(Pt(g, v, q))) {
						problems = append(problems, fmt.Sprintf("Eval(%d) is not the commitment of the polynomial's value there (commitments r%v)", i, pm))
						break
					}
					if !pp.Check(&share.PriShare{I: i, V: Sc(g, v, q)}) {
						problems = append(problems, fmt.Sprintf("Check refuses the true share at index %d (commitments r%v)", i, pm))
						break
					}
					if pp.Check(&share.PriShare{I: i, V: Sc(g, new(big.Int).Add(v, big.NewInt(1)), q)}) {
						problems = append(problems, fmt.Sprintf("Check accepts a wrong share at index %d (commitments r%v)", i, pm))
						break
					}
				}
				fresh := share.NewPubPoly(g, nil, points(g, coeffs, q))
				if !pp.Equal(fresh) || !fresh.Equal(pp) {
					problems = append(problems, "Equal tells the polynomial from the one built from freshly computed commitments")
				}
				c2 := randCoeffs(rng, t, q)
				sum, err := pp.Add(share.NewPubPoly(g, nil, points(g, c2, q)))
				if err != nil {
					problems = append(problems, "Add failed: "+err.Error())
				} else {
					cs := make([]*big.Int, t)
					for k := range cs {
						cs[k] = new(big.Int).Mod(new(big.Int).Add(coeffs[k], c2[k]), q)
					}
					i := rng.Intn(5)
					if !bytes.Equal(PtBytes(sum.Eval(i).V), PtBytes(Pt(g, refEval(cs, i, q), q))) {
						problems = append(problems, "the sum with another polynomial does not evaluate to the sum of the values")
					}
				}
				// a base point with a history
				for _, r := range regs {
					if r.d.Sign() == 0 {
						continue
					}
					pc := randCoeffs(rng, 2, q)
					pri := share.CoefficientsToPriPoly(g, scalars(g, pc, q))
					pub := pri.Commit(r.p)
					_, cm := pub.Info()
					for k, c := range cm {
						if !bytes.Equal(PtBytes(c), PtBytes(Pt(g, new(big.Int).Mul(pc[k], r.d), q))) {
							problems = append(problems, "Commit over a base point with a history gives a wrong commitment")
							break
						}
					}
					if !pub.Check(pri.Eval(1)) {
						problems = append(problems, "Check over a base point with a history refuses the true share")
					}
					break
				}
				return hx.B([]byte(strings.Join(problems, "; ")))
			})
			oracle := "ok"
			text := strings.Join(prog, "; ")
			if res == hx.P {
				oracle = hx.Fail("commitment-algebra-wrong", "panic after the program "+text+": "+hx.LastPanic)
			} else if len(problems) > 0 {
				oracle = hx.Fail("commitment-algebra-wrong", strings.Join(problems, "; ")+" - after the program "+text)
			}
			w.Put(hx.Case{Entry: "-", Op: 0, Args: hx.L(hx.Zi(grp), hx.B([]byte(text))), Impl: res, Oracle: oracle,
				Tags: []string{gtag, "commitments-with-history", "nt"}})
		}
	}
}

// The same group reached through two suite instances (a node builds its suite in more than one
// place): polynomials with the same coefficients are equal, sums are defined.
func c09TwoInstances(rng *hx.Rng, w *hx.Writer) {
	type inst struct {
		name   string
		g1, g2 kyber.Group
		q      *big.Int
		sc     kyber.Group // the group whose scalars Sc builds
	}
	bn2 := bn256.NewSuite()
	ed2 := edwards25519.NewBlakeSHA256Ed25519()
	for _, in := range []inst{{"bn256-G2", Bn.G2(), bn2.G2(), BnQ, Bn.G2()}, {"bn256-G1", Bn.G1(), bn2.G1(), BnQ, Bn.G1()}, {"ed25519", Ed, ed2, EdL, Ed}} {
		for it := 0; it < 3; it++ {
			t := 1 + rng.Intn(4)
			c1, c2 := randCoeffs(rng, t, in.q), randCoeffs(rng, t, in.q)
			var problems []string
			res := hx.Catch(func() string {
				a := share.CoefficientsToPriPoly(in.g1, scalars(in.sc, c1, in.q))
				b := share.CoefficientsToPriPoly(in.g2, scalars(in.sc, c1, in.q))
				if !a.Equal(b) || !b.Equal(a) {
					problems = append(problems, "two private polynomials with the same coefficients compare unequal")
				}
				b2 := share.CoefficientsToPriPoly(in.g2, scalars(in.sc, c2, in.q))
				if sum, err := a.Add(b2); err != nil {
					problems = append(problems, "private Add: "+err.Error())
				} else {
					want := new(big.Int).Mod(new(big.Int).Add(refEval(c1, 2, in.q), refEval(c2, 2, in.q)), in.q)
					if ScVal(in.sc, sum.Eval(2).V).Cmp(want) != 0 {
						problems = append(problems, "private Add gives a wrong polynomial")
					}
				}
				pa := share.NewPubPoly(in.g1, nil, points(in.g1, c1, in.q))
				pb := share.NewPubPoly(in.g2, nil, points(in.g1, c1, in.q))
				if !pa.Equal(pb) || !pb.Equal(pa) {
					problems = append(problems, "two commitment polynomials with the same commitments compare unequal")
				}
				pb2 := share.NewPubPoly(in.g2, nil, points(in.g1, c2, in.q))
				if sum, err := pa.Add(pb2); err != nil {
					problems = append(problems, "commitment Add: "+err.Error())
				} else {
					want := new(big.Int).Mod(new(big.Int).Add(refEval(c1, 1, in.q), refEval(c2, 1, in.q)), in.q)
					if !bytes.Equal(PtBytes(sum.Eval(1).V), PtBytes(Pt(in.g1, want, in.q))) {
						problems = append(problems, "commitment Add gives a wrong polynomial")
					}
				}
				return hx.B([]byte(strings.Join(problems, "; ")))
			})
			oracle := "ok"
			if res == hx.P {
				oracle = hx.Fail("commitment-algebra-wrong", in.name+" through two suite instances: panic: "+hx.LastPanic)
			} else if len(problems) > 0 {
				oracle = hx.Fail("commitment-algebra-wrong", in.name+" through two suite instances: "+strings.Join(problems, "; "))
			}
			w.Put(hx.Case{Entry: "-", Op: 0, Args: hx.L(hx.B([]byte(in.name)), bigsVal(c1), bigsVal(c2)), Impl: res, Oracle: oracle,
				Tags: []string{"two-suite-instances", "nt"}})
		}
	}
}
