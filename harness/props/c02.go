package props

import (
	"encoding/binary"
	"fmt"
	"math/big"

	"github.com/DOSNetwork/core/share"
	"github.com/DOSNetwork/core/sign/bls"
	"github.com/DOSNetwork/core/sign/tbls"
	"golang.org/x/crypto/sha3"

	"verif/harness/hx"
)

func init() {
	Registry["C02"] = func(r *hx.Rng, tier string, w *hx.Writer) error { return genTbls(r, tier, w, "C02") }
	Registry["C03"] = func(r *hx.Rng, tier string, w *hx.Writer) error { return genTbls(r, tier, w, "C03") }
}

func keccakModQ(msg []byte) *big.Int {
	h := sha3.NewLegacyKeccak256()
	h.Write(msg)
	return new(big.Int).Mod(new(big.Int).SetBytes(h.Sum(nil)), BnQ)
}

type sigEnt struct {
	kind  string
	bytes []byte
	idx   int      // index the bytes announce (-1: none)
	dlog  *big.Int // logarithm of the point the value decodes to; nil = does not decode
}

func g1Bytes(d *big.Int) []byte { return PtBytes(Pt(Bn.G1(), new(big.Int).Mod(d, BnQ), BnQ)) }

func withIndex(i int, val []byte) []byte {
	b := make([]byte, 2+len(val))
	binary.BigEndian.PutUint16(b, uint16(i))
	copy(b[2:], val)
	return b
}

// add p to the 32-byte big-endian coordinate at off (still < 2^256)
func addP(val []byte, off int) []byte {
	out := append([]byte{}, val...)
	x := new(big.Int).SetBytes(val[off : off+32])
	x.Add(x, BnP)
	xb := x.Bytes()
	if len(xb) > 32 {
		return nil
	}
	for i := 0; i < 32; i++ {
		out[off+i] = 0
	}
	copy(out[off+32-len(xb):off+32], xb)
	return out
}

func realG1Accepts(val []byte) bool {
	p := Bn.G1().Point()
	ok := false
	func() {
		defer func() { recover() }()
		ok = p.UnmarshalBinary(val) == nil
	}()
	return ok
}

type tblsSetup struct {
	t, n   int
	coeffs []*big.Int
	pub    *share.PubPoly
	msg    []byte
	hm     *big.Int
}

func (s *tblsSetup) shareLog(i int, coeffs []*big.Int, hm *big.Int) *big.Int {
	v := refEval(coeffs, i, BnQ)
	return v.Mul(v, hm).Mod(v, BnQ)
}

func mkEntry(rng *hx.Rng, s *tblsSetup, kind string, base []sigEnt) (sigEnt, bool) {
	i := rng.Intn(s.n)
	valid := func(i int) sigEnt {
		d := s.shareLog(i, s.coeffs, s.hm)
		return sigEnt{"valid", withIndex(i, g1Bytes(d)), i, d}
	}
	switch kind {
	case "valid":
		return valid(i), true
	case "dupexact":
		if len(base) == 0 {
			return sigEnt{}, false
		}
		e := base[rng.Intn(len(base))]
		e.kind = "dupexact"
		return e, true
	case "trail":
		e := valid(i)
		e.kind = "trail"
		e.bytes = append(e.bytes, rng.Bytes(1+rng.Intn(3))...)
		return e, true
	case "unred":
		e := valid(i)
		off := 2
		if rng.Bool() {
			off = 34
		}
		nb := addP(e.bytes, off)
		if nb == nil {
			return sigEnt{}, false
		}
		e.kind = "unred"
		e.bytes = nb
		return e, true
	case "short":
		l := rng.Intn(3)
		b := rng.Bytes(l)
		idx := -1
		if l == 2 {
			idx = int(binary.BigEndian.Uint16(b))
		}
		return sigEnt{"short" + string(rune('0'+l)), b, idx, nil}, true
	case "trunc":
		e := valid(i)
		e.kind = "trunc"
		e.bytes = e.bytes[:2+rng.Intn(64)]
		e.dlog = nil
		return e, true
	case "offcurve":
		e := valid(i)
		e.kind = "offcurve"
		e.bytes[65] ^= 1
		e.dlog = nil
		return e, true
	case "bitflip":
		e := valid(i)
		e.kind = "bitflip"
		pos := 2 + rng.Intn(64)
		e.bytes[pos] ^= 1 << uint(rng.Intn(8))
		e.dlog = nil
		return e, true
	case "relabel":
		e := valid(i)
		k := rng.Intn(s.n + 2)
		if k == i {
			k = (i + 1) % (s.n + 1)
		}
		e.kind = "relabel"
		binary.BigEndian.PutUint16(e.bytes, uint16(k))
		e.idx = k
		return e, true
	case "othermsg":
		hm2 := keccakModQ(append([]byte("x"), s.msg...))
		d := s.shareLog(i, s.coeffs, hm2)
		return sigEnt{"othermsg", withIndex(i, g1Bytes(d)), i, d}, true
	case "otherpoly":
		c2 := randCoeffs(rng, s.t, BnQ)
		d := s.shareLog(i, c2, s.hm)
		return sigEnt{"otherpoly", withIndex(i, g1Bytes(d)), i, d}, true
	case "bigidx":
		j := s.n + rng.Intn(3)
		d := s.shareLog(j, s.coeffs, s.hm)
		return sigEnt{"bigidx", withIndex(j, g1Bytes(d)), j, d}, true
	case "identity":
		return sigEnt{"identity", withIndex(i, make([]byte, 64)), i, big.NewInt(0)}, true
	case "groupsig-far":
		// the group signature itself (public once a request was answered) under an index whose 16 bits
		// read as a negative number, or far out of range
		j := []int{0xFFFF, 0xFFFE, 0x8000, 0x8001, 0x7FFF}[rng.Intn(5)]
		if j < s.n {
			return sigEnt{}, false
		}
		d := new(big.Int).Mod(new(big.Int).Mul(s.coeffs[0], s.hm), BnQ)
		return sigEnt{"groupsig-far", withIndex(j, g1Bytes(d)), j, d}, true
	case "faridx":
		// the true share of a far index (a member that does not exist)
		j := []int{255, 256, 0x7FFF, 0x8000, 0xFFFF}[rng.Intn(5)]
		if j < s.n {
			return sigEnt{}, false
		}
		d := s.shareLog(j, s.coeffs, s.hm)
		return sigEnt{"faridx", withIndex(j, g1Bytes(d)), j, d}, true
	}
	return sigEnt{}, false
}

var junkKinds = []string{"dupexact", "trail", "unred", "short", "trunc", "offcurve", "bitflip", "relabel",
	"othermsg", "otherpoly", "bigidx", "identity", "groupsig-far", "faridx"}

func tblsCase(rng *hx.Rng, w *hx.Writer, s *tblsSetup, ents []sigEnt, mode string) {
	// decode table, cross-checked against the real decoder
	tbl := []string{}
	seen := map[string]bool{}
	for _, e := range ents {
		if len(e.bytes) < 2 {
			continue
		}
		val := e.bytes[2:]
		k := string(val)
		if seen[k] {
			continue
		}
		seen[k] = true
		acc := realG1Accepts(val)
		if acc != (e.dlog != nil) {
			// the generator's belief about this byte string is wrong: drop the whole case
			return
		}
		if e.dlog != nil {
			tbl = append(tbl, hx.L(hx.B(val), hx.Z(e.dlog)))
		} else {
			tbl = append(tbl, hx.L(hx.B(val), hx.N))
		}
	}
	// which indices are genuinely covered
	cover := map[int]bool{}
	kinds := map[string]bool{}
	for _, e := range ents {
		kinds[e.kind] = true
		if e.idx >= 0 && e.idx < s.n && e.dlog != nil && e.dlog.Cmp(s.shareLog(e.idx, s.coeffs, s.hm)) == 0 {
			cover[e.idx] = true
		}
	}
	sigs := make([][]byte, len(ents))
	sv := make([]string, len(ents))
	for i, e := range ents {
		sigs[i] = append([]byte{}, e.bytes...)
		sv[i] = hx.B(e.bytes)
	}
	recoverOnce := func() string {
		cp := make([][]byte, len(sigs))
		for i := range sigs {
			cp[i] = append([]byte{}, sigs[i]...)
		}
		r, err := tbls.Recover(Bn, s.pub, append([]byte{}, s.msg...), cp, s.t, s.n)
		if err != nil {
			return hx.E
		}
		return hx.B(r)
	}
	impl := hx.Catch(recoverOnce)
	want := g1Bytes(new(big.Int).Mod(new(big.Int).Mul(s.coeffs[0], s.hm), BnQ))
	oracle := "ok"
	tags := []string{"recover"}
	for k := range kinds {
		tags = append(tags, "k:"+k)
	}
	if len(cover) >= s.t {
		tags = append(tags, "enough", "nt")
		switch {
		case impl == hx.P:
			oracle = hx.Fail("recover-panic", "Recover panicked although valid shares of >= t distinct members are present: "+hx.LastPanic)
		case impl == hx.E:
			oracle = hx.Fail("recover-error-despite-threshold", "Recover returned an error although valid shares of >= t distinct members are present")
		case impl != hx.B(want):
			oracle = hx.Fail("recover-wrong-value", "Recover returned something other than the BLS signature under the shared secret")
		default:
			var verr error
			func() {
				defer func() {
					if r := recover(); r != nil {
						verr = errPanic
					}
				}()
				verr = bls.Verify(Bn, s.pub.Commit(), s.msg, want)
			}()
			if verr != nil {
				oracle = hx.Fail("recovered-does-not-verify", "the recovered signature fails bls.Verify under the group key")
			}
		}
	} else {
		tags = append(tags, "below", "nt")
		switch {
		case impl == hx.P:
			oracle = hx.Fail("recover-panic-below-threshold", "Recover panicked (fewer than t valid distinct members): "+hx.LastPanic)
		case impl != hx.E:
			oracle = hx.Fail("accepted-below-threshold", "Recover returned a signature with valid shares of fewer than t distinct members")
		}
	}
	w.Put(hx.Case{Entry: "tbls", Op: 1,
		Args: hx.L(hx.Z(BnQ), hx.Zi(1), bigsVal(s.coeffs), hx.Z(s.hm), hx.L(tbl...), hx.L(sv...), hx.Zi(s.t), hx.Zi(s.n)),
		Impl: impl, Oracle: oracle, Tags: tags, Re: recoverOnce})
}

type panicErr struct{}

func (panicErr) Error() string { return "panic" }

var errPanic error = panicErr{}

func newSetup(rng *hx.Rng, t, n int) *tblsSetup {
	s := &tblsSetup{t: t, n: n}
	s.coeffs = randCoeffs(rng, t, BnQ)
	if s.coeffs[t-1].Sign() == 0 {
		s.coeffs[t-1] = big.NewInt(7)
	}
	s.pub = share.NewPubPoly(Bn.G2(), nil, points(Bn.G2(), s.coeffs, BnQ))
	switch rng.Intn(6) {
	case 0:
		s.msg = []byte{}
	case 1:
		s.msg = rng.Bytes(1 << 16)
	default:
		s.msg = rng.Bytes(1 + rng.Intn(80))
	}
	s.hm = keccakModQ(s.msg)
	return s
}

func genTbls(rng *hx.Rng, tier string, w *hx.Writer, mode string) error {
	nCases := 110
	if tier == "thorough" {
		nCases = 2500
	}
	// (a) exhaustive subsets for small n (quick: n<=4, thorough: n<=6), shares in a sampled order
	limN := 4
	if tier == "thorough" {
		limN = 6
	}
	for n := 2; n <= limN; n++ {
		for t := 2; t <= n; t++ {
			s := newSetup(rng, t, n)
			for mask := 0; mask < 1<<uint(n); mask++ {
				var ents []sigEnt
				for i := 0; i < n; i++ {
					if mask>>uint(i)&1 == 1 {
						d := s.shareLog(i, s.coeffs, s.hm)
						ents = append(ents, sigEnt{"valid", withIndex(i, g1Bytes(d)), i, d})
					}
				}
				pm := rng.Perm(len(ents))
				pe := make([]sigEnt, len(ents))
				for i, j := range pm {
					pe[i] = ents[j]
				}
				tblsCase(rng, w, s, pe, mode)
			}
		}
	}
	// (b) catalogue cases
	for it := 0; it < nCases; it++ {
		n := 2 + rng.Intn(7)
		switch rng.Intn(10) {
		case 0:
			n = 2 + rng.Intn(15)
		case 1:
			if it%7 == 0 {
				n = 257 + rng.Intn(10) // indices that need both bytes of the prefix
			}
		case 2, 3:
			if it%3 == 0 {
				n = 65 + rng.Intn(8) // member indices beyond a machine word's bits
			}
		}
		t := 2 + rng.Intn(n-1)
		if n > 20 {
			t = 2 + rng.Intn(3)
		}
		s := newSetup(rng, t, n)
		var k int
		below := (mode == "C03" && rng.Chance(75)) || (mode == "C02" && rng.Chance(15))
		if below {
			k = rng.Intn(t)
			if n > 64 {
				k = t - 1
			}
		} else {
			k = t + rng.Intn(n-t+1)
			if n > 20 {
				k = t + rng.Intn(2)
			}
		}
		perm := rng.Perm(n)
		hi := 256
		if n <= 256 {
			hi = 64
		}
		if n > 64 && k > 0 {
			// make sure a high index is among the valid ones
			for j, v := range perm {
				if v >= hi {
					perm[0], perm[j] = perm[j], perm[0]
					break
				}
			}
		}
		var ents []sigEnt
		for j := 0; j < k; j++ {
			i := perm[j]
			d := s.shareLog(i, s.coeffs, s.hm)
			ents = append(ents, sigEnt{"valid", withIndex(i, g1Bytes(d)), i, d})
		}
		if n > 64 && k > 0 {
			// the high-index member's share once more under other encodings: still one member
			src := ents[0]
			ins := func(e sigEnt) {
				pos := 1 + rng.Intn(len(ents))
				ents = append(ents, sigEnt{})
				copy(ents[pos+1:], ents[pos:])
				ents[pos] = e
			}
			ins(sigEnt{"trail", append(append([]byte{}, src.bytes...), rng.Bytes(1)...), src.idx, src.dlog})
			if nb := addP(src.bytes, 2); nb != nil {
				ins(sigEnt{"unred", nb, src.idx, src.dlog})
			}
		}
		nj := rng.Intn(5)
		if below {
			nj = 1 + rng.Intn(3*t)
			if nj > 12 {
				nj = 12
			}
		}
		for j := 0; j < nj; j++ {
			kind := junkKinds[rng.Intn(len(junkKinds))]
			e, ok := mkEntry(rng, s, kind, ents)
			if !ok {
				continue
			}
			if below && (kind == "trail" || kind == "unred") {
				// re-encodings of an already present valid share only (they must not add coverage)
				if len(ents) == 0 {
					continue
				}
				src := ents[rng.Intn(len(ents))]
				if src.kind != "valid" {
					continue
				}
				if kind == "trail" {
					e = sigEnt{"trail", append(append([]byte{}, src.bytes...), rng.Bytes(1)...), src.idx, src.dlog}
				} else {
					nb := addP(src.bytes, 2)
					if nb == nil {
						continue
					}
					e = sigEnt{"unred", nb, src.idx, src.dlog}
				}
			}
			if below && kind == "valid" {
				continue
			}
			pos := rng.Intn(len(ents) + 1)
			ents = append(ents, sigEnt{})
			copy(ents[pos+1:], ents[pos:])
			ents[pos] = e
		}
		tblsCase(rng, w, s, ents, mode)

		// share verification (tbls.Verify) on one entry and, for C03, on single-bit modifications
		if len(ents) > 0 && (mode == "C03" || it%4 == 0) {
			e := ents[rng.Intn(len(ents))]
			tblsVerifyCase(rng, w, s, e, s.msg, s.pub, s.coeffs, "verify-entry")
			if e.kind == "valid" {
				// flip one bit of the share
				b := append([]byte{}, e.bytes...)
				pos := rng.Intn(len(b))
				b[pos] ^= 1 << uint(rng.Intn(8))
				fe := sigEnt{"flip", b, int(binary.BigEndian.Uint16(b)), nil}
				if pos < 2 {
					fe.dlog = e.dlog
				} else if realG1Accepts(b[2:]) {
					goto skipflip
				}
				tblsVerifyCase(rng, w, s, fe, s.msg, s.pub, s.coeffs, "verify-share-bitflip")
			skipflip:
				// flip one bit of the message
				if len(s.msg) > 0 && len(s.msg) < 200 {
					m2 := append([]byte{}, s.msg...)
					m2[rng.Intn(len(m2))] ^= 1 << uint(rng.Intn(8))
					tblsVerifyCase(rng, w, s, e, m2, s.pub, s.coeffs, "verify-msg-bitflip")
				}
				// change one commitment of the public polynomial
				c2 := make([]*big.Int, len(s.coeffs))
				copy(c2, s.coeffs)
				j := rng.Intn(len(c2))
				c2[j] = new(big.Int).Mod(new(big.Int).Add(c2[j], big.NewInt(1+int64(rng.Intn(5)))), BnQ)
				pub2 := share.NewPubPoly(Bn.G2(), nil, points(Bn.G2(), c2, BnQ))
				tblsVerifyCase(rng, w, s, e, s.msg, pub2, c2, "verify-pubpoly-changed")
			}
		}
		// tbls.Sign layout
		if it%5 == 0 {
			i := rng.Intn(n)
			if rng.Chance(20) {
				i = 256 + rng.Intn(1000)
			}
			xi := refEval(s.coeffs, i, BnQ)
			signOnce := func() string {
				b, err := tbls.Sign(Bn, &share.PriShare{I: i, V: Sc(Bn.G2(), xi, BnQ)}, append([]byte{}, s.msg...))
				if err != nil {
					return hx.E
				}
				return hx.L(hx.B(b[:2]), hx.B(b[2:]))
			}
			impl := hx.Catch(signOnce)
			oracle := "ok"
			want := hx.L(hx.B([]byte{byte(i >> 8), byte(i)}), hx.B(g1Bytes(new(big.Int).Mod(new(big.Int).Mul(xi, s.hm), BnQ))))
			if impl != want {
				oracle = hx.Fail("sign-layout", "tbls.Sign is not index(2 bytes, big-endian) || x_i*H(m)")
			}
			w.Put(hx.Case{Entry: "tbls", Op: 4, Args: hx.L(hx.Z(BnQ), hx.Zi(i), hx.Z(xi), hx.Z(s.hm)), Impl: impl, Oracle: oracle,
				Tags: []string{"sign", "nt"}, Re: signOnce})
		}
	}
	// (c) a short entry that is a prefix of a genuine share whose remaining bytes are all zero, placed
	// before that share; the share is needed to reach the threshold
	nz := 6
	if tier == "thorough" {
		nz = 60
	}
	for it := 0; it < nz; it++ {
		n := 3 + rng.Intn(4)
		t := 2 + rng.Intn(n-1)
		s := newSetup(rng, t, n)
		var ents []sigEnt
		if it%2 == 0 {
			// a member whose key share is zero: its signature share is the point at infinity
			k := rng.Intn(n)
			if it%4 == 0 {
				k = 0
			}
			x := big.NewInt(int64(k + 1))
			acc, pw := new(big.Int), big.NewInt(1)
			for j := 1; j < t; j++ {
				pw = new(big.Int).Mod(new(big.Int).Mul(pw, x), BnQ)
				acc.Add(acc, new(big.Int).Mul(s.coeffs[j], pw))
			}
			s.coeffs[0] = acc.Neg(acc).Mod(acc, BnQ)
			s.pub = share.NewPubPoly(Bn.G2(), nil, points(Bn.G2(), s.coeffs, BnQ))
			if k == 0 {
				ents = append(ents, sigEnt{"short0", []byte{}, -1, nil})
			}
			ents = append(ents, sigEnt{"short2", []byte{byte(k >> 8), byte(k)}, k, nil})
			ents = append(ents, sigEnt{"valid", withIndex(k, make([]byte, 64)), k, big.NewInt(0)})
			for _, i := range rng.Perm(n) {
				if i != k && len(ents) < t+1+btoi(k == 0) {
					d := s.shareLog(i, s.coeffs, s.hm)
					ents = append(ents, sigEnt{"valid", withIndex(i, g1Bytes(d)), i, d})
				}
			}
		} else {
			// a message for which some member's share ends in a zero byte; the copy cut by one byte first
			k := -1
			for try := 0; try < 4000 && k < 0; try++ {
				s.msg = rng.Bytes(1 + rng.Intn(40))
				s.hm = keccakModQ(s.msg)
				for i := 0; i < n; i++ {
					if b := g1Bytes(s.shareLog(i, s.coeffs, s.hm)); b[63] == 0 {
						k = i
						break
					}
				}
			}
			if k < 0 {
				continue
			}
			d := s.shareLog(k, s.coeffs, s.hm)
			full := withIndex(k, g1Bytes(d))
			ents = append(ents, sigEnt{"trunc", append([]byte{}, full[:65]...), k, nil})
			ents = append(ents, sigEnt{"valid", full, k, d})
			for _, i := range rng.Perm(n) {
				if i != k && len(ents) < t+1 {
					d := s.shareLog(i, s.coeffs, s.hm)
					ents = append(ents, sigEnt{"valid", withIndex(i, g1Bytes(d)), i, d})
				}
			}
		}
		tblsCase(rng, w, s, ents, mode)
	}
	// (d) polynomials whose public-share evaluation at one member adds a point to itself (the same
	// element reached along two computations): that member's true share must verify, the identity
	// under its index must not, and t-1 genuine shares plus the forged one stay below the threshold
	nc := 6
	if tier == "thorough" {
		nc = 80
	}
	for it := 0; it < nc; it++ {
		n := 3 + rng.Intn(4)
		t := 2 + rng.Intn(n-1)
		if t > 4 {
			t = 4
		}
		s := newSetup(rng, t, n)
		victim := 1 + rng.Intn(n-1)
		base := randCoeffs(rng, t, BnQ)
		if it%2 == 0 {
			for k := 1; k < t; k++ { // large coefficients (their multiples wrap around the order)
				base[k] = new(big.Int).Sub(BnQ, big.NewInt(int64(1+rng.Intn(50))))
			}
		}
		s.coeffs = craftFor(base, victim, BnQ)
		if s.coeffs[t-1].Sign() == 0 {
			continue
		}
		s.pub = share.NewPubPoly(Bn.G2(), nil, points(Bn.G2(), s.coeffs, BnQ))
		d := s.shareLog(victim, s.coeffs, s.hm)
		trueShare := sigEnt{"valid", withIndex(victim, g1Bytes(d)), victim, d}
		forged := sigEnt{"identity", withIndex(victim, make([]byte, 64)), victim, big.NewInt(0)}
		tblsVerifyCase(rng, w, s, trueShare, s.msg, s.pub, s.coeffs, "verify-crafted-polynomial")
		tblsVerifyCase(rng, w, s, forged, s.msg, s.pub, s.coeffs, "verify-crafted-polynomial")
		var others []sigEnt
		for _, i := range rng.Perm(n) {
			if i != victim && len(others) < t-1 {
				di := s.shareLog(i, s.coeffs, s.hm)
				others = append(others, sigEnt{"valid", withIndex(i, g1Bytes(di)), i, di})
			}
		}
		tblsCase(rng, w, s, append([]sigEnt{forged}, others...), mode)    // below the threshold
		tblsCase(rng, w, s, append([]sigEnt{trueShare}, others...), mode) // exactly the threshold
	}
	return nil
}

func btoi(b bool) int {
	if b {
		return 1
	}
	return 0
}

func tblsVerifyCase(rng *hx.Rng, w *hx.Writer, s *tblsSetup, e sigEnt, msg []byte, pub *share.PubPoly, coeffs []*big.Int, tag string) {
	hm := keccakModQ(msg)
	verifyOnce := func() string {
		if err := tbls.Verify(Bn, pub, append([]byte{}, msg...), append([]byte{}, e.bytes...)); err != nil {
			return hx.E
		}
		return "z1"
	}
	impl := hx.Catch(verifyOnce)
	want := hx.E
	if e.idx >= 0 && e.dlog != nil {
		v := refEval(coeffs, e.idx, BnQ)
		v.Mul(v, hm).Mod(v, BnQ)
		if v.Cmp(e.dlog) == 0 {
			want = "z1"
		}
	}
	oracle := "ok"
	if impl != want {
		oracle = hx.Fail("share-verify-wrong", "tbls.Verify does not accept exactly the signature of this message under this member's share key ("+tag+")")
	}
	tbl := []string{}
	if len(e.bytes) >= 2 {
		if e.dlog != nil {
			tbl = append(tbl, hx.L(hx.B(e.bytes[2:]), hx.Z(e.dlog)))
		} else {
			tbl = append(tbl, hx.L(hx.B(e.bytes[2:]), hx.N))
		}
	}
	w.Put(hx.Case{Entry: "tbls", Op: 3, Args: hx.L(hx.Z(BnQ), bigsVal(coeffs), hx.Z(hm), hx.L(tbl...), hx.B(e.bytes)),
		Impl: impl, Oracle: oracle, Tags: []string{tag, "k:" + e.kind, "nt"}, Re: verifyOnce})
	// the caller reuses its message buffer: a valid share of m, then the buffer is changed in place to
	// another message of the same length - the share is not one of THAT message - and changed back
	if want == "z1" && len(msg) > 0 {
		seq := hx.Catch(func() string {
			buf := append([]byte{}, msg...)
			r := make([]string, 0, 3)
			cls := func() string {
				if tbls.Verify(Bn, pub, buf, append([]byte{}, e.bytes...)) != nil {
					return "z0"
				}
				return "z1"
			}
			r = append(r, cls())
			buf[len(buf)/2] ^= 0x40
			r = append(r, cls())
			buf[len(buf)/2] ^= 0x40
			r = append(r, cls())
			return hx.L(r...)
		})
		// what the changed message demands (a member whose key share is 0 signs every message alike)
		m2 := append([]byte{}, msg...)
		m2[len(m2)/2] ^= 0x40
		v2 := refEval(coeffs, e.idx, BnQ)
		v2.Mul(v2, keccakModQ(m2)).Mod(v2, BnQ)
		mid := "z0"
		if v2.Cmp(e.dlog) == 0 {
			mid = "z1"
		}
		o2 := "ok"
		if seq != hx.L("z1", mid, "z1") {
			o2 = hx.Fail("share-verify-wrong", "a share of message m: verify(m), change the caller's buffer in place to m', verify(m'), change it back, verify(m) gave "+seq+" instead of "+hx.L("z1", mid, "z1")+" ("+tag+", entry kind "+e.kind+", index "+fmt.Sprint(e.idx)+", message of "+fmt.Sprint(len(msg))+" bytes)")
		}
		w.Put(hx.Case{Entry: "-", Op: 0, Args: hx.L(hx.B(msg)), Impl: seq, Oracle: o2, Tags: []string{"verify-buffer-reused", "nt"}})
	}
}
