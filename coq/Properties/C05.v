(* C05 -- Byzantine participants can abort key generation but never corrupt it.
   Models: Models/Vss.v + Models/Dkg.v (repaired code), symbolic cryptography: a session id is the
   hashed term (collision freeness), a response records the key that signed it; "member i
   accepted, as member k's, the response k itself produced" is what unforgeability of k's
   signature means for an honest k.  No assumption is made about the dealer, about the deals'
   plaintexts, about the other responses, or about order. *)
From Coq Require Import ZArith List Bool.
From DosVerif Require Import Base.Val Base.Field Models.Share Models.Tbls Models.Vss Models.Dkg
     Proofs.VssProofs Proofs.DkgProofs.
Import ListNotations.
Local Open Scope Z_scope.

(* a deal whose share is inconsistent with its commitments is never approved by its recipient
   (the response says Approval exactly when share, threshold, index and session id check out) *)
Theorem C05_bad_share_not_approved :
  forall (F : Type) (O : Fops F) (v : verifier (F:=F)) eo v' r,
  process_encrypted_deal O true v eo = Ok (v', r) ->
  (r_status r = Approval <->
   exists e p x, eo = Some e /\ e_plain e = Some p /\ p_sec p = Some (v_index v, x) /\
     valid_t (p_t p) (nmembers v) = true /\ 0 <= v_index v < nmembers v /\
     check O (self_gops O) (f1 O) (p_commits p) (v_index v) x = true /\
     sid_eqb O (Sid (v_dealer v) (v_members v) (p_commits p) (p_t p)) (p_sid p) = true).
Proof. exact (@approve_iff_consistent). Qed.
Print Assumptions C05_bad_share_not_approved.

(* equivocation is detected: if honest i approved its deal from some dealer and accepted honest
   k's own response about that dealer, then i and k were given the same commitments and
   threshold -- whatever the dealer wrote into the deals *)
Theorem C05_same_dealer_same_commitments :
  forall (F : Type) (O : Fops F), Flaws O ->
  forall (vi vi1 vi2 vi3 vk vk1 : verifier (F:=F)) (ei ek : edeal (F:=F)) (pi pk : plain (F:=F)) ri rk,
  v_agg vi = None -> v_agg vk = None ->
  v_dealer vi = v_dealer vk -> v_members vi = v_members vk ->
  process_encrypted_deal O true vi (Some ei) = Ok (vi1, ri) -> e_plain ei = Some pi ->
  r_status ri = Approval ->
  process_encrypted_deal O true vk (Some ek) = Ok (vk1, rk) -> e_plain ek = Some pk ->
  agg_sid vi2 = agg_sid vi1 -> v_members vi2 = v_members vi1 ->
  process_response O true vi2 (Some rk) = Ok vi3 ->
  p_commits pi = p_commits pk /\ p_t pi = p_t pk.
Proof. exact (@same_dealer_same_commitments). Qed.
Print Assumptions C05_same_dealer_same_commitments.

(* members whose certified deals carry pairwise the same commitments finish on the same public
   polynomial, hence the same group key *)
Theorem C05_same_commitments_same_key :
  forall (F : Type) (O : Fops F) (g1 g2 : gen (F:=F)) C1 x1 C2 x2,
  dist_key_share O g1 = Ok (C1, x1) -> dist_key_share O g2 = Ok (C2, x2) ->
  map (fun p => p_commits p) (certified_deals g1) = map (fun p => p_commits p) (certified_deals g2) ->
  C1 = C2.
Proof. exact (@same_commitments_same_key). Qed.
Print Assumptions C05_same_commitments_same_key.

(* each finishing member's share lies on its public polynomial at its own index *)
Theorem C05_share_on_polynomial :
  forall (F : Type) (O : Fops F), Flaws O ->
  forall (g : gen (F:=F)) (i : Z) C x,
  dist_key_share O g = Ok (C, x) ->
  (forall p, In p (certified_deals g) ->
     exists y, p_sec p = Some (i, y) /\ check O (self_gops O) (f1 O) (p_commits p) i y = true) ->
  check O (self_gops O) (f1 O) C i x = true.
Proof. exact (@finished_share_on_polynomial). Qed.
Print Assumptions C05_share_on_polynomial.

(* a recipient that did not approve a deal does not finish: a finished session produced
   nothing but approvals *)
Theorem C05_no_approval_no_finish :
  forall (F : Type) (O : Fops F) (g : gen (F:=F)) deals resps C x,
  session O true g deals resps = Ok (C, x) ->
  exists g' out, get_and_process_deals O true g deals [] = Ok (g', out) /\
                 Forall (fun dr => r_status (snd dr) = Approval) out.
Proof. exact (@no_approval_no_finish). Qed.
Print Assumptions C05_no_approval_no_finish.

(* As pinned (before fix: commit 1e56074) the verifier kept the id the dealer WROTE and approved
   whatever it was: witness over Z/101Z -- the same deal with a foreign session id is approved by
   the old code and draws a complaint from the repaired one.  Crossing the ids of two polynomials
   between two members made both certify; replayed on the real code (n = 3): replays/prefix/C05-*.tsv *)
Definition toy_v : verifier (F:=zq 101) := mkver 7 5 1 [6; 7; 8] None.
Definition toy_e (s : sid (F:=zq 101)) : edeal (F:=zq 101) :=
  mkedeal 5 9 9 (Some 9) 12 0 9 7 5 [6; 7; 8] 0 true
          (Some (mkplain s (Some (1, zq_of 101 11)) 2 [zq_of 101 3; zq_of 101 4])).
Definition st (r : res (verifier (F:=zq 101) * response (F:=zq 101))) : val :=
  res_val (fun vr => match r_status (snd vr) with Approval => VZ 1 | Complaint => VZ 0 end) r.
Example C05_old_refuted :
  st (process_encrypted_deal (zq_ops 101) false toy_v (Some (toy_e (SidJunk 3)))) = VZ 1 /\
  st (process_encrypted_deal (zq_ops 101) true toy_v (Some (toy_e (SidJunk 3)))) = VZ 0 /\
  st (process_encrypted_deal (zq_ops 101) true toy_v
        (Some (toy_e (Sid 5 [6; 7; 8] [zq_of 101 3; zq_of 101 4] 2)))) = VZ 1.
Proof. repeat split; vm_compute; reflexivity. Qed.
Print Assumptions C05_old_refuted.
