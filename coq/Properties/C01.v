(* C01 -- A dispatched request is answered by exactly one on-chain-valid report.
   Stage level.  Model: Models/Recover.v (recoverSign) on Models/Tbls.v (tbls.Recover / bls.Verify
   at the level of discrete logarithms) and Models/Stages.v (the strip).  [hm_of c] is the logarithm
   of H(c); the group key is hd pub; "sg = hm_of c * hd pub" is the BLS equation
   e(sig, g2) = e(H(c), X) the contract evaluates on c = result ++ sender.
   The statements hold for EVERY sequence of arrivals: nil messages, shares with other contents,
   duplicates, re-encodings, shares of other requests or groups, in any order. *)
From Coq Require Import ZArith List Bool.
From DosVerif Require Import Base.Val Base.Field Models.Share Models.Tbls Models.Stages Models.Recover
     Models.QueryLoop Proofs.TblsProofs Proofs.RecoverProofs Proofs.QueryLoopProofs Proofs.NodeCompose.
Import ListNotations.
Local Open Scope Z_scope.

(* no report is ever emitted whose signature fails the contract's equation: the reported
   (result, sig) satisfies  sig = H(result ++ a) * x  for the 20 bytes a that closed the signed
   content -- the address every member derived as submitter *)
Theorem C01_only_valid_reports :
  forall (F : Type) (O : Fops F), Flaws O ->
  forall (d0 : bool) (dec : list N -> option F) (hm_of : list N -> F) (pub : list F) (t n : Z)
         (ms : list (option smsg)) (col : list (list N)) (r : list N) (sg : F),
  run_stage O d0 dec hm_of pub t n col ms = Emit r sg ->
  exists c a, length a = 20%nat /\ c = r ++ a /\ sg = fmul O (hm_of c) (hd (f0 O) pub).
Proof. exact (@report_verifies_on_chain). Qed.
Print Assumptions C01_only_valid_reports.

(* at most one report: whatever arrives after the report changes nothing *)
Theorem C01_single_report :
  forall (F : Type) (O : Fops F)
         (d0 : bool) (dec : list N -> option F) (hm_of : list N -> F) (pub : list F) (t n : Z)
         (pre : list (option smsg)) (col : list (list N)) (rest : list (option smsg)),
  run_stage O d0 dec hm_of pub t n col (pre ++ rest) =
  match run_stage O d0 dec hm_of pub t n col pre with
  | Cont => run_stage O d0 dec hm_of pub t n (col ++ sigs_of pre) rest
  | o => o
  end.
Proof. exact (@run_split). Qed.
Print Assumptions C01_single_report.

(* the stage never panics when every content is at least an address long (shorter contents are not
   produced by any stage; a report on one would need t valid shares on it) *)
Theorem C01_stage_no_panic :
  forall (F : Type) (O : Fops F), Flaws O -> forall nmax, NodeLaws O nmax ->
  forall (d0 : bool) (dec : list N -> option F) (hm_of : list N -> F) (pub : list F) (t n : Z),
  n <= nmax -> Z.of_nat (length pub) <= t ->
  forall (ms : list (option smsg)) (col : list (list N)),
  (forall m c, In (Some m) ms -> m_content m = Some c -> (20 <= length c)%nat) ->
  run_stage O d0 dec hm_of pub t n col ms <> SPanic.
Proof. exact (@stage_no_panic). Qed.
Print Assumptions C01_stage_no_panic.

(* since the repair of the short-content case (fix: 4e0ddc7) the premise is not needed any more: no
   sequence of arrivals whatsoever makes the stage panic *)
Theorem C01_stage_never_panics :
  forall (F : Type) (O : Fops F), Flaws O -> forall nmax, NodeLaws O nmax ->
  forall (d0 : bool) (dec : list N -> option F) (hm_of : list N -> F) (pub : list F) (t n : Z),
  n <= nmax -> Z.of_nat (length pub) <= t ->
  forall (ms : list (option smsg)) (col : list (list N)),
  run_stage O d0 dec hm_of pub t n col ms <> SPanic.
Proof. exact (@stage_never_panics). Qed.
Print Assumptions C01_stage_never_panics.

(* liveness: once the shares collected so far plus the arriving one hold valid shares of t distinct
   members on the arriving message's content -- whatever else was collected -- the stage reports
   (if it has not already) *)
Theorem C01_stage_live :
  forall (F : Type) (O : Fops F), Flaws O -> forall nmax, NodeLaws O nmax ->
  forall (d0 : bool) (dec : list N -> option F) (hm_of : list N -> F) (pub : list F) (t n : Z),
  n <= nmax -> Z.of_nat (length pub) <= t ->
  forall (pre post : list (option smsg)) (c0 s0 : list N) (idxs : list Z),
  (20 <= length c0)%nat ->
  t <= Z.of_nat (length (sigs_of pre ++ [s0])) ->
  NoDup idxs -> t <= Z.of_nat (length idxs) ->
  (forall i, In i idxs -> exists s, In s (sigs_of pre ++ [s0]) /\ valid O dec pub (hm_of c0) n s i) ->
  run_stage O d0 dec hm_of pub t n [] (pre ++ Some (mksmsg (Some c0) (Some s0)) :: post) <> Cont.
Proof. exact (@stage_live). Qed.
Print Assumptions C01_stage_live.

(* ---- the submitter NODE: the collector loop (Models/QueryLoop.v, C13) feeding this stage the way
   handleQuery wires them - the node's own share first, then whatever the collector hands to the
   request.  [pay x] is the message behind the collector payload x. *)

(* the outcome at the node does not depend on when the request was registered relative to the
   arrivals, nor on what happens to other requests: only on the arrivals for its id, in order *)
Theorem C01_node_outcome_order_independent :
  forall (F : Type) (O : Fops F) (d0 : bool) (dec : list N -> option F) (hm_of : list N -> F)
         (pub : list F) (t n : Z) (own : smsg) (pay : N -> smsg) (id r : N) (es1 es2 : list ev),
  wf_events id r es1 -> wf_events id r es2 ->
  existsb (is_reg id r) es1 = true -> existsb (is_reg id r) es2 = true ->
  peers id es1 = peers id es2 ->
  node_outcome O d0 dec hm_of pub t n own pay r es1 = node_outcome O d0 dec hm_of pub t n own pay r es2.
Proof. exact (@node_outcome_order_independent). Qed.
Print Assumptions C01_node_outcome_order_independent.

(* whatever the collector hands over, a report made by the node satisfies the contract's equation *)
Theorem C01_node_reports_valid :
  forall (F : Type) (O : Fops F) (d0 : bool) (dec : list N -> option F) (hm_of : list N -> F)
         (pub : list F) (t n : Z), Flaws O ->
  forall (own : smsg) (pay : N -> smsg) (r : N) (es : list ev) (res : list N) (sg : F),
  node_outcome O d0 dec hm_of pub t n own pay r es = Emit res sg ->
  exists c a, length a = 20%nat /\ c = res ++ a /\ sg = fmul O (hm_of c) (hd (f0 O) pub).
Proof. exact (@node_reports_valid). Qed.
Print Assumptions C01_node_reports_valid.

(* once the own share and the shares that arrived for the request id - before or after the
   registration, interleaved with anything else - hold valid shares of t distinct members on one
   content, the node reports *)
Theorem C01_node_live :
  forall (F : Type) (O : Fops F) (d0 : bool) (dec : list N -> option F) (hm_of : list N -> F)
         (pub : list F) (t n : Z), Flaws O -> forall nmax, NodeLaws O nmax ->
  forall (own : smsg) (pay : N -> smsg) (id r : N) (es : list ev)
         (xs1 xs2 : list N) (x : N) (c0 s0 : list N) (idxs : list Z),
  n <= nmax -> Z.of_nat (length pub) <= t ->
  wf_events id r es -> existsb (is_reg id r) es = true ->
  peers id es = xs1 ++ x :: xs2 -> pay x = mksmsg (Some c0) (Some s0) ->
  (20 <= length c0)%nat ->
  let pre := Some own :: map (fun y => Some (pay y)) xs1 in
  t <= Z.of_nat (length (sigs_of pre ++ [s0])) ->
  NoDup idxs -> t <= Z.of_nat (length idxs) ->
  (forall i, In i idxs -> exists s, In s (sigs_of pre ++ [s0]) /\ valid O dec pub (hm_of c0) n s i) ->
  node_outcome O d0 dec hm_of pub t n own pay r es <> Cont.
Proof. exact (@node_live). Qed.
Print Assumptions C01_node_live.

(* the node on the toy instance: two shares arrive BEFORE the registration, interleaved with
   another request's traffic: one report *)
Example C01_node_example :
  let pay := fun x : N => match x with
                         | 1%N => mksmsg (Some (5 :: repeat 9 20)%N) (Some [0;1;55]%N)
                         | 2%N => mksmsg (Some (5 :: repeat 9 20)%N) (Some [0;2;75]%N)
                         | _ => mksmsg None None end in
  match node_outcome (zq_ops 101) true
          (fun b => match b with [x] => Some (zq_of 101 (Z.of_N x)) | [x; _] => Some (zq_of 101 (Z.of_N x)) | _ => None end)
          (fun c => zq_of 101 (match c with x :: _ => Z.of_N x | [] => 1 end))
          [zq_of 101 3; zq_of 101 4] 2 3
          (mksmsg (Some (5 :: repeat 9 20)%N) None) pay 7
          [Peer 9 1; Peer 4 8; Register 4 3; Peer 9 2; Register 9 7; Cancel 3]%N with
  | Emit r sg => r = [5%N] /\ zv sg = 15
  | _ => False
  end.
Proof. vm_compute. split; reflexivity. Qed.
Print Assumptions C01_node_example.

(* example over Z/101Z: polynomial 3 + 4x (t = 2), toy decoder as in C02; two junk arrivals, one
   share of another content, then two valid shares: one report *)
Definition toy_dec (b : list N) : option (zq 101) :=
  match b with [x] => Some (zq_of 101 (Z.of_N x)) | [x; _] => Some (zq_of 101 (Z.of_N x)) | _ => None end.
Definition toy_hm (c : list N) : zq 101 := zq_of 101 (match c with x :: _ => Z.of_N x | [] => 1 end).
Definition content0 : list N := (5 :: repeat 9 20)%N.
Example C01_example :
  match run_stage (zq_ops 101) true toy_dec toy_hm [zq_of 101 3; zq_of 101 4] 2 3 []
          [None; Some (mksmsg (Some content0) None); Some (mksmsg (Some (6 :: repeat 9 20)%N) (Some [0;1;55]%N));
           Some (mksmsg (Some content0) (Some [0;0;35]%N)); Some (mksmsg (Some content0) (Some [0;1;55]%N));
           Some (mksmsg (Some content0) (Some [0;2;75]%N))] with
  | Emit r sg => r = [5%N] /\ zv sg = 15
  | _ => False
  end.
Proof. vm_compute. split; reflexivity. Qed.
Print Assumptions C01_example.
