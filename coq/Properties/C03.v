(* C03 -- Nothing below threshold or not signed by the group is ever accepted.
   Same model as C02 (Models/Tbls.v). *)
From Coq Require Import ZArith List Bool.
From DosVerif Require Import Base.Val Base.Field Models.Share Models.Tbls
     Proofs.ShareProofs Proofs.TblsProofs.
Import ListNotations.
Local Open Scope Z_scope.

(* a share verifies exactly when it carries an index i and its value decodes to
   hm * f(i+1): the signature of exactly this message under exactly member i's share key *)
Theorem C03_share_verify_exact :
  forall (F : Type) (O : Fops F), Flaws O ->
  forall (dec : list N -> option F) (f : list F) (hm : F) (s : list N),
  tbls_verify O dec f hm s = Ok tt <->
  exists i, index s = Some i /\ dec (value s) = Some (fmul O hm (eval O f i)).
Proof. exact (@share_verify_exact). Qed.
Print Assumptions C03_share_verify_exact.

(* if the valid entries cover fewer than t distinct members -- whatever the padding: replays,
   re-encodings, re-indexed or foreign shares, junk -- recovery returns an error *)
Theorem C03_below_threshold :
  forall (F : Type) (O : Fops F), Flaws O ->
  forall (d0 : bool) (dec : list N -> option F) (f : list F) (hm : F) (n : Z)
         (sigs : list (list N)) (t : Z),
  (forall idxs, NoDup idxs ->
                (forall i, In i idxs -> exists s, In s sigs /\ valid O dec f hm n s i) ->
                Z.of_nat (length idxs) < t) ->
  recover O d0 dec f hm sigs t n = Err.
Proof. exact (@below_threshold). Qed.
Print Assumptions C03_below_threshold.

(* whenever recovery returns a signature, it is the group's signature f(0) * hm ... *)
Theorem C03_recovered_is_group_signature :
  forall (F : Type) (O : Fops F), Flaws O -> forall nmax, NodeLaws O nmax ->
  forall (d0 : bool) (dec : list N -> option F) (f : list F) (hm : F) (n : Z)
         (sigs : list (list N)) (t : Z) (sg : F),
  n <= nmax -> Z.of_nat (length f) <= t ->
  recover O d0 dec f hm sigs t n = Ok sg -> sg = fmul O (hd (f0 O) f) hm.
Proof. exact (@recovered_verifies). Qed.
Print Assumptions C03_recovered_is_group_signature.

(* ... which verifies under the group public key f(0) *)
Theorem C03_recovered_verifies :
  forall (F : Type) (O : Fops F), Flaws O ->
  forall (dec : list N -> option F) (f : list F) (hm sg : F) (enc : list N),
  sg = fmul O (hd (f0 O) f) hm -> dec enc = Some sg ->
  bls_verify O dec (hd (f0 O) f) hm enc = true.
Proof. exact (@recovered_passes_bls). Qed.
Print Assumptions C03_recovered_verifies.

(* before the repair the weak form (no signature below threshold) held but the call could
   panic instead of returning an error: t encodings of ONE valid share *)
Definition toy_dec (b : list N) : option (zq 101) :=
  match b with [x] => Some (zq_of 101 (Z.of_N x)) | [x; _] => Some (zq_of 101 (Z.of_N x)) | _ => None end.
Example C03_old_panics_below_threshold :
  res_val (fun x => VZ (zv x))
    (recover_old (zq_ops 101) true toy_dec [zq_of 101 3; zq_of 101 4] (zq_of 101 5)
                 [[0;0;35]; [0;0;35;1]]%N 2 3) = VPanic
  /\ res_val (fun x => VZ (zv x))
    (recover (zq_ops 101) true toy_dec [zq_of 101 3; zq_of 101 4] (zq_of 101 5)
             [[0;0;35]; [0;0;35;1]]%N 2 3) = VErr.
Proof. split; vm_compute; reflexivity. Qed.
Print Assumptions C03_old_panics_below_threshold.
