(* C06 -- BLS verification equals the predicate the EVM bn256 precompiles compute.
   Models: Models/Bn.v + Models/BnPairing.v (the library) and Models/Evm.v (ecMul / ecPairing per
   EIP-196/197 and the contract's negate / hashToG1).  Both sides are defined with the SAME
   pairing_check, so "equals" is about the conventions around it: decoders, negation, reduction
   of the hash, coordinate order, canonical encodings. *)
From Coq Require Import ZArith List Bool.
From DosVerif Require Import Base.Val Base.Field Gen.BnConsts Models.Bn Models.BnPairing Models.Evm
     Proofs.BnCodecProofs Proofs.EvmProofs.
Import ListNotations.
Local Open Scope Z_scope.

(* every signature (G1) the library emits: 64 bytes, x then y, both below the field prime *)
Theorem C06_emitted_g1_canonical :
  forall a : jac (K:=Fp),
  let e := g1_marshal a in
  length e = 64%nat /\ 0 <= be_val (firstn 32 e) < bn_p /\ 0 <= be_val (skipn 32 e) < bn_p.
Proof. exact g1_emitted_canonical. Qed.
Print Assumptions C06_emitted_g1_canonical.

(* every non-identity public key (G2): 0x01, then x.im, x.re, y.im, y.re -- imaginary part first -- each below p *)
Theorem C06_emitted_g2_canonical :
  forall a : jac (K:=Fp2), is_inf fp2o (make_affine fp2o a) = false ->
  let m := make_affine fp2o a in
  g2_marshal a = [1%N] ++ be_bytes 32 (zv (c1 (jx m))) ++ be_bytes 32 (zv (c0 (jx m)))
                        ++ be_bytes 32 (zv (c1 (jy m))) ++ be_bytes 32 (zv (c0 (jy m))) /\
  zv (c1 (jx m)) < bn_p /\ zv (c0 (jx m)) < bn_p /\ zv (c1 (jy m)) < bn_p /\ zv (c0 (jy m)) < bn_p.
Proof. exact g2_emitted_canonical. Qed.
Print Assumptions C06_emitted_g2_canonical.

(* the EVM decoder accepts every G1 encoding the library emits and reads the same point; whatever the
   library parses (it is laxer: trailing bytes, unreduced coordinates) re-encodes canonically *)
Theorem C06_evm_decodes_emitted :
  forall a : jac (K:=Fp), g1_on_curve a = true -> evm_g1_dec (g1_marshal a) = Some (make_affine fp_ops a).
Proof. exact evm_decodes_emitted. Qed.
Print Assumptions C06_evm_decodes_emitted.

Theorem C06_lib_parse_then_evm :
  forall (b : list N) (P : jac (K:=Fp)),
  g1_unmarshal b = Some P -> evm_g1_dec (g1_marshal P) = Some (make_affine fp_ops P).
Proof. exact lib_parse_then_evm. Qed.
Print Assumptions C06_lib_parse_then_evm.

(* the contract's negate (x, p - y) is the library's Neg on canonical encodings *)
Theorem C06_negate_agrees :
  forall a : jac (K:=Fp),
  is_inf fp_ops (make_affine fp_ops a) = false -> zv (jy (make_affine fp_ops a)) <> 0 ->
  jz (make_affine fp_ops a) = f1 fp_ops ->
  contract_negate (g1_marshal a) = g1_marshal (jac_neg fp_ops (make_affine fp_ops a)).
Proof. exact negate_agrees. Qed.
Print Assumptions C06_negate_agrees.

(* the library accepts exactly when the contract equation on the canonical encodings holds; the
   hypotheses are the imported mathematics, by name: the order of G1 (unreduced vs reduced hash),
   closure of the curve under negation / scalar multiplication, y <> 0 on the curve, and that the
   128-byte public key and generator encodings decode to the points they encode *)
Theorem C06_verify_iff_evm :
  forall (X Xe G2e : tpt) (pk : list N) (h : Z) (sig : list N) (Sg : jac (K:=Fp)),
  g1_unmarshal sig = Some Sg ->
  let Sa := make_affine fp_ops Sg in
  is_inf fp_ops Sa = false -> zv (jy Sa) <> 0 -> jz Sa = f1 fp_ops ->
  g1_on_curve (jac_neg fp_ops Sa) = true ->
  g1_on_curve g1_gen = true -> make_affine fp_ops g1_gen = g1_gen ->
  g1_on_curve (g1_mul g1_gen h) = true ->
  make_affine fp_ops (g1_mul g1_gen h) = make_affine fp_ops (g1_mul g1_gen (h mod bn_q)) ->
  evm_g2_dec pk = Some Xe -> tpt_make_affine Xe = tpt_make_affine X ->
  evm_g2_dec g2_gen_evm = Some G2e -> tpt_make_affine G2e = tpt_make_affine g2_gen_tpt ->
  forall b, contract_check pk h (g1_marshal Sg) = Some b <-> bls_verify_lib X h sig = Ok b.
Proof. exact verify_iff_evm. Qed.
Print Assumptions C06_verify_iff_evm.

(* the G2 identity is NOT emitted as an EVM encoding (known finding, see known_findings.json) *)
Example C06_g2_identity_refuted :
  g2_marshal (mkjac (f0 fp2o) (f1 fp2o) (f0 fp2o)) = [0%N] /\ evm_g2_dec [0%N] = None.
Proof. split; vm_compute; reflexivity. Qed.
Print Assumptions C06_g2_identity_refuted.

(* non-vacuity of the generator hypotheses that need no long computation *)
Example C06_generator_facts :
  g1_on_curve g1_gen = true /\ make_affine fp_ops g1_gen = g1_gen.
Proof. split; vm_compute; reflexivity. Qed.
Print Assumptions C06_generator_facts.
