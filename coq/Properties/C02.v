(* C02 -- Threshold recovery returns the unique group signature for any qualifying set.
   Model: Models/Tbls.v (sign/tbls/tbls.go + sign/bls/bls.go at the level of discrete logarithms:
   [dec] is the G1 wire decoder bytes -> logarithm, [hm] the logarithm of H(m), [f] the shared
   polynomial, so the group key is f(0) and the BLS signature under the shared secret is
   f(0) * hm).  [valid O dec f hm n s i]: the byte string s announces index i < n and its value
   decodes to member i's signature share on this message. *)
From Coq Require Import ZArith List Bool.
From DosVerif Require Import Base.Val Base.Field Models.Share Models.Tbls
     Proofs.ShareProofs Proofs.TblsProofs.
Import ListNotations.
Local Open Scope Z_scope.

(* Whatever else the candidate list holds -- exact duplicates, other encodings of a share,
   entries without an index, undecodable or foreign values, in any order -- if valid shares of at
   least t distinct members are among the candidates, recovery returns f(0) * hm.  The result
   therefore depends neither on the subset nor on the order, and it is never Panic or Err. *)
Theorem C02_recover_unique :
  forall (F : Type) (O : Fops F), Flaws O -> forall nmax, NodeLaws O nmax ->
  forall (d0 : bool) (dec : list N -> option F) (f : list F) (hm : F) (n : Z)
         (sigs : list (list N)) (t : Z) (idxs : list Z),
  n <= nmax -> Z.of_nat (length f) <= t ->
  NoDup idxs -> t <= Z.of_nat (length idxs) ->
  (forall i, In i idxs -> exists s, In s sigs /\ valid O dec f hm n s i) ->
  recover O d0 dec f hm sigs t n = Ok (fmul O (hd (f0 O) f) hm).
Proof. exact (@recover_unique). Qed.
Print Assumptions C02_recover_unique.

Corollary C02_recover_order_and_subset_independent :
  forall (F : Type) (O : Fops F), Flaws O -> forall nmax, NodeLaws O nmax ->
  forall (d0 : bool) (dec : list N -> option F) (f : list F) (hm : F) (n : Z)
         (sigs1 sigs2 : list (list N)) (t : Z) (idxs1 idxs2 : list Z),
  n <= nmax -> Z.of_nat (length f) <= t ->
  NoDup idxs1 -> t <= Z.of_nat (length idxs1) ->
  (forall i, In i idxs1 -> exists s, In s sigs1 /\ valid O dec f hm n s i) ->
  NoDup idxs2 -> t <= Z.of_nat (length idxs2) ->
  (forall i, In i idxs2 -> exists s, In s sigs2 /\ valid O dec f hm n s i) ->
  recover O d0 dec f hm sigs1 t n = recover O d0 dec f hm sigs2 t n.
Proof.
  exact (fun F O L nmax NL d0 dec f hm n s1 s2 t i1 i2 Hn Hf N1 L1 C1 N2 L2 C2 =>
    eq_trans (@recover_unique F O L nmax NL d0 dec f hm n s1 t i1 Hn Hf N1 L1 C1)
             (eq_sym (@recover_unique F O L nmax NL d0 dec f hm n s2 t i2 Hn Hf N2 L2 C2))).
Qed.
Print Assumptions C02_recover_order_and_subset_independent.

(* the recovered value verifies under the group key f(0) *)
Theorem C02_recover_verifies :
  forall (F : Type) (O : Fops F), Flaws O ->
  forall (dec : list N -> option F) (f : list F) (hm sg : F) (enc : list N),
  sg = fmul O (hd (f0 O) f) hm -> dec enc = Some sg ->
  bls_verify O dec (hd (f0 O) f) hm enc = true.
Proof. exact (@recovered_passes_bls). Qed.
Print Assumptions C02_recover_verifies.

(* ---- the loop as it stood before the repair (fix: commit e89d226) violates the property:
   three witnesses over Z/101Z, polynomial 3 + 4x (t = 2), hm = 5, toy decoder:
   a value decodes to its first byte, a second byte is ignored (= trailing bytes). *)
Definition toy_dec (b : list N) : option (zq 101) :=
  match b with [x] => Some (zq_of 101 (Z.of_N x)) | [x; _] => Some (zq_of 101 (Z.of_N x)) | _ => None end.
Definition toy_f : list (zq 101) := [zq_of 101 3; zq_of 101 4].
Definition toy_hm : zq 101 := zq_of 101 5.
(* shares: member i holds f(i+1): f(1)=7, f(2)=11, f(3)=15; times hm: 35, 55, 75 *)
Definition out (r : res (zq 101)) : val := res_val (fun x => VZ (zv x)) r.

(* (a) two encodings of member 0's share *)
Example C02_old_refuted_reencoded_share :
  out (recover_old (zq_ops 101) true toy_dec toy_f toy_hm [[0;0;35]; [0;0;35;9]; [0;1;55]]%N 2 3) = VPanic
  /\ out (recover (zq_ops 101) true toy_dec toy_f toy_hm [[0;0;35]; [0;0;35;9]; [0;1;55]]%N 2 3) = VZ 15.
Proof. split; vm_compute; reflexivity. Qed.
Print Assumptions C02_old_refuted_reencoded_share.

(* (b) a one-byte entry ahead of two valid shares *)
Example C02_old_refuted_short_entry :
  out (recover_old (zq_ops 101) true toy_dec toy_f toy_hm [[7]; [0;0;35]; [0;1;55]]%N 2 3) = VErr
  /\ out (recover (zq_ops 101) true toy_dec toy_f toy_hm [[7]; [0;0;35]; [0;1;55]]%N 2 3) = VZ 15.
Proof. split; vm_compute; reflexivity. Qed.
Print Assumptions C02_old_refuted_short_entry.

(* (c) a verified share whose index is outside the group (n = 2) takes a threshold slot *)
Example C02_old_refuted_index_out_of_range :
  out (recover_old (zq_ops 101) true toy_dec toy_f toy_hm [[0;2;75]; [0;0;35]; [0;1;55]]%N 2 2) = VErr
  /\ out (recover (zq_ops 101) true toy_dec toy_f toy_hm [[0;2;75]; [0;0;35]; [0;1;55]]%N 2 2) = VZ 15.
Proof. split; vm_compute; reflexivity. Qed.
Print Assumptions C02_old_refuted_index_out_of_range.

(* non-vacuity of the hypotheses of C02_recover_unique on witness (a) *)
Example C02_hypotheses_satisfiable :
  forall i, In i [0; 1] ->
  exists s, In s [[0;0;35]; [0;0;35;9]; [0;1;55]]%N /\ valid (zq_ops 101) toy_dec toy_f toy_hm 3 s i.
Proof.
  intros i [<-|[<-|[]]].
  - exists [0;0;35]%N. split; [left; reflexivity|]. split; [reflexivity|]. split; [reflexivity|].
    vm_compute. reflexivity.
  - exists [0;1;55]%N. split; [right; right; left; reflexivity|]. split; [reflexivity|]. split; [reflexivity|].
    vm_compute. reflexivity.
Qed.
Print Assumptions C02_hypotheses_satisfiable.
