(* C08 -- A dealt share can be opened only by its addressee and only unmodified.
   Model: Models/Vss.v (Verifier.ProcessEncryptedDeal / decryptDeal, symbolic cryptography:
   Schnorr = (signing key, signed bytes), AEAD = ideal under (ephemeral key, recipient key,
   dealer+member-list context, nonce), session id = the hashed term).  [opens_for v e p]: the
   encrypted deal e is signed by v's dealer over exactly its DHKey bytes, that key decodes to the
   ephemeral key the ciphertext was sealed with, for v's own key, under v's dealer and member
   list, with the same nonce of 12 bytes, the ciphertext is intact, and its plaintext is p. *)
From Coq Require Import ZArith List Bool.
From DosVerif Require Import Base.Val Base.Field Models.Share Models.Tbls Models.Vss Proofs.VssProofs.
Import ListNotations.
Local Open Scope Z_scope.

(* any response at all -- approval or complaint -- presupposes an untouched deal addressed to this
   verifier under this dealer and member list; the response then says Approval exactly when the
   opened deal passes the share / threshold / index checks *)
Theorem C08_any_modification_rejected :
  forall (F : Type) (O : Fops F) (v : verifier (F:=F)) eo v' r,
  process_encrypted_deal O true v eo = Ok (v', r) ->
  exists e p x,
    eo = Some e /\ opens_for v e p /\ p_sec p = Some (v_index v, x) /\
    r_status r = (if deal_ok O (nmembers v) p (v_index v) x
                     && sid_eqb O (Sid (v_dealer v) (v_members v) (p_commits p) (p_t p)) (p_sid p)
                  then Approval else Complaint) /\
    r_index r = v_index v /\ r_sig_key r = v_key v.
Proof. exact (@ped_ok). Qed.
Print Assumptions C08_any_modification_rejected.

Theorem C08_only_addressee :
  forall (F : Type) (O : Fops F) (v : verifier (F:=F)) (e : edeal (F:=F)),
  e_seal_rcpt e <> v_key v -> process_encrypted_deal O true v (Some e) = Err.
Proof. exact (@only_addressee). Qed.
Print Assumptions C08_only_addressee.

Theorem C08_never_panics :
  forall (F : Type) (O : Fops F) (v : verifier (F:=F)) eo, process_encrypted_deal O true v eo <> Panic.
Proof. exact (@ped_never_panics). Qed.
Print Assumptions C08_never_panics.

Theorem C08_approve_iff_consistent :
  forall (F : Type) (O : Fops F) (v : verifier (F:=F)) eo v' r,
  process_encrypted_deal O true v eo = Ok (v', r) ->
  (r_status r = Approval <->
   exists e p x, eo = Some e /\ e_plain e = Some p /\ p_sec p = Some (v_index v, x) /\
     valid_t (p_t p) (nmembers v) = true /\ 0 <= v_index v < nmembers v /\
     check O (self_gops O) (f1 O) (p_commits p) (v_index v) x = true /\
     sid_eqb O (Sid (v_dealer v) (v_members v) (p_commits p) (p_t p)) (p_sid p) = true).
Proof. exact (@approve_iff_consistent). Qed.
Print Assumptions C08_approve_iff_consistent.

(* when the commitments commit to a polynomial f: approval iff the share IS f at the recipient's index *)
Theorem C08_approve_iff_share_on_polynomial :
  forall (F : Type) (O : Fops F), Flaws O ->
  forall (v : verifier (F:=F)) e p x f v' r,
  process_encrypted_deal O true v (Some e) = Ok (v', r) ->
  e_plain e = Some p -> p_sec p = Some (v_index v, x) -> p_commits p = commit (self_gops O) (f1 O) f ->
  valid_t (p_t p) (nmembers v) = true -> 0 <= v_index v < nmembers v ->
  sid_eqb O (Sid (v_dealer v) (v_members v) (p_commits p) (p_t p)) (p_sid p) = true ->
  (r_status r = Approval <-> x = eval O f (v_index v)).
Proof. exact (@approve_iff_share_on_polynomial). Qed.
Print Assumptions C08_approve_iff_share_on_polynomial.

(* as pinned (before fix: commit d8dead8) a nonce of another length, a deal without share and a nil
   deal made the call panic; witnesses over Z/101Z *)
Definition toy_v : verifier (F:=zq 101) := mkver 7 5 1 [6; 7; 8] None.
Definition toy_plain (sec : option (Z * zq 101)) : plain (F:=zq 101) :=
  mkplain (Sid 5 [6; 7; 8] [zq_of 101 3; zq_of 101 4] 2) sec 2 [zq_of 101 3; zq_of 101 4].
Definition toy_e (nonce_len : Z) (sec : option (Z * zq 101)) : edeal (F:=zq 101) :=
  mkedeal 5 9 9 (Some 9) nonce_len 0 9 7 5 [6; 7; 8] 0 true (Some (toy_plain sec)).
Definition cls (r : res (verifier (F:=zq 101) * response (F:=zq 101))) : val :=
  res_val (fun vr => match r_status (snd vr) with Approval => VZ 1 | Complaint => VZ 0 end) r.

Example C08_old_refuted :
  cls (process_encrypted_deal (zq_ops 101) false toy_v (Some (toy_e 11 (Some (1, zq_of 101 11))))) = VPanic /\
  cls (process_encrypted_deal (zq_ops 101) false toy_v (Some (toy_e 12 None))) = VPanic /\
  cls (process_encrypted_deal (zq_ops 101) false toy_v None) = VPanic /\
  cls (process_encrypted_deal (zq_ops 101) true toy_v (Some (toy_e 11 (Some (1, zq_of 101 11))))) = VErr.
Proof. repeat split; vm_compute; reflexivity. Qed.
Print Assumptions C08_old_refuted.

(* non-vacuity: the honest deal (share f(2) = 3 + 4*2 = 11 for index 1) is approved, a share off by one draws a complaint *)
Example C08_example :
  cls (process_encrypted_deal (zq_ops 101) true toy_v (Some (toy_e 12 (Some (1, zq_of 101 11))))) = VZ 1 /\
  cls (process_encrypted_deal (zq_ops 101) true toy_v (Some (toy_e 12 (Some (1, zq_of 101 12))))) = VZ 0.
Proof. split; vm_compute; reflexivity. Qed.
Print Assumptions C08_example.
