(* C14 -- Key-generation and query pipelines always terminate and release goroutines.
   Model: Models/Pipes.v -- networks of goroutine skeletons with unbuffered/buffered channels,
   WaitGroups and a cancellation flag; Gen/PipeNets.v -- the networks of handleGrouping and of
   handleQuery (one per request type), regenerated from /repo by translate/skel on every run:
   every `go func` body reachable from the handler, every channel operation, close, WaitGroup
   operation and cancel call in it, deferred calls compiled onto every exit path; the two perpetual
   goroutines the sessions talk to (pdkg.Loop, queryLoop) appear as what they do with a registered
   reply channel.  Models/PipesCheck.v decides the static conditions [wf] by computation;
   Proofs/PipesProofs.v proves, for EVERY network satisfying them and every interleaving:
     - no reachable state can panic (close of a closed channel, send on a closed channel, WaitGroup
       misuse);
     - once cancelled (by the root's deferred cancel() on success or failure, or by the deadline at
       ANY moment) a state in which nothing can move has every goroutine exited and every channel
       the session owes closed;
     - after cancellation there is no infinite execution.
   Scheduling assumption of the last two (gstep true): a select with a ready ctx.Done arm takes it. *)
From Coq Require Import List Arith Bool Lia.
From DosVerif Require Import Models.Pipes Models.PipesCheck Proofs.PipesProofs Proofs.PipesCheckProofs.
From DosVerif Require Import Gen.PipeNets Models.PipeNetsOld Proofs.PipesReplicate.
Import ListNotations.

(* the networks the translator produced from the current sources were translated completely and
   satisfy the static conditions *)
Theorem C14_nets_checked :
  forallb (fun nb => snd nb && check_net (fst nb)) all_nets = true.
Proof. vm_compute. reflexivity. Qed.
Print Assumptions C14_nets_checked.

Lemma current_nets_wf N : In N (map fst all_nets) -> wf N.
Proof.
  intros H. apply in_map_iff in H. destruct H as [[N' b] [Heq Hin]]. cbn [fst] in Heq. subst N'.
  pose proof C14_nets_checked as Hc. rewrite forallb_forall in Hc. specialize (Hc _ Hin). cbv beta in Hc. cbn [fst snd] in Hc.
  apply andb_prop in Hc. destruct Hc as [_ Hc]. apply check_net_sound. exact Hc.
Qed.

(* never a send on, or a close of, an already closed channel *)
Theorem C14_no_send_on_or_close_of_closed :
  forall N, In N (map fst all_nets) -> forall ctr0 s, reach N ctr0 s -> ~ bad N s.
Proof. intros N HN ctr0 s. apply no_panic. apply current_nets_wf; exact HN. Qed.
Print Assumptions C14_no_send_on_or_close_of_closed.

(* after cancellation -- success, failure at any stage, or the deadline at any moment -- nothing is
   left: a state in which no goroutine can move has every goroutine exited ... *)
Theorem C14_no_goroutine_remains :
  forall N, In N (map fst all_nets) -> forall ctr0 s,
  reach N ctr0 s -> cancelled s = true -> stuck N s -> final N s.
Proof. intros N HN ctr0 s. apply stuck_is_final. apply current_nets_wf; exact HN. Qed.
Print Assumptions C14_no_goroutine_remains.

(* ... and every result and error channel of the session closed *)
Theorem C14_channels_closed :
  forall N, In N (map fst all_nets) -> forall ctr0 s c,
  reach N ctr0 s -> final N s -> owes N c = true -> closed s c = true.
Proof. intros N HN ctr0 s c. apply final_closed. apply current_nets_wf; exact HN. Qed.
Print Assumptions C14_channels_closed.

(* ... and that state is reached: no infinite execution after cancellation *)
Theorem C14_terminates_after_cancellation :
  forall N, In N (map fst all_nets) -> forall ctr0 s,
  reach N ctr0 s -> cancelled s = true -> Acc (fun b a => pstep N a b) s.
Proof. intros N HN ctr0 s. apply terminates_after_cancel. apply current_nets_wf; exact HN. Qed.
Print Assumptions C14_terminates_after_cancellation.

(* the general theorems, for any network that satisfies the conditions *)
Theorem C14_general :
  forall N, check_net N = true -> forall ctr0 s, reach N ctr0 s ->
  ~ bad N s /\
  (cancelled s = true -> stuck N s -> final N s) /\
  (cancelled s = true -> Acc (fun b a => pstep N a b) s).
Proof.
  intros N Hc ctr0 s Hr. pose proof (check_net_sound N Hc) as Hwf. split; [|split].
  - apply (no_panic N Hwf ctr0 s Hr).
  - apply (stuck_is_final N Hwf ctr0 s Hr).
  - apply (terminates_after_cancel N Hwf ctr0 s Hr).
Qed.
Print Assumptions C14_general.

(* sendToMembers / genDealsAndSend start one retry goroutine per group member, in a loop; the
   translator emits one of them.  The theorems hold for ANY number of them: adding k copies of an
   inert goroutine (no channel, WaitGroup or cancel operation, every select with a ctx.Done arm) to a
   network that satisfies the conditions gives a network that satisfies them *)
Theorem C14_any_number_of_retry_goroutines :
  forall N, In N (map fst all_nets) -> forall p k, inertb (rkbound N) p = true ->
  forall ctr0 s, reach (extend N p k) ctr0 s ->
  ~ bad (extend N p k) s /\
  (cancelled s = true -> stuck (extend N p k) s -> final (extend N p k) s) /\
  (cancelled s = true -> Acc (fun b a => pstep (extend N p k) a b) s).
Proof.
  intros N HN p k Hp ctr0 s Hr.
  pose proof (extend_wf N p k (current_nets_wf N HN) (inertb_sound _ _ Hp)) as Hwf.
  split; [|split].
  - apply (no_panic _ Hwf ctr0 s Hr).
  - apply (stuck_is_final _ Hwf ctr0 s Hr).
  - apply (terminates_after_cancel _ Hwf ctr0 s Hr).
Qed.
Print Assumptions C14_any_number_of_retry_goroutines.

(* ... and the key-generation network does contain such goroutines *)
Example C14_retry_goroutines_are_inert :
  (2 <= length (filter (inertb (rkbound net_grouping)) (procs net_grouping)))%nat.
Proof. vm_compute. repeat constructor. Qed.
Print Assumptions C14_retry_goroutines_are_inert.

(* the networks translated from the sources before the repairs are all rejected *)
Example C14_old_rejected :
  forallb (fun nb => negb (check_net (fst nb))) old_all_nets = true.
Proof. vm_compute. reflexivity. Qed.
Print Assumptions C14_old_rejected.

(* what goes wrong there, on the smallest instance: a stage that reports one error, the forwarder of
   the error fan-in as it was (on ctx.Done it returns without wg.Done), the goroutine that closes the
   merged channel after wg.Wait.  The stage reports, the deadline fires, the forwarder takes the Done
   arm, the stage closes its channel: the closer waits forever, the merged channel is never closed
   (the schedule replays/prefix/C14-prefix-scenarios.txt shows on the real code). *)
Definition leak_net : net := mknet
  [ mkproc [NSel [ASend 0 1] (Some 1) None; NClose 0 2; NExit] 0 [2; 1; 0] [[]; []; [EClosed 0]] [[]; []; [EClosed 0]];
    mkproc [NSel [ARecv 0 1 3] None None; NSel [ASend 1 0] (Some 4) None; NExit; NWgDone 0 4; NExit]
           1 [2; 1; 0; 1; 0] [[]; []; []; []; []] [[]; []; []; []; [EDone 0]];
    mkproc [NWgWait 0 1; NClose 1 2; NExit] 2 [2; 1; 0] [[]; [EWaited 0]; [EWaited 0; EClosed 1]] [[]; [EWaited 0]; [EWaited 0; EClosed 1]] ]
  [0; 1] [Some 0; Some 2] [true; true] [[1]] [None; Some 0] 3.

Ltac case_pid p := destruct p as [|[|[|p]]].

Example C14_old_leak :
  check_net leak_net = false /\
  exists s, reach leak_net (fun _ => 0) s /\ cancelled s = true /\ stuck leak_net s /\ ~ final leak_net s.
Proof.
  split; [vm_compute; reflexivity|].
  eexists. split.
  - eapply r_step; [eapply r_step; [eapply r_step; [eapply r_step; [apply r_init|]|]|]|].
    + eapply (s_sync leak_net false _ 0 1 0 1 1 3 [ASend 0 1] (Some 1) None [ARecv 0 1 3] None None).
      * discriminate.
      * reflexivity.
      * left; reflexivity.
      * intros Hf; discriminate.
      * reflexivity.
      * left; reflexivity.
      * intros Hf; discriminate.
      * reflexivity.
      * reflexivity.
    + eapply s_timer. reflexivity.
    + eapply (s_done leak_net false _ 1 [ASend 1 0] 4 None); reflexivity.
    + eapply (s_close leak_net false _ 0 0 2); reflexivity.
  - split; [reflexivity|]. split.
    + intros s' H. unfold pstep in H.
      inversion H; subst; clear H;
        repeat match goal with
        | Hn : node_of leak_net _ ?p = _ |- _ =>
            is_var p; case_pid p; [| | |destruct p]; vm_compute in Hn; try discriminate
        end.
      all: try (match goal with Hc : cancelled _ = false |- _ => vm_compute in Hc; discriminate end).
      all: try (match goal with Hp : pending _ _ = [] |- _ => vm_compute in Hp; discriminate end).
      all: try (match goal with Hn : _ = NWgWait _ _ |- _ => inversion Hn; subst end;
                match goal with Hp : pending _ _ = [] |- _ => vm_compute in Hp; discriminate end).
    + intros Hf. specialize (Hf 2). vm_compute in Hf. discriminate.
Qed.
Print Assumptions C14_old_leak.

(* non-vacuity: the networks are not empty, and cancelled states are reachable *)
Example C14_example :
  2 <= length all_nets /\ 10 <= length (procs net_grouping) /\ 10 <= length (caps net_grouping) /\
  exists s, reach net_grouping (fun _ => 3) s /\ cancelled s = true.
Proof.
  split; [vm_compute; repeat constructor|]. split; [vm_compute; repeat constructor|].
  split; [vm_compute; repeat constructor|].
  eexists. split; [eapply r_step; [apply r_init|apply s_timer; reflexivity]|reflexivity].
Qed.
Print Assumptions C14_example.
