(* C13 -- Signature shares reach their request whatever the arrival/registration order.
   Model: Models/QueryLoop.v (DosNode.queryLoop).  Events: Peer id x (share x for request id
   arrives), Register id r (the node registers handle r for id), Cancel r, Watchdog.
   [wf_events id r es]: r is never cancelled, id is registered with no other handle and r for no
   other id.  [peers id es]: the arrivals for id, in order. *)
From Coq Require Import ZArith NArith List Bool.
From DosVerif Require Import Base.Val Models.QueryLoop Proofs.QueryLoopProofs Proofs.QueryLoopRereg.
Import ListNotations.

(* every arrival for id is handed to r exactly once, in arrival order, whether it came before or
   after the registration; nothing is handed over when the request is never registered *)
Theorem C13_exactly_once :
  forall (id r : N) (es : list ev), wf_events id r es ->
  deliveries_to r (snd (run st0 es)) = if existsb (is_reg id r) es then peers id es else [].
Proof. exact exactly_once. Qed.
Print Assumptions C13_exactly_once.

(* shares never cross over to another request *)
Theorem C13_no_crossover :
  forall (es : list ev) (r x : N), In (r, x) (snd (run st0 es)) ->
  exists id, In (Peer id x) es /\ In (Register id r) es.
Proof. exact no_crossover. Qed.
Print Assumptions C13_no_crossover.

(* whatever happens to the other requests -- arrivals, registrations, cancellations, sweeps --
   leaves what this request receives unchanged *)
Theorem C13_frame :
  forall (id r : N) (es : list ev), wf_events id r es ->
  deliveries_to r (snd (run st0 es)) = deliveries_to r (snd (run st0 (filter (relevant id r) es))).
Proof. exact frame. Qed.
Print Assumptions C13_frame.

(* a request id registered AGAIN (a fresh handle: new context, new reply channel) after any history
   - the earlier registration live, cancelled, completed or swept: the new handle receives what was
   buffered for the id since, then every later arrival, each exactly once and in order *)
Theorem C13_reregistration :
  forall (id r : N) (es1 es2 : list ev),
  fresh_in r es1 -> wf_events id r (Register id r :: es2) ->
  deliveries_to r (snd (run st0 (es1 ++ Register id r :: es2))) =
  buf_of (fst (run st0 es1)) id ++ peers id es2.
Proof. exact reregistration. Qed.
Print Assumptions C13_reregistration.

(* ... and when the old entry is still in the table (register, cancel, register again) nothing is
   buffered: exactly the later arrivals *)
Theorem C13_reregistration_over_old_entry :
  forall (id r : N) (es1 es2 : list ev),
  fresh_in r es1 -> wf_events id r (Register id r :: es2) ->
  lookup id (reg (fst (run st0 es1))) <> None ->
  deliveries_to r (snd (run st0 (es1 ++ Register id r :: es2))) = peers id es2.
Proof. exact reregistration_over_old_entry. Qed.
Print Assumptions C13_reregistration_over_old_entry.

Example C13_reregistration_example :
  fresh_in 2 [Register 5 1; Peer 5 10; Cancel 1]%N /\ wf_events 5 2 [Register 5 2; Peer 5 11; Peer 6 3; Peer 5 12]%N /\
  deliveries_to 2 (snd (run st0 ([Register 5 1; Peer 5 10; Cancel 1] ++ Register 5 2 :: [Peer 5 11; Peer 6 3; Peer 5 12])))%N = [11; 12]%N.
Proof.
  split; [split; [cbn; intuition discriminate|intros id' H; cbn in H; intuition discriminate]|].
  split; [|vm_compute; reflexivity].
  split; [cbn; intuition discriminate|].
  split; intros x H; cbn in H; intuition (try discriminate); congruence.
Qed.
Print Assumptions C13_reregistration_example.

(* before the repair (fix: commit) a share with an empty request id (id 0 here) arriving while
   nothing is registered for it crashed the loop *)
Example C13_old_refuted :
  run_old st0 [Peer 0 7] = Panic /\ snd (run st0 [Peer 0 7; Register 0 1]) = [(1, 7)]%N.
Proof. split; vm_compute; reflexivity. Qed.
Print Assumptions C13_old_refuted.

(* non-vacuity: an interleaving of two requests with arrivals on both sides of the registrations *)
Example C13_example :
  wf_events 5 1 [Peer 5 10; Peer 6 20; Register 6 2; Peer 5 11; Cancel 2; Register 5 1; Peer 6 21; Peer 5 12; Watchdog; Peer 5 10]%N
  /\ deliveries_to 1 (snd (run st0 [Peer 5 10; Peer 6 20; Register 6 2; Peer 5 11; Cancel 2; Register 5 1; Peer 6 21; Peer 5 12; Watchdog; Peer 5 10]%N))
     = [10; 11; 12; 10]%N.
Proof.
  split; [|vm_compute; reflexivity].
  split; [cbn; intuition discriminate|].
  split; intros x H; cbn in H; intuition (try discriminate); congruence.
Qed.
Print Assumptions C13_example.
