(* C13 -- Signature shares reach their request whatever the arrival/registration order.
   Model: Models/QueryLoop.v (DosNode.queryLoop).  Events: Peer id x (share x for request id
   arrives), Register id r (the node registers handle r for id), Cancel r, Watchdog.
   [wf_events id r es]: r is never cancelled, id is registered with no other handle and r for no
   other id.  [peers id es]: the arrivals for id, in order. *)
From Coq Require Import ZArith NArith List Bool.
From DosVerif Require Import Base.Val Models.QueryLoop Proofs.QueryLoopProofs.
Import ListNotations.

(* every arrival for id is handed to r exactly once, in arrival order, whether it came before or
   after the registration; nothing is handed over when the request is never registered *)
Theorem C13_exactly_once :
  forall (id r : N) (es : list ev), wf_events id r es ->
  deliveries_to r (snd (run st0 es)) = if existsb (is_reg id r) es then peers id es else [].
Proof. exact exactly_once. Qed.
Print Assumptions C13_exactly_once.

(* shares never cross over to another request *)
Theorem C13_no_crossover :
  forall (es : list ev) (r x : N), In (r, x) (snd (run st0 es)) ->
  exists id, In (Peer id x) es /\ In (Register id r) es.
Proof. exact no_crossover. Qed.
Print Assumptions C13_no_crossover.

(* whatever happens to the other requests -- arrivals, registrations, cancellations, sweeps --
   leaves what this request receives unchanged *)
Theorem C13_frame :
  forall (id r : N) (es : list ev), wf_events id r es ->
  deliveries_to r (snd (run st0 es)) = deliveries_to r (snd (run st0 (filter (relevant id r) es))).
Proof. exact frame. Qed.
Print Assumptions C13_frame.

(* before the repair (fix: commit) a share with an empty request id (id 0 here) arriving while
   nothing is registered for it crashed the loop *)
Example C13_old_refuted :
  run_old st0 [Peer 0 7] = Panic /\ snd (run st0 [Peer 0 7; Register 0 1]) = [(1, 7)]%N.
Proof. split; vm_compute; reflexivity. Qed.
Print Assumptions C13_old_refuted.

(* non-vacuity: an interleaving of two requests with arrivals on both sides of the registrations *)
Example C13_example :
  wf_events 5 1 [Peer 5 10; Peer 6 20; Register 6 2; Peer 5 11; Cancel 2; Register 5 1; Peer 6 21; Peer 5 12; Watchdog; Peer 5 10]%N
  /\ deliveries_to 1 (snd (run st0 [Peer 5 10; Peer 6 20; Register 6 2; Peer 5 11; Cancel 2; Register 5 1; Peer 6 21; Peer 5 12; Watchdog; Peer 5 10]%N))
     = [10; 11; 12; 10]%N.
Proof.
  split; [|vm_compute; reflexivity].
  split; [cbn; intuition discriminate|].
  split; intros x H; cbn in H; intuition (try discriminate); congruence.
Qed.
Print Assumptions C13_example.
