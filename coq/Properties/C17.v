(* C17 -- Every p2p request gets its own reply, at most once, or a prompt error.
   Model: Models/Dispatch.v -- the correlation table of client.dispatch (per-connection counter,
   nonce -> pending request, reply matched and removed by nonce, every pending request failed when
   the connection's context ends) with the once-only completion of p2pRequest and the
   first-of(completion, own cancellation) of waitForResult.  Events: DSend r, DReply nonce m,
   DCancel r, DConnDone, in ANY order and number (replies reordered, duplicated, for unknown nonces,
   after cancellation, after the connection is gone). *)
From Coq Require Import ZArith List Bool Lia.
From DosVerif Require Import Base.Val Models.Dispatch Proofs.DispatchProofs.
Import ListNotations.
Open Scope Z_scope.

(* a request that returns a reply returns the content of a reply frame carrying ITS nonce, which
   arrived after the request was put on the wire *)
Theorem C17_own_reply :
  forall es r m, In (r, ROk m) (returned (drun es)) ->
  exists n es1 es2, es = es1 ++ DReply n m :: es2 /\ In (r, n) (wire (drun es1)).
Proof. exact own_reply. Qed.
Print Assumptions C17_own_reply.

(* ... and no other request was put on the wire with that nonce: never another request's reply *)
Theorem C17_reply_not_crossed :
  forall es r1 r2 n, In (r1, n) (wire (drun es)) -> In (r2, n) (wire (drun es)) -> r1 = r2.
Proof. exact reply_not_crossed. Qed.
Print Assumptions C17_reply_not_crossed.

Theorem C17_nonces_distinct : forall es, NoDup (map snd (wire (drun es))).
Proof. exact nonces_distinct. Qed.
Print Assumptions C17_nonces_distinct.

(* a request call returns at most once, whatever arrives (duplicate replies, a reply racing the
   cancellation, the connection ending while a reply is in flight) *)
Theorem C17_returns_at_most_once : forall es, NoDup (map fst (returned (drun es))).
Proof. exact returns_at_most_once. Qed.
Print Assumptions C17_returns_at_most_once.

(* a cancelled request returns; when the connection ends every request still waiting returns *)
Theorem C17_cancel_returns : forall es r, exists x, In (r, x) (returned (drun (es ++ [DCancel r]))).
Proof. exact cancel_returns. Qed.
Print Assumptions C17_cancel_returns.

Theorem C17_conn_done_fails_pending :
  forall es n r, alive (drun es) = true -> In (n, r) (table (drun es)) ->
  exists x, In (r, x) (returned (drun (es ++ [DConnDone]))).
Proof. exact conn_done_fails_pending. Qed.
Print Assumptions C17_conn_done_fails_pending.

(* non-vacuity: three overlapping requests, replies out of order, one duplicate reply, one reply for
   a nonce that was never issued, one cancellation before its reply, the connection ending last *)
Example C17_example :
  let s := drun [DSend 10; DSend 11; DSend 12; DReply 2 72; DReply 7 99; DReply 0 70; DReply 0 71;
                 DCancel 11; DReply 1 73; DSend 13; DConnDone] in
  wire s = [(10, 0); (11, 1); (12, 2); (13, 3)] /\
  returned s = [(12, ROk 72); (10, ROk 70); (11, RCancelled); (13, RConnErr)].
Proof. vm_compute. split; reflexivity. Qed.
Print Assumptions C17_example.

(* ---- the server's two connection tables (Models/ConnTable.v): which connection a request or a
   reply is handed to, over any history of requests, accepted connections, connections ending and
   their removal announcements being processed at any later time *)
From DosVerif Require Import Models.ConnTable Proofs.ConnTableProofs.

(* in every reachable state an entry of a table names a connection to that very peer, made in that
   table's direction, alive or with its removal announced *)
Theorem C17_tables_invariant : forall es, cinv (fst (crun c0 es)).
Proof. exact reachable_inv. Qed.
Print Assumptions C17_tables_invariant.

(* a request to a peer goes out on a connection dialled to THAT peer *)
Theorem C17_request_uses_own_connection :
  forall s id ok c, cinv s ->
  (snd (cstep s (CReq id ok)) = Routed c \/ snd (cstep s (CReq id ok)) = Dialled c) ->
  exists x, nth_error (conns (fst (cstep s (CReq id ok)))) c = Some x /\ c_id x = id /\ c_inbound x = false.
Proof. exact request_uses_own_connection. Qed.
Print Assumptions C17_request_uses_own_connection.

(* a reply goes out on the connection accepted from the requester *)
Theorem C17_reply_uses_requesters_connection :
  forall s id c, cinv s -> snd (cstep s (CReply id)) = Routed c ->
  exists x, nth_error (conns s) c = Some x /\ c_id x = id /\ c_inbound x = true.
Proof. exact reply_uses_requesters_connection. Qed.
Print Assumptions C17_reply_uses_requesters_connection.

(* once the announced removals are processed the calling table holds live connections only *)
Theorem C17_settled_tables_live :
  forall s id c, cinv s -> pend_calling s = [] -> lookupn id (calling s) = Some c -> is_live s c = true.
Proof. exact settled_tables_live. Qed.
Print Assumptions C17_settled_tables_live.

(* a peer that went away (every connection with it ended) leaves no entry behind once the handlers
   settled: the next request to it dials afresh, its next connection is accepted - a closed
   connection never wedges later requests to that peer *)
Theorem C17_peer_gone_tables_clean :
  forall s id, cinv s ->
  let s' := settled (fst (crun s (ends_of s id))) in
  lookupn id (calling s') = None /\ lookupn id (incoming s') = None.
Proof. exact peer_gone_tables_clean. Qed.
Print Assumptions C17_peer_gone_tables_clean.

(* the variant in which a dialled connection announces its end to the accepted connections' channel:
   the dead entry stays and the next request is handed to a dead connection; the code's version dials *)
Example C17_wrong_channel_refuted :
  let s1 := fst (cstep_wrong (fst (cstep c0 (CReq 4 true))) (CEnd 0)) in
  let s2 := settled s1 in
  snd (cstep s2 (CReq 4 true)) = Routed 0 /\ is_live s2 0 = false /\
  snd (cstep (settled (fst (cstep (fst (cstep c0 (CReq 4 true))) (CEnd 0)))) (CReq 4 true)) = Dialled 1.
Proof. exact wrong_channel_refuted. Qed.
Print Assumptions C17_wrong_channel_refuted.
