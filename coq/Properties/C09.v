(* C09 -- Secret-sharing algebra: reconstruction, commitments and equality are exact.
   Statements only; every proof is `exact <lemma>`.  Model: Models/Share.v (share/poly.go).
   [kept sh n limit] is the list of (index, value) pairs xScalar keeps: entries that are nil,
   have a nil value or an index outside [0,n) are skipped, at most [limit] are kept, in order.
   [Flaws], [Glaws], [NodeLaws], [Gfree] are the field / module / abscissa laws of Base/Field.v;
   C09_instance shows that the executed instance Z/qZ (q prime) satisfies all of them. *)
From Coq Require Import ZArith List Bool Znumtheory.
From DosVerif Require Import Base.Val Base.Field Models.Share
     Proofs.PolyLemmas Proofs.ShareProofs Proofs.ZqField.
Import ListNotations.
Local Open Scope Z_scope.

(* any t distinct valid shares reconstruct the secret; order, nil and out-of-range entries are irrelevant *)
Theorem C09_recover_secret :
  forall (F : Type) (O : Fops F), Flaws O -> forall nmax, NodeLaws O nmax ->
  forall (d0 : bool) (f : list F) (sh : list (pshare F)) (t n : Z),
  1 <= t -> n <= nmax -> (length f <= Z.to_nat t)%nat ->
  let k := kept sh n (limit_of t) in
  length k = Z.to_nat t -> NoDup (map fst k) ->
  (forall iv, In iv k -> snd iv = eval O f (fst iv)) ->
  recover_secret O d0 sh t n = Ok (hd (f0 O) f).
Proof. exact (@recover_secret_ok). Qed.
Print Assumptions C09_recover_secret.

Theorem C09_recover_secret_too_few :
  forall (F : Type) (O : Fops F) (d0 : bool) (sh : list (pshare F)) (t n : Z),
  Z.of_nat (length (kept sh n None)) < t -> recover_secret O d0 sh t n = Err.
Proof. exact (@recover_secret_too_few). Qed.
Print Assumptions C09_recover_secret_too_few.

(* ... and the whole polynomial, coefficient for coefficient *)
Theorem C09_recover_pripoly :
  forall (F : Type) (O : Fops F), Flaws O -> forall nmax, NodeLaws O nmax ->
  forall (f : list F) (sh : list (pshare F)) (t n : Z),
  1 <= t -> n <= nmax -> length f = Z.to_nat t ->
  let k := kept sh n (limit_of t) in
  length k = Z.to_nat t -> NoDup (map fst k) ->
  (forall iv, In iv k -> snd iv = eval O f (fst iv)) ->
  recover_pripoly O sh t n = Ok f.
Proof. exact (@recover_pripoly_ok). Qed.
Print Assumptions C09_recover_pripoly.

Theorem C09_recover_pripoly_too_few :
  forall (F : Type) (O : Fops F) (sh : list (pshare F)) (t n : Z),
  Z.of_nat (length (kept sh n None)) < t -> recover_pripoly O sh t n = Err.
Proof. exact (@recover_pripoly_too_few). Qed.
Print Assumptions C09_recover_pripoly_too_few.

(* the same "in the exponent": public shares that commit to points of f give the commitment of f(0) *)
Theorem C09_recover_commit :
  forall (F G : Type) (O : Fops F) (M : Gops F G), Flaws O -> Glaws O M ->
  forall nmax, NodeLaws O nmax ->
  forall (d0 : bool) (f : list F) (B : G) (sh : list (pshare G)) (t n : Z),
  n <= nmax ->
  let k := kept sh n None in
  t <= Z.of_nat (length k) -> (length f <= length k)%nat -> NoDup (map fst k) ->
  (forall iv, In iv k -> snd iv = gscale M (eval O f (fst iv)) B) ->
  recover_commit O M d0 sh t n = Ok (gscale M (hd (f0 O) f) B).
Proof. exact (@recover_commit_ok). Qed.
Print Assumptions C09_recover_commit.

Theorem C09_recover_commit_too_few :
  forall (F G : Type) (O : Fops F) (M : Gops F G) (d0 : bool) (sh : list (pshare G)) (t n : Z),
  Z.of_nat (length (kept sh n None)) < t -> recover_commit O M d0 sh t n = Err.
Proof. exact (@recover_commit_too_few). Qed.
Print Assumptions C09_recover_commit_too_few.

(* the commitment polynomial evaluates to the commitment of the private share *)
Theorem C09_commit_eval :
  forall (F G : Type) (O : Fops F) (M : Gops F G), Flaws O -> Glaws O M ->
  forall (B : G) (p : list F) (i : Z),
  pub_eval O M (commit M B p) i = gscale M (eval O p i) B.
Proof. exact (@commit_eval). Qed.
Print Assumptions C09_commit_eval.

(* share checking accepts exactly the true share value at its index *)
Theorem C09_check_exact :
  forall (F G : Type) (O : Fops F) (M : Gops F G), Flaws O -> Glaws O M ->
  forall (B : G) (p : list F) (i : Z) (v : F), Gfree O M B ->
  check O M B (commit M B p) i v = true <-> v = eval O p i.
Proof. exact (@check_exact). Qed.
Print Assumptions C09_check_exact.

(* addition is homomorphic, privately, publicly and across Commit; defined iff lengths agree *)
Theorem C09_pri_add_eval :
  forall (F : Type) (O : Fops F), Flaws O -> forall (p q r : list F) (i : Z),
  pri_add O p q = Some r -> eval O r i = fadd O (eval O p i) (eval O q i).
Proof. exact (@pri_add_eval). Qed.
Print Assumptions C09_pri_add_eval.

Theorem C09_pri_add_defined :
  forall (F : Type) (O : Fops F) (p q : list F),
  (exists r, pri_add O p q = Some r) <-> length p = length q.
Proof. exact (@pri_add_defined). Qed.
Print Assumptions C09_pri_add_defined.

Theorem C09_commit_add_hom :
  forall (F G : Type) (O : Fops F) (M : Gops F G), Glaws O M ->
  forall (B : G) (p q r : list F), pri_add O p q = Some r ->
  pub_add M (commit M B p) (commit M B q) = Some (commit M B r).
Proof. exact (@commit_add_hom). Qed.
Print Assumptions C09_commit_add_hom.

Theorem C09_pub_add_eval :
  forall (F G : Type) (O : Fops F) (M : Gops F G), Glaws O M ->
  forall (P Q R : list G) (i : Z), pub_add M P Q = Some R ->
  pub_eval O M R i = gadd M (pub_eval O M P i) (pub_eval O M Q i).
Proof. exact (@pub_add_eval). Qed.
Print Assumptions C09_pub_add_eval.

(* no share index evaluates the polynomial at zero (the secret is the value at zero) *)
Theorem C09_no_zero_abscissa :
  forall (F : Type) (O : Fops F) (nmax : Z), NodeLaws O nmax ->
  forall i, 0 <= i < nmax -> node O i <> f0 O.
Proof. exact (@no_zero_abscissa). Qed.
Print Assumptions C09_no_zero_abscissa.

Theorem C09_secret_is_value_at_zero :
  forall (F : Type) (O : Fops F), Flaws O -> forall p : list F, horner O p (f0 O) = hd (f0 O) p.
Proof. exact (@hor_0). Qed.
Print Assumptions C09_secret_is_value_at_zero.

(* equality tests coincide with equality of coefficient lists *)
Theorem C09_pri_equal_iff :
  forall (F : Type) (O : Fops F), Flaws O -> forall p q : list F, pri_equal O p q = true <-> p = q.
Proof. exact (@pri_equal_iff). Qed.
Print Assumptions C09_pri_equal_iff.

Theorem C09_pub_equal_iff :
  forall (F G : Type) (O : Fops F) (M : Gops F G), Glaws O M ->
  forall p q : list G, pub_equal M p q = true <-> p = q.
Proof. exact (@pub_equal_iff). Qed.
Print Assumptions C09_pub_equal_iff.

(* PubPoly.Equal as it stood before the repair (fix: commit) was NOT an equality test *)
Theorem C09_pub_equal_old_refuted :
  forall (F G : Type) (O : Fops F) (M : Gops F G), Glaws O M -> forall a b : G,
  pub_equal_old M [a] [a; b] = Ok true /\ pub_equal_old M [a; b] [a] = Panic.
Proof. exact (fun F G O M GL a b => conj (@pub_equal_old_prefix F G O M GL a b) (@pub_equal_old_panics F G M a b)). Qed.
Print Assumptions C09_pub_equal_old_refuted.

(* the executed instance satisfies every law the theorems above assume *)
Theorem C09_instance :
  forall q : Z, prime q ->
  Flaws (zq_ops q) /\ NodeLaws (zq_ops q) (q - 1) /\ Glaws (zq_ops q) (exp_gops q) /\
  Gfree (zq_ops q) (exp_gops q) (zq_of q 1).
Proof. exact (fun q Hq => conj (zq_flaws q Hq) (conj (zq_nodes q) (conj (exp_glaws q) (exp_gfree q)))). Qed.
Print Assumptions C09_instance.

(* non-vacuity: a concrete share list meets the hypotheses of C09_recover_secret, and the model
   evaluates to the secret on it *)
Example C09_hypotheses_satisfiable :
  let O := zq_ops 101 in
  let f := map (zq_of 101) [3; 4; 5] in
  let sh : list (pshare (zq 101)) :=
    [Some (0, Some (zq_of 101 12)); None; Some (7, Some (zq_of 101 1)); Some (1, Some (zq_of 101 31));
     Some (2, None); Some (2, Some (zq_of 101 60)); Some (3, Some (zq_of 101 99))] in
  let k := kept sh 5 (limit_of 3) in
  length k = 3%nat /\ NoDup (map fst k) /\
  (forall iv, In iv k -> snd iv = eval O f (fst iv)) /\
  res_val (fun x => VZ (zv x)) (recover_secret O true sh 3 5) = VZ 3.
Proof.
  cbv zeta.
  match goal with |- context [kept ?sh ?n ?l] => set (k := kept sh n l) end.
  assert (Hk : k = [(0, zq_of 101 12); (1, zq_of 101 31); (2, zq_of 101 60)]) by (vm_compute; reflexivity).
  rewrite Hk. split; [reflexivity|]. split.
  - cbn. repeat constructor; cbn; intuition discriminate.
  - split; [|vm_compute; reflexivity].
    intros iv H. cbn in H.
    destruct H as [<-|[<-|[<-|[]]]]; apply zq_eq; vm_compute; reflexivity.
Qed.
Print Assumptions C09_hypotheses_satisfiable.
