(* C11 -- Group element and scalar encodings round-trip and reject malformed input.
   Model: Models/Bn.v (value-level bn256: F_p, F_p^2, Jacobian points with the formulas of
   curve.go / twist.go, the codecs of point.go, mod.Int scalars).  The decoders return an
   [option]: "never a panic" is the type of the model; that the implementation behaves like the
   model on malformed bytes is what the correspondence run checks. *)
From Coq Require Import ZArith List Bool.
From DosVerif Require Import Base.Val Base.Field Models.Bn Models.BnPairing Models.GtCodec
     Proofs.BnCodecProofs Proofs.BnCodecG2 Proofs.GtCodecProofs.
Import ListNotations.
Local Open Scope Z_scope.

(* every point of the curve (any Jacobian representation, identity included) survives
   encode-then-decode: the decoder returns its affine form *)
Theorem C11_roundtrip_g1 :
  forall a : jac (K:=Fp), g1_on_curve a = true -> g1_unmarshal (g1_marshal a) = Some (make_affine fp_ops a).
Proof. exact g1_roundtrip. Qed.
Print Assumptions C11_roundtrip_g1.

Theorem C11_roundtrip_g2 :
  forall a : jac (K:=Fp2), g2_on_curve a = true -> g2_unmarshal (g2_marshal a) = Some (make_affine fp2o a).
Proof. exact g2_roundtrip. Qed.
Print Assumptions C11_roundtrip_g2.

Theorem C11_injective_g2 :
  forall a b : jac (K:=Fp2), g2_on_curve a = true -> g2_on_curve b = true ->
  g2_marshal a = g2_marshal b -> make_affine fp2o a = make_affine fp2o b.
Proof. exact g2_injective. Qed.
Print Assumptions C11_injective_g2.

Example C11_g2_generator_roundtrips :
  g2_on_curve g2_gen = true /\ g2_unmarshal (g2_marshal g2_gen) = Some (make_affine fp2o g2_gen).
Proof. exact (conj g2_gen_in_subgroup g2_gen_roundtrips). Qed.
Print Assumptions C11_g2_generator_roundtrips.

Theorem C11_length_g1 : forall a : jac (K:=Fp), length (g1_marshal a) = 64%nat.
Proof. exact g1_length. Qed.
Print Assumptions C11_length_g1.

Theorem C11_length_g2 :
  forall a : jac (K:=Fp2), is_inf fp2o (make_affine fp2o a) = false -> length (g2_marshal a) = 129%nat.
Proof. exact g2_length. Qed.
Print Assumptions C11_length_g2.

(* distinct elements have distinct encodings (equality of elements = equality of encodings) *)
Theorem C11_injective_g1 :
  forall a b : jac (K:=Fp), g1_on_curve a = true -> g1_on_curve b = true ->
  g1_marshal a = g1_marshal b -> make_affine fp_ops a = make_affine fp_ops b.
Proof. exact g1_injective. Qed.
Print Assumptions C11_injective_g1.

(* too short is an error; whatever decodes satisfies the curve equation ... *)
Theorem C11_short_g1 : forall buf, (length buf < 64)%nat -> g1_unmarshal buf = None.
Proof. exact g1_short. Qed.
Print Assumptions C11_short_g1.

Theorem C11_decoded_on_curve_g1 : forall buf a, g1_unmarshal buf = Some a -> g1_on_curve a = true.
Proof. exact g1_decoded_on_curve. Qed.
Print Assumptions C11_decoded_on_curve_g1.

Theorem C11_short_g2 : forall buf, (length buf < 129)%nat -> hd 0%N buf <> 0%N -> g2_unmarshal buf = None.
Proof. exact g2_short. Qed.
Print Assumptions C11_short_g2.

(* ... and for G2 additionally [Order]P = O: input outside the prime-order subgroup is an error *)
Theorem C11_decoded_in_subgroup_g2 :
  forall buf a, g2_unmarshal buf = Some a ->
  a = mkjac (f0 fp2o) (f1 fp2o) (f0 fp2o) \/ g2_on_curve a = true.
Proof. exact g2_decoded_in_subgroup. Qed.
Print Assumptions C11_decoded_in_subgroup_g2.

Theorem C11_on_curve_g2_means_subgroup :
  forall a : jac (K:=Fp2), g2_on_curve a = true ->
  is_inf fp2o (make_affine fp2o a) = true \/
  (on_curve_affine fp2o g2_b (make_affine fp2o a) = true /\
   is_inf fp2o (g2_mul (make_affine fp2o a) bn_q) = true).
Proof. exact g2_on_curve_means_subgroup. Qed.
Print Assumptions C11_on_curve_g2_means_subgroup.

(* scalars: 32 bytes, round trip, only in-range values decode *)
Theorem C11_scalar_roundtrip : forall k, scalar_unmarshal (scalar_marshal k) = Some (k mod bn_q).
Proof. exact scalar_roundtrip. Qed.
Print Assumptions C11_scalar_roundtrip.

Theorem C11_scalar_in_range :
  forall buf v, scalar_unmarshal buf = Some v -> length buf = 32%nat /\ v < bn_q.
Proof. exact scalar_decoded_in_range. Qed.
Print Assumptions C11_scalar_in_range.

Theorem C11_scalar_length : forall k, length (scalar_marshal k) = 32%nat.
Proof. exact scalar_length. Qed.
Print Assumptions C11_scalar_length.

(* ---- GT (Models/GtCodec.v): 384 bytes, the twelve coordinates as 32-byte words *)

(* every element of F_p^12 - so every GT element - survives encode-then-decode unchanged, whatever
   follows the encoding in the buffer *)
Theorem C11_roundtrip_gt : forall (e : fp12) (rest : list N), fp12_unmarshal (fp12_marshal e ++ rest) = Some e.
Proof. exact gt_roundtrip. Qed.
Print Assumptions C11_roundtrip_gt.

Theorem C11_length_gt : forall e : fp12, length (fp12_marshal e) = 384%nat.
Proof. exact gt_length. Qed.
Print Assumptions C11_length_gt.

(* distinct elements have distinct encodings *)
Theorem C11_injective_gt : forall a b : fp12, fp12_marshal a = fp12_marshal b -> a = b.
Proof. exact gt_injective. Qed.
Print Assumptions C11_injective_gt.

Theorem C11_short_gt : forall buf, (length buf < 384)%nat -> fp12_unmarshal buf = None.
Proof. exact gt_short. Qed.
Print Assumptions C11_short_gt.

(* what the decoder delivers decodes again to itself from its own encoding (canonical words) *)
Theorem C11_decoded_canonical_gt :
  forall buf e, fp12_unmarshal buf = Some e -> fp12_unmarshal (fp12_marshal e) = Some e.
Proof. exact gt_decoded_canonical. Qed.
Print Assumptions C11_decoded_canonical_gt.

(* non-vacuity: the G1 generator and a multiple of it are on the curve and round-trip; the G2
   generator satisfies the twist equation (the G2 subgroup test is a 254-bit scalar multiplication
   over F_p^2: minutes inside Coq, milliseconds in the extracted model, where the correspondence
   run exercises it on every G2 case) *)
Example C11_generators :
  g1_on_curve g1_gen = true /\ g1_unmarshal (g1_marshal (g1_mul g1_gen 5)) <> None /\
  on_curve_affine fp2o g2_b g2_gen = true.
Proof. split; [vm_compute; reflexivity|]. split; [vm_compute; discriminate|vm_compute; reflexivity]. Qed.
Print Assumptions C11_generators.
