(* C04 -- Honest key generation agrees on one key under every delivery schedule.
   Models: Models/Vss.v + Models/Dkg.v.  The statements below do not mention the order in which
   deals and responses were processed: they hold for whatever state a member is in when
   DistKeyShare succeeds, i.e. for every delivery schedule, skew and re-delivery.
   [honest_deal f i p]: p carries the commitments of f and the value of f at index i. *)
From Coq Require Import ZArith List Bool.
From DosVerif Require Import Base.Val Base.Field Models.Share Models.Tbls Models.Vss Models.Dkg
     Proofs.ShareProofs Proofs.VssProofs Proofs.DkgProofs.
Import ListNotations.
Local Open Scope Z_scope.

(* all dealers honest: a finished member's public polynomial is the commitment of the SUM S of the
   dealers' polynomials (the same S for every member), and its share is S at its own index *)
Theorem C04_agreement :
  forall (F : Type) (O : Fops F), Flaws O ->
  forall (g : gen (F:=F)) (i : Z) (fs : list (list F)) C x,
  dist_key_share O g = Ok (C, x) ->
  Forall2 (fun p f => honest_deal O f i p) (certified_deals g) fs ->
  exists S, sum_polys_l O fs = Some S /\ C = commit (self_gops O) (f1 O) S /\ x = eval O S i.
Proof.
  exact (fun F O L g i fs C x H HF =>
    match dks_spec O g C x H with
    | conj _ (conj _ (conj Hc Hx)) =>
      match honest_sum O L i (certified_deals g) fs C HF Hc with
      | ex_intro _ Sg (conj H1 (conj H2 H3)) => ex_intro _ Sg (conj H1 (conj H2 (eq_trans Hx H3)))
      end
    end).
Qed.
Print Assumptions C04_agreement.

(* hence any t of the members' shares reconstruct S(0), the sum of the dealers' secrets, whose
   commitment is the group public key: C09_recover_secret with f := S *)
Theorem C04_shares_reconstruct :
  forall (F : Type) (O : Fops F), Flaws O -> forall nmax, NodeLaws O nmax ->
  forall (d0 : bool) (S : list F) (sh : list (pshare F)) (t n : Z),
  1 <= t -> n <= nmax -> (length S <= Z.to_nat t)%nat ->
  let k := kept sh n (limit_of t) in
  length k = Z.to_nat t -> NoDup (map fst k) ->
  (forall iv, In iv k -> snd iv = eval O S (fst iv)) ->
  recover_secret O d0 sh t n = Ok (hd (f0 O) S).
Proof. exact (@recover_secret_ok). Qed.
Print Assumptions C04_shares_reconstruct.

(* the share lies on the agreed polynomial (holds with Byzantine dealers too) *)
Theorem C04_share_on_polynomial :
  forall (F : Type) (O : Fops F), Flaws O ->
  forall (g : gen (F:=F)) (i : Z) C x,
  dist_key_share O g = Ok (C, x) ->
  (forall p, In p (certified_deals g) ->
     exists y, p_sec p = Some (i, y) /\ check O (self_gops O) (f1 O) (p_commits p) i y = true) ->
  check O (self_gops O) (f1 O) C i x = true.
Proof. exact (@finished_share_on_polynomial). Qed.
Print Assumptions C04_share_on_polynomial.

(* non-vacuity, and the message flow of three honest members evaluated on the model:
   every member finishes with the commitment of f0+f1+f2 *)
Definition P0 : list (zq 101) := [zq_of 101 3; zq_of 101 4].
Definition P1 : list (zq 101) := [zq_of 101 10; zq_of 101 1].
Definition P2 : list (zq 101) := [zq_of 101 20; zq_of 101 7].
Definition mem : list Z := [50; 51; 52].
Definition G (i : Z) (p : list (zq 101)) := gen_init (zq_ops 101) true i (50 + i) mem 2 p.
Definition deal_to (i : Z) (from : Z) (p : list (zq 101)) := (from, Some (own_edeal (zq_ops 101) (G from p) i (100 + from))).
Definition resp_of (k j : Z) (pj : list (zq 101)) : Z * option (response (F:=zq 101)) :=
  (j, Some (mkresp (Sid (50 + j) mem (commit (self_gops (zq_ops 101)) (zq_of 101 1) pj) 2) k Approval (50 + k))).
Definition out (r : res (list (zq 101) * zq 101)) : val :=
  res_val (fun cx => VL [VL (map (fun c => VZ (zv c)) (fst cx)); VZ (zv (snd cx))]) r.
Example C04_three_honest_members_finish :
  out (session (zq_ops 101) true (G 0 P0) [deal_to 0 2 P2; deal_to 0 1 P1]
               [resp_of 2 1 P1; resp_of 1 0 P0; resp_of 2 0 P0; resp_of 1 2 P2])
    = VL [VL [VZ 33; VZ 12]; VZ 45] /\
  out (session (zq_ops 101) true (G 1 P1) [deal_to 1 0 P0; deal_to 1 2 P2]
               [resp_of 0 1 P1; resp_of 2 1 P1; resp_of 2 0 P0; resp_of 0 2 P2])
    = VL [VL [VZ 33; VZ 12]; VZ 57].
Proof. split; vm_compute; reflexivity. Qed.
Print Assumptions C04_three_honest_members_finish.
