(* C04 -- Honest key generation agrees on one key under every delivery schedule.
   Models: Models/Vss.v + Models/Dkg.v.  The statements below do not mention the order in which
   deals and responses were processed: they hold for whatever state a member is in when
   DistKeyShare succeeds, i.e. for every delivery schedule, skew and re-delivery.
   [honest_deal f i p]: p carries the commitments of f and the value of f at index i. *)
From Coq Require Import ZArith List Bool Lia.
From DosVerif Require Import Base.Val Base.Field Models.Share Models.Tbls Models.Vss Models.Dkg
     Proofs.ShareProofs Proofs.VssProofs Proofs.DkgProofs Proofs.DkgLive Proofs.ZqField Proofs.SmallPrimes.
Import ListNotations.
Local Open Scope Z_scope.

(* all dealers honest: a finished member's public polynomial is the commitment of the SUM S of the
   dealers' polynomials (the same S for every member), and its share is S at its own index *)
Theorem C04_agreement :
  forall (F : Type) (O : Fops F), Flaws O ->
  forall (g : gen (F:=F)) (i : Z) (fs : list (list F)) C x,
  dist_key_share O g = Ok (C, x) ->
  Forall2 (fun p f => honest_deal O f i p) (certified_deals g) fs ->
  exists S, sum_polys_l O fs = Some S /\ C = commit (self_gops O) (f1 O) S /\ x = eval O S i.
Proof.
  exact (fun F O L g i fs C x H HF =>
    match dks_spec O g C x H with
    | conj _ (conj _ (conj Hc Hx)) =>
      match honest_sum O L i (certified_deals g) fs C HF Hc with
      | ex_intro _ Sg (conj H1 (conj H2 H3)) => ex_intro _ Sg (conj H1 (conj H2 (eq_trans Hx H3)))
      end
    end).
Qed.
Print Assumptions C04_agreement.

(* hence any t of the members' shares reconstruct S(0), the sum of the dealers' secrets, whose
   commitment is the group public key: C09_recover_secret with f := S *)
Theorem C04_shares_reconstruct :
  forall (F : Type) (O : Fops F), Flaws O -> forall nmax, NodeLaws O nmax ->
  forall (d0 : bool) (S : list F) (sh : list (pshare F)) (t n : Z),
  1 <= t -> n <= nmax -> (length S <= Z.to_nat t)%nat ->
  let k := kept sh n (limit_of t) in
  length k = Z.to_nat t -> NoDup (map fst k) ->
  (forall iv, In iv k -> snd iv = eval O S (fst iv)) ->
  recover_secret O d0 sh t n = Ok (hd (f0 O) S).
Proof. exact (@recover_secret_ok). Qed.
Print Assumptions C04_shares_reconstruct.

(* the share lies on the agreed polynomial (holds with Byzantine dealers too) *)
Theorem C04_share_on_polynomial :
  forall (F : Type) (O : Fops F), Flaws O ->
  forall (g : gen (F:=F)) (i : Z) C x,
  dist_key_share O g = Ok (C, x) ->
  (forall p, In p (certified_deals g) ->
     exists y, p_sec p = Some (i, y) /\ check O (self_gops O) (f1 O) (p_commits p) i y = true) ->
  check O (self_gops O) (f1 O) C i x = true.
Proof. exact (@finished_share_on_polynomial). Qed.
Print Assumptions C04_share_on_polynomial.

(* "With every message delivered at least once, every member finishes": member i of any group of
   n >= 2 honest members (any threshold 2 <= t <= n, any polynomials of t coefficients) receives the
   deal of every other member - in ANY order js - and then k's approval of j's deal for every dealer
   j and every responder k other than i and j - in ANY order ps: its session finishes.  (Duplicates
   are filtered before the session functions; C04's networked runs cover re-delivery.) *)
Theorem C04_everything_delivered_finishes :
  forall (F : Type) (O : Fops F), Flaws O ->
  forall (members : list Z) (t : Z) (polys : Z -> list F) (i : Z),
  2 <= t <= DkgLive.n members -> 0 <= i < DkgLive.n members ->
  (forall j, length (polys j) = Z.to_nat t) ->
  forall (js : list Z) (e : Z -> Z) (ps : list (Z * Z)),
  NoDup js -> (forall j, In j js <-> 0 <= j < DkgLive.n members /\ j <> i) ->
  NoDup ps -> (forall j k, In (j, k) ps <-> 0 <= j < DkgLive.n members /\ 0 <= k < DkgLive.n members /\ k <> i /\ k <> j) ->
  exists C x,
    session O true (gi0 O members t polys i)
            (map (fun j => (j, Some (Dj O members t polys i j (e j)))) js)
            (map (fun jk => (fst jk, Some (Rjk O members t polys (fst jk) (snd jk)))) ps) = Ok (C, x).
Proof. exact (@session_finishes). Qed.
Print Assumptions C04_everything_delivered_finishes.

(* non-vacuity, and the message flow of three honest members evaluated on the model:
   every member finishes with the commitment of f0+f1+f2 *)
Definition P0 : list (zq 101) := [zq_of 101 3; zq_of 101 4].
Definition P1 : list (zq 101) := [zq_of 101 10; zq_of 101 1].
Definition P2 : list (zq 101) := [zq_of 101 20; zq_of 101 7].
Definition mem : list Z := [50; 51; 52].
Definition G (i : Z) (p : list (zq 101)) := gen_init (zq_ops 101) true i (50 + i) mem 2 p.
Definition deal_to (i : Z) (from : Z) (p : list (zq 101)) := (from, Some (own_edeal (zq_ops 101) (G from p) i (100 + from))).
Definition resp_of (k j : Z) (pj : list (zq 101)) : Z * option (response (F:=zq 101)) :=
  (j, Some (mkresp (Sid (50 + j) mem (commit (self_gops (zq_ops 101)) (zq_of 101 1) pj) 2) k Approval (50 + k))).
Definition out (r : res (list (zq 101) * zq 101)) : val :=
  res_val (fun cx => VL [VL (map (fun c => VZ (zv c)) (fst cx)); VZ (zv (snd cx))]) r.
Example C04_three_honest_members_finish :
  out (session (zq_ops 101) true (G 0 P0) [deal_to 0 2 P2; deal_to 0 1 P1]
               [resp_of 2 1 P1; resp_of 1 0 P0; resp_of 2 0 P0; resp_of 1 2 P2])
    = VL [VL [VZ 33; VZ 12]; VZ 45] /\
  out (session (zq_ops 101) true (G 1 P1) [deal_to 1 0 P0; deal_to 1 2 P2]
               [resp_of 0 1 P1; resp_of 2 1 P1; resp_of 2 0 P0; resp_of 0 2 P2])
    = VL [VL [VZ 33; VZ 12]; VZ 57].
Proof. split; vm_compute; reflexivity. Qed.
Print Assumptions C04_three_honest_members_finish.

(* the premises of C04_everything_delivered_finishes are met by the three members above (member 0,
   deals arriving in the order 2, 1; approvals in the order used in the example) *)
Definition polys3 (j : Z) : list (zq 101) := if j =? 1 then P1 else if j =? 2 then P2 else P0.
Example C04_liveness_premises_hold :
  Flaws (zq_ops 101) /\ 2 <= 2 <= DkgLive.n mem /\ 0 <= 0 < DkgLive.n mem /\
  (forall j, length (polys3 j) = Z.to_nat 2) /\
  NoDup [2; 1] /\ (forall j, In j [2; 1] <-> 0 <= j < DkgLive.n mem /\ j <> 0) /\
  NoDup [(1, 2); (0, 1); (0, 2); (2, 1)] /\
  (forall j k, In (j, k) [(1, 2); (0, 1); (0, 2); (2, 1)] <->
               0 <= j < DkgLive.n mem /\ 0 <= k < DkgLive.n mem /\ k <> 0 /\ k <> j).
Proof.
  split; [apply zq_flaws; exact prime_101|].
  change (DkgLive.n mem) with 3.
  split; [lia|]. split; [lia|].
  split; [intros j; unfold polys3; destruct (j =? 1); [reflexivity|destruct (j =? 2); reflexivity]|].
  split; [repeat constructor; cbn; intuition discriminate|].
  split; [intros j; cbn; lia|].
  split; [repeat constructor; cbn; intuition discriminate|].
  intros j k. cbn [In]. split.
  - intros [H|[H|[H|[H|[]]]]]; injection H as <- <-; lia.
  - intros [Hj [Hk [Hk0 Hkj]]].
    assert (Ej : j = 0 \/ j = 1 \/ j = 2) by lia. assert (Ek : k = 1 \/ k = 2) by lia.
    destruct Ej as [-> | [-> | ->]], Ek as [-> | ->]; try lia; tauto.
Qed.
Print Assumptions C04_liveness_premises_hold.
