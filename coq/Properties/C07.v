(* C07 -- The signed oracle message is a fixed function of the request, same for all.
   Model: Models/Stages.v.  Every function below is a Gallina function of the event fields (and
   the fetched document) alone: "every member computes the identical string and submitter" is the
   statement that the implementation equals these functions, which is what the correspondence run
   checks for every member, repeatedly, concurrently and on shared event objects.
   [be_min n] = big.Int.Bytes(), [be_enc k n] = k-byte big-endian. *)
From Coq Require Import ZArith NArith List Bool.
From DosVerif Require Import Base.Val Models.Stages Proofs.StagesProofs.
Import ListNotations.

(* system randomness: exactly the 32-byte big-endian last randomness, then the submitter address,
   whatever the number of leading zero bytes of the value *)
Theorem C07_sys_layout :
  forall (r : N) (a : list N), (r < 2 ^ 256)%N -> sys_content (be_min r) a = be_enc 32 r ++ a.
Proof. exact sys_layout. Qed.
Print Assumptions C07_sys_layout.

Theorem C07_sys_length : forall r a, length (sys_content r a) = 32 + length a.
Proof. exact sys_length. Qed.
Print Assumptions C07_sys_length.

Theorem C07_sys_trim :
  forall bb a, 32 < length bb -> sys_content bb a = skipn (length bb - 32) bb ++ a.
Proof. exact sys_trim. Qed.
Print Assumptions C07_sys_trim.

(* the result submitted later is the signed string without its trailing 20 bytes: for the three
   request kinds that is the 32-byte randomness / requestId||lastRand||seed / the parsed document *)
Theorem C07_strip_inverse : forall x a, length a = 20 -> strip (x ++ a) = Ok x.
Proof. exact strip_inverse. Qed.
Print Assumptions C07_strip_inverse.

Theorem C07_strip_sys :
  forall r a, (r < 2 ^ 256)%N -> length a = 20 -> strip (sys_content (be_min r) a) = Ok (be_enc 32 r).
Proof. exact strip_sys. Qed.
Print Assumptions C07_strip_sys.

Theorem C07_strip_user :
  forall id r seed a, length a = 20 -> strip (user_content id r seed a) = Ok (id ++ r ++ seed).
Proof. exact strip_user. Qed.
Print Assumptions C07_strip_user.

Theorem C07_strip_query : forall res a, length a = 20 -> strip (query_content res a) = Ok res.
Proof. exact strip_query. Qed.
Print Assumptions C07_strip_query.

(* the submitter: the low 64 bits of the last randomness modulo the group size, a member of the list *)
Theorem C07_submitter_range :
  forall r n, (0 < n)%N -> exists i, submitter_index r n = Ok i /\ (i < n)%N.
Proof. exact submitter_range. Qed.
Print Assumptions C07_submitter_range.

Theorem C07_submitter_low64 :
  forall r r' n, (r mod 2 ^ 64 = r' mod 2 ^ 64)%N -> submitter_index r n = submitter_index r' n.
Proof. exact submitter_low64. Qed.
Print Assumptions C07_submitter_low64.

Theorem C07_submitter_member :
  forall r ids, ids <> [] -> exists a, submitter r ids = Ok a /\ In a ids.
Proof. exact submitter_member. Qed.
Print Assumptions C07_submitter_member.

Example C07_example :
  sys_content (be_min 258) [7]%N = (repeat 0 30 ++ [1; 2; 7])%N
  /\ submitter (2 ^ 64 + 5)%N [[1]; [2]; [3]]%N = Ok [3]%N.
Proof. split; vm_compute; reflexivity. Qed.
Print Assumptions C07_example.
