(* C18 -- Each subscribed contract event is delivered once, faithfully, never if removed.
   Model: Models/FirstEvent.v -- firstEvent over the merged stream of all websocket endpoints (within
   the de-duplication window), identity = the hashed bytes data ++ minimal big-endian block number
   (hypothesis: SHA-256 collision freedom; stated: distinct logs of the contracts differ in data or
   block).  Gen/EventTable.v -- REGENERATED on every run from onchain/eth_subscribe.go (each
   translation block), the generated bindings (the fields each event carries) and the node's
   subscription list. *)
From Coq Require Import ZArith NArith List Bool String Lia.
From DosVerif Require Import Base.Val Models.Stages Models.FirstEvent Proofs.FirstEventProofs Gen.EventTable.
Import ListNotations.

(* whatever the merged stream -- any interleaving of any number of endpoints, duplicates, removed
   re-emissions -- the delivered identities are exactly those of the logs not flagged removed ... *)
Theorem C18_delivered_exactly :
  forall stream x, In x (map ident (first_event [] stream)) <->
                   exists l, In l stream /\ l_removed l = false /\ ident l = x.
Proof. exact delivered_exactly. Qed.
Print Assumptions C18_delivered_exactly.

(* ... each once ... *)
Theorem C18_delivered_once : forall stream, NoDup (map ident (first_event [] stream)).
Proof. exact delivered_once. Qed.
Print Assumptions C18_delivered_once.

(* ... never a log flagged removed, never something that was not in the stream *)
Theorem C18_removed_never_delivered : forall stream l, In l (first_event [] stream) -> l_removed l = false.
Proof. exact removed_never_delivered. Qed.
Print Assumptions C18_removed_never_delivered.

Theorem C18_delivered_from_stream : forall stream l, In l (first_event [] stream) -> In l stream.
Proof. exact delivered_from_stream. Qed.
Print Assumptions C18_delivered_from_stream.

(* one endpoint failing does not matter as long as the others carry the history: two merged streams
   with the same non-removed identities deliver the same identities *)
Theorem C18_interleaving_independent :
  forall s1 s2,
  (forall x, (exists l, In l s1 /\ l_removed l = false /\ ident l = x) <->
             (exists l, In l s2 /\ l_removed l = false /\ ident l = x)) ->
  forall x, In x (map ident (first_event [] s1)) <-> In x (map ident (first_event [] s2)).
Proof. exact interleaving_independent. Qed.
Print Assumptions C18_interleaving_independent.

(* the hashed bytes determine (data, block) for ABI-encoded data and 64-bit block numbers *)
Theorem C18_identity_injective :
  forall l1 l2, List.length (l_data l1) mod 32 = 0 -> List.length (l_data l2) mod 32 = 0 ->
  (l_block l1 < 2 ^ 64)%N -> (l_block l2 < 2 ^ 64)%N ->
  ident l1 = ident l2 -> l_data l1 = l_data l2 /\ l_block l1 = l_block l2.
Proof. exact identity_injective. Qed.
Print Assumptions C18_identity_injective.

(* field fidelity, statically: in the translation block of every subscribed event each field of the
   delivered value is filled exactly once from a field of the event, a node field bearing the name
   of an event field from that very field, no event field feeds two node fields, and the common
   part (transaction, block number, removed flag, raw log) is the canonical one *)
Theorem C18_translation_blocks_faithful : table_ok event_blocks event_fields node_fields subscribed = true.
Proof. vm_compute. reflexivity. Qed.
Print Assumptions C18_translation_blocks_faithful.

(* an error of a subscription is attributed to the websocket endpoint it came from, so the node
   disconnects that endpoint and no other *)
Theorem C18_errors_name_their_endpoint : errors_ok error_indices subscribed = true.
Proof. vm_compute. reflexivity. Qed.
Print Assumptions C18_errors_name_their_endpoint.

(* non-vacuity: three endpoints' emissions interleaved, a removed re-emission before and after the
   real log, duplicates *)
Example C18_example :
  map l_event (first_event []
    [mkelog [1; 2]%N 7 true 10; mkelog [1; 2]%N 7 false 10; mkelog [3]%N 7 false 11; mkelog [1; 2]%N 7 false 10;
     mkelog [1; 2]%N 8 false 12; mkelog [3]%N 7 true 11; mkelog [3]%N 7 false 11])
  = [10; 11; 12]%Z
  /\ List.length subscribed = 7%nat.
Proof. split; vm_compute; reflexivity. Qed.
Print Assumptions C18_example.
