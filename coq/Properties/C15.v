(* C15 -- Length-prefixed framing is transparent to stream fragmentation and bounded.
   Model: Models/Framing.v (writeTo / readFrom of p2p/client.go).  A connection is a list of
   chunks: each Read returns at most the rest of the current chunk; [concat c] is the byte stream.
   [frame p] = 4-byte big-endian length ++ p;  [valid_payload p]: 1 <= length p <= 2^20. *)
From Coq Require Import ZArith NArith List Bool.
From DosVerif Require Import Base.Val Models.Framing Proofs.FramingProofs.
Import ListNotations.

(* any number of frames, ANY chunking of their concatenation (and of whatever follows): the reader
   returns exactly the payloads, in order, and leaves exactly the following bytes unread *)
Theorem C15_transparent :
  forall (ps : list (list N)) (c : conn) (tail : list N),
  Forall valid_payload ps -> concat c = flat_map frame ps ++ tail ->
  exists c', read_frames (length ps) c = (map Ok ps, c') /\ concat c' = tail.
Proof. exact read_frames_transparent. Qed.
Print Assumptions C15_transparent.

(* what writeTo produced is what readFrom returns, whatever the fragmentation *)
Theorem C15_write_then_read :
  forall (ps : list (list N)) (c : conn),
  Forall valid_payload ps ->
  concat c = flat_map (fun p => match write_frame p with Ok w => w | _ => [] end) ps ->
  fst (read_frames (length ps) c) = map Ok ps.
Proof. exact write_then_read. Qed.
Print Assumptions C15_write_then_read.

(* a header announcing 0 or more than 2^20 is rejected after exactly the 4 header bytes were
   consumed: nothing of the announced size is read *)
Theorem C15_bounded :
  forall (c : conn) (h rest : list N),
  concat c = h ++ rest -> length h = 4 ->
  (be_dec h = 0 \/ size_limit < be_dec h)%N ->
  exists c', read_frame c = (Err, c') /\ concat c' = rest.
Proof. exact read_frame_bounded. Qed.
Print Assumptions C15_bounded.

(* a stream that ends inside the header or inside the payload yields an error *)
Theorem C15_truncated :
  forall (c : conn) (p : list N) (m : nat),
  valid_payload p -> m < length (frame p) -> concat c = firstn m (frame p) ->
  fst (read_frame c) = Err.
Proof. exact read_frame_truncated. Qed.
Print Assumptions C15_truncated.

(* the writer refuses payloads over the limit and otherwise emits exactly [frame p] *)
Theorem C15_writer :
  forall p, (valid_payload p -> write_frame p = Ok (frame p)) /\
            ((size_limit < N.of_nat (length p))%N -> write_frame p = Err).
Proof. exact (fun p => conj (write_frame_ok p) (write_frame_over p)). Qed.
Print Assumptions C15_writer.

(* ... also over a transport that accepts the frame in pieces: whatever positive number of bytes each
   Write call takes, the bytes on the wire are [frame p], all of it *)
Theorem C15_writer_short_writes :
  forall p lims, valid_payload p -> Forall (fun l => 1 <= l)%nat lims ->
  write_frame_short p lims = Ok (frame p).
Proof. exact write_frame_short_ok. Qed.
Print Assumptions C15_writer_short_writes.

(* non-vacuity: two frames split into awkward chunks *)
Example C15_example :
  read_frames 2 [[0;0]; [0]; [2;7;8;0]; [0;0;1]; [9]; [5;5]]%N
  = ([Ok [7;8]; Ok [9]]%N, [[5;5]]%N).
Proof. vm_compute. reflexivity. Qed.
Print Assumptions C15_example.
