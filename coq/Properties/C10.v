(* C10 -- bn256 field, group and pairing arithmetic is correct on every operand.
   What is PROVED here (for all operands): the extension-field formulas equal the schoolbook
   products of the tower, the Jacobian formulas equal the chord/tangent rule on affine coordinates
   (over any field: F_p and F_p^2), P+(-P) and P+P take the right branches, Add / Double / Neg /
   MakeAffine give results that depend on the ELEMENTS their operands represent and not on the
   Jacobian triples (C10_add_representation_independent ..), and the constants the
   translator reads from the source satisfy their defining equations.  What is NOT proved
   (DESIGN.md, "Limits"): associativity of the group law, bilinearity and non-degeneracy of the
   optimal ate pairing as computed by miller / finalExponentiation, and -- in this file -- the
   limb-level Montgomery arithmetic of gfp.s (see Gen/GfpAsm.v and Properties/C10asm.v when
   present).  Those parts are covered by the correspondence run: the value-level model (which
   recomputes every group operation and the whole pairing) and three independent oracles
   (math/big, go-ethereum's big-integer bn256, the EVM precompiles 0x06-0x08). *)
From Coq Require Import ZArith List Bool.
From DosVerif Require Import Base.Val Base.Field Gen.BnConsts Models.Bn Models.BnPairing
     Proofs.BnFieldProofs Proofs.BnRepr Proofs.BnTowerProofs.
Import ListNotations.

(* ---- F_p^2 over any field with the field laws *)
Theorem C10_fp2_mul :
  forall (K : Type) (O : Fops K), Flaws O -> forall a b : fp2 (K:=K),
  c1 (fp2_mul O a b) = fadd O (fmul O (c1 a) (c0 b)) (fmul O (c0 a) (c1 b)) /\
  c0 (fp2_mul O a b) = fsub O (fmul O (c0 a) (c0 b)) (fmul O (c1 a) (c1 b)).
Proof. exact (@fp2_mul_spec). Qed.
Print Assumptions C10_fp2_mul.

Theorem C10_fp2_square :
  forall (K : Type) (O : Fops K), Flaws O -> forall a : fp2 (K:=K), fp2_square O a = fp2_mul O a a.
Proof. exact (@fp2_square_is_mul). Qed.
Print Assumptions C10_fp2_square.

Theorem C10_fp2_inv :
  forall (K : Type) (O : Fops K), Flaws O -> forall a : fp2 (K:=K),
  fadd O (fmul O (c1 a) (c1 a)) (fmul O (c0 a) (c0 a)) <> f0 O ->
  fp2_mul O a (fp2_inv O a) = mkfp2 (f0 O) (f1 O).
Proof. exact (@fp2_inv_spec). Qed.
Print Assumptions C10_fp2_inv.

(* ---- the tower over F_p (ring identities: no primality needed) *)
Theorem C10_fp2_mulxi : forall a : Fp2, fp2_mulxi a = fp2_mul fp_ops a xi.
Proof. exact fp2_mulxi_is_mul. Qed.
Print Assumptions C10_fp2_mulxi.

Theorem C10_fp6_mul : forall a b : fp6, fp6_mul a b = fp6_mul_school a b.
Proof. exact fp6_mul_is_schoolbook. Qed.
Print Assumptions C10_fp6_mul.

Theorem C10_fp6_square : forall a : fp6, fp6_square a = fp6_mul a a.
Proof. exact fp6_square_is_mul. Qed.
Print Assumptions C10_fp6_square.

Theorem C10_fp6_mul_tau : forall a : fp6, fp6_mul_tau a = fp6_mul a tau.
Proof. exact fp6_mul_tau_is_mul. Qed.
Print Assumptions C10_fp6_mul_tau.

Theorem C10_fp12_square : forall a : fp12, fp12_square a = fp12_mul a a.
Proof. exact fp12_square_is_mul. Qed.
Print Assumptions C10_fp12_square.

Theorem C10_mul_line :
  forall (r : fp12) (a b c : Fp2),
  mul_line r a b c = fp12_mul r (mkfp12 (mkfp6 fp2_zero a b) (mkfp6 fp2_zero fp2_zero c)).
Proof. exact mul_line_is_sparse_mul. Qed.
Print Assumptions C10_mul_line.

(* ---- the Jacobian formulas of curve.go / twist.go over any field *)
Theorem C10_jac_double :
  forall (K : Type) (O : Fops K), Flaws O -> forall a : jac (K:=K),
  jz a <> f0 O -> jy a <> f0 O -> fadd O (f1 O) (f1 O) <> f0 O ->
  let x := aff_x O a in let y := aff_y O a in
  let lam := fmul O (fadd O (fadd O (fmul O x x) (fmul O x x)) (fmul O x x)) (finv O (fadd O y y)) in
  let r := jac_double O a in
  jz r <> f0 O /\ aff_x O r = fsub O (fsub O (fmul O lam lam) x) x /\
  aff_y O r = fsub O (fmul O lam (fsub O x (aff_x O r))) y.
Proof. exact (@jac_double_spec). Qed.
Print Assumptions C10_jac_double.

Theorem C10_jac_add :
  forall (K : Type) (O : Fops K), Flaws O -> forall a b : jac (K:=K),
  jz a <> f0 O -> jz b <> f0 O -> aff_x O a <> aff_x O b -> fadd O (f1 O) (f1 O) <> f0 O ->
  let lam := fmul O (fsub O (aff_y O b) (aff_y O a)) (finv O (fsub O (aff_x O b) (aff_x O a))) in
  let r := jac_add O a b in
  jz r <> f0 O /\ aff_x O r = fsub O (fsub O (fmul O lam lam) (aff_x O a)) (aff_x O b) /\
  aff_y O r = fsub O (fmul O lam (fsub O (aff_x O a) (aff_x O r))) (aff_y O a).
Proof. exact (@jac_add_spec). Qed.
Print Assumptions C10_jac_add.

Theorem C10_jac_add_inverse :
  forall (K : Type) (O : Fops K), Flaws O -> forall a b : jac (K:=K),
  jz a <> f0 O -> jz b <> f0 O ->
  fsub O (fmul O (jx b) (fmul O (jz a) (jz a))) (fmul O (jx a) (fmul O (jz b) (jz b))) = f0 O ->
  fsub O (fmul O (jy b) (fmul O (jz a) (fmul O (jz a) (jz a)))) (fmul O (jy a) (fmul O (jz b) (fmul O (jz b) (jz b)))) <> f0 O ->
  is_inf O (jac_add O a b) = true.
Proof. exact (@jac_add_inverse). Qed.
Print Assumptions C10_jac_add_inverse.

Theorem C10_jac_add_same :
  forall (K : Type) (O : Fops K), Flaws O -> forall a b : jac (K:=K),
  jz a <> f0 O -> jz b <> f0 O ->
  fsub O (fmul O (jx b) (fmul O (jz a) (jz a))) (fmul O (jx a) (fmul O (jz b) (jz b))) = f0 O ->
  fsub O (fmul O (jy b) (fmul O (jz a) (fmul O (jz a) (jz a)))) (fmul O (jy a) (fmul O (jz b) (fmul O (jz b) (jz b)))) = f0 O ->
  jac_add O a b = jac_double O a.
Proof. exact (@jac_add_same). Qed.
Print Assumptions C10_jac_add_same.

Theorem C10_jac_add_identity :
  forall (K : Type) (O : Fops K) (a b : jac (K:=K)),
  (is_inf O a = true -> jac_add O a b = b) /\
  (is_inf O a = false -> is_inf O b = true -> jac_add O a b = a).
Proof. exact (fun K O a b => conj (@jac_add_inf_l K O a b) (@jac_add_inf_r K O a b)). Qed.
Print Assumptions C10_jac_add_identity.

Theorem C10_make_affine :
  forall (K : Type) (O : Fops K), Flaws O -> forall a : jac (K:=K), jz a <> f0 O ->
  let r := make_affine O a in jz r = f1 O /\ jx r = aff_x O a /\ jy r = aff_y O a.
Proof. exact (@make_affine_spec). Qed.
Print Assumptions C10_make_affine.

(* ---- the operations are functions of the elements, not of their representations.
   jeqv a a': both triples are the point at infinity, or both are finite with the same affine
   coordinates.  Whatever branch (identity, chord, tangent, inverse) each pair of triples takes, equal
   elements give equal elements - the operands may be normalised or not, fresh or the result of any
   earlier computation.  The side condition excludes finite points of order two (y = 0), of which
   the prime-order groups G1 and G2 have none. *)
Theorem C10_add_representation_independent :
  forall (K : Type) (O : Fops K), Flaws O -> forall a a' b b' : jac (K:=K),
  fadd O (f1 O) (f1 O) <> f0 O -> (jz a <> f0 O -> jy a <> f0 O) ->
  jeqv O a a' -> jeqv O b b' -> jeqv O (jac_add O a b) (jac_add O a' b').
Proof. exact (@jac_add_respects). Qed.
Print Assumptions C10_add_representation_independent.

Theorem C10_double_representation_independent :
  forall (K : Type) (O : Fops K), Flaws O -> forall a a' : jac (K:=K),
  fadd O (f1 O) (f1 O) <> f0 O -> (jz a <> f0 O -> jy a <> f0 O) ->
  jeqv O a a' -> jeqv O (jac_double O a) (jac_double O a').
Proof. exact (@jac_double_respects). Qed.
Print Assumptions C10_double_representation_independent.

Theorem C10_neg_representation_independent :
  forall (K : Type) (O : Fops K), Flaws O -> forall a a' : jac (K:=K),
  jeqv O a a' -> jeqv O (jac_neg O a) (jac_neg O a').
Proof. exact (@jac_neg_respects). Qed.
Print Assumptions C10_neg_representation_independent.

(* commutativity on the elements: a + b and b + a represent the same element, whichever branches the
   two calls take (identity, chord, tangent, inverse) *)
Theorem C10_add_commutative :
  forall (K : Type) (O : Fops K), Flaws O -> forall a b : jac (K:=K),
  fadd O (f1 O) (f1 O) <> f0 O -> (jz a <> f0 O -> jy a <> f0 O) -> (jz b <> f0 O -> jy b <> f0 O) ->
  jeqv O (jac_add O a b) (jac_add O b a).
Proof. exact (@jac_add_comm). Qed.
Print Assumptions C10_add_commutative.

(* what is marshalled (the normal form) is the same for all representations of a finite element *)
Theorem C10_normal_form_canonical :
  forall (K : Type) (O : Fops K), Flaws O -> forall a a' : jac (K:=K),
  jz a <> f0 O -> jeqv O a a' -> make_affine O a = make_affine O a'.
Proof. exact (@make_affine_canonical). Qed.
Print Assumptions C10_normal_form_canonical.

(* non-vacuity over Z/101Z: (4, 8, 2) and (9, 27, 3) both represent the affine point (1, 1) *)
Example C10_representations_example :
  let O := zq_ops 101 in
  let jv := fun a : jac (K:=zq 101) => (zv (jx a), zv (jy a), zv (jz a)) in
  let a := mkjac (zq_of 101 4) (zq_of 101 8) (zq_of 101 2) in
  let a' := mkjac (zq_of 101 9) (zq_of 101 27) (zq_of 101 3) in
  jv a <> jv a' /\ jv (make_affine O a) = jv (make_affine O a')
  /\ jv (make_affine O (jac_add O a a')) = jv (make_affine O (jac_double O a)).
Proof. cbv zeta. split; [vm_compute; discriminate|]. split; vm_compute; reflexivity. Qed.
Print Assumptions C10_representations_example.

(* ---- the constants of the source (re-read on every run) *)
Theorem C10_consts_montgomery :
  ((src_np * src_p + 1) mod R256 = 0 /\ src_r2 = (R256 * R256) mod src_p /\
   src_r3 = (R256 * R256 * R256) mod src_p /\ (src_rN1 * R256) mod src_p = 1 /\
   src_invert_exponent = src_p - 2)%Z.
Proof. exact consts_montgomery. Qed.
Print Assumptions C10_consts_montgomery.

Theorem C10_consts_bn_parameters :
  (src_p = 36 * src_u ^ 4 + 36 * src_u ^ 3 + 24 * src_u ^ 2 + 6 * src_u + 1 /\
   src_order = 36 * src_u ^ 4 + 36 * src_u ^ 3 + 18 * src_u ^ 2 + 6 * src_u + 1 /\
   fold_right (fun d acc => d + 2 * acc) 0 src_naf = 6 * src_u + 2)%Z.
Proof. exact consts_bn_parameters. Qed.
Print Assumptions C10_consts_bn_parameters.

Theorem C10_consts_twist_and_frobenius :
  fp2v (fp2_mul fp_ops g2_b xi) = (0, 3)%Z /\
  fp2v (fp2_mul fp_ops (pw x6 6) xi) = fp2v (fp2_conj xi) /\
  fp2v xiToPMinus1Over3 = fp2v (pw x6 2) /\
  fp2v xiToPMinus1Over2 = fp2v (pw x6 3) /\
  fp2v xiTo2PMinus2Over3 = fp2v (pw x6 4) /\
  fp2v (fp2_mul fp_ops x6 (fp2_conj x6)) = (0%Z, zv xiToPSquaredMinus1Over6) /\
  zv xiToPSquaredMinus1Over3 = zv (fmul fp_ops xiToPSquaredMinus1Over6 xiToPSquaredMinus1Over6) /\
  zv xiTo2PSquaredMinus2Over3 = zv (fmul fp_ops xiToPSquaredMinus1Over3 xiToPSquaredMinus1Over3).
Proof. exact consts_twist_and_frobenius. Qed.
Print Assumptions C10_consts_twist_and_frobenius.

(* ---- the amd64 routines of the base field, translated from gfp.s on every run (T1, Gen/GfpAsm.v)
   and given the machine semantics of Models/Asm.v: for ALL limbs, not a sample *)
From DosVerif Require Import Models.Asm Gen.GfpAsm Proofs.AsmProofs.
Local Open Scope Z_scope.

Theorem C10_asm_gfpAdd : forall a0 a1 a2 a3 b0 b1 b2 b3,
  0 <= a0 < W -> 0 <= a1 < W -> 0 <= a2 < W -> 0 <= a3 < W ->
  0 <= b0 < W -> 0 <= b1 < W -> 0 <= b2 < W -> 0 <= b3 < W ->
  lval [a0;a1;a2;a3] < lval asm_p2 -> lval [b0;b1;b2;b3] < lval asm_p2 ->
  exists r, run4 gfpAdd asm_p2 asm_np [a0;a1;a2;a3] [b0;b1;b2;b3] = Some r /\
            Forall (fun w => 0 <= w < W) r /\
            lval r = (lval [a0;a1;a2;a3] + lval [b0;b1;b2;b3]) mod lval asm_p2.
Proof. exact gfpAdd_correct. Qed.
Print Assumptions C10_asm_gfpAdd.

Theorem C10_asm_gfpSub : forall a0 a1 a2 a3 b0 b1 b2 b3,
  0 <= a0 < W -> 0 <= a1 < W -> 0 <= a2 < W -> 0 <= a3 < W ->
  0 <= b0 < W -> 0 <= b1 < W -> 0 <= b2 < W -> 0 <= b3 < W ->
  lval [a0;a1;a2;a3] < lval asm_p2 -> lval [b0;b1;b2;b3] < lval asm_p2 ->
  exists r, run4 gfpSub asm_p2 asm_np [a0;a1;a2;a3] [b0;b1;b2;b3] = Some r /\
            Forall (fun w => 0 <= w < W) r /\
            lval r = (lval [a0;a1;a2;a3] - lval [b0;b1;b2;b3]) mod lval asm_p2.
Proof. exact gfpSub_correct. Qed.
Print Assumptions C10_asm_gfpSub.

Theorem C10_asm_gfpNeg : forall a0 a1 a2 a3 b0 b1 b2 b3,
  0 <= a0 < W -> 0 <= a1 < W -> 0 <= a2 < W -> 0 <= a3 < W ->
  lval [a0;a1;a2;a3] < lval asm_p2 ->
  exists r, run4 gfpNeg asm_p2 asm_np [a0;a1;a2;a3] [b0;b1;b2;b3] = Some r /\
            Forall (fun w => 0 <= w < W) r /\
            lval r = (- lval [a0;a1;a2;a3]) mod lval asm_p2.
Proof. exact gfpNeg_correct. Qed.
Print Assumptions C10_asm_gfpNeg.

(* Montgomery multiplication, MULQ path: the double-width product is proved for all limbs; the
   reduction that follows is modelled, executed and compared limb for limb (not proved): PARTIAL *)
Theorem C10_asm_gfpMul_product_partial : forall a0 a1 a2 a3 b0 b1 b2 b3,
  0 <= a0 < W -> 0 <= a1 < W -> 0 <= a2 < W -> 0 <= a3 < W ->
  0 <= b0 < W -> 0 <= b1 < W -> 0 <= b2 < W -> 0 <= b3 < W ->
  gfpMul_nobmi2 = nobmi2_mul_part ++ concat (skipn 15 gfpMul_nobmi2_segs) /\
  exists st, exec nobmi2_mul_part (init_state asm_p2 asm_np [a0;a1;a2;a3] [b0;b1;b2;b3]) = Some st /\
             Forall (fun w => 0 <= w < W) (vals stkT (mem st)) /\
             lval (vals stkT (mem st)) = lval [a0;a1;a2;a3] * lval [b0;b1;b2;b3].
Proof. intros. split. exact nobmi2_split. apply gfpMul_nobmi2_product_partial; assumption. Qed.
Print Assumptions C10_asm_gfpMul_product_partial.

(* the same for the MULX path: R8..R15 hold the product after the mulBMI2 macro *)
Theorem C10_asm_gfpMulx_product_partial : forall a0 a1 a2 a3 b0 b1 b2 b3,
  0 <= a0 < W -> 0 <= a1 < W -> 0 <= a2 < W -> 0 <= a3 < W ->
  0 <= b0 < W -> 0 <= b1 < W -> 0 <= b2 < W -> 0 <= b3 < W ->
  gfpMul_bmi2 = bmi2_mul_part ++ concat (skipn 4 gfpMul_bmi2_segs) /\
  exists st, exec bmi2_mul_part (init_state asm_p2 asm_np [a0;a1;a2;a3] [b0;b1;b2;b3]) = Some st /\
             Forall (fun w => 0 <= w < W) (vals regs8 (mem st)) /\
             lval (vals regs8 (mem st)) = lval [a0;a1;a2;a3] * lval [b0;b1;b2;b3].
Proof. intros. split. exact bmi2_split. apply gfpMul_bmi2_product_partial; assumption. Qed.
Print Assumptions C10_asm_gfpMulx_product_partial.

(* the arithmetic core of the reduction, and the constants it is used with *)
Theorem C10_asm_montgomery_core : forall T m P N' R,
  0 < R -> (N' * P + 1) mod R = 0 -> m = ((T mod R) * N') mod R -> (T + m * P) mod R = 0.
Proof. exact montgomery_low. Qed.
Print Assumptions C10_asm_montgomery_core.

Theorem C10_asm_constants :
  (lval asm_np * lval asm_p2 + 1) mod W ^ 4 = 0 /\ lval asm_p2 = src_p /\
  forallb alias_safe [gfpAdd; gfpSub; gfpNeg; gfpMul_nobmi2; gfpMul_bmi2] = true.
Proof. split; [exact asm_np_ok|]. split; [vm_compute; reflexivity | exact alias_safe_all]. Qed.
Print Assumptions C10_asm_constants.
