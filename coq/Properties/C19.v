(* C19 -- State-changing calls become one correctly encoded transaction; failover is safe.
   Model: Models/Abi.v -- (1) the calldata of the calls made by onchain/eth_set.go: the contract ABI
   encoding (head / tail, offsets, padding) of the argument lists that UpdateRandomness, DataReturn,
   RegisterGroupPubKey, Commit, Reveal build (signature split by ToBigInt, request id as the
   big-endian value of its bytes, traffic type as uint8 of the index, ...); (2) handleReq's loop over
   the RPC endpoints with its classification of error texts. *)
From Coq Require Import ZArith NArith List Bool Lia.
From DosVerif Require Import Base.Val Models.Bn Models.Abi Proofs.AbiProofs.
Import ListNotations.
Open Scope Z_scope.

(* what the contract decodes from the produced calldata is exactly the intended argument list, for
   all values (words with leading zeros, empty and long byte strings, any array contents) *)
Theorem C19_abi_roundtrip :
  forall args, Forall arg_ok args -> heads_len args + tails_len args < 2 ^ 256 ->
  decode_args (map ty_of args) (encode_args args) = args.
Proof. exact abi_roundtrip. Qed.
Print Assumptions C19_abi_roundtrip.

(* the signature goes out as the big-endian x and y coordinates *)
Theorem C19_sig_coords :
  forall x y, 0 <= x < 2 ^ 256 -> 0 <= y < 2 ^ 256 ->
  to_big_int (be_bytes 32 x ++ be_bytes 32 y) = (x, y).
Proof. exact to_big_int_halves. Qed.
Print Assumptions C19_sig_coords.

(* nothing is sent, and the answer does not change, after an endpoint accepted the call or answered
   revert / insufficient funds: whatever endpoints follow *)
Theorem C19_no_resend :
  forall eps1 o eps2, final o = true ->
  handle_req (eps1 ++ (true, o) :: eps2) = handle_req (eps1 ++ [(true, o)]).
Proof. exact no_resend. Qed.
Print Assumptions C19_no_resend.

(* every endpoint receives the transaction at most once *)
Theorem C19_sent_once : forall eps, NoDup (sent (handle_req eps)).
Proof. exact sent_once. Qed.
Print Assumptions C19_sent_once.

(* any other answer moves on to the next endpoint whose context is alive; the caller gets the
   answer of the last attempt *)
Theorem C19_retry_next :
  forall i o rest acc, final o = false ->
  handle i ((true, o) :: rest) acc
  = handle (S i) rest (mkfo (if reaches_node o then sent acc ++ [i] else sent acc) (Some o)
                            (if cancels o then cancelled acc ++ [i] else cancelled acc)).
Proof. exact retry_next. Qed.
Print Assumptions C19_retry_next.

Theorem C19_dead_endpoint_skipped :
  forall i o rest acc, handle i ((false, o) :: rest) acc = handle (S i) rest acc.
Proof. exact dead_skipped. Qed.
Print Assumptions C19_dead_endpoint_skipped.

(* non-vacuity *)
Example C19_example :
  handle_req [(true, ORefused); (false, OAccept); (true, ONonce); (true, OOther); (true, OAccept); (true, OAccept)]
  = mkfo [3; 4]%nat (Some OAccept) [2]%nat
  /\ decode_args [TWord; TWord; TBytes; TFixed 2]
       (encode_args (trigger_callback_args [1; 2]%N 258 [7; 8; 9]%N (be_bytes 32 5 ++ be_bytes 32 6)))
     = [AWord 258; AWord 2; ABytes [7; 8; 9]%N; AFixed [5; 6]].
Proof. split; vm_compute; reflexivity. Qed.
Print Assumptions C19_example.
