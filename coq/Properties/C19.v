(* C19 -- State-changing calls become one correctly encoded transaction; failover is safe.
   Model: Models/Abi.v -- (1) the calldata of the calls made by onchain/eth_set.go: the contract ABI
   encoding (head / tail, offsets, padding) of the argument lists that UpdateRandomness, DataReturn,
   RegisterGroupPubKey, Commit, Reveal build (signature split by ToBigInt, request id as the
   big-endian value of its bytes, traffic type as uint8 of the index, ...); (2) handleReq's loop over
   the RPC endpoints with its classification of error texts. *)
From Coq Require Import ZArith NArith List Bool Lia.
From DosVerif Require Import Base.Val Models.Bn Models.Abi Models.Adaptor Models.AdaptorGas Proofs.AbiProofs Proofs.AdaptorProofs Proofs.AdaptorGasProofs.
Import ListNotations.
Open Scope Z_scope.

(* what the contract decodes from the produced calldata is exactly the intended argument list, for
   all values (words with leading zeros, empty and long byte strings, any array contents) *)
Theorem C19_abi_roundtrip :
  forall args, Forall arg_ok args -> heads_len args + tails_len args < 2 ^ 256 ->
  decode_args (map ty_of args) (encode_args args) = args.
Proof. exact abi_roundtrip. Qed.
Print Assumptions C19_abi_roundtrip.

(* the signature goes out as the big-endian x and y coordinates *)
Theorem C19_sig_coords :
  forall x y, 0 <= x < 2 ^ 256 -> 0 <= y < 2 ^ 256 ->
  to_big_int (be_bytes 32 x ++ be_bytes 32 y) = (x, y).
Proof. exact to_big_int_halves. Qed.
Print Assumptions C19_sig_coords.

(* nothing is sent, and the answer does not change, after an endpoint accepted the call or answered
   revert / insufficient funds: whatever endpoints follow *)
Theorem C19_no_resend :
  forall eps1 o eps2, final o = true ->
  handle_req (eps1 ++ (true, o) :: eps2) = handle_req (eps1 ++ [(true, o)]).
Proof. exact no_resend. Qed.
Print Assumptions C19_no_resend.

(* every endpoint receives the transaction at most once *)
Theorem C19_sent_once : forall eps, NoDup (sent (handle_req eps)).
Proof. exact sent_once. Qed.
Print Assumptions C19_sent_once.

(* any other answer moves on to the next endpoint whose context is alive; the caller gets the
   answer of the last attempt *)
Theorem C19_retry_next :
  forall i o rest acc, final o = false ->
  handle i ((true, o) :: rest) acc
  = handle (S i) rest (mkfo (if reaches_node o then sent acc ++ [i] else sent acc) (Some o)
                            (if cancels o then cancelled acc ++ [i] else cancelled acc)).
Proof. exact retry_next. Qed.
Print Assumptions C19_retry_next.

Theorem C19_dead_endpoint_skipped :
  forall i o rest acc, handle i ((false, o) :: rest) acc = handle (S i) rest acc.
Proof. exact dead_skipped. Qed.
Print Assumptions C19_dead_endpoint_skipped.

(* ---- the adaptor over a whole history (Models/Adaptor.v): calls leave the request queue one at a
   time; reads and writes share the per-endpoint contexts *)

(* the accepted transactions of ANY history of reads, writes and bursts of queued writes carry
   consecutive nonces from the account's: no two calls share a nonce (a call is never lost to
   "nonce too low" against its neighbour), none is skipped *)
Theorem C19_nonces_consecutive :
  forall es s, let '(s', outs) := hrun s es in
  consecutive (h_nonce s) (accepted_nonces outs) /\
  h_nonce s' = h_nonce s + Z.of_nat (length (accepted_nonces outs)).
Proof. exact nonces_consecutive. Qed.
Print Assumptions C19_nonces_consecutive.

Theorem C19_nonces_distinct : forall es s, NoDup (accepted_nonces (snd (hrun s es))).
Proof. exact nonces_distinct. Qed.
Print Assumptions C19_nonces_distinct.

(* k calls queued at the same moment, some endpoint healthy: k accepted transactions *)
Theorem C19_burst_all_accepted :
  forall k s, existsb (fun b => b) (h_alive s) = true -> length (snd (batch k s)) = k.
Proof. exact batch_all_accepted. Qed.
Print Assumptions C19_burst_all_accepted.

(* an endpoint is switched off only by its own closed-connection answer to a read, or its own
   nonce-retrieval failure / closed connection on a write - never by another kind of read error,
   never by a burst *)
Theorem C19_switched_off_only_when_blamed :
  forall s e i, nth i (h_alive s) false = true -> nth i (h_alive (fst (hstep s e))) false = false ->
  match e with
  | HRead rs => nth_error rs i = Some RClosed
  | HWrite os => exists o, nth_error os i = Some o /\ cancels o = true
  | HBatch _ => False
  | HReconnect => False
  end.
Proof. exact switched_off_only_when_blamed. Qed.
Print Assumptions C19_switched_off_only_when_blamed.

(* DisconnectAll + Connect gives every endpoint a fresh context: all are tried again *)
Theorem C19_reconnect_revives_all :
  forall s, forallb (fun b => b) (h_alive (fst (hstep s HReconnect))) = true.
Proof. exact reconnect_revives_all. Qed.
Print Assumptions C19_reconnect_revives_all.

(* hence a call made after any number of reads that failed with other errors fails over exactly as
   if those reads had not happened *)
Theorem C19_write_after_reads :
  forall rss s os, Forall no_closed rss ->
  exists outs, hrun s (map HRead rss ++ [HWrite os]) = (fst (write1 s os), outs ++ [snd (write1 s os)]).
Proof. exact write_after_reads. Qed.
Print Assumptions C19_write_after_reads.

(* ---- the gas settings (Models/AdaptorGas.v): per RPC endpoint one proxy and one commit-reveal
   session whose transact options carry the settings; SetGasPrice / SetGasLimit walk both lists *)

(* the adaptor as connected satisfies the invariant (every session carries the configured setting) *)
Theorem C19_gas_initial : forall n nonce cfg, wf (g0 n nonce cfg).
Proof. exact wf_g0. Qed.
Print Assumptions C19_gas_initial.

(* over ANY history of reads, calls with any outcomes at the endpoints, bursts, reconnects and
   setting changes, every transaction ANY endpoint receives - first choice or fail-over, proxy or
   commit-reveal call - carries the setting in force when the call was made: the configuration, or
   the operator's latest change *)
Theorem C19_gas_settings_in_force :
  forall es s, wf s -> outs_ok (g_cfg s) es (snd (grun s es)).
Proof. exact gas_in_force. Qed.
Print Assumptions C19_gas_settings_in_force.

(* the settings layer changes nothing else: forgetting the settings, the history is the adaptor
   history the theorems above speak about *)
Theorem C19_gas_layer_transparent :
  forall es s, hrun (g_h s) (omap hev_of es) = (g_h (fst (grun s es)), omap hout_of (snd (grun s es))).
Proof. exact gas_layer_transparent. Qed.
Print Assumptions C19_gas_layer_transparent.

Example C19_gas_example :
  snd (grun (g0 2 7 (5, 6)) [GWrite false [OClosed; OAccept]; GSetGas (8, 9); GReconnect; GWrite true [OOther; OAccept]; GBatch [false; true]])
  = [GOut (OutWrite [1%nat] (Some OAccept) (Some 7)) [Some (5, 6)]; GOutSet; GOut OutReconnect [];
     GOut (OutWrite [0; 1]%nat (Some OAccept) (Some 8)) [Some (8, 9); Some (8, 9)];
     GOut (OutBatch [9; 10]) [Some (8, 9); Some (8, 9)]].
Proof. vm_compute. reflexivity. Qed.
Print Assumptions C19_gas_example.

Example C19_history_example :
  hrun (h0 2 7) [HRead [ROtherErr; RVal]; HWrite [OClosed; OAccept]; HBatch 2; HRead [RVal; RClosed]; HWrite [OAccept; OAccept]]
  = (mkh [false; false] 10,
     [OutRead true; OutWrite [1%nat] (Some OAccept) (Some 7); OutBatch [8; 9]; OutRead false; OutWrite [] None None]).
Proof. vm_compute. reflexivity. Qed.
Print Assumptions C19_history_example.

(* non-vacuity *)
Example C19_example :
  handle_req [(true, ORefused); (false, OAccept); (true, ONonce); (true, OOther); (true, OAccept); (true, OAccept)]
  = mkfo [3; 4]%nat (Some OAccept) [2]%nat
  /\ decode_args [TWord; TWord; TBytes; TFixed 2]
       (encode_args (trigger_callback_args [1; 2]%N 258 [7; 8; 9]%N (be_bytes 32 5 ++ be_bytes 32 6)))
     = [AWord 258; AWord 2; ABytes [7; 8; 9]%N; AFixed [5; 6]].
Proof. split; vm_compute; reflexivity. Qed.
Print Assumptions C19_example.
