(* C16 -- Only authentic, unmodified messages are delivered to p2p subscribers.
   Model: Models/P2PRecv.v -- the receive side of one connection over symbolic cryptography: a wire
   frame is either [FSealed key plaintext] (the output of the AEAD under that key) or [FJunk]
   (anything else: altered, truncated, fabricated without the key); a payload signature is the
   pair (signing key, signed payload).  Hypotheses that this representation encodes (trusted base):
   AES-GCM integrity under the connection's key, BLS unforgeability, and that only the two
   endpoints hold the session key.  Because the code seals every frame of a connection with the
   same nonce, an exact replay of a sealed frame is again "sealed under the key": replay is outside
   the statements below, as it is outside the property's quantifier.
   [recv_b key peer budget false 0 frames]: the outcomes for a stream of frames; after the first
   reported error the connection is being closed and [budget] (arbitrary) further frames are still
   processed. *)
From Coq Require Import ZArith List Bool Lia.
From DosVerif Require Import Base.Val Models.P2PRecv Proofs.P2PRecvProofs.
From DosVerif Require Import Models.Guards Proofs.GuardsProofs.
Import ListNotations.
Open Scope Z_scope.

(* whatever the stream (any mixture of honest, altered, truncated, injected, badly signed frames, at
   any position), whatever is delivered to a subscriber was sealed under the session key in a
   package that carries the peer's signature over exactly that content *)
Theorem C16_delivered_is_authentic :
  forall key peer budget fs m, In (ODeliver m) (recv_b key peer budget false 0 fs) ->
  exists f, In f fs /\ authentic key peer f m.
Proof. exact delivered_authentic. Qed.
Print Assumptions C16_delivered_is_authentic.

Theorem C16_reply_is_authentic :
  forall key peer budget fs n m, In (OReply n m) (recv_b key peer budget false 0 fs) ->
  exists f, In f fs /\ authentic key peer f m.
Proof. exact reply_authentic. Qed.
Print Assumptions C16_reply_is_authentic.

(* each kind of bad frame is rejected: not sealed at all, sealed under another key, not a package,
   no payload, payload not signed by the handshake key (absent, other key, other content) *)
Theorem C16_bad_frames_rejected :
  forall key peer,
  recv_frame key peer FJunk = OError /\
  (forall k p, k <> key -> recv_frame key peer (FSealed k p) = OError) /\
  recv_frame key peer (FSealed key PGarbage) = OError /\
  (forall k, k_any k = None -> recv_frame key peer (FSealed key (PPkg k)) = OError) /\
  (forall k v, k_any k = Some v -> k_sig k <> Some (peer, v) -> recv_frame key peer (FSealed key (PPkg k)) = OError).
Proof. exact bad_frames_rejected. Qed.
Print Assumptions C16_bad_frames_rejected.

(* an untampered stream: every message the remote endpoint sends is delivered once, in order, to the
   subscriber of its type *)
Theorem C16_each_once :
  forall key peer budget (ms : list (payload * Z)),
  recv_b key peer budget false 0 (map (fun mn => honest_frame key peer (fst mn) (snd mn) false) ms)
  = map (fun mn => ODeliver (fst mn)) ms.
Proof. exact honest_stream_each_once. Qed.
Print Assumptions C16_each_once.

Theorem C16_subscriber_of_its_type :
  forall key peer budget ms t,
  to_subscriber t (deliveries (recv_b key peer budget false 0
      (map (fun mn => honest_frame key peer (fst mn) (snd mn) false) ms)))
  = filter (fun m => p_type m =? t) (map fst ms).
Proof. exact subscriber_gets_its_type. Qed.
Print Assumptions C16_subscriber_of_its_type.

(* everything sent before the first bad frame is delivered; the bad frame is reported; at most
   [budget] further outcomes follow (all authentic by the first theorem) *)
Theorem C16_prefix_before_first_bad :
  forall key peer budget ms bad rest, recv_frame key peer bad = OError ->
  exists tail,
    recv_b key peer budget false 0 (map (fun mn => honest_frame key peer (fst mn) (snd mn) false) ms ++ bad :: rest)
    = map (fun mn => ODeliver (fst mn)) ms ++ OError :: tail /\ (length tail <= budget)%nat.
Proof. exact prefix_before_first_bad. Qed.
Print Assumptions C16_prefix_before_first_bad.

(* "never crash the receiver": the decoder in front of this pipeline is total (C12's model) *)
Theorem C16_decoder_no_panic : forall p, decode_pkt p <> Panic.
Proof. exact decode_pkt_no_panic. Qed.
Print Assumptions C16_decoder_no_panic.

(* non-vacuity: a stream with an injected frame, a frame signed over other content and a frame sealed
   under another key between honest frames; budget 5 *)
Example C16_example :
  recv_b 9 4 5 false 0
    [honest_frame 9 4 (mkpayload 1 10) 0 false; FJunk; honest_frame 9 4 (mkpayload 1 11) 1 false;
     FSealed 9 (PPkg (mkpkg (Some (mkpayload 1 12)) true (Some (4, mkpayload 1 13)) 2 false));
     FSealed 8 (PPkg (mkpkg (Some (mkpayload 1 14)) true (Some (4, mkpayload 1 14)) 3 false));
     honest_frame 9 4 (mkpayload 2 15) 4 true]
  = [ODeliver (mkpayload 1 10); OError; ODeliver (mkpayload 1 11); OError; OError; OReply 4 (mkpayload 2 15)].
Proof. vm_compute. reflexivity. Qed.
Print Assumptions C16_example.
