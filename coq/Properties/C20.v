(* C20 -- The Ed25519 suite and Schnorr signatures interoperate with standard EdDSA.
   Models: Models/Schnorr.v (schnorr.Sign / Verify next to RFC 8032 verification as crypto/ed25519
   does it, over an abstract module with a generator: the curve arithmetic itself is not modelled),
   Models/ScLimbs.v + Gen/Ref10Sc.v (the limb programs scMulAdd, scMul, scAdd, scSub, scReduce of
   group/edwards25519/scalar.go, REGENERATED from the Go source on every run by translate/sc2coq.py). *)
From Coq Require Import ZArith NArith List Bool Lia.
From DosVerif Require Import Base.Val Base.Field Models.ScLimbs Gen.Ref10Sc Models.Schnorr.
From DosVerif Require Import Proofs.ScLimbsProofs Proofs.ScInstances Proofs.ScOverflow Proofs.SchnorrProofs.
Import ListNotations.
Open Scope Z_scope.

Section Signatures.
Context {F G M : Type}.
Variable O : Fops F.
Variable Mo : Gops F G.
Variable base : G.
Variable red : Z -> F.             (* the scalar a 32-byte little-endian integer stands for *)
Variable hs : G -> G -> M -> F.    (* SHA-512(enc R || enc A || m) mod l *)
Variable repr : F -> Z.            (* the canonical integer of a scalar (Scalar.MarshalBinary) *)
Hypothesis FL : Flaws O.
Hypothesis GL : Glaws O Mo.
Hypothesis GF : Gfree O Mo base.
Hypothesis red_repr : forall f, red (repr f) = f.
Hypothesis repr_range : forall f, 0 <= repr f < ell.
Hypothesis red_period : forall z, red (z + ell) = red z.
Hypothesis red_inj : forall a b, 0 <= a < ell -> 0 <= b < ell -> red a = red b -> a = b.

(* for every key, nonce and message a signature made by Sign verifies under the standard verifier
   (and under the bundled one) *)
Theorem C20_sign_verifies :
  forall k x m,
  verify_std Mo base red hs (gscale Mo x base) m (sign O Mo base hs repr k x m) = true
  /\ verify_old Mo base red hs (gscale Mo x base) m (sign O Mo base hs repr k x m) = true.
Proof. exact (sign_verifies O Mo base red hs repr FL GL red_repr repr_range). Qed.

(* the standard verifier = the bundled equation + the range check on S: on canonical S the two
   agree in both directions *)
Theorem C20_interop :
  forall A m s, verify_std Mo base red hs A m s
                = (w_S s <? ell) && (0 <=? w_S s) && verify_old Mo base red hs A m s.
Proof. exact (std_is_old_and_canonical Mo base red hs). Qed.

(* the bundled verifier as it was (no range check): S + l is an altered signature that it accepts
   and the standard verifier rejects -- the statement "any altered signature is rejected by both"
   was false of it (fix: commit; known_findings.json) *)
Theorem C20_old_verifier_malleable :
  forall A m R s, 0 <= s -> verify_old Mo base red hs A m (mkwsig R s) = true ->
  verify_old Mo base red hs A m (mkwsig R (s + ell)) = true
  /\ verify_std Mo base red hs A m (mkwsig R (s + ell)) = false.
Proof. exact (old_verifier_malleable Mo base red hs red_period). Qed.

(* with the range check an altered S is rejected: S is determined by R, A and m *)
Theorem C20_altered_s_rejected :
  forall A m R s1 s2, verify_std Mo base red hs A m (mkwsig R s1) = true ->
  verify_std Mo base red hs A m (mkwsig R s2) = true -> s1 = s2.
Proof. exact (std_s_unique O Mo base red hs GL GF red_inj). Qed.

(* an altered message is accepted only if its challenge collides; an altered key only if R + h A
   coincides *)
Theorem C20_altered_message_rejected :
  forall x m m' s, x <> f0 O ->
  verify_old Mo base red hs (gscale Mo x base) m s = true ->
  verify_old Mo base red hs (gscale Mo x base) m' s = true ->
  hs (w_R s) (gscale Mo x base) m = hs (w_R s) (gscale Mo x base) m'.
Proof. exact (message_binding O Mo base red hs FL GL GF). Qed.

Theorem C20_altered_key_rejected :
  forall A A' m s, verify_old Mo base red hs A m s = true -> verify_old Mo base red hs A' m s = true ->
  gscale Mo (hs (w_R s) A m) A = gscale Mo (hs (w_R s) A' m) A'.
Proof. exact (key_binding O Mo base red hs GL). Qed.
End Signatures.
Print Assumptions C20_sign_verifies.
Print Assumptions C20_interop.
Print Assumptions C20_old_verifier_malleable.
Print Assumptions C20_altered_s_rejected.
Print Assumptions C20_altered_message_rejected.
Print Assumptions C20_altered_key_rejected.

(* scalar arithmetic agrees with integer arithmetic modulo the group order: for ALL operand limbs
   the generated limb programs end in limbs whose integer is congruent to a*b+c, a*b, a+c, a-c, and
   to the 512-bit input of scReduce ([opval]: the integer the operand's limbs stand for) *)
Theorem C20_scMulAdd :
  forall opnd, (value (run scMulAdd_ops (eval_init opnd scMulAdd_init))
                - (opval (opnd 0%nat) 12 * opval (opnd 1%nat) 12 + opval (opnd 2%nat) 12)) mod ell = 0.
Proof. exact scMulAdd_congruent. Qed.
Print Assumptions C20_scMulAdd.

Theorem C20_scMul :
  forall opnd, (value (run scMul_ops (eval_init opnd scMul_init)) - opval (opnd 0%nat) 12 * opval (opnd 1%nat) 12) mod ell = 0.
Proof. exact scMul_congruent. Qed.
Print Assumptions C20_scMul.

Theorem C20_scAdd :
  forall opnd, (value (run scAdd_ops (eval_init opnd scAdd_init)) - (opval (opnd 0%nat) 12 + opval (opnd 2%nat) 12)) mod ell = 0.
Proof. exact scAdd_congruent. Qed.
Print Assumptions C20_scAdd.

Theorem C20_scSub :
  forall opnd, (value (run scSub_ops (eval_init opnd scSub_init)) - (opval (opnd 0%nat) 12 - opval (opnd 2%nat) 12)) mod ell = 0.
Proof. exact scSub_congruent. Qed.
Print Assumptions C20_scSub.

Theorem C20_scReduce :
  forall opnd, (value (run scReduce_ops (eval_init opnd scReduce_init)) - opval (opnd 3%nat) 24) mod ell = 0.
Proof. exact scReduce_congruent. Qed.
Print Assumptions C20_scReduce.

(* no intermediate value leaves the int64 range, so Go's wrapping arithmetic ([wrun]: wrap after
   every +, -, *, <<) computes exactly what the theorems above are about; operand limbs: 21 bits,
   the top limb of a 32-byte operand 25 bits, of the 64-byte input 29 bits *)
Definition sc_bound (v i : nat) : ival :=
  match v with
  | 3%nat => if Nat.eqb i 23 then (0, 2 ^ 29 - 1) else (0, 2 ^ 21 - 1)
  | _ => if Nat.eqb i 11 then (0, 2 ^ 25 - 1) else (0, 2 ^ 21 - 1)
  end.

Definition il0_of (init : list (list term)) : list ival :=
  match ival_init sc_bound init with Some l => l | None => [] end.
Definition il1_of (init : list (list term)) (ops : list op) : list ival :=
  match irun ops (il0_of init) with Some l => l | None => [] end.

Lemma no_overflow_from_checks opnd init ops :
  ival_init sc_bound init = Some (il0_of init) -> irun ops (il0_of init) = Some (il1_of init ops) ->
  forallb (op_ok (length init)) ops = true -> bound_ok opnd sc_bound ->
  wrun ops (eval_init opnd init) = run ops (eval_init opnd init) /\ all_in (run ops (eval_init opnd init)) (il1_of init ops).
Proof. intros H0 H1 Hok Hb. exact (routine_no_overflow opnd sc_bound init ops _ _ Hb H0 H1 Hok). Qed.

Theorem C20_no_overflow_scMulAdd :
  forall opnd, bound_ok opnd sc_bound ->
  wrun scMulAdd_ops (eval_init opnd scMulAdd_init) = run scMulAdd_ops (eval_init opnd scMulAdd_init) /\
  all_in (run scMulAdd_ops (eval_init opnd scMulAdd_init)) (il1_of scMulAdd_init scMulAdd_ops).
Proof. intros opnd. apply no_overflow_from_checks; vm_compute; reflexivity. Qed.
Print Assumptions C20_no_overflow_scMulAdd.

Theorem C20_no_overflow_others :
  forall opnd, bound_ok opnd sc_bound ->
  wrun scMul_ops (eval_init opnd scMul_init) = run scMul_ops (eval_init opnd scMul_init) /\
  wrun scAdd_ops (eval_init opnd scAdd_init) = run scAdd_ops (eval_init opnd scAdd_init) /\
  wrun scSub_ops (eval_init opnd scSub_init) = run scSub_ops (eval_init opnd scSub_init) /\
  wrun scReduce_ops (eval_init opnd scReduce_init) = run scReduce_ops (eval_init opnd scReduce_init).
Proof.
  intros opnd Hb.
  assert (H2 := no_overflow_from_checks opnd scMul_init scMul_ops).
  assert (H3 := no_overflow_from_checks opnd scAdd_init scAdd_ops).
  assert (H4 := no_overflow_from_checks opnd scSub_init scSub_ops).
  assert (H5 := no_overflow_from_checks opnd scReduce_init scReduce_ops).
  split; [apply H2; try exact Hb; vm_compute; reflexivity|].
  split; [apply H3; try exact Hb; vm_compute; reflexivity|].
  split; [apply H4; try exact Hb; vm_compute; reflexivity|].
  apply H5; try exact Hb; vm_compute; reflexivity.
Qed.
Print Assumptions C20_no_overflow_others.

(* non-vacuity: the programs on concrete operands (l-1, 2^256-1, an unreduced 64-byte value), and a
   signature with S and S + l at the equation level *)
Example C20_example :
  entry_sc 1 [VZ (ell - 1); VZ (2 ^ 256 - 1); VZ 7] = VZ (((ell - 1) * (2 ^ 256 - 1) + 7) mod ell)
  /\ entry_sc 5 [VZ (2 ^ 512 - 1)] = VZ ((2 ^ 512 - 1) mod ell)
  /\ entry_sc 6 [VZ 5; VZ 11; VZ ((11 + 9 * 5) mod ell); VZ 9] = VL [VZ 1; VZ 1]
  /\ entry_sc 7 [VZ 5; VZ 11; VZ ((11 + 9 * 5) mod ell + ell); VZ 9] = VL [VZ 1; VZ 0]
  /\ entry_sc 6 [VZ 5; VZ 11; VZ ((11 + 9 * 5) mod ell + ell); VZ 9] = VL [VZ 0; VZ 0].
Proof.
  split; [vm_compute; reflexivity|]. split; [vm_compute; reflexivity|].
  split; [vm_compute; reflexivity|]. split; vm_compute; reflexivity.
Qed.
Print Assumptions C20_example.

(* ---- the curve arithmetic of ge.go (Models/Ed.v), over any field of characteristic other than 2.
   ext_ok: Z invertible and T = XY/Z; ax, ay: the affine coordinates X/Z, Y/Z; D: d x1 x2 y1 y2
   (1 + D and 1 - D do not vanish on the curve, d being a non-square: taken as hypotheses here). *)
From DosVerif Require Import Gen.EdConsts Models.Ed Proofs.EdProofs.

(* point.Add computes the twisted Edwards addition law on the affine coordinates *)
Theorem C20_point_add :
  forall (K : Type) (O : Fops K), Flaws O -> forall (d : K) (p q : ext (K:=K)),
  fadd O (f1 O) (f1 O) <> f0 O -> ext_ok O p -> ext_ok O q ->
  let x1 := ax O p in let y1 := ay O p in let x2 := ax O q in let y2 := ay O q in
  let D := fmul O (fmul O (fmul O (fmul O d x1) x2) y1) y2 in
  fadd O (f1 O) D <> f0 O -> fsub O (f1 O) D <> f0 O ->
  let r := pt_add O (fadd O d d) p q in
  ext_ok O r /\
  ax O r = fmul O (fadd O (fmul O x1 y2) (fmul O y1 x2)) (finv O (fadd O (f1 O) D)) /\
  ay O r = fmul O (fadd O (fmul O y1 y2) (fmul O x1 x2)) (finv O (fsub O (f1 O) D)).
Proof. exact (@pt_add_spec). Qed.
Print Assumptions C20_point_add.

Theorem C20_point_sub :
  forall (K : Type) (O : Fops K), Flaws O -> forall (d : K) (p q : ext (K:=K)),
  pt_sub O (fadd O d d) p q = pt_add O (fadd O d d) p (pt_neg O q).
Proof. exact (@pt_sub_is_add_neg). Qed.
Print Assumptions C20_point_sub.

Theorem C20_point_neg :
  forall (K : Type) (O : Fops K), Flaws O -> forall p : ext (K:=K),
  ext_ok O p -> ext_ok O (pt_neg O p) /\ ax O (pt_neg O p) = fopp O (ax O p) /\ ay O (pt_neg O p) = ay O p.
Proof. exact (@pt_neg_spec). Qed.
Print Assumptions C20_point_neg.

(* the doubling used inside Mul, on a point of the curve, is the addition law applied to (P, P) *)
Theorem C20_point_double :
  forall (K : Type) (O : Fops K), Flaws O -> forall (d : K) (p : ext (K:=K)),
  fadd O (f1 O) (f1 O) <> f0 O -> ext_ok O p -> on_curve O d p ->
  let x := ax O p in let y := ay O p in
  let D := fmul O (fmul O (fmul O (fmul O d x) x) y) y in
  fadd O (f1 O) D <> f0 O -> fsub O (f1 O) D <> f0 O ->
  let r := pt_double O p in
  ext_ok O r /\
  ax O r = fmul O (fadd O (fmul O x y) (fmul O y x)) (finv O (fadd O (f1 O) D)) /\
  ay O r = fmul O (fadd O (fmul O y y) (fmul O x x)) (finv O (fsub O (f1 O) D)).
Proof. exact (@pt_double_spec). Qed.
Print Assumptions C20_point_double.

(* the sum depends on the elements, not on the extended coordinates that represent them *)
Theorem C20_point_add_representation_independent :
  forall (K : Type) (O : Fops K), Flaws O -> forall (d : K) (p p' q q' : ext (K:=K)),
  fadd O (f1 O) (f1 O) <> f0 O -> eeqv O p p' -> eeqv O q q' ->
  fadd O (f1 O) (fmul O (fmul O (fmul O (fmul O d (ax O p)) (ax O q)) (ay O p)) (ay O q)) <> f0 O ->
  fsub O (f1 O) (fmul O (fmul O (fmul O (fmul O d (ax O p)) (ax O q)) (ay O p)) (ay O q)) <> f0 O ->
  eeqv O (pt_add O (fadd O d d) p q) (pt_add O (fadd O d d) p' q').
Proof. exact (@pt_add_respects). Qed.
Print Assumptions C20_point_add_representation_independent.

(* the constants the translator reads from const.go: the field prime is 2^255 - 19, d2 = 2d,
   sqrtM1^2 = -1, d = -121665/121666, the base point has T Z = X Y, lies on the curve, y = 4/5 *)
Theorem C20_ed_constants :
  src_ed_p = 2 ^ 255 - 19 /\
  src_ed_d2 = (2 * src_ed_d) mod src_ed_p /\
  (src_ed_sqrtm1 * src_ed_sqrtm1 + 1) mod src_ed_p = 0 /\
  (src_ed_d * 121666 + 121665) mod src_ed_p = 0 /\
  let '(X, Y, Z, T) := src_ed_base in
  (T * Z - X * Y) mod src_ed_p = 0 /\
  ((Y * Y - X * X) * Z * Z - (Z * Z * Z * Z + src_ed_d * X * X * Y * Y)) mod src_ed_p = 0 /\
  (5 * Y - 4 * Z) mod src_ed_p = 0.
Proof. exact ed_consts_ok. Qed.
Print Assumptions C20_ed_constants.

(* non-vacuity: the digits geScalarMult walks for 2^252 (and a recoding with negative digits), and the
   model's base point in affine form (the executable model is run in the correspondence check: one
   scalar multiplication takes seconds inside Coq, milliseconds extracted) *)
Example C20_ed_example :
  hd 0 (digits_msf (2 ^ 252)) = 1 /\ digits_msf 255 = repeat 0 61 ++ [1; 0; -1]
  /\ (5 * zv (ay fe_ops ed_base) - 4) mod ed_p = 0.
Proof. split; [vm_compute; reflexivity|]. split; vm_compute; reflexivity. Qed.
Print Assumptions C20_ed_example.

(* ---- point decoding (Models/EdCodec.v: FromBytes) *)
From DosVerif Require Import Models.EdCodec Proofs.EdCodecProofs Proofs.EdCodecInstance.

(* whatever the decoder accepts is a well-formed point ON THE CURVE with the ordinate the bytes carry
   and x of the announced parity (or x = -x); over any field with a square root of -1; nothing is
   assumed about the exponentiation that proposes the root - the code checks v x^2 = +-u itself *)
Theorem C20_decoded_on_curve :
  forall (K : Type) (O : Fops K), Flaws O -> forall (d sqrtm1 : K) (parity : K -> bool),
  fmul O sqrtm1 sqrtm1 = fopp O (f1 O) ->
  forall (e : positive) (y : K) (neg : bool) (p : ext (K:=K)),
  decode_y O d sqrtm1 parity e y neg = Some p ->
  ext_ok O p /\ on_curve O d p /\ ay O p = y /\
  (parity (ax O p) = neg \/ parity (fopp O (ax O p)) <> neg).
Proof. exact (@decoded_on_curve). Qed.
Print Assumptions C20_decoded_on_curve.

(* on canonical input - 32 bytes, ordinate below p, x = 0 not announced as odd - what the decoder
   accepts the encoder writes back unchanged: point encodings round-trip through decode-then-encode,
   and two different canonical strings never decode to the same point *)
Theorem C20_decode_then_encode :
  forall (s : list N) (p : ext (K:=Fe)),
  ed_decode s = Some p -> bytes_ok s -> le_val s mod 2 ^ 255 < ed_p ->
  (zv (eX p) <> 0 \/ Z.odd (le_val s / 2 ^ 255) = false) ->
  ed_encode p = s.
Proof. exact ed_decode_then_encode. Qed.
Print Assumptions C20_decode_then_encode.

Corollary C20_decode_injective_on_canonical :
  forall (s1 s2 : list N) (p : ext (K:=Fe)),
  ed_decode s1 = Some p -> ed_decode s2 = Some p ->
  bytes_ok s1 -> bytes_ok s2 -> le_val s1 mod 2 ^ 255 < ed_p -> le_val s2 mod 2 ^ 255 < ed_p ->
  zv (eX p) <> 0 -> s1 = s2.
Proof.
  intros s1 s2 p D1 D2 B1 B2 C1 C2 X.
  rewrite <- (ed_decode_then_encode s1 p D1 B1 C1 (or_introl X)).
  exact (ed_decode_then_encode s2 p D2 B2 C2 (or_introl X)).
Qed.
Print Assumptions C20_decode_injective_on_canonical.

(* ---- the scalar recoding of geScalarMult (signed radix-16 digits, Models/Ed.v) *)
From DosVerif Require Import Proofs.EdDigits.

(* for every scalar below 2^255 (every reduced scalar is): 64 digits, each in -8..8 - the range the
   table 1A..8A and selectCached cover - and sum e_i 16^i is the scalar *)
Theorem C20_scalar_digits :
  forall a, 0 <= a < 2 ^ 255 ->
  eval_lsf (rev (digits_msf a)) = a /\ length (digits_msf a) = 64%nat /\
  Forall (fun d => -8 <= d <= 8) (digits_msf a).
Proof. exact digits_represent. Qed.
Print Assumptions C20_scalar_digits.

(* ---- consequences of the addition law on the elements (eeqv: both well formed, same affine point) *)
Theorem C20_point_add_neutral :
  forall (K : Type) (O : Fops K), Flaws O -> forall (d : K) (p : ext (K:=K)),
  fadd O (f1 O) (f1 O) <> f0 O -> ext_ok O p -> eeqv O (pt_add O (fadd O d d) p (ext_zero O)) p.
Proof. exact (@pt_add_zero). Qed.
Print Assumptions C20_point_add_neutral.

Theorem C20_point_add_commutative :
  forall (K : Type) (O : Fops K), Flaws O -> forall (d : K) (p q : ext (K:=K)),
  fadd O (f1 O) (f1 O) <> f0 O -> ext_ok O p -> ext_ok O q ->
  fadd O (f1 O) (fmul O (fmul O (fmul O (fmul O d (ax O p)) (ax O q)) (ay O p)) (ay O q)) <> f0 O ->
  fsub O (f1 O) (fmul O (fmul O (fmul O (fmul O d (ax O p)) (ax O q)) (ay O p)) (ay O q)) <> f0 O ->
  eeqv O (pt_add O (fadd O d d) p q) (pt_add O (fadd O d d) q p).
Proof. exact (@pt_add_comm). Qed.
Print Assumptions C20_point_add_commutative.

Theorem C20_point_add_inverse :
  forall (K : Type) (O : Fops K), Flaws O -> forall (d : K) (p : ext (K:=K)),
  fadd O (f1 O) (f1 O) <> f0 O -> ext_ok O p -> on_curve O d p ->
  fadd O (f1 O) (fmul O (fmul O (fmul O (fmul O d (ax O p)) (ax O p)) (ay O p)) (ay O p)) <> f0 O ->
  fsub O (f1 O) (fmul O (fmul O (fmul O (fmul O d (ax O p)) (ax O p)) (ay O p)) (ay O p)) <> f0 O ->
  eeqv O (pt_add O (fadd O d d) p (pt_neg O p)) (ext_zero O).
Proof. exact (@pt_add_neg). Qed.
Print Assumptions C20_point_add_inverse.
