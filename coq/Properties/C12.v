(* C12 -- No peer message, event field or fetched document can crash the node.
   Model: Models/Guards.v.  Every handler that parses peer input is written with the partial Go
   operations (slice index, slice expression, nil-pointer field access) returning [Panic] exactly
   where the Go runtime panics; the theorems say that no input reaches one.  The dispatcher of
   pdkg.Loop (the buffer/request pair per message type) is a state machine over events of all
   sessions; "the node keeps serving other sessions" is the statement that what one session
   receives does not depend on the events of any other.
   Not modelled (no executable Coq model of third-party parsers): the JSON/XML extractor
   (gjson / xmlquery behind dataParse) and protobuf decoding itself; they are exercised by the
   harness only (see DESIGN.md, C12, "partial").  The share collector and the recovery stage are
   covered by C13 (QueryLoop) and C01 (Recover.stage_no_panic), restated here. *)
From Coq Require Import ZArith NArith List Bool.
From DosVerif Require Import Base.Val Models.Guards Proofs.GuardsProofs.
From DosVerif Require Import Models.QueryLoop Proofs.QueryLoopProofs.
Import ListNotations.
Open Scope Z_scope.

(* key generation: the batch of n public-key messages (any indices, absent or undecodable keys,
   nil entries) never panics the stage *)
Theorem C12_gen_pubs_no_panic :
  forall n own pubs, 0 <= n -> Z.of_nat (length pubs) = n -> Forall pub_unsigned pubs ->
  gen_pubs n own pubs <> Panic.
Proof. exact gen_pubs_no_panic. Qed.
Print Assumptions C12_gen_pubs_no_panic.

(* ... and a batch is accepted only when every message is well formed, in range and decodable *)
Theorem C12_gen_pubs_accepts_only_wellformed :
  forall g slots pubs s', fill g slots pubs = Ok s' ->
  Forall (fun p => exists m z, p = Some m /\ 0 <= pm_index m < Z.of_nat (length slots) /\
                               pm_key m = Some (KGood z) /\
                               nth_error s' (Z.to_nat (pm_index m)) = Some (Some z)) pubs.
Proof. exact fill_ok_sound. Qed.
Print Assumptions C12_gen_pubs_accepts_only_wellformed.

(* transport: packets after decryption, the handshake id frame and key, gossip member names *)
Theorem C12_decode_no_panic : forall p, decode_pkt p <> Panic.
Proof. exact decode_pkt_no_panic. Qed.
Print Assumptions C12_decode_no_panic.

Theorem C12_decode_bytes_no_panic : forall vf p, decode_bytes_with true vf p <> Panic.
Proof. exact decode_bytes_no_panic. Qed.
Print Assumptions C12_decode_bytes_no_panic.

Theorem C12_handshake_no_panic : forall isid k, handshake isid k <> Panic.
Proof. exact handshake_no_panic. Qed.
Print Assumptions C12_handshake_no_panic.

Theorem C12_handshake_accepts_exactly :
  forall isid k, handshake isid k = Ok tt <-> (isid = true /\ k = HPoint).
Proof. exact handshake_accepts_exactly. Qed.
Print Assumptions C12_handshake_accepts_exactly.

Theorem C12_gossip_no_panic : forall name, gossip_name name <> Panic.
Proof. exact gossip_name_no_panic. Qed.
Print Assumptions C12_gossip_no_panic.

Theorem C12_gossip_spec : forall name,
  gossip_name name = if Z.of_nat (length name) <? 20 then Ok None else Ok (Some (firstn 20 name)).
Proof. exact gossip_name_spec. Qed.
Print Assumptions C12_gossip_spec.

(* the dispatcher: total on every event history (nil responses, duplicates, surplus messages,
   messages for sessions nobody asked for) ... *)
Theorem C12_dispatcher_total : forall s es, exists s' o, disp_run s es = Ok (s', o).
Proof. exact disp_run_total. Qed.
Print Assumptions C12_dispatcher_total.

(* ... and one session's batches are a function of that session's events alone *)
Theorem C12_sessions_independent :
  forall sid es s1 s2 s1' o1, proj s1 sid = proj s2 sid -> disp_run s1 es = Ok (s1', o1) ->
  exists s2', disp_run s2 (filter (fun e => dev_sid e =? sid) es) = Ok (s2', for_sid sid o1)
              /\ proj s1' sid = proj s2' sid.
Proof. exact disp_sessions_independent. Qed.
Print Assumptions C12_sessions_independent.

(* the share collector (C13's model): total, and a request's deliveries do not depend on what
   arrives for other requests *)
Theorem C12_collector_frame :
  forall (id r : N) (es : list ev), wf_events id r es ->
  deliveries_to r (snd (run st0 es)) = deliveries_to r (snd (run st0 (filter (relevant id r) es))).
Proof. exact frame. Qed.
Print Assumptions C12_collector_frame.

(* the code as it was before the repairs: each handler had an input that panics *)
Example C12_old_refuted :
  gen_pubs_old 3 7 [Some (mkpub 0 (Some (KGood 7))); Some (mkpub 1 (Some (KGood 8))); Some (mkpub 3 (Some (KGood 9)))] = Panic
  /\ gen_pubs_old 3 7 [Some (mkpub 0 (Some (KGood 7))); Some (mkpub 1 (Some (KGood 8))); Some (mkpub 2 None)] = Panic
  /\ decode_pkt_old (mkpkt true None true) = Panic
  /\ handshake_old true HIdentity = Panic
  /\ gossip_name_old [1%N; 2%N] = Panic.
Proof. repeat split; vm_compute; reflexivity. Qed.
Print Assumptions C12_old_refuted.

(* non-vacuity: an honest batch is accepted; two interleaved sessions, one of them fed duplicates,
   nil responses and a surplus message, the other completes with exactly its own messages *)
Example C12_example :
  gen_pubs 3 7 [Some (mkpub 2 (Some (KGood 9))); Some (mkpub 0 (Some (KGood 7))); Some (mkpub 1 (Some (KGood 8)))]
    = Ok [Some 7; Some 8; Some 9]
  /\ option_map snd (match disp_run dst0
        [DReq 1 2 10; DPeer 2 (IResp None); DPeer 1 (IPub 0); DPeer 2 (IPub 5); DPeer 2 (IPub 5);
         DPeer 2 (IPub 6); DPeer 2 (IPub 7); DReq 2 2 20; DPeer 1 (IPub 0); DPeer 1 (IPub 2)]
      with Ok r => Some r | _ => None end)
    = Some [(1, (10, [IPub 0; IPub 2]))].
Proof. split; vm_compute; reflexivity. Qed.
Print Assumptions C12_example.
