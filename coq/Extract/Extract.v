(* Extraction of the executable models.  Directives used: exactly those of the two standard
   library files below (listed in DESIGN.md, trusted base). *)
From Coq Require Import ZArith List.
Require Extraction.
Require Import ExtrOcamlBasic ExtrOcamlZBigInt.
From DosVerif Require Import Base.Val Models.EntryShare Models.EntryTbls Models.Framing Models.QueryLoop Models.Stages Models.EntryVss Models.EntryBn Models.EntryAsm Models.GtCodec Models.Evm Models.Recover Models.Guards Models.P2PRecv Models.Dispatch Models.ConnTable Models.Abi Models.Adaptor Models.AdaptorGas Models.FirstEvent Models.Schnorr Models.Ed Models.EdCodec.
Extraction "model.ml" entry_share entry_tbls entry_framing entry_queryloop entry_stages entry_vss entry_bn2 entry_asm entry_gt entry_evm entry_recover entry_guards entry_p2precv entry_dispatch entry_conntable entry_abi entry_adaptor entry_adaptor_gas entry_firstevent entry_sc entry_ed entry_edcodec.
