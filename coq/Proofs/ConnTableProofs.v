From Coq Require Import ZArith List Bool Lia.
From DosVerif Require Import Base.Val Models.ConnTable.
Import ListNotations.

(* ---------------------------------------------------------------- small facts *)

Lemma lookupn_in k l c : lookupn k l = Some c -> In (k, c) l.
Proof.
  induction l as [|[k' v] t IH]; [discriminate|]. cbn. destruct (Nat.eqb k k') eqn:E.
  - intros [= ->]. apply Nat.eqb_eq in E. subst. left. reflexivity.
  - intros H. right. exact (IH H).
Qed.

Lemma lookupn_none k l : lookupn k l = None -> forall c, ~ In (k, c) l.
Proof.
  induction l as [|[k' v] t IH]; intros H c; [intros []|]. cbn in H. destruct (Nat.eqb k k') eqn:E; [discriminate|].
  intros [Hin|Hin]; [injection Hin as -> _; rewrite Nat.eqb_refl in E; discriminate|exact (IH H c Hin)].
Qed.

Lemma in_removen k l kc : In kc (removen k l) -> In kc l /\ fst kc <> k.
Proof.
  induction l as [|[k' v] t IH]; [intros []|]. cbn. destruct (Nat.eqb k k') eqn:E.
  - intros H. destruct (IH H) as [H1 H2]. split; [right; exact H1|exact H2].
  - intros [<-|H]; [split; [left; reflexivity|cbn; intros ->; rewrite Nat.eqb_refl in E; discriminate]|].
    destruct (IH H) as [H1 H2]. split; [right; exact H1|exact H2].
Qed.

Lemma lookupn_removen_eq k l : lookupn k (removen k l) = None.
Proof.
  induction l as [|[k' v] t IH]; [reflexivity|]. cbn. destruct (Nat.eqb k k') eqn:E; [exact IH|].
  cbn. rewrite E. exact IH.
Qed.

Lemma nth_error_set_dead_eq : forall l c x, nth_error l c = Some x ->
  nth_error (set_dead c l) c = Some (mkconn (c_id x) (c_inbound x) false).
Proof.
  induction l as [|y t IH]; intros c x H; [destruct c; discriminate|].
  destruct c as [|c]; cbn in *; [injection H as ->; reflexivity|apply IH; exact H].
Qed.

Lemma nth_error_set_dead_neq : forall l c c', c' <> c -> nth_error (set_dead c l) c' = nth_error l c'.
Proof.
  induction l as [|y t IH]; intros c c' H; [destruct c; reflexivity|].
  destruct c as [|c], c' as [|c']; cbn; try reflexivity; [congruence|apply IH; congruence].
Qed.

Lemma set_dead_length : forall l c, length (set_dead c l) = length l.
Proof. induction l as [|y t IH]; intros c; [destruct c; reflexivity|]. destruct c; cbn; [reflexivity|rewrite IH; reflexivity]. Qed.

(* ---------------------------------------------------------------- the invariant *)

(* an entry of a table names a connection to that very peer, made in that table's direction, which
   is alive or whose removal has been announced *)
Definition entry_ok (s : cst) (inb : bool) (pend : list nat) (kc : nat * nat) : Prop :=
  exists x, nth_error (conns s) (snd kc) = Some x /\ c_id x = fst kc /\ c_inbound x = inb /\
            (c_live x = true \/ In (fst kc) pend).

Definition cinv (s : cst) : Prop :=
  (forall kc, In kc (calling s) -> entry_ok s false (pend_calling s) kc) /\
  (forall kc, In kc (incoming s) -> entry_ok s true (pend_incoming s) kc).

Lemma cinv0 : cinv c0.
Proof. split; intros kc []. Qed.

Lemma entry_ok_app s inb pend kc x' calling' incoming' pc pi :
  entry_ok s inb pend kc ->
  entry_ok (mkc (conns s ++ [x']) calling' incoming' pc pi) inb pend kc.
Proof.
  intros [x [Hn H]]. exists x. split; [|exact H]. cbn [conns].
  rewrite nth_error_app1; [exact Hn|]. apply nth_error_Some. congruence.
Qed.

Lemma cstep_inv s e : cinv s -> cinv (fst (cstep s e)).
Proof.
  intros [Hc Hi]. destruct e as [id ok|id|c| | |id]; cbn [cstep].
  - (* request *)
    destruct (lookupn id (calling s)) as [c|] eqn:El; [split; assumption|].
    destruct ok; [|split; assumption]. cbn [fst]. split.
    + intros kc [<-|Hin].
      * exists (mkconn id false true). cbn [conns snd fst]. rewrite nth_error_app2 by lia.
        rewrite Nat.sub_diag. cbn. repeat split; try reflexivity. left. reflexivity.
      * apply entry_ok_app. exact (Hc kc Hin).
    + intros kc Hin. apply entry_ok_app. exact (Hi kc Hin).
  - (* accept *)
    destruct (lookupn id (incoming s)) as [c|] eqn:El; [split; assumption|]. cbn [fst]. split.
    + intros kc Hin. apply entry_ok_app. exact (Hc kc Hin).
    + intros kc [<-|Hin].
      * exists (mkconn id true true). cbn [conns snd fst]. rewrite nth_error_app2 by lia.
        rewrite Nat.sub_diag. cbn. repeat split; try reflexivity. left. reflexivity.
      * apply entry_ok_app. exact (Hi kc Hin).
  - (* a connection ends *)
    destruct (nth_error (conns s) c) as [x|] eqn:En; [|split; assumption].
    destruct (c_live x) eqn:El; [|split; assumption]. cbn [fst].
    assert (Hgen : forall inb pend pend' tbl,
               (forall kc, In kc tbl -> entry_ok s inb pend kc) ->
               (forall k, In k pend -> In k pend') ->
               (c_inbound x = inb -> In (c_id x) pend') ->
               forall kc calling' incoming' pc pi, In kc tbl ->
               entry_ok (mkc (set_dead c (conns s)) calling' incoming' pc pi) inb pend' kc).
    { intros inb pend pend' tbl Ht Hsub Hnew kc ca ic pc pi Hin. destruct (Ht kc Hin) as [y [Hn [Hid [Hinb Hl]]]].
      destruct (Nat.eq_dec (snd kc) c) as [E|E].
      - rewrite E in Hn. rewrite En in Hn. injection Hn as <-.
        exists (mkconn (c_id x) (c_inbound x) false). cbn [conns]. rewrite E.
        split; [apply nth_error_set_dead_eq; exact En|]. cbn. repeat split; try assumption.
        right. rewrite <- Hid. apply Hnew. exact Hinb.
      - exists y. cbn [conns]. rewrite nth_error_set_dead_neq by exact E.
        repeat split; try assumption. destruct Hl as [Hl|Hl]; [left; exact Hl|right; apply Hsub; exact Hl]. }
    split.
    + intros kc Hin. apply (Hgen false (pend_calling s) _ (calling s) Hc); [| |exact Hin].
      * intros k Hk. destruct (c_inbound x); [exact Hk|apply in_or_app; left; exact Hk].
      * intros E. rewrite E. apply in_or_app. right. left. reflexivity.
    + intros kc Hin. apply (Hgen true (pend_incoming s) _ (incoming s) Hi); [| |exact Hin].
      * intros k Hk. destruct (c_inbound x); [apply in_or_app; left; exact Hk|exact Hk].
      * intros E. rewrite E. apply in_or_app. right. left. reflexivity.
  - (* a removal announced by a dialled connection is processed *)
    destruct (pend_calling s) as [|id rest] eqn:Ep; [split; cbn [fst]; rewrite ?Ep; assumption|]. cbn [fst]. split.
    + intros kc Hin. apply in_removen in Hin. destruct Hin as [Hin Hne].
      destruct (Hc kc Hin) as [x [Hn [Hid [Hinb Hl]]]]. exists x. cbn [conns]. repeat split; try assumption.
      destruct Hl as [Hl|[Hl|Hl]]; [left; exact Hl|exfalso; apply Hne; symmetry; exact Hl|right; exact Hl].
    + intros kc Hin. destruct (Hi kc Hin) as [x H]. exists x. exact H.
  - destruct (pend_incoming s) as [|id rest] eqn:Ep; [split; cbn [fst]; rewrite ?Ep; assumption|]. cbn [fst]. split.
    + intros kc Hin. destruct (Hc kc Hin) as [x H]. exists x. exact H.
    + intros kc Hin. apply in_removen in Hin. destruct Hin as [Hin Hne].
      destruct (Hi kc Hin) as [x [Hn [Hid [Hinb Hl]]]]. exists x. cbn [conns]. repeat split; try assumption.
      destruct Hl as [Hl|[Hl|Hl]]; [left; exact Hl|exfalso; apply Hne; symmetry; exact Hl|right; exact Hl].
  - destruct (lookupn id (incoming s)); split; assumption.
Qed.

Lemma crun_inv : forall es s, cinv s -> cinv (fst (crun s es)).
Proof.
  induction es as [|e es IH]; intros s H; [exact H|].
  cbn [crun]. pose proof (cstep_inv s e H) as H1. destruct (cstep s e) as [s1 o].
  specialize (IH s1 H1). destruct (crun s1 es) as [s2 os]. exact IH.
Qed.

Theorem reachable_inv es : cinv (fst (crun c0 es)).
Proof. apply crun_inv. exact cinv0. Qed.

(* ---------------------------------------------------------------- what a request / a reply uses *)

(* a request to a peer is handed to a connection that was dialled to THAT peer (never to another
   peer's connection, never to an accepted one) *)
Theorem request_uses_own_connection s id ok c :
  cinv s -> (snd (cstep s (CReq id ok)) = Routed c \/ snd (cstep s (CReq id ok)) = Dialled c) ->
  exists x, nth_error (conns (fst (cstep s (CReq id ok)))) c = Some x /\ c_id x = id /\ c_inbound x = false.
Proof.
  intros Hinv H. pose proof (cstep_inv s (CReq id ok) Hinv) as [Hc' _].
  cbn [cstep] in *. destruct (lookupn id (calling s)) as [c'|] eqn:El.
  - cbn [snd fst] in *. destruct H as [H|H]; [|discriminate]. injection H as ->.
    destruct (Hc' (id, c) (lookupn_in _ _ _ El)) as [x [Hn [Hid [Hinb _]]]]. exists x. tauto.
  - destruct ok; cbn [snd fst] in *; [|destruct H; discriminate].
    destruct H as [H|H]; [discriminate|]. injection H as <-.
    destruct (Hc' (id, length (conns s)) (or_introl eq_refl)) as [x [Hn [Hid [Hinb _]]]]. exists x. tauto.
Qed.

Theorem reply_uses_requesters_connection s id c :
  cinv s -> snd (cstep s (CReply id)) = Routed c ->
  exists x, nth_error (conns s) c = Some x /\ c_id x = id /\ c_inbound x = true.
Proof.
  intros [_ Hi] H. cbn [cstep] in H. destruct (lookupn id (incoming s)) as [c'|] eqn:El; [|discriminate].
  cbn [snd] in H. injection H as ->. destruct (Hi (id, c) (lookupn_in _ _ _ El)) as [x [Hn [Hid [Hinb _]]]].
  exists x. tauto.
Qed.

(* once the announced removals are processed, the tables hold live connections only: a request is
   never handed to a dead connection for longer than it takes the handler to read its channel *)
Theorem settled_tables_live s id c :
  cinv s -> pend_calling s = [] -> lookupn id (calling s) = Some c -> is_live s c = true.
Proof.
  intros [Hc _] Hp El. destruct (Hc (id, c) (lookupn_in _ _ _ El)) as [x [Hn [_ [_ Hl]]]].
  unfold is_live. cbn [snd] in Hn. rewrite Hn. rewrite Hp in Hl. destruct Hl as [Hl|[]]. exact Hl.
Qed.

Theorem settled_incoming_live s id c :
  cinv s -> pend_incoming s = [] -> lookupn id (incoming s) = Some c -> is_live s c = true.
Proof.
  intros [_ Hi] Hp El. destruct (Hi (id, c) (lookupn_in _ _ _ El)) as [x [Hn [_ [_ Hl]]]].
  unfold is_live. cbn [snd] in Hn. rewrite Hn. rewrite Hp in Hl. destruct Hl as [Hl|[]]. exact Hl.
Qed.

(* ---------------------------------------------------------------- settling *)

Lemma settle_inv : forall fuel s, cinv s -> cinv (settle fuel s).
Proof.
  induction fuel as [|f IH]; intros s H; [exact H|]. cbn [settle].
  destruct (pend_calling s) eqn:E1; destruct (pend_incoming s) eqn:E2; try exact H; apply IH; apply cstep_inv; exact H.
Qed.

Lemma settle_done : forall fuel s, (length (pend_calling s) + length (pend_incoming s) <= fuel)%nat ->
  pend_calling (settle fuel s) = [] /\ pend_incoming (settle fuel s) = [].
Proof.
  induction fuel as [|f IH]; intros s H.
  - cbn. destruct (pend_calling s), (pend_incoming s); cbn in H; try lia. split; reflexivity.
  - cbn [settle]. destruct (pend_calling s) as [|a l] eqn:E1; destruct (pend_incoming s) as [|b m] eqn:E2.
    + split; assumption.
    + apply IH. cbn [cstep]. rewrite E2. cbn [fst pend_calling pend_incoming]. rewrite E1. cbn in *. lia.
    + apply IH. cbn [cstep]. rewrite E1. cbn [fst pend_calling pend_incoming]. rewrite E2. cbn in *. lia.
    + apply IH. cbn [cstep]. rewrite E1. cbn [fst pend_calling pend_incoming]. rewrite E2. cbn in *. lia.
Qed.

Lemma settled_inv s : cinv s -> cinv (settled s).
Proof. apply settle_inv. Qed.

Lemma settled_done s : pend_calling (settled s) = [] /\ pend_incoming (settled s) = [].
Proof. apply settle_done. lia. Qed.

Lemma settle_conns : forall fuel s, conns (settle fuel s) = conns s.
Proof.
  induction fuel as [|f IH]; intros s; [reflexivity|]. cbn [settle].
  destruct (pend_calling s) eqn:E1; destruct (pend_incoming s) eqn:E2; try reflexivity; rewrite IH; cbn [cstep]; rewrite ?E1, ?E2; reflexivity.
Qed.

(* ---------------------------------------------------------------- a peer that goes away and comes back *)

Lemma crun_ends_conns : forall cs s,
  let s' := fst (crun s (map CEnd cs)) in
  length (conns s') = length (conns s) /\
  forall c x, nth_error (conns s) c = Some x ->
    exists y, nth_error (conns s') c = Some y /\ c_id y = c_id x /\
              (c_live y = true -> c_live x = true /\ ~ In c cs).
Proof.
  induction cs as [|cc cs IH]; intros s; cbn [map crun fst].
  - split; [reflexivity|]. intros c x H. exists x. split; [exact H|]. split; [reflexivity|]. intros Hl. split; [exact Hl|intros []].
  - destruct (cstep s (CEnd cc)) as [s1 o] eqn:E1. specialize (IH s1). destruct (crun s1 (map CEnd cs)) as [s2 os] eqn:E2.
    cbn [fst] in *. destruct IH as [IHl IHn].
    assert (H1 : length (conns s1) = length (conns s) /\
                 forall c x, nth_error (conns s) c = Some x ->
                   exists y, nth_error (conns s1) c = Some y /\ c_id y = c_id x /\
                             (c_live y = true -> c_live x = true /\ c <> cc)).
    { cbn [cstep] in E1. destruct (nth_error (conns s) cc) as [x0|] eqn:En.
      - destruct (c_live x0) eqn:El; injection E1 as <- _.
        + cbn [conns]. split; [apply set_dead_length|]. intros c x H. destruct (Nat.eq_dec c cc) as [->|Hne].
          * rewrite En in H. injection H as <-. exists (mkconn (c_id x0) (c_inbound x0) false).
            split; [apply nth_error_set_dead_eq; exact En|]. cbn. split; [reflexivity|discriminate].
          * exists x. rewrite nth_error_set_dead_neq by exact Hne. split; [exact H|]. split; [reflexivity|]. intros Hl. split; assumption.
        + split; [reflexivity|]. intros c x H. exists x. split; [exact H|]. split; [reflexivity|].
          intros Hl. split; [exact Hl|]. intros ->. rewrite En in H. injection H as <-. congruence.
      - injection E1 as <- _. split; [reflexivity|]. intros c x H. exists x. split; [exact H|]. split; [reflexivity|].
        intros Hl. split; [exact Hl|]. intros ->. congruence. }
    destruct H1 as [H1l H1n]. split; [lia|]. intros c x H.
    destruct (H1n c x H) as [y [Hy [Hid Hl]]]. destruct (IHn c y Hy) as [z [Hz [Hid2 Hl2]]].
    exists z. split; [exact Hz|]. split; [rewrite Hid2; exact Hid|]. intros Hlz. destruct (Hl2 Hlz) as [Hly Hnin].
    destruct (Hl Hly) as [Hlx Hne]. split; [exact Hlx|]. intros [E|E]; [apply Hne; symmetry; exact E|exact (Hnin E)].
Qed.

(* after a peer went away (every connection with it ended) and the handlers settled, no table holds
   an entry for it: the next request to it dials afresh, the next connection from it is accepted *)
Theorem peer_gone_tables_clean s id :
  cinv s ->
  let s' := settled (fst (crun s (ends_of s id))) in
  lookupn id (calling s') = None /\ lookupn id (incoming s') = None.
Proof.
  intros Hinv s'.
  set (cs := filter (fun c => match nth_error (conns s) c with Some x => c_live x && Nat.eqb (c_id x) id | None => false end)
                    (seq 0 (length (conns s)))).
  assert (Hinv1 : cinv (fst (crun s (ends_of s id)))) by (apply crun_inv; exact Hinv).
  assert (Hinv' : cinv s') by (apply settled_inv; exact Hinv1).
  destruct (settled_done (fst (crun s (ends_of s id)))) as [Hp1 Hp2]. fold s' in Hp1, Hp2.
  destruct (crun_ends_conns cs s) as [Hlen Hn].
  (* no connection with id is alive in s' *)
  assert (Hdead : forall c y, nth_error (conns s') c = Some y -> c_id y = id -> c_live y = false).
  { intros c y Hy Hid. unfold s', settled in Hy. rewrite settle_conns in Hy. unfold ends_of in Hy. fold cs in Hy.
    assert (Hc : (c < length (conns s))%nat) by (rewrite <- Hlen; apply nth_error_Some; congruence).
    destruct (nth_error (conns s) c) as [x|] eqn:Ex; [|apply nth_error_None in Ex; lia].
    destruct (Hn c x Ex) as [y' [Hy' [Hid' Hl]]]. rewrite Hy' in Hy. injection Hy as <-.
    destruct (c_live y') eqn:El; [|reflexivity]. exfalso. destruct (Hl eq_refl) as [Hlx Hnin]. apply Hnin.
    unfold cs. apply filter_In. split; [apply in_seq; lia|]. rewrite Ex, Hlx. cbn. apply Nat.eqb_eq. congruence. }
  split.
  - destruct (lookupn id (calling s')) as [c|] eqn:El; [|reflexivity]. exfalso.
    pose proof (settled_tables_live s' id c Hinv' Hp1 El) as Hl. unfold is_live in Hl.
    destruct Hinv' as [Hc _]. destruct (Hc (id, c) (lookupn_in _ _ _ El)) as [x [Hx [Hid _]]]. cbn [snd fst] in *.
    rewrite Hx in Hl. rewrite (Hdead c x Hx Hid) in Hl. discriminate.
  - destruct (lookupn id (incoming s')) as [c|] eqn:El; [|reflexivity]. exfalso.
    pose proof (settled_incoming_live s' id c Hinv' Hp2 El) as Hl. unfold is_live in Hl.
    destruct Hinv' as [_ Hi]. destruct (Hi (id, c) (lookupn_in _ _ _ El)) as [x [Hx [Hid _]]]. cbn [snd fst] in *.
    rewrite Hx in Hl. rewrite (Hdead c x Hx Hid) in Hl. discriminate.
Qed.

(* the variant in which a dialled connection announces its end to the WRONG table (the accepted
   connections' channel): the dead entry stays in callHandler's table for ever *)
Definition cstep_wrong (s : cst) (e : cev) : cst * cout :=
  match e with
  | CEnd c =>
      match nth_error (conns s) c with
      | Some x => if c_live x
                  then (mkc (set_dead c (conns s)) (calling s) (incoming s) (pend_calling s) (pend_incoming s ++ [c_id x]), Quiet)
                  else (s, Quiet)
      | None => (s, Quiet)
      end
  | _ => cstep s e
  end.

Example wrong_channel_refuted :
  let s1 := fst (cstep_wrong (fst (cstep c0 (CReq 4 true))) (CEnd 0)) in
  let s2 := settled s1 in
  snd (cstep s2 (CReq 4 true)) = Routed 0 /\ is_live s2 0 = false /\
  snd (cstep (settled (fst (cstep (fst (cstep c0 (CReq 4 true))) (CEnd 0)))) (CReq 4 true)) = Dialled 1.
Proof. vm_compute. repeat split. Qed.
