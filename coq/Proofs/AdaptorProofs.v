From Coq Require Import ZArith NArith List Bool Lia.
From DosVerif Require Import Base.Val Models.Abi Models.Adaptor Proofs.AbiProofs.
Import ListNotations.
Open Scope Z_scope.

(* ---------------------------------------------------------------- kill *)

Lemma kill_nil : forall alive i, kill [] i alive = alive.
Proof. induction alive as [|a al IH]; intros i; [reflexivity|]. cbn. rewrite andb_true_r, IH. reflexivity. Qed.

Lemma kill_length : forall alive dead i, length (kill dead i alive) = length alive.
Proof. induction alive as [|a al IH]; intros dead i; cbn; [reflexivity|rewrite IH; reflexivity]. Qed.

Lemma existsb_eqb_in (i : nat) l : existsb (Nat.eqb i) l = true <-> In i l.
Proof.
  rewrite existsb_exists. split.
  - intros [x [Hx E]]. apply Nat.eqb_eq in E. subst. exact Hx.
  - intros H. exists i. split; [exact H|apply Nat.eqb_refl].
Qed.

Lemma kill_nth : forall alive dead j i,
  nth i (kill dead j alive) false = nth i alive false && negb (existsb (Nat.eqb (j + i)%nat) dead).
Proof.
  induction alive as [|a al IH]; intros dead j i.
  - cbn. destruct i; reflexivity.
  - destruct i as [|i]; cbn [kill nth].
    + rewrite Nat.add_0_r. reflexivity.
    + rewrite IH. replace (S j + i)%nat with (j + S i)%nat by lia. reflexivity.
Qed.

(* ---------------------------------------------------------------- reads *)

Definition no_closed (rs : list rout) : Prop := forall r, In r rs -> r <> RClosed.

Lemma closed_at_none : forall alive rs i, no_closed rs -> closed_at i alive rs = [].
Proof.
  induction alive as [|a al IH]; intros rs i H; [reflexivity|].
  destruct rs as [|r rl]; [reflexivity|]. cbn [closed_at].
  rewrite IH by (intros x Hx; apply H; right; exact Hx).
  destruct r; try (rewrite andb_false_r; reflexivity).
  exfalso. apply (H RClosed); [left; reflexivity|reflexivity].
Qed.

(* a read that fails at some endpoints with anything but a closed connection switches nothing off *)
Theorem read_keeps_endpoints s rs : no_closed rs -> fst (hstep s (HRead rs)) = s.
Proof.
  intros H. cbn [hstep fst]. rewrite closed_at_none by exact H. rewrite kill_nil. destruct s; reflexivity.
Qed.

Theorem reads_keep_endpoints : forall rss s, Forall no_closed rss -> fst (hrun s (map HRead rss)) = s.
Proof.
  induction rss as [|rs rss IH]; intros s H; [reflexivity|].
  cbn [map hrun]. pose proof (read_keeps_endpoints s rs (Forall_inv H)) as H1.
  destruct (hstep s (HRead rs)) as [s1 o] eqn:E1. cbn [fst] in H1. subst s1.
  pose proof (IH s (Forall_inv_tail H)) as H2. destruct (hrun s (map HRead rss)) as [s2 os]. exact H2.
Qed.

Lemma hrun_app : forall es1 es2 s,
  hrun s (es1 ++ es2) = let '(s1, o1) := hrun s es1 in let '(s2, o2) := hrun s1 es2 in (s2, o1 ++ o2).
Proof.
  induction es1 as [|e es1 IH]; intros es2 s.
  - cbn [app hrun]. destruct (hrun s es2); reflexivity.
  - cbn [app hrun]. destruct (hstep s e) as [sa oa]. rewrite IH.
    destruct (hrun sa es1) as [s1 o1]. destruct (hrun s1 es2) as [s2 o2]. reflexivity.
Qed.

(* ... so a state-changing call made after any number of such reads fails over exactly as if the
   reads had not happened: every endpoint that was healthy before them is still tried *)
Theorem write_after_reads rss s os :
  Forall no_closed rss ->
  exists outs, hrun s (map HRead rss ++ [HWrite os]) = (fst (write1 s os), outs ++ [snd (write1 s os)]).
Proof.
  intros H. rewrite hrun_app. pose proof (reads_keep_endpoints rss s H) as H1.
  destruct (hrun s (map HRead rss)) as [s1 o1]. cbn [fst] in H1. subst s1.
  cbn [hrun hstep]. destruct (write1 s os) as [s2 o2]. exists o1. reflexivity.
Qed.

(* ---------------------------------------------------------------- who can be switched off *)

Lemma handle_cancelled eps : forall j acc i,
  In i (cancelled (handle j eps acc)) ->
  In i (cancelled acc) \/ exists o, (j <= i)%nat /\ nth_error eps (i - j) = Some (true, o) /\ cancels o = true.
Proof.
  induction eps as [|[a o] rest IH]; intros j acc i H; [left; exact H|].
  cbn [handle] in H. destruct a; cbn [negb] in H.
  - destruct (final o) eqn:Ef.
    + cbn [cancelled] in H. destruct (cancels o) eqn:Ec; [|left; exact H].
      apply in_app_iff in H. destruct H as [H|[<-|[]]]; [left; exact H|].
      right. exists o. split; [lia|]. rewrite Nat.sub_diag. split; [reflexivity|exact Ec].
    + apply IH in H. destruct H as [H|[o' [Hj [Hn Hc]]]].
      * cbn [cancelled] in H. destruct (cancels o) eqn:Ec; [|left; exact H].
        apply in_app_iff in H. destruct H as [H|[<-|[]]]; [left; exact H|].
        right. exists o. split; [lia|]. rewrite Nat.sub_diag. split; [reflexivity|exact Ec].
      * right. exists o'. split; [lia|]. replace (i - j)%nat with (S (i - S j)) by lia. split; [exact Hn|exact Hc].
  - apply IH in H. destruct H as [H|[o' [Hj [Hn Hc]]]]; [left; exact H|].
    right. exists o'. split; [lia|]. replace (i - j)%nat with (S (i - S j)) by lia. split; [exact Hn|exact Hc].
Qed.

Lemma nth_error_combine {A B} (l1 : list A) (l2 : list B) i a b :
  nth_error (combine l1 l2) i = Some (a, b) -> nth_error l1 i = Some a /\ nth_error l2 i = Some b.
Proof.
  revert l2 i. induction l1 as [|x l1 IH]; intros l2 i H; [destruct i; discriminate|].
  destruct l2 as [|y l2]; [destruct i; discriminate|]. destruct i as [|i]; cbn in *.
  - injection H as -> ->. split; reflexivity.
  - apply IH. exact H.
Qed.

Lemma closed_at_in : forall alive rs j i,
  In i (closed_at j alive rs) -> (j <= i)%nat /\ nth_error rs (i - j) = Some RClosed.
Proof.
  induction alive as [|a al IH]; intros rs j i H; [destruct H|].
  destruct rs as [|r rl]; [destruct H|]. cbn [closed_at] in H. apply in_app_iff in H. destruct H as [H|H].
  - destruct a; cbn [andb] in H; [|destruct H]. destruct r; try (destruct H; fail).
    destruct H as [<-|[]]. split; [lia|]. rewrite Nat.sub_diag. reflexivity.
  - apply IH in H. destruct H as [Hj Hn]. split; [lia|]. replace (i - j)%nat with (S (i - S j)) by lia. exact Hn.
Qed.

Lemma batch_alive : forall k s, h_alive (fst (batch k s)) = h_alive s.
Proof.
  induction k as [|k IH]; intros s; [reflexivity|].
  cbn [batch]. destruct (write1 s _) as [s1 o] eqn:E1. destruct (batch k s1) as [s2 ns] eqn:E2. cbn [fst].
  replace s2 with (fst (batch k s1)) by (rewrite E2; reflexivity). rewrite IH.
  unfold write1 in E1. injection E1 as <- _. cbn [h_alive].
  (* all outcomes OAccept: nothing is cancelled *)
  set (f := handle_req _).
  assert (Hc : cancelled f = []).
  { destruct (cancelled f) as [|i l] eqn:Ec; [reflexivity|]. exfalso.
    assert (Hi : In i (cancelled f)) by (rewrite Ec; left; reflexivity).
    unfold f, handle_req in Hi. apply handle_cancelled in Hi. destruct Hi as [[]|[o0 [_ [Hn Hcan]]]].
    apply nth_error_combine in Hn. destruct Hn as [_ Hn]. apply nth_error_In in Hn. apply in_map_iff in Hn.
    destruct Hn as [x [Hx _]]. subst o0. discriminate. }
  rewrite Hc. apply kill_nil.
Qed.

(* an endpoint that is healthy before a step and switched off after it answered, in that step,
   a closed connection to the read, or a nonce-retrieval failure / closed connection to the write *)
Theorem switched_off_only_when_blamed s e i :
  nth i (h_alive s) false = true -> nth i (h_alive (fst (hstep s e))) false = false ->
  match e with
  | HRead rs => nth_error rs i = Some RClosed
  | HWrite os => exists o, nth_error os i = Some o /\ cancels o = true
  | HBatch _ => False
  | HReconnect => False
  end.
Proof.
  intros Ha Hd. destruct e as [rs|os|k|]; cbn [hstep] in Hd.
  - cbn [fst h_alive] in Hd. rewrite kill_nth, Ha in Hd. cbn [andb Nat.add] in Hd.
    apply negb_false_iff in Hd. apply existsb_eqb_in in Hd. apply closed_at_in in Hd.
    rewrite Nat.sub_0_r in Hd. exact (proj2 Hd).
  - unfold write1 in Hd. cbn [fst h_alive] in Hd. rewrite kill_nth, Ha in Hd. cbn [andb Nat.add] in Hd.
    apply negb_false_iff in Hd. apply existsb_eqb_in in Hd. unfold handle_req in Hd.
    apply handle_cancelled in Hd. destruct Hd as [[]|[o [_ [Hn Hc]]]]. rewrite Nat.sub_0_r in Hn.
    apply nth_error_combine in Hn. exists o. split; [exact (proj2 Hn)|exact Hc].
  - destruct (batch k s) as [s' ns] eqn:Eb. cbn [fst] in Hd.
    replace s' with (fst (batch k s)) in Hd by (rewrite Eb; reflexivity). rewrite batch_alive in Hd. congruence.
  - cbn [fst h_alive] in Hd.
    assert (Hall : forall (l : list bool) j, nth j l false = true -> nth j (map (fun _ => true) l) false = true).
    { induction l as [|b l IH]; intros j Hj; [destruct j; discriminate|]. destruct j; [reflexivity|cbn; apply IH; exact Hj]. }
    rewrite (Hall _ _ Ha) in Hd. discriminate.
Qed.

(* after a reconnect every endpoint is tried again *)
Theorem reconnect_revives_all s : forallb (fun b => b) (h_alive (fst (hstep s HReconnect))) = true.
Proof. cbn [hstep fst h_alive]. induction (h_alive s) as [|b l IH]; [reflexivity|exact IH]. Qed.

(* ---------------------------------------------------------------- nonces *)

Definition nonces_of (o : hout) : list Z :=
  match o with OutWrite _ _ (Some n) => [n] | OutBatch ns => ns | _ => [] end.

Definition accepted_nonces (outs : list hout) : list Z := flat_map nonces_of outs.

Fixpoint consecutive (from : Z) (l : list Z) : Prop :=
  match l with [] => True | x :: r => x = from /\ consecutive (from + 1) r end.

Lemma consecutive_app l1 : forall from l2,
  consecutive from l1 -> consecutive (from + Z.of_nat (length l1)) l2 -> consecutive from (l1 ++ l2).
Proof.
  induction l1 as [|x l1 IH]; intros from l2 H1 H2.
  - cbn in *. rewrite Z.add_0_r in H2. exact H2.
  - destruct H1 as [-> H1]. split; [reflexivity|]. apply IH; [exact H1|].
    replace (from + 1 + Z.of_nat (length l1)) with (from + Z.of_nat (length (from :: l1))); [exact H2|].
    cbn [length]. lia.
Qed.

Lemma write1_nonce s os :
  let '(s', o) := write1 s os in
  consecutive (h_nonce s) (nonces_of o) /\ h_nonce s' = h_nonce s + Z.of_nat (length (nonces_of o)).
Proof.
  unfold write1. destruct (result (handle_req (combine (h_alive s) os))) as [[]|]; cbn; repeat split; lia.
Qed.

Lemma batch_nonce : forall k s,
  let '(s', ns) := batch k s in
  consecutive (h_nonce s) ns /\ h_nonce s' = h_nonce s + Z.of_nat (length ns).
Proof.
  induction k as [|k IH]; intros s; [cbn; split; [exact I|lia]|].
  cbn [batch]. unfold write1.
  set (f := handle_req (combine (h_alive s) (map (fun _ => OAccept) (h_alive s)))).
  destruct (match result f with Some OAccept => true | _ => false end).
  - specialize (IH (mkh (kill (cancelled f) 0 (h_alive s)) (h_nonce s + 1))).
    destruct (batch k _) as [s2 ns]. destruct IH as [H2 H2']. cbn [h_nonce] in *.
    split; [split; [reflexivity|exact H2]|]. cbn [length]. lia.
  - specialize (IH (mkh (kill (cancelled f) 0 (h_alive s)) (h_nonce s))).
    destruct (batch k _) as [s2 ns]. destruct IH as [H2 H2']. cbn [h_nonce] in *.
    split; [exact H2|exact H2'].
Qed.

(* the transactions accepted over any history carry consecutive nonces, starting at the account's:
   no two state-changing calls ever share a nonce and none is skipped *)
Theorem nonces_consecutive : forall es s,
  let '(s', outs) := hrun s es in
  consecutive (h_nonce s) (accepted_nonces outs) /\
  h_nonce s' = h_nonce s + Z.of_nat (length (accepted_nonces outs)).
Proof.
  induction es as [|e es IH]; intros s; [cbn; split; [exact I|lia]|].
  cbn [hrun].
  assert (H1 : let '(s1, o) := hstep s e in
               consecutive (h_nonce s) (nonces_of o) /\ h_nonce s1 = h_nonce s + Z.of_nat (length (nonces_of o))).
  { destruct e as [rs|os|k|]; cbn [hstep].
    - cbn. split; [exact I|lia].
    - apply write1_nonce.
    - pose proof (batch_nonce k s) as Hb. destruct (batch k s) as [s' ns]. exact Hb.
    - cbn. split; [exact I|lia]. }
  destruct (hstep s e) as [s1 o]. destruct H1 as [H1 H1'].
  specialize (IH s1). destruct (hrun s1 es) as [s2 outs]. destruct IH as [H2 H2'].
  unfold accepted_nonces in *. cbn [flat_map]. split.
  - apply consecutive_app; [exact H1|]. rewrite <- H1'. exact H2.
  - rewrite app_length, Nat2Z.inj_add. lia.
Qed.

Lemma consecutive_lt : forall l from x, consecutive from l -> In x l -> from <= x.
Proof.
  induction l as [|y l IH]; intros from x H Hx; [destruct Hx|].
  destruct H as [-> H]. destruct Hx as [<-|Hx]; [lia|]. specialize (IH (from + 1) x H Hx). lia.
Qed.

Lemma consecutive_nodup : forall l from, consecutive from l -> NoDup l.
Proof.
  induction l as [|y l IH]; intros from H; [constructor|].
  destruct H as [-> H]. constructor; [|exact (IH _ H)].
  intros Hin. pose proof (consecutive_lt l (from + 1) from H Hin). lia.
Qed.

Corollary nonces_distinct es s : NoDup (accepted_nonces (snd (hrun s es))).
Proof.
  pose proof (nonces_consecutive es s) as H. destruct (hrun s es) as [s' outs]. cbn [snd].
  exact (consecutive_nodup _ _ (proj1 H)).
Qed.

(* ---------------------------------------------------------------- a batch of queued calls *)

Lemma handle_all_accept : forall alive j acc,
  existsb (fun b => b) alive = true ->
  result (handle j (combine alive (map (fun _ => OAccept) alive)) acc) = Some OAccept.
Proof.
  induction alive as [|a al IH]; intros j acc H; [discriminate|].
  cbn [map combine handle]. destruct a; cbn [negb].
  - reflexivity.
  - apply IH. exact H.
Qed.

(* k calls queued together while some endpoint is healthy: each becomes one accepted transaction *)
Theorem batch_all_accepted : forall k s,
  existsb (fun b => b) (h_alive s) = true -> length (snd (batch k s)) = k.
Proof.
  induction k as [|k IH]; intros s H; [reflexivity|].
  cbn [batch]. pose proof (batch_alive 1 s) as Hal. cbn [batch] in Hal.
  unfold write1 in *. unfold handle_req in *. rewrite handle_all_accept in * by exact H.
  set (s1 := mkh _ (h_nonce s + 1)) in *. cbn [fst h_alive] in Hal.
  specialize (IH s1). destruct (batch k s1) as [s2 ns]. cbn [snd] in *. cbn [length]. f_equal. apply IH.
  unfold s1. cbn [h_alive]. unfold s1 in Hal. cbn [h_alive] in Hal. rewrite Hal. exact H.
Qed.
