(* FramingProofs.v -- C15: the frame reader is transparent to fragmentation, bounded, and fails on
   truncated streams. *)
From Coq Require Import ZArith NArith List Bool Lia ZifyN ZifyNat ZifyBool.
From DosVerif Require Import Base.Val Models.Framing.
Import ListNotations.
Ltac Zify.zify_post_hook ::= Z.div_mod_to_equations.

Lemma app_split_le {A} (x y a b : list A) :
  x ++ y = a ++ b -> length x <= length a -> exists a', a = x ++ a' /\ y = a' ++ b.
Proof.
  revert a; induction x as [|h x IH]; intros a E Hl.
  - exists a. split; [reflexivity|exact E].
  - destruct a as [|h' a]; [cbn in Hl; lia|]. cbn in E. injection E as -> E.
    destruct (IH a E) as [a' [-> Hy]]; [cbn in Hl; lia|]. exists a'. split; [reflexivity|exact Hy].
Qed.

Lemma app_split_gt {A} (x y a b : list A) :
  x ++ y = a ++ b -> length a < length x -> a = firstn (length a) x /\ b = skipn (length a) x ++ y.
Proof.
  revert a; induction x as [|h x IH]; intros a E Hl; [cbn in Hl; lia|].
  destruct a as [|h' a]; [cbn; split; [reflexivity|symmetry; exact E]|].
  cbn in E. injection E as -> E. cbn [length firstn skipn].
  destruct (IH a E) as [H1 H2]; [cbn in Hl; lia|]. split; [f_equal; exact H1|exact H2].
Qed.

Lemma read_exact_concat : forall (c : conn) (k : nat) (a b : list N),
  concat c = a ++ b -> length a = k ->
  exists c', read_exact k c = Some (a, c') /\ concat c' = b.
Proof.
  induction c as [|ch rest IH]; intros k a b E Hk.
  - cbn in E. destruct a; [|discriminate]. cbn in Hk. subst k. exists []. split; [reflexivity|].
    cbn in E. cbn. exact E.
  - destruct k as [|k].
    + destruct a; [|discriminate]. exists (ch :: rest). split; [reflexivity|exact E].
    + cbn [read_exact]. cbn [concat] in E.
      destruct (Nat.leb (length ch) (S k)) eqn:El.
      * apply Nat.leb_le in El.
        destruct (app_split_le ch (concat rest) a b E) as [a' [-> Er]]; [lia|].
        destruct (IH (S k - length ch) a' b Er) as [c' [Hr Hc]].
        { rewrite app_length in Hk. lia. }
        rewrite Hr. exists c'. split; [reflexivity|exact Hc].
      * apply Nat.leb_gt in El.
        destruct (app_split_gt ch (concat rest) a b E) as [Ha Hb]; [lia|].
        rewrite Hk in Ha, Hb. exists (skipn (S k) ch :: rest). split.
        -- rewrite <- Ha. reflexivity.
        -- cbn [concat]. symmetry. exact Hb.
Qed.

Lemma read_exact_short : forall (c : conn) (k : nat),
  length (concat c) < k -> read_exact k c = None.
Proof.
  induction c as [|ch rest IH]; intros k H.
  - destruct k; [cbn in H; lia|reflexivity].
  - destruct k as [|k]; [lia|]. cbn [read_exact]. cbn [concat] in H. rewrite app_length in H.
    destruct (Nat.leb (length ch) (S k)) eqn:El.
    + rewrite IH; [reflexivity|]. apply Nat.leb_le in El. lia.
    + apply Nat.leb_gt in El. lia.
Qed.

(* ---------------------------------------------------------------- header codec *)

Lemma be_dec_enc4 (n : N) : (n < 4294967296)%N -> be_dec (be_enc4 n) = n.
Proof. intros H. unfold be_dec, be_enc4. cbn [fold_left]. lia. Qed.

Lemma be_enc4_length n : length (be_enc4 n) = 4.
Proof. reflexivity. Qed.

Definition frame (p : list N) : list N := be_enc4 (N.of_nat (length p)) ++ p.

Definition valid_payload (p : list N) : Prop :=
  (1 <= N.of_nat (length p) <= size_limit)%N.

Lemma write_frame_ok p : valid_payload p -> write_frame p = Ok (frame p).
Proof.
  intros [_ H]. unfold write_frame.
  replace (N.ltb size_limit (N.of_nat (length p))) with false by (symmetry; apply N.ltb_ge; exact H).
  reflexivity.
Qed.

Lemma write_frame_over p : (size_limit < N.of_nat (length p))%N -> write_frame p = Err.
Proof. intros H. unfold write_frame. apply N.ltb_lt in H. rewrite H. reflexivity. Qed.

(* the write loop emits the whole buffer whatever positive amounts the transport accepts per call *)
Lemma write_loop_all : forall fuel buf lims,
  (length buf <= fuel)%nat -> Forall (fun l => 1 <= l)%nat lims -> write_loop fuel buf lims = buf.
Proof.
  induction fuel as [|f IH]; intros buf lims Hf Hl.
  - destruct buf; [reflexivity|cbn in Hf; lia].
  - cbn [write_loop]. destruct buf as [|b buf]; [reflexivity|].
    set (k := match lims with [] => length (b :: buf) | l :: _ => Nat.min l (length (b :: buf)) end).
    assert (Hk : (1 <= k <= length (b :: buf))%nat).
    { unfold k. destruct lims as [|l lims]; [cbn; lia|]. inversion Hl; subst. cbn [length] in *. lia. }
    rewrite IH.
    + apply firstn_skipn.
    + rewrite skipn_length. cbn [length] in *. lia.
    + destruct lims as [|l lims]; [constructor|inversion Hl; assumption].
Qed.

Lemma write_frame_short_ok p lims :
  valid_payload p -> Forall (fun l => 1 <= l)%nat lims -> write_frame_short p lims = Ok (frame p).
Proof.
  intros Hp Hl. unfold write_frame_short. rewrite (write_frame_ok p Hp). f_equal.
  apply write_loop_all; [lia|exact Hl].
Qed.

(* ---------------------------------------------------------------- one frame *)

Lemma read_frame_ok (c : conn) (p tail : list N) :
  valid_payload p -> concat c = frame p ++ tail ->
  exists c', read_frame c = (Ok p, c') /\ concat c' = tail.
Proof.
  intros [H1 H2] E. unfold frame in E. rewrite <- app_assoc in E.
  destruct (read_exact_concat c header_size _ _ E (be_enc4_length _)) as [c1 [Hr1 Hc1]].
  unfold read_frame. rewrite Hr1.
  assert (Hsz : (N.of_nat (length p) < 4294967296)%N) by (unfold size_limit in H2; lia).
  rewrite (be_dec_enc4 _ Hsz).
  replace (N.eqb (N.of_nat (length p)) 0) with false by (symmetry; apply N.eqb_neq; lia).
  replace (N.ltb size_limit (N.of_nat (length p))) with false by (symmetry; apply N.ltb_ge; exact H2).
  cbn [orb]. rewrite Nat2N.id.
  destruct (read_exact_concat c1 (length p) p tail Hc1 eq_refl) as [c2 [Hr2 Hc2]].
  rewrite Hr2. exists c2. split; [reflexivity|exact Hc2].
Qed.

Theorem read_frame_bounded (c : conn) (h rest : list N) :
  concat c = h ++ rest -> length h = 4 ->
  (be_dec h = 0 \/ size_limit < be_dec h)%N ->
  exists c', read_frame c = (Err, c') /\ concat c' = rest.
Proof.
  intros E Hl Hb.
  destruct (read_exact_concat c header_size h rest E Hl) as [c1 [Hr1 Hc1]].
  unfold read_frame. rewrite Hr1.
  assert (Ht : (N.eqb (be_dec h) 0 || N.ltb size_limit (be_dec h))%bool = true).
  { apply orb_true_iff. destruct Hb as [Hb|Hb]; [left; apply N.eqb_eq; exact Hb|right; apply N.ltb_lt; exact Hb]. }
  rewrite Ht. exists c1. split; [reflexivity|exact Hc1].
Qed.

Theorem read_frame_truncated (c : conn) (p : list N) (m : nat) :
  valid_payload p -> m < length (frame p) -> concat c = firstn m (frame p) ->
  fst (read_frame c) = Err.
Proof.
  intros [H1 H2] Hm E. unfold read_frame.
  destruct (Nat.ltb m 4) eqn:E4.
  - apply Nat.ltb_lt in E4. rewrite read_exact_short; [reflexivity|].
    rewrite E, firstn_length. unfold header_size. lia.
  - apply Nat.ltb_ge in E4.
    assert (Ef : firstn m (frame p) = be_enc4 (N.of_nat (length p)) ++ firstn (m - 4) p).
    { unfold frame. rewrite firstn_app, be_enc4_length.
      rewrite firstn_all2 by (rewrite be_enc4_length; lia). reflexivity. }
    rewrite Ef in E.
    destruct (read_exact_concat c header_size _ _ E (be_enc4_length _)) as [c1 [Hr1 Hc1]].
    rewrite Hr1.
    assert (Hsz : (N.of_nat (length p) < 4294967296)%N) by (unfold size_limit in H2; lia).
    rewrite (be_dec_enc4 _ Hsz).
    replace (N.eqb (N.of_nat (length p)) 0) with false by (symmetry; apply N.eqb_neq; lia).
    replace (N.ltb size_limit (N.of_nat (length p))) with false by (symmetry; apply N.ltb_ge; exact H2).
    cbn [orb]. rewrite Nat2N.id.
    rewrite read_exact_short; [reflexivity|].
    rewrite Hc1, firstn_length. unfold frame in Hm. rewrite app_length, be_enc4_length in Hm. lia.
Qed.

(* ---------------------------------------------------------------- any number of frames *)

Theorem read_frames_transparent : forall (ps : list (list N)) (c : conn) (tail : list N),
  Forall valid_payload ps ->
  concat c = flat_map frame ps ++ tail ->
  exists c', read_frames (length ps) c = (map Ok ps, c') /\ concat c' = tail.
Proof.
  induction ps as [|p ps IH]; intros c tail Hv E.
  - exists c. split; [reflexivity|exact E].
  - inversion Hv as [|? ? Hp Hps]; subst. cbn [flat_map] in E. rewrite <- app_assoc in E.
    destruct (read_frame_ok c p _ Hp E) as [c1 [Hr Hc1]].
    destruct (IH c1 tail Hps Hc1) as [c2 [Hrs Hc2]].
    cbn [length read_frames map]. rewrite Hr, Hrs. exists c2. split; [reflexivity|exact Hc2].
Qed.

(* what was written is what is read, whatever the fragmentation *)
Corollary write_then_read (ps : list (list N)) (c : conn) :
  Forall valid_payload ps ->
  concat c = flat_map (fun p => match write_frame p with Ok w => w | _ => [] end) ps ->
  fst (read_frames (length ps) c) = map Ok ps.
Proof.
  intros Hv E.
  assert (Ef : flat_map (fun p => match write_frame p with Ok w => w | _ => [] end) ps = flat_map frame ps).
  { clear E. induction Hv as [|p ps Hp _ IH]; [reflexivity|]. cbn [flat_map]. rewrite IH, (write_frame_ok p Hp). reflexivity. }
  rewrite Ef in E.
  destruct (read_frames_transparent ps c [] Hv) as [c' [Hr _]]; [rewrite app_nil_r; exact E|].
  rewrite Hr. reflexivity.
Qed.
