From Coq Require Import ZArith NArith List Bool Lia Field.
From DosVerif Require Import Base.Val Base.Field Models.ScLimbs Models.Schnorr.
Import ListNotations.
Open Scope Z_scope.

Section Proofs.
Context {F G M : Type}.
Variable O : Fops F.
Variable Mo : Gops F G.
Variable base : G.
Variable red : Z -> F.
Variable hs : G -> G -> M -> F.
Variable repr : F -> Z.

Hypothesis FL : Flaws O.
Hypothesis GL : Glaws O Mo.
Hypothesis GF : Gfree O Mo base.
Hypothesis red_repr : forall f, red (repr f) = f.
Hypothesis repr_range : forall f, 0 <= repr f < ell.
Hypothesis red_period : forall z, red (z + ell) = red z.
Hypothesis red_inj : forall a b, 0 <= a < ell -> 0 <= b < ell -> red a = red b -> a = b.

Add Field Ff : (F_th O FL).

Notation "a +g b" := (gadd Mo a b) (at level 50, left associativity).
Notation "k *g a" := (gscale Mo k a) (at level 40).

Lemma g_cancel_l a b c : a +g b = a +g c -> b = c.
Proof.
  intros H.
  assert (E : gneg Mo a +g (a +g b) = gneg Mo a +g (a +g c)) by (rewrite H; reflexivity).
  rewrite !(G_add_assoc O Mo GL) in E.
  rewrite (G_add_comm O Mo GL (gneg Mo a) a), (G_add_neg O Mo GL), !(G_add_0_l O Mo GL) in E. exact E.
Qed.

(* a signature made by Sign verifies under both verifiers *)
Theorem sign_verifies k x m :
  verify_std Mo base red hs (x *g base) m (sign O Mo base hs repr k x m) = true
  /\ verify_old Mo base red hs (x *g base) m (sign O Mo base hs repr k x m) = true.
Proof.
  assert (E : equation Mo base red hs (x *g base) m (sign O Mo base hs repr k x m) = true).
  { unfold equation, sign. cbn [w_R w_S]. apply (G_eqb O Mo GL). rewrite red_repr.
    set (h := hs (k *g base) (x *g base) m).
    rewrite (G_scale_add_l O Mo GL). f_equal.
    rewrite <- (G_scale_mul O Mo GL). f_equal. ring. }
  unfold verify_std, verify_old. rewrite E. split; [|reflexivity].
  unfold sign; cbn [w_S]. pose proof (repr_range (fadd O k (fmul O x (hs (k *g base) (x *g base) m)))) as Hr.
  destruct (Z.ltb_spec (repr (fadd O k (fmul O x (hs (k *g base) (x *g base) m)))) ell); [|lia].
  destruct (Z.leb_spec 0 (repr (fadd O k (fmul O x (hs (k *g base) (x *g base) m))))); [reflexivity|lia].
Qed.

(* the two verifiers differ exactly by the range check on S *)
Theorem std_is_old_and_canonical A m s :
  verify_std Mo base red hs A m s = (w_S s <? ell) && (0 <=? w_S s) && verify_old Mo base red hs A m s.
Proof. reflexivity. Qed.

(* the verifier without the range check accepts S + l whenever it accepts S: the signature is
   altered and still accepted; the standard verifier rejects it *)
Theorem old_verifier_malleable A m R s :
  0 <= s -> verify_old Mo base red hs A m (mkwsig R s) = true ->
  verify_old Mo base red hs A m (mkwsig R (s + ell)) = true
  /\ verify_std Mo base red hs A m (mkwsig R (s + ell)) = false.
Proof.
  intros Hs H. unfold verify_old, verify_std, equation in *. cbn [w_R w_S] in *.
  rewrite red_period. split; [exact H|].
  destruct (Z.ltb_spec (s + ell) ell); [lia|reflexivity].
Qed.

(* with the range check, S is determined by R, A and m *)
Theorem std_s_unique A m R s1 s2 :
  verify_std Mo base red hs A m (mkwsig R s1) = true ->
  verify_std Mo base red hs A m (mkwsig R s2) = true -> s1 = s2.
Proof.
  unfold verify_std, equation. cbn [w_R w_S]. intros H1 H2.
  apply andb_prop in H1. destruct H1 as [R1 E1]. apply andb_prop in R1. destruct R1 as [L1 P1].
  apply andb_prop in H2. destruct H2 as [R2 E2]. apply andb_prop in R2. destruct R2 as [L2 P2].
  apply Z.ltb_lt in L1, L2. apply Z.leb_le in P1, P2.
  apply (G_eqb O Mo GL) in E1, E2.
  apply red_inj; try lia. apply (G_base_inj O Mo base GF). rewrite E1, E2. reflexivity.
Qed.

(* an altered message is accepted only if its challenge is the same *)
Theorem message_binding x m m' s :
  x <> f0 O ->
  verify_old Mo base red hs (x *g base) m s = true ->
  verify_old Mo base red hs (x *g base) m' s = true ->
  hs (w_R s) (x *g base) m = hs (w_R s) (x *g base) m'.
Proof.
  unfold verify_old, equation. intros Hx H1 H2.
  apply (G_eqb O Mo GL) in H1, H2. rewrite H1 in H2. apply g_cancel_l in H2.
  rewrite <- !(G_scale_mul O Mo GL) in H2. apply (G_base_inj O Mo base GF) in H2.
  set (h := hs (w_R s) (x *g base) m) in *. set (h' := hs (w_R s) (x *g base) m') in *.
  assert (E : fmul O (fsub O h h') x = f0 O) by (replace (fmul O (fsub O h h') x) with (fsub O (fmul O h x) (fmul O h' x)) by ring; rewrite H2; ring).
  assert (E2 : fsub O h h' = f0 O).
  { replace (fsub O h h') with (fmul O (fmul O (fsub O h h') x) (finv O x)) by (field; exact Hx).
    rewrite E. ring. }
  replace h with (fadd O (fsub O h h') h') by ring. rewrite E2. ring.
Qed.

(* an altered key (another public key) is accepted only if R + h A happens to coincide *)
Theorem key_binding A A' m s :
  verify_old Mo base red hs A m s = true -> verify_old Mo base red hs A' m s = true ->
  gscale Mo (hs (w_R s) A m) A = gscale Mo (hs (w_R s) A' m) A'.
Proof.
  unfold verify_old, equation. intros H1 H2.
  apply (G_eqb O Mo GL) in H1, H2. rewrite H1 in H2. apply g_cancel_l in H2. exact H2.
Qed.
End Proofs.
