(* EvmProofs.v -- C06: the library's encodings are canonical EVM encodings, the EVM decoder and
   the library decoder agree on them, the contract's negate is the library's negation. *)
From Coq Require Import ZArith List Bool Lia.
From DosVerif Require Import Base.Val Base.Field Gen.BnConsts Models.Bn Models.BnPairing Models.Evm
     Proofs.BnCodecProofs.
Import ListNotations.
Local Open Scope Z_scope.

Lemma fp_lt_p (a : Fp) : 0 <= zv a < bn_p.
Proof.
  destruct a as [x px]; cbn. apply Z.eqb_eq in px. rewrite <- px. apply Z.mod_pos_bound. apply p_pos.
Qed.

Lemma skipn32_app (a b : list N) : length a = 32%nat -> skipn 32 (a ++ b) = b.
Proof. intros H. apply skipn_app_exact. exact H. Qed.

(* every emitted G1 encoding: 64 bytes, both coordinates below the field prime *)
Theorem g1_emitted_canonical (a : jac (K:=Fp)) :
  let e := g1_marshal a in
  length e = 64%nat /\ 0 <= be_val (firstn 32 e) < bn_p /\ 0 <= be_val (skipn 32 e) < bn_p.
Proof.
  cbv zeta. split; [apply g1_length|]. unfold g1_marshal.
  destruct (is_inf fp_ops (make_affine fp_ops a)).
  - split; vm_compute; split; (discriminate || reflexivity).
  - rewrite (firstn_app_exact _ _ 32 (be_bytes_length 32 _)), (skipn32_app _ _ (be_bytes_length 32 _)).
    rewrite !be_val_bytes32 by apply fp_range. split; apply fp_lt_p.
Qed.

(* every emitted non-identity G2 encoding: 0x01, then x.im, x.re, y.im, y.re, each below p *)
Theorem g2_emitted_canonical (a : jac (K:=Fp2)) :
  is_inf fp2o (make_affine fp2o a) = false ->
  let m := make_affine fp2o a in
  g2_marshal a = [1%N] ++ be_bytes 32 (zv (c1 (jx m))) ++ be_bytes 32 (zv (c0 (jx m)))
                        ++ be_bytes 32 (zv (c1 (jy m))) ++ be_bytes 32 (zv (c0 (jy m))) /\
  zv (c1 (jx m)) < bn_p /\ zv (c0 (jx m)) < bn_p /\ zv (c1 (jy m)) < bn_p /\ zv (c0 (jy m)) < bn_p.
Proof.
  intros H m. unfold g2_marshal. rewrite H. split; [reflexivity|].
  repeat split; apply fp_lt_p.
Qed.

(* the EVM decoder accepts every encoding the library emits for a point of the curve, and reads the
   same point *)
Theorem evm_decodes_emitted (a : jac (K:=Fp)) :
  g1_on_curve a = true -> evm_g1_dec (g1_marshal a) = Some (make_affine fp_ops a).
Proof.
  intros Hc. pose proof (g1_roundtrip a Hc) as R. pose proof (g1_emitted_canonical a) as [Hl [Hx Hy]].
  unfold evm_g1_dec. rewrite Hl. cbn [Nat.eqb negb].
  replace (bn_p <=? be_val (firstn 32 (g1_marshal a))) with false by (symmetry; apply Z.leb_gt; lia).
  replace (bn_p <=? be_val (skipn 32 (g1_marshal a))) with false by (symmetry; apply Z.leb_gt; lia).
  cbn [orb].
  unfold g1_unmarshal in R. rewrite Hl in R. cbn [Nat.ltb Nat.leb] in R.
  assert (Hs : firstn 32 (skipn 32 (g1_marshal a)) = skipn 32 (g1_marshal a)).
  { apply firstn_all2. rewrite skipn_length, Hl. cbn. apply le_n. }
  rewrite Hs in R.
  set (x := be_val (firstn 32 (g1_marshal a))) in *. set (y := be_val (skipn 32 (g1_marshal a))) in *.
  assert (Hzx : feqb fp_ops (fp_of x) (f0 fp_ops) = (x =? 0)).
  { change (feqb fp_ops (fp_of x) (f0 fp_ops)) with ((x mod bn_p) =? (0 mod bn_p)).
    rewrite Z.mod_small by lia. reflexivity. }
  assert (Hzy : feqb fp_ops (fp_of y) (f0 fp_ops) = (y =? 0)).
  { change (feqb fp_ops (fp_of y) (f0 fp_ops)) with ((y mod bn_p) =? (0 mod bn_p)).
    rewrite Z.mod_small by lia. reflexivity. }
  rewrite Hzx, Hzy in R.
  destruct ((x =? 0) && (y =? 0)); exact R.
Qed.

(* whatever the library parses re-encodes to something the EVM parses as the same point *)
Theorem lib_parse_then_evm (b : list N) (P : jac (K:=Fp)) :
  g1_unmarshal b = Some P -> evm_g1_dec (g1_marshal P) = Some (make_affine fp_ops P).
Proof. intros H. apply evm_decodes_emitted. apply (g1_decoded_on_curve b P H). Qed.

(* the contract's negate is the library's Neg on canonical encodings (y = 0 does not occur on the curve:
   it is excluded by hypothesis here) *)
Theorem negate_agrees (a : jac (K:=Fp)) :
  is_inf fp_ops (make_affine fp_ops a) = false ->
  zv (jy (make_affine fp_ops a)) <> 0 ->
  jz (make_affine fp_ops a) = f1 fp_ops ->
  contract_negate (g1_marshal a) = g1_marshal (jac_neg fp_ops (make_affine fp_ops a)).
Proof.
  intros Hi Hy Hz. set (m := make_affine fp_ops a) in *.
  unfold g1_marshal at 1. fold m. rewrite Hi.
  unfold contract_negate.
  rewrite (firstn_app_exact _ _ 32 (be_bytes_length 32 _)), (skipn32_app _ _ (be_bytes_length 32 _)).
  rewrite !be_val_bytes32 by apply fp_range.
  pose proof (fp_lt_p (jx m)) as Hx. pose proof (fp_lt_p (jy m)) as Hyr.
  replace ((zv (jx m) =? 0) && (zv (jy m) =? 0)) with false
    by (symmetry; apply andb_false_iff; right; apply Z.eqb_neq; exact Hy).
  rewrite (Z.mod_small (zv (jy m))) by lia.
  (* right-hand side: Neg keeps z = 1, so MakeAffine is the identity on it *)
  assert (Hma : make_affine fp_ops (jac_neg fp_ops m) = jac_neg fp_ops m).
  { unfold make_affine. cbn [jac_neg jz]. rewrite Hz.
    replace (feqb fp_ops (f1 fp_ops) (f1 fp_ops)) with true by reflexivity. reflexivity. }
  unfold g1_marshal. rewrite Hma. unfold is_inf. cbn [jac_neg jz jx jy]. rewrite Hz.
  replace (feqb fp_ops (f1 fp_ops) (f0 fp_ops)) with false by reflexivity.
  f_equal. f_equal.
  change (zv (fopp fp_ops (jy m))) with ((- zv (jy m)) mod bn_p).
  rewrite <- (Z_mod_plus_full (- zv (jy m)) 1 bn_p). rewrite Z.mod_small by lia. lia.
Qed.

(* ---------------------------------------------------------------- both sides evaluate one predicate *)
From DosVerif Require Import Proofs.ZqField.
Lemma fp_ring' : ring_theory (f0 fp_ops) (f1 fp_ops) (fadd fp_ops) (fmul fp_ops) (fsub fp_ops) (fopp fp_ops) eq.
Proof. exact (zq_ring bn_p). Qed.
Add Ring fpr2 : fp_ring'.

Lemma tpt_make_affine_cases (b : tpt) :
  (fp2_is_one (pz b) = true /\ tpt_make_affine b = mktpt (px b) (py b) (pz b) fp2_one) \/
  (fp2_is_one (pz b) = false /\ fp2_is_zero (pz b) = true /\ tpt_make_affine b = mktpt fp2_zero fp2_one (pz b) fp2_zero) \/
  (fp2_is_one (pz b) = false /\ fp2_is_zero (pz b) = false /\ pz (tpt_make_affine b) = fp2_one /\ pt (tpt_make_affine b) = fp2_one).
Proof.
  unfold tpt_make_affine. destruct (fp2_is_one (pz b)) eqn:E1; [left; split; reflexivity|].
  destruct (fp2_is_zero (pz b)) eqn:E0; [right; left; repeat split; reflexivity|right; right; repeat split; reflexivity].
Qed.

Lemma tpt_make_affine_idem (b : tpt) : tpt_make_affine (tpt_make_affine b) = tpt_make_affine b.
Proof.
  destruct (tpt_make_affine_cases b) as [[E1 E]|[[E1 [E0 E]]|[E1 [E0 [Ez Et]]]]].
  - rewrite E. unfold tpt_make_affine. cbn [pz px py pt]. rewrite E1. reflexivity.
  - rewrite E. unfold tpt_make_affine. cbn [pz px py pt]. rewrite E1, E0. reflexivity.
  - remember (tpt_make_affine b) as m eqn:Em. unfold tpt_make_affine. rewrite Ez.
    replace (fp2_is_one fp2_one) with true by reflexivity.
    destruct m as [x y z t]. cbn in *. subst z t. reflexivity.
Qed.

Lemma tpt_make_affine_zero (b : tpt) : fp2_is_zero (pz (tpt_make_affine b)) = fp2_is_zero (pz b).
Proof.
  destruct (tpt_make_affine_cases b) as [[E1 E]|[[E1 [E0 E]]|[E1 [E0 [Ez Et]]]]].
  - rewrite E. reflexivity.
  - rewrite E. reflexivity.
  - rewrite Ez, E0. reflexivity.
Qed.

Lemma miller_affine (b : tpt) (xy : Fp * Fp) : miller (tpt_make_affine b) xy = miller b xy.
Proof. unfold miller. rewrite tpt_make_affine_idem. reflexivity. Qed.

Lemma is_inf_make_affine (a : jac (K:=Fp)) : is_inf fp_ops (make_affine fp_ops a) = is_inf fp_ops a.
Proof.
  unfold make_affine. destruct (feqb fp_ops (jz a) (f1 fp_ops)) eqn:E1; [reflexivity|].
  unfold is_inf. destruct (feqb fp_ops (jz a) (f0 fp_ops)) eqn:E0; cbn [jz]; [reflexivity|reflexivity].
Qed.

(* PairingCheck sees a G1 operand only through its affine form and a G2 operand only through
   tpt_make_affine *)
Lemma pairing_acc_affine : forall (l1 l2 : list (jac (K:=Fp) * tpt)),
  Forall2 (fun p1 p2 => make_affine fp_ops (fst p1) = make_affine fp_ops (fst p2) /\
                        tpt_make_affine (snd p1) = tpt_make_affine (snd p2)) l1 l2 ->
  forall acc, pairing_acc l1 acc = pairing_acc l2 acc.
Proof.
  induction 1 as [|[a1 b1] [a2 b2] l1 l2 [Ha Hb] _ IH]; intros acc; [reflexivity|].
  cbn [fst snd] in Ha, Hb. cbn [pairing_acc].
  rewrite <- (is_inf_make_affine a1), <- (is_inf_make_affine a2), Ha.
  rewrite <- (tpt_make_affine_zero b1), <- (tpt_make_affine_zero b2), Hb.
  destruct (is_inf fp_ops (make_affine fp_ops a2) || fp2_is_zero (pz (tpt_make_affine b2))); [apply IH|].
  rewrite <- (miller_affine b1), <- (miller_affine b2), Hb. apply IH.
Qed.

(* Neg commutes with MakeAffine *)
Lemma make_affine_neg_comm (a : jac (K:=Fp)) :
  make_affine fp_ops (jac_neg fp_ops a) = jac_neg fp_ops (make_affine fp_ops a) \/
  is_inf fp_ops a = true.
Proof.
  unfold make_affine. cbn [jac_neg jz jx jy].
  destruct (feqb fp_ops (jz a) (f1 fp_ops)); [left; reflexivity|].
  destruct (feqb fp_ops (jz a) (f0 fp_ops)) eqn:E0; [right; exact E0|left].
  unfold jac_neg. cbn [jx jy jz]. f_equal. ring.
Qed.

Lemma make_affine_idem_fp (a : jac (K:=Fp)) : make_affine fp_ops (make_affine fp_ops a) = make_affine fp_ops a.
Proof. apply make_affine_idem. Qed.

(* The library's verification and the contract's equation are the SAME pairing check on the same
   operands, once the conventions are matched: the signature the library parsed (Sg, from any accepted
   encoding) against its canonical re-encoding negated by the contract's rule; H(m) = [h mod q]G on
   one side and ecMul(G, h) with the unreduced h on the other; the public key as the group code
   holds it against its canonical 128-byte encoding.  The hypotheses name exactly what is imported:
   the order of G1 (Hord), closure of the curve under the formulas (Hhm, Hneg), y <> 0 on the
   curve (Hy), and that pk / the G2 generator decode to the points they encode (Hpk, Hg2). *)
Theorem verify_iff_evm (X Xe G2e : tpt) (pk : list N) (h : Z) (sig : list N) (Sg : jac (K:=Fp)) :
  g1_unmarshal sig = Some Sg ->
  let Sa := make_affine fp_ops Sg in
  is_inf fp_ops Sa = false -> zv (jy Sa) <> 0 -> jz Sa = f1 fp_ops ->
  g1_on_curve (jac_neg fp_ops Sa) = true ->
  g1_on_curve g1_gen = true -> make_affine fp_ops g1_gen = g1_gen ->
  g1_on_curve (g1_mul g1_gen h) = true ->
  make_affine fp_ops (g1_mul g1_gen h) = make_affine fp_ops (g1_mul g1_gen (h mod bn_q)) ->
  evm_g2_dec pk = Some Xe -> tpt_make_affine Xe = tpt_make_affine X ->
  evm_g2_dec g2_gen_evm = Some G2e -> tpt_make_affine G2e = tpt_make_affine g2_gen_tpt ->
  forall b, contract_check pk h (g1_marshal Sg) = Some b <-> bls_verify_lib X h sig = Ok b.
Proof.
  intros Hsig Sa Hinf Hy Hz Hneg Hgen Hgaff Hhm Hord Hpk HpkX Hg2 Hg2X b.
  unfold bls_verify_lib. rewrite Hsig.
  unfold contract_check, evm_ecmul, g1_gen_evm.
  rewrite (evm_decodes_emitted g1_gen Hgen), Hgaff.
  unfold evm_pairing. cbn [map fst snd].
  rewrite (negate_agrees Sg Hinf Hy Hz). fold Sa.
  rewrite (evm_decodes_emitted _ Hneg), Hg2.
  unfold evm_g1_enc. rewrite (evm_decodes_emitted _ Hhm), Hpk.
  cbn [forallb flat_map app andb].
  unfold pairing_check.
  rewrite (pairing_acc_affine
             [(make_affine fp_ops (jac_neg fp_ops Sa), G2e); (make_affine fp_ops (g1_mul g1_gen h), Xe)]
             [(jac_neg fp_ops Sg, g2_gen_tpt); (g1_mul g1_gen (h mod bn_q), X)]).
  - match goal with |- Some ?v = _ <-> _ => generalize v end. intros v.
    split; intros H; injection H as <-; reflexivity.
  - constructor; [|constructor; [|constructor]]; cbn [fst snd]; split; try assumption.
    + rewrite make_affine_idem_fp.
      destruct (make_affine_neg_comm Sg) as [E|E].
      * rewrite E. fold Sa.
        destruct (make_affine_neg_comm Sa) as [E2|E2]; [|congruence].
        rewrite E2. unfold Sa. rewrite make_affine_idem_fp. reflexivity.
      * exfalso. rewrite <- (is_inf_make_affine Sg) in E. fold Sa in E. congruence.
    + rewrite make_affine_idem_fp. exact Hord.
Qed.
