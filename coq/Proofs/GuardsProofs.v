(* GuardsProofs.v -- no input drives the modelled handlers into a Go panic; the dispatcher of
   pdkg.Loop treats sessions independently. *)
From Coq Require Import ZArith NArith List Bool Lia.
From DosVerif Require Import Base.Val Models.Guards.
Import ListNotations.
Open Scope Z_scope.

(* ---------------------------------------------------------------- partial operations *)

Lemma go_index_ok {A} (l : list A) i :
  0 <= i < Z.of_nat (length l) -> exists a, go_index l i = Ok a /\ nth_error l (Z.to_nat i) = Some a.
Proof.
  intros H. unfold go_index.
  destruct (i <? 0) eqn:E1; [lia|]. destruct (Z.of_nat (length l) <=? i) eqn:E2; [lia|]. cbn [orb].
  destruct (nth_error l (Z.to_nat i)) eqn:E3; [eauto|].
  apply nth_error_None in E3. lia.
Qed.

Lemma go_slice_ok_spec {A} (l : list A) lo hi :
  0 <= lo <= hi -> hi <= Z.of_nat (length l) -> exists r, go_slice l lo hi = Ok r.
Proof.
  intros H1 H2. unfold go_slice, go_slice_ok.
  destruct (0 <=? lo) eqn:E1; [|lia]. destruct (lo <=? hi) eqn:E2; [|lia].
  destruct (hi <=? Z.of_nat (length l)) eqn:E3; [|lia]. cbn [andb]. eauto.
Qed.

(* ---------------------------------------------------------------- genDistKeyGenerator *)

Lemma set_nth_length {A} (l : list A) n a : length (set_nth l n a) = length l.
Proof. revert n; induction l as [|h t IH]; intros [|n]; cbn; auto. Qed.

Lemma count_set_set_nth slots n z :
  nth_error slots n = Some None ->
  count_set (set_nth slots n (Some z)) = S (count_set slots).
Proof.
  unfold count_set. revert n; induction slots as [|h t IH]; intros [|n] H; cbn in *; try discriminate.
  - inversion H; subst. cbn. reflexivity.
  - destruct h; cbn; rewrite (IH n H); reflexivity.
Qed.

Lemma nth_set_nth_same {A} (l : list A) n a : (n < length l)%nat -> nth_error (set_nth l n a) n = Some a.
Proof. revert n; induction l as [|h t IH]; intros [|n] H; cbn in *; try lia; auto. apply IH; lia. Qed.

Lemma nth_set_nth_other {A} (l : list A) n m a : n <> m -> nth_error (set_nth l n a) m = nth_error l m.
Proof.
  revert n m; induction l as [|h t IH]; intros [|n] [|m] H; cbn; auto; try congruence.
Qed.

(* the index field is a uint32: the model carries that as a hypothesis on the message list *)
Definition pub_unsigned (p : option pubmsg) : Prop :=
  match p with Some m => 0 <= pm_index m | None => True end.

Lemma fill_guarded_no_panic slots pubs :
  Forall pub_unsigned pubs -> fill true slots pubs <> Panic.
Proof.
  revert slots; induction pubs as [|p ps IH]; intros slots HU; cbn [fill]; [discriminate|].
  inversion HU as [|? ? Hp HU']; subst.
  cbn [andb]. destruct (pub_malformed (Z.of_nat (length slots)) p) eqn:Em; [discriminate|].
  destruct p as [m|]; [|cbn in Em; discriminate].
  cbn [go_deref res_bind]. unfold pub_malformed in Em. cbn in Hp.
  destruct (pm_key m) as [k|] eqn:Ek; [|discriminate].
  destruct (go_index_ok slots (pm_index m)) as [a [Ha _]]; [lia|].
  rewrite Ha. cbn [res_bind]. destruct a; [discriminate|].
  cbn [go_deref res_bind]. destruct k; [|discriminate]. apply IH; assumption.
Qed.

Lemma fill_count g slots pubs s' :
  fill g slots pubs = Ok s' ->
  length s' = length slots /\ (count_set s' = count_set slots + length pubs)%nat.
Proof.
  revert slots; induction pubs as [|p ps IH]; intros slots H; cbn [fill] in H.
  - inversion H; subst. cbn. split; [reflexivity|lia].
  - destruct (g && pub_malformed (Z.of_nat (length slots)) p); [discriminate|].
    destruct p as [m|]; [|discriminate]. cbn [go_deref res_bind] in H.
    unfold go_index in H.
    destruct ((pm_index m <? 0) || (Z.of_nat (length slots) <=? pm_index m)) eqn:Er; [discriminate|].
    destruct (nth_error slots (Z.to_nat (pm_index m))) as [cur|] eqn:En; [|discriminate].
    cbn [res_bind] in H. destruct cur; [discriminate|].
    destruct (pm_key m) as [k|]; [|discriminate]. cbn [go_deref res_bind] in H.
    destruct k as [z|]; [|discriminate].
    apply IH in H. destruct H as [H1 H2]. rewrite set_nth_length in H1.
    rewrite (count_set_set_nth _ _ _ En) in H2. cbn [length]. split; [exact H1|lia].
Qed.

Lemma filter_len_le {A} (f : A -> bool) l : (length (filter f l) <= length l)%nat.
Proof. induction l as [|h t IH]; cbn; [lia|]. destruct (f h); cbn; lia. Qed.

Lemma count_full_all_set slots :
  count_set slots = length slots -> Forall (fun s => s <> None) slots.
Proof.
  unfold count_set. induction slots as [|h t IH]; intros H; [constructor|].
  cbn in H. destruct h.
  - cbn in H. constructor; [discriminate|]. apply IH. lia.
  - exfalso. pose proof (filter_len_le (fun s : option Z => match s with Some _ => true | None => false end) t). lia.
Qed.

Lemma count_set_repeat n : count_set (repeat None n) = 0%nat.
Proof. unfold count_set. induction n; cbn; auto. Qed.

Lemma find_own_all_set own slots : Forall (fun s => s <> None) slots -> find_own own slots <> Panic.
Proof.
  induction 1 as [|h t Hh Ht IH]; cbn; [discriminate|].
  destruct h; [|congruence]. destruct (z =? own); [discriminate|exact IH].
Qed.

(* every batch the pipeline can hand to genDistKeyGenerator has exactly n messages *)
Theorem gen_pubs_no_panic n own pubs :
  0 <= n -> Z.of_nat (length pubs) = n -> Forall pub_unsigned pubs -> gen_pubs n own pubs <> Panic.
Proof.
  intros Hn Hl HU. unfold gen_pubs, gen_pubs_with.
  destruct (fill true (repeat None (Z.to_nat n)) pubs) as [slots| |] eqn:Ef; cbn [res_bind]; try discriminate.
  - pose proof (fill_count _ _ _ _ Ef) as [H1 H2].
    rewrite repeat_length in H1. rewrite count_set_repeat in H2.
    assert (Hall : Forall (fun s => s <> None) slots) by (apply count_full_all_set; lia).
    destruct (find_own own slots) as [f| |] eqn:Eo; cbn [res_bind]; try discriminate.
    + destruct f; discriminate.
    + exfalso. exact (find_own_all_set _ _ Hall Eo).
  - exfalso. exact (fill_guarded_no_panic _ _ HU Ef).
Qed.

(* what an accepted batch looks like: every message is well formed, in range, decodable, and
   sits at its own index *)
Lemma fill_keeps g slots pubs s' i z :
  fill g slots pubs = Ok s' -> nth_error slots i = Some (Some z) -> nth_error s' i = Some (Some z).
Proof.
  revert slots; induction pubs as [|p ps IH]; intros slots H Hn; cbn [fill] in H.
  - inversion H; subst; exact Hn.
  - destruct (g && pub_malformed (Z.of_nat (length slots)) p); [discriminate|].
    destruct p as [m|]; [|discriminate]. cbn [go_deref res_bind] in H.
    unfold go_index in H.
    destruct ((pm_index m <? 0) || (Z.of_nat (length slots) <=? pm_index m)) eqn:Er; [discriminate|].
    destruct (nth_error slots (Z.to_nat (pm_index m))) as [cur|] eqn:En; [|discriminate].
    cbn [res_bind] in H. destruct cur; [discriminate|].
    destruct (pm_key m) as [k|]; [|discriminate]. cbn [go_deref res_bind] in H.
    destruct k as [z'|]; [|discriminate].
    apply IH in H; [exact H|].
    rewrite nth_set_nth_other; [exact Hn|]. intros Heq. rewrite Heq in En. congruence.
Qed.

Theorem fill_ok_sound g slots pubs s' :
  fill g slots pubs = Ok s' ->
  Forall (fun p => exists m z, p = Some m /\ 0 <= pm_index m < Z.of_nat (length slots) /\
                               pm_key m = Some (KGood z) /\
                               nth_error s' (Z.to_nat (pm_index m)) = Some (Some z)) pubs.
Proof.
  revert slots; induction pubs as [|p ps IH]; intros slots H; cbn [fill] in H; [constructor|].
  destruct (g && pub_malformed (Z.of_nat (length slots)) p); [discriminate|].
  destruct p as [m|]; [|discriminate]. cbn [go_deref res_bind] in H.
  unfold go_index in H.
  destruct ((pm_index m <? 0) || (Z.of_nat (length slots) <=? pm_index m)) eqn:Er; [discriminate|].
  destruct (nth_error slots (Z.to_nat (pm_index m))) as [cur|] eqn:En; [|discriminate].
  cbn [res_bind] in H. destruct cur; [discriminate|].
  destruct (pm_key m) as [k|] eqn:Ek; [|discriminate]. cbn [go_deref res_bind] in H.
  destruct k as [z|]; [|discriminate].
  apply orb_false_iff in Er. destruct Er as [E1 E2].
  assert (Hr : 0 <= pm_index m < Z.of_nat (length slots)) by lia.
  constructor.
  - exists m, z. repeat split; try lia; auto.
    eapply fill_keeps; [exact H|]. apply nth_set_nth_same. lia.
  - apply IH in H. rewrite set_nth_length in H. exact H.
Qed.

(* the unguarded loop does panic: an index equal to the group size, or an absent key *)
Example gen_pubs_old_panics_index :
  gen_pubs_old 3 7 [Some (mkpub 0 (Some (KGood 7))); Some (mkpub 1 (Some (KGood 8))); Some (mkpub 3 (Some (KGood 9)))] = Panic.
Proof. vm_compute. reflexivity. Qed.

Example gen_pubs_old_panics_nil_key :
  gen_pubs_old 3 7 [Some (mkpub 0 (Some (KGood 7))); Some (mkpub 1 (Some (KGood 8))); Some (mkpub 2 None)] = Panic.
Proof. vm_compute. reflexivity. Qed.

Example gen_pubs_accepts_honest :
  gen_pubs 3 7 [Some (mkpub 2 (Some (KGood 9))); Some (mkpub 0 (Some (KGood 7))); Some (mkpub 1 (Some (KGood 8)))]
  = Ok [Some 7; Some 8; Some 9].
Proof. vm_compute. reflexivity. Qed.

(* ---------------------------------------------------------------- packets, handshake, gossip *)

Theorem decode_pkt_no_panic p : decode_pkt p <> Panic.
Proof.
  unfold decode_pkt, decode_pkt_with, decode_bytes_with.
  destruct (p_unmarshal_ok p); cbn; [|discriminate].
  destruct (p_any p) as [a|]; cbn; [|discriminate].
  destruct (p_sig_ok p); cbn; [|discriminate].
  destruct (a_known a); cbn; discriminate.
Qed.

Theorem decode_bytes_no_panic vf p : decode_bytes_with true vf p <> Panic.
Proof.
  unfold decode_bytes_with.
  destruct (p_unmarshal_ok p); cbn; [|discriminate].
  destruct (p_any p) as [a|]; cbn; [|discriminate].
  destruct vf; cbn.
  - destruct (p_sig_ok p); cbn; [|discriminate]. destruct (a_known a); discriminate.
  - destruct (a_known a); discriminate.
Qed.

Example decode_pkt_old_panics : decode_pkt_old (mkpkt true None true) = Panic.
Proof. vm_compute. reflexivity. Qed.

Theorem handshake_no_panic isid k : handshake isid k <> Panic.
Proof. destruct isid, k; vm_compute; discriminate. Qed.

Theorem handshake_accepts_exactly isid k : handshake isid k = Ok tt <-> (isid = true /\ k = HPoint).
Proof. destruct isid, k; vm_compute; split; intros H; try discriminate; try (destruct H; discriminate); auto. Qed.

Example handshake_old_panics : handshake_old true HIdentity = Panic.
Proof. vm_compute. reflexivity. Qed.

Theorem gossip_name_no_panic name : gossip_name name <> Panic.
Proof.
  unfold gossip_name, gossip_name_with. cbn [andb].
  destruct (Z.of_nat (length name) <? 20) eqn:E; [discriminate|].
  destruct (go_slice_ok_spec name 0 20) as [r Hr]; [lia|lia|]. rewrite Hr. discriminate.
Qed.

Theorem gossip_name_spec name :
  gossip_name name = if Z.of_nat (length name) <? 20 then Ok None else Ok (Some (firstn 20 name)).
Proof.
  unfold gossip_name, gossip_name_with. cbn [andb].
  destruct (Z.of_nat (length name) <? 20) eqn:E; [reflexivity|].
  unfold go_slice, go_slice_ok.
  destruct (20 <=? Z.of_nat (length name)) eqn:E2; [|lia]. reflexivity.
Qed.

Example gossip_name_old_panics : gossip_name_old [1%N; 2%N] = Panic.
Proof. vm_compute. reflexivity. Qed.

(* ---------------------------------------------------------------- the dispatcher *)

Lemma zlookup_zremove {A} k k' (m : list (Z * A)) :
  zlookup k (zremove k' m) = if k =? k' then None else zlookup k m.
Proof.
  induction m as [|[k0 v] m IH]; cbn; [destruct (k =? k'); reflexivity|].
  destruct (k' =? k0) eqn:E1.
  - rewrite IH. destruct (k =? k') eqn:E2; [reflexivity|].
    destruct (k =? k0) eqn:E3; [lia|reflexivity].
  - cbn. destruct (k =? k0) eqn:E3.
    + destruct (k =? k') eqn:E2; [lia|reflexivity].
    + exact IH.
Qed.

Lemma zlookup_zupdate {A} k k' v (m : list (Z * A)) :
  zlookup k (zupdate k' v m) = if k =? k' then Some v else zlookup k m.
Proof.
  unfold zupdate. cbn. destruct (k =? k') eqn:E; [reflexivity|].
  rewrite zlookup_zremove, E. reflexivity.
Qed.

Theorem disp_step_no_panic s e : disp_step s e <> Panic.
Proof.
  destruct e as [sid m|sid n h]; cbn [disp_step].
  - destruct (item_dropped m); [discriminate|].
    destruct (existsb (item_dup m) (dbuf_of s sid)); [discriminate|].
    destruct (Z.of_nat (length (dbuf_of s sid ++ [m])) =? dneed s sid) eqn:E; [|discriminate].
    unfold dneed in E. destruct (zlookup sid (dreq s)) as [[n h]|] eqn:El.
    + cbn. discriminate.
    + exfalso. apply Z.eqb_eq in E. rewrite app_length, Nat2Z.inj_add in E. cbn [length] in E. lia.
  - destruct (Z.of_nat (length (dbuf_of s sid)) =? n); discriminate.
Qed.

Lemma disp_step_total s e : exists s' o, disp_step s e = Ok (s', o).
Proof.
  destruct e as [sid m|sid n h]; cbn [disp_step].
  - destruct (item_dropped m); [eauto|].
    destruct (existsb (item_dup m) (dbuf_of s sid)); [eauto|].
    destruct (Z.of_nat (length (dbuf_of s sid ++ [m])) =? dneed s sid) eqn:E; [|eauto].
    unfold dneed in E. destruct (zlookup sid (dreq s)) as [[n h]|] eqn:El.
    + cbn. eauto.
    + exfalso. apply Z.eqb_eq in E. rewrite app_length, Nat2Z.inj_add in E. cbn [length] in E. lia.
  - destruct (Z.of_nat (length (dbuf_of s sid)) =? n); eauto.
Qed.

Theorem disp_run_total s es : exists s' o, disp_run s es = Ok (s', o).
Proof.
  revert s; induction es as [|e es IH]; intros s; cbn [disp_run]; [eauto|].
  destruct (disp_step_total s e) as [s1 [o1 H1]]. rewrite H1. cbn [res_bind fst snd].
  destruct (IH s1) as [s2 [o2 H2]]. rewrite H2. cbn. eauto.
Qed.

(* what the dispatcher holds for one session *)
Definition proj (s : dst) (sid : Z) : list item * option (Z * Z) := (dbuf_of s sid, zlookup sid (dreq s)).

Definition for_sid (sid : Z) (o : list (Z * (Z * list item))) := filter (fun d => fst d =? sid) o.

Lemma step_frame s e sid s' o :
  dev_sid e <> sid -> disp_step s e = Ok (s', o) -> proj s' sid = proj s sid /\ for_sid sid o = [].
Proof.
  intros Hne H. unfold proj.
  destruct e as [k m|k n h]; cbn [disp_step dev_sid] in *.
  - destruct (item_dropped m); [inversion H; subst; auto|].
    destruct (existsb (item_dup m) (dbuf_of s k)); [inversion H; subst; auto|].
    destruct (Z.of_nat (length (dbuf_of s k ++ [m])) =? dneed s k).
    + destruct (zlookup k (dreq s)) as [r|]; cbn in H; [|discriminate].
      inversion H; subst; clear H. unfold dbuf_of; cbn.
      rewrite !zlookup_zremove. destruct (sid =? k) eqn:E; [lia|].
      split; [reflexivity|]. destruct (k =? sid) eqn:E2; [lia|reflexivity].
    + inversion H; subst; clear H. unfold dbuf_of; cbn.
      rewrite zlookup_zremove. destruct (sid =? k) eqn:E; [lia|]. auto.
  - destruct (Z.of_nat (length (dbuf_of s k)) =? n).
    + inversion H; subst; clear H. unfold dbuf_of; cbn.
      rewrite !zlookup_zremove. destruct (sid =? k) eqn:E; [lia|].
      split; [reflexivity|]. destruct (k =? sid) eqn:E2; [lia|reflexivity].
    + inversion H; subst; clear H. unfold dbuf_of; cbn.
      rewrite zlookup_zremove. destruct (sid =? k) eqn:E; [lia|]. auto.
Qed.

Lemma step_same s1 s2 e sid s1' o1 :
  dev_sid e = sid -> proj s1 sid = proj s2 sid -> disp_step s1 e = Ok (s1', o1) ->
  exists s2', disp_step s2 e = Ok (s2', o1) /\ proj s1' sid = proj s2' sid /\ for_sid sid o1 = o1.
Proof.
  intros He Hp H. unfold proj in Hp. inversion Hp as [[Hb Hr]]; clear Hp.
  destruct e as [k m|k n h]; cbn [dev_sid] in He; subst k; cbn [disp_step] in *.
  - rewrite <- Hb. unfold dneed in *. rewrite <- Hr.
    destruct (item_dropped m); [inversion H; subst; eexists; split; [reflexivity|]; unfold proj; rewrite Hb, Hr; auto|].
    destruct (existsb (item_dup m) (dbuf_of s1 sid)); [inversion H; subst; eexists; split; [reflexivity|]; unfold proj; rewrite Hb, Hr; auto|].
    destruct (Z.of_nat (length (dbuf_of s1 sid ++ [m])) =? match zlookup sid (dreq s1) with Some (n, _) => n | None => 0 end).
    + destruct (zlookup sid (dreq s1)) as [r|]; cbn in H; [|discriminate]. cbn.
      inversion H; subst; clear H. eexists; split; [reflexivity|].
      unfold proj, dbuf_of; cbn. rewrite !zlookup_zremove, Z.eqb_refl. auto.
    + inversion H; subst; clear H. eexists; split; [reflexivity|].
      unfold proj, dbuf_of; cbn. rewrite !Z.eqb_refl. rewrite Hr. auto.
  - rewrite <- Hb.
    destruct (Z.of_nat (length (dbuf_of s1 sid)) =? n).
    + inversion H; subst; clear H. eexists; split; [reflexivity|].
      unfold proj, dbuf_of; cbn. rewrite !zlookup_zremove, Z.eqb_refl. auto.
    + inversion H; subst; clear H. eexists; split; [reflexivity|].
      unfold proj. cbn. rewrite !Z.eqb_refl.
      change (dbuf_of s1 sid = dbuf_of s2 sid) in Hb. unfold dbuf_of in *. cbn. rewrite Hb. auto.
Qed.

Lemma for_sid_app sid a b : for_sid sid (a ++ b) = for_sid sid a ++ for_sid sid b.
Proof. unfold for_sid. apply filter_app. Qed.

(* What a session receives from the dispatcher is a function of the events of that session
   alone: the messages, requests, malformed or surplus input of every other session can be
   deleted from the history without changing a single batch delivered to this one. *)
Theorem disp_sessions_independent sid es : forall s1 s2 s1' o1,
  proj s1 sid = proj s2 sid ->
  disp_run s1 es = Ok (s1', o1) ->
  exists s2', disp_run s2 (filter (fun e => dev_sid e =? sid) es) = Ok (s2', for_sid sid o1)
              /\ proj s1' sid = proj s2' sid.
Proof.
  induction es as [|e es IH]; intros s1 s2 s1' o1 Hp H; cbn [disp_run filter] in *.
  - inversion H; subst. exists s2. split; [reflexivity|exact Hp].
  - destruct (disp_step s1 e) as [[sa oa]| |] eqn:E1; cbn [res_bind fst snd] in H; try discriminate.
    destruct (disp_run sa es) as [[sb ob]| |] eqn:E2; cbn [res_bind fst snd] in H; try discriminate.
    inversion H; subst; clear H. rewrite for_sid_app.
    destruct (dev_sid e =? sid) eqn:Es.
    + assert (Hs : dev_sid e = sid) by lia.
      destruct (step_same _ _ _ _ _ _ Hs Hp E1) as [s2a [Hstep [Hp' Hf]]].
      destruct (IH _ _ _ _ Hp' E2) as [s2b [Hrun Hp'']].
      cbn [disp_run]. rewrite Hstep. cbn [res_bind fst snd]. rewrite Hrun. cbn [res_bind fst snd].
      rewrite Hf. eauto.
    + assert (Hs : dev_sid e <> sid) by lia.
      destruct (step_frame _ _ _ _ _ Hs E1) as [Hp' Hf].
      rewrite Hf. cbn [app]. apply (IH sa s2 s1' ob); [congruence|exact E2].
Qed.
