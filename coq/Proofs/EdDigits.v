(* EdDigits.v -- C20: the signed radix-16 recoding of geScalarMult (Models/Ed.v: nybbles, recode,
   digits_msf) represents the scalar - sum e_i 16^i = a - and every digit lies in -8..8 (the range
   selectCached and the table 1A..8A cover), for every scalar below 2^255. *)
From Coq Require Import ZArith List Lia.
From DosVerif Require Import Base.Val Models.Ed.
Import ListNotations.
Open Scope Z_scope.

Fixpoint eval_lsf (ds : list Z) : Z :=
  match ds with [] => 0 | e :: r => e + 16 * eval_lsf r end.

Lemma nybbles_eval : forall n a, 0 <= a < 16 ^ Z.of_nat n -> eval_lsf (nybbles n a) = a.
Proof.
  induction n as [|n IH]; intros a H.
  - cbn in *. lia.
  - cbn [nybbles eval_lsf]. rewrite Nat2Z.inj_succ, Z.pow_succ_r in H by lia.
    rewrite IH.
    + pose proof (Z.div_mod a 16 ltac:(lia)). lia.
    + split; [apply Z.div_pos; lia|apply Z.div_lt_upper_bound; lia].
Qed.

Lemma nybbles_range : forall n a, Forall (fun e => 0 <= e < 16) (nybbles n a).
Proof.
  induction n as [|n IH]; intros a; cbn [nybbles]; constructor; [|apply IH].
  apply Z.mod_pos_bound. lia.
Qed.

Lemma nybbles_length : forall n a, length (nybbles n a) = n.
Proof. induction n as [|n IH]; intros a; cbn; [reflexivity|rewrite IH; reflexivity]. Qed.

Lemma recode_cons e e' r carry :
  recode (e :: e' :: r) carry
  = (e + carry - (e + carry + 8) / 16 * 16) :: recode (e' :: r) ((e + carry + 8) / 16).
Proof. reflexivity. Qed.

(* the carry pass keeps the value *)
Lemma recode_eval : forall es carry, es <> [] -> eval_lsf (recode es carry) = eval_lsf es + carry.
Proof.
  induction es as [|e rest IH]; intros carry H; [contradiction|].
  destruct rest as [|e' rest'].
  - cbn. lia.
  - rewrite recode_cons. cbn [eval_lsf]. rewrite IH by discriminate. cbn [eval_lsf]. lia.
Qed.

Lemma recode_length : forall es carry, length (recode es carry) = length es.
Proof.
  induction es as [|e rest IH]; intros carry; [reflexivity|].
  destruct rest as [|e' rest']; [reflexivity|]. rewrite recode_cons. cbn [length]. rewrite IH. reflexivity.
Qed.

(* the top nybble of the input *)
Fixpoint last_of (l : list Z) : Z := match l with [] => 0 | [e] => e | _ :: r => last_of r end.

(* digits: all in -8..8 provided the input nybbles are in 0..15, the incoming carry is 0 or 1 and the
   top nybble is at most 7 *)
Lemma recode_range : forall es carry,
  Forall (fun e => 0 <= e < 16) es -> 0 <= carry <= 1 -> last_of es <= 7 ->
  Forall (fun d => -8 <= d <= 8) (recode es carry).
Proof.
  induction es as [|e rest IH]; intros carry He Hc Hl; [constructor|].
  inversion He as [|? ? He1 He2]; subst.
  destruct rest as [|e' rest'].
  - cbn in *. constructor; [lia|constructor].
  - rewrite recode_cons.
    assert (Hq : 0 <= (e + carry + 8) / 16 <= 1).
    { split; [apply Z.div_pos; lia|]. assert ((e + carry + 8) / 16 < 2) by (apply Z.div_lt_upper_bound; lia). lia. }
    constructor.
    + pose proof (Z.div_mod (e + carry + 8) 16 ltac:(lia)) as E.
      pose proof (Z.mod_pos_bound (e + carry + 8) 16 ltac:(lia)) as M. lia.
    + apply IH; [exact He2|exact Hq|exact Hl].
Qed.

Lemma nybbles_last : forall n a, 0 <= a < 16 ^ Z.of_nat (S n) ->
  last_of (nybbles (S n) a) = a / 16 ^ Z.of_nat n.
Proof.
  induction n as [|n IH]; intros a H.
  - cbn in *. rewrite Z.div_1_r. apply Z.mod_small. lia.
  - change (nybbles (S (S n)) a) with (a mod 16 :: nybbles (S n) (a / 16)).
    assert (Hn : nybbles (S n) (a / 16) <> []) by (cbn; discriminate).
    cbn [last_of]. destruct (nybbles (S n) (a / 16)) as [|x r] eqn:E; [contradiction|].
    rewrite <- E. rewrite IH.
    + rewrite Z.div_div by lia. f_equal. rewrite (Nat2Z.inj_succ n), Z.pow_succ_r by lia. reflexivity.
    + rewrite !Nat2Z.inj_succ, !Z.pow_succ_r in * by lia.
      split; [apply Z.div_pos; lia|apply Z.div_lt_upper_bound; lia].
Qed.

(* ---------------------------------------------------------------- the theorem *)

Theorem digits_represent (a : Z) :
  0 <= a < 2 ^ 255 ->
  eval_lsf (rev (digits_msf a)) = a /\
  length (digits_msf a) = 64%nat /\
  Forall (fun d => -8 <= d <= 8) (digits_msf a).
Proof.
  intros H. unfold digits_msf. rewrite rev_involutive.
  assert (H16 : 0 <= a < 16 ^ Z.of_nat 64) by (change (16 ^ Z.of_nat 64) with (2 ^ 256); lia).
  split; [|split].
  - rewrite recode_eval by (cbn; discriminate). rewrite nybbles_eval by exact H16. lia.
  - rewrite rev_length, recode_length, nybbles_length. reflexivity.
  - apply Forall_rev. apply recode_range; [apply nybbles_range|lia|].
    rewrite (nybbles_last 63 a H16). change (16 ^ Z.of_nat 63) with (2 ^ 252).
    assert (a / 2 ^ 252 < 8) by (apply Z.div_lt_upper_bound; lia). lia.
Qed.
