(* ShareProofs.v -- the model of share/poly.go meets the algebra: C09 (and the facts C02/C03 use). *)
From Coq Require Import ZArith List Bool Lia Field.
From DosVerif Require Import Base.Val Base.Field Models.Share Proofs.PolyLemmas Proofs.Lagrange.
Import ListNotations.

Section ShareProofs.
Context {F G : Type}.
Variable O : Fops F.
Variable M : Gops F G.
Hypothesis L : Flaws O.
Hypothesis GL : Glaws O M.
Variable nmax : Z.
Hypothesis NL : NodeLaws O nmax.
Variable d0 : bool.   (* div0_panics: the theorems hold for either behaviour *)

Notation "0" := (f0 O). Notation "1" := (f1 O).
Infix "+" := (fadd O). Infix "*" := (fmul O). Infix "-" := (fsub O).
Notation "/ x" := (finv O x).
Notation hor := (horner O).
Notation fsum := (fsum O). Notation fprod := (fprod O).
Notation node := (node O).
Notation eval := (eval O).

Add Field Ff3 : (Fth O L).

(* ---------------------------------------------------------------- generic fold lemmas *)

Lemma fold_left_ext_in {A B} (g h : B -> A -> B) l b :
  (forall b e, In e l -> g b e = h b e) -> fold_left g l b = fold_left h l b.
Proof.
  revert b; induction l as [|e l IH]; intros b H; [reflexivity|]. cbn [fold_left].
  rewrite (H b e (or_introl eq_refl)). apply IH. intros b' e' He'. apply H. right; exact He'.
Qed.

Lemma fold_left_skip {A B} (g : B -> A -> B) (skip : A -> bool) l b :
  fold_left (fun b e => if skip e then b else g b e) l b
  = fold_left g (filter (fun e => negb (skip e)) l) b.
Proof.
  revert b; induction l as [|e l IH]; intros b; [reflexivity|]. cbn [fold_left filter].
  destruct (skip e); cbn [negb]; [apply IH|]. cbn [fold_left]. apply IH.
Qed.

Lemma map_filter_commute {A B} (f : A -> B) (g : A -> bool) (h : B -> bool) l :
  (forall e, In e l -> g e = h (f e)) -> map f (filter g l) = filter h (map f l).
Proof.
  induction l as [|e l IH]; intros H; [reflexivity|]. cbn [filter map].
  rewrite <- (H e (or_introl eq_refl)). destruct (g e); cbn [map]; rewrite IH; try reflexivity;
  intros e' He'; apply H; right; exact He'.
Qed.

Lemma NoDup_map_inj {A B} (f : A -> B) l a b :
  NoDup (map f l) -> In a l -> In b l -> f a = f b -> a = b.
Proof.
  induction l as [|x l IH]; intros Hnd Ha Hb E; [destruct Ha|].
  cbn [map] in Hnd. inversion Hnd as [|? ? Hnx Hnd']; subst.
  destruct Ha as [->|Ha], Hb as [->|Hb]; try reflexivity.
  - exfalso. apply Hnx. rewrite E. apply in_map. exact Hb.
  - exfalso. apply Hnx. rewrite <- E. apply in_map. exact Ha.
  - apply IH; assumption.
Qed.

(* ---------------------------------------------------------------- entries *)

Section Entries.
Context {V : Type}.
Definition epos (e : nat * F * V) : nat := fst (fst e).
Definition ex (e : nat * F * V) : F := snd (fst e).
Definition ev (e : nat * F * V) : V := snd e.

Definition others (xs : list (nat * F * V)) (p : nat) : list (nat * F * V) :=
  filter (fun e => negb (Nat.eqb (epos e) p)) xs.

Lemma lag_num_spec (xs : list (nat * F * V)) p s :
  lag_num O xs p s = s * fprod (map ex (others xs p)).
Proof.
  unfold lag_num.
  rewrite (fold_left_ext_in _ (fun acc e => if Nat.eqb (epos e) p then acc else acc * ex e)).
  - rewrite (fold_left_skip (fun acc e => acc * ex e) (fun e => Nat.eqb (epos e) p)).
    rewrite (fold_left_mul O L). unfold others. reflexivity.
  - intros b [[p' x] v] _. reflexivity.
Qed.

Lemma lag_den_spec (xs : list (nat * F * V)) p xi :
  lag_den O xs p xi = fprod (map (fun x => x - xi) (map ex (others xs p))).
Proof.
  unfold lag_den.
  rewrite (fold_left_ext_in _ (fun acc e => if Nat.eqb (epos e) p then acc else acc * (ex e - xi))).
  - rewrite (fold_left_skip (fun acc e => acc * (ex e - xi)) (fun e => Nat.eqb (epos e) p)).
    rewrite (fold_left_mul O L). rewrite map_map. unfold others. ring.
  - intros b [[p' x] v] _. reflexivity.
Qed.

Definition wf_entries (xs : list (nat * F * V)) : Prop :=
  NoDup (map epos xs) /\ NoDup (map ex xs).

Lemma others_rm xs e : wf_entries xs -> In e xs ->
  map ex (others xs (epos e)) = rm O (ex e) (map ex xs).
Proof.
  intros [Hp Hx] He. unfold others, rm. apply map_filter_commute.
  intros e' He'. f_equal.
  destruct (Nat.eqb (epos e') (epos e)) eqn:E1.
  - apply Nat.eqb_eq in E1. assert (e' = e) as -> by (apply (NoDup_map_inj epos xs e' e Hp He' He E1)).
    symmetry. apply (feqb_true O L). reflexivity.
  - symmetry. apply (feqb_false O L). intros E2.
    assert (e' = e) as -> by (apply (NoDup_map_inj ex xs e' e Hx He' He E2)).
    apply Nat.eqb_neq in E1. congruence.
Qed.

End Entries.

(* ---------------------------------------------------------------- Lagrange weights at 0 *)

Lemma weight_at_0 (l : list F) (a : F) :
  (forall m, In m l -> a - m <> 0) ->
  fprod l * / fprod (map (fun m => m - a) l)
  = fprod (map (fun m => / (a - m)) l) * fprod (map (fun m => 0 - m) l).
Proof.
  induction l as [|m l IH]; intros H; unfold PolyLemmas.fprod; cbn [map fold_right].
  - field. apply (one_neq_zero O L).
  - fold (fprod l). fold (fprod (map (fun m => m - a) l)).
    fold (fprod (map (fun m => / (a - m)) l)). fold (fprod (map (fun m => 0 - m) l)).
    assert (Ham : a - m <> 0) by (apply H; left; reflexivity).
    assert (Hma : m - a <> 0).
    { intros E. apply Ham. apply (proj2 (sub_eq_0 O L a m)). symmetry. apply (proj1 (sub_eq_0 O L m a)). exact E. }
    assert (HB : fprod (map (fun m => m - a) l) <> 0).
    { apply (fprod_neq_0 O L). intros y Hy. apply in_map_iff in Hy. destruct Hy as [z [<- Hz]].
      intros E. apply (H z (or_intror Hz)). apply (proj2 (sub_eq_0 O L a z)). symmetry. apply (proj1 (sub_eq_0 O L z a)). exact E. }
    transitivity ((m * / (m - a)) * (fprod l * / fprod (map (fun m => m - a) l))).
    { field. split; assumption. }
    rewrite IH by (intros z Hz; apply H; right; exact Hz).
    field. split; assumption.
Qed.

Lemma den_neq_0 (xl : list F) (a : F) :
  fprod (map (fun m => m - a) (rm O a xl)) <> 0.
Proof.
  apply (fprod_neq_0 O L). intros y Hy. apply in_map_iff in Hy. destruct Hy as [z [<- Hz]].
  apply (rm_in O L) in Hz. rewrite (sub_eq_0 O L). tauto.
Qed.

(* the scalar weight RecoverSecret / RecoverCommit use for entry e *)
Definition weight {V} (xs : list (nat * F * V)) (e : nat * F * V) : F :=
  lag_num O xs (epos e) 1 * / lag_den O xs (epos e) (ex e).

Lemma weight_spec {V} (xs : list (nat * F * V)) e : wf_entries xs -> In e xs ->
  let xl := map ex xs in
  weight xs e = lag_coef O xl (ex e) * hor (lag_basis O xl (ex e)) 0
  /\ lag_den O xs (epos e) (ex e) <> 0.
Proof.
  intros Hwf He xl. unfold weight. rewrite lag_num_spec, lag_den_spec, (others_rm xs e Hwf He).
  fold xl. split; [|apply den_neq_0].
  unfold lag_coef, lag_basis. rewrite (hor_prod_lin O L).
  transitivity (fprod (rm O (ex e) xl) * / fprod (map (fun m => m - ex e) (rm O (ex e) xl))); [ring|].
  apply weight_at_0. intros m Hm. apply (rm_in O L) in Hm. rewrite (sub_eq_0 O L).
  intros E. symmetry in E. tauto.
Qed.

(* Σ weight_e * v_e = f(0), for entries of any payload type with a scalar reading [val] *)
Theorem weights_interpolate {V} (f : list F) (xs : list (nat * F * V)) (val : nat * F * V -> F) :
  wf_entries xs -> (length f <= length xs)%nat ->
  (forall e, In e xs -> val e = hor f (ex e)) ->
  fsum (map (fun e => val e * weight xs e) xs) = hd 0 f.
Proof.
  intros Hwf Hlen Hv.
  set (pts := map (fun e => (ex e, val e)) xs).
  assert (Hxl : map fst pts = map ex xs) by (unfold pts; rewrite map_map; reflexivity).
  rewrite <- (hor_0 O L f).
  rewrite <- (lagrange_interpolates O L f pts).
  - rewrite (hor_lag_poly O L). rewrite Hxl. unfold pts. rewrite map_map. f_equal.
    apply map_ext_in. intros e He. rewrite (hor_lag_term O L). cbn [fst snd].
    destruct (weight_spec xs e Hwf He) as [-> _]. ring.
  - rewrite Hxl. exact (proj2 Hwf).
  - rewrite Hxl, map_length. exact Hlen.
  - intros xv Hxv. unfold pts in Hxv. apply in_map_iff in Hxv. destruct Hxv as [e [<- He]].
    cbn [fst snd]. apply Hv. exact He.
Qed.

(* ---------------------------------------------------------------- xScalar *)

Definition next_limit (limit : option nat) : option nat :=
  match limit with Some (S k) => Some k | _ => limit end.

(* the (index, value) pairs xScalar keeps, in order *)
Fixpoint kept {V} (sh : list (pshare V)) (n : Z) (limit : option nat) : list (Z * V) :=
  match limit with
  | Some 0%nat => []
  | _ =>
    match sh with
    | [] => []
    | s :: rest =>
      match s with
      | Some (i, Some v) =>
        if (0 <=? i)%Z && (i <? n)%Z then (i, v) :: kept rest n (next_limit limit)
        else kept rest n limit
      | _ => kept rest n limit
      end
    end
  end.

Lemma usable_kept {V} (sh : list (pshare V)) n pos limit :
  map (fun e => (ex e, ev e)) (usable O sh n pos limit)
  = map (fun iv => (node (fst iv), snd iv)) (kept sh n limit).
Proof.
  revert pos limit; induction sh as [|s sh IH]; intros pos limit.
  - destruct limit as [[|k]|]; reflexivity.
  - destruct limit as [[|k]|]; [reflexivity| |].
    + cbn [usable kept]. destruct s as [[i [v|]]|]; try apply IH.
      destruct ((0 <=? i)%Z && (i <? n)%Z); [|apply IH].
      cbn [map next_limit]. f_equal. apply IH.
    + cbn [usable kept]. destruct s as [[i [v|]]|]; try apply IH.
      destruct ((0 <=? i)%Z && (i <? n)%Z); [|apply IH].
      cbn [map next_limit]. f_equal. apply IH.
Qed.

Lemma usable_pos_ge {V} (sh : list (pshare V)) n pos limit e :
  In e (usable O sh n pos limit) -> (pos <= epos e)%nat.
Proof.
  revert pos limit; induction sh as [|s sh IH]; intros pos limit He.
  - destruct limit as [[|k]|]; destruct He.
  - assert (Hrec : forall lim', In e (usable O sh n (S pos) lim') -> (pos <= epos e)%nat).
    { intros lim' H. apply IH in H. lia. }
    destruct limit as [[|k]|]; [destruct He| |]; cbn [usable] in He;
      destruct s as [[i [v|]]|]; try (eapply Hrec; exact He);
      destruct ((0 <=? i)%Z && (i <? n)%Z); try (eapply Hrec; exact He);
      (destruct He as [<-|He]; [cbn; lia|eapply Hrec; exact He]).
Qed.

Lemma usable_pos_nodup {V} (sh : list (pshare V)) n pos limit :
  NoDup (map epos (usable O sh n pos limit)).
Proof.
  revert pos limit; induction sh as [|s sh IH]; intros pos limit.
  - destruct limit as [[|k]|]; constructor.
  - destruct limit as [[|k]|]; [constructor| |]; cbn [usable];
      destruct s as [[i [v|]]|]; try apply IH;
      destruct ((0 <=? i)%Z && (i <? n)%Z); try apply IH;
      (cbn [map]; constructor; [|apply IH]; intros Hin; apply in_map_iff in Hin;
       destruct Hin as [e [E He]]; apply usable_pos_ge in He; cbn in E; lia).
Qed.

Lemma kept_in_range {V} (sh : list (pshare V)) n limit iv :
  In iv (kept sh n limit) -> (0 <= fst iv < n)%Z.
Proof.
  revert limit; induction sh as [|s sh IH]; intros limit H.
  - destruct limit as [[|k]|]; destruct H.
  - destruct limit as [[|k]|]; [destruct H| |]; cbn [kept] in H;
      destruct s as [[i [v|]]|]; try (eapply IH; exact H);
      destruct ((0 <=? i)%Z && (i <? n)%Z) eqn:E; try (eapply IH; exact H);
      (destruct H as [<-|H]; [cbn [fst]; apply andb_true_iff in E; destruct E as [E1 E2];
         apply Z.leb_le in E1; apply Z.ltb_lt in E2; lia | eapply IH; exact H]).
Qed.

Lemma kept_limit_length {V} (sh : list (pshare V)) n k :
  length (kept sh n (Some k)) = Nat.min k (length (kept sh n None)).
Proof.
  revert k; induction sh as [|s sh IH]; intros k.
  - destruct k; reflexivity.
  - destruct k as [|k]; [reflexivity|]. cbn [kept].
    destruct s as [[i [v|]]|]; try apply IH.
    destruct ((0 <=? i)%Z && (i <? n)%Z); [|apply IH].
    cbn [length next_limit]. rewrite IH. reflexivity.
Qed.

Lemma usable_length {V} (sh : list (pshare V)) n pos limit :
  length (usable O sh n pos limit) = length (kept sh n limit).
Proof.
  rewrite <- (map_length (fun e => (ex e, ev e))), usable_kept, map_length. reflexivity.
Qed.

(* entries built from kept shares whose indices are distinct and in range are well formed *)
Lemma usable_wf {V} (sh : list (pshare V)) n pos limit :
  (n <= nmax)%Z -> NoDup (map fst (kept sh n limit)) -> wf_entries (usable O sh n pos limit).
Proof.
  intros Hn Hnd. split; [apply usable_pos_nodup|].
  assert (E : map ex (usable O sh n pos limit) = map node (map fst (kept sh n limit))).
  { transitivity (map fst (map (fun e : nat * F * V => (ex e, ev e)) (usable O sh n pos limit))).
    - rewrite map_map. reflexivity.
    - rewrite usable_kept, !map_map. reflexivity. }
  rewrite E. clear E.
  assert (Hr : forall i, In i (map fst (kept sh n limit)) -> (0 <= i < nmax)%Z).
  { intros i Hi. apply in_map_iff in Hi. destruct Hi as [iv [<- Hiv]].
    apply kept_in_range in Hiv. lia. }
  induction (map fst (kept sh n limit)) as [|i l IH]; [constructor|].
  inversion Hnd as [|? ? Hni Hnd']; subst. cbn [map]. constructor.
  - intros Hin. apply in_map_iff in Hin. destruct Hin as [j [Ej Hj]].
    apply Hni. assert (j = i) as <-; [|exact Hj].
    apply (node_inj O nmax NL); [apply Hr; right; exact Hj|apply Hr; left; reflexivity|exact Ej].
  - apply IH; [exact Hnd'|]. intros j Hj. apply Hr. right; exact Hj.
Qed.

(* ---------------------------------------------------------------- RecoverSecret *)

Lemma div_chk_ok a b : b <> 0 -> div_chk O d0 a b = Ok (a * / b).
Proof.
  intros Hb. unfold div_chk. destruct (feqb O b 0) eqn:E; [|reflexivity].
  apply (feqb_true O L) in E. contradiction.
Qed.

Lemma fold_res_sum {A} (xs : list A) (num den : A -> F) a :
  (forall e, In e xs -> den e <> 0) ->
  fold_left (fun acc e => res_bind acc (fun a =>
             res_bind (div_chk O d0 (num e) (den e)) (fun t => Ok (a + t)))) xs (Ok a)
  = Ok (a + fsum (map (fun e => num e * / den e) xs)).
Proof.
  revert a; induction xs as [|e xs IH]; intros a H; unfold PolyLemmas.fsum; cbn [fold_left map fold_right].
  - f_equal. ring.
  - cbn [res_bind]. rewrite div_chk_ok by (apply H; left; reflexivity). cbn [res_bind].
    rewrite IH by (intros e' He'; apply H; right; exact He').
    f_equal. unfold PolyLemmas.fsum. ring.
Qed.

Definition limit_of (t : Z) : option nat := if (0 <? t)%Z then Some (Z.to_nat t) else None.

Lemma lag_num_scale {V} (xs : list (nat * F * V)) p s : lag_num O xs p s = s * lag_num O xs p 1.
Proof. rewrite !lag_num_spec. ring. Qed.

Theorem recover_secret_ok (f : list F) (sh : list (pshare F)) (t n : Z) :
  (1 <= t)%Z -> (n <= nmax)%Z -> (length f <= Z.to_nat t)%nat ->
  let k := kept sh n (limit_of t) in
  length k = Z.to_nat t ->
  NoDup (map fst k) ->
  (forall iv, In iv k -> snd iv = eval f (fst iv)) ->
  recover_secret O d0 sh t n = Ok (hd 0 f).
Proof.
  intros Ht Hn Hf k Hk Hnd Hv.
  unfold recover_secret, x_scalar. fold (limit_of t).
  set (xs := usable O sh n 0 (limit_of t)).
  assert (Hlen : length xs = Z.to_nat t) by (unfold xs; rewrite usable_length; exact Hk).
  assert (Hwf : wf_entries xs) by (apply usable_wf; assumption).
  replace (Z.of_nat (length xs) <? t)%Z with false by (symmetry; apply Z.ltb_ge; lia).
  rewrite (fold_left_ext_in _ (fun acc e => res_bind acc (fun a =>
             res_bind (div_chk O d0 (lag_num O xs (epos e) (ev e)) (lag_den O xs (epos e) (ex e)))
                      (fun t => Ok (a + t))))).
  2:{ intros b [[p x] v] _. reflexivity. }
  rewrite fold_res_sum.
  2:{ intros e He. apply (weight_spec xs e Hwf He). }
  f_equal.
  rewrite <- (weights_interpolate f xs ev Hwf).
  - transitivity (fsum (map (fun e => ev e * weight xs e) xs)); [|ring].
    transitivity (0 + fsum (map (fun e => ev e * weight xs e) xs)); [|ring].
    f_equal. f_equal. apply map_ext. intros e. unfold weight. rewrite (lag_num_scale xs (epos e) (ev e)). ring.
  - lia.
  - intros e He.
    pose proof (in_map (fun e : nat * F * F => (ex e, ev e)) xs e He) as Hin. cbv beta in Hin.
    unfold xs in Hin. rewrite usable_kept in Hin. apply in_map_iff in Hin.
    destruct Hin as [iv [E Hiv]]. injection E as E1 E2. rewrite <- E1, <- E2. apply Hv. exact Hiv.
Qed.

Theorem recover_secret_too_few (sh : list (pshare F)) (t n : Z) :
  (Z.of_nat (length (kept sh n None)) < t)%Z -> recover_secret O d0 sh t n = Err.
Proof.
  intros H. unfold recover_secret, x_scalar. fold (limit_of t).
  rewrite usable_length.
  assert (E : (Z.of_nat (length (kept sh n (limit_of t))) <? t)%Z = true).
  { apply Z.ltb_lt. unfold limit_of. destruct (0 <? t)%Z; [|exact H].
    rewrite kept_limit_length. lia. }
  rewrite E. reflexivity.
Qed.

(* ---------------------------------------------------------------- RecoverPriPoly *)

Lemma fold_left_map {A B C} (g : C -> B -> C) (h : A -> B) l c :
  fold_left g (map h l) c = fold_left (fun c e => g c (h e)) l c.
Proof. revert c; induction l as [|e l IH]; intros c; [reflexivity|]. cbn [map fold_left]. apply IH. Qed.

Lemma acc_for_spec (xs : list (nat * F * F)) e : wf_entries xs -> In e xs ->
  acc_for O xs (epos e) (ex e) (ev e) = ev e * lag_coef O (map ex xs) (ex e).
Proof.
  intros Hwf He. unfold acc_for.
  rewrite (fold_left_ext_in _ (fun a e' => if Nat.eqb (epos e') (epos e) then a else a * / (ex e - ex e'))).
  2:{ intros b [[p x] v] _. reflexivity. }
  rewrite (fold_left_skip (fun a e' => a * / (ex e - ex e')) (fun e' => Nat.eqb (epos e') (epos e))).
  rewrite (fold_left_mul O L). fold (others xs (epos e)).
  unfold lag_coef. rewrite <- (others_rm xs e Hwf He), map_map. reflexivity.
Qed.

Lemma basis_for_spec (xs : list (nat * F * F)) e : wf_entries xs -> In e xs ->
  basis_for O xs (epos e) = lag_basis O (map ex xs) (ex e).
Proof.
  intros Hwf He. unfold basis_for.
  rewrite (fold_left_ext_in _ (fun b e' => if Nat.eqb (epos e') (epos e) then b
                                           else pmul O b [fopp O (ex e'); 1])).
  2:{ intros b [[p x] v] _. reflexivity. }
  rewrite (fold_left_skip (fun b e' => pmul O b [fopp O (ex e'); 1]) (fun e' => Nat.eqb (epos e') (epos e))).
  fold (others xs (epos e)).
  unfold lag_basis, prod_lin. rewrite <- (others_rm xs e Hwf He), fold_left_map. reflexivity.
Qed.

Definition optadd (accp : option (list F)) (b : list F) : option (list F) :=
  match accp with None => Some b | Some a => Some (padd O a b) end.

Lemma sum_polys_spec (xs : list (nat * F * F)) : wf_entries xs ->
  sum_polys O xs = fold_left optadd (map (fun e => lag_term O (map ex xs) (ex e, ev e)) xs) None.
Proof.
  intros Hwf. unfold sum_polys. rewrite fold_left_map.
  apply fold_left_ext_in. intros accp e He.
  assert (E : pscale O (acc_for O xs (epos e) (ex e) (ev e)) (basis_for O xs (epos e))
              = lag_term O (map ex xs) (ex e, ev e)).
  { rewrite acc_for_spec, basis_for_spec by assumption. reflexivity. }
  destruct e as [[p x] v]. unfold epos, ex, ev in E. cbn [fst snd] in E. rewrite E. reflexivity.
Qed.

Lemma optadd_fold (ts : list (list F)) (a : list F) (k : nat) :
  length a = k -> (forall b, In b ts -> length b = k) ->
  exists P, fold_left optadd ts (Some a) = Some P /\ length P = k /\
            forall y, hor P y = hor a y + fsum (map (fun b => hor b y) ts).
Proof.
  revert a; induction ts as [|b ts IH]; intros a Ha Hts.
  - exists a. split; [reflexivity|]. split; [exact Ha|]. intros y. unfold PolyLemmas.fsum; cbn. ring.
  - cbn [fold_left optadd].
    destruct (IH (padd O a b)) as [P [E [HP Hh]]].
    + rewrite (padd_length O), Ha, (Hts b (or_introl eq_refl)). lia.
    + intros b' Hb'. apply Hts. right; exact Hb'.
    + exists P. split; [exact E|]. split; [exact HP|]. intros y. rewrite Hh, (hor_padd O L).
      unfold PolyLemmas.fsum; cbn [map fold_right]. ring.
Qed.

Theorem recover_pripoly_ok (f : list F) (sh : list (pshare F)) (t n : Z) :
  (1 <= t)%Z -> (n <= nmax)%Z -> length f = Z.to_nat t ->
  let k := kept sh n (limit_of t) in
  length k = Z.to_nat t ->
  NoDup (map fst k) ->
  (forall iv, In iv k -> snd iv = eval f (fst iv)) ->
  recover_pripoly O sh t n = Ok f.
Proof.
  intros Ht Hn Hf k Hk Hnd Hv.
  unfold recover_pripoly, x_scalar. fold (limit_of t).
  set (xs := usable O sh n 0 (limit_of t)).
  assert (Hlen : length xs = Z.to_nat t) by (unfold xs; rewrite usable_length; exact Hk).
  assert (Hwf : wf_entries xs) by (apply usable_wf; assumption).
  replace (Z.of_nat (length xs) =? t)%Z with true by (symmetry; apply Z.eqb_eq; lia).
  cbn [negb].
  assert (Hval : forall e, In e xs -> ev e = hor f (ex e)).
  { intros e He.
    pose proof (in_map (fun e : nat * F * F => (ex e, ev e)) xs e He) as Hin. cbv beta in Hin.
    unfold xs in Hin. rewrite usable_kept in Hin. apply in_map_iff in Hin.
    destruct Hin as [iv [E Hiv]]. injection E as E1 E2. rewrite <- E1, <- E2. apply Hv. exact Hiv. }
  rewrite (sum_polys_spec xs Hwf).
  set (xl := map ex xs).
  set (term := fun e : nat * F * F => lag_term O xl (ex e, ev e)).
  destruct xs as [|e0 xs'] eqn:Exs; [cbn in Hlen; lia|].
  cbn [map fold_left optadd].
  assert (Hnd_xl : NoDup xl) by exact (proj2 Hwf).
  assert (Hterm_len : forall e, In e (e0 :: xs') -> length (term e) = length xl).
  { intros e He. unfold term. apply (lag_term_length O L); [exact Hnd_xl|]. cbn [fst].
    unfold xl. apply in_map. exact He. }
  destruct (optadd_fold (map term xs') (term e0) (length xl)) as [P [E [HP Hh]]].
  - apply Hterm_len. left; reflexivity.
  - intros b Hb. apply in_map_iff in Hb. destruct Hb as [e [<- He]]. apply Hterm_len. right; exact He.
  - fold term. rewrite E. f_equal.
    assert (Hxl_len : length xl = Z.to_nat t) by (unfold xl; rewrite map_length; exact Hlen).
    apply (interp_unique O L xl); [exact Hnd_xl|lia|lia|].
    intros b Hb. rewrite Hh, map_map.
    set (pts := map (fun e : nat * F * F => (ex e, ev e)) (e0 :: xs')).
    assert (Hpx : map fst pts = xl) by (unfold pts, xl; rewrite map_map; reflexivity).
    rewrite <- (lagrange_interpolates O L f pts).
    + rewrite (hor_lag_poly O L), Hpx. unfold pts. rewrite map_map.
      unfold PolyLemmas.fsum. cbn [map fold_right]. reflexivity.
    + rewrite Hpx. exact Hnd_xl.
    + rewrite Hpx. lia.
    + intros xv Hxv. unfold pts in Hxv. apply in_map_iff in Hxv. destruct Hxv as [e [<- He]].
      cbn [fst snd]. apply Hval. exact He.
Qed.

Theorem recover_pripoly_too_few (sh : list (pshare F)) (t n : Z) :
  (Z.of_nat (length (kept sh n None)) < t)%Z -> recover_pripoly O sh t n = Err.
Proof.
  intros H. unfold recover_pripoly, x_scalar. fold (limit_of t).
  rewrite usable_length.
  assert (E : (Z.of_nat (length (kept sh n (limit_of t))) =? t)%Z = false).
  { apply Z.eqb_neq. unfold limit_of. destruct (0 <? t)%Z; [|lia].
    rewrite kept_limit_length. lia. }
  rewrite E. reflexivity.
Qed.

(* ---------------------------------------------------------------- the module G *)

Notation "a +g b" := (gadd M a b) (at level 50, left associativity).
Notation "k *g a" := (gscale M k a) (at level 40, left associativity).
Definition gsum (l : list G) : G := fold_right (gadd M) (g0 M) l.

Lemma g_add_0_r a : a +g g0 M = a.
Proof. rewrite (G_add_comm O M GL). apply (G_add_0_l O M GL). Qed.

Lemma g_scale_0 a : 0 *g a = g0 M.
Proof.
  set (x := 0 *g a).
  assert (E : x +g x = x).
  { unfold x. rewrite <- (G_scale_add_l O M GL). f_equal. ring. }
  assert (E2 : (x +g x) +g gneg M x = x +g gneg M x) by (rewrite E; reflexivity).
  rewrite <- (G_add_assoc O M GL), (G_add_neg O M GL), g_add_0_r in E2. exact E2.
Qed.

Lemma g_scale_g0 k : k *g g0 M = g0 M.
Proof.
  set (x := k *g g0 M).
  assert (E : x +g x = x).
  { unfold x. rewrite <- (G_scale_add_r O M GL), (G_add_0_l O M GL). reflexivity. }
  assert (E2 : (x +g x) +g gneg M x = x +g gneg M x) by (rewrite E; reflexivity).
  rewrite <- (G_add_assoc O M GL), (G_add_neg O M GL), g_add_0_r in E2. exact E2.
Qed.

Lemma gsum_scale {A} (xs : list A) (w v : A -> F) (B : G) :
  gsum (map (fun e => w e *g (v e *g B)) xs) = fsum (map (fun e => v e * w e) xs) *g B.
Proof.
  induction xs as [|e xs IH]; unfold gsum, PolyLemmas.fsum; cbn [map fold_right].
  - symmetry. apply g_scale_0.
  - fold (gsum (map (fun e => w e *g (v e *g B)) xs)). fold (fsum (map (fun e => v e * w e) xs)).
    rewrite IH, (G_scale_add_l O M GL), <- (G_scale_mul O M GL). f_equal. f_equal. ring.
Qed.

Lemma fold_res_gsum {A} (xs : list A) (num den : A -> F) (pt : A -> G) a :
  (forall e, In e xs -> den e <> 0) ->
  fold_left (fun acc e => res_bind acc (fun a =>
             res_bind (div_chk O d0 (num e) (den e)) (fun c => Ok (a +g (c *g pt e))))) xs (Ok a)
  = Ok (a +g gsum (map (fun e => (num e * / den e) *g pt e) xs)).
Proof.
  revert a; induction xs as [|e xs IH]; intros a H; unfold gsum; cbn [fold_left map fold_right].
  - f_equal. symmetry. apply g_add_0_r.
  - cbn [res_bind]. rewrite div_chk_ok by (apply H; left; reflexivity). cbn [res_bind].
    rewrite IH by (intros e' He'; apply H; right; exact He').
    f_equal. unfold gsum. rewrite (G_add_assoc O M GL). reflexivity.
Qed.

(* RecoverCommit: every usable entry is a commitment (with base B) to a point of f *)
Theorem recover_commit_ok (f : list F) (B : G) (sh : list (pshare G)) (t n : Z) :
  (n <= nmax)%Z ->
  let k := kept sh n None in
  (t <= Z.of_nat (length k))%Z -> (length f <= length k)%nat ->
  NoDup (map fst k) ->
  (forall iv, In iv k -> snd iv = eval f (fst iv) *g B) ->
  recover_commit O M d0 sh t n = Ok (hd 0 f *g B).
Proof.
  intros Hn k Hk Hf Hnd Hv. unfold recover_commit.
  set (xs := usable O sh n 0 None).
  assert (Hlen : length xs = length k) by (unfold xs; rewrite usable_length; reflexivity).
  assert (Hwf : wf_entries xs) by (apply usable_wf; assumption).
  replace (Z.of_nat (length xs) <? t)%Z with false by (symmetry; apply Z.ltb_ge; lia).
  (* a scalar reading of each entry: the value of f at its abscissa *)
  set (val := fun e : nat * F * G => hor f (ex e)).
  assert (Hpt : forall e, In e xs -> ev e = val e *g B).
  { intros e He.
    pose proof (in_map (fun e : nat * F * G => (ex e, ev e)) xs e He) as Hin. cbv beta in Hin.
    unfold xs in Hin. rewrite usable_kept in Hin. apply in_map_iff in Hin.
    destruct Hin as [iv [E Hiv]]. injection E as E1 E2. unfold val. rewrite <- E1, <- E2.
    apply Hv. exact Hiv. }
  rewrite (fold_left_ext_in _ (fun acc e => res_bind acc (fun a =>
             res_bind (div_chk O d0 (lag_num O xs (epos e) 1) (lag_den O xs (epos e) (ex e)))
                      (fun c => Ok (a +g (c *g ev e)))))).
  2:{ intros b [[p x] v] _. reflexivity. }
  rewrite fold_res_gsum.
  2:{ intros e He. apply (weight_spec xs e Hwf He). }
  f_equal. rewrite (G_add_0_l O M GL).
  transitivity (gsum (map (fun e => weight xs e *g (val e *g B)) xs)).
  { f_equal. apply map_ext_in. intros e He. rewrite (Hpt e He). reflexivity. }
  rewrite gsum_scale. f_equal.
  apply (weights_interpolate f xs val Hwf); [lia|]. intros e _. reflexivity.
Qed.

Theorem recover_commit_too_few (sh : list (pshare G)) (t n : Z) :
  (Z.of_nat (length (kept sh n None)) < t)%Z -> recover_commit O M d0 sh t n = Err.
Proof.
  intros H. unfold recover_commit. rewrite usable_length.
  replace (Z.of_nat (length (kept sh n None)) <? t)%Z with true by (symmetry; apply Z.ltb_lt; exact H).
  reflexivity.
Qed.

(* ---------------------------------------------------------------- commitments *)

Theorem commit_eval (B : G) (p : list F) (i : Z) :
  pub_eval O M (commit M B p) i = eval p i *g B.
Proof.
  unfold pub_eval, eval, commit. generalize (node i) as x. intros x.
  induction p as [|c p IH]; cbn [map ghorner fold_right].
  - change (hor [] x) with 0. symmetry. apply g_scale_0.
  - fold (ghorner M (map (fun c => c *g B) p) x). rewrite IH.
    change (hor (c :: p) x) with (hor p x * x + c).
    rewrite (G_scale_add_l O M GL), <- (G_scale_mul O M GL). f_equal. f_equal. ring.
Qed.

Theorem check_exact (B : G) (p : list F) (i : Z) (v : F) :
  Gfree O M B ->
  check O M B (commit M B p) i v = true <-> v = eval p i.
Proof.
  intros HB. unfold check. rewrite (G_eqb O M GL), commit_eval. split.
  - intros E. symmetry. apply (G_base_inj O M B HB). exact E.
  - intros ->. reflexivity.
Qed.

Lemma zip_with_length {A B C} (g : A -> B -> C) a b :
  length a = length b -> length (zip_with g a b) = length a.
Proof.
  revert b; induction a as [|x a IH]; intros b H; destruct b as [|y b]; cbn in *; try lia. f_equal. apply IH. lia.
Qed.

Theorem pri_add_eval (p q r : list F) (i : Z) :
  pri_add O p q = Some r -> eval r i = eval p i + eval q i.
Proof.
  unfold pri_add. destruct (Nat.eqb (length p) (length q)) eqn:E; [|discriminate].
  intros [= <-]. apply Nat.eqb_eq in E. unfold eval. generalize (node i) as x; intros x.
  revert q E; induction p as [|a p IH]; intros q E; destruct q as [|b q]; cbn in E; try lia.
  - cbn. change (hor [] x) with 0. ring.
  - cbn [zip_with]. change (hor (a + b :: zip_with (fadd O) p q) x) with (hor (zip_with (fadd O) p q) x * x + (a + b)).
    rewrite IH by lia. change (hor (a :: p) x) with (hor p x * x + a).
    change (hor (b :: q) x) with (hor q x * x + b). ring.
Qed.

Theorem pri_add_defined (p q : list F) :
  (exists r, pri_add O p q = Some r) <-> length p = length q.
Proof.
  unfold pri_add. destruct (Nat.eqb (length p) (length q)) eqn:E.
  - apply Nat.eqb_eq in E. split; [intros _; exact E|intros _; eexists; reflexivity].
  - apply Nat.eqb_neq in E. split; [intros [r Hr]; discriminate|intros; contradiction].
Qed.

Theorem commit_add_hom (B : G) (p q r : list F) :
  pri_add O p q = Some r ->
  pub_add M (commit M B p) (commit M B q) = Some (commit M B r).
Proof.
  unfold pri_add, pub_add, commit. rewrite !map_length.
  destruct (Nat.eqb (length p) (length q)) eqn:E; [|discriminate].
  intros [= <-]. f_equal. apply Nat.eqb_eq in E.
  revert q E; induction p as [|a p IH]; intros q E; destruct q as [|b q]; cbn in E; try lia; [reflexivity|].
  cbn [map zip_with]. rewrite (G_scale_add_l O M GL). f_equal. apply IH. lia.
Qed.

Theorem pub_add_eval (P Q R : list G) (i : Z) :
  pub_add M P Q = Some R -> pub_eval O M R i = pub_eval O M P i +g pub_eval O M Q i.
Proof.
  unfold pub_add. destruct (Nat.eqb (length P) (length Q)) eqn:E; [|discriminate].
  intros [= <-]. apply Nat.eqb_eq in E. unfold pub_eval. generalize (node i) as x; intros x.
  revert Q E; induction P as [|a P IH]; intros Q E; destruct Q as [|b Q]; cbn in E; try lia.
  - cbn. symmetry. apply (G_add_0_l O M GL).
  - cbn [zip_with ghorner fold_right].
    fold (ghorner M (zip_with (gadd M) P Q) x). fold (ghorner M P x). fold (ghorner M Q x).
    rewrite IH by lia. rewrite (G_scale_add_r O M GL).
    set (u := x *g ghorner M P x). set (v := x *g ghorner M Q x).
    rewrite <- !(G_add_assoc O M GL). f_equal.
    rewrite !(G_add_assoc O M GL). rewrite (G_add_comm O M GL v a). reflexivity.
Qed.

(* ---------------------------------------------------------------- equality *)

Lemma list_eqb_iff {A} (e : A -> A -> bool) (a b : list A) :
  (forall x y, e x y = true <-> x = y) -> list_eqb e a b = true <-> a = b.
Proof.
  intros He. revert b; induction a as [|x a IH]; intros b; destruct b as [|y b]; cbn [list_eqb];
    try (split; [discriminate|discriminate]); [tauto|].
  rewrite andb_true_iff, He, IH. split; [intros [-> ->]; reflexivity|intros [= -> ->]; tauto].
Qed.

Theorem pri_equal_iff (p q : list F) : pri_equal O p q = true <-> p = q.
Proof.
  unfold pri_equal. rewrite andb_true_iff, (list_eqb_iff _ p q (F_eqb O L)), Nat.eqb_eq.
  split; [tauto|intros ->; tauto].
Qed.

Theorem pub_equal_iff (p q : list G) : pub_equal M p q = true <-> p = q.
Proof.
  unfold pub_equal. rewrite andb_true_iff, (list_eqb_iff _ p q (G_eqb O M GL)), Nat.eqb_eq.
  split; [tauto|intros ->; tauto].
Qed.

(* the comparison as it was before the repair is not an equality test *)
Theorem pub_equal_old_prefix (a b : G) : pub_equal_old M [a] [a; b] = Ok true.
Proof.
  cbn. assert (geqb M a a = true) as -> by (apply (G_eqb O M GL); reflexivity). reflexivity.
Qed.
Theorem pub_equal_old_panics (a b : G) : pub_equal_old M [a; b] [a] = Panic.
Proof. reflexivity. Qed.

(* ---------------------------------------------------------------- abscissae *)

Theorem no_zero_abscissa (i : Z) : (0 <= i < nmax)%Z -> node i <> 0.
Proof. apply (node_nz O nmax NL). Qed.

Theorem eval_is_not_at_zero (p : list F) : hor p 0 = hd 0 p.
Proof. apply (hor_0 O L). Qed.

End ShareProofs.
