(* VssProofs.v -- C08: what Verifier.ProcessEncryptedDeal accepts (model Models/Vss.v, repaired code). *)
From Coq Require Import ZArith List Bool Lia.
From DosVerif Require Import Base.Val Base.Field Models.Share Models.Tbls Models.Vss
     Proofs.PolyLemmas Proofs.ShareProofs Proofs.TblsProofs.
Import ListNotations.
Local Open Scope Z_scope.

Section VssProofs.
Context {F : Type}.
Variable O : Fops F.
Hypothesis L : Flaws O.
Notation M := (self_gops O).

Lemma zlist_eqb_eq a b : zlist_eqb a b = true <-> a = b.
Proof.
  revert b; induction a as [|x a IH]; intros b; destruct b as [|y b]; cbn; try (split; discriminate); [tauto|].
  rewrite andb_true_iff, Z.eqb_eq, IH. split; [intros [-> ->]; reflexivity|intros [= -> ->]; tauto].
Qed.

(* everything that must hold of an encrypted deal for the verifier to produce any response *)
Definition opens_for (v : verifier (F:=F)) (e : edeal (F:=F)) (p : plain (F:=F)) : Prop :=
  e_sig_key e = v_dealer v /\ e_sig_bytes e = e_dh_bytes e /\
  (exists eph, e_dh_point e = Some eph /\ e_seal_eph e = eph) /\
  e_nonce_len e = 12 /\ e_intact e = true /\
  e_seal_rcpt e = v_key v /\ e_seal_dealer e = v_dealer v /\ e_seal_members e = v_members v /\
  e_seal_nonce e = e_nonce e /\ e_plain e = Some p.

Lemma decrypt_ok v eo p :
  decrypt_deal true v eo = Ok p -> exists e, eo = Some e /\ opens_for v e p.
Proof.
  unfold decrypt_deal. destruct eo as [e|]; [|discriminate].
  destruct ((e_sig_key e =? v_dealer v) && (e_sig_bytes e =? e_dh_bytes e)) eqn:E1; cbn [negb]; [|discriminate].
  destruct (e_dh_point e) as [eph|] eqn:E2; [|discriminate].
  destruct (e_nonce_len e =? 12) eqn:E3; cbn [negb]; [|discriminate].
  destruct (e_intact e && (e_seal_eph e =? eph) && (e_seal_rcpt e =? v_key v) && (e_seal_dealer e =? v_dealer v)
            && zlist_eqb (e_seal_members e) (v_members v) && (e_seal_nonce e =? e_nonce e)) eqn:E4; [|discriminate].
  destruct (e_plain e) as [p'|] eqn:E5; [|discriminate]. intros [= <-].
  exists e. split; [reflexivity|]. unfold opens_for.
  apply andb_true_iff in E1. destruct E1 as [E1a E1b].
  repeat (apply andb_true_iff in E4; destruct E4 as [E4 ?]).
  repeat match goal with H : (_ =? _) = true |- _ => apply Z.eqb_eq in H end.
  match goal with H : zlist_eqb _ _ = true |- _ => apply zlist_eqb_eq in H end.
  repeat split; try assumption. exists eph. split; assumption.
Qed.

Lemma decrypt_never_panics (v : verifier (F:=F)) eo : decrypt_deal true v eo <> Panic.
Proof.
  unfold decrypt_deal. destruct eo as [e|]; [|discriminate].
  destruct (negb _); [discriminate|]. destruct (e_dh_point e); [|discriminate].
  destruct (negb _); [discriminate|]. destruct (_ && _); [|discriminate]. destruct (e_plain e); discriminate.
Qed.

(* the response, when there is one *)
Theorem ped_ok v eo v' r :
  process_encrypted_deal O true v eo = Ok (v', r) ->
  exists e p x,
    eo = Some e /\ opens_for v e p /\ p_sec p = Some (v_index v, x) /\
    r_status r = (if deal_ok O (nmembers v) p (v_index v) x
                     && sid_eqb O (Sid (v_dealer v) (v_members v) (p_commits p) (p_t p)) (p_sid p)
                  then Approval else Complaint) /\
    r_index r = v_index v /\ r_sig_key r = v_key v.
Proof.
  unfold process_encrypted_deal. destruct (decrypt_deal true v eo) as [p| |] eqn:Ed; cbn [res_bind]; try discriminate.
  destruct (decrypt_ok v eo p Ed) as [e [-> Hop]].
  destruct (p_sec p) as [[i x]|] eqn:Es; [|discriminate].
  destruct (i =? v_index v) eqn:Ei; cbn [negb]; [|discriminate]. apply Z.eqb_eq in Ei. subst i.
  set (a := match v_agg v with Some a => a | None => _ end).
  destruct (a_deal a); [discriminate|].
  destruct (add_response _ _ _ _) as [a2|]; [|discriminate].
  intros [= <- <-]. exists e, p, x. cbn [r_status r_index r_sig_key].
  split; [reflexivity|]. split; [exact Hop|]. split; [exact Es|]. split; [reflexivity|]. split; reflexivity.
Qed.

Theorem ped_never_panics v eo : process_encrypted_deal O true v eo <> Panic.
Proof.
  unfold process_encrypted_deal. destruct (decrypt_deal true v eo) as [p| |] eqn:Ed; cbn [res_bind]; try discriminate.
  - destruct (p_sec p) as [[i x]|]; [|discriminate]. destruct (negb _); [discriminate|].
    destruct (a_deal _); [discriminate|].
    destruct (add_response _ _ _ _); discriminate.
  - exfalso. exact (decrypt_never_panics v eo Ed).
Qed.

(* only the addressee *)
Theorem only_addressee v e : e_seal_rcpt e <> v_key v ->
  process_encrypted_deal O true v (Some e) = Err.
Proof.
  intros Hne. destruct (process_encrypted_deal O true v (Some e)) as [[v' r]| |] eqn:E; [|reflexivity|].
  - destruct (ped_ok v (Some e) v' r E) as [e' [p [x [[= <-] [Hop _]]]]].
    destruct Hop as [_ [_ [_ [_ [_ [H _]]]]]]. contradiction.
  - exfalso. exact (ped_never_panics v (Some e) E).
Qed.

(* approval exactly for a share that checks against the commitments at the recipient's own
   index, with a threshold in range *)
Theorem approve_iff_consistent v eo v' r :
  process_encrypted_deal O true v eo = Ok (v', r) ->
  (r_status r = Approval <->
   exists e p x, eo = Some e /\ e_plain e = Some p /\ p_sec p = Some (v_index v, x) /\
     valid_t (p_t p) (nmembers v) = true /\ 0 <= v_index v < nmembers v /\
     check O M (f1 O) (p_commits p) (v_index v) x = true /\
     sid_eqb O (Sid (v_dealer v) (v_members v) (p_commits p) (p_t p)) (p_sid p) = true).
Proof.
  intros H. destruct (ped_ok v eo v' r H) as [e [p [x [-> [Hop [Hs [Hst _]]]]]]].
  assert (Hpl : e_plain e = Some p) by (destruct Hop as [_ [_ [_ [_ [_ [_ [_ [_ [_ Hp]]]]]]]]]; exact Hp).
  rewrite Hst. unfold deal_ok. split.
  - destruct (valid_t (p_t p) (nmembers v)) eqn:E1; cbn [andb]; [|discriminate].
    destruct (0 <=? v_index v) eqn:E2; cbn [andb]; [|discriminate].
    destruct (v_index v <? nmembers v) eqn:E3; cbn [andb]; [|discriminate].
    destruct (check O M (f1 O) (p_commits p) (v_index v) x) eqn:E4; cbn [andb]; [|discriminate].
    destruct (sid_eqb O _ (p_sid p)) eqn:E5; [|discriminate].
    intros _. exists e, p, x. apply Z.leb_le in E2. apply Z.ltb_lt in E3. repeat split; try assumption; lia.
  - intros [e' [p' [x' [[= <-] [Hp' [Hs' [Hvt [Hr [Hc Hsid]]]]]]]]].
    rewrite Hpl in Hp'. injection Hp' as <-. rewrite Hs in Hs'. injection Hs' as <-.
    rewrite Hvt, Hc, Hsid. replace (0 <=? v_index v) with true by (symmetry; apply Z.leb_le; lia).
    replace (v_index v <? nmembers v) with true by (symmetry; apply Z.ltb_lt; lia). reflexivity.
Qed.

(* with commitments that commit to a polynomial f: approval iff the share IS f at the recipient's index *)
Theorem approve_iff_share_on_polynomial v e p x f v' r :
  process_encrypted_deal O true v (Some e) = Ok (v', r) ->
  e_plain e = Some p -> p_sec p = Some (v_index v, x) -> p_commits p = commit M (f1 O) f ->
  valid_t (p_t p) (nmembers v) = true -> 0 <= v_index v < nmembers v ->
  sid_eqb O (Sid (v_dealer v) (v_members v) (p_commits p) (p_t p)) (p_sid p) = true ->
  (r_status r = Approval <-> x = eval O f (v_index v)).
Proof.
  intros H Hp Hs Hc Hvt Hr Hsid. rewrite (approve_iff_consistent v (Some e) v' r H). split.
  - intros [e' [p' [x' [[= <-] [Hp' [Hs' [_ [_ [Hch _]]]]]]]]].
    rewrite Hp in Hp'. injection Hp' as <-. rewrite Hs in Hs'. injection Hs' as <-.
    rewrite Hc in Hch. apply (check_exact O M L (self_glaws O L) (f1 O) f (v_index v) x) in Hch; [exact Hch|].
    constructor. intros k l E. cbn [self_gops gscale] in E.
    pose proof (F_th O L) as Fth. destruct Fth as [Rth _ _ _]. destruct Rth.
    rewrite (Rmul_comm k), (Rmul_comm l), !Rmul_1_l in E. exact E.
  - intros ->. exists e, p, (eval O f (v_index v)).
    split; [reflexivity|]. split; [exact Hp|]. split; [exact Hs|]. split; [exact Hvt|]. split; [exact Hr|]. split; [|exact Hsid].
    rewrite Hc. apply (check_exact O M L (self_glaws O L)); [|reflexivity].
    constructor. intros k l E. cbn [self_gops gscale] in E.
    pose proof (F_th O L) as Fth. destruct Fth as [Rth _ _ _]. destruct Rth.
    rewrite (Rmul_comm k), (Rmul_comm l), !Rmul_1_l in E. exact E.
Qed.

End VssProofs.
