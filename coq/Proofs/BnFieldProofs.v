(* BnFieldProofs.v -- C10, the formula level: the extension-field and Jacobian formulas of
   gfp2.go / gfp6.go / gfp12.go / curve.go / twist.go compute what they are meant to compute, over
   ANY field (so for F_p and, for the curve formulas, F_p^2 alike). *)
From Coq Require Import ZArith List Bool Field.
From DosVerif Require Import Base.Val Base.Field Models.Bn Proofs.PolyLemmas.
Import ListNotations.

Section Formulas.
Context {K : Type}.
Variable O : Fops K.
Hypothesis L : Flaws O.
Notation "0" := (f0 O). Notation "1" := (f1 O).
Infix "+" := (fadd O). Infix "*" := (fmul O). Infix "-" := (fsub O).
Notation "- x" := (fopp O x). Notation "/ x" := (finv O x).
Add Field Kf : (Fth O L).

(* ---------------------------------------------------------------- F[i]/(i^2+1) *)

Lemma fp2_ext (a b : fp2 (K:=K)) : c1 a = c1 b -> c0 a = c0 b -> a = b.
Proof. destruct a, b; cbn; intros -> ->; reflexivity. Qed.

(* gfP2.Mul is the product in K[i]/(i^2+1): (a1 i + a0)(b1 i + b0) = (a1 b0 + a0 b1) i + (a0 b0 - a1 b1) *)
Theorem fp2_mul_spec (a b : fp2 (K:=K)) :
  c1 (fp2_mul O a b) = c1 a * c0 b + c0 a * c1 b /\ c0 (fp2_mul O a b) = c0 a * c0 b - c1 a * c1 b.
Proof. cbn. split; ring. Qed.

Theorem fp2_square_is_mul (a : fp2 (K:=K)) : fp2_square O a = fp2_mul O a a.
Proof. apply fp2_ext; cbn; ring. Qed.

Theorem fp2_mul_comm (a b : fp2 (K:=K)) : fp2_mul O a b = fp2_mul O b a.
Proof. apply fp2_ext; cbn; ring. Qed.

Theorem fp2_mul_assoc (a b c : fp2 (K:=K)) : fp2_mul O a (fp2_mul O b c) = fp2_mul O (fp2_mul O a b) c.
Proof. apply fp2_ext; cbn; ring. Qed.

Theorem fp2_distr (a b c : fp2 (K:=K)) :
  fp2_mul O (fp2_add O a b) c = fp2_add O (fp2_mul O a c) (fp2_mul O b c).
Proof. apply fp2_ext; cbn; ring. Qed.

(* gfP2.Invert is the inverse whenever the norm a1^2 + a0^2 is invertible (it is for p = 3 mod 4) *)
Theorem fp2_inv_spec (a : fp2 (K:=K)) :
  c1 a * c1 a + c0 a * c0 a <> 0 -> fp2_mul O a (fp2_inv O a) = mkfp2 0 1.
Proof. intros H. apply fp2_ext; cbn; field; exact H. Qed.

(* ---------------------------------------------------------------- the Jacobian formulas *)

Definition aff_x (a : jac (K:=K)) : K := jx a * / (jz a * jz a).
Definition aff_y (a : jac (K:=K)) : K := jy a * / (jz a * jz a * jz a).

Lemma feqb_false_of (a b : K) : a <> b -> feqb O a b = false.
Proof. intros H. apply (feqb_false O L). exact H. Qed.

(* doubling is the tangent rule on y^2 = x^3 + b: lambda = 3x^2 / 2y *)
Theorem jac_double_spec (a : jac (K:=K)) :
  jz a <> 0 -> jy a <> 0 -> 1 + 1 <> 0 ->
  let x := aff_x a in let y := aff_y a in
  let lam := (x * x + x * x + x * x) * / (y + y) in
  let r := jac_double O a in
  jz r <> 0 /\ aff_x r = lam * lam - x - x /\ aff_y r = lam * (x - aff_x r) - y.
Proof.
  intros Hz Hy H2 x y lam r.
  assert (Hzr : jz r <> 0).
  { unfold r, jac_double. cbn [jz]. intros E.
    assert (E2 : (1 + 1) * (jy a * jz a) = 0) by (rewrite <- E; ring).
    destruct (mul_eq_0 O L _ _ E2) as [H|H]; [contradiction|].
    destruct (mul_eq_0 O L _ _ H) as [H'|H']; contradiction. }
  split; [exact Hzr|].
  assert (Hz2 : jy a + jy a <> 0).
  { intros E. assert (E2 : (1 + 1) * jy a = 0) by (rewrite <- E; ring).
    destruct (mul_eq_0 O L _ _ E2); contradiction. }
  unfold aff_x, aff_y, r, lam, x, y, aff_x, aff_y, jac_double. cbn [jx jy jz].
  split; field; repeat split; assumption.
Qed.

(* addition of two finite points with different affine x is the chord rule *)
Theorem jac_add_spec (a b : jac (K:=K)) :
  jz a <> 0 -> jz b <> 0 -> aff_x a <> aff_x b -> 1 + 1 <> 0 ->
  let lam := (aff_y b - aff_y a) * / (aff_x b - aff_x a) in
  let r := jac_add O a b in
  jz r <> 0 /\ aff_x r = lam * lam - aff_x a - aff_x b /\ aff_y r = lam * (aff_x a - aff_x r) - aff_y a.
Proof.
  intros Hza Hzb Hx H2 lam r.
  assert (Hh : jx b * (jz a * jz a) - jx a * (jz b * jz b) <> 0).
  { intros E. apply Hx. unfold aff_x.
    assert (E' : jx b * (jz a * jz a) = jx a * (jz b * jz b)) by (apply (sub_eq_0 O L); exact E).
    transitivity (jx a * (jz b * jz b) * / (jz a * jz a) * / (jz b * jz b)); [field; split; assumption|].
    rewrite <- E'. field. split; assumption. }
  assert (Hd : aff_x b - aff_x a <> 0).
  { intros E. apply Hx. symmetry. apply (sub_eq_0 O L). exact E. }
  unfold r, jac_add, is_inf. rewrite (feqb_false_of _ _ Hza), (feqb_false_of _ _ Hzb).
  rewrite (feqb_false_of _ _ Hh). cbn [andb jx jy jz].
  assert (Hzr : ((jz a + jz b) * (jz a + jz b) - jz a * jz a - jz b * jz b)
                * (jx b * (jz a * jz a) - jx a * (jz b * jz b)) <> 0).
  { intros E. destruct (mul_eq_0 O L _ _ E) as [H|H]; [|contradiction].
    assert (E2 : (1 + 1) * (jz a * jz b) = 0) by (rewrite <- H; ring).
    destruct (mul_eq_0 O L _ _ E2) as [H'|H']; [contradiction|].
    destruct (mul_eq_0 O L _ _ H'); contradiction. }
  split; [exact Hzr|].
  unfold lam, aff_x, aff_y in *. cbn [jx jy jz].
  assert (Hzz : (jz a + jz b) * (jz a + jz b) - jz a * jz a - jz b * jz b <> 0).
  { intros E. apply Hzr. rewrite E. ring. }
  split; field; repeat split; try assumption.
Qed.

(* P + (-P): same x, different y gives the point at infinity *)
Theorem jac_add_inverse (a b : jac (K:=K)) :
  jz a <> 0 -> jz b <> 0 ->
  jx b * (jz a * jz a) - jx a * (jz b * jz b) = 0 ->
  jy b * (jz a * (jz a * jz a)) - jy a * (jz b * (jz b * jz b)) <> 0 ->
  is_inf O (jac_add O a b) = true.
Proof.
  intros Hza Hzb Hh Ht. unfold jac_add. unfold is_inf.
  rewrite (feqb_false_of _ _ Hza), (feqb_false_of _ _ Hzb).
  rewrite Hh. replace (feqb O 0 0) with true by (symmetry; apply (feqb_true O L); reflexivity).
  rewrite (feqb_false_of _ _ Ht). cbn [andb jz].
  apply (feqb_true O L). ring.
Qed.

(* P + P takes the doubling branch *)
Theorem jac_add_same (a b : jac (K:=K)) :
  jz a <> 0 -> jz b <> 0 ->
  jx b * (jz a * jz a) - jx a * (jz b * jz b) = 0 ->
  jy b * (jz a * (jz a * jz a)) - jy a * (jz b * (jz b * jz b)) = 0 ->
  jac_add O a b = jac_double O a.
Proof.
  intros Hza Hzb Hh Ht. unfold jac_add, is_inf.
  rewrite (feqb_false_of _ _ Hza), (feqb_false_of _ _ Hzb), Hh, Ht.
  replace (feqb O 0 0) with true by (symmetry; apply (feqb_true O L); reflexivity). reflexivity.
Qed.

Theorem jac_add_inf_l (a b : jac (K:=K)) : is_inf O a = true -> jac_add O a b = b.
Proof. intros H. unfold jac_add. rewrite H. reflexivity. Qed.

Theorem jac_add_inf_r (a b : jac (K:=K)) : is_inf O a = false -> is_inf O b = true -> jac_add O a b = a.
Proof. intros Ha Hb. unfold jac_add. rewrite Ha, Hb. reflexivity. Qed.

(* MakeAffine keeps the affine coordinates *)
Theorem make_affine_spec (a : jac (K:=K)) :
  jz a <> 0 -> let r := make_affine O a in jz r = 1 /\ jx r = aff_x a /\ jy r = aff_y a.
Proof.
  intros Hz r. unfold r, make_affine. destruct (feqb O (jz a) 1) eqn:E1.
  - apply (feqb_true O L) in E1. unfold aff_x, aff_y. rewrite E1.
    split; [reflexivity|]. split; field; apply (one_neq_zero O L).
  - rewrite (feqb_false_of _ _ Hz). cbn [jx jy jz]. unfold aff_x, aff_y.
    split; [reflexivity|]. split; field; exact Hz.
Qed.

End Formulas.
