From Coq Require Import ZArith List Bool Lia.
From DosVerif Require Import Base.Val Models.P2PRecv.
Import ListNotations.
Open Scope Z_scope.

Lemma payload_eqb_eq a b : payload_eqb a b = true -> a = b.
Proof.
  destruct a as [t1 b1], b as [t2 b2]. unfold payload_eqb; cbn. intros H.
  apply andb_prop in H. destruct H as [H1 H2]. apply Z.eqb_eq in H1, H2. subst. reflexivity.
Qed.

Lemma payload_eqb_refl a : payload_eqb a a = true.
Proof. destruct a; unfold payload_eqb; cbn. rewrite !Z.eqb_refl. reflexivity. Qed.

(* a frame whose content reaches a subscriber or the request table was sealed under the session
   key and carries the peer's signature over exactly that content *)
Definition authentic (key peer : Z) (f : frame) (m : payload) : Prop :=
  exists k, f = FSealed key (PPkg k) /\ k_any k = Some m /\ k_sig k = Some (peer, m) /\ k_known k = true.

Lemma recv_frame_deliver key peer f m :
  recv_frame key peer f = ODeliver m -> authentic key peer f m /\ (exists k, f = FSealed key (PPkg k) /\ k_reply k = false).
Proof.
  unfold recv_frame, open. destruct f as [k0 p|]; [|discriminate].
  destruct (k0 =? key) eqn:Ek; [|discriminate]. apply Z.eqb_eq in Ek. subst k0.
  destruct p as [k|]; [|discriminate].
  destruct (k_any k) as [v|] eqn:Ea; [|discriminate].
  destruct (sig_ok peer k v) eqn:Es; cbn; [|discriminate].
  destruct (k_known k) eqn:Ekn; cbn; [|discriminate].
  destruct (k_reply k) eqn:Er; [discriminate|].
  intros H. inversion H; subst v. unfold sig_ok in Es.
  destruct (k_sig k) as [[sk sv]|] eqn:Esg; [|discriminate].
  apply andb_prop in Es. destruct Es as [E1 E2]. apply Z.eqb_eq in E1. apply payload_eqb_eq in E2. subst.
  split; [exists k; auto|exists k; auto].
Qed.

Lemma recv_frame_reply key peer f n m :
  recv_frame key peer f = OReply n m -> authentic key peer f m.
Proof.
  unfold recv_frame, open. destruct f as [k0 p|]; [|discriminate].
  destruct (k0 =? key) eqn:Ek; [|discriminate]. apply Z.eqb_eq in Ek. subst k0.
  destruct p as [k|]; [|discriminate].
  destruct (k_any k) as [v|] eqn:Ea; [|discriminate].
  destruct (sig_ok peer k v) eqn:Es; cbn; [|discriminate].
  destruct (k_known k) eqn:Ekn; cbn; [|discriminate].
  destruct (k_reply k) eqn:Er; [|discriminate].
  intros H. inversion H; subst. unfold sig_ok in Es.
  destruct (k_sig k) as [[sk sv]|] eqn:Esg; [|discriminate].
  apply andb_prop in Es. destruct Es as [E1 E2]. apply Z.eqb_eq in E1. apply payload_eqb_eq in E2. subst.
  exists k; auto.
Qed.

Lemma recv_b_in key peer budget fs : forall failed left o,
  In o (recv_b key peer budget failed left fs) -> exists f, In f fs /\ recv_frame key peer f = o.
Proof.
  induction fs as [|f rest IH]; intros failed left o H; cbn in H; [contradiction|].
  destruct (failed && Nat.eqb left 0); [contradiction|].
  destruct H as [H|H].
  - exists f. split; [left; reflexivity|exact H].
  - apply IH in H. destruct H as [f' [Hin Hr]]. exists f'. split; [right; exact Hin|exact Hr].
Qed.

(* nothing that is not authentic is ever delivered, however many frames are still processed
   after the first error and wherever the bad frames stand *)
Theorem delivered_authentic key peer budget fs m :
  In (ODeliver m) (recv_b key peer budget false 0 fs) -> exists f, In f fs /\ authentic key peer f m.
Proof.
  intros H. apply recv_b_in in H. destruct H as [f [Hin Hr]].
  exists f. split; [exact Hin|]. apply recv_frame_deliver in Hr. tauto.
Qed.

Theorem reply_authentic key peer budget fs n m :
  In (OReply n m) (recv_b key peer budget false 0 fs) -> exists f, In f fs /\ authentic key peer f m.
Proof.
  intros H. apply recv_b_in in H. destruct H as [f [Hin Hr]].
  exists f. split; [exact Hin|]. apply recv_frame_reply in Hr. exact Hr.
Qed.

(* the individual ways a frame can be wrong *)
Theorem bad_frames_rejected key peer :
  recv_frame key peer FJunk = OError /\
  (forall k p, k <> key -> recv_frame key peer (FSealed k p) = OError) /\
  recv_frame key peer (FSealed key PGarbage) = OError /\
  (forall k, k_any k = None -> recv_frame key peer (FSealed key (PPkg k)) = OError) /\
  (forall k v, k_any k = Some v -> k_sig k <> Some (peer, v) -> recv_frame key peer (FSealed key (PPkg k)) = OError).
Proof.
  repeat split.
  - intros k p Hk. unfold recv_frame, open. destruct (k =? key) eqn:E; [apply Z.eqb_eq in E; contradiction|reflexivity].
  - unfold recv_frame, open. rewrite Z.eqb_refl. reflexivity.
  - intros k Hk. unfold recv_frame, open. rewrite Z.eqb_refl, Hk. reflexivity.
  - intros k v Hk Hs. unfold recv_frame, open. rewrite Z.eqb_refl, Hk.
    destruct (sig_ok peer k v) eqn:Es; [|reflexivity]. exfalso. apply Hs.
    unfold sig_ok in Es. destruct (k_sig k) as [[sk sv]|]; [|discriminate].
    apply andb_prop in Es. destruct Es as [E1 E2]. apply Z.eqb_eq in E1. apply payload_eqb_eq in E2. subst. reflexivity.
Qed.

Lemma recv_honest key peer m n : recv_frame key peer (honest_frame key peer m n false) = ODeliver m.
Proof.
  unfold recv_frame, honest_frame, open, sig_ok. rewrite Z.eqb_refl. cbn.
  rewrite Z.eqb_refl, payload_eqb_refl. reflexivity.
Qed.

(* an untampered stream: every message once, in order, whatever the budget *)
Lemma honest_stream_gen key peer budget (ms : list (payload * Z)) : forall left,
  recv_b key peer budget false left (map (fun mn => honest_frame key peer (fst mn) (snd mn) false) ms)
  = map (fun mn => ODeliver (fst mn)) ms.
Proof.
  induction ms as [|[m n] rest IH]; intros left; cbn [map recv_b]; [reflexivity|].
  cbn [andb fst snd]. rewrite recv_honest. cbn [orb]. f_equal. apply IH.
Qed.

Theorem honest_stream_each_once key peer budget (ms : list (payload * Z)) :
  recv_b key peer budget false 0 (map (fun mn => honest_frame key peer (fst mn) (snd mn) false) ms)
  = map (fun mn => ODeliver (fst mn)) ms.
Proof. apply honest_stream_gen. Qed.

Lemma deliveries_map ms : deliveries (map (fun mn : payload * Z => ODeliver (fst mn)) ms) = map fst ms.
Proof. induction ms as [|a r IH]; cbn; [reflexivity|]. f_equal. exact IH. Qed.

Theorem subscriber_gets_its_type key peer budget ms t :
  to_subscriber t (deliveries (recv_b key peer budget false 0
      (map (fun mn => honest_frame key peer (fst mn) (snd mn) false) ms)))
  = filter (fun m => p_type m =? t) (map fst ms).
Proof. rewrite honest_stream_each_once, deliveries_map. reflexivity. Qed.

(* an honest prefix is delivered completely before the first bad frame is reported *)
Lemma recv_b_failed_len key peer budget fs : forall left,
  (length (recv_b key peer budget true left fs) <= left)%nat.
Proof.
  induction fs as [|f fs IHf]; intros left; cbn [recv_b]; [cbn; lia|].
  destruct left as [|l]; cbn [andb Nat.eqb]; [cbn; lia|].
  cbn [length Nat.pred orb]. specialize (IHf l). lia.
Qed.

Theorem prefix_before_first_bad key peer budget ms bad rest :
  recv_frame key peer bad = OError ->
  exists tail,
    recv_b key peer budget false 0 (map (fun mn => honest_frame key peer (fst mn) (snd mn) false) ms ++ bad :: rest)
    = map (fun mn => ODeliver (fst mn)) ms ++ OError :: tail /\ (length tail <= budget)%nat.
Proof.
  intros Hb. generalize 0%nat as left.
  induction ms as [|[m n] r IH]; intros left; cbn [map app recv_b].
  - cbn [andb]. rewrite Hb. cbn [orb].
    eexists. split; [reflexivity|apply recv_b_failed_len].
  - cbn [andb fst snd]. rewrite recv_honest. cbn [orb].
    destruct (IH budget) as [tail [He Hl]]. exists tail. split; [|exact Hl].
    cbn [app]. f_equal. exact He.
Qed.
