(* Lagrange.v -- Lagrange interpolation over a list of distinct abscissae, in coefficient form
   (what RecoverPriPoly builds) and in "value at a point" form (what RecoverSecret / RecoverCommit
   compute at 0). *)
From Coq Require Import ZArith List Bool Lia Field.
From DosVerif Require Import Base.Val Base.Field Models.Share Proofs.PolyLemmas.
Import ListNotations.

Section Lagrange.
Context {F : Type}.
Variable O : Fops F.
Hypothesis L : Flaws O.

Notation "0" := (f0 O). Notation "1" := (f1 O).
Infix "+" := (fadd O). Infix "*" := (fmul O). Infix "-" := (fsub O).
Notation "- x" := (fopp O x).
Notation "/ x" := (finv O x).
Notation hor := (horner O).
Notation padd := (padd O). Notation pscale := (pscale O). Notation pmul := (pmul O).
Notation fsum := (fsum O). Notation fprod := (fprod O).

Add Field Ff2 : (Fth O L).

Definition rm (a : F) (l : list F) : list F := filter (fun y => negb (feqb O y a)) l.

Lemma rm_in a l y : In y (rm a l) <-> In y l /\ y <> a.
Proof.
  unfold rm. rewrite filter_In, negb_true_iff. rewrite (feqb_false O L). tauto.
Qed.

Lemma rm_length a l : NoDup l -> In a l -> S (length (rm a l)) = length l.
Proof.
  induction l as [|y l IH]; intros Hnd Hin; [destruct Hin|].
  inversion Hnd as [|? ? Hny Hnd']; subst. unfold rm; cbn [filter].
  destruct (feqb O y a) eqn:E; cbn [negb length].
  - apply (feqb_true O L) in E; subst y. f_equal.
    fold (rm a l). clear IH Hin Hnd.
    induction l as [|z l IH]; [reflexivity|]. unfold rm; cbn [filter].
    destruct (feqb O z a) eqn:E.
    + apply (feqb_true O L) in E; subst. exfalso; apply Hny; left; reflexivity.
    + cbn [negb length]. f_equal. apply IH.
      * intros H; apply Hny; right; exact H.
      * inversion Hnd'; assumption.
  - f_equal. apply IH; [exact Hnd'|].
    destruct Hin as [->|H]; [|exact H]. apply (feqb_false O L) in E. congruence.
Qed.

Definition lag_coef (xl : list F) (a : F) : F := fprod (map (fun m => / (a - m)) (rm a xl)).
Definition lag_basis (xl : list F) (a : F) : list F := prod_lin O (rm a xl).

Definition lag_term (xl : list F) (xv : F * F) : list F :=
  pscale (snd xv * lag_coef xl (fst xv)) (lag_basis xl (fst xv)).

Definition lag_poly (xl : list F) (pts : list (F * F)) : list F :=
  fold_right (fun xv acc => padd (lag_term xl xv) acc) [] pts.

Lemma inv_prod l (g : F -> F) :
  (forall y, In y l -> g y <> 0) -> fprod (map (fun y => / g y) l) * fprod (map g l) = 1.
Proof.
  induction l as [|y l IH]; intros H; unfold PolyLemmas.fprod; cbn [map fold_right]; [ring|].
  fold (fprod (map (fun y => / g y) l)). fold (fprod (map g l)).
  assert (Hy : g y <> 0) by (apply H; left; reflexivity).
  assert (E : fprod (map (fun y0 => / g y0) l) * fprod (map g l) = 1).
  { apply IH. intros z Hz; apply H; right; exact Hz. }
  transitivity ((/ g y * g y) * (fprod (map (fun y0 => / g y0) l) * fprod (map g l))); [ring|].
  rewrite E. field. exact Hy.
Qed.

Lemma basis_at_self xl a : lag_coef xl a * hor (lag_basis xl a) a = 1.
Proof.
  unfold lag_coef, lag_basis. rewrite (hor_prod_lin O L).
  apply (inv_prod (rm a xl) (fun m => a - m)).
  intros y Hy. apply rm_in in Hy. rewrite (sub_eq_0 O L). intros E; symmetry in E; tauto.
Qed.

Lemma basis_at_other xl a b : In b xl -> b <> a -> hor (lag_basis xl a) b = 0.
Proof.
  intros Hin Hne. unfold lag_basis. rewrite (hor_prod_lin O L).
  apply (fprod_in_0 O L). apply in_map_iff. exists b. split; [ring|]. apply rm_in. tauto.
Qed.

Lemma hor_lag_term xl xv y :
  hor (lag_term xl xv) y = snd xv * lag_coef xl (fst xv) * hor (lag_basis xl (fst xv)) y.
Proof. unfold lag_term. rewrite (hor_pscale O L). ring. Qed.

Lemma hor_lag_poly xl pts y :
  hor (lag_poly xl pts) y = fsum (map (fun xv => hor (lag_term xl xv) y) pts).
Proof.
  induction pts as [|xv pts IH]; [reflexivity|].
  cbn [lag_poly fold_right map]. unfold PolyLemmas.fsum; cbn [fold_right].
  rewrite (hor_padd O L). fold (lag_poly xl pts). rewrite IH. reflexivity.
Qed.

(* value of the interpolating polynomial at an abscissa of the list *)
Lemma lag_poly_at (f : list F) xl pts b :
  In b xl -> NoDup (map fst pts) ->
  (forall xv, In xv pts -> snd xv = hor f (fst xv)) ->
  hor (lag_poly xl pts) b = if existsb (fun x => feqb O x b) (map fst pts) then hor f b else 0.
Proof.
  intros Hb. induction pts as [|[x v] pts IH]; intros Hnd Hv; [reflexivity|].
  cbn [lag_poly fold_right]. fold (lag_poly xl pts). rewrite (hor_padd O L), hor_lag_term.
  cbn [map fst snd existsb]. inversion Hnd as [|? ? Hnx Hnd']; subst.
  rewrite IH; [|exact Hnd'|intros xv Hxv; apply Hv; right; exact Hxv].
  destruct (feqb O x b) eqn:E; cbn [orb].
  - apply (feqb_true O L) in E; subst x.
    assert (Hnb : existsb (fun x => feqb O x b) (map fst pts) = false).
    { apply not_true_is_false. intros H. apply existsb_exists in H. destruct H as [z [Hz1 Hz2]].
      apply (feqb_true O L) in Hz2; subst z. exact (Hnx Hz1). }
    rewrite Hnb. pose proof (Hv (b, v) (or_introl eq_refl)) as Hvb. cbn [fst snd] in Hvb. rewrite Hvb.
    transitivity (hor f b * (lag_coef xl b * hor (lag_basis xl b) b)); [ring|].
    rewrite basis_at_self. ring.
  - apply (feqb_false O L) in E.
    rewrite (basis_at_other xl x b Hb); [|congruence].
    ring.
Qed.

Lemma existsb_self xl b : In b xl -> existsb (fun x => feqb O x b) xl = true.
Proof. intros H. apply existsb_exists. exists b. split; [exact H|]. apply (feqb_true O L). reflexivity. Qed.

Lemma lag_term_length xl xv : NoDup xl -> In (fst xv) xl -> length (lag_term xl xv) = length xl.
Proof.
  intros Hnd Hin. unfold lag_term, lag_basis. rewrite (pscale_length O), (prod_lin_length O).
  apply rm_length; assumption.
Qed.

Lemma lag_poly_length xl pts :
  NoDup xl -> (forall xv, In xv pts -> In (fst xv) xl) -> pts <> [] ->
  length (lag_poly xl pts) = length xl.
Proof.
  intros Hnd. induction pts as [|xv pts IH]; intros Hin Hne; [congruence|].
  cbn [lag_poly fold_right]. fold (lag_poly xl pts). rewrite (padd_length O).
  rewrite lag_term_length; [|exact Hnd|apply Hin; left; reflexivity].
  destruct pts as [|xv' pts'].
  - cbn. lia.
  - rewrite IH; [lia| |congruence]. intros z Hz; apply Hin; right; exact Hz.
Qed.

Lemma lag_poly_length_le xl pts :
  NoDup xl -> (forall xv, In xv pts -> In (fst xv) xl) ->
  (length (lag_poly xl pts) <= length xl)%nat.
Proof.
  intros Hnd Hin. destruct pts as [|xv pts]; [cbn; lia|].
  rewrite lag_poly_length; [lia|exact Hnd|exact Hin|congruence].
Qed.

(* the difference polynomial A - B *)
Definition pdiff (a b : list F) : list F := padd a (pscale (fopp O (f1 O)) b).

Lemma hor_pdiff a b y : hor (pdiff a b) y = hor a y - hor b y.
Proof. unfold pdiff. rewrite (hor_padd O L), (hor_pscale O L). ring. Qed.

Lemma pdiff_allz_eq a b : length a = length b -> allz O (pdiff a b) -> a = b.
Proof.
  revert b; induction a as [|x a IH]; intros b Hlen Hz; destruct b as [|y b]; cbn [length] in Hlen; try discriminate Hlen; [reflexivity|].
  unfold pdiff, Share.pscale in Hz. cbn [map Share.padd] in Hz. inversion Hz as [|? ? H1 H2]; subst.
  f_equal.
  - assert (x = (x + fopp O (f1 O) * y) + y) as -> by ring. rewrite H1. ring.
  - apply IH; [injection Hlen; trivial|exact H2].
Qed.

(* Main theorem, coefficient form. *)
Theorem lagrange_interpolates (f : list F) (pts : list (F * F)) :
  let xl := map fst pts in
  NoDup xl -> (length f <= length xl)%nat ->
  (forall xv, In xv pts -> snd xv = hor f (fst xv)) ->
  forall y, hor (lag_poly xl pts) y = hor f y.
Proof.
  intros xl Hnd Hlen Hv y.
  assert (Hz : allz O (pdiff (lag_poly xl pts) f)).
  { apply (roots_allz O L xl).
    - unfold pdiff. rewrite (padd_length O), (pscale_length O).
      pose proof (lag_poly_length_le xl pts Hnd) as Hle.
      assert ((length (lag_poly xl pts) <= length xl)%nat).
      { apply Hle. intros xv Hxv. apply in_map. exact Hxv. }
      lia.
    - exact Hnd.
    - intros b Hb. rewrite hor_pdiff, (lag_poly_at f xl pts b Hb Hnd Hv).
      fold xl. rewrite (existsb_self xl b Hb). ring. }
  pose proof (hor_allz O L _ y Hz) as E. rewrite hor_pdiff in E.
  apply (sub_eq_0 O L). exact E.
Qed.

Theorem lagrange_coefficients (f : list F) (pts : list (F * F)) :
  let xl := map fst pts in
  NoDup xl -> length f = length xl -> pts <> [] ->
  (forall xv, In xv pts -> snd xv = hor f (fst xv)) ->
  lag_poly xl pts = f.
Proof.
  intros xl Hnd Hlen Hne Hv.
  apply pdiff_allz_eq.
  - rewrite lag_poly_length; [symmetry; exact Hlen|exact Hnd| |exact Hne].
    intros xv Hxv. apply in_map. exact Hxv.
  - apply (roots_allz O L xl).
    + unfold pdiff. rewrite (padd_length O), (pscale_length O).
      rewrite lag_poly_length; [lia|exact Hnd| |exact Hne]. intros xv Hxv. apply in_map. exact Hxv.
    + exact Hnd.
    + intros b Hb. rewrite hor_pdiff, (lag_poly_at f xl pts b Hb Hnd Hv).
      fold xl. rewrite (existsb_self xl b Hb). ring.
Qed.

(* Uniqueness of the interpolating coefficient list, stated for any candidate P. *)
Theorem interp_unique_eval (xl : list F) (P f : list F) :
  NoDup xl -> (length P <= length xl)%nat -> (length f <= length xl)%nat ->
  (forall b, In b xl -> hor P b = hor f b) -> forall y, hor P y = hor f y.
Proof.
  intros Hnd HP Hf Hag y.
  assert (Hz : allz O (pdiff P f)).
  { apply (roots_allz O L xl).
    - unfold pdiff. rewrite (padd_length O), (pscale_length O). lia.
    - exact Hnd.
    - intros b Hb. rewrite hor_pdiff, (Hag b Hb). ring. }
  pose proof (hor_allz O L _ y Hz) as E. rewrite hor_pdiff in E.
  apply (sub_eq_0 O L). exact E.
Qed.

Theorem interp_unique (xl : list F) (P f : list F) :
  NoDup xl -> length P = length f -> (length f <= length xl)%nat ->
  (forall b, In b xl -> hor P b = hor f b) -> P = f.
Proof.
  intros Hnd HP Hf Hag. apply pdiff_allz_eq; [exact HP|].
  apply (roots_allz O L xl).
  - unfold pdiff. rewrite (padd_length O), (pscale_length O). lia.
  - exact Hnd.
  - intros b Hb. rewrite hor_pdiff, (Hag b Hb). ring.
Qed.

End Lagrange.
