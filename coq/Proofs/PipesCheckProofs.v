(* PipesCheckProofs.v -- the boolean checker implies the static conditions. *)
From Coq Require Import List Arith Bool Lia PeanoNat.
From DosVerif Require Import Models.Pipes Models.PipesCheck.
Import ListNotations.

Lemma event_eqb_eq a b : event_eqb a b = true <-> a = b.
Proof.
  destruct a, b; cbn; split; intros H; try discriminate; try (apply Nat.eqb_eq in H; subst; reflexivity);
    try (inversion H; apply Nat.eqb_refl).
Qed.

Lemma memb_in e l : memb e l = true <-> In e l.
Proof.
  unfold memb. rewrite existsb_exists. split.
  - intros [x [Hx He]]. apply event_eqb_eq in He. subst. exact Hx.
  - intros H. exists e. split; [exact H|apply event_eqb_eq; reflexivity].
Qed.

Lemma memb_false e l : memb e l = false -> ~ In e l.
Proof. intros H Hin. apply memb_in in Hin. congruence. Qed.

Lemma inclb_incl a b : inclb a b = true -> incl a b.
Proof. unfold inclb. rewrite forallb_forall. intros H e He. apply memb_in. apply H; exact He. Qed.

Lemma memn_in n l : memn n l = true <-> In n l.
Proof.
  unfold memn. rewrite existsb_exists. split.
  - intros [x [Hx He]]. apply Nat.eqb_eq in He. subst. exact Hx.
  - intros H. exists n. split; [exact H|apply Nat.eqb_refl].
Qed.

Lemma nodupb_nodup l : nodupb l = true -> NoDup l.
Proof.
  induction l as [|x t IH]; cbn; intros H; [constructor|].
  apply andb_true_iff in H. destruct H as [H1 H2]. constructor; [|apply IH; exact H2].
  intros Hin. apply memn_in in Hin. rewrite Hin in H1. discriminate.
Qed.

Lemma opt_is_eq o p : opt_is o p = true <-> o = Some p.
Proof.
  destruct o as [q|]; cbn; split; intros H; try discriminate.
  - apply Nat.eqb_eq in H. subst; reflexivity.
  - inversion H. apply Nat.eqb_refl.
Qed.

Section Sound.
Variable N : net.
Hypothesis Hc : check_net N = true.

Lemma chk_parts :
  0 < rkbound N /\
  forallb (fun c => match closer N c with Some p => p <? length (procs N) | None => true end)
          (seq 0 (length (closers N))) = true /\
  forallb (fun w => forallb (fun m => m <? length (procs N)) (members N w) && nodupb (members N w))
          (seq 0 (length (wgs N))) = true /\
  forallb (check_proc N) (seq 0 (length (procs N))) = true /\
  forallb (fun c => if owes N c then match closer N c with Some _ => true | None => false end else true)
          (seq 0 (length (owed N))) = true.
Proof.
  unfold check_net in Hc.
  apply andb_prop in Hc. destruct Hc as [H1234 Hp].
  apply andb_prop in H1234. destruct H1234 as [H123 Hw].
  apply andb_prop in H123. destruct H123 as [H12 Ho].
  apply andb_prop in H12. destruct H12 as [H1 H2].
  repeat split; try assumption. apply Nat.ltb_lt. exact H1.
Qed.

Lemma chk_owed c : owes N c = true -> exists p, closer N c = Some p.
Proof.
  intros Ho. destruct chk_parts as [_ [_ [_ [_ H5]]]].
  destruct (le_lt_dec (length (owed N)) c) as [Hl|Hl].
  - unfold owes in Ho. rewrite nth_overflow in Ho by exact Hl. discriminate.
  - rewrite forallb_forall in H5. specialize (H5 c). rewrite in_seq in H5.
    specialize (H5 (conj (Nat.le_0_l _) Hl)). rewrite Ho in H5.
    destruct (closer N c) as [p|]; [exists p; reflexivity|discriminate].
Qed.

Lemma chk_closers c p : closer N c = Some p -> p < length (procs N).
Proof.
  intros Hcl. destruct chk_parts as [_ [H2 _]].
  destruct (le_lt_dec (length (closers N)) c) as [Hl|Hl].
  - unfold closer in Hcl. rewrite nth_overflow in Hcl by exact Hl. discriminate.
  - rewrite forallb_forall in H2. specialize (H2 c). rewrite in_seq in H2.
    specialize (H2 (conj (Nat.le_0_l _) Hl)). rewrite Hcl in H2. apply Nat.ltb_lt. exact H2.
Qed.

Lemma chk_members w : (forall m, In m (members N w) -> m < length (procs N)) /\ NoDup (members N w).
Proof.
  destruct chk_parts as [_ [_ [H3 _]]].
  destruct (le_lt_dec (length (wgs N)) w) as [Hl|Hl].
  - unfold members. rewrite nth_overflow by exact Hl. split; [intros m []|constructor].
  - rewrite forallb_forall in H3. specialize (H3 w). rewrite in_seq in H3.
    specialize (H3 (conj (Nat.le_0_l _) Hl)). apply andb_prop in H3. destruct H3 as [Ha Hb].
    split; [|apply nodupb_nodup; exact Hb].
    intros m Hm. rewrite forallb_forall in Ha. apply Nat.ltb_lt. apply Ha; exact Hm.
Qed.

Lemma chk_proc p : p < length (procs N) ->
  0 < length (code (P N p)) /\ must_at N p 0 = [] /\
  (forall r, In r (rk (P N p)) -> r < rkbound N) /\
  (forall pc, pc < length (code (P N p)) -> check_node N p pc = true).
Proof.
  intros Hp. destruct chk_parts as [_ [_ [_ [H4 _]]]].
  rewrite forallb_forall in H4. specialize (H4 p). rewrite in_seq in H4.
  specialize (H4 (conj (Nat.le_0_l _) Hp)). unfold check_proc in H4.
  apply andb_prop in H4. destruct H4 as [H123 Hd].
  apply andb_prop in H123. destruct H123 as [H12 Hc3].
  apply andb_prop in H12. destruct H12 as [Ha Hb].
  split; [apply Nat.ltb_lt; exact Ha|]. split.
  - apply inclb_incl in Hb. destruct (must_at N p 0) as [|e l]; [reflexivity|].
    exfalso. apply (Hb e). left; reflexivity.
  - split.
    + intros r Hr. rewrite forallb_forall in Hc3. apply Nat.ltb_lt. apply Hc3; exact Hr.
    + intros pc Hpc. rewrite forallb_forall in Hd. apply Hd. apply in_seq. lia.
Qed.

(* either the node is checked, or it is the NExit that stands for "no such node" *)
Lemma node_cases p pc :
  (p < length (procs N) /\ pc < length (code (P N p)) /\ check_node N p pc = true)
  \/ node_at N p pc = NExit /\ (length (procs N) <= p \/ length (code (P N p)) <= pc).
Proof.
  destruct (le_lt_dec (length (procs N)) p) as [Hp|Hp].
  - right. split; [|left; exact Hp]. unfold node_at, P. rewrite (nth_overflow (procs N) dummy_proc Hp). cbn. destruct pc; reflexivity.
  - destruct (le_lt_dec (length (code (P N p))) pc) as [Hl|Hl].
    + right. split; [|right; exact Hl]. unfold node_at. apply nth_overflow. exact Hl.
    + left. split; [exact Hp|split; [exact Hl|]].
      apply (proj2 (proj2 (proj2 (chk_proc p Hp)))). exact Hl.
Qed.

Record node_checked (p pc : nat) : Prop := mknc {
  nc_succ : forall k, In k (succs_of (node_at N p pc)) -> k < length (code (P N p));
  nc_rk : forall k, In k (rk_edges (node_at N p pc)) -> rk_at N p k < rk_at N p pc;
  nc_must : forall k, In k (succs_of (node_at N p pc)) ->
              incl (must_at N p k) (events_of (node_at N p pc) ++ must_at N p pc);
  nc_may : forall k, In k (succs_of (node_at N p pc)) ->
              incl (events_of (node_at N p pc) ++ may_at N p pc) (may_at N p k);
  nc_kind : kind_ok N p pc (node_at N p pc) = true
}.

Lemma check_node_spec p pc : check_node N p pc = true -> node_checked p pc.
Proof.
  intros H. unfold check_node in H. cbv zeta in H.
  apply andb_prop in H. destruct H as [H1234 H5].
  apply andb_prop in H1234. destruct H1234 as [H123 H4].
  apply andb_prop in H123. destruct H123 as [H12 H3].
  apply andb_prop in H12. destruct H12 as [H1 H2].
  rewrite forallb_forall in H1, H2, H3, H4.
  constructor.
  - intros k Hk. apply Nat.ltb_lt. apply H1; exact Hk.
  - intros k Hk. apply Nat.ltb_lt. apply H2; exact Hk.
  - intros k Hk. apply inclb_incl. apply H3; exact Hk.
  - intros k Hk. apply inclb_incl. apply H4; exact Hk.
  - exact H5.
Qed.

Lemma checked_or_exit p pc :
  node_checked p pc \/ node_at N p pc = NExit /\ (length (procs N) <= p \/ length (code (P N p)) <= pc).
Proof.
  destruct (node_cases p pc) as [[_ [_ H]]|H]; [left; apply check_node_spec; exact H|right; exact H].
Qed.

Theorem check_net_sound : wf N.
Proof.
  constructor.
  - intros c p. apply chk_closers.
  - apply chk_owed.
  - intros w m. apply (proj1 (chk_members w)).
  - intros w. apply (proj2 (chk_members w)).
  - intros p Hp. apply (proj1 (chk_proc p Hp)).
  - (* successor range *)
    intros p pc k Hpc Hk. destruct (checked_or_exit p pc) as [Hn|[Hn _]].
    + apply (nc_succ p pc Hn); exact Hk.
    + rewrite Hn in Hk. contradiction.
  - (* tau nonempty *)
    intros p pc Hn. destruct (checked_or_exit p pc) as [Hck|[Hx _]]; [|congruence].
    pose proof (nc_kind p pc Hck) as Hk. rewrite Hn in Hk. cbn in Hk. discriminate.
  - (* rk bound *)
    intros p pc. destruct chk_parts as [Hpos _].
    destruct (le_lt_dec (length (procs N)) p) as [Hp|Hp].
    + unfold rk_at, P. rewrite (nth_overflow (procs N) dummy_proc Hp). cbn. destruct pc; exact Hpos.
    + destruct (le_lt_dec (length (rk (P N p))) pc) as [Hr|Hr].
      * unfold rk_at. rewrite nth_overflow by exact Hr. exact Hpos.
      * apply (proj1 (proj2 (proj2 (chk_proc p Hp)))). unfold rk_at. apply nth_In. exact Hr.
  - (* rk edges *)
    intros p pc k Hk. destruct (checked_or_exit p pc) as [Hn|[Hn _]].
    + apply (nc_rk p pc Hn); exact Hk.
    + rewrite Hn in Hk. contradiction.
  - (* must at 0 *)
    intros p. destruct (le_lt_dec (length (procs N)) p) as [Hp|Hp].
    + unfold must_at, P. rewrite (nth_overflow (procs N) dummy_proc Hp). reflexivity.
    + apply (proj1 (proj2 (chk_proc p Hp))).
  - intros p pc k Hk. destruct (checked_or_exit p pc) as [Hn|[Hn _]].
    + apply (nc_must p pc Hn); exact Hk.
    + rewrite Hn in Hk. contradiction.
  - intros p pc k Hk. destruct (checked_or_exit p pc) as [Hn|[Hn _]].
    + apply (nc_may p pc Hn); exact Hk.
    + rewrite Hn in Hk. contradiction.
  - (* await *)
    intros p pc arms df Hn. destruct (checked_or_exit p pc) as [Hck|[Hx _]]; [|congruence].
    pose proof (nc_kind p pc Hck) as Hk. rewrite Hn in Hk. cbn in Hk.
    apply andb_prop in Hk. destruct Hk as [Hk _]. apply andb_prop in Hk. destruct Hk as [Hk1 Hk2].
    split.
    + intros -> ->. cbn in Hk1. discriminate.
    + intros a Ha. rewrite forallb_forall in Hk2. specialize (Hk2 a Ha).
      destruct a as [c kv kc|c k]; cbn in Hk2; [|discriminate].
      destruct (closer N c) as [q|] eqn:Hq; [|discriminate].
      apply andb_prop in Hk2. destruct Hk2 as [Hko Hkr].
      exists c, kv, kc, q. repeat split; auto. apply Nat.ltb_lt. exact Hkr.
  - (* close *)
    intros p pc c k Hn. destruct (checked_or_exit p pc) as [Hck|[Hx _]]; [|congruence].
    pose proof (nc_kind p pc Hck) as Hk. rewrite Hn in Hk. cbn in Hk.
    apply andb_prop in Hk. destruct Hk as [Hk Hk3]. apply andb_prop in Hk. destruct Hk as [Hk1 Hk2].
    split; [apply opt_is_eq; exact Hk1|]. split.
    + apply memb_false. apply negb_true_iff. exact Hk2.
    + intros w Hw. rewrite Hw in Hk3. apply memb_in. exact Hk3.
  - (* exit *)
    intros p pc Hpc Hn. destruct (checked_or_exit p pc) as [Hck|[_ [Hx|Hx]]].
    + pose proof (nc_kind p pc Hck) as Hk. rewrite Hn in Hk. cbn in Hk.
      apply andb_prop in Hk. destruct Hk as [Hk1 Hk2]. rewrite forallb_forall in Hk1, Hk2. split.
      * intros c Hcl How. destruct (le_lt_dec (length (closers N)) c) as [Hl|Hl].
        -- unfold closer in Hcl. rewrite nth_overflow in Hcl by exact Hl. discriminate.
        -- specialize (Hk1 c). rewrite in_seq in Hk1. specialize (Hk1 (conj (Nat.le_0_l _) Hl)).
           rewrite (proj2 (opt_is_eq _ _) Hcl), How in Hk1. apply memb_in. exact Hk1.
      * intros w Hw. destruct (le_lt_dec (length (wgs N)) w) as [Hl|Hl].
        -- unfold members in Hw. rewrite nth_overflow in Hw by exact Hl. contradiction.
        -- specialize (Hk2 w). rewrite in_seq in Hk2. specialize (Hk2 (conj (Nat.le_0_l _) Hl)).
           rewrite (proj2 (memn_in _ _) Hw) in Hk2. apply memb_in. exact Hk2.
    + (* no such process: it owes nothing *)
      split.
      * intros c Hcl _. apply chk_closers in Hcl. lia.
      * intros w Hw. apply (proj1 (chk_members w)) in Hw. lia.
    + lia.
  - (* wg done *)
    intros p pc w k Hn. destruct (checked_or_exit p pc) as [Hck|[Hx _]]; [|congruence].
    pose proof (nc_kind p pc Hck) as Hk. rewrite Hn in Hk. cbn in Hk.
    apply andb_prop in Hk. destruct Hk as [Hk1 Hk2]. split.
    + apply memn_in. exact Hk1.
    + apply memb_false. apply negb_true_iff. exact Hk2.
  - (* wg wait *)
    intros p pc w k Hn. destruct (checked_or_exit p pc) as [Hck|[Hx _]]; [|congruence].
    pose proof (nc_kind p pc Hck) as Hk. rewrite Hn in Hk. cbn in Hk.
    rewrite forallb_forall in Hk. intros m Hm. apply Nat.ltb_lt. apply Hk; exact Hm.
  - (* send *)
    intros p pc arms dn df c k Hn Hin. destruct (checked_or_exit p pc) as [Hck|[Hx _]]; [|congruence].
    pose proof (nc_kind p pc Hck) as Hk. rewrite Hn in Hk. cbn in Hk.
    apply andb_prop in Hk. destruct Hk as [_ Hk]. rewrite forallb_forall in Hk.
    specialize (Hk _ Hin). cbn in Hk. unfold send_ok in Hk.
    destruct (closer N c) as [q|] eqn:Hq; [|left; reflexivity]. right.
    apply orb_prop in Hk. destruct Hk as [Hk|Hk].
    + left. apply andb_prop in Hk. destruct Hk as [Hk1 Hk2]. apply Nat.eqb_eq in Hk1. subst q.
      split; [reflexivity|]. apply memb_false. apply negb_true_iff. exact Hk2.
    + right. destruct (wg_for N c) as [w|] eqn:Hw; [|discriminate].
      apply andb_prop in Hk. destruct Hk as [Hk1 Hk2]. exists w. split; [reflexivity|]. split.
      * apply memn_in. exact Hk1.
      * apply memb_false. apply negb_true_iff. exact Hk2.
Qed.
End Sound.
