(* StagesProofs.v -- C07: layout of the signed content. *)
From Coq Require Import ZArith NArith List Bool Lia ZifyN ZifyNat ZifyBool.
From DosVerif Require Import Base.Val Models.Stages.
Import ListNotations.
Ltac Zify.zify_post_hook ::= Z.div_mod_to_equations.

Lemma be_enc_length k n : length (be_enc k n) = k.
Proof. revert n; induction k as [|k IH]; intros n; [reflexivity|]. cbn [be_enc]. rewrite app_length, IH. cbn. lia. Qed.

Lemma pow256_succ k : (256 ^ N.of_nat (S k) = 256 * 256 ^ N.of_nat k)%N.
Proof. rewrite Nat2N.inj_succ, N.pow_succ_r'. reflexivity. Qed.

(* one more byte of width in front of a number that already fits is a zero byte *)
Lemma be_enc_succ_small : forall k n, (n < 256 ^ N.of_nat k)%N -> be_enc (S k) n = 0%N :: be_enc k n.
Proof.
  induction k as [|k IH]; intros n H.
  - cbn in H. assert (n = 0%N) by lia. subst. reflexivity.
  - change (be_enc (S (S k)) n) with (be_enc (S k) (n / 256) ++ [(n mod 256)%N]).
    rewrite IH.
    + reflexivity.
    + rewrite pow256_succ in H. apply N.div_lt_upper_bound; lia.
Qed.

Lemma be_enc_add_small j k n : (n < 256 ^ N.of_nat k)%N -> be_enc (j + k) n = repeat 0%N j ++ be_enc k n.
Proof.
  intros H. induction j as [|j IH]; [reflexivity|].
  change (S j + k) with (S (j + k)). rewrite be_enc_succ_small.
  - rewrite IH. reflexivity.
  - apply N.lt_le_trans with (256 ^ N.of_nat k)%N; [exact H|].
    apply N.pow_le_mono_r; lia.
Qed.

Lemma drop_zeros_repeat j l : drop_zeros (repeat 0%N j ++ l) = drop_zeros l.
Proof. induction j as [|j IH]; [reflexivity|exact IH]. Qed.

(* padding the zero-stripped form back to the original length gives the original *)
Lemma pad_drop_zeros l : repeat 0%N (length l - length (drop_zeros l)) ++ drop_zeros l = l.
Proof.
  induction l as [|b l IH]; [reflexivity|].
  destruct b as [|p].
  - cbn [drop_zeros length].
    assert (Hle : length (drop_zeros l) <= length l).
    { clear IH. induction l as [|c l IHl]; [cbn; lia|]. destruct c; cbn [drop_zeros length]; lia. }
    replace (S (length l) - length (drop_zeros l)) with (S (length l - length (drop_zeros l))) by lia.
    cbn [repeat app]. f_equal. exact IH.
  - cbn [drop_zeros length]. replace (S (length l) - S (length l)) with 0 by lia. reflexivity.
Qed.

Lemma drop_zeros_length_le l : length (drop_zeros l) <= length l.
Proof. induction l as [|c l IH]; [cbn; lia|]. destruct c; cbn [drop_zeros length]; lia. Qed.

Lemma size_bound n : (n < 256 ^ N.of_nat (N.to_nat (N.size n)))%N.
Proof.
  rewrite N2Nat.id. apply N.lt_le_trans with (2 ^ N.size n)%N; [apply N.size_gt|].
  apply N.pow_le_mono_l. lia.
Qed.

(* the minimal encoding is the fixed-width one without its leading zeros, for any sufficient width *)
Lemma be_min_of_enc k n : (n < 256 ^ N.of_nat k)%N -> be_min n = drop_zeros (be_enc k n).
Proof.
  intros H. unfold be_min. set (K := N.to_nat (N.size n)).
  destruct (Nat.le_ge_cases k K) as [Hle|Hge].
  - replace K with ((K - k) + k) by lia. rewrite be_enc_add_small by exact H. apply drop_zeros_repeat.
  - replace k with ((k - K) + K) by lia. rewrite (be_enc_add_small (k - K) K n (size_bound n)).
    symmetry. apply drop_zeros_repeat.
Qed.

Theorem pad_be_min k n : (n < 256 ^ N.of_nat k)%N -> pad_or_trim (be_min n) k = be_enc k n.
Proof.
  intros H. rewrite (be_min_of_enc k n H). unfold pad_or_trim.
  pose proof (drop_zeros_length_le (be_enc k n)) as Hle. rewrite be_enc_length in Hle.
  destruct (Nat.eqb (length (drop_zeros (be_enc k n))) k) eqn:E1.
  - apply Nat.eqb_eq in E1. pose proof (pad_drop_zeros (be_enc k n)) as P.
    rewrite be_enc_length, E1, Nat.sub_diag in P. exact P.
  - replace (Nat.ltb k (length (drop_zeros (be_enc k n)))) with false by (symmetry; apply Nat.ltb_ge; lia).
    pose proof (pad_drop_zeros (be_enc k n)) as P. rewrite be_enc_length in P. exact P.
Qed.

Lemma pad_or_trim_length bb k : length (pad_or_trim bb k) = k.
Proof.
  unfold pad_or_trim. destruct (Nat.eqb (length bb) k) eqn:E1; [apply Nat.eqb_eq; exact E1|].
  destruct (Nat.ltb k (length bb)) eqn:E2.
  - apply Nat.ltb_lt in E2. rewrite skipn_length. lia.
  - apply Nat.ltb_ge in E2. apply Nat.eqb_neq in E1. rewrite app_length, repeat_length. lia.
Qed.

(* system randomness: exactly the 32-byte big-endian value followed by the address *)
Theorem sys_layout r a : (r < 2 ^ 256)%N ->
  sys_content (be_min r) a = be_enc 32 r ++ a.
Proof.
  intros H. unfold sys_content, rand_size. rewrite pad_be_min; [reflexivity|].
  change (256 ^ N.of_nat 32)%N with (2 ^ 256)%N. exact H.
Qed.

Theorem sys_length r a : length (sys_content r a) = 32 + length a.
Proof. unfold sys_content. rewrite app_length, pad_or_trim_length. reflexivity. Qed.

(* larger values keep their low-order 32 bytes *)
Theorem sys_trim bb a : 32 < length bb ->
  sys_content bb a = skipn (length bb - 32) bb ++ a.
Proof.
  intros H. unfold sys_content, pad_or_trim, rand_size.
  replace (Nat.eqb (length bb) 32) with false by (symmetry; apply Nat.eqb_neq; lia).
  replace (Nat.ltb 32 (length bb)) with true by (symmetry; apply Nat.ltb_lt; lia). reflexivity.
Qed.

(* the submitted result is the signed string without the trailing address *)
Theorem strip_inverse x a : length a = 20 -> strip (x ++ a) = Ok x.
Proof.
  intros H. unfold strip, addr_len. rewrite app_length, H.
  replace (Nat.ltb (length x + 20) 20) with false by (symmetry; apply Nat.ltb_ge; lia).
  replace (length x + 20 - 20) with (length x) by lia.
  rewrite firstn_app, Nat.sub_diag, firstn_all, firstn_O, app_nil_r. reflexivity.
Qed.

Theorem strip_sys r a : (r < 2 ^ 256)%N -> length a = 20 -> strip (sys_content (be_min r) a) = Ok (be_enc 32 r).
Proof. intros H Ha. rewrite sys_layout by exact H. apply strip_inverse. exact Ha. Qed.

Theorem strip_user id r seed a : length a = 20 ->
  strip (user_content id r seed a) = Ok (id ++ r ++ seed).
Proof.
  intros Ha. unfold user_content.
  replace (id ++ r ++ seed ++ a) with ((id ++ r ++ seed) ++ a) by (rewrite <- !app_assoc; reflexivity).
  apply strip_inverse. exact Ha.
Qed.

Theorem strip_query res a : length a = 20 -> strip (query_content res a) = Ok res.
Proof. intros Ha. apply strip_inverse. exact Ha. Qed.

(* the submitter: index in range, depends on the low 64 bits only, is a member of the list *)
Theorem submitter_range r n : (0 < n)%N -> exists i, submitter_index r n = Ok i /\ (i < n)%N.
Proof.
  intros H. unfold submitter_index. replace (N.eqb n 0) with false by (symmetry; apply N.eqb_neq; lia).
  eexists. split; [reflexivity|]. apply N.mod_lt. lia.
Qed.

Theorem submitter_low64 r r' n :
  (r mod 2 ^ 64 = r' mod 2 ^ 64)%N -> submitter_index r n = submitter_index r' n.
Proof.
  intros H. unfold submitter_index. change 18446744073709551616%N with (2 ^ 64)%N. rewrite H. reflexivity.
Qed.

Theorem submitter_member r ids : ids <> [] -> exists a, submitter r ids = Ok a /\ In a ids.
Proof.
  intros Hne. unfold submitter.
  destruct (submitter_range r (N.of_nat (length ids))) as [i [Hi Hlt]].
  { destruct ids; [congruence|cbn; lia]. }
  rewrite Hi. destruct (nth_error ids (N.to_nat i)) as [a|] eqn:E.
  - exists a. split; [reflexivity|]. eapply nth_error_In. exact E.
  - apply nth_error_None in E. lia.
Qed.
