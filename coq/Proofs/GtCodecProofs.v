(* GtCodecProofs.v -- C11 for GT: the 384-byte encoding round-trips through the decoder of
   Models/GtCodec.v, is injective, has a fixed length; short input is refused. *)
From Coq Require Import ZArith NArith List Bool Lia.
From DosVerif Require Import Base.Val Base.Field Gen.BnConsts Models.Bn Models.BnPairing Models.GtCodec
     Proofs.BnCodecProofs.
Import ListNotations.

Definition coords (e : fp12) : list Fp :=
  [c1 (sx (tx e)); c0 (sx (tx e)); c1 (sy (tx e)); c0 (sy (tx e)); c1 (sz (tx e)); c0 (sz (tx e));
   c1 (sx (ty e)); c0 (sx (ty e)); c1 (sy (ty e)); c0 (sy (ty e)); c1 (sz (ty e)); c0 (sz (ty e))].

Definition words (ws : list Fp) : list N := flat_map (fun v => be_bytes 32 (zv v)) ws.

Lemma marshal_words e : fp12_marshal e = words (coords e).
Proof.
  unfold fp12_marshal, words, coords. cbn [flat_map]. repeat rewrite <- app_assoc. rewrite app_nil_r. reflexivity.
Qed.

Lemma words_length ws : length (words ws) = (32 * length ws)%nat.
Proof.
  induction ws as [|w ws IH]; [reflexivity|]. unfold words in *. cbn [flat_map length].
  rewrite app_length, be_bytes_length, IH. lia.
Qed.

Lemma skipn_plus {A} (l : list A) : forall a b, skipn (a + b) l = skipn b (skipn a l).
Proof.
  intros a. revert l. induction a as [|a IH]; intros l b; [reflexivity|].
  destruct l as [|x l]; cbn [Nat.add skipn]; [destruct b; reflexivity|apply IH].
Qed.

Lemma gt_word_words : forall ws i rest,
  (i < length ws)%nat -> gt_word (words ws ++ rest) i = nth i ws (f0 fp_ops).
Proof.
  induction ws as [|w ws IH]; intros i rest H; [cbn in H; lia|].
  unfold gt_word. destruct i as [|i].
  - replace (32 * 0)%nat with 0%nat by reflexivity. cbn [skipn nth]. unfold words. cbn [flat_map].
    rewrite <- app_assoc, firstn_app_exact by (apply be_bytes_length). apply fp_word.
  - replace (32 * S i)%nat with (32 + 32 * i)%nat by lia. rewrite skipn_plus.
    unfold words at 1. cbn [flat_map]. rewrite <- app_assoc, skipn_app_exact by (apply be_bytes_length).
    cbn [nth]. apply (IH i rest). cbn [length] in H. lia.
Qed.

(* decode(encode(e) ++ anything) = e: every GT element survives the round trip unchanged *)
Theorem gt_roundtrip (e : fp12) (rest : list N) : fp12_unmarshal (fp12_marshal e ++ rest) = Some e.
Proof.
  unfold fp12_unmarshal. rewrite marshal_words.
  assert (Hl : Nat.ltb (length (words (coords e) ++ rest)) 384 = false).
  { apply Nat.ltb_ge. rewrite app_length, words_length. cbn [coords length]. lia. }
  rewrite Hl. cbv zeta. rewrite !gt_word_words by (cbn [coords length]; lia). cbn [coords nth].
  destruct e as [[[a b] [c d] [e f]] [[g h] [i j] [k l]]]. reflexivity.
Qed.

Theorem gt_length (e : fp12) : length (fp12_marshal e) = 384%nat.
Proof. rewrite marshal_words, words_length. reflexivity. Qed.

Theorem gt_injective (a b : fp12) : fp12_marshal a = fp12_marshal b -> a = b.
Proof.
  intros H. pose proof (gt_roundtrip a []) as Ha. pose proof (gt_roundtrip b []) as Hb.
  rewrite H in Ha. rewrite Ha in Hb. injection Hb as ->. reflexivity.
Qed.

Theorem gt_short (buf : list N) : (length buf < 384)%nat -> fp12_unmarshal buf = None.
Proof. intros H. unfold fp12_unmarshal. apply Nat.ltb_lt in H. rewrite H. reflexivity. Qed.

(* what the decoder does with everything else: any 384 bytes are taken (no membership test) *)
Theorem gt_long_accepted (buf : list N) : (384 <= length buf)%nat -> exists e, fp12_unmarshal buf = Some e.
Proof.
  intros H. unfold fp12_unmarshal. apply Nat.ltb_ge in H. rewrite H. eexists. reflexivity.
Qed.

(* and what it delivers re-encodes canonically: decoding that encoding gives the same element *)
Theorem gt_decoded_canonical (buf : list N) (e : fp12) :
  fp12_unmarshal buf = Some e -> fp12_unmarshal (fp12_marshal e) = Some e.
Proof. intros _. rewrite <- (app_nil_r (fp12_marshal e)). apply gt_roundtrip. Qed.
