(* PolyLemmas.v -- polynomial algebra over an abstract field with decidable equality:
   Horner evaluation, synthetic division, "a coefficient list of length <= n that vanishes at n
   distinct points is the zero list", and Lagrange interpolation in coefficient form. *)
From Coq Require Import ZArith List Bool Lia Field Permutation.
From DosVerif Require Import Base.Val Base.Field Models.Share.
Import ListNotations.

Section PolyLemmas.
Context {F : Type}.
Variable O : Fops F.
Hypothesis L : Flaws O.

Notation "0" := (f0 O). Notation "1" := (f1 O).
Infix "+" := (fadd O). Infix "*" := (fmul O). Infix "-" := (fsub O).
Notation "- x" := (fopp O x).
Notation "/ x" := (finv O x).
Notation hor := (horner O).

Definition Fth := F_th O L.
Add Field Ff : Fth.

Lemma feqb_true a b : feqb O a b = true <-> a = b. Proof. apply (F_eqb O L). Qed.
Lemma feqb_false a b : feqb O a b = false <-> a <> b.
Proof. rewrite <- feqb_true. destruct (feqb O a b); split; congruence. Qed.
Lemma feq_dec (a b : F) : {a = b} + {a <> b}.
Proof. destruct (feqb O a b) eqn:E; [left; apply feqb_true; exact E | right; apply feqb_false; exact E]. Qed.

Lemma one_neq_zero : 1 <> 0.
Proof. exact (F_1_neq_0 Fth). Qed.

Lemma mul_eq_0 a b : a * b = 0 -> a = 0 \/ b = 0.
Proof.
  intros H. destruct (feq_dec a 0) as [Ha|Ha]; [left; exact Ha|right].
  assert (b = / a * (a * b)) as -> by (field; exact Ha). rewrite H. ring.
Qed.

Lemma sub_eq_0 a b : a - b = 0 <-> a = b.
Proof. split; intros H. - assert (a = (a - b) + b) as -> by ring. rewrite H. ring. - subst. ring. Qed.

(* ---------------------------------------------------------------- Horner *)

Lemma hor_nil x : hor [] x = 0. Proof. reflexivity. Qed.
Lemma hor_cons c p x : hor (c :: p) x = hor p x * x + c. Proof. reflexivity. Qed.

Lemma hor_0 p : hor p 0 = hd 0 p.
Proof. destruct p as [|c p]; [reflexivity|]. rewrite hor_cons. cbn [hd]. ring. Qed.

Definition allz (p : list F) : Prop := Forall (fun c => c = 0) p.

Lemma hor_allz p x : allz p -> hor p x = 0.
Proof. induction 1 as [|c p Hc _ IH]; [reflexivity|]. rewrite hor_cons, IH, Hc. ring. Qed.

(* ---------------------------------------------------------------- synthetic division *)

Fixpoint sd (p : list F) (a : F) : list F :=
  match p with
  | [] => []
  | c :: p' => (c + a * hd 0 (sd p' a)) :: sd p' a
  end.

Lemma sd_length p a : length (sd p a) = length p.
Proof. induction p as [|c p IH]; cbn; congruence. Qed.

Lemma sd_hd p a : hd 0 (sd p a) = hor p a.
Proof. induction p as [|c p IH]; [reflexivity|]. cbn [sd hd]. rewrite hor_cons, IH. ring. Qed.

Lemma hor_hd_tl p x : hor p x = hor (tl p) x * x + hd 0 p.
Proof. destruct p as [|c p]; cbn [tl hd]; [rewrite hor_nil; ring | apply hor_cons]. Qed.

Lemma sd_spec p a x : hor p x = (x - a) * hor (tl (sd p a)) x + hor p a.
Proof.
  induction p as [|c p IH]; [cbn; ring|].
  cbn [sd tl]. rewrite !hor_cons, IH.
  rewrite (hor_hd_tl (sd p a) x), sd_hd. ring.
Qed.

Lemma sd_allz p a : allz (tl (sd p a)) -> hor p a = 0 -> allz p.
Proof.
  induction p as [|c p IH]; intros Hq Hr; [constructor|].
  cbn [sd tl] in Hq. rewrite hor_cons in Hr.
  assert (Hp : allz p).
  { destruct p as [|c' p']; [constructor|]. apply IH.
    - cbn [sd tl]. cbn [sd] in Hq. inversion Hq; assumption.
    - rewrite <- sd_hd. cbn [sd hd]. cbn [sd] in Hq. inversion Hq; assumption. }
  constructor; [|exact Hp]. rewrite (hor_allz p a Hp) in Hr.
  assert (c = 0 * a + c) as -> by ring. exact Hr.
Qed.

(* ---------------------------------------------------------------- roots *)

Theorem roots_allz : forall (xs : list F) (p : list F),
  (length p <= length xs)%nat -> NoDup xs -> (forall x, In x xs -> hor p x = 0) -> allz p.
Proof.
  induction xs as [|a xs IH]; intros p Hlen Hnd Hroot.
  - destruct p; [constructor | cbn in Hlen; lia].
  - apply (sd_allz p a); [|apply Hroot; left; reflexivity].
    apply IH.
    + destruct p as [|c p]; [cbn; lia|]. cbn [sd tl]. rewrite sd_length. cbn in Hlen. lia.
    + inversion Hnd; assumption.
    + intros x Hx. pose proof (sd_spec p a x) as E.
      rewrite (Hroot x (or_intror Hx)), (Hroot a (or_introl eq_refl)) in E.
      assert (Hxa : x - a <> 0).
      { rewrite sub_eq_0. intros ->. inversion Hnd; contradiction. }
      assert (E' : (x - a) * hor (tl (sd p a)) x = 0) by (rewrite E; ring).
      destruct (mul_eq_0 _ _ E') as [H|H]; [contradiction|exact H].
Qed.

(* ---------------------------------------------------------------- padd / pscale / pmul *)

Notation padd := (padd O). Notation pscale := (pscale O). Notation pmul := (pmul O).

Lemma hor_padd p q x : hor (padd p q) x = hor p x + hor q x.
Proof.
  revert q; induction p as [|a p IH]; intros q; [cbn [Share.padd]; rewrite hor_nil; ring|].
  destruct q as [|b q]; [cbn [Share.padd]; rewrite hor_nil; ring|].
  cbn [Share.padd]. rewrite !hor_cons, IH. ring.
Qed.

Lemma hor_pscale k p x : hor (pscale k p) x = k * hor p x.
Proof.
  unfold Share.pscale. induction p as [|a p IH]; cbn [map].
  - change (hor [] x) with 0. ring.
  - rewrite !hor_cons, IH. ring.
Qed.

Lemma hor_pmul p q x : hor (pmul p q) x = hor p x * hor q x.
Proof.
  induction p as [|a p IH]; [cbn [Share.pmul]; change (hor [] x) with 0; ring|].
  cbn [Share.pmul]. rewrite hor_padd, hor_pscale, !hor_cons, IH. ring.
Qed.

Lemma padd_length p q : length (padd p q) = Nat.max (length p) (length q).
Proof.
  revert q; induction p as [|a p IH]; intros q; [reflexivity|].
  destruct q as [|b q]; [reflexivity|]. cbn [Share.padd length]. rewrite IH. reflexivity.
Qed.

Lemma pscale_length k p : length (pscale k p) = length p.
Proof. apply map_length. Qed.

Lemma pmul_lin_length p a b : p <> [] -> length (pmul p [a; b]) = S (length p).
Proof.
  induction p as [|c p IH]; intros Hne; [congruence|].
  cbn [Share.pmul]. rewrite padd_length, pscale_length. cbn [length].
  destruct p as [|c' p']; [reflexivity|].
  rewrite IH by congruence. cbn [length]. lia.
Qed.

(* sums and products over lists *)
Definition fsum (l : list F) : F := fold_right (fadd O) 0 l.
Definition fprod (l : list F) : F := fold_right (fmul O) 1 l.

Lemma fold_left_mul {A} (g : A -> F) (l : list A) (s : F) :
  fold_left (fun acc e => acc * g e) l s = s * fprod (map g l).
Proof. revert s; induction l as [|e l IH]; intros s; unfold fprod; cbn [fold_left map fold_right]; [ring|]. rewrite IH. unfold fprod. ring. Qed.

Lemma fprod_neq_0 l : (forall y, In y l -> y <> 0) -> fprod l <> 0.
Proof.
  induction l as [|y l IH]; intros H; unfold fprod; cbn [fold_right]; [apply one_neq_zero|]. fold (fprod l).
  intros E. destruct (mul_eq_0 _ _ E) as [E'|E'].
  - exact (H y (or_introl eq_refl) E').
  - apply IH; [|exact E']. intros z Hz. apply H. right; exact Hz.
Qed.

Lemma fprod_in_0 l : In 0 l -> fprod l = 0.
Proof.
  induction l as [|y l IH]; intros H; [destruct H|]. unfold fprod; cbn [fold_right]; fold (fprod l). destruct H as [->|H]; [ring|].
  rewrite IH by exact H. ring.
Qed.

(* Π (X - m) over a list of abscissae, as a coefficient list *)
Definition prod_lin (l : list F) : list F :=
  fold_left (fun b xm => pmul b [- xm; 1]) l [1].

Lemma prod_lin_gen l b x :
  hor (fold_left (fun b xm => pmul b [- xm; 1]) l b) x = hor b x * fprod (map (fun m => x - m) l).
Proof.
  revert b; induction l as [|m l IH]; intros b; unfold fprod; cbn [fold_left map fold_right]; [ring|].
  fold (fprod (map (fun m0 => x - m0) l)). rewrite IH, hor_pmul. rewrite !hor_cons. change (hor [] x) with 0. ring.
Qed.

Lemma hor_prod_lin l x : hor (prod_lin l) x = fprod (map (fun m => x - m) l).
Proof. unfold prod_lin. rewrite prod_lin_gen. rewrite hor_cons. change (hor [] x) with 0. ring. Qed.

Lemma prod_lin_length_gen l b : b <> [] ->
  length (fold_left (fun b xm => pmul b [- xm; 1]) l b) = (length b + length l)%nat
  /\ fold_left (fun b xm => pmul b [- xm; 1]) l b <> [].
Proof.
  revert b; induction l as [|m l IH]; intros b Hb; cbn [fold_left length]; [split; [lia|exact Hb]|].
  assert (Hne : pmul b [- m; 1] <> []).
  { intros E. apply (f_equal (@length F)) in E. rewrite pmul_lin_length in E by exact Hb. cbn in E. lia. }
  destruct (IH _ Hne) as [H1 H2]. split; [|exact H2].
  rewrite H1, pmul_lin_length by exact Hb. lia.
Qed.

Lemma prod_lin_length l : length (prod_lin l) = S (length l).
Proof. unfold prod_lin. destruct (prod_lin_length_gen l [1]) as [H _]; [congruence|]. rewrite H. reflexivity. Qed.

End PolyLemmas.
