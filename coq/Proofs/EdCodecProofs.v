(* EdCodecProofs.v -- C20: whatever FromBytes accepts is a well-formed point ON THE CURVE with the
   ordinate the bytes carry and the announced parity of x (when x is not zero) - over any field in which
   sqrtm1^2 = -1; nothing is assumed about the exponentiation (the candidate root is CHECKED by the
   code, v x^2 = u or v x^2 = -u, and that check is what the proof uses). *)
From Coq Require Import ZArith List Bool Field.
From DosVerif Require Import Base.Val Base.Field Gen.EdConsts Models.Ed Models.EdCodec Proofs.PolyLemmas Proofs.EdProofs.
Import ListNotations.

Section DecodeLaws.
Context {K : Type}.
Variable O : Fops K.
Hypothesis L : Flaws O.
Variable d sqrtm1 : K.
Variable parity : K -> bool.
Notation "0" := (f0 O). Notation "1" := (f1 O).
Infix "+" := (fadd O). Infix "*" := (fmul O). Infix "-" := (fsub O).
Notation "- x" := (fopp O x). Notation "/ x" := (finv O x).
Add Field Kc : (Fth O L).
Hypothesis sqrtm1_ok : sqrtm1 * sqrtm1 = fopp O (f1 O).

Lemma mk_ok (x y : K) :
  x * x * (y * y * d + 1) = y * y - 1 ->
  let p := mkext x y 1 (x * y) in
  ext_ok O p /\ on_curve O d p /\ ax O p = x /\ ay O p = y.
Proof.
  intros H p. pose proof (one_neq_zero O L) as N1.
  assert (Ax : ax O p = x) by (unfold ax, p; cbn [eX eZ]; field; exact N1).
  assert (Ay : ay O p = y) by (unfold ay, p; cbn [eY eZ]; field; exact N1).
  split; [split; [exact N1|unfold p; cbn [eX eY eZ eT]; ring]|].
  split; [|split; assumption].
  unfold on_curve. cbv zeta. rewrite Ax, Ay. apply (sub_eq_0 O L).
  transitivity ((y * y - 1) - x * x * (y * y * d + 1)); [ring|]. rewrite H. ring.
Qed.

Theorem decoded_on_curve (e : positive) (y : K) (neg : bool) (p : ext (K:=K)) :
  decode_y O d sqrtm1 parity e y neg = Some p ->
  ext_ok O p /\ on_curve O d p /\ ay O p = y /\
  (parity (ax O p) = neg \/ parity (- ax O p) <> neg).
Proof.
  unfold decode_y. cbv zeta.
  set (u := y * y - 1). set (v := y * y * d + 1).
  set (x0 := kpow O (v * v * v * (v * v * v) * v * u) e * (v * v * v) * u).
  assert (Fin : forall x, x * x * v = u ->
            forall q, Some (mkext (if Bool.eqb (parity x) neg then x else - x) y 1
                                  ((if Bool.eqb (parity x) neg then x else - x) * y)) = Some q ->
            ext_ok O q /\ on_curve O d q /\ ay O q = y /\ (parity (ax O q) = neg \/ parity (- ax O q) <> neg)).
  { intros x Hx q Hq. injection Hq as <-.
    destruct (Bool.eqb (parity x) neg) eqn:Ep.
    - destruct (mk_ok x y Hx) as [A [B [C D]]]. cbv zeta in *.
      split; [exact A|]. split; [exact B|]. split; [exact D|].
      left. rewrite C. apply Bool.eqb_prop. exact Ep.
    - assert (Hx' : (- x) * (- x) * v = u) by (rewrite <- Hx; ring).
      destruct (mk_ok (- x) y Hx') as [A [B [C D]]]. cbv zeta in *.
      split; [exact A|]. split; [exact B|]. split; [exact D|].
      right. rewrite C. replace (- - x) with x by ring. intros E. rewrite E, Bool.eqb_reflx in Ep. discriminate. }
  destruct (feqb O (x0 * x0 * v - u) 0) eqn:E1.
  - apply (feqb_true O L) in E1. apply (proj1 (sub_eq_0 O L _ _)) in E1. intros H. exact (Fin x0 E1 p H).
  - destruct (feqb O (x0 * x0 * v + u) 0) eqn:E2; [|discriminate].
    apply (feqb_true O L) in E2.
    assert (Hx : (x0 * sqrtm1) * (x0 * sqrtm1) * v = u).
    { transitivity (x0 * x0 * v * (sqrtm1 * sqrtm1)); [ring|]. rewrite sqrtm1_ok.
      transitivity (u - (x0 * x0 * v + u)); [ring|]. rewrite E2. ring. }
    intros H. exact (Fin (x0 * sqrtm1) Hx p H).
Qed.

(* the shape of what is returned: Z = 1, the ordinate as given, x of the announced parity or negated *)
Theorem decode_y_shape (e : positive) (y : K) (neg : bool) (p : ext (K:=K)) :
  decode_y O d sqrtm1 parity e y neg = Some p ->
  exists x, p = mkext (if Bool.eqb (parity x) neg then x else - x) y 1
                      ((if Bool.eqb (parity x) neg then x else - x) * y).
Proof.
  unfold decode_y. cbv zeta.
  match goal with
  | |- match ?ox with Some _ => _ | None => _ end = _ -> _ => destruct ox as [x|]; [|discriminate]
  end.
  intros H. injection H as <-. exists x. reflexivity.
Qed.

End DecodeLaws.
